import PGT.Proofs.ExclusionPrune
/-
P53 / C11 - exclusion is surgical on the IR, node by node, at every depth, ALSO for trees with embedded fields
(gogoproto.embed, by value or by pointer, nested in each other, below lists and maps).

`ExclusionPrune.lean` proves "build with `p` excluded = `prune p` (build without)" under "no embedded field in the tree".
With embedded fields three things change (`Build.lean`): the children of the embedded message are built at the path of
the EMBEDDING message and spliced into its field list (marked `parentIsOptionalEmbed` for a nullable embedded message);
the oneof groups of a message embedded by value are promoted to `oneOfNames` of the embedding message, computed from the
SURVIVING fields; and the embedded field itself has `Keys.path` = the path of the embedding message (`keysOf`; the Go
code: `field_build_context.go`, `path = m.GetPath()` for an embedded field - not `<embedding path>.<field>`).

  1. `pruneE` (`pruneFE` / `pruneFsE`)        `prune` on the nodes (recorded path `p`, placeholders kept), and
                                               `oneOfNames` of EVERY message recomputed by the build's own formula
                                               `reNames` over its surviving fields. Parameters `PCfg`: the `sort` setting,
                                               the own oneof names of a message by message name (`ownOf req`), the path.
                                               (A filter of the stored names would be wrong: without `sort` the promoted
                                               names are ordered by first appearance among the surviving fields.)
  2. `coreStep_nodeG`, `coreStep_prune1E`      one block, embedded or not: pruned recursive results give the pruned block
                                               (an embedded block is the spliced field list; marking commutes with pruning)
  3. `msgStep_pruneE`                          one message
  4. `build_pruneE`                            MAIN, view level, every fuel, every context (induction over the fuel), for a
                                               message whose own path is not `p`
  5. `exclusion_prunesE_ctx`, `exclusion_prunesE_root`
                                               MAIN, configuration level: `cfg` + `p` in `exclude_fields` builds `pruneE p m`.
                                               Hypotheses: `p` addresses by path only (`typeFree`), `p` is not the path of
                                               the message itself (root: its name), the build without the exclusion
                                               succeeds. NO hypothesis on embedded fields. Covers children of embedded
                                               messages (`p = <embedding path>.<child>`), at any depth, and ordinary fields
                                               in trees with embedded fields elsewhere.
     `exclusion_embedded_itself`, `exclusion_embedded_itself_root`
                                               the embedded field itself, keyed by path: `p` = path of the embedding
                                               message addresses exactly its embedded fields; the build is the message of
                                               the non-embedded declared fields (for a non-root message `p` is also the
                                               path of the field that holds the message, which `pruneE` removes)
     `exclusion_prunes_embed_full`, `exclusion_prunes_embed_full_holds`
                                               the general statement (both cases), proved
  6. `mem_reNames`, `mem_oneOfNames_pruneE`, `oneOfNames_lost`, `oneOfNames_pruneE_subset`, `reNames_pruneFsE`
                                               what happens to `oneOfNames`: nothing is gained; a name is lost iff it is not
                                               an own name and every field carrying it is removed; literally unchanged
                                               when no removed field carries a promoted group
     `pruneE_eq_prune_noEmbed`                 on IRs of trees without embedded fields `pruneE` is `prune`
  7. `copyTo_pruneE`, `copyTo_pruneE_deep`, `copyTo_pruneE_level`, `schemaOf_pruneE`, `schemaAttrs_pruneFsE`,
     `schema_excluded_absentE`                 schema and CopyTo do not read `oneOfNames`: the converters / schema of
                                               `pruneE p m` ARE those of `prune p m`, so the corollaries of ExclusionPrune
                                               hold verbatim, with no condition on embedded fields
  8. `copyFromFields_deepE`, `copyFrom_pruneE_deep`, `built_ooOk`
                                               CopyFrom resets the holders listed in `oneOfNames`: the pruned converter
                                               succeeds whenever the unpruned one does, results agree except in the Go
                                               fields the removed blocks assign and the holders of removed oneof branches
                                               (`allDroppedOO`) - the only place where a changed `oneOfNames` shows is the
                                               holder of a promoted group none of whose branches survive. For IRs without
                                               children of NULLABLE embedded messages (`plainFs`; by value is fine).
  9. `exclusion_surgical_deepE`                end to end for a selected root
 10. `Example`                                 evaluation (`decide +kernel`): root embedding a message with a oneof group by
                                               value, one branch / both branches excluded; by pointer; nested; lists, maps;
                                               `recompute_needed`, `ownPath_needed`, `nullable_embed_allocates`

OPEN (`copyFrom_pruneE_nullable_full`): CopyFrom for IRs with children of NULLABLE embedded messages. The statement of 8.
is FALSE for them as it stands (`Example.nullable_embed_allocates`: the removed block may be the one that allocates the
embedded message, so the Go field of the embedded message differs too).
Not addressed (as in ExclusionPrune): keys that address through `Message.field` (`typeFree` fails).
-/

namespace PGT.Proofs.ExclusionPruneEmbed
open PGT PGT.Props.C11 PGT.Proofs.BuildErrors PGT.Proofs.PathUnique PGT.Proofs.ExclusionPrune

/-! ## 1. pruning with recomputed `oneOfNames` -/

/-- `oneOfNames` the way `BuildMessage` computes it: the message's own names, then the names promoted from the surviving
fields of messages embedded by value, sorted when `sort` is on -/
def reNames (srt : Bool) (own : List String) (fs : List Field) : List String :=
  let ns := withPromotedOneOfs own fs
  if srt then sortStrings ns else ns

/-- the parameters of `pruneE`: the `sort` setting, the own oneof names of a message (by message name), the excluded path -/
structure PCfg where
  srt : Bool
  own : String → List String
  p : String

/-- the `info` of a nested message over its pruned field list -/
def reInfo (c : PCfg) (mi : MsgInfo) (fs : List Field) : MsgInfo :=
  { mi with oneOfNames := reNames c.srt (c.own mi.name) fs }

mutual
def pruneFE (c : PCfg) : Field → Field
  | ⟨info, mapVal, msg, sub⟩ =>
    ⟨info, mapVal, msg.map (fun mi => reInfo c mi (pruneFsE c sub)), pruneFsE c sub⟩
def pruneFsE (c : PCfg) : List Field → List Field
  | [] => []
  | f :: fs => if dropped c.p f.info then pruneFsE c fs else pruneFE c f :: pruneFsE c fs
end

/-- **the pruned message**: the nodes recorded under path `p` are removed at every depth (placeholders are kept), and
`oneOfNames` of every message is recomputed over its surviving fields; `own` = the own oneof names of `m` -/
def pruneE (c : PCfg) (own : List String) (m : Msg) : Msg :=
  { info := { m.info with oneOfNames := reNames c.srt own (pruneFsE c m.fields) }, fields := pruneFsE c m.fields }

theorem pruneFE_info (c : PCfg) (f : Field) : (pruneFE c f).info = f.info := by
  cases f; rw [pruneFE]
theorem pruneFE_mapVal (c : PCfg) (f : Field) : (pruneFE c f).mapVal = f.mapVal := by
  cases f; rw [pruneFE]
theorem pruneFE_sub (c : PCfg) (f : Field) : (pruneFE c f).sub = pruneFsE c f.sub := by
  cases f; rw [pruneFE]
theorem pruneFE_msg (c : PCfg) (f : Field) :
    (pruneFE c f).msg = f.msg.map (fun mi => reInfo c mi (pruneFsE c f.sub)) := by
  cases f; rw [pruneFE]

theorem pruneFsE_nil (c : PCfg) : pruneFsE c [] = [] := by rw [pruneFsE]
theorem pruneFsE_cons (c : PCfg) (f : Field) (fs : List Field) :
    pruneFsE c (f :: fs) = if dropped c.p f.info then pruneFsE c fs else pruneFE c f :: pruneFsE c fs := by rw [pruneFsE]

theorem pruneFsE_eq (c : PCfg) : ∀ fs : List Field,
    pruneFsE c fs = (fs.filter fun f => !dropped c.p f.info).map (pruneFE c)
  | [] => by rw [pruneFsE]; rfl
  | f :: fs => by
    rw [pruneFsE_cons, pruneFsE_eq c fs]
    cases h : dropped c.p f.info <;> simp [h]

theorem pruneFsE_append (c : PCfg) (a b : List Field) : pruneFsE c (a ++ b) = pruneFsE c a ++ pruneFsE c b := by
  simp [pruneFsE_eq]

theorem pruneFsE_sort (c : PCfg) (l : List Field) :
    pruneFsE c (sortFieldsByName l) = sortFieldsByName (pruneFsE c l) := by
  rw [pruneFsE_eq, pruneFsE_eq, filter_sortFields, map_sortFields _ (fun f => by rw [pruneFE_info])]

theorem mem_pruneFsE {c : PCfg} {fs : List Field} {y : Field} (h : y ∈ pruneFsE c fs) :
    ∃ x ∈ fs, dropped c.p x.info = false ∧ y = pruneFE c x := by
  rw [pruneFsE_eq] at h
  obtain ⟨x, hx, rfl⟩ := List.mem_map.mp h
  obtain ⟨h1, h2⟩ := List.mem_filter.mp hx
  exact ⟨x, h1, by simpa using h2, rfl⟩

theorem pruneFsE_placeholder (c : PCfg) (path : String) :
    pruneFsE c [placeholderField path] = [placeholderField path] := by
  rw [pruneFsE_cons, pruneFsE_nil]
  have : dropped c.p (placeholderField path).info = false := rfl
  simp only [this, Bool.false_eq_true, if_false]
  congr 1

theorem pruneFsE_keep1 (c : PCfg) (x : Field) (h : x.info.path ≠ c.p) : pruneFsE c [x] = [pruneFE c x] := by
  rw [pruneFsE_cons, pruneFsE_nil]
  have : dropped c.p x.info = false := by simp [dropped, h]
  simp [this]

theorem pruneFsE_all_dropped (c : PCfg) (r : List Field) (h : ∀ x ∈ r, dropped c.p x.info = true) :
    pruneFsE c r = [] := by
  rw [pruneFsE_eq, List.filter_eq_nil_iff.mpr, List.map_nil]
  intro x hx
  simp [h x hx]

theorem pruneFE_mark (c : PCfg) (a b : String) (x : Field) :
    pruneFE c (markEmbedded a b x) = markEmbedded a b (pruneFE c x) := by
  obtain ⟨info, mv, msg, sub⟩ := x
  simp only [markEmbedded, pruneFE]

/-- marking the children of a nullable embedded message commutes with pruning -/
theorem pruneFsE_mark (c : PCfg) (a b : String) : ∀ fs : List Field,
    pruneFsE c (fs.map (markEmbedded a b)) = (pruneFsE c fs).map (markEmbedded a b)
  | [] => by simp [pruneFsE_nil]
  | x :: fs => by
    rw [List.map_cons, pruneFsE_cons, pruneFsE_cons, pruneFsE_mark c a b fs]
    have : dropped c.p (markEmbedded a b x).info = dropped c.p x.info := rfl
    rw [this]
    cases dropped c.p x.info
    · simp only [Bool.false_eq_true, if_false, List.map_cons, pruneFE_mark]
    · simp only [if_true]

/-! ## 2. one block -/

/-- the IR node of an occurrence that does not take the embedding branch (`tf.isMessage && !isMap && f.embed` is false -
in particular every occurrence with `f.embed = false`): recorded path, not a placeholder, oneof name declared by the
message, not marked as a child of a nullable embedded message -/
theorem coreStep_nodeG (V : CfgView) (req : Request) (ctx : MsgCtx) (f : FieldD) (keys : Keys)
    (goType : String) (isMap isRep hasComment : Bool)
    (bm : MsgD → Except BuildError Msg) (bv : Except BuildError (List Field)) (r : List Field) (tf : TfType)
    (htf : getTerraformType V f isMap isRep goType keys.path = .ok tf)
    (hc : (tf.isMessage && !isMap && f.embed) = false)
    (h : coreStep V req ctx f keys goType isMap isRep hasComment bm bv = .ok r) :
    ∀ x ∈ r, x.info.path = keys.path ∧ x.info.isPlaceholder = false ∧
      (x.info.oneOfName = "" ∨ x.info.oneOfName ∈ oneOfNames ctx.desc) ∧ x.info.parentIsOptionalEmbed = false := by
  unfold coreStep at h
  cases hex : V.excluded keys with
  | true =>
    simp only [hex] at h
    injection h with h; subst h; intro x hx; cases hx
  | false =>
    simp only [hex, htf, hc, Bool.false_eq_true, if_false] at h
    split at h
    · cases h
    · rename_i nestedMsg hn
      clear hn
      split at h
      · cases h
      · rename_i info mapV hmapped
        injection h with h
        subst h
        intro x hx
        simp only [List.mem_singleton] at hx
        subst hx
        have hoo : ∀ (b : String), ((match f.oneof with
              | none => ("", "")
              | some i => (goNameS (ctx.desc.oneofs.getD i ""), b)).1 = "" ∨
            (match f.oneof with
              | none => ("", "")
              | some i => (goNameS (ctx.desc.oneofs.getD i ""), b)).1 ∈ oneOfNames ctx.desc) := by
          intro b
          cases f.oneof with
          | none => exact Or.inl rfl
          | some i => exact oneOf_getD_mem ctx.desc i
        have hinfo : info.path = keys.path ∧ info.isPlaceholder = false ∧ info.parentIsOptionalEmbed = false := by
          cases isMap with
          | false =>
            simp only [Bool.false_eq_true, if_false] at hmapped
            injection hmapped with hmapped
            injection hmapped with h1 h2
            subst h1
            cases isRep <;> exact ⟨rfl, rfl, rfl⟩
          | true =>
            simp only [if_true] at hmapped
            split at hmapped
            · cases hmapped
            · split at hmapped
              · cases hmapped
              · cases hmapped
              · injection hmapped with hmapped
                injection hmapped with h1 h2
                subst h1
                cases isRep <;> exact ⟨rfl, rfl, rfl⟩
        exact ⟨hinfo.1, hinfo.2.1, hoo _, hinfo.2.2⟩

/-- **One block under pruned recursive results** (same view), embedded or not. An occurrence whose `Keys.path` is not `p`:
if the nested message / the map value are replaced by their pruned versions, the block is the pruned block. For an
embedded field the block is the field list of the nested message (marked, for a nullable embedded message): the pruned
field list of the nested message is spliced in, its recomputed `oneOfNames` is discarded like the original one. -/
theorem coreStep_prune1E (c : PCfg) (V : CfgView) (req : Request) (ctx : MsgCtx) (f : FieldD) (keys : Keys)
    (goType : String) (isMap isRep hasComment : Bool) (hp : keys.path ≠ c.p)
    (bm bm' : MsgD → Except BuildError Msg) (bv bv' : Except BuildError (List Field))
    (hbm : isMap = false → ∀ d m, req.findMessage f.typeName = some d → bm d = .ok m →
      bm' d = .ok (pruneE c (c.own m.info.name) m))
    (hbv : isMap = true → ∀ v vs, bv = .ok (v :: vs) → ∃ vs', bv' = .ok (pruneFE c v :: vs'))
    (r : List Field) (h : coreStep V req ctx f keys goType isMap isRep hasComment bm bv = .ok r) :
    coreStep V req ctx f keys goType isMap isRep hasComment bm' bv' = .ok (pruneFsE c r) := by
  have h0 := h
  unfold coreStep at h ⊢
  cases hex : V.excluded keys with
  | true =>
    simp only [hex, if_true] at h ⊢
    injection h with h; subst h; rw [pruneFsE_nil]
  | false =>
    cases htf : getTerraformType V f isMap isRep goType keys.path with
    | error e => simp only [hex, htf] at h; cases h
    | ok tf =>
      cases hc : (tf.isMessage && !isMap) with
      | true =>
        have hmap : isMap = false := by cases isMap <;> simp_all
        subst hmap
        cases hfind : req.findMessage f.typeName with
        | none => simp only [hex, htf, hc, hfind] at h; cases h
        | some d =>
          cases hb : bm d with
          | error e => simp only [hex, htf, hc, hfind, hb] at h; cases h
          | ok m =>
            have hb' := hbm rfl d m hfind hb
            cases hemb : f.embed with
            | false =>
              have hnode := coreStep_nodeG V req ctx f keys goType false isRep hasComment bm bv r tf htf
                (by rw [hemb, Bool.and_false]) h0
              simp only [hex, htf, hc, hfind, hb, hb', hemb, Bool.and_false, Bool.false_eq_true, if_false] at h ⊢
              injection h with h
              subst h
              rw [pruneFsE_keep1 c _ (by rw [(hnode _ List.mem_cons_self).1]; exact hp)]
              rfl
            | true =>
              have hm : tf.isMessage = true := by simpa using hc
              cases hnl : goType.toList.contains '*' with
              | false =>
                simp only [hex, htf, hm, hfind, hb, hb', hemb, hnl, Bool.and_self, Bool.not_false,
                  Bool.false_eq_true, if_false, if_true] at h ⊢
                injection h with h
                subst h
                rfl
              | true =>
                simp only [hex, htf, hm, hfind, hb, hb', hemb, hnl, Bool.and_self, Bool.not_true, Bool.not_false,
                  Bool.false_eq_true, if_false, if_true] at h ⊢
                injection h with h
                subst h
                rw [pruneFsE_mark]
                rfl
      | false =>
        cases isMap with
        | false =>
          have hnode := coreStep_nodeG V req ctx f keys goType false isRep hasComment bm bv r tf htf
            (by rw [hc]; rfl) h0
          simp only [hex, htf, hc, Bool.false_and, Bool.false_eq_true, if_false] at h ⊢
          injection h with h
          subst h
          rw [pruneFsE_keep1 c _ (by rw [(hnode _ List.mem_cons_self).1]; exact hp)]
          rfl
        | true =>
          have hnode := coreStep_nodeG V req ctx f keys goType true isRep hasComment bm bv r tf htf
            (by simp) h0
          by_cases hk : scalarGoType f.mapKey = "string"
          · cases hv : bv with
            | error e => simp [hex, htf, hk, hv] at h
            | ok l =>
              cases l with
              | nil => simp [hex, htf, hk, hv] at h
              | cons v vs =>
                obtain ⟨vs', hv'⟩ := hbv rfl v vs hv
                obtain ⟨vi, vmv, vmsg, vsub⟩ := v
                simp only [hex, htf, hc, hk, hv, hv', Bool.false_and, Bool.false_eq_true, if_false] at h ⊢
                injection h with h
                subst h
                rw [pruneFsE_keep1 c _ (by rw [(hnode _ List.mem_cons_self).1]; exact hp)]
                rfl
          · simp [hex, htf, hk] at h

/-! ## 3. one message -/

/-- **One message**: pruning the collected blocks gives the pruned message - `oneOfNames` is the build's own formula over
the surviving fields, the rest of the `info` is unchanged, the placeholder of a message without declared fields is kept,
sorting commutes with pruning. -/
theorem msgStep_pruneE (c : PCfg) (V : CfgView) (hs : c.srt = V.sort) (desc : MsgD) (isRoot : Bool) (path : String)
    (fs : List Field) (m : Msg) (h : msgStep V desc isRoot path (.ok fs) = .ok m) :
    msgStep V desc isRoot path (.ok (pruneFsE c fs)) = .ok (pruneE c (oneOfNames desc) m) := by
  unfold msgStep at h ⊢
  cases hemp : desc.fields.isEmpty with
  | true =>
    simp only [hemp, if_true] at h ⊢
    injection h with h
    subst h
    simp only [pruneE, pruneFsE_placeholder, reNames, hs]
  | false =>
    simp only [hemp, Bool.false_eq_true, if_false] at h ⊢
    injection h with h
    subst h
    have hfields : (if V.sort = true then sortFieldsByName (pruneFsE c fs) else pruneFsE c fs) =
        pruneFsE c (if V.sort = true then sortFieldsByName fs else fs) := by
      cases V.sort
      · rfl
      · simp only [if_true, pruneFsE_sort]
    simp only [pruneE, hfields, reNames, hs]

theorem collect_pruneE {β} (c : PCfg) (g g' : β → Except BuildError (List Field)) : ∀ (l : List β) (fs : List Field),
    (∀ x ∈ l, ∀ r, g x = .ok r → g' x = .ok (pruneFsE c r)) →
    collectFields (l.map g) = .ok fs → collectFields (l.map g') = .ok (pruneFsE c fs)
  | [], fs, _, h => by
    simp only [List.map_nil, collectFields] at h ⊢
    injection h with h; subst h; rw [pruneFsE_nil]
  | x :: l, fs, hg, h => by
    simp only [List.map_cons] at h ⊢
    cases hx : g x with
    | error e => simp [hx, collectFields] at h
    | ok r =>
      rw [hx] at h
      rw [hg x List.mem_cons_self r hx]
      simp only [collectFields] at h ⊢
      cases hr : collectFields (l.map g) with
      | error e => simp [hr] at h
      | ok more =>
        rw [hr] at h
        injection h with h
        subst h
        rw [collect_pruneE c g g' l more (fun y hy => hg y (List.mem_cons_of_mem _ hy)) hr, pruneFsE_append]

/-! ## 4. the whole tree -/

theorem built_msg_name (n : Nat) (V : CfgView) (req : Request) (desc : MsgD) (isRoot : Bool) (path : String) (m : Msg)
    (h : buildMessage n V req desc isRoot path = .ok m) : m.info.name = desc.name := by
  cases n with
  | zero => rw [buildMessage_zero] at h; cases h
  | succ n => exact (built_msg_path n V req desc isRoot path m h).2

/-- `O` gives the own oneof names of every message of the request (by message name) -/
def OwnOK (req : Request) (O : String → List String) : Prop :=
  ∀ tn d, req.findMessage tn = some d → O d.name = oneOfNames d

/-- the own oneof names, looked up in the request by message name -/
def ownOf (req : Request) (name : String) : List String :=
  match req.findMessage name with
  | some d => oneOfNames d
  | none => []

theorem findMessage_name {req : Request} {tn : String} {d : MsgD} (h : req.findMessage tn = some d) : d.name = tn := by
  unfold Request.findMessage at h
  have := List.find?_some h
  simpa using this

theorem ownOf_ok (req : Request) : OwnOK req (ownOf req) := by
  intro tn d h
  have hn := findMessage_name h
  unfold ownOf
  rw [hn, h]

/-- **Exclusion prunes the IR at every depth, embedded fields included (view level).** `V'` excludes every occurrence
whose path is `p` and agrees with `V` at every other occurrence of the tree. For a message whose own path is not `p`: if
the build under `V` succeeds with `m`, the build under `V'` succeeds with `pruneE p m`. For a field occurrence that is
not an embedded field with `Keys.path = p`: the block under `V'` is the pruned block. -/
theorem build_pruneE {V V' : CfgView} (hg : SameGlobals V V') (req : Request) (c : PCfg) (hs : c.srt = V.sort)
    (hO : OwnOK req c.own)
    (hon : ∀ k : Keys, k.path = c.p → V'.excluded k = true) : ∀ n : Nat,
    (∀ desc isRoot path m, (ctxOf desc isRoot path).path ≠ c.p →
        (∀ k ∈ ctxKeys n req (ctxOf desc isRoot path), k.path ≠ c.p → AgreeAt V V' k) →
        buildMessage n V req desc isRoot path = .ok m →
        buildMessage n V' req desc isRoot path = .ok (pruneE c (oneOfNames desc) m)) ∧
    (∀ ctx f keys goType isMap isRep hasComment r, (f.embed = true → keys.path ≠ c.p) →
        (∀ k ∈ occKeys n req keys f.typeName isMap, k.path ≠ c.p → AgreeAt V V' k) →
        buildFieldCore n V req ctx f keys goType isMap isRep hasComment = .ok r →
        buildFieldCore n V' req ctx f keys goType isMap isRep hasComment = .ok (pruneFsE c r)) := by
  intro n
  induction n with
  | zero =>
    constructor
    · intro desc isRoot path m _ _ h; rw [buildMessage_zero] at h; cases h
    · intro ctx f keys goType isMap isRep hc r _ _ h; rw [buildFieldCore_zero] at h; cases h
  | succ n ih =>
    obtain ⟨ihM, ihF⟩ := ih
    constructor
    · intro desc isRoot path m hpath hagree h
      rw [buildMessage_succ] at h ⊢
      rw [msgStep_globals hg]
      cases hc : collectFields (desc.fields.map fun f => fieldCall n V req (ctxOf desc isRoot path) f) with
      | error e =>
        rw [hc] at h
        have hnil := msgStep_error_ok V desc isRoot path e m h
        rw [hnil] at hc
        simp [collectFields] at hc
      | ok fs =>
        rw [hc] at h
        have hc' : collectFields (desc.fields.map fun f => fieldCall n V' req (ctxOf desc isRoot path) f) =
            .ok (pruneFsE c fs) := by
          refine collect_pruneE c _ _ desc.fields fs ?_ hc
          intro f hf r hr
          simp only [fieldCall] at hr ⊢
          rw [goTypeOf_globals hg]
          refine ihF _ f _ _ _ _ _ r ?_ (fun k hk => hagree k (mem_ctxKeys hf hk)) hr
          intro he
          rw [keysOf_path_embed _ f he]
          exact hpath
        rw [hc']
        exact msgStep_pruneE c V hs desc isRoot path fs m h
    · intro ctx f keys goType isMap isRep hc r hembp hagree h
      by_cases hp : keys.path = c.p
      · have hemb : f.embed = false := by
          cases he : f.embed with
          | false => rfl
          | true => exact absurd hp (hembp he)
        rw [excluded_field_ok n V' req ctx f keys goType isMap isRep hc (hon keys hp)]
        rw [pruneFsE_all_dropped c r]
        intro x hx
        obtain ⟨h1, h2, _⟩ := built_node (n + 1) V req ctx f keys goType isMap isRep hc r hemb h x hx
        simp [dropped, h1, h2, hp]
      · rw [buildFieldCore_succ] at h ⊢
        refine (coreStep_congr hg req ctx f keys goType isMap isRep hc (hagree keys (mem_occKeys_self ..) hp)
          _ _ _ _ (fun _ _ _ => rfl) (fun _ => rfl)).trans ?_
        refine coreStep_prune1E c V req ctx f keys goType isMap isRep hc hp _ _ _ _ ?_ ?_ r h
        · intro hm d m hfind hb
          subst hm
          have hname : c.own m.info.name = oneOfNames d := by
            rw [built_msg_name n V req d false keys.path m hb]
            exact hO f.typeName d hfind
          rw [hname]
          exact ihM d false keys.path m hp (fun k hk => hagree k (mem_occKeys_nested hfind hk)) hb
        · intro hm v vs hv
          subst hm
          have hve : f.mapValueField.embed = false := rfl
          have := ihF ctx f.mapValueField keys _ false false false (v :: vs) (fun he => by rw [hve] at he; cases he)
            (fun k hk => hagree k (mem_occKeys_value hk)) hv
          rw [mapValueGoType_globals hg, this, pruneFsE_cons]
          have hv1 := (built_node n V req ctx f.mapValueField keys _ false false false (v :: vs) rfl hv v
            List.mem_cons_self).1
          have : dropped c.p v.info = false := by simp [dropped, hv1, hp]
          simp only [this, Bool.false_eq_true, if_false]
          exact ⟨_, rfl⟩

/-! ## 5. configuration level -/

/-- the pruning parameters of a configuration: its `sort` setting, the own oneof names as the request declares them -/
def pcfg (cfg : Config) (req : Request) (p : String) : PCfg := { srt := cfg.sort, own := ownOf req, p := p }

/-- **Exclusion prunes the IR at every depth, in trees WITH embedded fields (configuration level, any message context).**
`p` is one more entry of `exclude_fields`; `p` addresses by path only (`typeFree`); `p` is not the path of the message
itself (for a root: `p` is not the root's name - that key addresses the root's embedded fields, see
`exclusion_embedded_itself`); the build WITHOUT the exclusion succeeds with IR `m`. Then the build WITH the exclusion
succeeds, and its IR is `pruneE p m`: exactly the nodes whose recorded path is `p` are removed, at every depth - among
the children spliced in from embedded messages as well as among ordinary fields - and `oneOfNames` of every message is
what `BuildMessage` computes over the surviving fields. Nothing else changes. -/
theorem exclusion_prunesE_ctx (cfg : Config) (p : String) (req : Request) (fuel : Nat) (desc : MsgD) (isRoot : Bool)
    (path : String) (m : Msg)
    (hpath : (ctxOf desc isRoot path).path ≠ p)
    (htn : typeFree p (ctxKeys fuel req (ctxOf desc isRoot path)) = true)
    (h : buildMessage fuel (viewOf cfg) req desc isRoot path = .ok m) :
    buildMessage fuel (viewOf { cfg with excludeFields := p :: cfg.excludeFields }) req desc isRoot path =
      .ok (pruneE (pcfg cfg req p) (oneOfNames desc) m) := by
  refine (build_pruneE (viewOf_globals (differs_exclude cfg p)) req (pcfg cfg req p) rfl (ownOf_ok req) ?_ fuel).1
    desc isRoot path m hpath ?_ h
  · intro k hk
    show flagValue (p :: cfg.excludeFields) k = true
    rw [flagValue_cons]
    have hk' : k.path = p := hk
    simp [keyed, hk']
  · intro k hk hp
    exact viewOf_agree (differs_exclude cfg p) k hp (typeFree_mem htn hk hp)

/-- the generator's entry point for one selected root: `p` is not the root's name -/
theorem exclusion_prunesE_root (cfg : Config) (p : String) (req : Request) (desc : MsgD) (m : Msg)
    (hpath : desc.name ≠ p)
    (htn : typeFree p (ctxKeys (defaultFuel req) req (rootCtx desc)) = true)
    (h : buildRoot cfg req desc = .ok (some m)) :
    buildRoot { cfg with excludeFields := p :: cfg.excludeFields } req desc =
      .ok (some (pruneE (pcfg cfg req p) (oneOfNames desc) m)) := by
  have hb := buildRoot_inv h
  unfold buildRoot at h ⊢
  cases hs : cfg.types.contains desc.name with
  | false =>
    simp only [hs, Bool.not_false, if_true] at h
    cases h
  | true =>
    simp only [Bool.not_true, Bool.false_eq_true, if_false]
    rw [exclusion_prunesE_ctx cfg p req (defaultFuel req) desc true "" m hpath htn hb]

/-! ### the embedded field itself: `p` is the path of the embedding message -/

theorem keys_path_len (req : Request) : ∀ n : Nat,
    (∀ ctx k, k ∈ ctxKeys n req ctx → ctx.path.length ≤ k.path.length) ∧
    (∀ keys tn b k, k ∈ occKeys n req keys tn b → keys.path.length ≤ k.path.length) := by
  intro n
  induction n with
  | zero =>
    constructor
    · intro ctx k hk; rw [ctxKeys] at hk; cases hk
    · intro keys tn b k hk; rw [occKeys] at hk; cases hk
  | succ n ih =>
    obtain ⟨ihC, ihF⟩ := ih
    constructor
    · intro ctx k hk
      rw [ctxKeys] at hk
      obtain ⟨f, _, hk⟩ := List.mem_flatMap.mp hk
      have h1 := ihF _ _ _ k hk
      have h2 : ctx.path.length ≤ (keysOf ctx f).path.length := by
        rw [keysOf_path]
        split
        · exact Nat.le_refl _
        · simp only [String.length_append]; omega
      omega
    · intro keys tn b k hk
      rw [occKeys] at hk
      rcases List.mem_cons.mp hk with rfl | hk
      · exact Nat.le_refl _
      · cases b with
        | true =>
          simp only [if_true] at hk
          exact ihF _ _ _ k hk
        | false =>
          simp only [Bool.false_eq_true, if_false] at hk
          cases hfind : req.findMessage tn with
          | none => simp only [hfind] at hk; cases hk
          | some d =>
            simp only [hfind] at hk
            exact ihC _ k hk

theorem plain_path_ne (ctx : MsgCtx) (f : FieldD) (he : f.embed = false) : (keysOf ctx f).path ≠ ctx.path := by
  intro h
  have := congrArg String.length h
  rw [keysOf_path_plain ctx f he] at this
  simp only [String.length_append] at this
  have : ".".length = 1 := rfl
  omega

/-- **Excluding the path of the embedding message excludes exactly its embedded fields.** An embedded field has the
`Keys.path` of the message that embeds it, so the key `p` = path of the message (for a root: its name) addresses all its
embedded fields and - `p` addressing by path only - nothing else in the tree: the build with `p` excluded is the message
built from its non-embedded declared fields only (the blocks of the other fields, all their nodes and options, are those
of the build without the exclusion; `info` is computed as always, in particular `oneOfNames` over the surviving fields and
`isEmpty` from the descriptor: no placeholder appears). No success hypothesis is needed. -/
theorem exclusion_embedded_itself (cfg : Config) (p : String) (req : Request) (n : Nat) (desc : MsgD) (isRoot : Bool)
    (path : String) (hp : (ctxOf desc isRoot path).path = p)
    (htn : typeFree p (ctxKeys (n + 2) req (ctxOf desc isRoot path)) = true) :
    buildMessage (n + 2) (viewOf { cfg with excludeFields := p :: cfg.excludeFields }) req desc isRoot path =
      msgStep (viewOf cfg) desc isRoot path
        (collectFields ((desc.fields.filter fun f => !f.embed).map
          fun f => fieldCall (n + 1) (viewOf cfg) req (ctxOf desc isRoot path) f)) := by
  have hkey : ∀ f ∈ desc.fields, keyed p (keysOf (ctxOf desc isRoot path) f) = f.embed := by
    intro f hf
    cases he : f.embed with
    | true =>
      have : (keysOf (ctxOf desc isRoot path) f).path = p := by rw [keysOf_path_embed _ f he]; exact hp
      simp [keyed, this]
    | false =>
      have h1 : (keysOf (ctxOf desc isRoot path) f).path ≠ p := by
        rw [← hp]; exact plain_path_ne _ f he
      have hmem : keysOf (ctxOf desc isRoot path) f ∈ ctxKeys (n + 2) req (ctxOf desc isRoot path) :=
        mem_ctxKeys (ctx := ctxOf desc isRoot path) hf (mem_occKeys_self ..)
      exact (keyed_false_iff p _).mpr ⟨h1, typeFree_mem htn hmem h1⟩
  rw [exclusion_surgical cfg p req n desc isRoot path]
  · congr 3
    apply List.filter_congr
    intro f hf
    rw [hkey f hf]
  · intro f hf hk
    have he : f.embed = false := by rw [← hkey f hf]; exact hk
    simp only [keyFree, List.all_eq_true]
    intro k hk'
    have hlen := (keys_path_len req (n + 1)).2 _ _ _ k hk'
    have h1 : k.path ≠ p := by
      intro e
      have hl := congrArg String.length e
      rw [keysOf_path_plain _ f he] at hlen
      simp only [String.length_append] at hlen
      have : ".".length = 1 := rfl
      rw [← hp] at hl
      omega
    have h2 : k.typeName ≠ p := typeFree_mem htn (mem_ctxKeys (ctx := ctxOf desc isRoot path) hf hk') h1
    have := (keyed_false_iff p k).mpr ⟨h1, h2⟩
    simp [this]

/-! ## 6. what happens to `oneOfNames` -/

/-- the field carries the oneof group `n` into the embedding message: a branch of `n` that is not a child of a NULLABLE
embedded message -/
def Carries (n : String) (f : Field) : Prop :=
  f.info.oneOfName = n ∧ n ≠ "" ∧ f.info.parentIsOptionalEmbed = false

theorem mem_withPromoted (n : String) : ∀ (fs : List Field) (own : List String),
    n ∈ withPromotedOneOfs own fs ↔ n ∈ own ∨ ∃ f ∈ fs, Carries n f := by
  intro fs
  unfold withPromotedOneOfs
  induction fs with
  | nil => intro own; simp
  | cons x fs ih =>
    intro own
    rw [List.foldl_cons, ih]
    have step : n ∈ (if x.info.oneOfName == "" || x.info.parentIsOptionalEmbed || own.contains x.info.oneOfName then own
        else own ++ [x.info.oneOfName]) ↔ n ∈ own ∨ Carries n x := by
      unfold Carries
      by_cases h1 : x.info.oneOfName = ""
      · simp only [h1, beq_self_eq_true, Bool.true_or, if_true]
        constructor
        · exact Or.inl
        · rintro (h | ⟨h, h', _⟩)
          · exact h
          · exact absurd h.symm h'
      · by_cases h2 : x.info.parentIsOptionalEmbed = true
        · simp only [h2, Bool.or_true, Bool.true_or, if_true]
          constructor
          · exact Or.inl
          · rintro (h | ⟨_, _, h⟩)
            · exact h
            · cases h
        · by_cases h3 : x.info.oneOfName ∈ own
          · have : own.contains x.info.oneOfName = true := by simpa using h3
            simp only [this, Bool.or_true, if_true]
            constructor
            · exact Or.inl
            · rintro (h | ⟨h, _, _⟩)
              · exact h
              · exact h ▸ h3
          · have hb1 : (x.info.oneOfName == "") = false := by simpa using h1
            have hb2 : x.info.parentIsOptionalEmbed = false := by simpa using h2
            have hb3 : own.contains x.info.oneOfName = false := by simpa using h3
            simp only [hb1, hb2, hb3, Bool.or_false, Bool.false_eq_true, if_false, List.mem_append, List.mem_singleton]
            constructor
            · rintro (h | h)
              · exact Or.inl h
              · exact Or.inr ⟨h.symm, h ▸ h1, trivial⟩
            · rintro (h | ⟨h, _, _⟩)
              · exact Or.inl h
              · exact Or.inr h.symm
    rw [step]
    constructor
    · rintro ((h | h) | ⟨f, hf, h⟩)
      · exact Or.inl h
      · exact Or.inr ⟨x, List.mem_cons_self, h⟩
      · exact Or.inr ⟨f, List.mem_cons_of_mem _ hf, h⟩
    · rintro (h | ⟨f, hf, h⟩)
      · exact Or.inl (Or.inl h)
      · rcases List.mem_cons.mp hf with rfl | hf
        · exact Or.inl (Or.inr h)
        · exact Or.inr ⟨f, hf, h⟩

theorem mem_insertStr (n x : String) : ∀ l : List String, n ∈ insertStr x l ↔ n = x ∨ n ∈ l
  | [] => by simp [insertStr]
  | y :: ys => by
    simp only [insertStr]
    split
    · simp
    · simp only [List.mem_cons, mem_insertStr n x ys]
      constructor
      · rintro (h | h | h)
        · exact Or.inr (Or.inl h)
        · exact Or.inl h
        · exact Or.inr (Or.inr h)
      · rintro (h | h | h)
        · exact Or.inr (Or.inl h)
        · exact Or.inl h
        · exact Or.inr (Or.inr h)

theorem mem_sortStrings (n : String) : ∀ l : List String, n ∈ sortStrings l ↔ n ∈ l
  | [] => by simp [sortStrings]
  | x :: l => by
    show n ∈ insertStr x (sortStrings l) ↔ _
    rw [mem_insertStr, mem_sortStrings n l, List.mem_cons]

/-- **the recomputed names, as a set**: the own names, and the groups carried by a field of the list -/
theorem mem_reNames (srt : Bool) (own : List String) (fs : List Field) (n : String) :
    n ∈ reNames srt own fs ↔ n ∈ own ∨ ∃ f ∈ fs, Carries n f := by
  unfold reNames
  cases srt
  · exact mem_withPromoted n fs own
  · simp only [if_true]
    rw [mem_sortStrings]
    exact mem_withPromoted n fs own

theorem carries_pruneFE (c : PCfg) (n : String) (f : Field) : Carries n (pruneFE c f) ↔ Carries n f := by
  unfold Carries
  rw [pruneFE_info]

/-- **`oneOfNames` of the pruned message, as a set**: the own names of the message (all of them, whether or not a branch
survives) and the promoted groups that keep a surviving branch -/
theorem mem_oneOfNames_pruneE (c : PCfg) (own : List String) (m : Msg) (n : String) :
    n ∈ (pruneE c own m).info.oneOfNames ↔
      n ∈ own ∨ ∃ f ∈ m.fields, dropped c.p f.info = false ∧ Carries n f := by
  show n ∈ reNames c.srt own (pruneFsE c m.fields) ↔ _
  rw [mem_reNames]
  constructor
  · rintro (h | ⟨y, hy, hc⟩)
    · exact Or.inl h
    · obtain ⟨x, hx, hd, rfl⟩ := mem_pruneFsE hy
      exact Or.inr ⟨x, hx, hd, (carries_pruneFE c n x).mp hc⟩
  · rintro (h | ⟨x, hx, hd, hc⟩)
    · exact Or.inl h
    · refine Or.inr ⟨pruneFE c x, ?_, (carries_pruneFE c n x).mpr hc⟩
      rw [pruneFsE_eq]
      exact List.mem_map.mpr ⟨x, List.mem_filter.mpr ⟨hx, by simp [hd]⟩, rfl⟩

/-- every built message stores `oneOfNames` = the build's formula over its own fields -/
theorem built_oneOfNames (n : Nat) (V : CfgView) (req : Request) (desc : MsgD) (isRoot : Bool) (path : String) (m : Msg)
    (h : buildMessage n V req desc isRoot path = .ok m) :
    m.info.oneOfNames = reNames V.sort (oneOfNames desc) m.fields := by
  cases n with
  | zero => rw [buildMessage_zero] at h; cases h
  | succ n =>
    rw [buildMessage_succ] at h
    unfold msgStep at h
    simp only at h
    split at h
    · cases h
    · injection h with h; subst h; rfl

/-- **which names are lost**: a name of the unpruned message is missing in the pruned one iff it is NOT an own name of
the message (it was promoted from a message embedded by value) and every field that carries it is removed -/
theorem oneOfNames_lost (c : PCfg) (own : List String) (m : Msg) (hm : m.info.oneOfNames = reNames c.srt own m.fields)
    (n : String) :
    (n ∈ m.info.oneOfNames ∧ n ∉ (pruneE c own m).info.oneOfNames) ↔
      n ∉ own ∧ (∃ f ∈ m.fields, Carries n f) ∧ ∀ f ∈ m.fields, Carries n f → dropped c.p f.info = true := by
  rw [hm, mem_reNames, mem_oneOfNames_pruneE]
  constructor
  · rintro ⟨h1, h2⟩
    have hown : n ∉ own := fun h => h2 (Or.inl h)
    refine ⟨hown, ?_, ?_⟩
    · rcases h1 with h | h
      · exact absurd h hown
      · exact h
    · intro f hf hc
      cases hd : dropped c.p f.info with
      | true => rfl
      | false => exact absurd (Or.inr ⟨f, hf, hd, hc⟩) h2
  · rintro ⟨hown, hex, hall⟩
    refine ⟨Or.inr hex, ?_⟩
    rintro (h | ⟨f, hf, hd, hc⟩)
    · exact hown h
    · rw [hall f hf hc] at hd; cases hd

/-- no name is gained -/
theorem oneOfNames_pruneE_subset (c : PCfg) (own : List String) (m : Msg)
    (hm : m.info.oneOfNames = reNames c.srt own m.fields) (n : String)
    (h : n ∈ (pruneE c own m).info.oneOfNames) : n ∈ m.info.oneOfNames := by
  rw [hm, mem_reNames]
  rcases (mem_oneOfNames_pruneE c own m n).mp h with h | ⟨f, hf, _, hc⟩
  · exact Or.inl h
  · exact Or.inr ⟨f, hf, hc⟩

theorem withPromoted_mono (fs : List Field) : ∀ (acc : List String) (x : String), x ∈ acc → x ∈ withPromotedOneOfs acc fs := by
  intro acc x hx
  exact (mem_withPromoted x fs acc).mpr (Or.inl hx)

/-- **`oneOfNames` is literally unchanged** (same list, same order) when no removed field of the message carries a
promoted group: every removed field is outside any oneof, or a branch of an own group of the message, or a child of a
nullable embedded message. This is the case of an ordinary excluded field, embedded fields elsewhere in the tree. -/
theorem withPromoted_pruneFsE (c : PCfg) (own : List String) : ∀ (fs : List Field) (acc : List String),
    (∀ x ∈ own, x ∈ acc) →
    (∀ f ∈ fs, dropped c.p f.info = true →
      f.info.oneOfName = "" ∨ f.info.parentIsOptionalEmbed = true ∨ f.info.oneOfName ∈ own) →
    withPromotedOneOfs acc (pruneFsE c fs) = withPromotedOneOfs acc fs
  | [], acc, _, _ => by rw [pruneFsE_nil]
  | x :: fs, acc, hacc, h => by
    have hstep : ∀ y ∈ own, y ∈ (if x.info.oneOfName == "" || x.info.parentIsOptionalEmbed || acc.contains x.info.oneOfName
        then acc else acc ++ [x.info.oneOfName]) := by
      intro y hy
      split
      · exact hacc y hy
      · exact List.mem_append_left _ (hacc y hy)
    have hrest := fun acc' hacc' => withPromoted_pruneFsE c own fs acc' hacc' (fun f hf => h f (List.mem_cons_of_mem _ hf))
    rw [pruneFsE_cons]
    cases hd : dropped c.p x.info with
    | false =>
      simp only [Bool.false_eq_true, if_false]
      unfold withPromotedOneOfs
      rw [List.foldl_cons, List.foldl_cons, pruneFE_info]
      exact hrest _ hstep
    | true =>
      simp only [if_true]
      have hid : (if x.info.oneOfName == "" || x.info.parentIsOptionalEmbed || acc.contains x.info.oneOfName
          then acc else acc ++ [x.info.oneOfName]) = acc := by
        rcases h x List.mem_cons_self hd with h1 | h1 | h1
        · simp [h1]
        · simp [h1]
        · have : acc.contains x.info.oneOfName = true := by simpa using hacc _ h1
          rw [this]
          simp
      rw [hrest acc hacc]
      conv => rhs; unfold withPromotedOneOfs; rw [List.foldl_cons, hid]
      rfl

theorem reNames_pruneFsE (c : PCfg) (srt : Bool) (own : List String) (fs : List Field)
    (h : ∀ f ∈ fs, dropped c.p f.info = true →
      f.info.oneOfName = "" ∨ f.info.parentIsOptionalEmbed = true ∨ f.info.oneOfName ∈ own) :
    reNames srt own (pruneFsE c fs) = reNames srt own fs := by
  unfold reNames
  rw [withPromoted_pruneFsE c own fs own (fun _ hx => hx) h]

/-! ## 7. schema and `CopyToTerraform` do not read `oneOfNames`: the corollaries for `prune` hold for `pruneE` verbatim -/

theorem isEmptyMsg_reInfo (c : PCfg) (msg : Option MsgInfo) (fs : List Field) :
    isEmptyMsg (msg.map (fun mi => reInfo c mi fs)) = isEmptyMsg msg := by
  cases msg <;> rfl

theorem objBody_msg {msg msg' : Option MsgInfo} (he : isEmptyMsg msg' = isEmptyMsg msg) (rec : ToRec) (info : FieldInfo)
    (se : Bool) (cur : Option TfVal) (oty : Option (List (String × TfTy))) (x : Outcome GoVal) (d : List Diag)
    (h : List HookCall) : objBody rec info msg' se cur oty x d h = objBody rec info msg se cur oty x d h := by
  unfold objBody
  simp only [he]

theorem elemBodyOf_msg {msg msg' : Option MsgInfo} (he : isEmptyMsg msg' = isEmptyMsg msg) (rec : ToRec) (info : FieldInfo)
    (se : Bool) (obj0 : GoVal) (ety : Option TfTy) (oty : Option (List (String × TfTy))) :
    elemBodyOf rec info msg' se obj0 ety oty = elemBodyOf rec info msg se obj0 ety oty := by
  unfold elemBodyOf
  simp only [objBody_msg he]

theorem listOrMapBody_msg {msg msg' : Option MsgInfo} (he : isEmptyMsg msg' = isEmptyMsg msg) (rec : ToRec)
    (info : FieldInfo) (se : Bool) (obj0 : GoVal) (cur : Option TfVal) (ety : Option TfTy) (src : GoVal) (st : ToSt) :
    listOrMapBody rec info msg' se obj0 cur ety src st = listOrMapBody rec info msg se obj0 cur ety src st := by
  unfold listOrMapBody
  simp only [elemBodyOf_msg he]

/-- a CopyTo block reads the nested message's `info` only through `isEmpty` -/
theorem copyToFieldWith_msg {msg msg' : Option MsgInfo} (he : isEmptyMsg msg' = isEmptyMsg msg) (rec : ToRec)
    (info : FieldInfo) (se : Bool) (obj0 : GoVal) (atys : Option (List (String × TfTy))) (st : ToSt) :
    copyToFieldWith rec info msg' se obj0 atys st = copyToFieldWith rec info msg se obj0 atys st := by
  unfold copyToFieldWith
  simp only [objBody_msg he, listOrMapBody_msg he]

/-- a CopyFrom block reads the nested message's `info` only through `isEmpty` (the reset of the nested holders is part
of the recursive call) -/
theorem copyFromFieldWith_msg {msg msg' : Option MsgInfo} (he : isEmptyMsg msg' = isEmptyMsg msg) (rec : FromRec)
    (ov : List (String × String)) (info : FieldInfo) (mv : Option FieldInfo) (attrs : Option (List (String × TfVal)))
    (st : FromSt) :
    copyFromFieldWith rec ov info mv msg' attrs st = copyFromFieldWith rec ov info mv msg attrs st := by
  unfold copyFromFieldWith
  simp only [he]

theorem pruneFsE_isEmpty (c : PCfg) (fs : List Field) : (pruneFsE c fs).isEmpty = (pruneFs c.p fs).isEmpty := by
  rw [pruneFsE_eq, pruneFs_eq]
  simp

mutual
/-- **the CopyTo blocks of `pruneFsE` are those of `pruneFs`** -/
theorem copyToFields_pruneFsE (c : PCfg) : ∀ (fs : List Field) (obj : GoVal) (atys : Option (List (String × TfTy))) (st : ToSt),
    copyToFields (pruneFsE c fs) obj atys st = copyToFields (pruneFs c.p fs) obj atys st
  | [], obj, atys, st => by rw [pruneFsE_nil, pruneFs_nil]
  | f :: rest, obj, atys, st => by
    rw [pruneFsE_cons, pruneFs_cons]
    cases dropped c.p f.info with
    | true =>
      simp only [if_true]
      exact copyToFields_pruneFsE c rest obj atys st
    | false =>
      simp only [Bool.false_eq_true, if_false]
      rw [OrderIndep.copyToFields_cons, OrderIndep.copyToFields_cons, copyToField_pruneFE c f obj atys st]
      congr 1
      funext s
      exact copyToFields_pruneFsE c rest obj atys s
theorem copyToField_pruneFE (c : PCfg) : ∀ (f : Field) (obj : GoVal) (atys : Option (List (String × TfTy))) (st : ToSt),
    copyToField (pruneFE c f) obj atys st = copyToField (pruneF c.p f) obj atys st
  | ⟨info, mv, msg, sub⟩, obj, atys, st => by
    rw [pruneFE, pruneF, copyToField, copyToField, copyToFieldWith_msg (isEmptyMsg_reInfo c msg _), pruneFsE_isEmpty]
    congr 1
    funext o a s
    exact copyToFields_pruneFsE c sub o a s
end

/-- **`Copy<T>ToTerraform` of `pruneE p m` is that of `prune p m`** (the emitted CopyTo code does not depend on `oneOfNames`) -/
theorem copyTo_pruneE (c : PCfg) (own : List String) (m : Msg) (obj : GoVal) (tf : TfVal) :
    copyTo (pruneE c own m) obj tf = copyTo (prune c.p m) obj tf := by
  unfold copyTo
  cases tf with
  | obj u n attrs atys =>
    simp only []
    show (match copyToFields (pruneFsE c m.fields) obj atys _ with | .ok st => _ | .panic w => _ | .stuck w => _) = _
    rw [copyToFields_pruneFsE]
    rfl
  | _ => rfl

/-- **`Copy<T>ToTerraform` of the pruned message, excluded field at any depth, embedded fields anywhere** (no condition on
embedded fields at all): the statement of `copyTo_prune_deep` for `pruneE`. -/
theorem copyTo_pruneE_deep (c : PCfg) (own : List String) (m : Msg) (obj : GoVal) (tf : TfVal) (r1 : ToResult)
    (hdn : distinctNames m.fields = true) (hok : deepOkFs c.p m.fields = true) (h : copyTo m obj tf = .ok r1) :
    ∃ r2, copyTo (pruneE c own m) obj tf = .ok r2 ∧ OffV (allDroppedAttrs c.p m.fields) r1.tf r2.tf := by
  rw [copyTo_pruneE]
  exact copyTo_prune_deep c.p m obj tf r1 hdn hok h

/-- … and at the level of the excluded field (`copyTo_prune`) -/
theorem copyTo_pruneE_level (c : PCfg) (own : List String) (m : Msg) (hl : levelOnly c.p m.fields = true)
    (hs : attrsSeparate c.p m.fields = true)
    (obj : GoVal) (tf : TfVal) (r1 : ToResult) (h : copyTo m obj tf = .ok r1) :
    ∃ r2, copyTo (pruneE c own m) obj tf = .ok r2 ∧
      ∃ as1 as2 atys, r1.tf = .obj false false (some as1) atys ∧ r2.tf = .obj false false (some as2) atys ∧
        (∀ key, key ∉ droppedAttrs c.p m.fields → as2.lookup key = as1.lookup key) ∧
        (∀ key, key ∈ droppedAttrs c.p m.fields → as2.lookup key = (targetAttrs tf).lookup key) := by
  rw [copyTo_pruneE]
  exact copyTo_prune c.p m hl hs obj tf r1 h

mutual
/-- **the schema of `pruneFsE` is that of `pruneFs`** (the schema reads `injected` of a nested message, not `oneOfNames`) -/
theorem schemaAttrs_pruneFsE (c : PCfg) : ∀ fs : List Field, schemaAttrs (pruneFsE c fs) = schemaAttrs (pruneFs c.p fs)
  | [] => by rw [pruneFsE_nil, pruneFs_nil]
  | f :: rest => by
    rw [pruneFsE_cons, pruneFs_cons]
    cases dropped c.p f.info with
    | true =>
      simp only [if_true]
      exact schemaAttrs_pruneFsE c rest
    | false =>
      simp only [Bool.false_eq_true, if_false]
      rw [schemaAttrs, schemaAttrs, schemaField_pruneFE c f, schemaAttrs_pruneFsE c rest]
theorem schemaField_pruneFE (c : PCfg) : ∀ f : Field, schemaField (pruneFE c f) = schemaField (pruneF c.p f)
  | ⟨info, mv, msg, sub⟩ => by
    rw [pruneFE, pruneF, schemaField, schemaField, schemaAttrs_pruneFsE c sub]
    have : ((msg.map (fun mi => reInfo c mi (pruneFsE c sub))).map (·.injected)) = msg.map (·.injected) := by
      cases msg <;> rfl
    rw [this]
end

theorem schemaOf_pruneE (c : PCfg) (own : List String) (m : Msg) : schemaOf (pruneE c own m) = schemaOf (prune c.p m) := by
  unfold schemaOf
  show schemaAttrs (pruneFsE c m.fields) ++ _ = _
  rw [schemaAttrs_pruneFsE]
  rfl

/-- **the excluded field has no attribute in the schema** (any depth: `fs` is the field list that contains it) -/
theorem schema_excluded_absentE (c : PCfg) (fs : List Field) (hs : attrsSeparate c.p fs = true) :
    ∀ k ∈ droppedAttrs c.p fs, (schemaAttrs (pruneFsE c fs)).lookup k = none := by
  rw [schemaAttrs_pruneFsE]
  exact schema_excluded_absent c.p fs hs

/-! ## 8. `CopyFromTerraform` resets the holders listed in `oneOfNames`

`Copy<T>FromTerraform` starts with `obj.<Holder> = nil` for every name in `oneOfNames`. The pruned message lists fewer
names: exactly the promoted groups none of whose branches survive (`oneOfNames_lost`). So the pruned converter differs
from the unpruned one on the Go holder field of such a group - the unpruned code resets it (and a removed branch may
assign it), the pruned code never touches it - and nowhere else. The holder of a removed branch is a Go field the removed
block assigns anyway when the branch is of kind primitive / object (`allDroppedGo`); `allDroppedOO` lists the holder
names of ALL removed branches, so that the statement also covers branches of a custom type. -/

mutual
/-- the oneof holder names of the nodes `prune p` removes, at any depth -/
def allDroppedOOF (p : String) : Field → List String
  | ⟨_, _, _, sub⟩ => allDroppedOO p sub
def allDroppedOO (p : String) : List Field → List String
  | [] => []
  | f :: fs => (if dropped p f.info then (if f.info.oneOfName == "" then [] else [f.info.oneOfName])
                else allDroppedOOF p f) ++ allDroppedOO p fs
end

/-- the stored names of a nested message are the build's formula over the stored field list -/
def namesOk (c : PCfg) (msg : Option MsgInfo) (sub : List Field) : Bool :=
  match msg with
  | some mi => decide (mi.oneOfNames = reNames c.srt (c.own mi.name) sub)
  | none => true

mutual
/-- the IR stores, for every nested message, `oneOfNames` = the build's formula over the stored field list (decidable;
true of every built IR: `built_ooOk`) -/
def ooOkF (c : PCfg) : Field → Bool
  | ⟨_, _, msg, sub⟩ => namesOk c msg sub && ooOkFs c sub
def ooOkFs (c : PCfg) : List Field → Bool
  | [] => true
  | f :: fs => ooOkF c f && ooOkFs c fs
end

theorem mem_allDroppedOO_top (p : String) : ∀ (fs : List Field) (f : Field), f ∈ fs → dropped p f.info = true →
    f.info.oneOfName ≠ "" → f.info.oneOfName ∈ allDroppedOO p fs
  | [], f, hf, _, _ => by cases hf
  | g :: fs, f, hf, hd, hne => by
    rw [allDroppedOO]
    rcases List.mem_cons.mp hf with rfl | hf
    · have : (f.info.oneOfName == "") = false := by simpa using hne
      simp [hd, this]
    · exact List.mem_append_right _ (mem_allDroppedOO_top p fs f hf hd hne)

/-- outside the holder names of the removed branches, the recomputed names are the stored ones (as sets) -/
theorem names_off (c : PCfg) (D : List String) (own : List String) (fs : List Field)
    (hD : ∀ x ∈ allDroppedOO c.p fs, x ∈ D) (n : String) (hn : n ∉ D) :
    n ∈ reNames c.srt own fs ↔ n ∈ reNames c.srt own (pruneFsE c fs) := by
  rw [mem_reNames, mem_reNames]
  constructor
  · rintro (h | ⟨f, hf, hc⟩)
    · exact Or.inl h
    · cases hd : dropped c.p f.info with
      | true =>
        exfalso
        apply hn
        have := mem_allDroppedOO_top c.p fs f hf hd (hc.1 ▸ hc.2.1)
        rw [hc.1] at this
        exact hD _ this
      | false =>
        refine Or.inr ⟨pruneFE c f, ?_, (carries_pruneFE c n f).mpr hc⟩
        rw [pruneFsE_eq]
        exact List.mem_map.mpr ⟨f, List.mem_filter.mpr ⟨hf, by simp [hd]⟩, rfl⟩
  · rintro (h | ⟨y, hy, hc⟩)
    · exact Or.inl h
    · obtain ⟨x, hx, _, rfl⟩ := mem_pruneFsE hy
      exact Or.inr ⟨x, hx, (carries_pruneFE c n x).mp hc⟩

theorem resetOneOfs_id (ns : List String) (o : GoVal) (h : ∀ n x, o.setField n x = o) : resetOneOfs ns o = o := by
  unfold resetOneOfs
  induction ns with
  | nil => rfl
  | cons n ns ih => rw [List.foldl_cons, h]; exact ih

theorem resetOneOfs_struct : ∀ (ns : List String) (fs : List (String × GoVal)),
    ∃ fs', resetOneOfs ns (.struct fs) = .struct fs' ∧
      ∀ k, fs'.lookup k = if k ∈ ns then some (.iface none) else fs.lookup k
  | [], fs => ⟨fs, rfl, fun k => by simp⟩
  | n :: ns, fs => by
    obtain ⟨fs', h1, h2⟩ := resetOneOfs_struct ns (setKey n (.iface none) fs)
    refine ⟨fs', ?_, fun k => ?_⟩
    · unfold resetOneOfs at h1 ⊢
      rw [List.foldl_cons]
      exact h1
    · rw [h2]
      by_cases hk : k ∈ ns
      · simp [hk]
      · by_cases e : k = n
        · subst e; simp [lookup_setKey_same]
        · simp [hk, e, lookup_setKey_other _ _ _ e]

/-- resetting two lists of holders that agree outside `D` keeps targets related -/
theorem offG_resetOneOfs (D : List String) (ns ns' : List String) (hns : ∀ n, n ∉ D → (n ∈ ns ↔ n ∈ ns'))
    {o o' : GoVal} (h : OffG D o o') : OffG D (resetOneOfs ns o) (resetOneOfs ns' o') := by
  have key : ∀ fs fs' : List (String × GoVal),
      (∀ name, name ∉ D → (fs.lookup name).isSome = (fs'.lookup name).isSome) →
      (∀ name v v', name ∉ D → fs.lookup name = some v → fs'.lookup name = some v' → OffG D v v') →
      OffG D (resetOneOfs ns (.struct fs)) (resetOneOfs ns' (.struct fs')) := by
    intro fs fs' hdom hval
    obtain ⟨gs, e1, l1⟩ := resetOneOfs_struct ns fs
    obtain ⟨gs', e2, l2⟩ := resetOneOfs_struct ns' fs'
    rw [e1, e2]
    refine .struct _ _ (fun name hn => ?_) (fun name v v' hn hv hv' => ?_)
    · rw [l1, l2]
      by_cases hk : name ∈ ns
      · have hk' := (hns name hn).mp hk
        simp [hk, hk']
      · have hk' : name ∉ ns' := fun h' => hk ((hns name hn).mpr h')
        simp only [hk, hk', if_false]
        exact hdom name hn
    · rw [l1] at hv
      rw [l2] at hv'
      by_cases hk : name ∈ ns
      · have hk' := (hns name hn).mp hk
        simp only [hk, hk', if_true] at hv hv'
        injection hv with hv; injection hv' with hv'
        subst hv hv'
        exact .refl _
      · have hk' : name ∉ ns' := fun h' => hk ((hns name hn).mpr h')
        simp only [hk, hk', if_false] at hv hv'
        exact hval name v v' hn hv hv'
  cases h with
  | refl =>
    cases o with
    | struct fs =>
      exact key fs fs (fun _ _ => rfl) (fun _ v v' _ h h' => by rw [h] at h'; injection h' with h'; subst h'; exact .refl v)
    | sc x => rw [resetOneOfs_id ns _ (fun _ _ => rfl), resetOneOfs_id ns' _ (fun _ _ => rfl)]; exact .refl _
    | ptr x => rw [resetOneOfs_id ns _ (fun _ _ => rfl), resetOneOfs_id ns' _ (fun _ _ => rfl)]; exact .refl _
    | slice x => rw [resetOneOfs_id ns _ (fun _ _ => rfl), resetOneOfs_id ns' _ (fun _ _ => rfl)]; exact .refl _
    | map x => rw [resetOneOfs_id ns _ (fun _ _ => rfl), resetOneOfs_id ns' _ (fun _ _ => rfl)]; exact .refl _
    | iface x => rw [resetOneOfs_id ns _ (fun _ _ => rfl), resetOneOfs_id ns' _ (fun _ _ => rfl)]; exact .refl _
  | struct fs fs' hdom hval => exact key fs fs' hdom hval
  | ptr v v' h =>
    rw [resetOneOfs_id ns _ (fun _ _ => rfl), resetOneOfs_id ns' _ (fun _ _ => rfl)]; exact .ptr v v' h
  | slice es es' hl hv =>
    rw [resetOneOfs_id ns _ (fun _ _ => rfl), resetOneOfs_id ns' _ (fun _ _ => rfl)]; exact .slice es es' hl hv
  | map es es' hd hv =>
    rw [resetOneOfs_id ns _ (fun _ _ => rfl), resetOneOfs_id ns' _ (fun _ _ => rfl)]; exact .map es es' hd hv
  | iface w f v v' h =>
    rw [resetOneOfs_id ns _ (fun _ _ => rfl), resetOneOfs_id ns' _ (fun _ _ => rfl)]; exact .iface w f v v' h

open PGT.OrderIndep in
mutual
/-- **CopyFrom blocks of a `pruneFsE`-pruned field list, excluded field at any depth** (no children of NULLABLE embedded
messages - children of messages embedded by value are fine; `oneOfNames` stored consistently). `D` contains the Go fields
the removed blocks assign and the holder names of the removed branches. -/
theorem copyFromFields_deepE (D : List String) (c : PCfg) (ov : List (String × String)) : ∀ (fs : List Field),
    plainFs fs = true → ooOkFs c fs = true → (∀ x ∈ allDroppedGo c.p fs, x ∈ D) → (∀ x ∈ allDroppedOO c.p fs, x ∈ D) →
    ∀ (attrs : Option (List (String × TfVal))) (s1 s2 t1 : FromSt), OffG D s1.obj s2.obj →
    copyFromFields ov fs attrs s1 = .ok t1 →
    ∃ t2, copyFromFields ov (pruneFsE c fs) attrs s2 = .ok t2 ∧ OffG D t1.obj t2.obj
  | [], _, _, _, _, attrs, s1, s2, t1, hs, h => by
    simp only [copyFromFields] at h
    injection h with h
    subst h
    rw [pruneFsE_nil]
    exact ⟨s2, by simp [copyFromFields], hs⟩
  | f :: rest, hpl, hoo, hD, hDo, attrs, s1, s2, t1, hs, h => by
    rw [plainFs, Bool.and_eq_true] at hpl
    rw [ooOkFs, Bool.and_eq_true] at hoo
    rw [allDroppedGo] at hD
    rw [allDroppedOO] at hDo
    have hDrest : ∀ x ∈ allDroppedGo c.p rest, x ∈ D := fun x hx => hD x (List.mem_append_right _ hx)
    have hDorest : ∀ x ∈ allDroppedOO c.p rest, x ∈ D := fun x hx => hDo x (List.mem_append_right _ hx)
    have hef : f.info.parentIsOptionalEmbed = false := by
      obtain ⟨info, mv, msg, sub⟩ := f
      have := hpl.1
      rw [plainF, Bool.and_eq_true] at this
      simpa using this.1
    rw [copyFromFields_cons] at h
    cases hb : blockF ov f attrs s1 with
    | panic w => rw [hb] at h; cases h
    | stuck w => rw [hb] at h; cases h
    | ok u1 =>
      rw [hb] at h
      simp only [obind] at h
      rw [pruneFsE_cons]
      cases hd : dropped c.p f.info with
      | true =>
        simp only [if_true]
        have hkD : wk f.info ∈ D := hD _ (List.mem_append_left _ (by simp [hd]))
        refine copyFromFields_deepE D c ov rest hpl.2 hoo.2 hDrest hDorest attrs u1 s2 t1 ?_ h
        obtain ⟨a, hpa, ha⟩ := blockF_nf ov f attrs hef
        rw [ha s1] at hb
        cases a with
        | panic w => simp [applyFAct] at hb
        | stuck w => simp [applyFAct] at hb
        | ok r =>
          obtain ⟨ws, dx, hx⟩ := r
          simp only [applyFAct, Outcome.ok.injEq] at hb
          subst hb
          exact offG_applyWrites_left D _ hkD ws _ _ (hpa ws dx hx rfl).1 hs
      | false =>
        simp only [Bool.false_eq_true, if_false]
        rw [copyFromFields_cons]
        have hDf : ∀ x ∈ allDroppedGoF c.p f, x ∈ D := fun x hx => hD x (List.mem_append_left _ (by simpa [hd] using hx))
        have hDof : ∀ x ∈ allDroppedOOF c.p f, x ∈ D := fun x hx => hDo x (List.mem_append_left _ (by simpa [hd] using hx))
        obtain ⟨u2, hu2, hoff⟩ := blockF_deepE D c ov f hpl.1 hoo.1 hDf hDof attrs s1 s2 u1 hs hb
        rw [hu2]
        simp only [obind]
        exact copyFromFields_deepE D c ov rest hpl.2 hoo.2 hDrest hDorest attrs u1 u2 t1 hoff h
/-- one step of a surviving node against the step of its pruned version -/
theorem blockF_deepE (D : List String) (c : PCfg) (ov : List (String × String)) : ∀ (f : Field), plainF f = true →
    ooOkF c f = true → (∀ x ∈ allDroppedGoF c.p f, x ∈ D) → (∀ x ∈ allDroppedOOF c.p f, x ∈ D) →
    ∀ (attrs : Option (List (String × TfVal))) (s1 s2 u1 : FromSt), OffG D s1.obj s2.obj →
    blockF ov f attrs s1 = .ok u1 → ∃ u2, blockF ov (pruneFE c f) attrs s2 = .ok u2 ∧ OffG D u1.obj u2.obj
  | ⟨info, mv, msg, sub⟩, hpl, hoo, hD, hDo, attrs, s1, s2, u1, hs, h => by
    rw [plainF, Bool.and_eq_true] at hpl
    rw [ooOkF, Bool.and_eq_true] at hoo
    rw [allDroppedGoF] at hD
    rw [allDroppedOOF] at hDo
    have he : info.parentIsOptionalEmbed = false := by simpa using hpl.1
    unfold blockF at h ⊢
    rw [pruneFE_info]
    simp only [] at h ⊢
    by_cases hph : info.isPlaceholder = true
    · simp only [hph, if_true] at h ⊢
      injection h with h
      subst h
      exact ⟨s2, rfl, hs⟩
    · simp only [hph, Bool.false_eq_true, if_false] at h ⊢
      rw [pruneFE, copyFromField]
      rw [copyFromField] at h
      have hmsg : isEmptyMsg (msg.map (fun mi => reInfo c mi (pruneFsE c sub))) = isEmptyMsg msg := isEmptyMsg_reInfo c msg _
      have hfw := fieldWith_frel D
        (fun attrs s => copyFromFields ov sub attrs
          { s with obj := resetOneOfs ((msg.map (·.oneOfNames)).getD []) s.obj })
        (fun attrs s => copyFromFields ov (pruneFsE c sub) attrs
          { s with obj := resetOneOfs (((msg.map (fun mi => reInfo c mi (pruneFsE c sub))).map (·.oneOfNames)).getD []) s.obj })
        ov info mv msg attrs s1.diags s2.diags s1.hooks s2.hooks ?_ he s1.obj s2.obj u1 hs h
      · obtain ⟨u2, hu2, hoff⟩ := hfw
        refine ⟨u2, ?_, hoff⟩
        rw [← hu2]
        exact copyFromFieldWith_msg hmsg _ ov info mv attrs _
      · intro as d1 h1 d2 h2 t1 ht1
        refine copyFromFields_deepE D c ov sub hpl.2 hoo.2 hD hDo as _ _ t1 ?_ ht1
        show OffG D (resetOneOfs _ (.struct [])) (resetOneOfs _ (.struct []))
        refine offG_resetOneOfs D _ _ ?_ (OffG.refl _)
        intro n hn
        cases msg with
        | none => exact Iff.rfl
        | some mi =>
          have hmi : mi.oneOfNames = reNames c.srt (c.own mi.name) sub := by simpa [namesOk] using hoo.1
          show n ∈ mi.oneOfNames ↔ n ∈ reNames c.srt (c.own mi.name) (pruneFsE c sub)
          rw [hmi]
          exact names_off c D _ sub hDo n hn
end

/-- **`Copy<T>FromTerraform` of the pruned message, excluded field at any depth, messages embedded BY VALUE anywhere**
(`plainFs`: no node is a child of a NULLABLE embedded message; `ooOkFs` / `hm`: `oneOfNames` stored as built). Whenever
the converter of `m` succeeds, the converter of `pruneE p m` succeeds on the same inputs, and the two structs agree
except in the Go fields the blocks of the removed nodes assign and in the holders of the removed oneof branches. -/
theorem copyFrom_pruneE_deep (ov : List (String × String)) (c : PCfg) (own : List String) (m : Msg) (tf : TfVal)
    (obj : GoVal) (r1 : FromResult) (hpl : plainFs m.fields = true) (hoo : ooOkFs c m.fields = true)
    (hm : m.info.oneOfNames = reNames c.srt own m.fields) (h : copyFrom ov m tf obj = .ok r1) :
    ∃ r2, copyFrom ov (pruneE c own m) tf obj = .ok r2 ∧
      OffG (allDroppedGo c.p m.fields ++ allDroppedOO c.p m.fields) r1.obj r2.obj := by
  unfold copyFrom at h ⊢
  cases tf with
  | obj u n attrs atys =>
    simp only [] at h ⊢
    cases hf : copyFromFields ov m.fields attrs { obj := resetOneOfs m.info.oneOfNames obj } with
    | panic w => rw [hf] at h; cases h
    | stuck w => rw [hf] at h; cases h
    | ok s1 =>
      rw [hf] at h
      injection h with h
      subst h
      obtain ⟨s2, h2, hoff⟩ := copyFromFields_deepE (allDroppedGo c.p m.fields ++ allDroppedOO c.p m.fields) c ov m.fields
        hpl hoo (fun _ hx => List.mem_append_left _ hx) (fun _ hx => List.mem_append_right _ hx) attrs
        { obj := resetOneOfs m.info.oneOfNames obj }
        { obj := resetOneOfs (reNames c.srt own (pruneFsE c m.fields)) obj } s1
        (by
          show OffG _ (resetOneOfs _ obj) (resetOneOfs _ obj)
          refine offG_resetOneOfs _ _ _ ?_ (OffG.refl _)
          intro n hn
          rw [hm]
          exact names_off c _ own m.fields (fun _ hx => List.mem_append_right _ hx) n hn) hf
      show ∃ r2, (match copyFromFields ov (pruneFsE c m.fields) attrs
          { obj := resetOneOfs (reNames c.srt own (pruneFsE c m.fields)) obj } with
        | .ok st => Outcome.ok ({ obj := st.obj, diags := st.diags, hooks := st.hooks } : FromResult)
        | .panic w => .panic w
        | .stuck w => .stuck w) = .ok r2 ∧ _
      rw [h2]
      exact ⟨_, rfl, hoff⟩
  | prim _ _ _ _ => cases h
  | list _ _ _ _ => cases h
  | map _ _ _ _ => cases h
  | nilv => cases h
  | foreign _ => cases h

/-! ### every built IR stores `oneOfNames` consistently -/

theorem ooOkFs_iff (c : PCfg) : ∀ fs : List Field, ooOkFs c fs = true ↔ ∀ f ∈ fs, ooOkF c f = true
  | [] => by rw [ooOkFs]; simp
  | f :: fs => by rw [ooOkFs, Bool.and_eq_true, ooOkFs_iff c fs]; simp

theorem ooOkF_mark (c : PCfg) (a b : String) (x : Field) : ooOkF c (markEmbedded a b x) = ooOkF c x := by
  obtain ⟨info, mv, msg, sub⟩ := x
  simp only [markEmbedded, ooOkF]

theorem ooOkFs_mark (c : PCfg) (a b : String) (fs : List Field) (h : ooOkFs c fs = true) :
    ooOkFs c (fs.map (markEmbedded a b)) = true := by
  rw [ooOkFs_iff] at h ⊢
  intro y hy
  obtain ⟨x, hx, rfl⟩ := List.mem_map.mp hy
  rw [ooOkF_mark]
  exact h x hx

theorem coreStep_ooOk (c : PCfg) (V : CfgView) (req : Request) (ctx : MsgCtx) (f : FieldD) (keys : Keys)
    (goType : String) (isMap isRep hasComment : Bool)
    (bm : MsgD → Except BuildError Msg) (bv : Except BuildError (List Field))
    (hbm : ∀ d m, req.findMessage f.typeName = some d → bm d = .ok m →
      ooOkFs c m.fields = true ∧ m.info.oneOfNames = reNames c.srt (c.own m.info.name) m.fields)
    (hbv : ∀ r, bv = .ok r → ooOkFs c r = true)
    (r : List Field) (h : coreStep V req ctx f keys goType isMap isRep hasComment bm bv = .ok r) :
    ooOkFs c r = true := by
  have key : ∀ x, r = [x] → namesOk c x.msg x.sub = true → ooOkFs c x.sub = true → ooOkFs c r = true := by
    intro x hx h1 h2
    subst hx
    obtain ⟨info, mv, msg, sub⟩ := x
    rw [ooOkFs, ooOkF, ooOkFs]
    simp only at h1 h2
    simp [h1, h2]
  unfold coreStep at h
  cases hex : V.excluded keys with
  | true =>
    simp only [hex, if_true] at h
    injection h with h; subst h; rw [ooOkFs]
  | false =>
    cases htf : getTerraformType V f isMap isRep goType keys.path with
    | error e => simp only [hex, htf] at h; cases h
    | ok tf =>
      cases hc : (tf.isMessage && !isMap) with
      | true =>
        have hmap : isMap = false := by cases isMap <;> simp_all
        subst hmap
        have hm : tf.isMessage = true := by simpa using hc
        cases hfind : req.findMessage f.typeName with
        | none => simp only [hex, htf, hc, hfind] at h; cases h
        | some d =>
          cases hb : bm d with
          | error e => simp only [hex, htf, hc, hfind, hb] at h; cases h
          | ok m =>
            obtain ⟨hm1, hm2⟩ := hbm d m hfind hb
            cases hemb : f.embed with
            | false =>
              simp only [hex, htf, hc, hfind, hb, hemb, Bool.and_false, Bool.false_eq_true, if_false] at h
              injection h with h
              exact key _ h.symm (by simp [namesOk, hm2]) hm1
            | true =>
              cases hnl : goType.toList.contains '*' with
              | false =>
                simp only [hex, htf, hm, hfind, hb, hemb, hnl, Bool.and_self, Bool.not_false,
                  Bool.false_eq_true, if_false, if_true] at h
                injection h with h
                subst h
                exact hm1
              | true =>
                simp only [hex, htf, hm, hfind, hb, hemb, hnl, Bool.and_self, Bool.not_true, Bool.not_false,
                  Bool.false_eq_true, if_false, if_true] at h
                injection h with h
                subst h
                exact ooOkFs_mark c _ _ _ hm1
      | false =>
        cases isMap with
        | false =>
          simp only [hex, htf, hc, Bool.false_and, Bool.false_eq_true, if_false] at h
          injection h with h
          exact key _ h.symm rfl (by rw [ooOkFs])
        | true =>
          by_cases hk : scalarGoType f.mapKey = "string"
          · cases hv : bv with
            | error e => simp [hex, htf, hk, hv] at h
            | ok l =>
              cases l with
              | nil => simp [hex, htf, hk, hv] at h
              | cons v vs =>
                have hpv := (ooOkFs_iff c _).mp (hbv _ hv) v List.mem_cons_self
                obtain ⟨vi, vmv, vmsg, vsub⟩ := v
                rw [ooOkF, Bool.and_eq_true] at hpv
                simp only [hex, htf, hc, hk, hv, Bool.false_and, Bool.false_eq_true, if_false] at h
                injection h with h
                exact key _ h.symm hpv.1 hpv.2
          · simp [hex, htf, hk] at h

/-- **every IR built from any tree (embedded fields or not) stores, for every nested message, `oneOfNames` = the build's
formula over the stored field list** -/
theorem built_ooOk (c : PCfg) (V : CfgView) (hs : c.srt = V.sort) (req : Request) (hO : OwnOK req c.own) : ∀ n : Nat,
    (∀ desc isRoot path m, buildMessage n V req desc isRoot path = .ok m → ooOkFs c m.fields = true) ∧
    (∀ ctx f keys goType isMap isRep hasComment r,
        buildFieldCore n V req ctx f keys goType isMap isRep hasComment = .ok r → ooOkFs c r = true) := by
  intro n
  induction n with
  | zero =>
    constructor
    · intro desc isRoot path m h; rw [buildMessage_zero] at h; cases h
    · intro ctx f keys goType isMap isRep hc r h; rw [buildFieldCore_zero] at h; cases h
  | succ n ih =>
    obtain ⟨ihM, ihF⟩ := ih
    constructor
    · intro desc isRoot path m h
      rw [buildMessage_succ] at h
      unfold msgStep at h
      cases hemp : desc.fields.isEmpty with
      | true =>
        simp only [hemp, if_true] at h
        injection h with h
        subst h
        rfl
      | false =>
        simp only [hemp, Bool.false_eq_true, if_false] at h
        cases hc : collectFields (desc.fields.map fun f => fieldCall n V req (ctxOf desc isRoot path) f) with
        | error e => simp [hc] at h
        | ok fs =>
          simp only [hc] at h
          injection h with h
          subst h
          have hfs : ooOkFs c fs = true := by
            rw [ooOkFs_iff]
            intro x hx
            obtain ⟨b, hb, r, hr, hxr⟩ := collect_mem _ desc.fields fs hc x hx
            exact (ooOkFs_iff c r).mp (ihF _ b _ _ _ _ _ r hr) x hxr
          show ooOkFs c (if V.sort = true then sortFieldsByName fs else fs) = true
          cases V.sort
          · exact hfs
          · simp only [if_true]
            rw [ooOkFs_iff] at hfs ⊢
            exact fun x hx => hfs x ((mem_sortFieldsByName x fs).mp hx)
    · intro ctx f keys goType isMap isRep hc r h
      rw [buildFieldCore_succ] at h
      refine coreStep_ooOk c V req ctx f keys goType isMap isRep hc _ _ ?_ ?_ r h
      · intro d m hfind hb
        refine ⟨ihM d false keys.path m hb, ?_⟩
        rw [built_oneOfNames n V req d false keys.path m hb, built_msg_name n V req d false keys.path m hb,
          hO f.typeName d hfind, hs]
      · intro r' hr'
        exact ihF ctx f.mapValueField keys _ false false false r' hr'

/-! ## 9. end to end -/

/-- **C11 with embedded fields, excluded field at any depth.** `cfg'` = `cfg` plus the path `p` in `exclude_fields`; the
tree may contain embedded fields anywhere (by value or by pointer, nested in each other); `p` addresses by path only and is
not the root's name; the root builds to `m` without the exclusion. Then
* it builds to `pruneE p m` with the exclusion;
* `oneOfNames` of the root: no name is gained, and a name is lost exactly when it is not an own name of the root and every
  field carrying it is removed;
* `GenSchema`: the schema of `pruneE p m` is that of `prune p m`;
* `CopyToTerraform` (no condition on the embedded fields; side conditions of `copyTo_prune_deep`): succeeds whenever the
  converter without the exclusion does, results agree except under the attributes of the removed nodes;
* `CopyFromTerraform` (no node of `m` is a child of a NULLABLE embedded message - `plainFs`, decidable on `m`; messages
  embedded by value are fine): succeeds whenever the converter without the exclusion does, results agree except in the
  Go fields the removed blocks assign and the holders of the removed oneof branches. -/
theorem exclusion_surgical_deepE (cfg : Config) (p : String) (req : Request) (desc : MsgD) (m : Msg)
    (hpath : desc.name ≠ p)
    (htn : typeFree p (ctxKeys (defaultFuel req) req (rootCtx desc)) = true)
    (hb : buildRoot cfg req desc = .ok (some m)) :
    buildRoot { cfg with excludeFields := p :: cfg.excludeFields } req desc =
      .ok (some (pruneE (pcfg cfg req p) (oneOfNames desc) m)) ∧
    (∀ n, n ∈ (pruneE (pcfg cfg req p) (oneOfNames desc) m).info.oneOfNames → n ∈ m.info.oneOfNames) ∧
    (∀ n, (n ∈ m.info.oneOfNames ∧ n ∉ (pruneE (pcfg cfg req p) (oneOfNames desc) m).info.oneOfNames) ↔
      n ∉ oneOfNames desc ∧ (∃ f ∈ m.fields, Carries n f) ∧ ∀ f ∈ m.fields, Carries n f → dropped p f.info = true) ∧
    schemaOf (pruneE (pcfg cfg req p) (oneOfNames desc) m) = schemaOf (prune p m) ∧
    (distinctNames m.fields = true → deepOkFs p m.fields = true → ∀ obj tf r1, copyTo m obj tf = .ok r1 →
      ∃ r2, copyTo (pruneE (pcfg cfg req p) (oneOfNames desc) m) obj tf = .ok r2 ∧
        OffV (allDroppedAttrs p m.fields) r1.tf r2.tf) ∧
    (plainFs m.fields = true → ∀ ov tf obj r1, copyFrom ov m tf obj = .ok r1 →
      ∃ r2, copyFrom ov (pruneE (pcfg cfg req p) (oneOfNames desc) m) tf obj = .ok r2 ∧
        OffG (allDroppedGo p m.fields ++ allDroppedOO p m.fields) r1.obj r2.obj) := by
  have hbm := buildRoot_inv hb
  have hm : m.info.oneOfNames = reNames (pcfg cfg req p).srt (oneOfNames desc) m.fields :=
    built_oneOfNames _ (viewOf cfg) req desc true "" m hbm
  have hoo : ooOkFs (pcfg cfg req p) m.fields = true :=
    (built_ooOk (pcfg cfg req p) (viewOf cfg) rfl req (ownOf_ok req) (defaultFuel req)).1 desc true "" m hbm
  exact ⟨exclusion_prunesE_root cfg p req desc m hpath htn hb,
    oneOfNames_pruneE_subset (pcfg cfg req p) (oneOfNames desc) m hm,
    oneOfNames_lost (pcfg cfg req p) (oneOfNames desc) m hm,
    schemaOf_pruneE (pcfg cfg req p) (oneOfNames desc) m,
    fun hdn hok obj tf r1 h => copyTo_pruneE_deep (pcfg cfg req p) (oneOfNames desc) m obj tf r1 hdn hok h,
    fun hpl ov tf obj r1 h => copyFrom_pruneE_deep ov (pcfg cfg req p) (oneOfNames desc) m tf obj r1 hpl hoo hm h⟩

/-- the root form of `exclusion_embedded_itself`: `p` is the root's name -/
theorem exclusion_embedded_itself_root (cfg : Config) (req : Request) (desc : MsgD)
    (htn : typeFree desc.name (ctxKeys (defaultFuel req) req (rootCtx desc)) = true)
    (hsel : cfg.types.contains desc.name = true) :
    buildRoot { cfg with excludeFields := desc.name :: cfg.excludeFields } req desc =
      (match msgStep (viewOf cfg) desc true ""
          (collectFields ((desc.fields.filter fun f => !f.embed).map
            fun f => fieldCall (defaultFuel req - 1) (viewOf cfg) req (rootCtx desc) f)) with
        | .error e => .error e
        | .ok m => .ok (some m)) := by
  have hfuel : defaultFuel req = (3 * (req.allFiles.flatMap (·.messages)).length + 2) + 2 := rfl
  unfold buildRoot
  simp only [hsel, Bool.not_true, Bool.false_eq_true, if_false]
  have := exclusion_embedded_itself cfg desc.name req (3 * (req.allFiles.flatMap (·.messages)).length + 2) desc true ""
    rfl (by rw [← hfuel]; exact htn)
  rw [← hfuel] at this
  rw [this]
  rfl

/-- **consistency with `ExclusionPrune`**: on the IR of a tree without embedded fields, `pruneE` is `prune` -/
theorem pruneE_eq_prune_noEmbed (cfg : Config) (p : String) (req : Request) (fuel : Nat) (desc : MsgD) (isRoot : Bool)
    (path : String) (m : Msg)
    (hne : noEmbedFields desc.fields = true) (hner : NoEmbedReq req = true)
    (hpath : (ctxOf desc isRoot path).path ≠ p)
    (htn : typeFree p (ctxKeys fuel req (ctxOf desc isRoot path)) = true)
    (h : buildMessage fuel (viewOf cfg) req desc isRoot path = .ok m) :
    pruneE (pcfg cfg req p) (oneOfNames desc) m = prune p m := by
  have h1 := exclusion_prunesE_ctx cfg p req fuel desc isRoot path m hpath htn h
  have h2 := exclusion_prunes_ctx cfg p req fuel desc isRoot path m hne hner htn h
  rw [h1] at h2
  injection h2

/-- **The general statement** (every depth, embedded fields anywhere, by value or by pointer, nested): for a selected root
that builds without the exclusion, and a key `p` that addresses by path only,
* `p` ≠ the root's name: the root builds, with `p` excluded, to `pruneE p m`;
* `p` = the root's name: the root builds, with `p` excluded, to the message of its non-embedded declared fields. -/
def exclusion_prunes_embed_full : Prop :=
  ∀ (cfg : Config) (p : String) (req : Request) (desc : MsgD) (m : Msg),
    typeFree p (ctxKeys (defaultFuel req) req (rootCtx desc)) = true →
    buildRoot cfg req desc = .ok (some m) →
    (desc.name ≠ p →
      buildRoot { cfg with excludeFields := p :: cfg.excludeFields } req desc =
        .ok (some (pruneE (pcfg cfg req p) (oneOfNames desc) m))) ∧
    (desc.name = p →
      buildRoot { cfg with excludeFields := p :: cfg.excludeFields } req desc =
        (match msgStep (viewOf cfg) desc true ""
            (collectFields ((desc.fields.filter fun f => !f.embed).map
              fun f => fieldCall (defaultFuel req - 1) (viewOf cfg) req (rootCtx desc) f)) with
          | .error e => .error e
          | .ok m => .ok (some m)))

theorem exclusion_prunes_embed_full_holds : exclusion_prunes_embed_full := by
  intro cfg p req desc m htn hb
  constructor
  · intro hp
    exact exclusion_prunesE_root cfg p req desc m hp htn hb
  · intro hp
    subst hp
    have hsel : cfg.types.contains desc.name = true := by
      unfold buildRoot at hb
      cases hs : cfg.types.contains desc.name with
      | true => rfl
      | false =>
        simp only [hs, Bool.not_false, if_true] at hb
        cases hb
    exact exclusion_embedded_itself_root cfg req desc htn hsel

/-! ## 10. the statements on concrete trees (`decide +kernel`), and the hypotheses are necessary -/

namespace Example
open PGT.Proofs.BuildErrors.Witness PGT.Proofs.ExclusionPrune.Example

/-- `E`: a plain field and a oneof group `choice` with two branches -/
def dE : MsgD := { name := "E", oneofs := ["choice"], fields := [
  { name := "x", type := "string" },
  { name := "o1", type := "string", oneof := some 0 },
  { name := "o2", type := "int32", oneof := some 0 } ] }
/-- a root that embeds `E` BY VALUE -/
def dRv : MsgD := { name := "R", fields := [
  { name := "id", type := "string" },
  { name := "e", type := "message", typeName := "E", embed := true, nullable := "false" } ] }
def reqV : Request := { file := { name := "e.proto", package := "e", messages := [dRv, dE] } }
/-- a root that embeds `E` BY POINTER -/
def dRp : MsgD := { name := "R", fields := [
  { name := "id", type := "string" },
  { name := "e", type := "message", typeName := "E", embed := true } ] }
def reqP : Request := { file := { name := "e.proto", package := "e", messages := [dRp, dE] } }

abbrev bV (cfg : Config) := buildMessage (defaultFuel reqV) (viewOf cfg) reqV dRv true ""
abbrev bP (cfg : Config) := buildMessage (defaultFuel reqP) (viewOf cfg) reqP dRp true ""

def pruneResE (c : PCfg) (own : List String) : Except BuildError Msg → Except BuildError Msg
  | .ok m => .ok (pruneE c own m)
  | .error e => .error e

/-- the checked statement: the hypotheses of `exclusion_prunesE_ctx` hold and the excluded build is the pruned build
(independently, by evaluation) -/
def checksE (cfg : Config) (req : Request) (root : MsgD) (p : String) : Bool :=
  (root.name != p) && typeFree p (ctxKeys (defaultFuel req) req (rootCtx root)) &&
  (buildMessage (defaultFuel req) (viewOf cfg) req root true "").toOption.isSome &&
  beqRes (buildMessage (defaultFuel req) (viewOf (exclude cfg p)) req root true "")
    (pruneResE (pcfg cfg req p) (oneOfNames root) (buildMessage (defaultFuel req) (viewOf cfg) req root true ""))

/-- the surviving recorded paths and the root's `oneOfNames` -/
def summary (r : Except BuildError Msg) : Option (List String × List String) :=
  r.toOption.map fun m => (allPaths 9 m.fields, m.info.oneOfNames)

/-! ### a root embedding a message with a oneof group by value -/

/-- the children of `E` are spliced into `R` under the paths `R.<child>`; the group `Choice` is promoted -/
example : summary (bV {}) = some (["R.id", "R.x", "R.o1", "R.o2"], ["Choice"]) := by decide +kernel
/-- excluding ONE branch: the node is removed, `Choice` stays (the other branch carries it) -/
example : checksE {} reqV dRv "R.o1" = true := by decide +kernel
example : summary (bV (exclude {} "R.o1")) = some (["R.id", "R.x", "R.o2"], ["Choice"]) := by decide +kernel
/-- excluding BOTH branches: the second exclusion removes the last branch, and `Choice` disappears from `oneOfNames` -/
example : checksE (exclude {} "R.o1") reqV dRv "R.o2" = true := by decide +kernel
example : summary (bV (exclude (exclude {} "R.o1") "R.o2")) = some (["R.id", "R.x"], []) := by decide +kernel
/-- a plain child of the embedded message; an ordinary field of the root (embedded field elsewhere) -/
example : checksE {} reqV dRv "R.x" = true := by decide +kernel
example : checksE {} reqV dRv "R.id" = true := by decide +kernel
example : checksE { sort := true } reqV dRv "R.o2" = true := by decide +kernel
/-- … and through the theorem -/
example (m : Msg) (h : bV (exclude {} "R.o1") = .ok m) :
    bV (exclude (exclude {} "R.o1") "R.o2") = .ok (pruneE (pcfg (exclude {} "R.o1") reqV "R.o2") [] m) :=
  exclusion_prunesE_ctx (exclude {} "R.o1") "R.o2" reqV _ dRv true "" m (by decide) (by decide) h

/-- **recomputing `oneOfNames` is necessary**: with the last branch of the promoted group excluded, the build is NOT
`ExclusionPrune.prune` of the build without the exclusion (which keeps `oneOfNames = ["Choice"]`) -/
theorem recompute_needed :
    bV (exclude (exclude {} "R.o1") "R.o2") ≠ pruneRes "R.o2" (bV (exclude {} "R.o1")) :=
  beqRes_false (by decide +kernel)

/-- **the embedded field itself**: its `Keys.path` is the root's path `R`; excluding `R` removes exactly the children of `E` -/
example : summary (bV (exclude {} "R")) = some (["R.id"], []) := by decide +kernel
example (cfg : Config) (n : Nat) :
    buildMessage (n + 2) (viewOf (exclude cfg "R")) reqV dRv true "" =
      msgStep (viewOf cfg) dRv true "" (collectFields ([({ name := "id", type := "string" } : FieldD)].map
        fun f => fieldCall (n + 1) (viewOf cfg) reqV (ctxOf dRv true "") f)) :=
  exclusion_embedded_itself cfg "R" reqV n dRv true "" rfl (by
    have : ∀ k ∈ ctxKeys (n + 2) reqV (ctxOf dRv true ""), k.typeName ≠ "R" := by
      intro k hk
      obtain ⟨fs, c', f, _, _, rfl⟩ := (keys_sound reqV (n + 2)).1 _ k hk
      rw [keysOf_typeName]
      intro e
      have := congrArg (fun s => s.toList.contains '.') e
      simp at this
    simp only [typeFree, List.all_eq_true, Bool.or_eq_true, bne_iff_ne, ne_eq, beq_iff_eq]
    exact fun k hk => Or.inl (this k hk))
/-- `p ≠` the message's own path is necessary for `pruneE`: no node has the recorded path `R` -/
theorem ownPath_needed :
    typeFree "R" (ctxKeys (defaultFuel reqV) reqV (rootCtx dRv)) = true ∧
    bV (exclude {} "R") ≠ pruneResE (pcfg {} reqV "R") (oneOfNames dRv) (bV {}) :=
  ⟨by decide, beqRes_false (by decide +kernel)⟩

/-! ### by pointer: the children are marked, their oneof groups are never promoted -/

example : summary (bP {}) = some (["R.id", "R.x", "R.o1", "R.o2"], []) := by decide +kernel
example : checksE {} reqP dRp "R.o1" = true := by decide +kernel
example : checksE (exclude {} "R.o1") reqP dRp "R.o2" = true := by decide +kernel
example : checksE {} reqP dRp "R.x" = true := by decide +kernel

/-! ### embedded messages below the root, inside each other, next to lists and maps of messages -/

/-- `M`: an own oneof group `own`, and `E` embedded by value -/
def dM : MsgD := { name := "M", oneofs := ["own"], fields := [
  { name := "k", type := "string", oneof := some 0 },
  { name := "e", type := "message", typeName := "E", embed := true, nullable := "false" } ] }
/-- `S`: a field, a list and a map of `M`; `B` (of `BuildErrors.Witness`: `s`, `c : repeated C`, `C.t : Timestamp`)
embedded by value; `M` embedded by pointer -/
def dS : MsgD := { name := "S", fields := [
  { name := "m", type := "message", typeName := "M" },
  { name := "ms", type := "message", typeName := "M", card := .repeated },
  { name := "b", type := "message", typeName := "B", embed := true, nullable := "false" },
  { name := "mm", type := "message", typeName := "M", card := .map },
  { name := "mp", type := "message", typeName := "M", embed := true } ] }
def reqS : Request := { file := { name := "s.proto", package := "s", messages := [dS, dM, dE, msgB, msgC] } }
abbrev bS (cfg : Config) := buildMessage (defaultFuel reqS) (viewOf cfg) reqS dS true ""

example : summary (bS cfgT) = some (["S.m", "S.m.k", "S.m.x", "S.m.o1", "S.m.o2", "S.ms", "S.ms.k", "S.ms.x", "S.ms.o1",
    "S.ms.o2", "S.s", "S.c", "S.c.t", "S.mm", "S.mm.k", "S.mm.x", "S.mm.o1", "S.mm.o2", "S.k", "S.x", "S.o1", "S.o2"], []) := by
  decide +kernel
/-- `oneOfNames` of the nested message `M` at `S.m`: own, then promoted -/
def namesAt (name : String) (r : Except BuildError Msg) : Option (List (List String)) :=
  r.toOption.map fun m => (m.fields.filter fun f => f.info.nameSnake == name).map fun f => (f.msg.map (·.oneOfNames)).getD []
example : namesAt "m" (bS cfgT) = some [["Own", "Choice"]] := by decide +kernel
/-- a branch of the promoted group, two levels down; then the other one: `Choice` leaves `oneOfNames` of `M` at `S.m` only -/
example : checksE cfgT reqS dS "S.m.o1" = true := by decide +kernel
example : checksE (exclude cfgT "S.m.o1") reqS dS "S.m.o2" = true := by decide +kernel
example : namesAt "m" (bS (exclude (exclude cfgT "S.m.o1") "S.m.o2")) = some [["Own"]] := by decide +kernel
example : namesAt "ms" (bS (exclude (exclude cfgT "S.m.o1") "S.m.o2")) = some [["Own", "Choice"]] := by decide +kernel
/-- the only branch of the OWN group of `M`: `Own` stays -/
example : checksE cfgT reqS dS "S.m.k" = true := by decide +kernel
example : namesAt "m" (bS (exclude cfgT "S.m.k")) = some [["Own", "Choice"]] := by decide +kernel
/-- in the element message of a list, in the value message of a map -/
example : checksE cfgT reqS dS "S.ms.o1" = true := by decide +kernel
example : checksE cfgT reqS dS "S.mm.o2" = true := by decide +kernel
/-- children of `B` embedded by value in the root: one level, and three levels down (`S.c.t`, inside the list `c`) -/
example : checksE cfgT reqS dS "S.s" = true := by decide +kernel
example : checksE cfgT reqS dS "S.c.t" = true := by decide +kernel
/-- a child of `E` embedded by value in `M` embedded by pointer in the root -/
example : checksE cfgT reqS dS "S.o1" = true := by decide +kernel
/-- an ordinary message field of the root, the map field; sorting on; a path that addresses nothing -/
example : checksE cfgT reqS dS "S.m" = true := by decide +kernel
example : checksE cfgT reqS dS "S.mm" = true := by decide +kernel
example : checksE cfgTs reqS dS "S.m.o2" = true := by decide +kernel
example : checksE cfgTs reqS dS "S.c.t" = true := by decide +kernel
example : checksE cfgT reqS dS "S.zz" = true := by decide +kernel

/-- `E` embedded by value in `M` embedded by value in the root: both groups are promoted to the root -/
def dRR : MsgD := { name := "RR", fields := [
  { name := "e", type := "message", typeName := "M", embed := true, nullable := "false" } ] }
def reqRR : Request := { file := { name := "r.proto", package := "r", messages := [dRR, dM, dE] } }
abbrev bRR (cfg : Config) := buildMessage (defaultFuel reqRR) (viewOf cfg) reqRR dRR true ""
example : summary (bRR {}) = some (["RR.k", "RR.x", "RR.o1", "RR.o2"], ["Own", "Choice"]) := by decide +kernel
example : checksE {} reqRR dRR "RR.k" = true := by decide +kernel
example : summary (bRR (exclude {} "RR.k")) = some (["RR.x", "RR.o1", "RR.o2"], ["Choice"]) := by decide +kernel
example : checksE { sort := true } reqRR dRR "RR.o1" = true := by decide +kernel

/-! ### the side conditions of the converter corollaries; children of a NULLABLE embedded message are not covered -/

def mV : Msg := match bV {} with | .ok m => m | .error _ => default
def mP : Msg := match bP {} with | .ok m => m | .error _ => default

/-- by value: the IR is `plainFs`; the removed branch `o2` contributes its Go holder `Choice` -/
example : plainFs mV.fields = true ∧ ooOkFs (pcfg {} reqV "R.o2") mV.fields = true ∧
    allDroppedGo "R.o2" mV.fields = ["Choice"] ∧ allDroppedOO "R.o2" mV.fields = ["Choice"] ∧
    allDroppedAttrs "R.o2" mV.fields = ["o2"] := by decide +kernel

/-- **`copyTo_pruneE_deep` / `copyFrom_pruneE_deep` instantiated**: `R.o2`, a child of the message embedded by value -/
example (obj : GoVal) (tf : TfVal) (r1 : ToResult) (h : copyTo mV obj tf = .ok r1) :
    ∃ r2, copyTo (pruneE (pcfg {} reqV "R.o2") [] mV) obj tf = .ok r2 ∧ OffV ["o2"] r1.tf r2.tf := by
  have := copyTo_pruneE_deep (pcfg {} reqV "R.o2") [] mV obj tf r1 (by decide +kernel) (by decide +kernel) h
  rwa [show allDroppedAttrs (pcfg {} reqV "R.o2").p mV.fields = ["o2"] by decide +kernel] at this

example (tf : TfVal) (obj : GoVal) (r1 : FromResult) (h : copyFrom [] mV tf obj = .ok r1) :
    ∃ r2, copyFrom [] (pruneE (pcfg {} reqV "R.o2") [] mV) tf obj = .ok r2 ∧ OffG ["Choice", "Choice"] r1.obj r2.obj := by
  have := copyFrom_pruneE_deep [] (pcfg {} reqV "R.o2") [] mV tf obj r1 (by decide +kernel) (by decide +kernel)
    (by decide +kernel) h
  rwa [show allDroppedGo (pcfg {} reqV "R.o2").p mV.fields ++ allDroppedOO (pcfg {} reqV "R.o2").p mV.fields =
    ["Choice", "Choice"] by decide +kernel] at this

/-- by pointer: every child is marked, the IR is not `plainFs` -/
example : plainFs mP.fields = false ∧ allDroppedGo "R.x" mP.fields = ["X"] ∧ allDroppedOO "R.x" mP.fields = [] := by
  decide +kernel

/-- a Terraform object in which only `x` is known -/
def tfIn : TfVal := .obj false false (some [
  ("id", .prim .string false true (.str [])),
  ("x", .prim .string false false (.str [97])),
  ("o1", .prim .string false true (.str [])),
  ("o2", .prim .int64 false true (.w64 0))]) none

def hasField (r : Outcome FromResult) (n : String) : Option Bool :=
  match r with
  | .ok r => some (r.obj.field? n).isSome
  | _ => none

/-- **`plainFs` is necessary for the CopyFrom statement as it stands**: `x` is a child of the NULLABLE embedded message
`E`. Without the exclusion the block of `x` (a known value) allocates the embedded message: `obj.E = &E{X: "a"}`. With
`R.x` excluded no block allocates it (the other children are null): `obj.E` stays nil. The two results differ in the Go
field `E` of the embedding struct, not only in the removed field `X`. -/
theorem nullable_embed_allocates :
    ∃ r1 r2, copyFrom [] mP tfIn (.struct []) = .ok r1 ∧
      copyFrom [] (pruneE (pcfg {} reqP "R.x") [] mP) tfIn (.struct []) = .ok r2 ∧
      ¬ OffG (allDroppedGo "R.x" mP.fields ++ allDroppedOO "R.x" mP.fields) r1.obj r2.obj := by
  have h1 : hasField (copyFrom [] mP tfIn (.struct [])) "E" = some true := by decide +kernel
  have h2 : hasField (copyFrom [] (pruneE (pcfg {} reqP "R.x") [] mP) tfIn (.struct [])) "E" = some false := by
    decide +kernel
  have hD : allDroppedGo "R.x" mP.fields ++ allDroppedOO "R.x" mP.fields = ["X"] := by decide +kernel
  cases e1 : copyFrom [] mP tfIn (.struct []) with
  | panic w => rw [e1] at h1; cases h1
  | stuck w => rw [e1] at h1; cases h1
  | ok r1 =>
    cases e2 : copyFrom [] (pruneE (pcfg {} reqP "R.x") [] mP) tfIn (.struct []) with
    | panic w => rw [e2] at h2; cases h2
    | stuck w => rw [e2] at h2; cases h2
    | ok r2 =>
      refine ⟨r1, r2, rfl, rfl, ?_⟩
      rw [e1] at h1
      rw [e2] at h2
      simp only [hasField, Option.some.injEq] at h1 h2
      rw [hD]
      generalize r1.obj = o1 at h1
      generalize r2.obj = o2 at h2
      intro hoff
      cases hoff with
      | refl => rw [h1] at h2; cases h2
      | struct fs fs' hdom _ =>
        have := hdom "E" (by decide)
        simp only [GoVal.field?] at h1 h2
        rw [h1, h2] at this
        cases this
      | ptr _ _ _ => simp [GoVal.field?] at h1
      | slice _ _ _ _ => simp [GoVal.field?] at h1
      | map _ _ _ _ => simp [GoVal.field?] at h1
      | iface _ _ _ _ _ => simp [GoVal.field?] at h1

end Example

mutual
/-- the Go fields of the nullable embedded messages whose children `prune p` removes, at any depth -/
def allDroppedParentsF (p : String) : Field → List String
  | ⟨_, _, _, sub⟩ => allDroppedParents p sub
def allDroppedParents (p : String) : List Field → List String
  | [] => []
  | f :: fs => (if dropped p f.info then (if f.info.parentIsOptionalEmbed then [f.info.parentIsOptionalEmbedFieldName] else [])
                else allDroppedParentsF p f) ++ allDroppedParents p fs
end

/-- OPEN (not proved, not used): the CopyFrom statement for IRs that contain children of NULLABLE embedded messages. As
`Example.nullable_embed_allocates` shows, the set of excepted Go fields must then also contain the Go field of the
embedded message (`parentIsOptionalEmbedFieldName`) of every removed child. What is missing: the congruence of the
CopyFrom block in its recursive call (`ExclusionPrune.fieldWith_frel`) and the normal form of a block as a list of writes
to one Go field (`OrderIndep.blockF_nf`) are only available for fields with `parentIsOptionalEmbed = false`; the block of a
child of a nullable embedded message reads and writes through the parent pointer (`writeField`, `allocParent`,
`embedGuard`), so its effect depends on what the earlier blocks did to the parent. -/
def copyFrom_pruneE_nullable_full : Prop :=
  ∀ (ov : List (String × String)) (c : PCfg) (own : List String) (m : Msg) (tf : TfVal) (obj : GoVal) (r1 : FromResult),
    ooOkFs c m.fields = true → m.info.oneOfNames = reNames c.srt own m.fields →
    copyFrom ov m tf obj = .ok r1 →
    ∃ r2, copyFrom ov (pruneE c own m) tf obj = .ok r2 ∧
      OffG (allDroppedGo c.p m.fields ++ allDroppedOO c.p m.fields ++ allDroppedParents c.p m.fields) r1.obj r2.obj

end PGT.Proofs.ExclusionPruneEmbed

section
open PGT.Proofs.ExclusionPruneEmbed
#print axioms coreStep_prune1E
#print axioms msgStep_pruneE
#print axioms build_pruneE
#print axioms exclusion_prunesE_ctx
#print axioms exclusion_prunesE_root
#print axioms exclusion_embedded_itself
#print axioms exclusion_embedded_itself_root
#print axioms exclusion_prunes_embed_full_holds
#print axioms mem_oneOfNames_pruneE
#print axioms oneOfNames_lost
#print axioms reNames_pruneFsE
#print axioms pruneE_eq_prune_noEmbed
#print axioms copyTo_pruneE
#print axioms copyTo_pruneE_deep
#print axioms schemaOf_pruneE
#print axioms schema_excluded_absentE
#print axioms copyFromFields_deepE
#print axioms copyFrom_pruneE_deep
#print axioms built_ooOk
#print axioms exclusion_surgical_deepE
#print axioms Example.recompute_needed
#print axioms Example.ownPath_needed
#print axioms Example.nullable_embed_allocates
end
