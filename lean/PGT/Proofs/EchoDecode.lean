import PGT.Proofs.FromConforms
import PGT.Proofs.ToInPlace
import PGT.Proofs.RoundTrip
import PGT.Proofs.FromUniform
/-
C08 (apply echo), first half: the judgement for *plan objects* (`PlanOK` / `PlanOKs`) and **decode is typed**:
CopyFrom of a plan object that satisfies the judgement succeeds without diagnostics, and the struct it builds is typed in
the sense the in-place CopyTo theorems need (`ToOKs`, PGT/Proofs/ToAll.lean) and in the sense the read-back theorems
need (`RTOKs`, PGT/Proofs/RoundTrip.lean); `DecRels` records how the struct relates to the plan.

Fragment: the *plain tree* – no oneof branches (`oneOfName = ""`), no children of nullable embedded messages
(`parentIsOptionalEmbed = false`), no custom kinds – scalars, pointer scalars, placeholders, nested messages (nullable or
not, with or without fields), lists and maps of scalars and of messages (with fields), at every nesting depth.
-/
namespace PGT
open PGT.Spec PGT.Props

-- ------------------------------------------------------------------------------------------------------
-- scalars

theorem conv_hasRep (src dst : GoRep) (x y : Sc) (h : conv src dst x = some y) : C19.HasRep dst y := by
  unfold conv at h
  split at h <;> first | (injection h with h; subst h; simp [C19.HasRep]) | (cases h)

theorem hasRep_zero (r : GoRep) : C19.HasRep r (zeroOfRep r) := by
  cases r <;> simp [zeroOfRep, C19.HasRep]

theorem castFrom_hasRep (info : FieldInfo) (k : PrimK) (p c : Sc) (h : info.castFrom k p = some c) :
    C19.HasRep info.rep c := conv_hasRep _ _ _ _ h

/-- what the echo needs from the scalar row of a field (IR only): the round trip of `PrimRT`, the cast to the Terraform
payload is defined on every value of the field's Go type and the zero test reads it correctly (every row of the
regenerated type table has these properties: `C19_field`, `C20_zero_test_rows`) -/
structure ScalarIR (info : FieldInfo) (k : PrimK) : Prop where
  rt : PrimRT info k
  nullZero : info.isNullable = true → info.tf.zeroValue = ""
  cast : info.isNullable = false → ∀ s, C19.HasRep info.rep s →
    ∃ c, info.castTo s = some c ∧
      (info.tf.zeroValue ≠ "" → ∃ b, eqLiteral info.tf.zeroValue c = some b ∧ b = scIsZero s)

/-- a planned scalar value `prim k u n p` of a (non-element) scalar attribute.
* `castable`: a known value can be converted to the Go type (no unmodelled cast);
* `range`: **the range hypothesis of C08** – a known value is within the range of the Go field:
  `castTo (castFrom p) = p`;
* `rangePtr`: … for pointer-backed scalars, which are written back without a cast: `castFrom p = p`;
* `nullPayload`: a known *null* value of a by-value scalar carries the payload the converter writes under a kept
  `Null` flag, i.e. the cast of the Go zero value (the zero payload of the framework's null values) – `TfVal.beq`
  compares payloads also under `Null`. -/
structure LeafOK (info : FieldInfo) (k : PrimK) (u n : Bool) (p : Sc) : Prop where
  castable : known u n = true → ∃ c, info.castFrom k p = some c
  range : known u n = true → info.isNullable = false → ∀ c, info.castFrom k p = some c → info.castTo c = some p
  rangePtr : known u n = true → info.isNullable = true → info.castFrom k p = some p
  nullPayload : u = false → n = true → info.isNullable = false → info.castTo (zeroOfRep info.rep) = some p

/-- decoding a scalar plan value (field or element) gives a typed Go value -/
theorem primDecode_typed (info : FieldInfo) (k : PrimK) (hir : ScalarIR info k) (u n : Bool) (p : Sc)
    (hc : known u n = true → ∃ c, info.castFrom k p = some c) :
    ∃ y, primDecode info k u n p = .ok y ∧ PrimTyped info y ∧ PrimVal info y := by
  unfold primDecode PrimTyped PrimVal
  by_cases hk : known u n = true
  · obtain ⟨c, hcc⟩ := hc hk
    have hrep := castFrom_hasRep info k p c hcc
    by_cases hn : info.isNullable = true
    · refine ⟨.ptr (some (.sc c)), by simp [hk, hcc, hn], ?_, ?_⟩
      · simp only [hn, if_true]
        exact ⟨hir.nullZero hn, Or.inr ⟨c, rfl⟩⟩
      · simp only [hn, if_true]
        exact Or.inr ⟨c, rfl, hrep⟩
    · have hn' : info.isNullable = false := by simpa using hn
      refine ⟨.sc c, by simp [hk, hcc, hn'], ?_, ?_⟩
      · simp only [hn', Bool.false_eq_true, if_false]
        obtain ⟨c', hc', hz⟩ := hir.cast hn' c hrep
        exact ⟨c, c', rfl, hc', hz⟩
      · simp only [hn', Bool.false_eq_true, if_false]
        exact ⟨c, rfl, hrep⟩
  · have hk' : known u n = false := by simpa using hk
    by_cases hn : info.isNullable = true
    · refine ⟨.ptr none, by simp [hk', zeroPrim, hn], ?_, ?_⟩
      · simp only [hn, if_true]
        exact ⟨hir.nullZero hn, Or.inl trivial⟩
      · simp only [hn, if_true]
        exact Or.inl trivial
    · have hn' : info.isNullable = false := by simpa using hn
      have hrep := hasRep_zero info.rep
      refine ⟨.sc (zeroOfRep info.rep), by simp [hk', zeroPrim, hn'], ?_, ?_⟩
      · simp only [hn', Bool.false_eq_true, if_false]
        obtain ⟨c', hc', hz⟩ := hir.cast hn' _ hrep
        exact ⟨_, c', rfl, hc', hz⟩
      · simp only [hn', Bool.false_eq_true, if_false]
        exact ⟨_, rfl, hrep⟩

-- ------------------------------------------------------------------------------------------------------
-- the judgement for plan objects

/-- the attribute names of a plan (sub-)object are pairwise distinct; every attribute is the attribute of a generated
field or an *extra* attribute (injected attributes, which the converters never touch) satisfying `X` -/
def KeysOK (X : String → TfVal → Prop) (fs : List Field) (attrs : List (String × TfVal)) : Prop :=
  (attrs.map (·.1)).Nodup ∧ ∀ kv ∈ attrs, kv.1 ∈ fs.map (·.info.nameSnake) ∨ X kv.1 kv.2

/-- IR only: the zero struct of the nested message is typed (what a non-nullable message field holds after a null /
unknown object was decoded) -/
def ZeroOK (sub : List Field) (tys : List (String × TfTy)) : Prop :=
  ToOKs sub (.struct []) tys ∧ RTOKs sub (.struct [])

/-- a scalar element of a planned list / map -/
def PrimElemPlan (info : FieldInfo) (k : PrimK) (e : TfVal) : Prop :=
  ∃ u n p, e = .prim k u n p ∧ (known u n = true → ∃ c, info.castFrom k p = some c)

mutual
/-- `a` is a planned value of field `f` whose attribute type is `ty`: any combination of Unknown / Null flags at any
depth; IR consistency (value types fit the kinds, scalar rows round trip); the range hypothesis at every scalar leaf;
null / unknown objects carry no attributes; null lists / maps carry no elements. -/
def PlanOK (X : String → TfVal → Prop) : Field → TfVal → TfTy → Prop
  | ⟨info, mapVal, msg, sub⟩, a, ty =>
    info.oneOfName = "" ∧ info.parentIsOptionalEmbed = false ∧ (info.isPlaceholder = true → info.kind = .primitive) ∧
    EmptyOK msg sub ∧
    match info.kind with
    | .primitive =>
      ∃ k u n p, a = .prim k u n p ∧ ty = .prim k ∧ vkindOf info.tf.elemValueType = .prim k ∧
        (info.isPlaceholder = true ∨ (vkindOf info.tf.valueType = .prim k ∧ ScalarIR info k ∧ LeafOK info k u n p))
    | .object =>
      ∃ u n as tys, a = .obj u n as (some tys) ∧ ty = .obj (some tys) ∧ vkindOf info.tf.valueType = .obj ∧
        sub ≠ [] ∧
        (known u n = true → PlanOKs X sub (as.getD []) tys ∧ KeysOK X sub (as.getD [])) ∧
        (known u n = false → as.getD [] = [] ∧ (info.isNullable = false → ZeroOK sub tys))
    | .primitiveList =>
      ∃ u n es et k, a = .list u n es et ∧ ty = .list (some (.prim k)) ∧ vkindOf info.tf.valueType = .list ∧
        info.isRepeated = true ∧ ScalarIR info k ∧
        (known u n = true → ∀ e ∈ es.getD [], PrimElemPlan info k e) ∧
        (u = false → n = true → es.getD [] = [])
    | .objectList =>
      ∃ u n es et tys, a = .list u n es et ∧ ty = .list (some (.obj (some tys))) ∧ vkindOf info.tf.valueType = .list ∧
        vkindOf info.tf.elemValueType = .obj ∧ info.isRepeated = true ∧ sub ≠ [] ∧ isEmptyMsg msg = false ∧
        (known u n = true → ∀ e ∈ es.getD [], ∃ u' n' as tys', e = .obj u' n' as tys' ∧
            (known u' n' = true → PlanOKs X sub (as.getD []) tys) ∧
            (known u' n' = false → info.isNullable = false → ZeroOK sub tys)) ∧
        (u = false → n = true → es.getD [] = [])
    | .primitiveMap =>
      ∃ u n es et k, a = .map u n es et ∧ ty = .map (some (.prim k)) ∧ vkindOf info.tf.valueType = .map ∧
        info.isRepeated = false ∧ info.isNullable = false ∧ info.tf.zeroValue = "" ∧
        (mapVal.getD info).tf.elemValueType = info.tf.elemValueType ∧ ScalarIR info k ∧
        ((es.getD []).map (·.1)).Nodup ∧
        (known u n = true → ∀ e ∈ es.getD [], PrimElemPlan info k e.2) ∧
        (u = false → n = true → es.getD [] = [])
    | .objectMap =>
      ∃ u n es et tys, a = .map u n es et ∧ ty = .map (some (.obj (some tys))) ∧ vkindOf info.tf.valueType = .map ∧
        vkindOf info.tf.elemValueType = .obj ∧ vkindOf (mapVal.getD info).tf.elemValueType = .obj ∧
        info.isRepeated = false ∧ sub ≠ [] ∧ isEmptyMsg msg = false ∧
        ((es.getD []).map (·.1)).Nodup ∧
        (known u n = true → ∀ e ∈ es.getD [], ∃ u' n' as tys', e.2 = .obj u' n' as tys' ∧
            (known u' n' = true → PlanOKs X sub (as.getD []) tys) ∧
            (known u' n' = false → info.isNullable = false → ZeroOK sub tys)) ∧
        (u = false → n = true → es.getD [] = [])
    | .custom => False

/-- every field of the message has a planned value in `attrs` and a type in `atys`; attribute names and Go field names
are pairwise distinct -/
def PlanOKs (X : String → TfVal → Prop) : List Field → List (String × TfVal) → List (String × TfTy) → Prop
  | [], _, _ => True
  | f :: rest, attrs, atys =>
    (∃ a ty, attrs.lookup f.info.nameSnake = some a ∧ atys.lookup f.info.nameSnake = some ty ∧ PlanOK X f a ty) ∧
    f.info.nameSnake ∉ rest.map (·.info.nameSnake) ∧ f.info.name ∉ rest.map (·.info.name) ∧
    PlanOKs X rest attrs atys
end

mutual
/-- `x` is what CopyFrom decodes from the planned value `a` of field `f` – as far as the echo needs it: scalars exactly,
nested messages recursively, lists by their length, maps by their length and key set -/
def DecRel : Field → TfVal → GoVal → Prop
  | ⟨info, _, _, sub⟩, a, x =>
    match info.kind with
    | .primitive => info.isPlaceholder = true ∨ ∃ k u n p, a = .prim k u n p ∧ primDecode info k u n p = .ok x
    | .object =>
      ∃ u n as tys, a = .obj u n as tys ∧
        (known u n = true → ∃ o, IsStruct o ∧ x = (if info.isNullable then .ptr (some o) else o) ∧ DecRels sub (as.getD []) o) ∧
        (known u n = false → x = (if info.isNullable then .ptr none else .struct []))
    | .primitiveList | .objectList =>
      ∃ u n es et xs, a = .list u n es et ∧ x = .slice (some xs) ∧
        xs.length = (if known u n then (es.getD []).length else 0)
    | .primitiveMap | .objectMap =>
      ∃ u n es et xs, a = .map u n es et ∧ x = .map (some xs) ∧
        xs.length = (if known u n then (es.getD []).length else 0) ∧
        (known u n = true → ∀ kv ∈ es.getD [], (xs.lookup kv.1).isSome = true)
    | .custom => False

def DecRels : List Field → List (String × TfVal) → GoVal → Prop
  | [], _, _ => True
  | f :: rest, attrs, o =>
    (∃ a, attrs.lookup f.info.nameSnake = some a ∧ DecRel f a (getVal f.info o)) ∧ DecRels rest attrs o
end

-- ------------------------------------------------------------------------------------------------------
-- the field blocks of CopyFrom on the plain tree, as equations

theorem fromFieldWith_prim_run (rec : FromRec) (ov : List (String × String)) (info : FieldInfo) (mv : Option FieldInfo)
    (msg : Option MsgInfo) (attrs : Option (List (String × TfVal))) (st : FromSt) (k : PrimK) (u n : Bool) (p : Sc) (y : GoVal)
    (hk : info.kind = .primitive) (ho : info.oneOfName = "") (he : info.parentIsOptionalEmbed = false)
    (hvt : vkindOf info.tf.valueType = .prim k)
    (hl : (attrs.getD []).lookup info.nameSnake = some (.prim k u n p))
    (hd : primDecode info k u n p = .ok y) :
    copyFromFieldWith rec ov info mv msg attrs st = .ok { st with obj := st.obj.setField info.name y } := by
  unfold copyFromFieldWith
  simp [hk, hl, TfVal.vkind, hvt, embedGuard_plain info _ _ he, hd, ho, he]

theorem fromFieldWith_obj_run (rec : FromRec) (ov : List (String × String)) (info : FieldInfo) (mv : Option FieldInfo)
    (msg : Option MsgInfo) (attrs : Option (List (String × TfVal))) (st : FromSt) (u n : Bool)
    (as : Option (List (String × TfVal))) (tys : Option (List (String × TfTy))) (o : GoVal)
    (hk : info.kind = .object) (ho : info.oneOfName = "") (he : info.parentIsOptionalEmbed = false)
    (hvt : vkindOf info.tf.valueType = .obj) (hem : isEmptyMsg msg = false) (hkn : known u n = true)
    (hl : (attrs.getD []).lookup info.nameSnake = some (.obj u n as tys))
    (hrec : rec as { st with obj := .struct [] } = .ok { obj := o, diags := st.diags, hooks := st.hooks }) :
    copyFromFieldWith rec ov info mv msg attrs st =
      .ok { st with obj := st.obj.setField info.name (if info.isNullable then .ptr (some o) else o) } := by
  unfold copyFromFieldWith
  simp only [hk, hl, TfVal.vkind, hvt, embedGuard_plain info _ _ he, ho, writeField_plain info _ _ he]
  simp [hkn, hem, hrec, setField_setField_same]

theorem fromFieldWith_list_run (rec : FromRec) (ov : List (String × String)) (info : FieldInfo) (mv : Option FieldInfo)
    (msg : Option MsgInfo) (attrs : Option (List (String × TfVal))) (st : FromSt) (u n : Bool)
    (es : Option (List TfVal)) (ety : Option TfTy) (l : List GoVal)
    (hk : info.kind = .primitiveList ∨ info.kind = .objectList)
    (he : info.parentIsOptionalEmbed = false) (hvt : vkindOf info.tf.valueType = .list) (hkn : known u n = true)
    (hl : (attrs.getD []).lookup info.nameSnake = some (.list u n es ety))
    (hloop : fromElemsList (fromElemBody rec ov info info) (es.getD []) 0
        (List.replicate (es.getD []).length (zeroElem info)) st.diags st.hooks = .ok (l, st.diags, st.hooks)) :
    copyFromFieldWith rec ov info mv msg attrs st = .ok { st with obj := st.obj.setField info.name (.slice (some l)) } := by
  unfold copyFromFieldWith
  rcases hk with hk | hk <;>
    simp [hk, hl, TfVal.vkind, hvt, embedGuard_plain info _ _ he, writeField_plain info _ _ he, hkn, hloop,
      setField_setField_same]

theorem fromFieldWith_map_run (rec : FromRec) (ov : List (String × String)) (info : FieldInfo) (mv : Option FieldInfo)
    (msg : Option MsgInfo) (attrs : Option (List (String × TfVal))) (st : FromSt) (u n : Bool)
    (es : Option (List (String × TfVal))) (ety : Option TfTy) (l : List (String × GoVal))
    (hk : info.kind = .primitiveMap ∨ info.kind = .objectMap)
    (he : info.parentIsOptionalEmbed = false) (hvt : vkindOf info.tf.valueType = .map) (hkn : known u n = true)
    (hl : (attrs.getD []).lookup info.nameSnake = some (.map u n es ety))
    (hloop : fromElemsMap (fromElemBody rec ov info (mv.getD info)) (es.getD []) [] st.diags st.hooks =
        .ok (l, st.diags, st.hooks)) :
    copyFromFieldWith rec ov info mv msg attrs st = .ok { st with obj := st.obj.setField info.name (.map (some l)) } := by
  unfold copyFromFieldWith
  rcases hk with hk | hk <;>
    simp [hk, hl, TfVal.vkind, hvt, embedGuard_plain info _ _ he, writeField_plain info _ _ he, hkn, hloop,
      setField_setField_same]

/-- a null or unknown value resets the field -/
theorem fromFieldWith_unknown_run (rec : FromRec) (ov : List (String × String)) (info : FieldInfo) (mv : Option FieldInfo)
    (msg : Option MsgInfo) (attrs : Option (List (String × TfVal))) (st : FromSt) (a : TfVal)
    (ho : info.oneOfName = "") (he : info.parentIsOptionalEmbed = false)
    (hl : (attrs.getD []).lookup info.nameSnake = some a)
    (hshape : (info.kind = .object ∧ ∃ u n as tys, a = .obj u n as tys ∧ known u n = false ∧ vkindOf info.tf.valueType = .obj) ∨
      ((info.kind = .primitiveList ∨ info.kind = .objectList) ∧ ∃ u n es et, a = .list u n es et ∧ known u n = false ∧
          vkindOf info.tf.valueType = .list) ∨
      ((info.kind = .primitiveMap ∨ info.kind = .objectMap) ∧ ∃ u n es et, a = .map u n es et ∧ known u n = false ∧
          vkindOf info.tf.valueType = .map)) :
    copyFromFieldWith rec ov info mv msg attrs st = .ok { st with obj := st.obj.setField info.name (zeroWrite info) } := by
  rcases hshape with ⟨hk, u, n, as, tys, rfl, hkn, hvt⟩ | ⟨hk, u, n, es, et, rfl, hkn, hvt⟩ | ⟨hk, u, n, es, et, rfl, hkn, hvt⟩
  · exact fieldWith_null_resets rec ov info mv msg attrs st _ ho he (by simp [hk]) hl
      ⟨by simp [TfVal.vkind, hvt], by simp [TfVal.vkind]⟩ (by simp [hk, TfVal.vkind]) (by simpa [TfVal.isKnown] using hkn)
  · refine fieldWith_null_resets rec ov info mv msg attrs st _ ho he (by rcases hk with hk | hk <;> simp [hk]) hl
      ⟨by simp [TfVal.vkind, hvt], by simp [TfVal.vkind]⟩ ?_ (by simpa [TfVal.isKnown] using hkn)
    rcases hk with hk | hk <;> simp [hk, TfVal.vkind]
  · refine fieldWith_null_resets rec ov info mv msg attrs st _ ho he (by rcases hk with hk | hk <;> simp [hk]) hl
      ⟨by simp [TfVal.vkind, hvt], by simp [TfVal.vkind]⟩ ?_ (by simpa [TfVal.isKnown] using hkn)
    rcases hk with hk | hk <;> simp [hk, TfVal.vkind]

-- ------------------------------------------------------------------------------------------------------
-- element loops of CopyFrom on conforming elements

/-- the element body decodes every element satisfying `T` into a value satisfying `Q`, without a diagnostic -/
def ElemDec (body : TfVal → List Diag → List HookCall → Outcome (Option GoVal × List Diag × List HookCall))
    (T : TfVal → Prop) (Q : GoVal → Prop) : Prop :=
  ∀ e ds hs, T e → ∃ y, body e ds hs = .ok (some y, ds, hs) ∧ Q y

theorem fromElemsList_dec (body : TfVal → List Diag → List HookCall → Outcome (Option GoVal × List Diag × List HookCall))
    (T : TfVal → Prop) (Q : GoVal → Prop) (hb : ElemDec body T Q) (ds : List Diag) (hs : List HookCall) :
    ∀ (vs : List TfVal) (pre post : List GoVal), (∀ e ∈ vs, T e) → post.length = vs.length →
      ∃ ys, fromElemsList body vs pre.length (pre ++ post) ds hs = .ok (pre ++ ys, ds, hs) ∧ ys.length = vs.length ∧
        ∀ y ∈ ys, Q y
  | [], pre, post, _, hp => by
    have hpost : post = [] := by simpa using hp
    subst hpost
    exact ⟨[], by simp [fromElemsList], rfl, by simp⟩
  | v :: vs, pre, post, hT, hp => by
    cases post with
    | nil => simp at hp
    | cons p0 post' =>
      obtain ⟨y, hrun, hq⟩ := hb v ds hs (hT v (by simp))
      have hset : (pre ++ p0 :: post').set pre.length y = (pre ++ [y]) ++ post' := by
        simp [List.set_append_right]
      obtain ⟨ys, hrun2, hlen, hall⟩ := fromElemsList_dec body T Q hb ds hs vs (pre ++ [y]) post'
        (fun e' he' => hT e' (by simp [he'])) (by simpa using hp)
      refine ⟨y :: ys, ?_, by simp [hlen], ?_⟩
      · simp only [fromElemsList, hrun, hset]
        have : (pre ++ [y]).length = pre.length + 1 := by simp
        rw [this] at hrun2
        rw [hrun2]
        simp
      · intro z hz
        simp only [List.mem_cons] at hz
        rcases hz with rfl | hz
        · exact hq
        · exact hall z hz

theorem setKey_of_lookup_none {α} (k : String) (v : α) : ∀ (l : List (String × α)), l.lookup k = none →
    setKey k v l = l ++ [(k, v)]
  | [], _ => rfl
  | (k', v') :: rest, h => by
    simp only [List.lookup] at h
    split at h
    · cases h
    · rename_i hne
      have hne' : ¬ (k' == k) = true := by
        intro e
        have e1 : k' = k := by simpa using e
        subst e1
        simp at hne
      simp [setKey, hne', setKey_of_lookup_none k v rest h]

theorem fromElemsMap_dec (body : TfVal → List Diag → List HookCall → Outcome (Option GoVal × List Diag × List HookCall))
    (T : TfVal → Prop) (Q : GoVal → Prop) (hb : ElemDec body T Q) (ds : List Diag) (hs : List HookCall) :
    ∀ (vs : List (String × TfVal)) (acc : List (String × GoVal)), (vs.map (·.1)).Nodup →
      (∀ kv ∈ vs, acc.lookup kv.1 = none) → (∀ kv ∈ vs, T kv.2) →
      ∃ ys, fromElemsMap body vs acc ds hs = .ok (acc ++ ys, ds, hs) ∧ ys.map (·.1) = vs.map (·.1) ∧
        ∀ kv ∈ ys, Q kv.2
  | [], acc, _, _, _ => ⟨[], by simp [fromElemsMap], rfl, by simp⟩
  | (k, v) :: rest, acc, hnd, hnone, hT => by
    simp only [List.map_cons, List.nodup_cons] at hnd
    obtain ⟨y, hrun, hq⟩ := hb v ds hs (hT (k, v) (by simp))
    have hnone' : ∀ kv ∈ rest, (setKey k y acc).lookup kv.1 = none := by
      intro kv hkv
      have hne : kv.1 ≠ k := by
        intro h
        exact hnd.1 (by rw [← h]; exact List.mem_map_of_mem (f := (·.1)) hkv)
      rw [lookup_setKey_other _ _ _ hne]
      exact hnone kv (by simp [hkv])
    obtain ⟨ys, hrun2, hkeys, hall⟩ := fromElemsMap_dec body T Q hb ds hs rest (setKey k y acc) hnd.2 hnone'
      (fun kv hkv => hT kv (by simp [hkv]))
    rw [setKey_of_lookup_none k y acc (hnone (k, v) (by simp))] at hrun2
    refine ⟨(k, y) :: ys, ?_, by simp [hkeys], ?_⟩
    · simp only [fromElemsMap, hrun]
      rw [setKey_of_lookup_none k y acc (hnone (k, v) (by simp)), hrun2]
      simp
    · intro z hz
      simp only [List.mem_cons] at hz
      rcases hz with rfl | hz
      · exact hq
      · exact hall z hz

theorem mem_of_lookup {α} (k : String) : ∀ (l : List (String × α)) (v : α), l.lookup k = some v → (k, v) ∈ l
  | [], _, h => by simp [List.lookup] at h
  | (k', v') :: rest, v, h => by
    simp only [List.lookup] at h
    split at h
    · rename_i heq
      have e : k = k' := by simpa using heq
      injection h with h
      subst e h
      simp
    · exact List.mem_cons_of_mem _ (mem_of_lookup k rest v h)

theorem lookup_isSome_of_mem_keys {α} (k : String) : ∀ (l : List (String × α)), k ∈ l.map (·.1) → (l.lookup k).isSome = true
  | [], h => by simp at h
  | (k', v') :: rest, h => by
    simp only [List.lookup]
    split
    · rfl
    · rename_i hne
      simp only [List.map_cons, List.mem_cons] at h
      rcases h with h | h
      · subst h; simp at hne
      · exact lookup_isSome_of_mem_keys k rest h

theorem fromFieldWith_obj_empty_run (rec : FromRec) (ov : List (String × String)) (info : FieldInfo) (mv : Option FieldInfo)
    (msg : Option MsgInfo) (attrs : Option (List (String × TfVal))) (st : FromSt) (u n : Bool)
    (as : Option (List (String × TfVal))) (tys : Option (List (String × TfTy)))
    (hk : info.kind = .object) (ho : info.oneOfName = "") (he : info.parentIsOptionalEmbed = false)
    (hvt : vkindOf info.tf.valueType = .obj) (hem : isEmptyMsg msg = true) (hkn : known u n = true)
    (hl : (attrs.getD []).lookup info.nameSnake = some (.obj u n as tys)) :
    copyFromFieldWith rec ov info mv msg attrs st =
      .ok { st with obj := st.obj.setField info.name (if info.isNullable then .ptr (some (.struct [])) else .struct []) } := by
  unfold copyFromFieldWith
  simp only [hk, hl, TfVal.vkind, hvt, embedGuard_plain info _ _ he, ho, writeField_plain info _ _ he]
  simp [hkn, hem, setField_setField_same]

-- ------------------------------------------------------------------------------------------------------
-- decode is typed

theorem reachable_plain (info : FieldInfo) (obj : GoVal) (he : info.parentIsOptionalEmbed = false) : Reachable info obj := by
  intro h
  rw [he] at h
  cases h

theorem emptyOK_of_nonEmpty (msg : Option MsgInfo) (sub : List Field) (h : isEmptyMsg msg = false) : EmptyOK msg sub := by
  intro h'
  rw [h] at h'
  cases h'

/-- the recursive call on a nested message decodes a planned attribute map into a typed struct -/
def RecDec (X : String → TfVal → Prop) (rec : FromRec) (sub : List Field) (tys : List (String × TfTy)) : Prop :=
  ∀ (as : Option (List (String × TfVal))) (ds : List Diag) (hs : List HookCall), PlanOKs X sub (as.getD []) tys →
    ∃ o, rec as { obj := .struct [], diags := ds, hooks := hs } = .ok { obj := o, diags := ds, hooks := hs } ∧
      IsStruct o ∧ ToOKs sub o tys ∧ RTOKs sub o ∧ DecRels sub (as.getD []) o

theorem elemDec_prim (rec : FromRec) (ov : List (String × String)) (info vf : FieldInfo) (k : PrimK)
    (hir : ScalarIR info k) (hvf : vkindOf vf.tf.elemValueType = .prim k)
    (hk : info.kind = .primitiveList ∨ info.kind = .primitiveMap) :
    ElemDec (fromElemBody rec ov info vf) (PrimElemPlan info k) (fun y => PrimTyped info y ∧ PrimVal info y) := by
  intro e ds hs ⟨u, n, p, he, hc⟩
  subst he
  obtain ⟨y, hd, ht, hv⟩ := primDecode_typed info k hir u n p hc
  refine ⟨y, ?_, ht, hv⟩
  unfold fromElemBody
  rcases hk with hk | hk <;> simp [TfVal.vkind, hvf, hk, hd]

/-- a message element of a planned list / map -/
def ObjElemPlan (X : String → TfVal → Prop) (nullable : Bool) (sub : List Field) (tys : List (String × TfTy)) (e : TfVal) : Prop :=
  ∃ u' n' as tys', e = .obj u' n' as tys' ∧
    (known u' n' = true → PlanOKs X sub (as.getD []) tys) ∧
    (known u' n' = false → nullable = false → ZeroOK sub tys)

theorem elemDec_obj (X : String → TfVal → Prop) (rec : FromRec) (ov : List (String × String)) (info vf : FieldInfo) (sub : List Field)
    (tys : List (String × TfTy)) (hrec : RecDec X rec sub tys) (hvf : vkindOf vf.tf.elemValueType = .obj)
    (hk : info.kind = .objectList ∨ info.kind = .objectMap) :
    ElemDec (fromElemBody rec ov info vf) (ObjElemPlan X info.isNullable sub tys)
      (fun y => MsgTyped info.isNullable (fun s => ToOKs sub s tys) y ∧ MsgTyped info.isNullable (fun s => RTOKs sub s) y) := by
  intro e ds hs ⟨u, n, as, tys', he, hkn, hunk⟩
  subst he
  have hkk : (info.kind == .objectList || info.kind == .objectMap) = true := by rcases hk with hk | hk <;> simp [hk]
  unfold fromElemBody MsgTyped
  simp only [TfVal.vkind, hvf, hkk, if_true, bne_self_eq_false, Bool.false_or]
  simp only [show (VKind.obj == VKind.unknown) = false from rfl, Bool.false_eq_true, if_false]
  by_cases hknown : known u n = true
  · obtain ⟨o, hrun, hso, hT, hR, _⟩ := hrec as ds hs (hkn hknown)
    cases o with
    | struct fs =>
      by_cases hn : info.isNullable = true
      · refine ⟨.ptr (some (.struct fs)), by simp [hknown, hrun, hn], ?_, ?_⟩
        · simp only [hn, if_true]; exact Or.inr ⟨fs, rfl, hT⟩
        · simp only [hn, if_true]; exact Or.inr ⟨fs, rfl, hR⟩
      · have hn' : info.isNullable = false := by simpa using hn
        refine ⟨.struct fs, by simp [hknown, hrun, hn'], ?_, ?_⟩
        · simp only [hn', Bool.false_eq_true, if_false]; exact ⟨fs, rfl, hT⟩
        · simp only [hn', Bool.false_eq_true, if_false]; exact ⟨fs, rfl, hR⟩
    | sc _ => cases hso
    | ptr _ => cases hso
    | slice _ => cases hso
    | map _ => cases hso
    | iface _ => cases hso
  · have hknown' : known u n = false := by simpa using hknown
    by_cases hn : info.isNullable = true
    · refine ⟨.ptr none, by simp [hknown', zeroMsg, hn], ?_, ?_⟩
      · simp only [hn, if_true]; exact Or.inl trivial
      · simp only [hn, if_true]; exact Or.inl trivial
    · have hn' : info.isNullable = false := by simpa using hn
      obtain ⟨hzT, hzR⟩ := hunk hknown' hn'
      refine ⟨.struct [], by simp [hknown', zeroMsg, hn'], ?_, ?_⟩
      · simp only [hn', Bool.false_eq_true, if_false]; exact ⟨[], rfl, hzT⟩
      · simp only [hn', Bool.false_eq_true, if_false]; exact ⟨[], rfl, hzR⟩

/-- a message without fields: its placeholders are typed in every struct -/
theorem placeholders_typed (X : String → TfVal → Prop) (attrs : List (String × TfVal)) (tys : List (String × TfTy)) (s : GoVal) :
    ∀ (sub : List Field), PlanOKs X sub attrs tys →
      (∀ g ∈ sub, g.info.isPlaceholder = true ∧ g.info.kind = .primitive ∧ g.info.oneOfName = "") →
      ToOKs sub s tys ∧ RTOKs sub s ∧ DecRels sub attrs s
  | [], _, _ => ⟨trivial, trivial, trivial⟩
  | f :: rest, hP, hall => by
    unfold PlanOKs at hP
    obtain ⟨⟨a, ty, hla, hlt, hpf⟩, hnS, hnN, hrest⟩ := hP
    obtain ⟨hT, hR, hD⟩ := placeholders_typed X attrs tys s rest hrest (fun g hg => hall g (by simp [hg]))
    obtain ⟨hph, hk, _⟩ := hall f (by simp)
    obtain ⟨info, mv, msg, sub⟩ := f
    simp only at hph hk hla hlt hnS hnN
    unfold PlanOK at hpf
    obtain ⟨ho, he, hphk, hEm, hpf⟩ := hpf
    simp only [hk] at hpf
    obtain ⟨k, u, n, p, rfl, rfl, hvk, _⟩ := hpf
    refine ⟨?_, ?_, ?_⟩
    · unfold ToOKs
      refine ⟨⟨.prim k, hlt, ?_⟩, hnS, hT⟩
      unfold ToOK
      simp only [hk]
      exact ⟨⟨k, hvk, rfl⟩, Or.inl hph⟩
    · unfold RTOKs
      refine ⟨?_, hnN, hR⟩
      unfold RTOK
      simp only [hk]
      exact ⟨ho, he, hEm, fun _ => trivial, Or.inl hph⟩
    · unfold DecRels
      refine ⟨⟨_, hla, ?_⟩, hD⟩
      unfold DecRel
      simp only [hk]
      exact Or.inl hph

mutual

/-- **decode is typed, one field block**: the block assigns the field a value `x`, appends no diagnostic, and in every
struct that holds `x` in this field the field is typed for CopyTo (`ToOK`) and for the read-back (`RTOK`) -/
theorem decField (X : String → TfVal → Prop) (ov : List (String × String)) : ∀ (f : Field) (attrs : Option (List (String × TfVal))) (st : FromSt)
    (a : TfVal) (ty : TfTy),
    (attrs.getD []).lookup f.info.nameSnake = some a → PlanOK X f a ty → f.info.isPlaceholder = false →
    ∃ x, copyFromField ov f attrs st = .ok { st with obj := st.obj.setField f.info.name x } ∧
      (∀ obj, getVal f.info obj = x → ToOK f obj ty ∧ RTOK f obj) ∧ DecRel f a x
  | ⟨info, mv, msg, sub⟩, attrs, st, a, ty, hl, hp, hph => by
    simp only at hl hph
    unfold PlanOK at hp
    obtain ⟨ho, he, _, hEm, hp⟩ := hp
    have hrec : ∀ tys, RecDec X (fun as s => copyFromFields ov sub as
        { s with obj := resetOneOfs ((msg.map (·.oneOfNames)).getD []) s.obj }) sub tys := by
      intro tys as ds hs hP
      obtain ⟨o, hrun, hso, _, hT, hR, hD⟩ := decFields X ov sub as
        { obj := resetOneOfs ((msg.map (·.oneOfNames)).getD []) (.struct []), diags := ds, hooks := hs } tys hP
        (isStruct_resetOneOfs _ _ trivial)
      exact ⟨o, hrun, hso, hT, hR, hD⟩
    have hphk : ∀ {P : Prop}, info.isPlaceholder = true → P := fun h => by rw [hph] at h; cases h
    simp only [copyFromField]
    cases hk : info.kind with
    | custom => simp only [hk] at hp
    | primitive =>
      simp only [hk] at hp
      obtain ⟨k, u, n, p, rfl, rfl, _, hp⟩ := hp
      rcases hp with hp | ⟨hvt, hir, hleaf⟩
      · exact hphk hp
      obtain ⟨y, hd, hty, hval⟩ := primDecode_typed info k hir u n p hleaf.castable
      refine ⟨y, fromFieldWith_prim_run _ ov info mv msg attrs st k u n p y hk ho he hvt hl hd, ?_, ?_⟩
      · intro obj hx
        subst hx
        refine ⟨?_, ?_⟩
        · unfold ToOK
          simp only [hk]
          exact ⟨⟨k, hir.rt.ek, rfl⟩, Or.inr (Or.inr ⟨reachable_plain info obj he, hty⟩)⟩
        · unfold RTOK
          simp only [hk]
          exact ⟨ho, he, hEm, hphk, Or.inr ⟨k, hir.rt, hvt, hval⟩⟩
      · unfold DecRel
        simp only [hk]
        exact Or.inr ⟨k, u, n, p, rfl, hd⟩
    | object =>
      simp only [hk] at hp
      obtain ⟨u, n, as, tys, rfl, rfl, hvt, hsub, hkn, hunk⟩ := hp
      by_cases hknown : known u n = true
      · obtain ⟨hP, _⟩ := hkn hknown
        have key : ∃ o, copyFromFieldWith
              (fun as s => copyFromFields ov sub as { s with obj := resetOneOfs ((msg.map (·.oneOfNames)).getD []) s.obj })
              ov info mv msg attrs st =
              .ok { st with obj := st.obj.setField info.name (if info.isNullable then .ptr (some o) else o) } ∧
            IsStruct o ∧ ToOKs sub o tys ∧ RTOKs sub o ∧ DecRels sub (as.getD []) o ∧
            (isEmptyMsg msg = true → o = .struct []) := by
          by_cases hem : isEmptyMsg msg = true
          · obtain ⟨hT, hR, hD⟩ := placeholders_typed X (as.getD []) tys (.struct []) sub hP (hEm hem)
            exact ⟨.struct [], fromFieldWith_obj_empty_run _ ov info mv msg attrs st u n as (some tys) hk ho he hvt hem hknown hl,
              trivial, hT, hR, hD, fun _ => rfl⟩
          · have hem' : isEmptyMsg msg = false := by simpa using hem
            obtain ⟨o, hrun, hso, hT, hR, hD⟩ := hrec tys as st.diags st.hooks hP
            exact ⟨o, fromFieldWith_obj_run _ ov info mv msg attrs st u n as (some tys) o hk ho he hvt hem' hknown hl hrun,
              hso, hT, hR, hD, fun h => by rw [hem'] at h; cases h⟩
        obtain ⟨o, hrun, hso, hT, hR, hD, hemo⟩ := key
        refine ⟨if info.isNullable then .ptr (some o) else o, hrun, ?_, ?_⟩
        · intro obj hx
          have hmT : MsgTyped info.isNullable (fun s => ToOKs sub s tys) (getVal info obj) := by
            rw [hx]
            unfold MsgTyped
            cases o <;> try (cases hso)
            rename_i fs
            by_cases hn : info.isNullable = true
            · simp only [hn, if_true]; exact Or.inr ⟨fs, rfl, hT⟩
            · have hn' : info.isNullable = false := by simpa using hn
              simp only [hn', Bool.false_eq_true, if_false]; exact ⟨fs, rfl, hT⟩
          have hmR : MsgTyped info.isNullable (fun s => RTOKs sub s) (getVal info obj) := by
            rw [hx]
            unfold MsgTyped
            cases o <;> try (cases hso)
            rename_i fs
            by_cases hn : info.isNullable = true
            · simp only [hn, if_true]; exact Or.inr ⟨fs, rfl, hR⟩
            · have hn' : info.isNullable = false := by simpa using hn
              simp only [hn', Bool.false_eq_true, if_false]; exact ⟨fs, rfl, hR⟩
          have hE : isEmptyMsg msg = true → ∀ fs, getVal info obj = .ptr (some (.struct fs)) ∨ getVal info obj = .struct fs →
              fs = [] := by
            intro h fs hfs
            have := hemo h
            subst this
            rw [hx] at hfs
            cases hn : info.isNullable <;> simp [hn] at hfs <;> first | exact hfs | exact hfs.symm
          refine ⟨?_, ?_⟩
          · unfold ToOK
            simp only [hk]
            exact ⟨reachable_plain info obj he, tys, rfl, hsub, hE, hmT⟩
          · unfold RTOK
            simp only [hk]
            exact ⟨ho, he, hEm, hphk, hvt, hmR⟩
        · unfold DecRel
          simp only [hk]
          exact ⟨u, n, as, some tys, rfl, fun _ => ⟨o, hso, rfl, hD⟩, (fun h => by rw [hknown] at h; cases h)⟩
      · have hknown' : known u n = false := by simpa using hknown
        obtain ⟨_, hz⟩ := hunk hknown'
        have hrun := fromFieldWith_unknown_run
          (fun as s => copyFromFields ov sub as { s with obj := resetOneOfs ((msg.map (·.oneOfNames)).getD []) s.obj })
          ov info mv msg attrs st _ ho he hl (Or.inl ⟨hk, u, n, as, some tys, rfl, hknown', hvt⟩)
        have hzw : zeroWrite info = (if info.isNullable then GoVal.ptr none else GoVal.struct []) := by
          simp [zeroWrite, hk]
        rw [hzw] at hrun
        refine ⟨_, hrun, ?_, ?_⟩
        · intro obj hx
          have hmT : MsgTyped info.isNullable (fun s => ToOKs sub s tys) (getVal info obj) := by
            rw [hx]
            unfold MsgTyped
            by_cases hn : info.isNullable = true
            · simp only [hn, if_true]; exact Or.inl trivial
            · have hn' : info.isNullable = false := by simpa using hn
              simp only [hn', Bool.false_eq_true, if_false]; exact ⟨[], rfl, (hz hn').1⟩
          have hmR : MsgTyped info.isNullable (fun s => RTOKs sub s) (getVal info obj) := by
            rw [hx]
            unfold MsgTyped
            by_cases hn : info.isNullable = true
            · simp only [hn, if_true]; exact Or.inl trivial
            · have hn' : info.isNullable = false := by simpa using hn
              simp only [hn', Bool.false_eq_true, if_false]; exact ⟨[], rfl, (hz hn').2⟩
          have hE : isEmptyMsg msg = true → ∀ fs, getVal info obj = .ptr (some (.struct fs)) ∨ getVal info obj = .struct fs →
              fs = [] := by
            intro _ fs hfs
            rw [hx] at hfs
            cases hn : info.isNullable <;> simp [hn] at hfs <;> first | exact hfs | exact hfs.symm
          refine ⟨?_, ?_⟩
          · unfold ToOK
            simp only [hk]
            exact ⟨reachable_plain info obj he, tys, rfl, hsub, hE, hmT⟩
          · unfold RTOK
            simp only [hk]
            exact ⟨ho, he, hEm, hphk, hvt, hmR⟩
        · unfold DecRel
          simp only [hk]
          exact ⟨u, n, as, some tys, rfl, (fun h => by rw [hknown'] at h; cases h), fun _ => trivial⟩
    | primitiveList =>
      simp only [hk] at hp
      obtain ⟨u, n, es, et, k, rfl, rfl, hvt, hrep, hir, hel, _⟩ := hp
      -- the decoded slice
      have key : ∃ xs, copyFromFieldWith
            (fun as s => copyFromFields ov sub as { s with obj := resetOneOfs ((msg.map (·.oneOfNames)).getD []) s.obj })
            ov info mv msg attrs st = .ok { st with obj := st.obj.setField info.name (.slice (some xs)) } ∧
          xs.length = (if known u n then (es.getD []).length else 0) ∧ ∀ y ∈ xs, PrimTyped info y ∧ PrimVal info y := by
        by_cases hknown : known u n = true
        · obtain ⟨ys, hloop, hlen, hall⟩ := fromElemsList_dec _ _ _
            (elemDec_prim (fun as s => copyFromFields ov sub as { s with obj := resetOneOfs ((msg.map (·.oneOfNames)).getD []) s.obj })
              ov info info k hir hir.rt.ek (Or.inl hk)) st.diags st.hooks (es.getD []) []
            (List.replicate (es.getD []).length (zeroElem info)) (hel hknown) (by simp)
          simp only [List.length_nil, List.nil_append] at hloop
          exact ⟨ys, fromFieldWith_list_run _ ov info mv msg attrs st u n es et ys (Or.inl hk) he hvt hknown hl hloop,
            by simp [hknown, hlen], hall⟩
        · have hknown' : known u n = false := by simpa using hknown
          have hrun := fromFieldWith_unknown_run
            (fun as s => copyFromFields ov sub as { s with obj := resetOneOfs ((msg.map (·.oneOfNames)).getD []) s.obj })
            ov info mv msg attrs st _ ho he hl (Or.inr (Or.inl ⟨Or.inl hk, u, n, es, et, rfl, hknown', hvt⟩))
          have hzw : zeroWrite info = GoVal.slice (some []) := by simp [zeroWrite, hk]
          rw [hzw] at hrun
          exact ⟨[], hrun, by simp [hknown'], by simp⟩
      obtain ⟨xs, hrun, hlen, hall⟩ := key
      refine ⟨.slice (some xs), hrun, ?_, ?_⟩
      · intro obj hx
        refine ⟨?_, ?_⟩
        · unfold ToOK
          simp only [hk]
          exact ⟨hrep, ho, hph, reachable_plain info obj he, k, hir.rt.ek, rfl, Or.inr ⟨xs, hx, fun e he' => (hall e he').1⟩⟩
        · unfold RTOK
          simp only [hk]
          refine ⟨ho, he, hEm, hphk, hvt, hph, k, hir.rt, ?_⟩
          rw [hx]
          exact fun e he' => (hall e he').2
      · unfold DecRel
        simp only [hk]
        exact ⟨u, n, es, et, xs, rfl, rfl, hlen⟩
    | objectList =>
      simp only [hk] at hp
      obtain ⟨u, n, es, et, tys, rfl, rfl, hvt, hevk, hrep, hsub, hem, hel, _⟩ := hp
      have key : ∃ xs, copyFromFieldWith
            (fun as s => copyFromFields ov sub as { s with obj := resetOneOfs ((msg.map (·.oneOfNames)).getD []) s.obj })
            ov info mv msg attrs st = .ok { st with obj := st.obj.setField info.name (.slice (some xs)) } ∧
          xs.length = (if known u n then (es.getD []).length else 0) ∧
          ∀ y ∈ xs, MsgTyped info.isNullable (fun s => ToOKs sub s tys) y ∧ MsgTyped info.isNullable (fun s => RTOKs sub s) y := by
        by_cases hknown : known u n = true
        · obtain ⟨ys, hloop, hlen, hall⟩ := fromElemsList_dec _ _ _
            (elemDec_obj X (fun as s => copyFromFields ov sub as { s with obj := resetOneOfs ((msg.map (·.oneOfNames)).getD []) s.obj })
              ov info info sub tys (hrec tys) hevk (Or.inl hk)) st.diags st.hooks (es.getD []) []
            (List.replicate (es.getD []).length (zeroElem info)) (hel hknown) (by simp)
          simp only [List.length_nil, List.nil_append] at hloop
          exact ⟨ys, fromFieldWith_list_run _ ov info mv msg attrs st u n es et ys (Or.inr hk) he hvt hknown hl hloop,
            by simp [hknown, hlen], hall⟩
        · have hknown' : known u n = false := by simpa using hknown
          have hrun := fromFieldWith_unknown_run
            (fun as s => copyFromFields ov sub as { s with obj := resetOneOfs ((msg.map (·.oneOfNames)).getD []) s.obj })
            ov info mv msg attrs st _ ho he hl (Or.inr (Or.inl ⟨Or.inr hk, u, n, es, et, rfl, hknown', hvt⟩))
          have hzw : zeroWrite info = GoVal.slice (some []) := by simp [zeroWrite, hk]
          rw [hzw] at hrun
          exact ⟨[], hrun, by simp [hknown'], by simp⟩
      obtain ⟨xs, hrun, hlen, hall⟩ := key
      refine ⟨.slice (some xs), hrun, ?_, ?_⟩
      · intro obj hx
        refine ⟨?_, ?_⟩
        · unfold ToOK
          simp only [hk]
          exact ⟨hrep, ho, reachable_plain info obj he, hevk, tys, rfl, hsub, hem, Or.inr ⟨xs, hx, fun e he' => (hall e he').1⟩⟩
        · unfold RTOK
          simp only [hk]
          refine ⟨ho, he, hEm, hphk, hvt, hevk, ?_⟩
          rw [hx]
          exact fun e he' => (hall e he').2
      · unfold DecRel
        simp only [hk]
        exact ⟨u, n, es, et, xs, rfl, rfl, hlen⟩
    | primitiveMap =>
      simp only [hk] at hp
      obtain ⟨u, n, es, et, k, rfl, rfl, hvt, hrep, hnn, hzv, hmv, hir, hnd, hel, _⟩ := hp
      have key : ∃ xs, copyFromFieldWith
            (fun as s => copyFromFields ov sub as { s with obj := resetOneOfs ((msg.map (·.oneOfNames)).getD []) s.obj })
            ov info mv msg attrs st = .ok { st with obj := st.obj.setField info.name (.map (some xs)) } ∧
          xs.length = (if known u n then (es.getD []).length else 0) ∧
          (known u n = true → ∀ kv ∈ es.getD [], (xs.lookup kv.1).isSome = true) ∧
          (xs.map (·.1)).Nodup ∧ ∀ y ∈ xs, PrimTyped info y.2 ∧ PrimVal info y.2 := by
        by_cases hknown : known u n = true
        · obtain ⟨ys, hloop, hkeys, hall⟩ := fromElemsMap_dec _ _ _
            (elemDec_prim (fun as s => copyFromFields ov sub as { s with obj := resetOneOfs ((msg.map (·.oneOfNames)).getD []) s.obj })
              ov info (mv.getD info) k hir (by rw [hmv]; exact hir.rt.ek) (Or.inr hk)) st.diags st.hooks (es.getD []) []
            hnd (by intro kv _; simp [List.lookup]) (hel hknown)
          simp only [List.nil_append] at hloop
          have hlen : ys.length = (es.getD []).length := by
            have := congrArg List.length hkeys
            simpa using this
          refine ⟨ys, fromFieldWith_map_run _ ov info mv msg attrs st u n es et ys (Or.inl hk) he hvt hknown hl hloop,
            by simp [hknown, hlen], ?_, by rw [hkeys]; exact hnd, hall⟩
          intro _ kv hkv
          exact lookup_isSome_of_mem_keys _ _ (by rw [hkeys]; exact List.mem_map_of_mem (f := (·.1)) hkv)
        · have hknown' : known u n = false := by simpa using hknown
          have hrun := fromFieldWith_unknown_run
            (fun as s => copyFromFields ov sub as { s with obj := resetOneOfs ((msg.map (·.oneOfNames)).getD []) s.obj })
            ov info mv msg attrs st _ ho he hl (Or.inr (Or.inr ⟨Or.inl hk, u, n, es, et, rfl, hknown', hvt⟩))
          have hzw : zeroWrite info = GoVal.map (some []) := by simp [zeroWrite, hk]
          rw [hzw] at hrun
          exact ⟨[], hrun, by simp [hknown'], (fun h => by rw [hknown'] at h; cases h), by simp, by simp⟩
      obtain ⟨xs, hrun, hlen, hsome, hndx, hall⟩ := key
      refine ⟨.map (some xs), hrun, ?_, ?_⟩
      · intro obj hx
        refine ⟨?_, ?_⟩
        · unfold ToOK
          simp only [hk]
          exact ⟨hrep, ho, hph, reachable_plain info obj he, hzv, k, hir.rt.ek, rfl,
            Or.inr ⟨xs, hx, hndx, fun e he' => (hall e he').1⟩⟩
        · unfold RTOK
          simp only [hk]
          refine ⟨ho, he, hEm, hphk, hvt, hph, hmv, ?_, k, hir.rt, ?_⟩
          · rw [hx]; exact hndx
          · rw [hx]; exact fun e he' => (hall e he').2
      · unfold DecRel
        simp only [hk]
        exact ⟨u, n, es, et, xs, rfl, rfl, hlen, hsome⟩
    | objectMap =>
      simp only [hk] at hp
      obtain ⟨u, n, es, et, tys, rfl, rfl, hvt, hevk, hmvk, hrep, hsub, hem, hnd, hel, _⟩ := hp
      have key : ∃ xs, copyFromFieldWith
            (fun as s => copyFromFields ov sub as { s with obj := resetOneOfs ((msg.map (·.oneOfNames)).getD []) s.obj })
            ov info mv msg attrs st = .ok { st with obj := st.obj.setField info.name (.map (some xs)) } ∧
          xs.length = (if known u n then (es.getD []).length else 0) ∧
          (known u n = true → ∀ kv ∈ es.getD [], (xs.lookup kv.1).isSome = true) ∧
          (xs.map (·.1)).Nodup ∧
          ∀ y ∈ xs, MsgTyped info.isNullable (fun s => ToOKs sub s tys) y.2 ∧ MsgTyped info.isNullable (fun s => RTOKs sub s) y.2 := by
        by_cases hknown : known u n = true
        · obtain ⟨ys, hloop, hkeys, hall⟩ := fromElemsMap_dec _ _ _
            (elemDec_obj X (fun as s => copyFromFields ov sub as { s with obj := resetOneOfs ((msg.map (·.oneOfNames)).getD []) s.obj })
              ov info (mv.getD info) sub tys (hrec tys) hmvk (Or.inr hk)) st.diags st.hooks (es.getD []) []
            hnd (by intro kv _; simp [List.lookup]) (hel hknown)
          simp only [List.nil_append] at hloop
          have hlen : ys.length = (es.getD []).length := by
            have := congrArg List.length hkeys
            simpa using this
          refine ⟨ys, fromFieldWith_map_run _ ov info mv msg attrs st u n es et ys (Or.inr hk) he hvt hknown hl hloop,
            by simp [hknown, hlen], ?_, by rw [hkeys]; exact hnd, hall⟩
          intro _ kv hkv
          exact lookup_isSome_of_mem_keys _ _ (by rw [hkeys]; exact List.mem_map_of_mem (f := (·.1)) hkv)
        · have hknown' : known u n = false := by simpa using hknown
          have hrun := fromFieldWith_unknown_run
            (fun as s => copyFromFields ov sub as { s with obj := resetOneOfs ((msg.map (·.oneOfNames)).getD []) s.obj })
            ov info mv msg attrs st _ ho he hl (Or.inr (Or.inr ⟨Or.inr hk, u, n, es, et, rfl, hknown', hvt⟩))
          have hzw : zeroWrite info = GoVal.map (some []) := by simp [zeroWrite, hk]
          rw [hzw] at hrun
          exact ⟨[], hrun, by simp [hknown'], (fun h => by rw [hknown'] at h; cases h), by simp, by simp⟩
      obtain ⟨xs, hrun, hlen, hsome, hndx, hall⟩ := key
      refine ⟨.map (some xs), hrun, ?_, ?_⟩
      · intro obj hx
        refine ⟨?_, ?_⟩
        · unfold ToOK
          simp only [hk]
          exact ⟨hrep, ho, reachable_plain info obj he, hevk, tys, rfl, hsub, hem,
            Or.inr ⟨xs, hx, hndx, fun e he' => (hall e he').1⟩⟩
        · unfold RTOK
          simp only [hk]
          refine ⟨ho, he, hEm, hphk, hvt, hmvk, ?_, ?_⟩
          · rw [hx]; exact hndx
          · rw [hx]; exact fun e he' => (hall e he').2
      · unfold DecRel
        simp only [hk]
        exact ⟨u, n, es, et, xs, rfl, rfl, hlen, hsome⟩

/-- **decode is typed, a whole message**: on a plan satisfying the judgement the field blocks succeed, append no
diagnostic, touch only the message's own Go fields, and the struct they build is typed for CopyTo and for the read-back -/
theorem decFields (X : String → TfVal → Prop) (ov : List (String × String)) : ∀ (fs : List Field) (attrs : Option (List (String × TfVal))) (st : FromSt)
    (atys : List (String × TfTy)), PlanOKs X fs (attrs.getD []) atys → IsStruct st.obj →
    ∃ o, copyFromFields ov fs attrs st = .ok { st with obj := o } ∧ IsStruct o ∧
      (∀ name, name ∉ fs.map (·.info.name) → o.field? name = st.obj.field? name) ∧
      ToOKs fs o atys ∧ RTOKs fs o ∧ DecRels fs (attrs.getD []) o
  | [], _, st, _, _, hs => ⟨st.obj, by simp [copyFromFields], hs, by simp, trivial, trivial, trivial⟩
  | f :: rest, attrs, st, atys, hP, hs => by
    unfold PlanOKs at hP
    obtain ⟨⟨a, ty, hla, hlt, hpf⟩, hnotinS, hnotin, hrest⟩ := hP
    have hplain : f.info.oneOfName = "" ∧ f.info.parentIsOptionalEmbed = false := by
      obtain ⟨info, mv, msg, sub⟩ := f
      unfold PlanOK at hpf
      exact ⟨hpf.1, hpf.2.1⟩
    by_cases hph : f.info.isPlaceholder = true
    · -- the placeholder of a message without fields is skipped
      obtain ⟨o, hrun2, hso, hframe, hT, hR, hD⟩ := decFields X ov rest attrs st atys hrest hs
      obtain ⟨info, mv, msg, sub⟩ := f
      simp only at hph hla hlt hnotinS hnotin
      unfold PlanOK at hpf
      obtain ⟨ho, he, hphk, hEm, hpf⟩ := hpf
      have hk := hphk hph
      simp only [hk] at hpf
      obtain ⟨k, u, n, p, rfl, rfl, hvk, _⟩ := hpf
      refine ⟨o, ?_, hso, ?_, ?_, ?_, ?_⟩
      · simp only [copyFromFields, hph, if_true]
        exact hrun2
      · intro name hname
        simp only [List.map_cons, List.mem_cons, not_or] at hname
        exact hframe name hname.2
      · unfold ToOKs
        refine ⟨⟨.prim k, hlt, ?_⟩, hnotinS, hT⟩
        unfold ToOK
        simp only [hk]
        exact ⟨⟨k, hvk, rfl⟩, Or.inl hph⟩
      · unfold RTOKs
        refine ⟨?_, hnotin, hR⟩
        unfold RTOK
        simp only [hk]
        exact ⟨ho, he, hEm, fun _ => trivial, Or.inl hph⟩
      · unfold DecRels
        refine ⟨⟨_, hla, ?_⟩, hD⟩
        unfold DecRel
        simp only [hk]
        exact Or.inl hph
    · have hph' : f.info.isPlaceholder = false := by simpa using hph
      obtain ⟨x, hrun, htyped, hdec⟩ := decField X ov f attrs st a ty hla hpf hph'
      obtain ⟨o, hrun2, hso, hframe, hT, hR, hD⟩ := decFields X ov rest attrs
        { st with obj := st.obj.setField f.info.name x } atys hrest (isStruct_setField _ _ _ hs)
      have hgx : getVal f.info o = x := by
        rw [getVal_plain f.info o hplain.1 hplain.2, hframe f.info.name hnotin, field?_setField_same _ _ _ hs]
        rfl
      obtain ⟨hTf, hRf⟩ := htyped o hgx
      refine ⟨o, ?_, hso, ?_, ?_, ?_, ?_⟩
      · simp only [copyFromFields, hph', Bool.false_eq_true, if_false, hrun]
        exact hrun2
      · intro name hname
        simp only [List.map_cons, List.mem_cons, not_or] at hname
        rw [hframe name hname.2]
        exact field?_setField_other _ _ _ _ hname.1
      · unfold ToOKs
        exact ⟨⟨ty, hlt, hTf⟩, hnotinS, hT⟩
      · unfold RTOKs
        exact ⟨hRf, hnotin, hR⟩
      · unfold DecRels
        exact ⟨⟨a, hla, by rw [hgx]; exact hdec⟩, hD⟩

end

-- ------------------------------------------------------------------------------------------------------
-- a plan object is shaped (the hypothesis of the in-place CopyTo theorems)

mutual
theorem planOK_shaped (X : String → TfVal → Prop) : ∀ (f : Field) (a : TfVal) (ty : TfTy), PlanOK X f a ty → Shaped f a ty
  | ⟨info, mv, msg, sub⟩, a, ty, hp => by
    unfold PlanOK at hp
    obtain ⟨_, _, _, _, hp⟩ := hp
    unfold Shaped
    cases hk : info.kind with
    | custom => trivial
    | primitive =>
      simp only [hk] at hp ⊢
      obtain ⟨k, u, n, p, rfl, rfl, _⟩ := hp
      exact ⟨k, u, n, p, rfl, rfl⟩
    | object =>
      simp only [hk] at hp ⊢
      obtain ⟨u, n, as, tys, rfl, rfl, _, _, hkn, hunk⟩ := hp
      refine ⟨u, n, as, tys, rfl, rfl, ?_⟩
      by_cases hknown : known u n = true
      · exact planOKs_shaped X sub _ tys (hkn hknown).1
      · rw [(hunk (by simpa using hknown)).1]
        exact shapedAttrs_nil sub tys
    | primitiveList =>
      simp only [hk] at hp ⊢
      obtain ⟨u, n, es, et, k, rfl, rfl, _, _, hir, _⟩ := hp
      exact ⟨⟨u, n, es, et, rfl⟩, by rw [hir.rt.ek]; simp⟩
    | objectList =>
      simp only [hk] at hp ⊢
      obtain ⟨u, n, es, et, tys, rfl, rfl, _, hev, _⟩ := hp
      exact ⟨⟨u, n, es, et, rfl⟩, by rw [hev]; simp⟩
    | primitiveMap =>
      simp only [hk] at hp ⊢
      obtain ⟨u, n, es, et, k, rfl, rfl, _, _, _, _, _, hir, _⟩ := hp
      exact ⟨⟨u, n, es, et, rfl⟩, by rw [hir.rt.ek]; simp⟩
    | objectMap =>
      simp only [hk] at hp ⊢
      obtain ⟨u, n, es, et, tys, rfl, rfl, _, hev, _⟩ := hp
      exact ⟨⟨u, n, es, et, rfl⟩, by rw [hev]; simp⟩

theorem planOKs_shaped (X : String → TfVal → Prop) : ∀ (fs : List Field) (attrs : List (String × TfVal)) (atys : List (String × TfTy)),
    PlanOKs X fs attrs atys → ShapedAttrs fs attrs atys
  | [], _, _, _ => trivial
  | f :: rest, attrs, atys, hP => by
    unfold PlanOKs at hP
    obtain ⟨⟨a, ty, hla, hlt, hpf⟩, _, _, hrest⟩ := hP
    refine ⟨?_, planOKs_shaped X rest attrs atys hrest⟩
    intro a' ha'
    rw [hla] at ha'
    injection ha' with ha'
    subst ha'
    exact ⟨ty, hlt, planOK_shaped X f a ty hpf⟩
end

/-- **C08 step 1, decode is typed**: CopyFrom of a plan that satisfies the judgement into a fresh struct succeeds without
a diagnostic; the struct it builds is typed in the sense the in-place CopyTo theorem (`toFields_inplace`) needs, and the
plan's attributes are shaped in the sense of that theorem. -/
theorem decode_typed (X : String → TfVal → Prop) (ov : List (String × String)) (fs : List Field) (names : List String)
    (attrs : Option (List (String × TfVal))) (atys : List (String × TfTy)) (h : PlanOKs X fs (attrs.getD []) atys) :
    ∃ st', copyFromFields ov fs attrs { obj := resetOneOfs names (.struct []) } = .ok st' ∧ st'.diags = [] ∧
      ToOKs fs st'.obj atys ∧ RTOKs fs st'.obj ∧ DecRels fs (attrs.getD []) st'.obj ∧
      ShapedAttrs fs (attrs.getD []) atys := by
  obtain ⟨o, hrun, _, _, hT, hR, hD⟩ := decFields X ov fs attrs { obj := resetOneOfs names (.struct []) } atys h
    (isStruct_resetOneOfs _ _ trivial)
  exact ⟨_, hrun, rfl, hT, hR, hD, planOKs_shaped X fs _ atys h⟩

end PGT
