import PGT.Proofs.RoundTrip
/-
C05, "whatever the target struct held before the call": for fields that are neither oneof branches nor children of a
nullable embedded message, the field block of CopyFrom is *uniform in the target*: what it writes (nothing, or one
value into its own field), the diagnostics and the hook calls are determined by the Terraform value alone – for
**every** Terraform value, well-formed or not. The prior content of the target is never read.
-/
namespace PGT
open PGT.Spec

/-- the effect of a field block on the target struct: nothing, or one assignment to the field -/
def applyWrite (name : String) (w : Option GoVal) (o : GoVal) : GoVal :=
  match w with
  | none => o
  | some y => o.setField name y

/-- `F` (a field block as a function of the target struct) does the same thing for every target -/
def Uniform (name : String) (F : GoVal → Outcome FromSt) : Prop :=
  (∃ w d h, ∀ o, F o = .ok { obj := applyWrite name w o, diags := d, hooks := h }) ∨
  (∃ msg, ∀ o, F o = .stuck msg) ∨ (∃ msg, ∀ o, F o = .panic msg)

theorem uniform_ok_none (name : String) (d : List Diag) (h : List HookCall) :
    Uniform name (fun o => .ok { obj := o, diags := d, hooks := h }) :=
  Or.inl ⟨none, d, h, fun _ => rfl⟩

theorem uniform_ok_some (name : String) (y : GoVal) (d : List Diag) (h : List HookCall) :
    Uniform name (fun o => .ok { obj := o.setField name y, diags := d, hooks := h }) :=
  Or.inl ⟨some y, d, h, fun _ => rfl⟩

theorem uniform_ok_some2 (name : String) (x y : GoVal) (d : List Diag) (h : List HookCall) :
    Uniform name (fun o => .ok { obj := (o.setField name x).setField name y, diags := d, hooks := h }) :=
  Or.inl ⟨some y, d, h, fun o => by simp [applyWrite, setField_setField_same]⟩

theorem uniform_stuck (name : String) (msg : String) : Uniform name (fun _ => .stuck msg) :=
  Or.inr (Or.inl ⟨msg, fun _ => rfl⟩)

theorem uniform_panic (name : String) (msg : String) : Uniform name (fun _ => .panic msg) :=
  Or.inr (Or.inr ⟨msg, fun _ => rfl⟩)

macro "uni_crush" : tactic => `(tactic| repeat' (first
  | exact uniform_ok_none _ _ _ | exact uniform_ok_some _ _ _ _ | exact uniform_ok_some2 _ _ _ _ _
  | exact uniform_stuck _ _ | exact uniform_panic _ _ | split))

theorem fieldWith_uniform (rec : FromRec) (ov : List (String × String)) (info : FieldInfo) (mv : Option FieldInfo)
    (msg : Option MsgInfo) (attrs : Option (List (String × TfVal))) (ds : List Diag) (hs : List HookCall)
    (ho : info.oneOfName = "") (he : info.parentIsOptionalEmbed = false) :
    Uniform info.name (fun o => copyFromFieldWith rec ov info mv msg attrs { obj := o, diags := ds, hooks := hs }) := by
  unfold copyFromFieldWith
  simp only [embedGuard_plain info _ _ he, writeField_plain info _ _ he, ho, he, FromSt.diag]
  cases hk : info.kind with
  | custom =>
    simp only []
    cases (attrs.getD []).lookup info.nameSnake <;> simp only [Bool.false_eq_true, if_false] <;> exact uniform_ok_some _ _ _ _
  | primitive =>
    simp only [bne_self_eq_false, beq_self_eq_true, Bool.false_eq_true, if_false, if_true]
    uni_crush
  | object =>
    simp only [bne_self_eq_false, beq_self_eq_true, Bool.false_eq_true, if_false, if_true]
    uni_crush
  | primitiveList =>
    simp only [bne_self_eq_false, beq_self_eq_true, Bool.false_eq_true, if_false, if_true]
    uni_crush
  | objectList =>
    simp only [bne_self_eq_false, beq_self_eq_true, Bool.false_eq_true, if_false, if_true]
    uni_crush
  | primitiveMap =>
    simp only [bne_self_eq_false, beq_self_eq_true, Bool.false_eq_true, if_false, if_true]
    uni_crush
  | objectMap =>
    simp only [bne_self_eq_false, beq_self_eq_true, Bool.false_eq_true, if_false, if_true]
    uni_crush

-- ------------------------------------------------------------------------------------------------------
-- a whole message

/-- a sequence of assignments to fields of the target -/
def applyWrites (ws : List (String × GoVal)) (o : GoVal) : GoVal := ws.foldl (fun b w => b.setField w.1 w.2) o

theorem applyWrites_append (ws vs : List (String × GoVal)) (o : GoVal) :
    applyWrites (ws ++ vs) o = applyWrites vs (applyWrites ws o) := by
  simp [applyWrites, List.foldl_append]

theorem isStruct_applyWrites : ∀ (ws : List (String × GoVal)) (o : GoVal), IsStruct o → IsStruct (applyWrites ws o)
  | [], _, h => h
  | w :: ws, o, h => by
    simp only [applyWrites, List.foldl]
    exact isStruct_applyWrites ws _ (isStruct_setField _ _ _ h)

/-- a field that is not assigned keeps the value the target held -/
theorem applyWrites_other : ∀ (ws : List (String × GoVal)) (o : GoVal) (name : String),
    name ∉ ws.map (·.1) → (applyWrites ws o).field? name = o.field? name
  | [], _, _, _ => rfl
  | w :: ws, o, name, h => by
    simp only [List.map_cons, List.mem_cons, not_or] at h
    simp only [applyWrites, List.foldl]
    have := applyWrites_other ws (o.setField w.1 w.2) name h.2
    simp only [applyWrites] at this
    rw [this]
    exact field?_setField_other _ _ _ _ h.1

/-- an assigned field holds a value that does not depend on what the target held -/
theorem applyWrites_same : ∀ (ws : List (String × GoVal)) (o o' : GoVal) (name : String), IsStruct o → IsStruct o' →
    name ∈ ws.map (·.1) → (applyWrites ws o).field? name = (applyWrites ws o').field? name
  | [], _, _, _, _, _, h => by simp at h
  | w :: ws, o, o', name, ho, ho', h => by
    simp only [applyWrites, List.foldl]
    by_cases hin : name ∈ ws.map (·.1)
    · exact applyWrites_same ws _ _ name (isStruct_setField _ _ _ ho) (isStruct_setField _ _ _ ho') hin
    · have h1 := applyWrites_other ws (o.setField w.1 w.2) name hin
      have h2 := applyWrites_other ws (o'.setField w.1 w.2) name hin
      simp only [applyWrites] at h1 h2
      rw [h1, h2]
      have hw : name = w.1 := by
        simp only [List.map_cons, List.mem_cons] at h
        rcases h with h | h
        · exact h
        · exact absurd h hin
      subst hw
      rw [field?_setField_same _ _ _ ho, field?_setField_same _ _ _ ho']

/-- a sequence of field blocks does the same thing for every target -/
def UniformFields (names : List String) (F : GoVal → Outcome FromSt) : Prop :=
  (∃ ws d h, (∀ w ∈ ws, w.1 ∈ names) ∧ ∀ o, F o = .ok { obj := applyWrites ws o, diags := d, hooks := h }) ∨
  (∃ msg, ∀ o, F o = .stuck msg) ∨ (∃ msg, ∀ o, F o = .panic msg)

theorem fromFields_uniform (ov : List (String × String)) : ∀ (fs : List Field) (attrs : Option (List (String × TfVal)))
    (pre : List (String × GoVal)) (ds : List Diag) (hs : List HookCall),
    (∀ f ∈ fs, f.info.oneOfName = "" ∧ f.info.parentIsOptionalEmbed = false) →
    UniformFields (pre.map (·.1) ++ fs.map (·.info.name))
      (fun o => copyFromFields ov fs attrs { obj := applyWrites pre o, diags := ds, hooks := hs })
  | [], attrs, pre, ds, hs, _ => by
    left
    exact ⟨pre, ds, hs, by intro w hw; simp; exact ⟨w.2, hw⟩, fun o => by simp [copyFromFields]⟩
  | f :: rest, attrs, pre, ds, hs, hpl => by
    obtain ⟨ho, he⟩ := hpl f (by simp)
    have hrest := fun (pre' : List (String × GoVal)) ds' hs' => fromFields_uniform ov rest attrs pre' ds' hs'
      (fun g hg => hpl g (by simp [hg]))
    simp only [copyFromFields]
    by_cases hph : f.info.isPlaceholder = true
    · simp only [hph, if_true]
      rcases hrest pre ds hs with ⟨ws, d, h, hin, hrun⟩ | ⟨m, hrun⟩ | ⟨m, hrun⟩
      · left
        refine ⟨ws, d, h, ?_, hrun⟩
        intro w hw
        have := hin w hw
        simp only [List.mem_append, List.map_cons, List.mem_cons] at this ⊢
        rcases this with h1 | h1
        · exact Or.inl h1
        · exact Or.inr (Or.inr h1)
      · exact Or.inr (Or.inl ⟨m, hrun⟩)
      · exact Or.inr (Or.inr ⟨m, hrun⟩)
    · simp only [hph, Bool.false_eq_true, if_false]
      obtain ⟨info, mv, msg, sub⟩ := f
      simp only at ho he
      simp only [copyFromField]
      have hu := fieldWith_uniform
        (fun as s => copyFromFields ov sub as { s with obj := resetOneOfs ((msg.map (·.oneOfNames)).getD []) s.obj })
        ov info mv msg attrs ds hs ho he
      rcases hu with ⟨w, d1, h1, hw⟩ | ⟨m, hw⟩ | ⟨m, hw⟩
      · -- continue with the rest on the extended write list
        cases w with
        | none =>
          rcases hrest pre d1 h1 with ⟨ws, d, h, hin, hrun⟩ | ⟨m, hrun⟩ | ⟨m, hrun⟩
          · left
            refine ⟨ws, d, h, ?_, fun o => by simp only [hw, applyWrite]; exact hrun o⟩
            intro x hx
            have := hin x hx
            simp only [List.mem_append, List.map_cons, List.mem_cons] at this ⊢
            rcases this with h1 | h1
            · exact Or.inl h1
            · exact Or.inr (Or.inr h1)
          · right; left
            exact ⟨m, fun o => by simp only [hw, applyWrite]; exact hrun o⟩
          · right; right
            exact ⟨m, fun o => by simp only [hw, applyWrite]; exact hrun o⟩
        | some y =>
          have hpre : ∀ o, applyWrite info.name (some y) (applyWrites pre o) = applyWrites (pre ++ [(info.name, y)]) o := by
            intro o
            simp [applyWrite, applyWrites_append, applyWrites]
          rcases hrest (pre ++ [(info.name, y)]) d1 h1 with ⟨ws, d, h, hin, hrun⟩ | ⟨m, hrun⟩ | ⟨m, hrun⟩
          · left
            refine ⟨ws, d, h, ?_, fun o => by simp only [hw, hpre]; exact hrun o⟩
            intro x hx
            have := hin x hx
            simp only [List.mem_append, List.map_append, List.map_cons, List.map_nil, List.mem_cons, List.mem_nil_iff, or_false] at this ⊢
            rcases this with (h1 | h1) | h1
            · exact Or.inl h1
            · exact Or.inr (Or.inl h1)
            · exact Or.inr (Or.inr h1)
          · right; left
            exact ⟨m, fun o => by simp only [hw, hpre]; exact hrun o⟩
          · right; right
            exact ⟨m, fun o => by simp only [hw, hpre]; exact hrun o⟩
      · right; left
        exact ⟨m, fun o => by simp only [hw]⟩
      · right; right
        exact ⟨m, fun o => by simp only [hw]⟩

theorem resetOneOfs_eq_applyWrites (names : List String) (o : GoVal) :
    resetOneOfs names o = applyWrites (names.map fun n => (n, GoVal.iface none)) o := by
  unfold resetOneOfs applyWrites
  induction names generalizing o with
  | nil => rfl
  | cons n rest ih => simp only [List.foldl, List.map_cons]; exact ih _

/-- **The whole converter is uniform in the target** (message whose own fields are neither oneof branches nor children of
a nullable embedded message; nested messages arbitrary): there is one list of assignments `ws`, one list of
diagnostics and one hook log – determined by the Terraform value alone, whatever it is – such that for *every* prior
content `p` of the target the call returns `p` with exactly those assignments applied. -/
theorem copyFrom_uniform (ov : List (String × String)) (m : Msg) (tf : TfVal)
    (hpl : ∀ f ∈ m.fields, f.info.oneOfName = "" ∧ f.info.parentIsOptionalEmbed = false) :
    (∃ ws d h, (∀ w ∈ ws, w.1 ∈ m.info.oneOfNames ++ m.fields.map (·.info.name)) ∧
        ∀ p, copyFrom ov m tf (.struct p) = .ok { obj := applyWrites ws (.struct p), diags := d, hooks := h }) ∨
    (∃ msg, ∀ p, copyFrom ov m tf (.struct p) = .stuck msg) ∨ (∃ msg, ∀ p, copyFrom ov m tf (.struct p) = .panic msg) := by
  unfold copyFrom
  cases tf with
  | obj u n attrs atys =>
    simp only []
    have hu := fromFields_uniform ov m.fields attrs (m.info.oneOfNames.map fun n => (n, GoVal.iface none)) [] [] hpl
    rcases hu with ⟨ws, d, h, hin, hrun⟩ | ⟨msg, hrun⟩ | ⟨msg, hrun⟩
    · left
      refine ⟨ws, d, h, ?_, ?_⟩
      · intro w hw
        have := hin w hw
        simpa [List.map_map, Function.comp] using this
      · intro p
        have := hrun (.struct p)
        dsimp only at this
        rw [resetOneOfs_eq_applyWrites, this]
    · right; left
      refine ⟨msg, fun p => ?_⟩
      have := hrun (.struct p)
      dsimp only at this
      rw [resetOneOfs_eq_applyWrites, this]
    · right; right
      refine ⟨msg, fun p => ?_⟩
      have := hrun (.struct p)
      dsimp only at this
      rw [resetOneOfs_eq_applyWrites, this]
  | prim _ _ _ _ => right; left; exact ⟨_, fun _ => rfl⟩
  | list _ _ _ _ => right; left; exact ⟨_, fun _ => rfl⟩
  | map _ _ _ _ => right; left; exact ⟨_, fun _ => rfl⟩
  | nilv => right; left; exact ⟨_, fun _ => rfl⟩
  | foreign _ => right; left; exact ⟨_, fun _ => rfl⟩

/-- a null or unknown value of the right Go type resets the field to its zero value: nil for pointers, the zero
scalar, an empty struct, an empty slice / map – whatever payload the value carries (every non-custom kind) -/
def zeroWrite (info : FieldInfo) : GoVal :=
  match info.kind with
  | .primitive => zeroPrim info
  | .object => if info.isNullable then .ptr none else .struct []
  | .primitiveList | .objectList => .slice (some [])
  | .primitiveMap | .objectMap => .map (some [])
  | .custom => .ptr none

theorem fieldWith_null_resets (rec : FromRec) (ov : List (String × String)) (info : FieldInfo) (mv : Option FieldInfo)
    (msg : Option MsgInfo) (attrs : Option (List (String × TfVal))) (st : FromSt) (a : TfVal)
    (ho : info.oneOfName = "") (he : info.parentIsOptionalEmbed = false) (hc : info.kind ≠ .custom)
    (hl : (attrs.getD []).lookup info.nameSnake = some a)
    (hkind : a.vkind = vkindOf info.tf.valueType ∧ a.vkind ≠ .unknown)
    (hshape : match info.kind with
      | .primitive => ∃ k, a.vkind = .prim k
      | .object => a.vkind = .obj
      | .primitiveList | .objectList => a.vkind = .list
      | .primitiveMap | .objectMap => a.vkind = .map
      | .custom => False)
    (hnull : a.isKnown = false) :
    copyFromFieldWith rec ov info mv msg attrs st = .ok { st with obj := st.obj.setField info.name (zeroWrite info) } := by
  unfold copyFromFieldWith zeroWrite
  have hcond : (a.vkind != vkindOf info.tf.valueType || a.vkind == .unknown) = false := by
    have h2 := hkind.2
    simp only [Bool.or_eq_false_iff, bne_eq_false_iff_eq, beq_eq_false_iff_ne]
    exact ⟨hkind.1, h2⟩
  simp only [hl, hcond, embedGuard_plain info _ _ he, writeField_plain info _ _ he, ho, he]
  cases hk : info.kind <;> simp only [hk] at hshape ⊢
  · -- primitive
    obtain ⟨k, hk'⟩ := hshape
    cases a <;> simp [TfVal.vkind] at hk'
    rename_i k' u n p
    have : known u n = false := by simpa [TfVal.isKnown] using hnull
    simp [primDecode, this]
  · cases a <;> simp [TfVal.vkind] at hshape
    rename_i u n es ety
    have : known u n = false := by simpa [TfVal.isKnown] using hnull
    simp [this]
  · cases a <;> simp [TfVal.vkind] at hshape
    rename_i u n as atys
    have : known u n = false := by simpa [TfVal.isKnown] using hnull
    simp [this]
  · cases a <;> simp [TfVal.vkind] at hshape
    rename_i u n es ety
    have : known u n = false := by simpa [TfVal.isKnown] using hnull
    simp [this]
  · cases a <;> simp [TfVal.vkind] at hshape
    rename_i u n es ety
    have : known u n = false := by simpa [TfVal.isKnown] using hnull
    simp [this]
  · cases a <;> simp [TfVal.vkind] at hshape
    rename_i u n es ety
    have : known u n = false := by simpa [TfVal.isKnown] using hnull
    simp [this]

end PGT
