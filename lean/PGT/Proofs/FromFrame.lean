import PGT.Proofs.FromTotal
/-
Frame property of the CopyFrom field blocks: a field block writes only the field itself, its oneof holder or its
embedded parent – every other Go field of the target keeps its value. For **every** IR, Terraform value and target.
-/
namespace PGT

/-- the Go fields the block of `f` may assign -/
def writeKeys (f : FieldInfo) : List String := [f.name, f.oneOfName, f.parentIsOptionalEmbedFieldName]

/-- `o` is a struct that agrees with `base` outside `keys` -/
def Frame (keys : List String) (base o : GoVal) : Prop :=
  IsStruct o ∧ ∀ key, key ∉ keys → o.field? key = base.field? key

theorem field?_setField_other' (b : GoVal) (n m : String) (y : GoVal) (h : m ≠ n) : (b.setField n y).field? m = b.field? m := by
  cases b <;> simp [GoVal.setField, GoVal.field?]
  exact lookup_setKey_other _ _ _ h _

theorem writeInv_frame (f : FieldInfo) (base : GoVal) : WriteInv f (Frame (writeKeys f) base) where
  struct := fun _ h => h.1
  set := by
    intro o k x h hk
    refine ⟨isStruct_setField _ _ _ h.1, ?_⟩
    intro key hkey
    have hne : key ≠ k := by
      intro e
      subst e
      apply hkey
      simp only [writeKeys, List.mem_cons, List.mem_nil_iff, or_false]
      exact hk
    rw [field?_setField_other' _ _ _ _ hne]
    exact h.2 key hkey

/-- **frame**: after the field block of `f`, every Go field outside `writeKeys f` holds what it held before -/
theorem fieldWith_frame (rec : FromRec) (hrec : RecSafe rec) (ov : List (String × String)) (info : FieldInfo)
    (mv : Option FieldInfo) (msg : Option MsgInfo) (attrs : Option (List (String × TfVal))) (st st' : FromSt)
    (hs : IsStruct st.obj) (h : copyFromFieldWith rec ov info mv msg attrs st = .ok st') :
    IsStruct st'.obj ∧ ∀ key, key ∉ writeKeys info → st'.obj.field? key = st.obj.field? key :=
  (fieldWith_safe rec hrec ov info (Frame (writeKeys info) st.obj) (writeInv_frame info st.obj) mv msg attrs st
    ⟨hs, fun _ _ => rfl⟩).2 st' h

theorem recSafe_fields (ov : List (String × String)) (sub : List Field) (names : List String) :
    RecSafe (fun attrs s => copyFromFields ov sub attrs { s with obj := resetOneOfs names s.obj }) := by
  intro as s hs'
  exact fromFields_safe ov sub as _ (isStruct_resetOneOfs _ _ hs')

theorem fromField_frame (ov : List (String × String)) (f : Field) (attrs : Option (List (String × TfVal))) (st st' : FromSt)
    (hs : IsStruct st.obj) (h : copyFromField ov f attrs st = .ok st') :
    IsStruct st'.obj ∧ ∀ key, key ∉ writeKeys f.info → st'.obj.field? key = st.obj.field? key := by
  obtain ⟨info, mv, msg, sub⟩ := f
  simp only [copyFromField] at h
  exact fieldWith_frame _ (recSafe_fields ov sub _) ov info mv msg attrs st st' hs h

/-- a whole field list touches only the keys of its fields -/
theorem fromFields_frame (ov : List (String × String)) : ∀ (fs : List Field) (attrs : Option (List (String × TfVal)))
    (st st' : FromSt), IsStruct st.obj → copyFromFields ov fs attrs st = .ok st' →
    IsStruct st'.obj ∧ ∀ key, (∀ f ∈ fs, key ∉ writeKeys f.info) → st'.obj.field? key = st.obj.field? key
  | [], _, st, st', hs, h => by
    simp only [copyFromFields] at h
    injection h with h
    subst h
    exact ⟨hs, fun _ _ => rfl⟩
  | f :: rest, attrs, st, st', hs, h => by
    simp only [copyFromFields] at h
    split at h
    · obtain ⟨h1, h2⟩ := fromFields_frame ov rest attrs st st' hs h
      exact ⟨h1, fun key hk => h2 key (fun g hg => hk g (by simp [hg]))⟩
    · cases hf : copyFromField ov f attrs st with
      | ok st1 =>
        rw [hf] at h
        obtain ⟨hs1, hfr1⟩ := fromField_frame ov f attrs st st1 hs hf
        obtain ⟨h1, h2⟩ := fromFields_frame ov rest attrs st1 st' hs1 h
        refine ⟨h1, fun key hk => ?_⟩
        rw [h2 key (fun g hg => hk g (by simp [hg])), hfr1 key (hk f (by simp))]
      | panic w => rw [hf] at h; cases h
      | stuck w => rw [hf] at h; cases h

end PGT
