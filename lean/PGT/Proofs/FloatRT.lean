import PGT.Model.Float
import PGT.Proofs.FloatRTKernel
/-
float32 -> float64 -> float32 is the identity on every non-NaN bit pattern (all 2^32 - 2^24 + 2 of them),
and the zero test on the widened value sees exactly the two float32 zeros.
Proved in `FloatRTKernel.lean` on `BitVec.toNat` level (sign / exponent / mantissa decomposition, one parametric lemma for the
position of the leading one of a subnormal, `omega`): kernel-checked, no `bv_decide` – the earlier proof by bit-blasting, which
needed the `ofReduceBool` axiom, is gone.
-/
namespace PGT.F

theorem narrow_widen (x : BitVec 32) (h : isNaN32 x = false) : narrow32 (widen64 x) = x :=
  Kernel.narrow_widen x h

theorem widen_zero (x : BitVec 32) : isZero64 (widen64 x) = ((x &&& 0x7fffffff#32) == 0#32) :=
  Kernel.widen_zero x

end PGT.F
