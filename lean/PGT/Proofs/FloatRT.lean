import PGT.Model.Float
import Std.Tactic.BVDecide
/-
float32 -> float64 -> float32 is the identity on every non-NaN bit pattern (all 2^32 - 2^24 + 2 of them),
and the zero test on the widened value sees exactly the two float32 zeros.
Proved by `bv_decide` (bit-blasting + SAT certificate checked by `Lean.ofReduceBool`, i.e. compiled code: the one
declared exception to "kernel only", see DESIGN §8).
-/
namespace PGT.F

theorem narrow_widen (x : BitVec 32) (h : isNaN32 x = false) : narrow32 (widen64 x) = x := by
  unfold isNaN32 at h
  unfold narrow32 widen64
  bv_decide

theorem widen_zero (x : BitVec 32) : isZero64 (widen64 x) = ((x &&& 0x7fffffff#32) == 0#32) := by
  unfold isZero64 widen64
  bv_decide

end PGT.F
