import PGT.Proofs.ToAll
/-
CopyTo into an object that does not hold the attributes yet renders the struct – for every template
(primitive, pointer scalar, placeholder, oneof branch, embedded child, object, lists, maps, custom), at every
nesting depth: mutual induction over the IR.
-/
namespace PGT
open PGT.Spec

/-- what the recursive call on the nested message must satisfy: for every typed struct `s` it fills a fresh
attribute map, appends no diagnostic, and the result renders `s` -/
def RecSpec (rec : ToRec) (oty : Option (List (String × TfTy))) (P : GoVal → Prop)
    (R : GoVal → List (String × TfVal) → Bool) : Prop :=
  ∀ s diags hooks, P s →
    ∃ attrs hs, rec s oty { attrs := [], diags := diags, hooks := hooks } =
        .ok { attrs := attrs, diags := diags, hooks := hooks ++ hs } ∧ R s attrs = true

theorem objBody_fresh (rec : ToRec) (info : FieldInfo) (msg : Option MsgInfo) (oty : Option (List (String × TfTy)))
    (x : GoVal) (diags : List Diag) (hooks : List HookCall) (P : GoVal → Prop) (R : GoVal → List (String × TfVal) → Bool)
    (hrec : RecSpec rec oty P R)
    (hE : (isEmptyMsg msg) = true →
        ∀ fs, x = .ptr (some (.struct fs)) ∨ x = .struct fs → fs = [])
    (ht : MsgTyped info.isNullable P x) :
    ∃ v hs, objBody rec info msg false none oty (.ok x) diags hooks = .ok (v, diags, hooks ++ hs) ∧
      objRenders info.isNullable R x v = true := by
  unfold MsgTyped at ht
  by_cases hn : info.isNullable = true
  · simp only [hn, if_true] at ht
    rcases ht with rfl | ⟨fs, rfl, hP⟩
    · refine ⟨.obj false true (some []) oty, [], ?_, ?_⟩
      · simp [objBody, hn]
      · simp [objRenders, hn, isNilPtr]
    · obtain ⟨attrs, hs, hrun, hR⟩ := hrec (.struct fs) diags hooks hP
      refine ⟨.obj false false (some attrs) oty, hs, ?_, ?_⟩
      · unfold objBody
        simp only [hn]
        cases hem : isEmptyMsg msg with
        | false => simp [hem, hrun]
        | true =>
          have : fs = [] := hE hem fs (Or.inl rfl)
          subst this
          simp [hem, hrun]
      · simp [objRenders, hn, isNilPtr, structOf, hR]
  · have hn' : info.isNullable = false := by simpa using hn
    simp only [hn', Bool.false_eq_true, if_false] at ht
    obtain ⟨fs, rfl, hP⟩ := ht
    cases hem : isEmptyMsg msg with
    | false =>
      obtain ⟨attrs, hs, hrun, hR⟩ := hrec (.struct fs) diags hooks hP
      refine ⟨.obj false false (some attrs) oty, hs, ?_, ?_⟩
      · unfold objBody
        simp [hn', hem, hrun]
      · simp [objRenders, hn', structOf, hR]
    | true =>
      have : fs = [] := hE hem fs (Or.inr rfl)
      subst this
      obtain ⟨attrs, hs, hrun, hR⟩ := hrec (.struct []) diags hooks hP
      refine ⟨.obj false false (some attrs) oty, hs, ?_, ?_⟩
      · unfold objBody
        simp [hn', hem, hrun]
      · simp [objRenders, hn', structOf, hR]

-- ------------------------------------------------------------------------------------------------------
-- element loops

/-- an element body that never fails on the listed elements, keeps the diagnostics and relates input and output -/
def BodySpec (body : ElemBody) (Q : GoVal → TfVal → Bool) (elems : List GoVal) : Prop :=
  ∀ a ∈ elems, ∀ diags hooks, ∃ v hs, body a diags hooks = .ok (v, diags, hooks ++ hs) ∧ Q a v = true

theorem elemsList_spec (body : ElemBody) (Q : GoVal → TfVal → Bool) :
    ∀ (elems : List GoVal) (pre : List TfVal) (post : List TfVal) (diags : List Diag) (hooks : List HookCall),
      BodySpec body Q elems → post.length = elems.length →
      ∃ r hs, copyToElemsList body elems pre.length (pre ++ post) diags hooks = .ok (pre ++ r, diags, hooks ++ hs) ∧
        r.length = elems.length ∧ (elems.zip r).all (fun (e, v) => Q e v) = true
  | [], pre, post, diags, hooks, _, hl => by
    have : post = [] := by simpa using hl
    subst this
    exact ⟨[], [], by simp [copyToElemsList], rfl, by simp⟩
  | a :: rest, pre, post, diags, hooks, hb, hl => by
    cases post with
    | nil => simp at hl
    | cons p post' =>
      obtain ⟨v, hs1, hrun, hq⟩ := hb a (by simp) diags hooks
      have hset : setIdx (pre ++ p :: post') pre.length v = (pre ++ [v]) ++ post' := by
        simp [setIdx, List.set_append_right]
      have hb' : BodySpec body Q rest := fun a' ha' => hb a' (by simp [ha'])
      have hl' : post'.length = rest.length := by simpa using hl
      obtain ⟨r, hs2, hrun2, hlen, hall⟩ := elemsList_spec body Q rest (pre ++ [v]) post' diags (hooks ++ hs1) hb' hl'
      refine ⟨v :: r, hs1 ++ hs2, ?_, by simp [hlen], ?_⟩
      · simp only [copyToElemsList, hrun, hset]
        have : (pre ++ [v]).length = pre.length + 1 := by simp
        rw [this] at hrun2
        rw [hrun2]
        simp
      · simp [hq, hall]

theorem length_setKey_new {α} (k : String) (v : α) : ∀ (l : List (String × α)), l.lookup k = none →
    (setKey k v l).length = l.length + 1
  | [], _ => by simp [setKey]
  | (k', v') :: rest, h => by
    simp only [List.lookup] at h
    split at h
    · simp at h
    · rename_i hne
      have : ¬ (k' == k) = true := by
        intro e
        have : k = k' := by simpa using (by simpa using e : k' = k).symm
        subst this
        simp at hne
      simp [setKey, this, length_setKey_new k v rest h]

theorem elemsMap_spec (body : ElemBody) (Q : GoVal → TfVal → Bool) :
    ∀ (elems : List (String × GoVal)) (acc : List (String × TfVal)) (diags : List Diag) (hooks : List HookCall),
      BodySpec body Q (elems.map (·.2)) → (elems.map (·.1)).Nodup → (∀ e ∈ elems, acc.lookup e.1 = none) →
      ∃ r hs, copyToElemsMap body elems acc diags hooks = .ok (r, diags, hooks ++ hs) ∧
        r.length = acc.length + elems.length ∧
        (∀ e ∈ elems, ∃ v, r.lookup e.1 = some v ∧ Q e.2 v = true) ∧
        (∀ key, key ∉ elems.map (·.1) → r.lookup key = acc.lookup key)
  | [], acc, diags, hooks, _, _, _ => ⟨acc, [], by simp [copyToElemsMap], by simp, by simp, by simp⟩
  | (k, a) :: rest, acc, diags, hooks, hb, hnd, hnone => by
    simp only [List.map_cons, List.nodup_cons] at hnd
    obtain ⟨v, hs1, hrun, hq⟩ := hb a (by simp) diags hooks
    have hb' : BodySpec body Q (rest.map (·.2)) := fun a' ha' => hb a' (by simp at ha' ⊢; exact Or.inr ha')
    have hnone' : ∀ e ∈ rest, (setKey k v acc).lookup e.1 = none := by
      intro e he
      have hne : e.1 ≠ k := by
        intro h
        exact hnd.1 (by rw [← h]; exact List.mem_map_of_mem he)
      rw [lookup_setKey_other _ _ _ hne]
      exact hnone e (by simp [he])
    obtain ⟨r, hs2, hrun2, hlen, hall, hframe⟩ :=
      elemsMap_spec body Q rest (setKey k v acc) diags (hooks ++ hs1) hb' hnd.2 hnone'
    refine ⟨r, hs1 ++ hs2, ?_, ?_, ?_, ?_⟩
    · simp only [copyToElemsMap, hrun]
      rw [hrun2]
      simp
    · rw [hlen, length_setKey_new k v acc (hnone (k, a) (by simp))]
      simp; omega
    · intro e he
      simp at he
      rcases he with rfl | he
      · refine ⟨v, ?_, hq⟩
        rw [hframe k hnd.1]
        exact lookup_setKey_same _ _ _
      · exact hall e he
    · intro key hkey
      simp at hkey
      rw [hframe key (by simpa using hkey.2)]
      exact lookup_setKey_other _ _ _ hkey.1 _

end PGT

namespace PGT
open PGT.Spec

theorem listBody_fresh (rec : ToRec) (info : FieldInfo) (msg : Option MsgInfo) (se : Bool) (obj0 : GoVal) (ety : Option TfTy)
    (elems : List GoVal) (st : ToSt) (oty : Option (List (String × TfTy))) (Q : GoVal → TfVal → Bool)
    (hrep : info.isRepeated = true)
    (hoty : elemObjTy (info.kind == .objectList || info.kind == .objectMap) ety = .ok oty)
    (hb : BodySpec (elemBodyOf rec info msg se obj0 ety oty) Q elems) :
    ∃ es hs, listOrMapBody rec info msg se obj0 none ety (.slice (some elems)) st =
        .ok { attrs := setKey info.nameSnake (.list false (elems.isEmpty) (some es) ety) st.attrs,
              diags := st.diags, hooks := st.hooks ++ hs } ∧
      es.length = elems.length ∧ (elems.zip es).all (fun (e, v) => Q e v) = true := by
  obtain ⟨r, hs, hrun, hlen, hall⟩ :=
    elemsList_spec (elemBodyOf rec info msg se obj0 ety oty) Q elems [] (List.replicate elems.length .nilv)
      st.diags st.hooks hb (by simp)
  refine ⟨r, hs, ?_, hlen, hall⟩
  unfold listOrMapBody
  simp only [hrep, if_true, hoty, curIsElemKind, reuseList, Option.getD]
  simp only [List.length_nil, List.nil_append] at hrun
  simp [hrun]
  cases elems <;> simp

theorem mapBody_fresh (rec : ToRec) (info : FieldInfo) (msg : Option MsgInfo) (se : Bool) (obj0 : GoVal) (ety : Option TfTy)
    (elems : List (String × GoVal)) (st : ToSt) (oty : Option (List (String × TfTy))) (Q : GoVal → TfVal → Bool)
    (hrep : info.isRepeated = false)
    (hoty : elemObjTy (info.kind == .objectList || info.kind == .objectMap) ety = .ok oty)
    (hnd : (elems.map (·.1)).Nodup)
    (hb : BodySpec (elemBodyOf rec info msg se obj0 ety oty) Q (elems.map (·.2))) :
    ∃ es hs, listOrMapBody rec info msg se obj0 none ety (.map (some elems)) st =
        .ok { attrs := setKey info.nameSnake (.map false (elems.isEmpty) (some es) ety) st.attrs,
              diags := st.diags, hooks := st.hooks ++ hs } ∧
      es.length = elems.length ∧ (∀ e ∈ elems, ∃ v, es.lookup e.1 = some v ∧ Q e.2 v = true) := by
  obtain ⟨r, hs, hrun, hlen, hall, _⟩ :=
    elemsMap_spec (elemBodyOf rec info msg se obj0 ety oty) Q elems [] st.diags st.hooks hb hnd (by simp [List.lookup])
  refine ⟨r, hs, ?_, by simpa using hlen, hall⟩
  unfold listOrMapBody
  simp only [hrep, Bool.false_eq_true, if_false, hoty, curIsElemKind, reuseMap]
  simp [hrun]
  cases elems <;> simp

/-- element body of primitive lists / maps -/
theorem primElem_spec (info : FieldInfo) (k : PrimK) (obj0 : GoVal) (elems : List GoVal)
    (hk : vkindOf info.tf.elemValueType = .prim k) (hnp : info.isPlaceholder = false)
    (hnil : ¬ (info.parentIsOptionalEmbed = true ∧ parentIsNil info obj0 = true))
    (ht : ∀ e ∈ elems, PrimTyped info e) :
    BodySpec (primElemBody info obj0 (some (.prim k))) (fun e v => primRenders info e v) elems := by
  intro a ha diags hooks
  obtain ⟨v, hrun, hr⟩ := primBody_fresh_renders info k obj0 a hk hnp hnil (ht a ha)
  exact ⟨v, [], by simp [primElemBody, hrun], hr⟩

end PGT

namespace PGT
open PGT.Spec

theorem not_nil_of_reachable (info : FieldInfo) (obj : GoVal) (h : Reachable info obj) :
    ¬ (info.parentIsOptionalEmbed = true ∧ parentIsNil info obj = true) := by
  intro ⟨hp, hn⟩
  have := (h hp).1
  rw [this] at hn
  cases hn

mutual

/-- one field block: on an object that does not hold the attribute yet, the block stores a value that renders the
field, appends no diagnostic, and touches no other attribute -/
theorem toField_renders : ∀ (f : Field) (obj : GoVal) (atys : List (String × TfTy)) (st : ToSt) (ty : TfTy),
    atys.lookup f.info.nameSnake = some ty → ToOK f obj ty → st.attrs.lookup f.info.nameSnake = none →
    ∃ v hs, copyToField f obj (some atys) st =
        .ok { attrs := setKey f.info.nameSnake v st.attrs, diags := st.diags, hooks := st.hooks ++ hs } ∧
      rendersVal f obj v = true
  | ⟨info, mapVal, msg, sub⟩, obj, atys, st, ty, hty, hok, hcur => by
    simp only at hty hcur
    unfold ToOK at hok
    unfold copyToField copyToFieldWith
    simp only [Option.getD, hty, hcur]
    cases hkind : info.kind with
    | primitive =>
      simp only [hkind] at hok
      obtain ⟨⟨k, hk, rfl⟩, hcases⟩ := hok
      rcases hcases with hph | ⟨hpe, hpn, hoo⟩ | ⟨hreach, htyped⟩
      · -- placeholder
        refine ⟨.prim k false true k.zeroSc, [], ?_, ?_⟩
        · simp [primBody, primFresh, hk, nullOfTy, hph, assignPrim, ToSt.set]
        · simp [rendersVal, hkind, hph, isNull, noUnknownFlat]
      · -- child of a nil embedded message
        have hsh := shadow_id info obj hoo
        by_cases hph : info.isPlaceholder = true
        · refine ⟨.prim k false true k.zeroSc, [], ?_, ?_⟩
          · simp [primBody, primFresh, hk, nullOfTy, hph, assignPrim, ToSt.set]
          · simp [rendersVal, hkind, hph, isNull, noUnknownFlat]
        · have hph' : info.isPlaceholder = false := by simpa using hph
          refine ⟨.prim k false true k.zeroSc, [], ?_, ?_⟩
          · rw [hsh]
            unfold primBody
            simp only [hk, primFresh, nullOfTy, hph', hpe, hpn]
            by_cases hzv : (info.tf.zeroValue != "") = true
            · simp [hzv, assignPrim, hph', hpe, hpn, ToSt.set]
            · simp [hzv, assignPrim, hph', hpe, hpn, ToSt.set]
          · simp [rendersVal, hkind, hph', hpe, hpn, isNull, noUnknownFlat]
      · by_cases hph : info.isPlaceholder = true
        · refine ⟨.prim k false true k.zeroSc, [], ?_, ?_⟩
          · simp [primBody, primFresh, hk, nullOfTy, hph, assignPrim, ToSt.set]
          · simp [rendersVal, hkind, hph, isNull, noUnknownFlat]
        · have hph' : info.isPlaceholder = false := by simpa using hph
          have hne : info.parentIsOptionalEmbed = false ∨ info.oneOfName = "" := by
            by_cases hp : info.parentIsOptionalEmbed = true
            · exact Or.inr (hreach hp).2.1
            · exact Or.inl (by simpa using hp)
          have hrd := readField_getVal info obj hreach hne
          have hnil0 := not_nil_of_reachable info obj hreach
          -- the shadow only matters for oneof branches, which are not embedded children
          have hnil : ¬ (info.parentIsOptionalEmbed = true ∧ parentIsNil info (oneOfShadow info obj) = true) := by
            intro ⟨hp, hn⟩
            have hoo := (hreach hp).2.1
            rw [shadow_id info obj hoo] at hn
            exact hnil0 ⟨hp, hn⟩
          obtain ⟨v, hrun, hr⟩ := primBody_fresh_renders info k (oneOfShadow info obj) (getVal info obj) hk hph' hnil htyped
          refine ⟨v, [], ?_, ?_⟩
          · rw [hrd, hrun]; simp [ToSt.set]
          · have hnn : (info.parentIsOptionalEmbed && parentIsNil info obj) = false := by
              cases h1 : info.parentIsOptionalEmbed <;> cases h2 : parentIsNil info obj <;> simp_all
            simp [rendersVal, hkind, hph', hnn, hr]
    | custom =>
      simp only [hkind] at hok
      obtain ⟨hoo, hreach, v, hv⟩ := hok
      have hrd := readField_getVal info obj hreach (Or.inr hoo)
      rw [shadow_id info obj hoo] at hrd
      refine ⟨v, [.copyTo ("CopyTo" ++ info.suffix) (getVal info obj) (some ty) .nilv], ?_, ?_⟩
      · simp [hrd, hv, ToSt.set, hcur]
      · simp [rendersVal, hkind]
    | object =>
      simp only [hkind] at hok
      obtain ⟨hreach, as, rfl, hsub, hE, htyped⟩ := hok
      have hne : info.parentIsOptionalEmbed = false ∨ info.oneOfName = "" := by
        by_cases hp : info.parentIsOptionalEmbed = true
        · exact Or.inr (hreach hp).2.1
        · exact Or.inl (by simpa using hp)
      have hrd := readField_getVal info obj hreach hne
      have hse : sub.isEmpty = false := by cases sub <;> simp_all
      have hrec : RecSpec (fun o a s => copyToFields sub o a s) (some as) (fun s => ToOKs sub s as)
          (fun o as' => rendersFields sub o as') := by
        intro s diags hooks hP
        obtain ⟨st', hrun, hd, ⟨hs, hh⟩, hr, _⟩ :=
          toFields_renders sub s as { attrs := [], diags := diags, hooks := hooks } hP (by intro f _; simp [List.lookup])
        refine ⟨st'.attrs, hs, ?_, hr⟩
        show copyToFields sub s (some as) _ = _
        rw [hrun]
        cases st'
        simp_all
      obtain ⟨v, hs, hrun, hr⟩ :=
        objBody_fresh (fun o a s => copyToFields sub o a s) info msg (some as) (getVal info obj) st.diags st.hooks
          (fun s => ToOKs sub s as) (fun o as' => rendersFields sub o as') hrec hE htyped
      refine ⟨v, hs, ?_, ?_⟩
      · dsimp only
        rw [hrd, hse, hrun]
      · simp only [rendersVal, hkind]
        exact hr
    | primitiveList =>
      simp only [hkind] at hok
      obtain ⟨hrep, hoo, hnp, hreach, k, hk, rfl, hval⟩ := hok
      have hrd := readField_getVal info obj hreach (Or.inr hoo)
      rw [shadow_id info obj hoo] at hrd
      simp only [hrep, if_true]
      rw [hrd]
      rcases hval with hnil | ⟨es, hes, htyped⟩
      · rw [hnil]
        refine ⟨.list false true (some []) (some (.prim k)), [], ?_, ?_⟩
        · simp [listOrMapBody, hrep, reuseList, ToSt.set]
        · simp [rendersVal, hkind, hnil, sliceElems]
      · rw [hes]
        have hoty : elemObjTy (info.kind == .objectList || info.kind == .objectMap) (some (.prim k)) = .ok none := by
          simp [elemObjTy, hkind]
        have hbody : elemBodyOf (fun o a s => copyToFields sub o a s) info msg sub.isEmpty obj (some (.prim k)) none =
            primElemBody info obj (some (.prim k)) := by simp [elemBodyOf, hkind]
        have hb := primElem_spec info k obj es hk hnp (not_nil_of_reachable info obj hreach) htyped
        rw [← hbody] at hb
        obtain ⟨r, hs, hrun, hlen, hall⟩ :=
          listBody_fresh (fun o a s => copyToFields sub o a s) info msg sub.isEmpty obj (some (.prim k)) es st none
            (fun e v => primRenders info e v) hrep hoty hb
        refine ⟨_, hs, hrun, ?_⟩
        simp [rendersVal, hkind, hes, sliceElems, hlen, hall]
    | primitiveMap =>
      simp only [hkind] at hok
      obtain ⟨hrep, hoo, hnp, hreach, hzv, k, hk, rfl, hval⟩ := hok
      have hrd := readField_getVal info obj hreach (Or.inr hoo)
      rw [shadow_id info obj hoo] at hrd
      simp only [hrep, Bool.false_eq_true, if_false]
      rw [hrd]
      rcases hval with hnil | ⟨es, hes, hnd, htyped⟩
      · rw [hnil]
        refine ⟨.map false true (some []) (some (.prim k)), [], ?_, ?_⟩
        · simp [listOrMapBody, hrep, reuseMap, ToSt.set]
        · simp [rendersVal, hkind, hnil, mapElems]
      · rw [hes]
        have hoty : elemObjTy (info.kind == .objectList || info.kind == .objectMap) (some (.prim k)) = .ok none := by
          simp [elemObjTy, hkind]
        have hbody : elemBodyOf (fun o a s => copyToFields sub o a s) info msg sub.isEmpty obj (some (.prim k)) none =
            primElemBody info obj (some (.prim k)) := by simp [elemBodyOf, hkind]
        have hb := primElem_spec info k obj (es.map (·.2)) hk hnp (not_nil_of_reachable info obj hreach)
          (by intro e he; simp at he; obtain ⟨a, ha⟩ := he; exact htyped _ ha)
        rw [← hbody] at hb
        obtain ⟨r, hs, hrun, hlen, hall⟩ :=
          mapBody_fresh (fun o a s => copyToFields sub o a s) info msg sub.isEmpty obj (some (.prim k)) es st none
            (fun e v => primRenders info e v) hrep hoty hnd hb
        refine ⟨_, hs, hrun, ?_⟩
        simp only [rendersVal, hkind, hes, mapElems, Option.getD]
        simp [hlen]
        intro a b hab
        obtain ⟨v, hv, hq⟩ := hall (a, b) hab
        simp [hv, hq]
    | objectList =>
      simp only [hkind] at hok
      obtain ⟨hrep, hoo, hreach, _, as, rfl, hsub, hne, hval⟩ := hok
      have hrd := readField_getVal info obj hreach (Or.inr hoo)
      rw [shadow_id info obj hoo] at hrd
      have hse : sub.isEmpty = false := by cases sub <;> simp_all
      simp only [hrep, if_true]
      rw [hrd]
      rcases hval with hnil | ⟨es, hes, htyped⟩
      · rw [hnil]
        refine ⟨.list false true (some []) (some (.obj (some as))), [], ?_, ?_⟩
        · simp [listOrMapBody, hrep, reuseList, ToSt.set]
        · simp [rendersVal, hkind, hnil, sliceElems]
      · rw [hes]
        have hoty : elemObjTy (info.kind == .objectList || info.kind == .objectMap) (some (.obj (some as))) = .ok (some as) := by
          simp [elemObjTy, hkind]
        have hrec : RecSpec (fun o a s => copyToFields sub o a s) (some as) (fun s => ToOKs sub s as)
            (fun o as' => rendersFields sub o as') := by
          intro s diags hooks hP
          obtain ⟨st', hrun, hd, ⟨hs, hh⟩, hr, _⟩ :=
            toFields_renders sub s as { attrs := [], diags := diags, hooks := hooks } hP (by intro f _; simp [List.lookup])
          refine ⟨st'.attrs, hs, ?_, hr⟩
          show copyToFields sub s (some as) _ = _
          rw [hrun]
          cases st'
          simp_all
        have hb : BodySpec (elemBodyOf (fun o a s => copyToFields sub o a s) info msg sub.isEmpty obj (some (.obj (some as))) (some as))
            (fun e v => objRenders info.isNullable (fun o as' => rendersFields sub o as') e v) es := by
          intro a ha diags hooks
          have hE : isEmptyMsg msg = true → ∀ fs, a = .ptr (some (.struct fs)) ∨ a = .struct fs → fs = [] := by
            intro h; rw [hne] at h; cases h
          obtain ⟨v, hs, hrun, hr⟩ := objBody_fresh (fun o a s => copyToFields sub o a s) info msg (some as) a diags hooks
            (fun s => ToOKs sub s as) (fun o as' => rendersFields sub o as') hrec hE (htyped a ha)
          refine ⟨v, hs, ?_, hr⟩
          simp only [elemBodyOf, hkind, hse]
          simpa using hrun
        obtain ⟨r, hs, hrun, hlen, hall⟩ :=
          listBody_fresh (fun o a s => copyToFields sub o a s) info msg sub.isEmpty obj (some (.obj (some as))) es st (some as)
            _ hrep hoty hb
        refine ⟨_, hs, hrun, ?_⟩
        simp [rendersVal, hkind, hes, sliceElems, hlen, hall]
    | objectMap =>
      simp only [hkind] at hok
      obtain ⟨hrep, hoo, hreach, _, as, rfl, hsub, hne, hval⟩ := hok
      have hrd := readField_getVal info obj hreach (Or.inr hoo)
      rw [shadow_id info obj hoo] at hrd
      have hse : sub.isEmpty = false := by cases sub <;> simp_all
      simp only [hrep, Bool.false_eq_true, if_false]
      rw [hrd]
      rcases hval with hnil | ⟨es, hes, hnd, htyped⟩
      · rw [hnil]
        refine ⟨.map false true (some []) (some (.obj (some as))), [], ?_, ?_⟩
        · simp [listOrMapBody, hrep, reuseMap, ToSt.set]
        · simp [rendersVal, hkind, hnil, mapElems]
      · rw [hes]
        have hoty : elemObjTy (info.kind == .objectList || info.kind == .objectMap) (some (.obj (some as))) = .ok (some as) := by
          simp [elemObjTy, hkind]
        have hrec : RecSpec (fun o a s => copyToFields sub o a s) (some as) (fun s => ToOKs sub s as)
            (fun o as' => rendersFields sub o as') := by
          intro s diags hooks hP
          obtain ⟨st', hrun, hd, ⟨hs, hh⟩, hr, _⟩ :=
            toFields_renders sub s as { attrs := [], diags := diags, hooks := hooks } hP (by intro f _; simp [List.lookup])
          refine ⟨st'.attrs, hs, ?_, hr⟩
          show copyToFields sub s (some as) _ = _
          rw [hrun]
          cases st'
          simp_all
        have hb : BodySpec (elemBodyOf (fun o a s => copyToFields sub o a s) info msg sub.isEmpty obj (some (.obj (some as))) (some as))
            (fun e v => objRenders info.isNullable (fun o as' => rendersFields sub o as') e v) (es.map (·.2)) := by
          intro a ha diags hooks
          simp at ha
          obtain ⟨key, hka⟩ := ha
          have hE : isEmptyMsg msg = true → ∀ fs, a = .ptr (some (.struct fs)) ∨ a = .struct fs → fs = [] := by
            intro h; rw [hne] at h; cases h
          obtain ⟨v, hs, hrun, hr⟩ := objBody_fresh (fun o a s => copyToFields sub o a s) info msg (some as) a diags hooks
            (fun s => ToOKs sub s as) (fun o as' => rendersFields sub o as') hrec hE (htyped _ hka)
          refine ⟨v, hs, ?_, hr⟩
          simp only [elemBodyOf, hkind, hse]
          simpa using hrun
        obtain ⟨r, hs, hrun, hlen, hall⟩ :=
          mapBody_fresh (fun o a s => copyToFields sub o a s) info msg sub.isEmpty obj (some (.obj (some as))) es st (some as)
            _ hrep hoty hnd hb
        refine ⟨_, hs, hrun, ?_⟩
        simp only [rendersVal, hkind, hes, mapElems, Option.getD]
        simp [hlen]
        intro a b hab
        obtain ⟨v, hv, hq⟩ := hall (a, b) hab
        simp [hv, hq]

theorem toFields_renders : ∀ (fs : List Field) (obj : GoVal) (atys : List (String × TfTy)) (st : ToSt),
    ToOKs fs obj atys → (∀ f ∈ fs, st.attrs.lookup f.info.nameSnake = none) →
    ∃ st', copyToFields fs obj (some atys) st = .ok st' ∧ st'.diags = st.diags ∧ (∃ hs, st'.hooks = st.hooks ++ hs) ∧
      rendersFields fs obj st'.attrs = true ∧
      (∀ key, key ∉ fs.map (·.info.nameSnake) → st'.attrs.lookup key = st.attrs.lookup key)
  | [], obj, atys, st, _, _ => ⟨st, by simp [copyToFields], rfl, ⟨[], by simp⟩, by simp [rendersFields], by simp⟩
  | f :: rest, obj, atys, st, hok, hnone => by
    unfold ToOKs at hok
    obtain ⟨⟨ty, hty, hf⟩, hnotin, hrest⟩ := hok
    obtain ⟨v, hs1, hstep, hr⟩ := toField_renders f obj atys st ty hty hf (hnone f (by simp))
    have hnone1 : ∀ g ∈ rest, (setKey f.info.nameSnake v st.attrs).lookup g.info.nameSnake = none := by
      intro g hg
      have hne : g.info.nameSnake ≠ f.info.nameSnake := by
        intro e
        exact hnotin (by rw [← e]; exact List.mem_map_of_mem hg)
      rw [lookup_setKey_other _ _ _ hne]
      exact hnone g (by simp [hg])
    obtain ⟨st', hrun, hd, ⟨hs2, hh⟩, hrr, hframe⟩ :=
      toFields_renders rest obj atys { attrs := setKey f.info.nameSnake v st.attrs, diags := st.diags, hooks := st.hooks ++ hs1 }
        hrest hnone1
    refine ⟨st', ?_, hd, ⟨hs1 ++ hs2, by simp [hh]⟩, ?_, ?_⟩
    · simp only [copyToFields, hstep]
      exact hrun
    · simp only [rendersFields]
      have : st'.attrs.lookup f.info.nameSnake = some v := by
        rw [hframe _ hnotin]
        exact lookup_setKey_same _ _ _
      simp [this, hr, hrr]
    · intro key hkey
      simp at hkey
      rw [hframe key (by simpa using hkey.2)]
      exact lookup_setKey_other _ _ _ hkey.1 _

end

end PGT
