import PGT.Proofs.FromUniform
import PGT.Proofs.FromOneof
import PGT.Proofs.OrderIndepEmbed
import PGT.Proofs.OrderIndepSiblings
import PGT.Proofs.FromFrame

/-
C05 for EVERY message: the result of `Copy<T>FromTerraform` is determined by the Terraform value alone – also for oneof
branches and for children of nullable embedded messages (FromUniform.lean / `C05_uniform` exclude both).

Method.  Every field block is ONE action performed on every struct target, or it fails on every struct target
(`block_uniform`, from `blockF_nf`, `block_psem`, `fieldWith_uf_prim_branch'` of the OrderIndep files): per Go field of the
target it keeps the content, assigns a fixed value, or acts on the pointer to a nullable embedded message (`newParent`:
assignments behind an allocated parent; a nil parent is allocated first, or the block does nothing).  Two runs on two
priors are followed side by side with an invariant that does not depend on how far the runs are (`PInv`); blocks that
assign are recognised by running them on a probe target (`desc_writes`).

Main results
  `copyFrom_prior_independent_all`   any two priors: the calls succeed together; same diagnostics, same hook calls;
                                     `PriorIndepRes`: holders of the listed groups equal; every Go field that is no parent
                                     pointer equal or left alone by both runs – equal whenever a block assigns it; behind a
                                     parent pointer field by field equal up to "absent ≡ reset value" or left alone – in the
                                     normal form whenever the child's block assigns; literally when the parent is allocated
                                     in both priors or in none; the parent pointer itself when it is nil in both; frame.
  `children_literal_of_nil_priors`   literal prior-independence below a parent that is nil in both priors
  `copyFrom_prior_independent_nfEq`  equal in `Spec.nfEqFields` when every field is covered by the object (`Covered`)
  `buildMessage_groupsListed`        Build lists the group of every branch among the message's own fields
  `holders_of_groupsListed`          hence the final holder of each such group is prior-independent
Refuted (kept as `def … _full : Prop` with a proof of the negation)
  `literal_if_child_known_full`, `literal_children_full`   literal prior-independence of the children fails when the parent
        is nil in one prior and allocated in the other – all children null (`literal_fails_all_null`), but ALSO with a known
        child, if a null sibling comes first in the field order (`literal_fails_known_after_null`: nil slice vs empty slice)
  `same_success_full`                without `shapeOKb` the calls need not succeed together (`same_success_false`)
Witnesses / non-vacuity (all by `decide`): `ex_evaluated_*`, `ex_hyps`, `ex_applies`, `missing_attribute_keeps_prior`,
  `unlisted_group_keeps_prior`.
-/
set_option linter.unusedSimpArgs false
set_option linter.unusedVariables false
namespace PGT
namespace PriorIndep
open OrderIndep Spec

-- ------------------------------------------------------------------------------------------------------
-- 1. assignments, field by field

/-- the last assignment to `k` in a list of assignments -/
def lastW : List (String × GoVal) → String → Option GoVal
  | [], _ => none
  | w :: ws, k =>
    match lastW ws k with
    | some v => some v
    | none => if w.1 = k then some w.2 else none

/-- what a block does to the content of ONE Go field of a struct target -/
inductive KAct
  | keep
  | set (v : GoVal)
  | par (al : Bool) (ws : List (String × GoVal))

def KAct.app : KAct → Option GoVal → Option GoVal
  | .keep, x => x
  | .set v, _ => some v
  | .par al ws, x => newParent al ws x

def actOfWrites (ws : List (String × GoVal)) (k : String) : KAct :=
  match lastW ws k with
  | some v => .set v
  | none => .keep

theorem lastW_mem : ∀ (ws : List (String × GoVal)) (k : String) (v : GoVal), lastW ws k = some v → (k, v) ∈ ws
  | [], _, _, h => by simp [lastW] at h
  | w :: ws, k, v, h => by
    simp only [lastW] at h
    cases hl : lastW ws k with
    | some v' =>
      rw [hl] at h
      injection h with h
      subst h
      exact List.mem_cons_of_mem _ (lastW_mem ws k v' hl)
    | none =>
      rw [hl] at h
      simp only at h
      split at h
      · rename_i e
        injection h with h
        subst h
        subst e
        simp
      · cases h

theorem lastW_none : ∀ (ws : List (String × GoVal)) (k : String), lastW ws k = none → k ∉ ws.map (·.1)
  | [], _, _ => by simp
  | w :: ws, k, h => by
    simp only [lastW] at h
    cases hl : lastW ws k with
    | some v' => rw [hl] at h; cases h
    | none =>
      rw [hl] at h
      simp only at h
      split at h
      · cases h
      · rename_i hne
        simp only [List.map_cons, List.mem_cons, not_or]
        exact ⟨fun e => hne e.symm, lastW_none ws k hl⟩

theorem field?_applyWrites : ∀ (ws : List (String × GoVal)) (o : GoVal), IsStruct o → ∀ k,
    (applyWrites ws o).field? k = (actOfWrites ws k).app (o.field? k)
  | [], o, _, k => rfl
  | w :: ws, o, hs, k => by
    have ih := field?_applyWrites ws (o.setField w.1 w.2) (isStruct_setField _ _ _ hs) k
    simp only [applyWrites, List.foldl] at ih ⊢
    rw [ih]
    simp only [actOfWrites, lastW]
    cases hl : lastW ws k with
    | some v => rfl
    | none =>
      by_cases e : w.1 = k
      · subst e
        simp only [if_true, KAct.app]
        exact field?_setField_same _ _ _ hs
      · simp only [e, if_false, KAct.app]
        exact field?_setField_other' _ _ _ _ (fun e' => e e'.symm)

theorem actOfWrites_set (ws : List (String × GoVal)) (k : String) (v : GoVal) (h : actOfWrites ws k = .set v) :
    (k, v) ∈ ws := by
  unfold actOfWrites at h
  split at h
  · rename_i v' hl
    injection h with h
    subst h
    exact lastW_mem ws k v' hl
  · cases h

theorem actOfWrites_ne_par (ws : List (String × GoVal)) (k : String) (al : Bool) (us : List (String × GoVal)) :
    actOfWrites ws k ≠ .par al us := by
  unfold actOfWrites
  split <;> intro h <;> cases h

/-- all assignments go to `n`, and there is one: the last one decides -/
theorem lastW_of_keys : ∀ (ws : List (String × GoVal)) (n : String), ws ≠ [] → (∀ w ∈ ws, w.1 = n) →
    ∃ v, lastW ws n = some v ∧ ∃ w ∈ ws, w.2 = v
  | [], _, h, _ => absurd rfl h
  | w :: ws, n, _, hk => by
    simp only [lastW]
    cases hl : lastW ws n with
    | some v =>
      obtain hm := lastW_mem ws n v hl
      exact ⟨v, rfl, (n, v), List.mem_cons_of_mem _ hm, rfl⟩
    | none =>
      have e : w.1 = n := hk w (by simp)
      simp only [e, if_true]
      exact ⟨w.2, rfl, w, by simp, rfl⟩

-- ------------------------------------------------------------------------------------------------------
-- 2. the struct behind a parent pointer

/-- field `n` of the struct behind the content `x` of a parent pointer (`cfield` of RoundTripEmbed.lean) -/
def innerF (x : Option GoVal) (n : String) : Option GoVal :=
  match x with
  | some (.ptr (some s)) => s.field? n
  | _ => none

def Alloc (x : Option GoVal) : Prop := ∃ s, x = some (.ptr (some s))

/-- an allocated parent points to a struct -/
def WFx (x : Option GoVal) : Prop := ∀ s, x = some (.ptr (some s)) → IsStruct s

theorem cfield_eq_innerF (P n : String) (o : GoVal) : cfield P n o = innerF (o.field? P) n := by
  unfold cfield innerF
  split <;> simp_all

theorem innerF_alloc (s : GoVal) (n : String) : innerF (some (.ptr (some s))) n = s.field? n := rfl

theorem innerF_unalloc (x : Option GoVal) (n : String) (h : ¬ Alloc x) : innerF x n = none := by
  unfold innerF
  split
  · rename_i s
    exact absurd ⟨s, rfl⟩ h
  · rfl

theorem newParent_unalloc' (al : Bool) (ws : List (String × GoVal)) (x : Option GoVal) (h : ¬ Alloc x) :
    newParent al ws x = if al then some (.ptr (some (applyWrites ws (.struct [])))) else x :=
  newParent_unalloc al ws x (fun s e => h ⟨s, e⟩)

theorem innerF_newParent_other (al : Bool) (ws : List (String × GoVal)) (x : Option GoVal) (m : String)
    (hm : m ∉ ws.map (·.1)) : innerF (newParent al ws x) m = innerF x m := by
  by_cases ha : Alloc x
  · obtain ⟨s, rfl⟩ := ha
    rw [newParent_alloc, innerF_alloc, innerF_alloc]
    exact applyWrites_other ws s m hm
  · rw [newParent_unalloc' al ws x ha]
    cases al
    · simp
    · simp only [if_true, innerF_alloc, innerF_unalloc x m ha]
      rw [applyWrites_other ws _ m hm]
      rfl

theorem innerF_newParent_same (al : Bool) (ws : List (String × GoVal)) (x : Option GoVal) (n : String) (v : GoVal)
    (hwf : WFx x) (hl : lastW ws n = some v) (h : Alloc x ∨ al = true) : innerF (newParent al ws x) n = some v := by
  have key : ∀ s, IsStruct s → (applyWrites ws s).field? n = some v := by
    intro s hs
    rw [field?_applyWrites ws s hs n]
    simp [actOfWrites, hl, KAct.app]
  by_cases ha : Alloc x
  · obtain ⟨s, rfl⟩ := ha
    rw [newParent_alloc, innerF_alloc]
    exact key s (hwf s rfl)
  · rcases h with h | h
    · exact absurd h ha
    · rw [newParent_unalloc' al ws x ha, h]
      simp only [if_true, innerF_alloc]
      exact key _ trivial

theorem wfx_newParent (al : Bool) (ws : List (String × GoVal)) (x : Option GoVal) (h : WFx x) : WFx (newParent al ws x) := by
  by_cases ha : Alloc x
  · obtain ⟨s, rfl⟩ := ha
    intro s' e
    rw [newParent_alloc] at e
    injection e with e
    injection e with e
    injection e with e
    subst e
    exact isStruct_applyWrites ws s (h s rfl)
  · rw [newParent_unalloc' al ws x ha]
    cases al
    · simpa using h
    · intro s' e
      simp only [if_true] at e
      injection e with e
      injection e with e
      injection e with e
      subst e
      exact isStruct_applyWrites ws _ trivial

theorem alloc_newParent (al : Bool) (ws : List (String × GoVal)) (x : Option GoVal) :
    Alloc (newParent al ws x) ↔ (Alloc x ∨ al = true) := by
  by_cases ha : Alloc x
  · obtain ⟨s, rfl⟩ := ha
    rw [newParent_alloc]
    exact ⟨fun _ => Or.inl ⟨s, rfl⟩, fun _ => ⟨_, rfl⟩⟩
  · rw [newParent_unalloc' al ws x ha]
    cases al
    · simp [ha]
    · simp only [if_true, or_true, iff_true]
      exact ⟨_, rfl⟩

-- ------------------------------------------------------------------------------------------------------
-- 3. every block, uniformly in the struct target

/-- the description of one block (or of a sequence of blocks): what happens to every Go field, the diagnostics, the hook calls -/
structure BDesc where
  act : String → KAct
  d : List Diag
  h : List HookCall

/-- the run `r` of a block on the struct target `o` is the one described by `a` -/
def BRes (a : BDesc) (o : GoVal) (r : Outcome FromSt) : Prop :=
  ∃ t, r = .ok t ∧ IsStruct t.obj ∧ t.diags = a.d ∧ t.hooks = a.h ∧ ∀ k, t.obj.field? k = (a.act k).app (o.field? k)

/-- what the block of the field `info` may do to the Go fields of the target: plain assignments go to `wk info` (the field
itself, or the holder of its oneof group – for a child of a nullable embedded message only the holder); the action on a
parent pointer is that of a child `info.name` of `info.parentIsOptionalEmbedFieldName`; an action that does not allocate
a nil parent writes reset values (`Zr`) only -/
structure ActOK (Zr : String → String → GoVal → Prop) (info : FieldInfo) (act : String → KAct) : Prop where
  set : ∀ k v, act k = .set v → k = wk info ∧ (info.parentIsOptionalEmbed = true → IsBranch info)
  par : ∀ k al ws, act k = .par al ws → info.parentIsOptionalEmbed = true ∧ k = info.parentIsOptionalEmbedFieldName ∧
    (∀ w ∈ ws, w.1 = info.name) ∧ (al = false → ∀ w ∈ ws, Zr k info.name w.2)

/-- **a block is one action, performed on every struct target – or it fails on every struct target** -/
def BlockU (Zr : String → String → GoVal → Prop) (ov : List (String × String)) (f : Field)
    (attrs : Option (List (String × TfVal))) : Prop :=
  (∃ a : BDesc, ActOK Zr f.info a.act ∧ ∀ o, IsStruct o → BRes a o (blockF ov f attrs { obj := o, diags := [], hooks := [] })) ∨
  (∀ o, IsStruct o → ∀ t, blockF ov f attrs { obj := o, diags := [], hooks := [] } ≠ .ok t)

/-- the hypothesis on a child of a nullable embedded message (`Fits`: a null / unknown attribute that passes the type
assertion of the block has the constructor of the field's kind – `ShapeOK` gives it for all values; the holder of a
message branch is not the parent pointer) -/
def FieldOK (attrs : Option (List (String × TfVal))) (info : FieldInfo) : Prop :=
  info.parentIsOptionalEmbed = true → Fits attrs info ∧ (IsBranch info → info.oneOfName ≠ info.parentIsOptionalEmbedFieldName)

theorem bres_of_writes (ws : List (String × GoVal)) (d : List Diag) (h : List HookCall) (o : GoVal) (hs : IsStruct o) :
    BRes ⟨actOfWrites ws, d, h⟩ o (.ok { obj := applyWrites ws o, diags := d, hooks := h }) :=
  ⟨_, rfl, isStruct_applyWrites ws o hs, rfl, rfl, fun k => field?_applyWrites ws o hs k⟩

theorem actOK_of_writes (Zr : String → String → GoVal → Prop) (info : FieldInfo) (ws : List (String × GoVal))
    (hk : ∀ w ∈ ws, w.1 = wk info) (hb : info.parentIsOptionalEmbed = true → IsBranch info) :
    ActOK Zr info (actOfWrites ws) where
  set := fun k v e => ⟨(hk _ (actOfWrites_set ws k v e)).symm ▸ rfl, hb⟩
  par := fun k al us e => absurd e (actOfWrites_ne_par ws k al us)

theorem block_uniform (Zr : String → String → GoVal → Prop) (ov : List (String × String)) (f : Field)
    (attrs : Option (List (String × TfVal))) (hok : FieldOK attrs f.info)
    (hZ : f.info.parentIsOptionalEmbed = true → f.info.kind ≠ .custom →
      Zr f.info.parentIsOptionalEmbedFieldName f.info.name (zeroWrite f.info)) :
    BlockU Zr ov f attrs := by
  by_cases he : f.info.parentIsOptionalEmbed = true
  · by_cases hsb : f.info.oneOfName ≠ "" ∧ f.info.kind = .primitive
    · -- scalar branch of a oneof: the block never looks at the parent pointer
      obtain ⟨info, mv, msg, sub⟩ := f
      simp only at he hsb
      by_cases hph : info.isPlaceholder = true
      · left
        refine ⟨⟨fun _ => .keep, [], []⟩, ⟨fun _ _ e => (by cases e), fun _ _ _ e => (by cases e)⟩, fun o hs => ?_⟩
        exact ⟨⟨o, [], []⟩, by simp [blockF, hph], hs, rfl, rfl, fun _ => rfl⟩
      · have hph' : info.isPlaceholder = false := by simpa using hph
        have hbr : IsBranch info := ⟨hsb.1, Or.inl hsb.2⟩
        have hwk : wk info = info.oneOfName := by simp [wk, hbr]
        rcases fieldWith_uf_prim_branch' (recOf ov msg sub) ov info mv msg attrs [] [] hsb.2 hsb.1 with
          ⟨ws, d, h, hk, hF⟩ | ⟨m, hF⟩ | ⟨m, hF⟩
        · left
          refine ⟨⟨actOfWrites ws, d, h⟩, actOK_of_writes Zr info ws (fun w hw => by rw [hk w hw, hwk]) (fun _ => hbr),
            fun o hs => ?_⟩
          rw [blockF_eq ov info mv msg sub attrs _ hph']
          have := hF o
          simp only at this
          rw [this]
          exact bres_of_writes ws d h o hs
        · right
          intro o hs t
          rw [blockF_eq ov info mv msg sub attrs _ hph']
          have := hF o
          simp only at this
          rw [this]
          intro e; cases e
        · right
          intro o hs t
          rw [blockF_eq ov info mv msg sub attrs _ hph']
          have := hF o
          simp only at this
          rw [this]
          intro e; cases e
    · -- every other child: one action on the parent pointer
      have hg : GoodChild attrs f.info := ⟨⟨he, hsb⟩, (hok he).1, (hok he).2⟩
      obtain ⟨_, hps⟩ := block_psem Zr ov f attrs hg (hZ he)
      rcases hps with ⟨a, hws, htw, hzr, hres⟩ | hfail
      · left
        refine ⟨⟨fun k => if k = f.info.parentIsOptionalEmbedFieldName then .par a.al a.ws else actOfWrites a.tw k, a.d, a.h⟩,
          ⟨?_, ?_⟩, fun o hs => ?_⟩
        · intro k v e
          simp only at e
          split at e
          · cases e
          · have hm := actOfWrites_set a.tw k v e
            have hx := htw _ hm
            simp only [xkeys] at hx
            split at hx
            · rename_i hbk
              simp only [List.mem_singleton] at hx
              exact ⟨by rw [hx]; simp [wk, hbk.1], fun _ => hbk.1⟩
            · simp at hx
        · intro k al ws e
          simp only at e
          split at e
          · rename_i hk
            injection e with e1 e2
            subst e1 e2 hk
            exact ⟨he, rfl, hws, hzr⟩
          · exact absurd e (actOfWrites_ne_par _ _ _ _)
        · obtain ⟨t, e, ht, hd, hh, hp, hoth⟩ := hres o hs
          refine ⟨t, e, ht, hd, hh, fun k => ?_⟩
          simp only
          split
          · rename_i hk
            subst hk
            exact hp
          · rename_i hk
            rw [hoth k hk]
            exact field?_applyWrites a.tw o hs k
      · right
        exact hfail
  · have he' : f.info.parentIsOptionalEmbed = false := by simpa using he
    obtain ⟨a, ha, hrun⟩ := blockF_nf ov f attrs he'
    cases a with
    | ok r =>
      obtain ⟨ws, dx, hx⟩ := r
      left
      refine ⟨⟨actOfWrites ws, dx, hx⟩, actOK_of_writes Zr f.info ws (ha ws dx hx rfl).1 (fun h => by rw [he'] at h; cases h),
        fun o hs => ?_⟩
      rw [hrun]
      simp only [applyFAct, List.nil_append]
      exact bres_of_writes ws dx hx o hs
    | panic w =>
      right
      intro o hs t
      rw [hrun]
      intro e; cases e
    | stuck w =>
      right
      intro o hs t
      rw [hrun]
      intro e; cases e

-- ------------------------------------------------------------------------------------------------------
-- 4. two runs side by side: the invariant

/-- field `n` of the struct behind the parent pointer `P`, in the two runs (`x1`, `x2`: the current contents of the
pointer; `y1`, `y2`: the contents at the start): the two runs agree up to the normal form (an absent field identified with
a reset one), or both still hold what they held at the start -/
def InnerInv (Zr : String → String → GoVal → Prop) (P n : String) (x1 x2 y1 y2 : Option GoVal) : Prop :=
  FieldNf Zr P n (innerF x1 n) (innerF x2 n) ∨ (innerF x1 n = innerF y1 n ∧ innerF x2 n = innerF y2 n)

/-- the same literally, for two runs that started with the parent allocated in both or in none: it is then allocated in
both or in none at any time, and every field behind it holds the same value in both runs or still what it held at the
start -/
def LitInv (x1 x2 y1 y2 : Option GoVal) : Prop :=
  (Alloc y1 ↔ Alloc y2) → (Alloc x1 ↔ Alloc x2) ∧
    ∀ n, innerF x1 n = innerF x2 n ∨ (innerF x1 n = innerF y1 n ∧ innerF x2 n = innerF y2 n)

/-- the targets `c1`, `c2` of two runs that started from `b1`, `b2` -/
structure PInv (Par : String → Prop) (Zr : String → String → GoVal → Prop) (b1 b2 c1 c2 : GoVal) : Prop where
  s1 : IsStruct c1
  s2 : IsStruct c2
  wf1 : ∀ P, Par P → WFx (c1.field? P)
  wf2 : ∀ P, Par P → WFx (c2.field? P)
  plain : ∀ k, ¬ Par k → c1.field? k = c2.field? k ∨ (c1.field? k = b1.field? k ∧ c2.field? k = b2.field? k)
  inner : ∀ P, Par P → ∀ n, InnerInv Zr P n (c1.field? P) (c2.field? P) (b1.field? P) (b2.field? P)
  /-- literally, when the two runs started with the parent allocated in both or in none -/
  lit : ∀ P, Par P → LitInv (c1.field? P) (c2.field? P) (b1.field? P) (b2.field? P)
  /-- the pointer itself, when both runs started with a nil parent -/
  nil : ∀ P, Par P → ¬ Alloc (b1.field? P) → ¬ Alloc (b2.field? P) →
    c1.field? P = c2.field? P ∨ (c1.field? P = b1.field? P ∧ c2.field? P = b2.field? P)

theorem PInv.start (Par : String → Prop) (Zr : String → String → GoVal → Prop) (b1 b2 : GoVal) (h1 : IsStruct b1)
    (h2 : IsStruct b2) (w1 : ∀ P, Par P → WFx (b1.field? P)) (w2 : ∀ P, Par P → WFx (b2.field? P)) : PInv Par Zr b1 b2 b1 b2 :=
  ⟨h1, h2, w1, w2, fun _ _ => Or.inr ⟨rfl, rfl⟩, fun _ _ _ => Or.inr ⟨rfl, rfl⟩,
    fun _ _ h => ⟨h, fun _ => Or.inr ⟨rfl, rfl⟩⟩, fun _ _ _ _ => Or.inr ⟨rfl, rfl⟩⟩

theorem newParent_idle (ws : List (String × GoVal)) (x : Option GoVal) (h : ¬ Alloc x) : newParent false ws x = x := by
  rw [newParent_unalloc' false ws x h]
  simp

theorem innerInv_step (Zr : String → String → GoVal → Prop) (P n : String) (al : Bool) (ws : List (String × GoVal))
    (hk : ∀ w ∈ ws, w.1 = n) (hz : al = false → ∀ w ∈ ws, Zr P n w.2) (x1 x2 y1 y2 : Option GoVal)
    (hw1 : WFx x1) (hw2 : WFx x2) (m : String) (h : InnerInv Zr P m x1 x2 y1 y2) :
    InnerInv Zr P m (newParent al ws x1) (newParent al ws x2) y1 y2 := by
  by_cases hm : m ∈ ws.map (·.1)
  · obtain ⟨w0, hw0, e0⟩ := List.mem_map.mp hm
    have hmn : m = n := by rw [← e0]; exact hk w0 hw0
    subst hmn
    have hne : ws ≠ [] := by intro e; rw [e] at hw0; simp at hw0
    obtain ⟨v, hl, w, hw, hv⟩ := lastW_of_keys ws m hne hk
    by_cases a1 : Alloc x1 ∨ al = true
    · by_cases a2 : Alloc x2 ∨ al = true
      · left
        left
        rw [innerF_newParent_same al ws x1 m v hw1 hl a1, innerF_newParent_same al ws x2 m v hw2 hl a2]
      · have hal : al = false := by cases al <;> simp_all
        have hn2 : ¬ Alloc x2 := fun h => a2 (Or.inl h)
        subst hal
        left
        right
        rw [innerF_newParent_same false ws x1 m v hw1 hl a1, newParent_idle ws x2 hn2, innerF_unalloc x2 m hn2]
        exact ⟨Or.inr ⟨v, rfl, hv ▸ hz rfl w hw⟩, Or.inl rfl⟩
    · have hal : al = false := by cases al <;> simp_all
      have hn1 : ¬ Alloc x1 := fun h => a1 (Or.inl h)
      subst hal
      by_cases a2 : Alloc x2 ∨ false = true
      · left
        right
        rw [innerF_newParent_same false ws x2 m v hw2 hl a2, newParent_idle ws x1 hn1, innerF_unalloc x1 m hn1]
        exact ⟨Or.inl rfl, Or.inr ⟨v, rfl, hv ▸ hz rfl w hw⟩⟩
      · have hn2 : ¬ Alloc x2 := fun h => a2 (Or.inl h)
        rw [newParent_idle ws x1 hn1, newParent_idle ws x2 hn2]
        exact h
  · unfold InnerInv
    rw [innerF_newParent_other al ws x1 m hm, innerF_newParent_other al ws x2 m hm]
    exact h

theorem litInv_step (n : String) (al : Bool) (ws : List (String × GoVal)) (hk : ∀ w ∈ ws, w.1 = n)
    (x1 x2 y1 y2 : Option GoVal) (hw1 : WFx x1) (hw2 : WFx x2) (h : LitInv x1 x2 y1 y2) :
    LitInv (newParent al ws x1) (newParent al ws x2) y1 y2 := by
  intro hy
  obtain ⟨hx, hin⟩ := h hy
  refine ⟨by rw [alloc_newParent, alloc_newParent, hx], fun m => ?_⟩
  by_cases hm : m ∈ ws.map (·.1)
  · obtain ⟨w0, hw0, e0⟩ := List.mem_map.mp hm
    have hmn : m = n := by rw [← e0]; exact hk w0 hw0
    subst hmn
    have hne : ws ≠ [] := by intro e; rw [e] at hw0; simp at hw0
    obtain ⟨v, hl, _⟩ := lastW_of_keys ws m hne hk
    by_cases a1 : Alloc x1 ∨ al = true
    · have a2 : Alloc x2 ∨ al = true := by rw [← hx]; exact a1
      left
      rw [innerF_newParent_same al ws x1 m v hw1 hl a1, innerF_newParent_same al ws x2 m v hw2 hl a2]
    · have hal : al = false := by cases al <;> simp_all
      have hn1 : ¬ Alloc x1 := fun h => a1 (Or.inl h)
      have hn2 : ¬ Alloc x2 := fun h => hn1 (hx.mpr h)
      subst hal
      rw [newParent_idle ws x1 hn1, newParent_idle ws x2 hn2]
      exact hin m
  · rw [innerF_newParent_other al ws x1 m hm, innerF_newParent_other al ws x2 m hm]
    exact hin m

theorem nilInv_step (al : Bool) (ws : List (String × GoVal)) (x1 x2 y1 y2 : Option GoVal) (h1 : ¬ Alloc y1) (h2 : ¬ Alloc y2)
    (h : x1 = x2 ∨ (x1 = y1 ∧ x2 = y2)) :
    newParent al ws x1 = newParent al ws x2 ∨ (newParent al ws x1 = y1 ∧ newParent al ws x2 = y2) := by
  rcases h with h | ⟨e1, e2⟩
  · left; rw [h]
  · subst e1 e2
    cases al
    · right
      exact ⟨newParent_idle ws x1 h1, newParent_idle ws x2 h2⟩
    · left
      rw [newParent_unalloc' true ws x1 h1, newParent_unalloc' true ws x2 h2]
      simp

/-- one block preserves the invariant -/
theorem pinv_step (Par : String → Prop) (Zr : String → String → GoVal → Prop) (info : FieldInfo) (act : String → KAct)
    (hact : ActOK Zr info act)
    (hset : (info.parentIsOptionalEmbed = true → IsBranch info) → ¬ Par (wk info))
    (hpar : info.parentIsOptionalEmbed = true → Par info.parentIsOptionalEmbedFieldName)
    (b1 b2 c1 c2 t1 t2 : GoVal) (h : PInv Par Zr b1 b2 c1 c2) (ht1 : IsStruct t1) (ht2 : IsStruct t2)
    (e1 : ∀ k, t1.field? k = (act k).app (c1.field? k)) (e2 : ∀ k, t2.field? k = (act k).app (c2.field? k)) :
    PInv Par Zr b1 b2 t1 t2 := by
  refine ⟨ht1, ht2, fun k hk => ?_, fun k hk => ?_, fun k hk => ?_, fun k hk n => ?_, fun k hk => ?_, fun k hk n1 n2 => ?_⟩
  · rw [e1 k]
    cases ha : act k with
    | keep => exact h.wf1 k hk
    | set v => exact absurd hk (hset (hact.set k v ha).2 |> fun hn => (hact.set k v ha).1 ▸ hn)
    | par al ws => exact wfx_newParent al ws _ (h.wf1 k hk)
  · rw [e2 k]
    cases ha : act k with
    | keep => exact h.wf2 k hk
    | set v => exact absurd hk (hset (hact.set k v ha).2 |> fun hn => (hact.set k v ha).1 ▸ hn)
    | par al ws => exact wfx_newParent al ws _ (h.wf2 k hk)
  · rw [e1 k, e2 k]
    cases ha : act k with
    | keep => exact h.plain k hk
    | set v => exact Or.inl rfl
    | par al ws =>
      obtain ⟨he, hkp, _, _⟩ := hact.par k al ws ha
      exact absurd (hkp ▸ hpar he) hk
  · rw [e1 k, e2 k]
    cases ha : act k with
    | keep => exact h.inner k hk n
    | set v => exact absurd hk (hset (hact.set k v ha).2 |> fun hn => (hact.set k v ha).1 ▸ hn)
    | par al ws =>
      obtain ⟨he, hkp, hws, hzr⟩ := hact.par k al ws ha
      exact innerInv_step Zr k info.name al ws hws hzr _ _ _ _ (h.wf1 k hk) (h.wf2 k hk) n (h.inner k hk n)
  · rw [e1 k, e2 k]
    cases ha : act k with
    | keep => exact h.lit k hk
    | set v => exact absurd hk (hset (hact.set k v ha).2 |> fun hn => (hact.set k v ha).1 ▸ hn)
    | par al ws =>
      obtain ⟨he, hkp, hws, hzr⟩ := hact.par k al ws ha
      exact litInv_step info.name al ws hws _ _ _ _ (h.wf1 k hk) (h.wf2 k hk) (h.lit k hk)
  · rw [e1 k, e2 k]
    cases ha : act k with
    | keep => exact h.nil k hk n1 n2
    | set v => exact absurd hk (hset (hact.set k v ha).2 |> fun hn => (hact.set k v ha).1 ▸ hn)
    | par al ws => exact nilInv_step al ws _ _ _ _ n1 n2 (h.nil k hk n1 n2)

-- ------------------------------------------------------------------------------------------------------
-- 5. two runs of a field list

/-- both runs succeed – the targets satisfy the invariant, same diagnostics, same hook calls – or both fail -/
def PairOut (Par : String → Prop) (Zr : String → String → GoVal → Prop) (b1 b2 : GoVal) (r1 r2 : Outcome FromSt) : Prop :=
  (∃ t1 t2, r1 = .ok t1 ∧ r2 = .ok t2 ∧ PInv Par Zr b1 b2 t1.obj t2.obj ∧ t1.diags = t2.diags ∧ t1.hooks = t2.hooks) ∨
  ((∀ t, r1 ≠ .ok t) ∧ (∀ t, r2 ≠ .ok t))

/-- what is needed of a field, relative to the set `Par` of parent pointers and the reset values `Zr` -/
structure FieldSide (Par : String → Prop) (Zr : String → String → GoVal → Prop) (attrs : Option (List (String × TfVal)))
    (f : Field) : Prop where
  ok : FieldOK attrs f.info
  zr : f.info.parentIsOptionalEmbed = true → f.info.kind ≠ .custom →
    Zr f.info.parentIsOptionalEmbedFieldName f.info.name (zeroWrite f.info)
  set : (f.info.parentIsOptionalEmbed = true → IsBranch f.info) → ¬ Par (wk f.info)
  par : f.info.parentIsOptionalEmbed = true → Par f.info.parentIsOptionalEmbedFieldName

theorem fields_pair (Par : String → Prop) (Zr : String → String → GoVal → Prop) (ov : List (String × String))
    (attrs : Option (List (String × TfVal))) (b1 b2 : GoVal) :
    ∀ (fs : List Field), (∀ f ∈ fs, FieldSide Par Zr attrs f) → ∀ s1 s2 : FromSt, PInv Par Zr b1 b2 s1.obj s2.obj →
      s1.diags = s2.diags → s1.hooks = s2.hooks →
      PairOut Par Zr b1 b2 (copyFromFields ov fs attrs s1) (copyFromFields ov fs attrs s2)
  | [], _, s1, s2, h, hd, hh => by
    simp only [copyFromFields]
    exact Or.inl ⟨s1, s2, rfl, rfl, h, hd, hh⟩
  | f :: rest, hside, s1, s2, h, hd, hh => by
    have hf := hside f (by simp)
    rw [copyFromFields_cons, copyFromFields_cons, blockF_writer ov f attrs s1, blockF_writer ov f attrs s2]
    rcases block_uniform Zr ov f attrs hf.ok hf.zr with ⟨a, hact, hres⟩ | hfail
    · obtain ⟨t1, e1, ht1, hd1, hh1, hk1⟩ := hres s1.obj h.s1
      obtain ⟨t2, e2, ht2, hd2, hh2, hk2⟩ := hres s2.obj h.s2
      rw [e1, e2]
      simp only [Outcome.mapO, obind]
      apply fields_pair Par Zr ov attrs b1 b2 rest (fun g hg => hside g (by simp [hg]))
      · exact pinv_step Par Zr f.info a.act hact hf.set hf.par b1 b2 s1.obj s2.obj t1.obj t2.obj h ht1 ht2 hk1 hk2
      · show s1.diags ++ t1.diags = s2.diags ++ t2.diags
        rw [hd, hd1, hd2]
      · show s1.hooks ++ t1.hooks = s2.hooks ++ t2.hooks
        rw [hh, hh1, hh2]
    · right
      exact ⟨obind_ne_ok _ _ (mapO_ne_ok _ _ (hfail s1.obj h.s1)), obind_ne_ok _ _ (mapO_ne_ok _ _ (hfail s2.obj h.s2))⟩

-- ------------------------------------------------------------------------------------------------------
-- 6. the side conditions on the IR and on the priors

/-- `ShapeOK` (OrderIndepSiblings.lean) as a Boolean: the Terraform value type the block asserts has the constructor that
goes with the kind of the field -/
def shapeOKb (info : FieldInfo) : Bool :=
  match info.kind with
  | .primitive => match vkindOf info.tf.valueType with | .prim _ => true | _ => false
  | .object => vkindOf info.tf.valueType == .obj
  | .primitiveList | .objectList => vkindOf info.tf.valueType == .list
  | .primitiveMap | .objectMap => vkindOf info.tf.valueType == .map
  | .custom => true

theorem shapeOK_of_b (info : FieldInfo) (h : shapeOKb info = true) : ShapeOK info := by
  unfold shapeOKb at h
  unfold ShapeOK
  cases hk : info.kind <;> simp only [hk] at h ⊢
  · split at h
    · rename_i k hv; exact ⟨k, hv⟩
    · cases h
  · exact eq_of_beq h
  · exact eq_of_beq h
  · exact eq_of_beq h
  · exact eq_of_beq h
  · exact eq_of_beq h

/-- **the side conditions on the IR** (decidable): for every child `c` of a nullable embedded message – the value type its
block asserts fits its kind (`shapeOKb`); the parent pointer is not the holder of one of the message's own oneof groups; and
no block assigns the parent pointer as a plain Go field (`wk f`: the Go name of a field of the message itself, the holder of
a oneof group) -/
def SideOK (m : Msg) : Prop :=
  ∀ c ∈ m.fields, c.info.parentIsOptionalEmbed = true →
    shapeOKb c.info = true ∧ c.info.parentIsOptionalEmbedFieldName ∉ m.info.oneOfNames ∧
    ∀ f ∈ m.fields, (f.info.parentIsOptionalEmbed = true → IsBranch f.info) →
      wk f.info ≠ c.info.parentIsOptionalEmbedFieldName

instance (m : Msg) : Decidable (SideOK m) := by unfold SideOK; infer_instance

/-- the groups of the branches among the message's own fields are listed in `oneOfNames` (Build: `withPromotedOneOfs`) -/
def GroupsListed (m : Msg) : Prop :=
  ∀ f ∈ m.fields, f.info.parentIsOptionalEmbed = false → IsBranch f.info → f.info.oneOfName ∈ m.info.oneOfNames

instance (m : Msg) : Decidable (GroupsListed m) := by unfold GroupsListed; infer_instance

/-- typing of the prior: a parent pointer that is set points to a struct -/
def PriorWF (m : Msg) (p : List (String × GoVal)) : Prop :=
  ∀ c ∈ m.fields, c.info.parentIsOptionalEmbed = true → WFx ((GoVal.struct p).field? c.info.parentIsOptionalEmbedFieldName)

theorem field?_resetOneOfs : ∀ (names : List String) (o : GoVal), IsStruct o → ∀ k,
    (resetOneOfs names o).field? k = if k ∈ names then some (.iface none) else o.field? k
  | [], o, _, k => by simp [resetOneOfs]
  | n :: rest, o, hs, k => by
    have ih := field?_resetOneOfs rest (o.setField n (.iface none)) (isStruct_setField _ _ _ hs) k
    simp only [resetOneOfs, List.foldl] at ih ⊢
    rw [ih]
    by_cases hr : k ∈ rest
    · simp [hr]
    · by_cases e : k = n
      · subst e
        simp [hr, field?_setField_same _ _ _ hs]
      · simp [hr, e, field?_setField_other' _ _ _ _ e]

theorem fieldSide_of_sideOK (m : Msg) (hside : SideOK m) (attrs : Option (List (String × TfVal))) (f : Field)
    (hf : f ∈ m.fields) : FieldSide (EmbedPar m.fields) (ZrOf m.fields) attrs f where
  ok := by
    intro he
    obtain ⟨hsh, _, hk⟩ := hside f hf he
    refine ⟨fits_of_shapeOK attrs f.info (shapeOK_of_b _ hsh), fun hb => ?_⟩
    have := hk f hf (fun _ => hb)
    simpa [wk, hb] using this
  zr := fun he hk => ⟨f, hf, he, hk, rfl, rfl, rfl⟩
  set := by
    rintro hb ⟨c, hc, hce, hcp⟩
    exact (hside c hc hce).2.2 f hf hb hcp.symm
  par := fun he => ⟨f, hf, he, rfl⟩

/-- the field blocks of a message, on two priors -/
theorem copyFromFields_pair (ov : List (String × String)) (m : Msg) (attrs : Option (List (String × TfVal)))
    (hside : SideOK m) (b1 b2 : GoVal) (h1 : IsStruct b1) (h2 : IsStruct b2)
    (w1 : ∀ P, EmbedPar m.fields P → WFx (b1.field? P)) (w2 : ∀ P, EmbedPar m.fields P → WFx (b2.field? P)) :
    PairOut (EmbedPar m.fields) (ZrOf m.fields) b1 b2
      (copyFromFields ov m.fields attrs { obj := b1 }) (copyFromFields ov m.fields attrs { obj := b2 }) :=
  fields_pair _ _ ov attrs b1 b2 m.fields (fun f hf => fieldSide_of_sideOK m hside attrs f hf) _ _
    (PInv.start _ _ b1 b2 h1 h2 w1 w2) rfl rfl

-- ------------------------------------------------------------------------------------------------------
-- 7. which blocks assign

/-- the attribute of the field passes the type assertion of the block (the hook of a custom type takes anything) -/
def Live (attrs : Option (List (String × TfVal))) (info : FieldInfo) : Prop :=
  info.kind = .custom ∨
  ∃ a, (attrs.getD []).lookup info.nameSnake = some a ∧ a.vkind = vkindOf info.tf.valueType ∧ a.vkind ≠ .unknown

/-- the block of the field assigns: it is there (no placeholder), the attribute passes the type assertion, and – for a
oneof branch – the attribute is known and non-null -/
def Writes (attrs : Option (List (String × TfVal))) (info : FieldInfo) : Prop :=
  info.isPlaceholder = false ∧ Live attrs info ∧ (IsBranch info → Known attrs info)

theorem setField_has (o : GoVal) (k : String) (y : GoVal) (hs : IsStruct o) : ∃ v, (o.setField k y).field? k = some v :=
  ⟨y, field?_setField_same _ _ _ hs⟩

theorem setField2_has (o : GoVal) (k : String) (x y : GoVal) (hs : IsStruct o) :
    ∃ v, ((o.setField k x).setField k y).field? k = some v :=
  ⟨y, field?_setField_same _ _ _ (isStruct_setField _ _ _ hs)⟩

set_option hygiene false in
/-- `h : … = .ok t`, `hs : IsStruct st.obj`: every successful path ends with an assignment to the field -/
local macro "writes_crush" : tactic => `(tactic| repeat' (first
  | (injection h with h; subst h; first | exact setField_has _ _ _ hs | exact setField2_has _ _ _ _ hs)
  | (cases h; done)
  | split at h))

/-- a block that assigns leaves a value in its Go field (`wk`: the field itself, the holder for a oneof branch) -/
theorem fieldWith_writes (rec : FromRec) (ov : List (String × String)) (info : FieldInfo) (mv : Option FieldInfo)
    (msg : Option MsgInfo) (attrs : Option (List (String × TfVal))) (st t : FromSt)
    (he : info.parentIsOptionalEmbed = false) (hs : IsStruct st.obj) (hl : Live attrs info)
    (hb : IsBranch info → Known attrs info) (h : copyFromFieldWith rec ov info mv msg attrs st = .ok t) :
    ∃ v, t.obj.field? (wk info) = some v := by
  unfold copyFromFieldWith at h
  simp only [embedGuard_plain info _ _ he, writeField_plain info _ _ he, he, FromSt.diag] at h
  cases hk : info.kind with
  | custom =>
    have hwk : wk info = info.name := by simp [wk, IsBranch, hk]
    rw [hwk]
    simp only [hk] at h
    cases hlk : (attrs.getD []).lookup info.nameSnake <;> simp only [hlk, Bool.false_eq_true, if_false] at h <;>
    · injection h with h
      subst h
      exact setField_has _ _ _ hs
  | primitive =>
    rcases hl with hl | ⟨a, hlk, hv, hnu⟩
    · rw [hk] at hl; cases hl
    · have hcond : (a.vkind != vkindOf info.tf.valueType || a.vkind == .unknown) = false := by
        simp only [Bool.or_eq_false_iff, bne_eq_false_iff_eq, beq_eq_false_iff_ne]
        exact ⟨hv, hnu⟩
      simp only [hk, hlk, hcond, Bool.false_eq_true, if_false] at h
      cases a with
      | prim k u n p =>
        simp only at h
        cases hd : primDecode info k u n p with
        | ok t' =>
          rw [hd] at h
          simp only at h
          by_cases ho : info.oneOfName = ""
          · have hwk : wk info = info.name := by simp [wk, IsBranch, ho]
            rw [hwk]
            simp only [ho, bne_self_eq_false, Bool.false_eq_true, if_false] at h
            injection h with h
            subst h
            exact setField_has _ _ _ hs
          · have hbr : IsBranch info := ⟨ho, Or.inl hk⟩
            have hwk : wk info = info.oneOfName := by simp [wk, hbr]
            obtain ⟨a', hl', hkn, _, _⟩ := hb hbr
            rw [hlk] at hl'
            injection hl' with hl'
            subst hl'
            have hkn' : known u n = true := by simpa [TfVal.isKnown] using hkn
            have hob : (info.oneOfName != "") = true := by simpa using ho
            simp only [hob, hkn', if_true] at h
            injection h with h
            subst h
            rw [hwk]
            exact setField_has _ _ _ hs
        | panic w => rw [hd] at h; cases h
        | stuck w => rw [hd] at h; cases h
      | _ => cases h
  | object =>
    rcases hl with hl | ⟨a, hlk, hv, hnu⟩
    · rw [hk] at hl; cases hl
    · have hcond : (a.vkind != vkindOf info.tf.valueType || a.vkind == .unknown) = false := by
        simp only [Bool.or_eq_false_iff, bne_eq_false_iff_eq, beq_eq_false_iff_ne]
        exact ⟨hv, hnu⟩
      simp only [hk, hlk, hcond, Bool.false_eq_true, if_false] at h
      cases a with
      | obj u n as tys =>
        simp only at h
        by_cases ho : info.oneOfName = ""
        · have hwk : wk info = info.name := by simp [wk, IsBranch, ho]
          rw [hwk]
          simp only [ho, beq_self_eq_true, if_true] at h
          writes_crush
        · have hbr : IsBranch info := ⟨ho, Or.inr hk⟩
          have hwk : wk info = info.oneOfName := by simp [wk, hbr]
          obtain ⟨a', hl', hkn, _, _⟩ := hb hbr
          rw [hlk] at hl'
          injection hl' with hl'
          subst hl'
          have hkn' : known u n = true := by simpa [TfVal.isKnown] using hkn
          have hob : (info.oneOfName == "") = false := by simpa using ho
          simp only [hob, hkn', if_true, Bool.false_eq_true, if_false] at h
          rw [hwk]
          writes_crush
      | _ => cases h
  | primitiveList =>
    have hwk : wk info = info.name := by simp [wk, IsBranch, hk]
    rw [hwk]
    rcases hl with hl | ⟨a, hlk, hv, hnu⟩
    · rw [hk] at hl; cases hl
    · have hcond : (a.vkind != vkindOf info.tf.valueType || a.vkind == .unknown) = false := by
        simp only [Bool.or_eq_false_iff, bne_eq_false_iff_eq, beq_eq_false_iff_ne]
        exact ⟨hv, hnu⟩
      simp only [hk, hlk, hcond, Bool.false_eq_true, if_false] at h
      cases a <;> simp only at h <;> writes_crush
  | objectList =>
    have hwk : wk info = info.name := by simp [wk, IsBranch, hk]
    rw [hwk]
    rcases hl with hl | ⟨a, hlk, hv, hnu⟩
    · rw [hk] at hl; cases hl
    · have hcond : (a.vkind != vkindOf info.tf.valueType || a.vkind == .unknown) = false := by
        simp only [Bool.or_eq_false_iff, bne_eq_false_iff_eq, beq_eq_false_iff_ne]
        exact ⟨hv, hnu⟩
      simp only [hk, hlk, hcond, Bool.false_eq_true, if_false] at h
      cases a <;> simp only at h <;> writes_crush
  | primitiveMap =>
    have hwk : wk info = info.name := by simp [wk, IsBranch, hk]
    rw [hwk]
    rcases hl with hl | ⟨a, hlk, hv, hnu⟩
    · rw [hk] at hl; cases hl
    · have hcond : (a.vkind != vkindOf info.tf.valueType || a.vkind == .unknown) = false := by
        simp only [Bool.or_eq_false_iff, bne_eq_false_iff_eq, beq_eq_false_iff_ne]
        exact ⟨hv, hnu⟩
      simp only [hk, hlk, hcond, Bool.false_eq_true, if_false] at h
      cases a <;> simp only at h <;> writes_crush
  | objectMap =>
    have hwk : wk info = info.name := by simp [wk, IsBranch, hk]
    rw [hwk]
    rcases hl with hl | ⟨a, hlk, hv, hnu⟩
    · rw [hk] at hl; cases hl
    · have hcond : (a.vkind != vkindOf info.tf.valueType || a.vkind == .unknown) = false := by
        simp only [Bool.or_eq_false_iff, bne_eq_false_iff_eq, beq_eq_false_iff_ne]
        exact ⟨hv, hnu⟩
      simp only [hk, hlk, hcond, Bool.false_eq_true, if_false] at h
      cases a <;> simp only at h <;> writes_crush

/-- a scalar branch of a oneof with a known attribute assigns the holder – also as a child of a nullable embedded message -/
theorem primBranch_writes (rec : FromRec) (ov : List (String × String)) (info : FieldInfo) (mv : Option FieldInfo)
    (msg : Option MsgInfo) (attrs : Option (List (String × TfVal))) (st t : FromSt)
    (hk : info.kind = .primitive) (ho : info.oneOfName ≠ "") (hs : IsStruct st.obj) (hkn : Known attrs info)
    (h : copyFromFieldWith rec ov info mv msg attrs st = .ok t) :
    ∃ v, t.obj.field? info.oneOfName = some v := by
  obtain ⟨a, hlk, hkn, hv, hnu⟩ := hkn
  have hcond : (a.vkind != vkindOf info.tf.valueType || a.vkind == .unknown) = false := by
    simp only [Bool.or_eq_false_iff, bne_eq_false_iff_eq, beq_eq_false_iff_ne]
    exact ⟨hv, hnu⟩
  have hob : (info.oneOfName != "") = true := by simpa using ho
  unfold copyFromFieldWith at h
  simp only [hk, hlk, hcond, Bool.false_eq_true, if_false, embedGuard, bne_self_eq_false, Bool.and_false] at h
  cases a with
  | prim k u n p =>
    have hkn' : known u n = true := by simpa [TfVal.isKnown] using hkn
    simp only [hob, hkn', if_true] at h
    writes_crush
  | _ => cases h

/-- the block of a child of a nullable embedded message that is allocated: a block that assigns leaves a value in the
field of the embedded struct – or, for a message branch of a oneof, in the holder -/
theorem child_writes (rec : FromRec) (ov : List (String × String)) (c : FieldInfo) (mv : Option FieldInfo)
    (msg : Option MsgInfo) (attrs : Option (List (String × TfVal))) (st t : FromSt) (s : GoVal)
    (he : c.parentIsOptionalEmbed = true) (hnp : ¬ (c.oneOfName ≠ "" ∧ c.kind = .primitive))
    (hs : IsStruct st.obj) (hp : st.obj.field? c.parentIsOptionalEmbedFieldName = some (.ptr (some s))) (hss : IsStruct s)
    (hl : Live attrs c) (hb : IsBranch c → Known attrs c)
    (h : copyFromFieldWith rec ov c mv msg attrs st = .ok t) :
    (¬ IsBranch c → ∃ v, cfield c.parentIsOptionalEmbedFieldName c.name t.obj = some v) ∧
    (IsBranch c → ∃ v, t.obj.field? c.oneOfName = some v) := by
  have viaLift : ∀ (c' : FieldInfo), c'.parentIsOptionalEmbed = true → c'.kind ≠ .custom → c'.oneOfName = "" →
      c'.parentIsOptionalEmbedFieldName = c.parentIsOptionalEmbedFieldName → c'.name = c.name → Live attrs c' →
      ∀ t : FromSt, copyFromFieldWith rec ov c' mv msg attrs st = .ok t →
      ∃ v, cfield c.parentIsOptionalEmbedFieldName c.name t.obj = some v := by
    intro c' he' hk' ho' hP hN hl' t h
    rcases hl' with hl' | ⟨a, hlk, hv, hnu⟩
    · exact absurd hl' hk'
    · have hcond : (a.vkind != vkindOf c'.tf.valueType || a.vkind == .unknown) = false := by
        simp only [Bool.or_eq_false_iff, bne_eq_false_iff_eq, beq_eq_false_iff_ne]
        exact ⟨hv, hnu⟩
      rw [fieldWith_lift rec ov c' mv msg attrs st s a he' hk' ho' hs (hP ▸ hp) hlk hcond] at h
      cases hin : copyFromFieldWith rec ov (unembed c') mv msg attrs { st with obj := s } with
      | ok st' =>
        rw [hin] at h
        simp only [liftOut] at h
        injection h with h
        subst h
        have hlive : Live attrs (unembed c') := Or.inr ⟨a, hlk, hv, hnu⟩
        have hnb : ¬ IsBranch (unembed c') := fun hb => hb.1 ho'
        obtain ⟨v, hv'⟩ := fieldWith_writes rec ov (unembed c') mv msg attrs _ st' rfl hss hlive (fun hb => absurd hb hnb) hin
        have hwk : wk (unembed c') = c.name := by
          simp only [wk, hnb, if_false]
          exact hN
        refine ⟨v, ?_⟩
        unfold cfield
        rw [← hP, field?_setField_same _ _ _ hs]
        simp only
        rw [← hwk]
        exact hv'
      | panic w => rw [hin] at h; cases h
      | stuck w => rw [hin] at h; cases h
  have hwf : ParentWF c.parentIsOptionalEmbedFieldName st.obj := by
    intro s' e
    rw [hp] at e
    injection e with e
    injection e with e
    injection e with e
    subst e
    exact hss
  cases hk : c.kind with
  | custom =>
    have hnb : ¬ IsBranch c := by simp [IsBranch, hk]
    refine ⟨fun _ => ?_, fun hb => absurd hb hnb⟩
    cases hlk : (attrs.getD []).lookup c.nameSnake with
    | some a =>
      rw [fieldWith_custom_embed rec ov c mv msg attrs st a hk he hs hlk] at h
      injection h with h
      subst h
      exact ⟨_, cfield_embedSet_same _ _ _ _ hs hwf⟩
    | none =>
      unfold copyFromFieldWith at h
      simp [hk, hlk, he, writeField, allocParent_alloc c _ s hp, hp, FromSt.diag] at h
      subst h
      refine ⟨hookFrom c.isRepeated .nilv, ?_⟩
      unfold cfield
      simp [field?_setField_same _ _ _ hs, field?_setField_same _ _ _ hss]
  | primitive =>
    have ho : c.oneOfName = "" := by
      by_cases ho : c.oneOfName = ""
      · exact ho
      · exact absurd ⟨ho, hk⟩ hnp
    have hnb : ¬ IsBranch c := fun hb => hb.1 ho
    exact ⟨fun _ => viaLift c he (by rw [hk]; decide) ho rfl rfl hl t h, fun hb => absurd hb hnb⟩
  | object =>
    by_cases ho : c.oneOfName = ""
    · have hnb : ¬ IsBranch c := fun hb => hb.1 ho
      exact ⟨fun _ => viaLift c he (by rw [hk]; decide) ho rfl rfl hl t h, fun hb => absurd hb hnb⟩
    · have hbr : IsBranch c := ⟨ho, Or.inr hk⟩
      refine ⟨fun hn => absurd hbr hn, fun _ => ?_⟩
      obtain ⟨a, hlk, hkn, hv, hnu⟩ := hb hbr
      have hcond : (a.vkind != vkindOf c.tf.valueType || a.vkind == .unknown) = false := by
        simp only [Bool.or_eq_false_iff, bne_eq_false_iff_eq, beq_eq_false_iff_ne]
        exact ⟨hv, hnu⟩
      have hob : (c.oneOfName == "") = false := by simpa using ho
      unfold copyFromFieldWith at h
      simp only [hlk, hcond, embedGuard_alloc c _ _ s hp, hk, hob, Bool.false_eq_true, if_false] at h
      cases a with
      | obj u n as tys =>
        have hkn' : known u n = true := by simpa [TfVal.isKnown] using hkn
        simp only [hkn', if_true] at h
        writes_crush
      | _ => cases h
  | primitiveList =>
    have hnb : ¬ IsBranch c := by simp [IsBranch, hk]
    rw [fieldWith_noOneOf rec ov c mv msg attrs st (Or.inl hk)] at h
    exact ⟨fun _ => viaLift (noOneOf c) he (by show c.kind ≠ .custom; rw [hk]; decide) rfl rfl rfl hl t h,
      fun hb => absurd hb hnb⟩
  | objectList =>
    have hnb : ¬ IsBranch c := by simp [IsBranch, hk]
    rw [fieldWith_noOneOf rec ov c mv msg attrs st (Or.inr (Or.inl hk))] at h
    exact ⟨fun _ => viaLift (noOneOf c) he (by show c.kind ≠ .custom; rw [hk]; decide) rfl rfl rfl hl t h,
      fun hb => absurd hb hnb⟩
  | primitiveMap =>
    have hnb : ¬ IsBranch c := by simp [IsBranch, hk]
    rw [fieldWith_noOneOf rec ov c mv msg attrs st (Or.inr (Or.inr (Or.inl hk)))] at h
    exact ⟨fun _ => viaLift (noOneOf c) he (by show c.kind ≠ .custom; rw [hk]; decide) rfl rfl rfl hl t h,
      fun hb => absurd hb hnb⟩
  | objectMap =>
    have hnb : ¬ IsBranch c := by simp [IsBranch, hk]
    rw [fieldWith_noOneOf rec ov c mv msg attrs st (Or.inr (Or.inr (Or.inr hk)))] at h
    exact ⟨fun _ => viaLift (noOneOf c) he (by show c.kind ≠ .custom; rw [hk]; decide) rfl rfl rfl hl t h,
      fun hb => absurd hb hnb⟩

/-- the target with nothing but an allocated, empty embedded message `P` -/
def probe (P : String) : GoVal := .struct [(P, .ptr (some (.struct [])))]

theorem probe_parent (P : String) : (probe P).field? P = some (.ptr (some (.struct []))) := by
  simp [probe, GoVal.field?, List.lookup]

theorem probe_other (P k : String) (h : k ≠ P) : (probe P).field? k = none := by
  have : (k == P) = false := by simpa using h
  simp [probe, GoVal.field?, List.lookup, this]

/-- **a block that assigns, in any uniform description of it**: the Go field `wk` is assigned a value; for a child of a
nullable embedded message (no oneof branch) the action on the parent pointer assigns the field of the embedded struct -/
theorem desc_writes (Zr : String → String → GoVal → Prop) (ov : List (String × String)) (f : Field)
    (attrs : Option (List (String × TfVal))) (hok : FieldOK attrs f.info) (a : BDesc) (hact : ActOK Zr f.info a.act)
    (hres : ∀ o, IsStruct o → BRes a o (blockF ov f attrs { obj := o, diags := [], hooks := [] }))
    (hw : Writes attrs f.info) :
    ((f.info.parentIsOptionalEmbed = true → IsBranch f.info) → ∃ v, a.act (wk f.info) = .set v) ∧
    (f.info.parentIsOptionalEmbed = true → ¬ IsBranch f.info →
      ∃ al ws, a.act f.info.parentIsOptionalEmbedFieldName = .par al ws ∧ ws ≠ []) := by
  obtain ⟨info, mv, msg, sub⟩ := f
  obtain ⟨hph, hl, hb⟩ := hw
  simp only at hok hact hph hl hb ⊢
  have hB : ∀ st, blockF ov ⟨info, mv, msg, sub⟩ attrs st = copyFromFieldWith (recOf ov msg sub) ov info mv msg attrs st :=
    fun st => blockF_eq ov info mv msg sub attrs st hph
  constructor
  · intro hbr
    by_cases he : info.parentIsOptionalEmbed = true
    · have hbr := hbr he
      have hwk : wk info = info.oneOfName := by simp [wk, hbr]
      have hne : info.oneOfName ≠ info.parentIsOptionalEmbedFieldName := (hok he).2 hbr
      rw [hwk]
      -- the holder is assigned on the probe target
      have key : ∃ t : FromSt, (∃ v, t.obj.field? info.oneOfName = some v) ∧
          t.obj.field? info.oneOfName = (a.act info.oneOfName).app none := by
        obtain ⟨t, e, _, _, _, hk⟩ := hres (probe info.parentIsOptionalEmbedFieldName) trivial
        rw [hB] at e
        refine ⟨t, ?_, by rw [hk, probe_other _ _ hne]⟩
        rcases hbr.2 with hkp | hko
        · exact primBranch_writes _ ov info mv msg attrs { obj := probe info.parentIsOptionalEmbedFieldName, diags := [], hooks := [] } t hkp hbr.1 trivial (hb hbr) e
        · exact (child_writes _ ov info mv msg attrs { obj := probe info.parentIsOptionalEmbedFieldName, diags := [], hooks := [] } t (.struct []) he (fun h => by rw [hko] at h; cases h.2) trivial
            (probe_parent _) trivial hl hb e).2 hbr
      obtain ⟨t, ⟨v, hv⟩, hk⟩ := key
      cases ha : a.act info.oneOfName with
      | keep => rw [ha, hv] at hk; cases hk
      | set v' => exact ⟨v', rfl⟩
      | par al ws => exact absurd (hact.par _ al ws ha).2.1 hne
    · have he' : info.parentIsOptionalEmbed = false := by simpa using he
      obtain ⟨t, e, _, _, _, hk⟩ := hres (.struct []) trivial
      rw [hB] at e
      obtain ⟨v, hv⟩ := fieldWith_writes _ ov info mv msg attrs { obj := .struct [], diags := [], hooks := [] } t he' trivial hl hb e
      have hk' := hk (wk info)
      cases ha : a.act (wk info) with
      | keep => rw [ha, hv] at hk'; cases hk'
      | set v' => exact ⟨v', rfl⟩
      | par al ws => exact absurd (hact.par _ al ws ha).1 he
  · intro he hnb
    have hnp : ¬ (info.oneOfName ≠ "" ∧ info.kind = .primitive) := fun h => hnb ⟨h.1, Or.inl h.2⟩
    obtain ⟨t, e, _, _, _, hk⟩ := hres (probe info.parentIsOptionalEmbedFieldName) trivial
    rw [hB] at e
    obtain ⟨v, hv⟩ := (child_writes _ ov info mv msg attrs { obj := probe info.parentIsOptionalEmbedFieldName, diags := [], hooks := [] } t (.struct []) he hnp trivial (probe_parent _) trivial hl hb e).1 hnb
    have hk' := hk info.parentIsOptionalEmbedFieldName
    rw [probe_parent] at hk'
    unfold cfield at hv
    cases ha : a.act info.parentIsOptionalEmbedFieldName with
    | keep =>
      rw [ha] at hk'
      simp only [KAct.app] at hk'
      rw [hk'] at hv
      cases hv
    | set v' => exact absurd ((hact.set _ v' ha).2 he) hnb
    | par al ws =>
      refine ⟨al, ws, rfl, ?_⟩
      intro hws
      subst hws
      rw [ha] at hk'
      simp only [KAct.app, newParent_alloc, applyWrites, List.foldl] at hk'
      rw [hk'] at hv
      cases hv

-- ------------------------------------------------------------------------------------------------------
-- 8. the fields whose blocks assign hold the same value in both runs

/-- the two runs (started from `b1`, `b2`) agree on the field `info`: literally on the Go field `wk info` for a field of
the message itself / a oneof branch; for a child of a nullable embedded message up to the normal form – and literally
when the parent was allocated in both runs or in none at the start -/
def Agree (Zr : String → String → GoVal → Prop) (b1 b2 : GoVal) (info : FieldInfo) (t1 t2 : GoVal) : Prop :=
  ((info.parentIsOptionalEmbed = true → IsBranch info) → t1.field? (wk info) = t2.field? (wk info)) ∧
  (info.parentIsOptionalEmbed = true → ¬ IsBranch info →
    FieldNf Zr info.parentIsOptionalEmbedFieldName info.name
      (innerF (t1.field? info.parentIsOptionalEmbedFieldName) info.name)
      (innerF (t2.field? info.parentIsOptionalEmbedFieldName) info.name) ∧
    ((Alloc (b1.field? info.parentIsOptionalEmbedFieldName) ↔ Alloc (b2.field? info.parentIsOptionalEmbedFieldName)) →
      innerF (t1.field? info.parentIsOptionalEmbedFieldName) info.name =
        innerF (t2.field? info.parentIsOptionalEmbedFieldName) info.name))

theorem written_step (Zr : String → String → GoVal → Prop) (P n : String) (al : Bool) (ws : List (String × GoVal))
    (hk : ∀ w ∈ ws, w.1 = n) (hz : al = false → ∀ w ∈ ws, Zr P n w.2) (hne : ws ≠ []) (x1 x2 : Option GoVal)
    (hw1 : WFx x1) (hw2 : WFx x2) :
    FieldNf Zr P n (innerF (newParent al ws x1) n) (innerF (newParent al ws x2) n) ∧
    ((Alloc x1 ↔ Alloc x2) → innerF (newParent al ws x1) n = innerF (newParent al ws x2) n) := by
  obtain ⟨v, hl, w, hw, hv⟩ := lastW_of_keys ws n hne hk
  by_cases a1 : Alloc x1 ∨ al = true
  · by_cases a2 : Alloc x2 ∨ al = true
    · rw [innerF_newParent_same al ws x1 n v hw1 hl a1, innerF_newParent_same al ws x2 n v hw2 hl a2]
      exact ⟨Or.inl rfl, fun _ => rfl⟩
    · have hal : al = false := by cases al <;> simp_all
      have hn2 : ¬ Alloc x2 := fun h => a2 (Or.inl h)
      subst hal
      rw [innerF_newParent_same false ws x1 n v hw1 hl a1, newParent_idle ws x2 hn2, innerF_unalloc x2 n hn2]
      refine ⟨Or.inr ⟨Or.inr ⟨v, rfl, hv ▸ hz rfl w hw⟩, Or.inl rfl⟩, fun hiff => ?_⟩
      rcases a1 with a1 | a1
      · exact absurd (hiff.mp a1) hn2
      · cases a1
  · have hal : al = false := by cases al <;> simp_all
    have hn1 : ¬ Alloc x1 := fun h => a1 (Or.inl h)
    subst hal
    by_cases a2 : Alloc x2 ∨ false = true
    · rw [innerF_newParent_same false ws x2 n v hw2 hl a2, newParent_idle ws x1 hn1, innerF_unalloc x1 n hn1]
      refine ⟨Or.inr ⟨Or.inl rfl, Or.inr ⟨v, rfl, hv ▸ hz rfl w hw⟩⟩, fun hiff => ?_⟩
      rcases a2 with a2 | a2
      · exact absurd (hiff.mpr a2) hn1
      · cases a2
    · have hn2 : ¬ Alloc x2 := fun h => a2 (Or.inl h)
      rw [newParent_idle ws x1 hn1, newParent_idle ws x2 hn2, innerF_unalloc x1 n hn1, innerF_unalloc x2 n hn2]
      exact ⟨Or.inl rfl, fun _ => rfl⟩

/-- what the two runs agree on stays agreed -/
theorem agree_mono (Par : String → Prop) (Zr : String → String → GoVal → Prop) (b1 b2 s1 s2 u1 u2 : GoVal) (info : FieldInfo)
    (hb : PInv Par Zr b1 b2 s1 s2) (hr : PInv Par Zr s1 s2 u1 u2)
    (hset : (info.parentIsOptionalEmbed = true → IsBranch info) → ¬ Par (wk info))
    (hpar : info.parentIsOptionalEmbed = true → Par info.parentIsOptionalEmbedFieldName)
    (ha : Agree Zr b1 b2 info s1 s2) : Agree Zr b1 b2 info u1 u2 := by
  refine ⟨fun hbr => ?_, fun he hnb => ⟨?_, fun hiff => ?_⟩⟩
  · rcases hr.plain _ (hset hbr) with h | ⟨h1, h2⟩
    · exact h
    · rw [h1, h2]; exact ha.1 hbr
  · rcases hr.inner _ (hpar he) info.name with h | ⟨h1, h2⟩
    · exact h
    · rw [h1, h2]; exact (ha.2 he hnb).1
  · have hs : Alloc (s1.field? info.parentIsOptionalEmbedFieldName) ↔ Alloc (s2.field? info.parentIsOptionalEmbedFieldName) :=
      (hb.lit _ (hpar he) hiff).1
    rcases (hr.lit _ (hpar he) hs).2 info.name with h | ⟨h1, h2⟩
    · exact h
    · rw [h1, h2]; exact (ha.2 he hnb).2 hiff

theorem fields_pair_writes (Par : String → Prop) (Zr : String → String → GoVal → Prop) (ov : List (String × String))
    (attrs : Option (List (String × TfVal))) (b1 b2 : GoVal) :
    ∀ (fs : List Field), (∀ f ∈ fs, FieldSide Par Zr attrs f) → ∀ s1 s2 : FromSt, PInv Par Zr b1 b2 s1.obj s2.obj →
      s1.diags = s2.diags → s1.hooks = s2.hooks →
      ∀ t1 t2, copyFromFields ov fs attrs s1 = .ok t1 → copyFromFields ov fs attrs s2 = .ok t2 →
      ∀ f ∈ fs, Writes attrs f.info → Agree Zr b1 b2 f.info t1.obj t2.obj
  | [], _, _, _, _, _, _, _, _, _, _, f, hf, _ => by simp at hf
  | f :: rest, hside, s1, s2, h, hd, hh, t1, t2, r1, r2, g, hg, hwr => by
    have hf := hside f (by simp)
    have hrest : ∀ x ∈ rest, FieldSide Par Zr attrs x := fun x hx => hside x (by simp [hx])
    rw [copyFromFields_cons, blockF_writer ov f attrs s1] at r1
    rw [copyFromFields_cons, blockF_writer ov f attrs s2] at r2
    rcases block_uniform Zr ov f attrs hf.ok hf.zr with ⟨a, hact, hres⟩ | hfail
    · obtain ⟨u1, e1, hu1, hd1, hh1, hk1⟩ := hres s1.obj h.s1
      obtain ⟨u2, e2, hu2, hd2, hh2, hk2⟩ := hres s2.obj h.s2
      rw [e1] at r1
      rw [e2] at r2
      simp only [Outcome.mapO, obind] at r1 r2
      have hinv : PInv Par Zr b1 b2 u1.obj u2.obj :=
        pinv_step Par Zr f.info a.act hact hf.set hf.par b1 b2 s1.obj s2.obj u1.obj u2.obj h hu1 hu2 hk1 hk2
      have hdd : (shiftF s1.diags s1.hooks u1).diags = (shiftF s2.diags s2.hooks u2).diags := by
        show s1.diags ++ u1.diags = s2.diags ++ u2.diags
        rw [hd, hd1, hd2]
      have hhh : (shiftF s1.diags s1.hooks u1).hooks = (shiftF s2.diags s2.hooks u2).hooks := by
        show s1.hooks ++ u1.hooks = s2.hooks ++ u2.hooks
        rw [hh, hh1, hh2]
      by_cases hgf : g = f
      · subst hgf
        -- the block of `g` itself, then the rest keeps what was agreed
        have hnow : Agree Zr b1 b2 g.info u1.obj u2.obj := by
          obtain ⟨dw1, dw2⟩ := desc_writes Zr ov g attrs hf.ok a hact hres hwr
          refine ⟨fun hbr => ?_, fun he hnb => ?_⟩
          · obtain ⟨v, hv⟩ := dw1 hbr
            rw [hk1, hk2, hv]
            rfl
          · obtain ⟨al, ws, hv, hne⟩ := dw2 he hnb
            obtain ⟨_, _, hws, hzr⟩ := hact.par _ al ws hv
            rw [hk1, hk2, hv]
            simp only [KAct.app]
            obtain ⟨w1, w2⟩ := written_step Zr _ g.info.name al ws hws hzr hne _ _
              (h.wf1 _ (hf.par he)) (h.wf2 _ (hf.par he))
            exact ⟨w1, fun hiff => w2 ((h.lit _ (hf.par he) hiff).1)⟩
        have hre := fields_pair Par Zr ov attrs u1.obj u2.obj rest hrest (shiftF s1.diags s1.hooks u1)
          (shiftF s2.diags s2.hooks u2)
          (PInv.start Par Zr u1.obj u2.obj hu1 hu2 hinv.wf1 hinv.wf2) hdd hhh
        rcases hre with ⟨t1', t2', q1, q2, hq, _, _⟩ | ⟨hx, _⟩
        · rw [r1] at q1
          rw [r2] at q2
          injection q1 with q1
          injection q2 with q2
          subst q1 q2
          exact agree_mono Par Zr b1 b2 u1.obj u2.obj t1.obj t2.obj g.info hinv hq hf.set hf.par hnow
        · exact absurd r1 (hx t1)
      · have hg' : g ∈ rest := by
          simp only [List.mem_cons] at hg
          rcases hg with hg | hg
          · exact absurd hg hgf
          · exact hg
        exact fields_pair_writes Par Zr ov attrs b1 b2 rest hrest (shiftF s1.diags s1.hooks u1) (shiftF s2.diags s2.hooks u2)
          hinv hdd hhh t1 t2 r1 r2 g hg' hwr
    · exfalso
      exact obind_ne_ok _ _ (mapO_ne_ok _ _ (hfail s1.obj h.s1)) t1 r1

-- ------------------------------------------------------------------------------------------------------
-- 9. `Copy<T>FromTerraform` on two priors

/-- the attributes of the Terraform object -/
def attrsOf : TfVal → Option (List (String × TfVal))
  | .obj _ _ attrs _ => attrs
  | _ => none

/-- **what two successful runs of `Copy<T>FromTerraform` on the priors `p1`, `p2` have in common** -/
structure PriorIndepRes (m : Msg) (attrs : Option (List (String × TfVal))) (p1 p2 : List (String × GoVal))
    (r1 r2 : FromResult) : Prop where
  diags : r1.diags = r2.diags
  hooks : r1.hooks = r2.hooks
  struct1 : IsStruct r1.obj
  struct2 : IsStruct r2.obj
  /-- the holders of the oneof groups listed in the message (reset up front) hold the same value -/
  holders : ∀ g ∈ m.info.oneOfNames, r1.obj.field? g = r2.obj.field? g
  /-- every Go field that is not the pointer to a nullable embedded message: the same value in both results, or both
  runs left it alone -/
  plain : ∀ k, ¬ EmbedPar m.fields k → r1.obj.field? k = r2.obj.field? k ∨
    (r1.obj.field? k = (GoVal.struct p1).field? k ∧ r2.obj.field? k = (GoVal.struct p2).field? k)
  /-- … the same value whenever a block of the message assigns it (`wk`: the field itself, the holder of a branch) -/
  written : ∀ f ∈ m.fields, Writes attrs f.info → (f.info.parentIsOptionalEmbed = true → IsBranch f.info) →
    r1.obj.field? (wk f.info) = r2.obj.field? (wk f.info)
  /-- behind the pointer to a nullable embedded message, field by field: the same up to the normal form (absent ≡ reset
  value of the child), or both runs left it alone -/
  childNf : ∀ P, EmbedPar m.fields P → ∀ n, FieldNf (ZrOf m.fields) P n (cfield P n r1.obj) (cfield P n r2.obj) ∨
    (cfield P n r1.obj = cfield P n (.struct p1) ∧ cfield P n r2.obj = cfield P n (.struct p2))
  /-- … the same up to the normal form whenever the block of the child assigns -/
  childWritten : ∀ c ∈ m.fields, Writes attrs c.info → c.info.parentIsOptionalEmbed = true → ¬ IsBranch c.info →
    FieldNf (ZrOf m.fields) c.info.parentIsOptionalEmbedFieldName c.info.name
      (cfield c.info.parentIsOptionalEmbedFieldName c.info.name r1.obj)
      (cfield c.info.parentIsOptionalEmbedFieldName c.info.name r2.obj)
  /-- literally, when the parent is allocated in both priors or in none: then it is allocated in both results or in none,
  and every field behind it holds the same value or was left alone by both runs -/
  childLit : ∀ P, EmbedPar m.fields P → (Alloc ((GoVal.struct p1).field? P) ↔ Alloc ((GoVal.struct p2).field? P)) →
    (Alloc (r1.obj.field? P) ↔ Alloc (r2.obj.field? P)) ∧
    ∀ n, cfield P n r1.obj = cfield P n r2.obj ∨
      (cfield P n r1.obj = cfield P n (.struct p1) ∧ cfield P n r2.obj = cfield P n (.struct p2))
  /-- … the same value whenever the block of the child assigns -/
  childLitWritten : ∀ c ∈ m.fields, Writes attrs c.info → c.info.parentIsOptionalEmbed = true → ¬ IsBranch c.info →
    (Alloc ((GoVal.struct p1).field? c.info.parentIsOptionalEmbedFieldName) ↔
      Alloc ((GoVal.struct p2).field? c.info.parentIsOptionalEmbedFieldName)) →
    cfield c.info.parentIsOptionalEmbedFieldName c.info.name r1.obj =
      cfield c.info.parentIsOptionalEmbedFieldName c.info.name r2.obj
  /-- the parent pointer itself, when it is nil in both priors: the same in both results, or still what it was -/
  parentNil : ∀ P, EmbedPar m.fields P → ¬ Alloc ((GoVal.struct p1).field? P) → ¬ Alloc ((GoVal.struct p2).field? P) →
    r1.obj.field? P = r2.obj.field? P ∨
      (r1.obj.field? P = (GoVal.struct p1).field? P ∧ r2.obj.field? P = (GoVal.struct p2).field? P)
  /-- frame: a Go field no block writes keeps the value of the prior -/
  frame : ∀ k, k ∉ m.info.oneOfNames → (∀ f ∈ m.fields, k ∉ writeKeys f.info) →
    r1.obj.field? k = (GoVal.struct p1).field? k ∧ r2.obj.field? k = (GoVal.struct p2).field? k

theorem not_par_of_listed (m : Msg) (hside : SideOK m) (g : String) (hg : g ∈ m.info.oneOfNames) : ¬ EmbedPar m.fields g := by
  rintro ⟨c, hc, hce, hcp⟩
  exact (hside c hc hce).2.1 (hcp ▸ hg)

theorem reset_par (m : Msg) (hside : SideOK m) (p : List (String × GoVal)) (P : String) (hP : EmbedPar m.fields P) :
    (resetOneOfs m.info.oneOfNames (.struct p)).field? P = (GoVal.struct p).field? P := by
  rw [field?_resetOneOfs _ (.struct p) trivial]
  have : P ∉ m.info.oneOfNames := fun h => not_par_of_listed m hside P h hP
  simp [this]

/-- **C05, every message: the result of `Copy<T>FromTerraform` is determined by the Terraform value alone** – oneof
branches and children of nullable embedded messages included.  For every IR that satisfies the decidable side conditions
`SideOK`, every Terraform value (conforming or not) and any two prior structs (a parent pointer that is set points to a
struct): the two calls succeed together, and after successful calls `PriorIndepRes` holds. -/
theorem copyFrom_prior_independent_all (ov : List (String × String)) (m : Msg) (tf : TfVal) (p1 p2 : List (String × GoVal))
    (hside : SideOK m) (hw1 : PriorWF m p1) (hw2 : PriorWF m p2) :
    ((∃ r, copyFrom ov m tf (.struct p1) = .ok r) ↔ (∃ r, copyFrom ov m tf (.struct p2) = .ok r)) ∧
    ∀ r1 r2, copyFrom ov m tf (.struct p1) = .ok r1 → copyFrom ov m tf (.struct p2) = .ok r2 →
      PriorIndepRes m (attrsOf tf) p1 p2 r1 r2 := by
  unfold copyFrom
  cases tf with
  | obj u n attrs atys =>
    simp only [attrsOf]
    have hb1 : IsStruct (resetOneOfs m.info.oneOfNames (.struct p1)) := isStruct_resetOneOfs _ _ trivial
    have hb2 : IsStruct (resetOneOfs m.info.oneOfNames (.struct p2)) := isStruct_resetOneOfs _ _ trivial
    have hwf1 : ∀ P, EmbedPar m.fields P → WFx ((resetOneOfs m.info.oneOfNames (.struct p1)).field? P) := by
      intro P hP
      rw [reset_par m hside p1 P hP]
      obtain ⟨c, hc, hce, hcp⟩ := hP
      exact hcp ▸ hw1 c hc hce
    have hwf2 : ∀ P, EmbedPar m.fields P → WFx ((resetOneOfs m.info.oneOfNames (.struct p2)).field? P) := by
      intro P hP
      rw [reset_par m hside p2 P hP]
      obtain ⟨c, hc, hce, hcp⟩ := hP
      exact hcp ▸ hw2 c hc hce
    have hsides : ∀ f ∈ m.fields, FieldSide (EmbedPar m.fields) (ZrOf m.fields) attrs f :=
      fun f hf => fieldSide_of_sideOK m hside attrs f hf
    have hstart := PInv.start (EmbedPar m.fields) (ZrOf m.fields) _ _ hb1 hb2 hwf1 hwf2
    rcases copyFromFields_pair ov m attrs hside _ _ hb1 hb2 hwf1 hwf2 with ⟨t1, t2, e1, e2, hinv, hd, hh⟩ | ⟨hf1, hf2⟩
    · rw [e1, e2]
      refine ⟨⟨fun _ => ⟨_, rfl⟩, fun _ => ⟨_, rfl⟩⟩, fun r1 r2 q1 q2 => ?_⟩
      injection q1 with q1
      injection q2 with q2
      subst q1 q2
      have hagree := fields_pair_writes (EmbedPar m.fields) (ZrOf m.fields) ov attrs _ _ m.fields hsides
        { obj := resetOneOfs m.info.oneOfNames (.struct p1) } { obj := resetOneOfs m.info.oneOfNames (.struct p2) }
        hstart rfl rfl t1 t2 e1 e2
      have hfr1 := fromFields_frame ov m.fields attrs _ t1 hb1 e1
      have hfr2 := fromFields_frame ov m.fields attrs _ t2 hb2 e2
      have hreset : ∀ (p : List (String × GoVal)) k, k ∈ m.info.oneOfNames →
          (resetOneOfs m.info.oneOfNames (.struct p)).field? k = some (.iface none) := by
        intro p k hk
        rw [field?_resetOneOfs _ (.struct p) trivial]
        simp [hk]
      have hkeep : ∀ (p : List (String × GoVal)) k, k ∉ m.info.oneOfNames →
          (resetOneOfs m.info.oneOfNames (.struct p)).field? k = (GoVal.struct p).field? k := by
        intro p k hk
        rw [field?_resetOneOfs _ (.struct p) trivial]
        simp [hk]
      have hholders : ∀ g ∈ m.info.oneOfNames, t1.obj.field? g = t2.obj.field? g := by
        intro g hg
        rcases hinv.plain g (not_par_of_listed m hside g hg) with h | ⟨h1, h2⟩
        · exact h
        · rw [h1, h2, hreset p1 g hg, hreset p2 g hg]
      refine ⟨hd, hh, hinv.s1, hinv.s2, hholders, ?_, ?_, ?_, ?_, ?_, ?_, ?_, ?_⟩
      · intro k hk
        by_cases hkn : k ∈ m.info.oneOfNames
        · exact Or.inl (hholders k hkn)
        · rw [← hkeep p1 k hkn, ← hkeep p2 k hkn]
          exact hinv.plain k hk
      · intro f hf hwr hbr
        exact (hagree f hf hwr).1 hbr
      · intro P hP n
        simp only [cfield_eq_innerF]
        rw [← reset_par m hside p1 P hP, ← reset_par m hside p2 P hP]
        exact hinv.inner P hP n
      · intro c hc hwr he hnb
        simp only [cfield_eq_innerF]
        exact ((hagree c hc hwr).2 he hnb).1
      · intro P hP hiff
        simp only [cfield_eq_innerF]
        rw [← reset_par m hside p1 P hP, ← reset_par m hside p2 P hP] at hiff ⊢
        exact hinv.lit P hP hiff
      · intro c hc hwr he hnb hiff
        simp only [cfield_eq_innerF]
        have hP : EmbedPar m.fields c.info.parentIsOptionalEmbedFieldName := ⟨c, hc, he, rfl⟩
        rw [← reset_par m hside p1 _ hP, ← reset_par m hside p2 _ hP] at hiff
        exact ((hagree c hc hwr).2 he hnb).2 hiff
      · intro P hP hn1 hn2
        rw [← reset_par m hside p1 P hP] at hn1 ⊢
        rw [← reset_par m hside p2 P hP] at hn2 ⊢
        exact hinv.nil P hP hn1 hn2
      · intro k hk hnw
        exact ⟨by rw [hfr1.2 k hnw, hkeep p1 k hk], by rw [hfr2.2 k hnw, hkeep p2 k hk]⟩
    · have n1 : ¬ ∃ r, (match copyFromFields ov m.fields attrs { obj := resetOneOfs m.info.oneOfNames (.struct p1) } with
          | .ok st => Outcome.ok ({ obj := st.obj, diags := st.diags, hooks := st.hooks } : FromResult)
          | .panic w => .panic w
          | .stuck w => .stuck w) = .ok r := by
        rintro ⟨r, hr⟩
        split at hr
        · rename_i st hst; exact hf1 st hst
        · cases hr
        · cases hr
      have n2 : ¬ ∃ r, (match copyFromFields ov m.fields attrs { obj := resetOneOfs m.info.oneOfNames (.struct p2) } with
          | .ok st => Outcome.ok ({ obj := st.obj, diags := st.diags, hooks := st.hooks } : FromResult)
          | .panic w => .panic w
          | .stuck w => .stuck w) = .ok r := by
        rintro ⟨r, hr⟩
        split at hr
        · rename_i st hst; exact hf2 st hst
        · cases hr
        · cases hr
      exact ⟨⟨fun h => absurd h n1, fun h => absurd h n2⟩, fun r1 r2 q1 _ => absurd ⟨r1, q1⟩ n1⟩
  | prim _ _ _ _ => exact ⟨⟨fun ⟨_, h⟩ => (by cases h), fun ⟨_, h⟩ => (by cases h)⟩, fun _ _ h => (by cases h)⟩
  | list _ _ _ _ => exact ⟨⟨fun ⟨_, h⟩ => (by cases h), fun ⟨_, h⟩ => (by cases h)⟩, fun _ _ h => (by cases h)⟩
  | map _ _ _ _ => exact ⟨⟨fun ⟨_, h⟩ => (by cases h), fun ⟨_, h⟩ => (by cases h)⟩, fun _ _ h => (by cases h)⟩
  | nilv => exact ⟨⟨fun ⟨_, h⟩ => (by cases h), fun ⟨_, h⟩ => (by cases h)⟩, fun _ _ h => (by cases h)⟩
  | foreign _ => exact ⟨⟨fun ⟨_, h⟩ => (by cases h), fun ⟨_, h⟩ => (by cases h)⟩, fun _ _ h => (by cases h)⟩

-- ------------------------------------------------------------------------------------------------------
-- 10. in terms of the normal form of the property (`Spec.nfEqFields`)

/-- the normal form of the field `g` (`Spec.nfEqField`) cannot tell `o` from `o'` -/
def SameNf (g : FieldInfo) (o o' : GoVal) : Prop :=
  (g.oneOfName ≠ "" → activePayload g o = activePayload g o') ∧
  (g.oneOfName = "" → (g.isPlaceholder = true ∧ g.kind = .primitive) ∨ ValNf g (getVal g o) (getVal g o'))

theorem SameNf.refl (g : FieldInfo) (o : GoVal) : SameNf g o o := ⟨fun _ => rfl, fun _ => Or.inr (Or.inl rfl)⟩

theorem SameNf.symm {g : FieldInfo} {o o' : GoVal} (h : SameNf g o o') : SameNf g o' o :=
  ⟨fun ho => (h.1 ho).symm, fun ho => (h.2 ho).imp id ValNf.symm⟩

theorem nfEqField_same (f : Field) (o o' b b' : GoVal) (h : SameNf f.info o o') (h' : SameNf f.info b b') :
    nfEqField f o b = nfEqField f o' b' := by
  obtain ⟨info, mv, msg, sub⟩ := f
  simp only at h h'
  by_cases hp : info.oneOfName = "" ∧ info.isPlaceholder = true ∧ info.kind = .primitive
  · obtain ⟨ho, hph, hk⟩ := hp
    have hb : (info.oneOfName != "") = false := by simp [ho]
    unfold nfEqField
    simp [hb, hk, hph]
  · refine nfEqField_congr info mv msg sub o o' b b' (fun ho => ⟨h.1 ho, h'.1 ho⟩) (fun ho => ⟨?_, ?_⟩)
    · rcases h.2 ho with ⟨h1, h2⟩ | h1
      · exact absurd ⟨ho, h1, h2⟩ hp
      · exact h1
    · rcases h'.2 ho with ⟨h1, h2⟩ | h1
      · exact absurd ⟨ho, h1, h2⟩ hp
      · exact h1

theorem nfEqFields_same {o o' b b' : GoVal} : ∀ (gs : List Field), (∀ g ∈ gs, SameNf g.info o o') →
    (∀ g ∈ gs, SameNf g.info b b') → nfEqFields gs o b = nfEqFields gs o' b'
  | [], _, _ => by simp [nfEqFields]
  | g :: rest, h, h' => by
    rw [nfEqFields_cons, nfEqFields_cons, nfEqFields_same rest (fun x hx => h x (by simp [hx])) (fun x hx => h' x (by simp [hx])),
      nfEqField_same g o o' b b' (h g (by simp)) (h' g (by simp))]

/-- a field of the embedded struct that is the same up to "absent ≡ reset value of the child" reads the same up to the
normal form of the child -/
theorem fieldNf_valNf {fs : List Field} (hn : NamesOK fs) (g : Field) (hg : g ∈ fs)
    (he : g.info.parentIsOptionalEmbed = true) (x y : Option GoVal)
    (h : FieldNf (ZrOf fs) g.info.parentIsOptionalEmbedFieldName g.info.name x y) :
    ValNf g.info (x.getD (zeroGoOf g.info)) (y.getD (zeroGoOf g.info)) := by
  have hz : ∀ x : Option GoVal, ZOpt (ZrOf fs) g.info.parentIsOptionalEmbedFieldName g.info.name x →
      x.getD (zeroGoOf g.info) = zeroGoOf g.info ∨ (g.info.kind ≠ .custom ∧ x.getD (zeroGoOf g.info) = zeroWrite g.info) := by
    intro x hx
    rcases hx with hx | ⟨v, hx, c, hc, hce, hck, hcp, hcn, hv⟩
    · subst hx; exact Or.inl rfl
    · have : c.info = g.info := hn.1 c hc g hg hce he hcp hcn
      subst hx
      rw [this] at hck hv
      exact Or.inr ⟨hck, hv⟩
  rcases h with e | ⟨z1, z2⟩
  · rw [e]; exact Or.inl rfl
  · rcases hz _ z1 with a1 | ⟨k1, a1⟩ <;> rcases hz _ z2 with a2 | ⟨k2, a2⟩ <;> rw [a1, a2]
    · exact Or.inl rfl
    · exact valNf_zero g.info k2
    · exact (valNf_zero g.info k1).symm
    · exact Or.inl rfl

/-- the field is covered by the Terraform object: its oneof group is reset up front or its branch is assigned; a field
that is in no oneof group is assigned (or it is the placeholder of a message without fields, which has no block and no
normal form) -/
def Covered (m : Msg) (attrs : Option (List (String × TfVal))) (f : FieldInfo) : Prop :=
  (f.oneOfName ≠ "" → f.oneOfName ∈ m.info.oneOfNames ∨ (IsBranch f ∧ Writes attrs f)) ∧
  (f.oneOfName = "" → (f.isPlaceholder = true ∧ f.kind = .primitive) ∨ Writes attrs f)

theorem sameNf_of_res (m : Msg) (attrs : Option (List (String × TfVal))) (p1 p2 : List (String × GoVal))
    (r1 r2 : FromResult) (hn : NamesOK m.fields) (hres : PriorIndepRes m attrs p1 p2 r1 r2) (g : Field) (hg : g ∈ m.fields)
    (hc : Covered m attrs g.info) : SameNf g.info r1.obj r2.obj := by
  refine ⟨fun ho => ?_, fun ho => ?_⟩
  · have : r1.obj.field? g.info.oneOfName = r2.obj.field? g.info.oneOfName := by
      rcases hc.1 ho with hl | ⟨hb, hw⟩
      · exact hres.holders _ hl
      · have := hres.written g hg hw (fun _ => hb)
        simpa [wk, hb] using this
    unfold activePayload
    rw [this]
  · rcases hc.2 ho with hp | hw
    · exact Or.inl hp
    · right
      have hnb : ¬ IsBranch g.info := fun hb => hb.1 ho
      by_cases he : g.info.parentIsOptionalEmbed = true
      · rw [getVal_embed g.info _ he, getVal_embed g.info _ he]
        exact fieldNf_valNf hn g hg he _ _ (hres.childWritten g hg hw he hnb)
      · have he' : g.info.parentIsOptionalEmbed = false := by simpa using he
        have := hres.written g hg hw (fun h => by rw [he'] at h; cases h)
        have hwk : wk g.info = g.info.name := by simp [wk, hnb]
        rw [hwk] at this
        have hb : (g.info.oneOfName != "") = false := by simp [ho]
        unfold getVal
        simp only [he', Bool.false_eq_true, if_false, hb, this]
        exact Or.inl rfl

/-- **C05 in terms of the normal form of the property**: if moreover the Go names are distinct (`NamesOK`) and every field
is covered by the Terraform object, the results on two priors are equal in the normal form `Spec.nfEqFields` on the fields
of `m` (stated against the self-comparison of one result: `nfEqFields` is reflexive on well-shaped structs only) -/
theorem copyFrom_prior_independent_nfEq (ov : List (String × String)) (m : Msg) (tf : TfVal) (p1 p2 : List (String × GoVal))
    (hside : SideOK m) (hw1 : PriorWF m p1) (hw2 : PriorWF m p2) (hn : NamesOK m.fields)
    (hcov : ∀ g ∈ m.fields, Covered m (attrsOf tf) g.info)
    (r1 r2 : FromResult) (e1 : copyFrom ov m tf (.struct p1) = .ok r1) (e2 : copyFrom ov m tf (.struct p2) = .ok r2) :
    nfEqFields m.fields r1.obj r2.obj = nfEqFields m.fields r1.obj r1.obj ∧
    nfEqFields m.fields r2.obj r1.obj = nfEqFields m.fields r1.obj r1.obj ∧
    nfEqFields m.fields r2.obj r2.obj = nfEqFields m.fields r1.obj r1.obj := by
  have hres := (copyFrom_prior_independent_all ov m tf p1 p2 hside hw1 hw2).2 r1 r2 e1 e2
  have h12 : ∀ g ∈ m.fields, SameNf g.info r1.obj r2.obj := fun g hg => sameNf_of_res m _ p1 p2 r1 r2 hn hres g hg (hcov g hg)
  have h11 : ∀ g ∈ m.fields, SameNf g.info r1.obj r1.obj := fun g _ => SameNf.refl _ _
  exact ⟨nfEqFields_same m.fields h11 (fun g hg => (h12 g hg).symm),
    nfEqFields_same m.fields (fun g hg => (h12 g hg).symm) h11,
    nfEqFields_same m.fields (fun g hg => (h12 g hg).symm) (fun g hg => (h12 g hg).symm)⟩

-- ------------------------------------------------------------------------------------------------------
-- 11. `GroupsListed` for built IRs

theorem foldl_promoted_mono : ∀ (fields : List Field) (acc : List String) (x : String), x ∈ acc →
    x ∈ fields.foldl (fun acc f =>
      if f.info.oneOfName == "" || f.info.parentIsOptionalEmbed || acc.contains f.info.oneOfName then acc
      else acc ++ [f.info.oneOfName]) acc
  | [], _, _, h => h
  | f :: rest, acc, x, h => by
    simp only [List.foldl]
    apply foldl_promoted_mono rest
    split
    · exact h
    · exact List.mem_append_left _ h

theorem foldl_promoted_mem : ∀ (fields : List Field) (acc : List String) (f : Field), f ∈ fields →
    f.info.oneOfName ≠ "" → f.info.parentIsOptionalEmbed = false →
    f.info.oneOfName ∈ fields.foldl (fun acc f =>
      if f.info.oneOfName == "" || f.info.parentIsOptionalEmbed || acc.contains f.info.oneOfName then acc
      else acc ++ [f.info.oneOfName]) acc
  | [], _, _, h, _, _ => by simp at h
  | g :: rest, acc, f, h, ho, he => by
    simp only [List.foldl]
    simp only [List.mem_cons] at h
    rcases h with h | h
    · subst h
      apply foldl_promoted_mono rest
      have hb : (f.info.oneOfName == "") = false := by simpa using ho
      simp only [hb, he, Bool.false_or]
      split
      · rename_i hc
        simpa using hc
      · simp
    · exact foldl_promoted_mem rest _ f h ho he

/-- `withPromotedOneOfs` lists the group of every branch that is not a child of a nullable embedded message -/
theorem mem_withPromotedOneOfs (own : List String) (fields : List Field) (f : Field) (hf : f ∈ fields)
    (ho : f.info.oneOfName ≠ "") (he : f.info.parentIsOptionalEmbed = false) :
    f.info.oneOfName ∈ withPromotedOneOfs own fields :=
  foldl_promoted_mem fields own f hf ho he

theorem mem_insertStr (x y : String) : ∀ l : List String, x ∈ insertStr y l ↔ x = y ∨ x ∈ l
  | [] => by simp [insertStr]
  | z :: zs => by
    simp only [insertStr]
    split
    · simp
    · simp only [List.mem_cons, mem_insertStr x y zs]
      constructor
      · rintro (h | h | h)
        · exact Or.inr (Or.inl h)
        · exact Or.inl h
        · exact Or.inr (Or.inr h)
      · rintro (h | h | h)
        · exact Or.inr (Or.inl h)
        · exact Or.inl h
        · exact Or.inr (Or.inr h)

theorem mem_sortStrings (x : String) : ∀ l : List String, x ∈ sortStrings l ↔ x ∈ l
  | [] => by simp [sortStrings]
  | y :: ys => by
    have ih := mem_sortStrings x ys
    simp only [sortStrings, List.foldr] at ih ⊢
    rw [mem_insertStr, ih]
    simp

/-- **Build guarantees `GroupsListed`** -/
theorem buildMessage_groupsListed (fuel : Nat) (cfg : CfgView) (req : Request) (desc : MsgD) (isRoot : Bool) (path : String)
    (m : Msg) (h : buildMessage fuel cfg req desc isRoot path = .ok m) : GroupsListed m := by
  cases fuel with
  | zero => unfold buildMessage at h; cases h
  | succ n =>
    unfold buildMessage at h
    simp only at h
    split at h
    · cases h
    · rename_i fields _
      injection h with h
      subst h
      intro f hf he hb
      simp only at hf ⊢
      have := mem_withPromotedOneOfs (oneOfNames desc) fields f hf hb.1 he
      split
      · exact (mem_sortStrings _ _).mpr this
      · exact this

-- ------------------------------------------------------------------------------------------------------
-- 12. corollaries

/-- the holder of the group of every branch among the message's own fields (Build lists these groups:
`buildMessage_groupsListed`) holds the same value after the two calls -/
theorem holders_of_groupsListed (m : Msg) (attrs : Option (List (String × TfVal))) (p1 p2 : List (String × GoVal))
    (r1 r2 : FromResult) (hres : PriorIndepRes m attrs p1 p2 r1 r2) (hg : GroupsListed m) (f : Field) (hf : f ∈ m.fields)
    (he : f.info.parentIsOptionalEmbed = false) (hb : IsBranch f.info) :
    r1.obj.field? f.info.oneOfName = r2.obj.field? f.info.oneOfName :=
  hres.holders _ (hg f hf he hb)

theorem cfield_unalloc' (P n : String) (o : GoVal) (h : ¬ Alloc (o.field? P)) : cfield P n o = none := by
  rw [cfield_eq_innerF]
  exact innerF_unalloc _ _ h

/-- **literal prior-independence below a parent that is nil in both priors**: every field of the embedded struct holds
the same value after the two calls, and the parent pointer is allocated in both results or in none -/
theorem children_literal_of_nil_priors (m : Msg) (attrs : Option (List (String × TfVal))) (p1 p2 : List (String × GoVal))
    (r1 r2 : FromResult) (hres : PriorIndepRes m attrs p1 p2 r1 r2) (P : String) (hP : EmbedPar m.fields P)
    (h1 : ¬ Alloc ((GoVal.struct p1).field? P)) (h2 : ¬ Alloc ((GoVal.struct p2).field? P)) :
    (Alloc (r1.obj.field? P) ↔ Alloc (r2.obj.field? P)) ∧ ∀ n, cfield P n r1.obj = cfield P n r2.obj := by
  obtain ⟨ha, hn⟩ := hres.childLit P hP ⟨fun h => absurd h h1, fun h => absurd h h2⟩
  refine ⟨ha, fun n => ?_⟩
  rcases hn n with h | ⟨e1, e2⟩
  · exact h
  · rw [e1, e2, cfield_unalloc' P n _ h1, cfield_unalloc' P n _ h2]

-- ------------------------------------------------------------------------------------------------------
-- 13. witnesses and a concrete message

namespace Ex
open OrderIndep.SiblingEx

/-- scalar branches `X1`, `X2` of the oneof group `Kind` -/
def fX1 : Field := { info :=
  { name := "X1", nameSnake := "x1", kind := .primitive, protoType := "string", oneOfName := "Kind", oneOfType := "pkg.M_X1",
    tf := { valueType := tyS, elemValueType := tyS, valueCastToType := "string", valueCastFromType := "string", zeroValue := "\"\"" } } }
def fX2 : Field := { info :=
  { name := "X2", nameSnake := "x2", kind := .primitive, protoType := "string", oneOfName := "Kind", oneOfType := "pkg.M_X2",
    tf := { valueType := tyS, elemValueType := tyS, valueCastToType := "string", valueCastFromType := "string", zeroValue := "\"\"" } } }

/-- the message: a string `S`; the oneof group `Kind` = {`X1`, `X2`}; the nullable embedded message `E` with the two
children `L` (repeated string) and `A` (string) – `fS`, `fL`, `fA` of OrderIndepSiblings.lean -/
def exM : Msg := { info := { name := "M", oneOfNames := ["Kind"] }, fields := [fS, fX1, fX2, fL, fA] }

def str (s : List UInt8) : TfVal := .prim .string false false (.str s)
def nullStr : TfVal := .prim .string false true (.str [])
def nullList : TfVal := .list false true none (some (.prim .string))

def attrs1 : List (String × TfVal) := [("s", str [104, 105]), ("x1", str [118]), ("x2", nullStr),
  ("l", .list false false (some [str [121]]) (some (.prim .string))), ("a", nullStr)]

/-- `s` = "hi", `x1` = "v", `x2` null, `l` = ["y"], `a` null -/
def tf1 : TfVal := .obj false false (some attrs1) none

/-- every child of `E` null -/
def tfNull : TfVal := .obj false false (some [("s", str [104, 105]), ("x1", nullStr), ("x2", nullStr),
  ("l", nullList), ("a", nullStr)]) none

/-- `l` null, `a` = "x" -/
def tfKnownA : TfVal := .obj false false (some [("s", str [104, 105]), ("x1", nullStr), ("x2", nullStr),
  ("l", nullList), ("a", str [120])]) none

/-- a prior with `E` nil, the other branch of `Kind` active, and a Go field `Z` the schema does not describe -/
def pNil : List (String × GoVal) :=
  [("S", .sc (.str [111])), ("Kind", .iface (some ("M_X2", "X2", .sc (.str [113])))), ("Z", .sc (.w64 7))]
/-- a prior with `E` allocated and both children set -/
def pAlloc : List (String × GoVal) :=
  [("E", .ptr (some (.struct [("A", .sc (.str [113])), ("L", .slice (some [.sc (.str [119])]))]))), ("Z", .sc (.w64 8))]

theorem exM_sideOK : SideOK exM := by decide
theorem exM_groupsListed : GroupsListed exM := by decide

theorem pNil_E : (GoVal.struct pNil).field? "E" = none := by decide
theorem pAlloc_E : (GoVal.struct pAlloc).field? "E" =
    some (.ptr (some (.struct [("A", .sc (.str [113])), ("L", .slice (some [.sc (.str [119])]))]))) := by
  simp [pAlloc, GoVal.field?, List.lookup]

theorem exM_parent (c : Field) (hc : c ∈ exM.fields) (he : c.info.parentIsOptionalEmbed = true) :
    c.info.parentIsOptionalEmbedFieldName = "E" := by
  simp only [exM, List.mem_cons, List.mem_nil_iff, or_false] at hc
  rcases hc with rfl | rfl | rfl | rfl | rfl <;> first | (exact absurd he (by decide)) | rfl

theorem exM_priorWF_nil : PriorWF exM pNil := by
  intro c hc he s e
  rw [exM_parent c hc he, pNil_E] at e
  cases e

theorem exM_priorWF_alloc : PriorWF exM pAlloc := by
  intro c hc he s e
  rw [exM_parent c hc he, pAlloc_E] at e
  injection e with e
  injection e with e
  injection e with e
  subst e
  trivial

def isOk {α : Type} : Outcome α → Bool
  | .ok _ => true
  | _ => false

/-- string content of a Go field (for the evaluated comparisons below) -/
def strOf : Option GoVal → Option (List UInt8)
  | some (.sc (.str x)) => some x
  | _ => none

/-- wrapper / branch / string payload of a holder -/
def holderOf? : Option GoVal → Option (String × String × List UInt8)
  | some (.iface (some (w, n, .sc (.str x)))) => some (w, n, x)
  | _ => none

/-- **non-vacuity, evaluated** (four parts): the message `exM` (one group, one nullable embedded parent with two
children), the object `tf1` (`x1` known, `x2` null; child `l` known, child `a` null) and the two different priors `pNil`
(parent nil, other branch active) and `pAlloc` (parent allocated, both children set).  (1) both calls succeed without
diagnostics or hook calls, `S` and the holder of `Kind` are literally equal -/
theorem ex_evaluated_plain :
    (match copyFrom [] exM tf1 (.struct pNil), copyFrom [] exM tf1 (.struct pAlloc) with
     | .ok r1, .ok r2 =>
       r1.diags.isEmpty && r2.diags.isEmpty && r1.hooks.isEmpty && r2.hooks.isEmpty &&
       strOf (r1.obj.field? "S") == some [104, 105] && strOf (r2.obj.field? "S") == some [104, 105] &&
       holderOf? (r1.obj.field? "Kind") == some ("M_X1", "X1", [118]) &&
       holderOf? (r2.obj.field? "Kind") == some ("M_X1", "X1", [118])
     | _, _ => false) = true := by
  decide

/-- (2) behind `E`: `A` reset to "", `L` = ["y"] in both results -/
theorem ex_evaluated_children :
    (match copyFrom [] exM tf1 (.struct pNil), copyFrom [] exM tf1 (.struct pAlloc) with
     | .ok r1, .ok r2 =>
       strOf (cfield "E" "A" r1.obj) == some [] && strOf (cfield "E" "A" r2.obj) == some [] &&
       (match cfield "E" "L" r1.obj, cfield "E" "L" r2.obj with
        | some (.slice (some [.sc (.str x)])), some (.slice (some [.sc (.str y)])) => x == [121] && y == [121]
        | _, _ => false)
     | _, _ => false) = true := by
  decide

/-- (3) the two results are equal in the normal form of the property (`nfEqFields exM.fields` is the conjunction of the
two parts; evaluated in two steps to stay within the default heartbeats of `decide`) -/
theorem ex_evaluated_nfEq_L :
    (match copyFrom [] exM tf1 (.struct pNil), copyFrom [] exM tf1 (.struct pAlloc) with
     | .ok r1, .ok r2 => nfEqFields [fL] r1.obj r2.obj
     | _, _ => false) = true := by
  decide

theorem ex_evaluated_nfEq_rest :
    (match copyFrom [] exM tf1 (.struct pNil), copyFrom [] exM tf1 (.struct pAlloc) with
     | .ok r1, .ok r2 => nfEqFields [fS, fX1, fX2, fA] r1.obj r2.obj
     | _, _ => false) = true := by
  decide

/-- (4) the undescribed Go field `Z` keeps the value of the respective prior -/
theorem ex_evaluated_frame :
    (match copyFrom [] exM tf1 (.struct pNil), copyFrom [] exM tf1 (.struct pAlloc) with
     | .ok r1, .ok r2 =>
       (match r1.obj.field? "Z", r2.obj.field? "Z" with
        | some (.sc (.w64 a)), some (.sc (.w64 b)) => a == 7 && b == 8
        | _, _ => false)
     | _, _ => false) = true := by
  decide

/-- **literal prior-independence fails below a parent that is nil in one prior and allocated in the other, all children
null**: from `pNil` the parent stays nil; from `pAlloc` it stays allocated, with reset children (`A` = "", `L` = [] – the
F3 repair `else if parent != nil`).  The results differ literally and are equal in the normal form. -/
theorem literal_fails_all_null :
    (match copyFrom [] exM tfNull (.struct pNil), copyFrom [] exM tfNull (.struct pAlloc) with
     | .ok r1, .ok r2 =>
       (match r1.obj.field? "E", r2.obj.field? "E" with
        | none, some (.ptr (some (.struct [(a, .sc (.str x)), (l, .slice (some []))]))) => a == "A" && x == [] && l == "L"
        | _, _ => false) &&
       nfEqFields exM.fields r1.obj r2.obj && nfEqFields exM.fields r2.obj r1.obj &&
       r1.diags.isEmpty && r2.diags.isEmpty
     | _, _ => false) = true := by
  decide

/-- **… and it fails as well when a child is known**, if a null sibling comes first in the field order: the block of `L`
(null) runs before the block of `A` (known) allocates the parent – from `pNil` it finds the parent nil and does nothing
(`E.L` stays the nil slice), from `pAlloc` it resets `E.L` to the EMPTY slice.  Equal in the normal form only. -/
theorem literal_fails_known_after_null :
    (match copyFrom [] exM tfKnownA (.struct pNil), copyFrom [] exM tfKnownA (.struct pAlloc) with
     | .ok r1, .ok r2 =>
       (match r1.obj.field? "E", r2.obj.field? "E" with
        | some (.ptr (some (.struct [(a1, .sc (.str x1))]))),
          some (.ptr (some (.struct [(a2, .sc (.str x2)), (l2, .slice (some []))]))) =>
            a1 == "A" && x1 == [120] && a2 == "A" && x2 == [120] && l2 == "L"
        | _, _ => false) &&
       nfEqFields exM.fields r1.obj r2.obj && nfEqFields exM.fields r2.obj r1.obj &&
       r1.diags.isEmpty && r2.diags.isEmpty
     | _, _ => false) = true := by
  decide

theorem ex_writes (f : Field) (a : TfVal) (hph : f.info.isPlaceholder = false) (hnb : ¬ IsBranch f.info)
    (hl : attrs1.lookup f.info.nameSnake = some a) (hv : a.vkind = vkindOf f.info.tf.valueType) (hnu : a.vkind ≠ .unknown) :
    Writes (attrsOf tf1) f.info :=
  ⟨hph, Or.inr ⟨a, hl, hv, hnu⟩, fun hb => absurd hb hnb⟩

theorem exM_namesOK : NamesOK exM.fields := by
  refine ⟨?_, ?_, ?_⟩
  · intro f hf g hg hef heg _ hn
    simp only [exM, List.mem_cons, List.mem_nil_iff, or_false] at hf hg
    rcases hf with rfl | rfl | rfl | rfl | rfl <;> rcases hg with rfl | rfl | rfl | rfl | rfl <;>
      first | rfl | (exact absurd hef (by decide)) | (exact absurd heg (by decide)) | (exact absurd hn (by decide))
  · rintro f hf _ _ ⟨c, hc, hce, hcp⟩
    rw [exM_parent c hc hce] at hcp
    simp only [exM, List.mem_cons, List.mem_nil_iff, or_false] at hf
    rcases hf with rfl | rfl | rfl | rfl | rfl <;> exact absurd hcp (by decide)
  · rintro f hf _ ⟨c, hc, hce, hcp⟩
    rw [exM_parent c hc hce] at hcp
    simp only [exM, List.mem_cons, List.mem_nil_iff, or_false] at hf
    rcases hf with rfl | rfl | rfl | rfl | rfl <;> exact absurd hcp (by decide)

/-- **non-vacuity of the hypotheses** of `copyFrom_prior_independent_all` and `copyFrom_prior_independent_nfEq`: they hold
for the message `exM`, the object `tf1` and the two priors `pNil`, `pAlloc` -/
theorem ex_hyps : SideOK exM ∧ GroupsListed exM ∧ PriorWF exM pNil ∧ PriorWF exM pAlloc ∧ NamesOK exM.fields ∧
    ∀ g ∈ exM.fields, Covered exM (attrsOf tf1) g.info := by
  refine ⟨exM_sideOK, exM_groupsListed, exM_priorWF_nil, exM_priorWF_alloc, exM_namesOK, ?_⟩
  intro g hg
  simp only [exM, List.mem_cons, List.mem_nil_iff, or_false] at hg
  rcases hg with rfl | rfl | rfl | rfl | rfl
  · exact ⟨fun h => absurd rfl h, fun _ => Or.inr (ex_writes fS (str [104, 105]) rfl (by decide) rfl (by decide) (by decide))⟩
  · exact ⟨fun _ => Or.inl (by decide), fun h => absurd h (by decide)⟩
  · exact ⟨fun _ => Or.inl (by decide), fun h => absurd h (by decide)⟩
  · exact ⟨fun h => absurd rfl h, fun _ => Or.inr (ex_writes fL (.list false false (some [str [121]]) (some (.prim .string)))
      rfl (by decide) rfl (by decide) (by decide))⟩
  · exact ⟨fun h => absurd rfl h, fun _ => Or.inr (ex_writes fA nullStr rfl (by decide) rfl (by decide) (by decide))⟩

/-- both calls of the example succeed, so the general theorem applies to them -/
theorem ex_applies : ∃ r1 r2, copyFrom [] exM tf1 (.struct pNil) = .ok r1 ∧ copyFrom [] exM tf1 (.struct pAlloc) = .ok r2 ∧
    PriorIndepRes exM (attrsOf tf1) pNil pAlloc r1 r2 := by
  have h1 : isOk (copyFrom [] exM tf1 (.struct pNil)) = true := by decide
  have h2 : isOk (copyFrom [] exM tf1 (.struct pAlloc)) = true := by decide
  cases e1 : copyFrom [] exM tf1 (.struct pNil) with
  | ok r1 =>
    cases e2 : copyFrom [] exM tf1 (.struct pAlloc) with
    | ok r2 =>
      exact ⟨r1, r2, rfl, rfl, (copyFrom_prior_independent_all [] exM tf1 pNil pAlloc exM_sideOK exM_priorWF_nil
        exM_priorWF_alloc).2 r1 r2 e1 e2⟩
    | panic w => rw [e2] at h2; cases h2
    | stuck w => rw [e2] at h2; cases h2
  | panic w => rw [e1] at h1; cases h1
  | stuck w => rw [e1] at h1; cases h1

-- the statements that do NOT hold, kept visible, with their refutations

/-- literal prior-independence for the children of a nullable embedded message whose blocks assign, whenever the
attribute of at least one child of that message is known (the conjecture in the task description) -/
def literal_if_child_known_full : Prop :=
  ∀ (ov : List (String × String)) (m : Msg) (tf : TfVal) (p1 p2 : List (String × GoVal)), SideOK m → PriorWF m p1 → PriorWF m p2 →
    ∀ r1 r2, copyFrom ov m tf (.struct p1) = .ok r1 → copyFrom ov m tf (.struct p2) = .ok r2 →
    ∀ c ∈ m.fields, Writes (attrsOf tf) c.info → c.info.parentIsOptionalEmbed = true → ¬ IsBranch c.info →
      (∃ d ∈ m.fields, d.info.parentIsOptionalEmbed = true ∧
        d.info.parentIsOptionalEmbedFieldName = c.info.parentIsOptionalEmbedFieldName ∧ Known (attrsOf tf) d.info) →
      cfield c.info.parentIsOptionalEmbedFieldName c.info.name r1.obj =
        cfield c.info.parentIsOptionalEmbedFieldName c.info.name r2.obj

/-- the same without the hypothesis on a known child: literal prior-independence for all children whose blocks assign -/
def literal_children_full : Prop :=
  ∀ (ov : List (String × String)) (m : Msg) (tf : TfVal) (p1 p2 : List (String × GoVal)), SideOK m → PriorWF m p1 → PriorWF m p2 →
    ∀ r1 r2, copyFrom ov m tf (.struct p1) = .ok r1 → copyFrom ov m tf (.struct p2) = .ok r2 →
    ∀ c ∈ m.fields, Writes (attrsOf tf) c.info → c.info.parentIsOptionalEmbed = true → ¬ IsBranch c.info →
      cfield c.info.parentIsOptionalEmbedFieldName c.info.name r1.obj =
        cfield c.info.parentIsOptionalEmbedFieldName c.info.name r2.obj

theorem known_after_null_L :
    (match copyFrom [] exM tfKnownA (.struct pNil), copyFrom [] exM tfKnownA (.struct pAlloc) with
     | .ok r1, .ok r2 => (cfield "E" "L" r1.obj).isNone && (cfield "E" "L" r2.obj).isSome
     | _, _ => false) = true := by
  decide

theorem literal_if_child_known_false : ¬ literal_if_child_known_full := by
  intro h
  have w := known_after_null_L
  have hwL : Writes (attrsOf tfKnownA) fL.info :=
    ⟨rfl, Or.inr ⟨nullList, rfl, by decide, by decide⟩, fun hb => absurd hb (by decide)⟩
  have hkA : Known (attrsOf tfKnownA) fA.info := ⟨str [120], rfl, rfl, by decide, by decide⟩
  cases e1 : copyFrom [] exM tfKnownA (.struct pNil) with
  | ok r1 =>
    cases e2 : copyFrom [] exM tfKnownA (.struct pAlloc) with
    | ok r2 =>
      rw [e1, e2] at w
      simp only [Bool.and_eq_true] at w
      have := h [] exM tfKnownA pNil pAlloc exM_sideOK exM_priorWF_nil exM_priorWF_alloc r1 r2 e1 e2 fL (by simp [exM]) hwL rfl
        (by decide) ⟨fA, by simp [exM], rfl, rfl, hkA⟩
      have e : cfield "E" "L" r1.obj = cfield "E" "L" r2.obj := this
      rw [e] at w
      cases hc : cfield "E" "L" r2.obj <;> rw [hc] at w <;> simp at w
    | panic _ => rw [e1, e2] at w; cases w
    | stuck _ => rw [e1, e2] at w; cases w
  | panic _ => rw [e1] at w; cases w
  | stuck _ => rw [e1] at w; cases w

theorem literal_children_false : ¬ literal_children_full :=
  fun h => literal_if_child_known_false (fun ov m tf p1 p2 hs w1 w2 r1 r2 e1 e2 c hc hw he hnb _ =>
    h ov m tf p1 p2 hs w1 w2 r1 r2 e1 e2 c hc hw he hnb)

/-- "the two calls succeed together" without the side condition `shapeOKb` -/
def same_success_full : Prop :=
  ∀ (ov : List (String × String)) (m : Msg) (tf : TfVal) (p1 p2 : List (String × GoVal)), PriorWF m p1 → PriorWF m p2 →
    ((∃ r, copyFrom ov m tf (.struct p1) = .ok r) ↔ (∃ r, copyFrom ov m tf (.struct p2) = .ok r))

/-- the ill-typed child `B` of OrderIndepSiblings.lean (a message field whose block asserts a list value) with a null list:
the block is skipped when the parent is nil and stuck when it is allocated -/
def badM : Msg := { info := { name := "M" }, fields := [fBad] }
def tfBad : TfVal := .obj false false (some [("b", nullList)]) none

theorem same_success_false : ¬ same_success_full := by
  intro h
  have h1 : isOk (copyFrom [] badM tfBad (.struct [])) = true := by decide
  have h2 : isOk (copyFrom [] badM tfBad (.struct [("E", .ptr (some (.struct [])))])) = false := by decide
  have w1 : PriorWF badM [] := by
    intro c _ _ s e
    simp [GoVal.field?, List.lookup] at e
  have w2 : PriorWF badM [("E", .ptr (some (.struct [])))] := by
    intro c hc _ s e
    simp only [badM, List.mem_singleton] at hc
    subst hc
    simp [GoVal.field?, List.lookup, fBad] at e
    subst e
    trivial
  have hiff := h [] badM tfBad [] [("E", .ptr (some (.struct [])))] w1 w2
  cases e1 : copyFrom [] badM tfBad (.struct []) with
  | ok r1 =>
    obtain ⟨r2, e2⟩ := hiff.mp ⟨r1, e1⟩
    rw [e2] at h2
    cases h2
  | panic _ => rw [e1] at h1; cases h1
  | stuck _ => rw [e1] at h1; cases h1

/-- **a block whose attribute is missing assigns nothing**: without the attribute `s` the field `S` keeps what the
respective prior held (and a diagnostic is appended) – the "left alone by both runs" alternative of `PriorIndepRes.plain`
is needed for fields of the message itself as well; `PriorIndepRes.written` says exactly when the first alternative holds -/
theorem missing_attribute_keeps_prior :
    (match copyFrom [] { info := { name := "M" }, fields := [fS] } (.obj false false (some []) none) (.struct [("S", .sc (.str [111]))]),
           copyFrom [] { info := { name := "M" }, fields := [fS] } (.obj false false (some []) none) (.struct [("S", .sc (.str [112]))]) with
     | .ok r1, .ok r2 =>
       strOf (r1.obj.field? "S") == some [111] && strOf (r2.obj.field? "S") == some [112] && r1.diags == r2.diags &&
       r1.diags.length == 1
     | _, _ => false) = true := by
  decide

/-- a scalar branch `Y` of the group `G` of the nullable embedded message `E` (Build does not list the groups of such
children in `oneOfNames`: `withPromotedOneOfs` skips them) -/
def fY : Field := { info :=
  { name := "Y", nameSnake := "y", kind := .primitive, protoType := "string", oneOfName := "G", oneOfType := "pkg.E_Y",
    parentIsOptionalEmbed := true, parentIsOptionalEmbedFieldName := "E",
    tf := { valueType := tyS, elemValueType := tyS, valueCastToType := "string", valueCastFromType := "string", zeroValue := "\"\"" } } }

/-- **the holder of a group that is not listed in `oneOfNames` is not reset**: with the branch attribute null the holder
keeps what the prior held – the "left alone by both runs" alternative of `PriorIndepRes.plain` is needed -/
theorem unlisted_group_keeps_prior :
    (match copyFrom [] { info := { name := "M" }, fields := [fY] } (.obj false false (some [("y", nullStr)]) none) (.struct []),
           copyFrom [] { info := { name := "M" }, fields := [fY] } (.obj false false (some [("y", nullStr)]) none)
             (.struct [("G", .iface (some ("E_Y", "Y", .sc (.str [113]))))]) with
     | .ok r1, .ok r2 =>
       (match r1.obj.field? "G", r2.obj.field? "G" with
        | none, some (.iface (some (w, n, .sc (.str x)))) => w == "E_Y" && n == "Y" && x == [113]
        | _, _ => false)
     | _, _ => false) = true := by
  decide

end Ex

end PriorIndep
end PGT

#print axioms PGT.PriorIndep.block_uniform
#print axioms PGT.PriorIndep.desc_writes
#print axioms PGT.PriorIndep.copyFrom_prior_independent_all
#print axioms PGT.PriorIndep.children_literal_of_nil_priors
#print axioms PGT.PriorIndep.copyFrom_prior_independent_nfEq
#print axioms PGT.PriorIndep.buildMessage_groupsListed
#print axioms PGT.PriorIndep.Ex.ex_applies
#print axioms PGT.PriorIndep.Ex.literal_if_child_known_false
#print axioms PGT.PriorIndep.Ex.same_success_false
