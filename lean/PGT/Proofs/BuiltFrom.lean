import PGT.Proofs.BuiltWF
import PGT.Proofs.FromUniformAll
import PGT.Proofs.FromConforms
import PGT.Proofs.ToInPlace
import PGT.Proofs.ToIdem
import PGT.Proofs.SchemaTyped
import PGT.Proofs.FromOneof
import PGT.Props.C09
/-
P62 - C05 / C07 / C09 for the IRs the front end BUILDS: the IR-side hypotheses of the CopyFrom uniformity theorems
(FromUniformAll), of the typing judgement `Conforms` (FromConforms), of the oneof theorems (FromOneof / Props.C07) and of the
in-place CopyTo theorems (ToInPlace, ToIdem) are discharged for built IRs from BuiltWF's invariant (`Built`, `NodeCoh`,
`built_shapeOK`, `buildMessage_groupsListed`, `root_irwfs_iff`). What the build does NOT guarantee is name hygiene; it is ONE
Boolean on the built IR, `hygieneB`.

1. `hygieneB m` (Boolean) / `Hygiene m` (six readable conjuncts) / `hygiene_iff`; `hygienePartsB`, `hygieneB_parts`;
   `sideOK_of_hygiene` (SideOK = shape of the children [guaranteed] + hygiene), `namesOK_of_hygiene` (OrderIndepSiblings.NamesOK),
   `gapFreeB_oneof` (no gap: a oneof name sits on a scalar / message branch outside nullable embedded messages),
   `groupOK_of_hygiene` (FromOneof.GroupOK for every field and every listed group).
2. (a) `built_sideOK`, `built_covered` (`Covered` reduced to `LiveAll`, a condition on the Terraform value; `liveAll_of_conformsAttrs`),
   `C05_built_root_prior_independent`, `C05_built_root_holders`, `C05_built_root_prior_independent_nfEq`.
3. (d) `fromFields_holder'` (FromOneof's fold WITHOUT "no placeholder among the fields" - the build does not guarantee it:
   `Witness.w_placeholderSibling`), `built_holder`, `C07_built_root_from_all_null`, `C07_built_root_from_one_known`.
4. (b) `ConformsV` / `ConformsVAttrs` (the value part of `Conforms`: the shape of the type the SCHEMA declares), `ConfNode` (the IR
   part), `built_confNode`, `conforms_iff_built` / `built_conformsAttrs_iff` (on built IRs `Conforms` = its value part),
   `C05_built_root_no_diagnostics` (no Boolean needed), `C05_built_root_prior_independent_conforming` (all clauses of C05).
5. (c) `ShapedV` / `ShapedVAttrs` (the value part of `Shaped`), `shaped_iff_built` / `built_shapedAttrs_iff`.
6. (c) `built_root_toOKs`, `C09_built_root_step`, `C09_built_root_sequence`, `C09_built_root_sequence_last`,
   `C09_built_root_idempotent`, `built_root_target_iff`.
7. `Witness`: a built IR violating each of the six conjuncts of `hygieneB` (`decide +kernel`), the placeholder next to other
   fields; `built_sideOK_full_false`, `built_namesOK_full_false` (the unconditional statements are false).
8. `Sanity`: the Booleans on BuiltWF's `Sanity` root, the restated theorems instantiated on it, an executable cross-check.
9. the same for every message `buildRoots` emits.

Hypotheses of the `…_built_root_…` theorems: `buildRoot cfg req desc = .ok (some m)`, `ConfigTypesAgree (viewOf cfg)`, Booleans on `m`
(`gapFreeBs`, `namesOKsB` [BuiltWF], `hygieneB`), typing of the values (struct values: `ValOKs`, `PriorWF`; Terraform values:
`ConformsVAttrs`, `ShapedVAttrs`, `LiveAll`, and the known / unknown conditions of C07).

FINDING: `hph` ("no placeholder among the fields") of `C07_from_all_null` / `C07_from_one_known` is not guaranteed by the build
and is not needed (a placeholder has no block); the restated theorems do without it.
Over-approximation kept: `Hygiene.nameNotHolder` also constrains the Go names of children of nullable embedded messages (which
live in the embedded struct and cannot clash with a holder in Go) - `GroupOK` (FromOneof) asks it through `writeKeys`.
-/
set_option linter.unusedVariables false
namespace PGT.Proofs.BuiltFrom
open PGT PGT.Spec PGT.SchemaTyped PGT.Proofs.BuildErrors PGT.Proofs.PathUnique PGT.Proofs.ExclusionPrune PGT.Proofs.BuiltWF
open PGT.PriorIndep PGT.OrderIndep

-- ======================================================================================================
-- 1. name hygiene of a message, as ONE Boolean on the IR
-- ======================================================================================================

/-- the Go names of the pointers to nullable embedded messages with a child among the fields -/
def parsOf (fs : List Field) : List String :=
  (fs.filter (·.info.parentIsOptionalEmbed)).map (·.info.parentIsOptionalEmbedFieldName)

theorem mem_parsOf (fs : List Field) (k : String) : k ∈ parsOf fs ↔ EmbedPar fs k := by
  unfold parsOf EmbedPar
  simp only [List.mem_map, List.mem_filter]
  constructor
  · rintro ⟨f, ⟨hf, he⟩, hk⟩; exact ⟨f, hf, he, hk⟩
  · rintro ⟨f, hf, he, hk⟩; exact ⟨f, ⟨hf, he⟩, hk⟩

def hygieneB (m : Msg) : Bool :=
  !m.info.oneOfNames.contains "" &&
  m.fields.all (fun f =>
    !m.info.oneOfNames.contains f.info.name &&
    !m.info.oneOfNames.contains f.info.parentIsOptionalEmbedFieldName &&
    (f.info.parentIsOptionalEmbed || decide (IsBranch f.info) || !(parsOf m.fields).contains f.info.name) &&
    (f.info.oneOfName == "" || !(parsOf m.fields).contains f.info.oneOfName) &&
    m.fields.all (fun g =>
      !(f.info.parentIsOptionalEmbed && g.info.parentIsOptionalEmbed &&
        f.info.parentIsOptionalEmbedFieldName == g.info.parentIsOptionalEmbedFieldName && f.info.name == g.info.name) ||
      decide (f.info = g.info)))

structure Hygiene (m : Msg) : Prop where
  holderNE : "" ∉ m.info.oneOfNames
  nameNotHolder : ∀ f ∈ m.fields, f.info.name ∉ m.info.oneOfNames
  parNotHolder : ∀ f ∈ m.fields, f.info.parentIsOptionalEmbedFieldName ∉ m.info.oneOfNames
  nameNotPar : ∀ f ∈ m.fields, f.info.parentIsOptionalEmbed = false → ¬ IsBranch f.info → ¬ EmbedPar m.fields f.info.name
  groupNotPar : ∀ f ∈ m.fields, f.info.oneOfName ≠ "" → ¬ EmbedPar m.fields f.info.oneOfName
  childNames : ∀ f ∈ m.fields, ∀ g ∈ m.fields, f.info.parentIsOptionalEmbed = true → g.info.parentIsOptionalEmbed = true →
    f.info.parentIsOptionalEmbedFieldName = g.info.parentIsOptionalEmbedFieldName → f.info.name = g.info.name →
    f.info = g.info

theorem hygiene_iff (m : Msg) : hygieneB m = true ↔ Hygiene m := by
  unfold hygieneB
  simp only [Bool.and_eq_true, Bool.not_eq_true', List.all_eq_true, Bool.or_eq_true, decide_eq_true_eq,
    List.contains_eq_mem, decide_eq_false_iff_not, mem_parsOf, beq_iff_eq, Bool.and_eq_false_imp]
  constructor
  · rintro ⟨h0, h⟩
    refine ⟨h0, fun f hf => (h f hf).1.1.1.1, fun f hf => (h f hf).1.1.1.2, fun f hf he hb => ?_, fun f hf ho => ?_,
      fun f hf g hg he1 he2 hp hn => ?_⟩
    · rcases (h f hf).1.1.2 with (h1 | h1) | h1
      · rw [he] at h1; cases h1
      · exact absurd h1 hb
      · exact h1
    · rcases (h f hf).1.2 with h1 | h1
      · exact absurd h1 ho
      · exact h1
    · rcases (h f hf).2 g hg with h1 | h1
      · have := h1 ⟨⟨he1, he2⟩, hp⟩
        rw [hn] at this
        simp at this
      · exact h1
  · intro H
    refine ⟨H.holderNE, fun f hf => ⟨⟨⟨⟨H.nameNotHolder f hf, H.parNotHolder f hf⟩, ?_⟩, ?_⟩, fun g hg => ?_⟩⟩
    · cases he : f.info.parentIsOptionalEmbed with
      | true => exact Or.inl (Or.inl rfl)
      | false =>
        by_cases hb : IsBranch f.info
        · exact Or.inl (Or.inr hb)
        · exact Or.inr (H.nameNotPar f hf he hb)
    · by_cases ho : f.info.oneOfName = ""
      · exact Or.inl ho
      · exact Or.inr (H.groupNotPar f hf ho)
    · by_cases hc : (f.info.parentIsOptionalEmbed = true ∧ g.info.parentIsOptionalEmbed = true) ∧
          f.info.parentIsOptionalEmbedFieldName = g.info.parentIsOptionalEmbedFieldName
      · by_cases hn : f.info.name = g.info.name
        · exact Or.inr (H.childNames f hf g hg hc.1.1 hc.1.2 hc.2 hn)
        · exact Or.inl (fun _ => by simpa using hn)
      · exact Or.inl (fun h => absurd h hc)

instance (m : Msg) : Decidable (Hygiene m) := decidable_of_iff _ (hygiene_iff m)


/-- **`SideOK` (FromUniformAll) = shape of the children (guaranteed by the build) + name hygiene** -/
theorem sideOK_of_hygiene (m : Msg) (H : Hygiene m)
    (hs : ∀ c ∈ m.fields, c.info.parentIsOptionalEmbed = true → shapeOKb c.info = true) : SideOK m := by
  intro c hc he
  refine ⟨hs c hc he, H.parNotHolder c hc, fun f hf hbr => ?_⟩
  unfold wk
  by_cases hb : IsBranch f.info
  · simp only [hb, if_true]
    intro e
    exact H.groupNotPar f hf hb.1 ⟨c, hc, he, e.symm⟩
  · simp only [hb, if_false]
    intro e
    have hef : f.info.parentIsOptionalEmbed = false := by
      cases h : f.info.parentIsOptionalEmbed with
      | false => rfl
      | true => exact absurd (hbr h) hb
    exact H.nameNotPar f hf hef hb ⟨c, hc, he, e.symm⟩

/-- `NamesOK` (OrderIndepSiblings: distinct Go names below / around the pointers to nullable embedded messages) -/
theorem namesOK_of_hygiene (m : Msg) (H : Hygiene m) : OrderIndep.NamesOK m.fields :=
  ⟨H.childNames, fun f hf he ho => H.nameNotPar f hf he (fun hb => hb.1 ho), H.groupNotPar⟩

-- what `gapFreeB` says of oneof branches ----------------------------------------------------------------

theorem gapFreeBs_mem : ∀ (fs : List Field), gapFreeBs fs = true → ∀ f ∈ fs, gapFreeB f = true
  | [], _, f, hf => by cases hf
  | g :: rest, h, f, hf => by
    rw [gapFreeBs, Bool.and_eq_true] at h
    rcases List.mem_cons.mp hf with rfl | hf
    · exact h.1
    · exact gapFreeBs_mem rest h.2 f hf

/-- on a node without gap a oneof name sits on a scalar / message branch that is no child of a nullable embedded message -/
theorem gapFreeB_oneof (f : Field) (h : gapFreeB f = true) (ho : f.info.oneOfName ≠ "") :
    f.info.parentIsOptionalEmbed = false ∧ IsBranch f.info := by
  obtain ⟨info, mv, msg, sub⟩ := f
  simp only at ho ⊢
  have hoe : (info.oneOfName == "") = false := by simpa using ho
  unfold gapFreeB at h
  rw [Bool.and_eq_true] at h
  obtain ⟨h1, h2⟩ := h
  refine ⟨by simpa [hoe] using h1, ho, ?_⟩
  cases hk : info.kind <;> simp only [hk, hoe, Bool.false_and, Bool.false_eq_true] at h2 <;> simp

/-- **`GroupOK g` (FromOneof) for every field** of a message without gap and with name hygiene, for a listed group -/
theorem groupOK_of_hygiene (m : Msg) (H : Hygiene m) (hg : gapFreeBs m.fields = true) (g : String)
    (hgl : g ∈ m.info.oneOfNames) : ∀ f ∈ m.fields, GroupOK g f := by
  intro f hf
  by_cases ho : f.info.oneOfName = g
  · have hne : f.info.oneOfName ≠ "" := by
      rw [ho]; intro e; rw [e] at hgl; exact H.holderNE hgl
    obtain ⟨he, hb⟩ := gapFreeB_oneof f (gapFreeBs_mem _ hg f hf) hne
    exact Or.inl ⟨ho, hb.2, he⟩
  · refine Or.inr ?_
    unfold writeKeys
    simp only [List.mem_cons, List.mem_nil_iff, or_false, not_or]
    refine ⟨fun e => H.nameNotHolder f hf (e ▸ hgl), fun e => ho e.symm, fun e => H.parNotHolder f hf (e ▸ hgl)⟩

-- ======================================================================================================
-- 2. (a) C05, prior independence, for built roots
-- ======================================================================================================

/-- **`SideOK` for every built message**: the shape part is guaranteed, the rest is name hygiene -/
theorem built_sideOK (fuel : Nat) (V : CfgView) (req : Request) (desc : MsgD) (isRoot : Bool) (path : String) (m : Msg)
    (h : buildMessage fuel V req desc isRoot path = .ok m) (hc : ConfigTypesAgree V) (hh : hygieneB m = true) : SideOK m :=
  sideOK_of_hygiene m ((hygiene_iff m).mp hh) (fun c hcm _ => built_shapeOK fuel V req desc isRoot path m h hc c hcm)

/-- the attribute of every field that has a block and is in no oneof group passes the type assertion of its block
(value side of `Covered`) -/
def LiveAll (m : Msg) (attrs : Option (List (String × TfVal))) : Prop :=
  ∀ f ∈ m.fields, f.info.isPlaceholder = false → f.info.oneOfName = "" → Live attrs f.info

theorem live_of_conforms (attrs : Option (List (String × TfVal))) (f : Field) (a : TfVal)
    (hl : (attrs.getD []).lookup f.info.nameSnake = some a) (hc : Conforms f a) : Live attrs f.info := by
  obtain ⟨info, mv, msg, sub⟩ := f
  unfold Conforms at hc
  unfold Live
  simp only at hl ⊢
  cases hk : info.kind <;> simp only [hk] at hc
  case custom => exact Or.inl rfl
  case primitive =>
    obtain ⟨k, u, n, p, rfl, hv, _⟩ := hc
    exact Or.inr ⟨_, hl, by rw [hv]; rfl, by simp [TfVal.vkind]⟩
  case object =>
    obtain ⟨u, n, as, tys, rfl, hv, _⟩ := hc
    exact Or.inr ⟨_, hl, by rw [hv]; rfl, by simp [TfVal.vkind]⟩
  case primitiveList =>
    obtain ⟨u, n, es, et, rfl, hv, _⟩ := hc
    exact Or.inr ⟨_, hl, by rw [hv]; rfl, by simp [TfVal.vkind]⟩
  case objectList =>
    obtain ⟨u, n, es, et, rfl, hv, _⟩ := hc
    exact Or.inr ⟨_, hl, by rw [hv]; rfl, by simp [TfVal.vkind]⟩
  case primitiveMap =>
    obtain ⟨u, n, es, et, rfl, hv, _⟩ := hc
    exact Or.inr ⟨_, hl, by rw [hv]; rfl, by simp [TfVal.vkind]⟩
  case objectMap =>
    obtain ⟨u, n, es, et, rfl, hv, _⟩ := hc
    exact Or.inr ⟨_, hl, by rw [hv]; rfl, by simp [TfVal.vkind]⟩

theorem liveAll_of_conformsAttrs (attrs : Option (List (String × TfVal))) : ∀ (fs : List Field),
    ConformsAttrs fs (attrs.getD []) → ∀ f ∈ fs, f.info.isPlaceholder = false → Live attrs f.info
  | [], _, f, hf, _ => by cases hf
  | g :: rest, h, f, hf, hp => by
    unfold ConformsAttrs at h
    rcases List.mem_cons.mp hf with rfl | hf
    · rcases h.1 with h1 | ⟨a, hl, hc⟩
      · rw [hp] at h1; cases h1
      · exact live_of_conforms attrs f a hl hc
    · exact liveAll_of_conformsAttrs attrs rest h.2 f hf hp

/-- **`Covered` for built messages without gap**: the IR side (groups listed, the placeholder is a scalar, a oneof name sits
on a branch outside nullable embedded messages) is discharged; what remains is `LiveAll`, on the Terraform value -/
theorem built_covered (fuel : Nat) (V : CfgView) (req : Request) (desc : MsgD) (isRoot : Bool) (path : String) (m : Msg)
    (h : buildMessage fuel V req desc isRoot path = .ok m) (hg : gapFreeBs m.fields = true)
    (attrs : Option (List (String × TfVal))) (hl : LiveAll m attrs) : ∀ f ∈ m.fields, Covered m attrs f.info := by
  intro f hf
  refine ⟨fun ho => ?_, fun ho => ?_⟩
  · obtain ⟨he, hb⟩ := gapFreeB_oneof f (gapFreeBs_mem _ hg f hf) ho
    exact Or.inl (buildMessage_groupsListed fuel V req desc isRoot path m h f hf he hb)
  · cases hp : f.info.isPlaceholder with
    | true =>
      have hb := (builts_iff V _).mp (built_message V req fuel desc isRoot path m h) f hf
      rw [built_unfold] at hb
      exact Or.inl ⟨rfl, (hb.1.placeholder hp).1⟩
    | false =>
      exact Or.inr ⟨hp, hl f hf hp ho, fun hb => absurd ho hb.1⟩

/-- **C05 for every root the generator builds: the result of `Copy<T>FromTerraform` is determined by the Terraform value alone.**
Hypotheses: the root is built; the configured time / duration types agree; name hygiene (`hygieneB`, a Boolean on the built
IR); typing of the two prior structs (`PriorWF`: a parent pointer that is set points to a struct). Every Terraform value,
conforming or not. Conclusion: the calls succeed together, and two successful calls satisfy `PriorIndepRes`; the groups of all
branches among the root's own fields are listed (`GroupsListed`), so `PriorIndepRes.holders` covers them. -/
theorem C05_built_root_prior_independent (ov : List (String × String)) (cfg : Config) (req : Request) (desc : MsgD) (m : Msg)
    (hb : buildRoot cfg req desc = .ok (some m)) (hc : ConfigTypesAgree (viewOf cfg)) (hh : hygieneB m = true)
    (tf : TfVal) (p1 p2 : List (String × GoVal)) (hw1 : PriorWF m p1) (hw2 : PriorWF m p2) :
    ((∃ r, copyFrom ov m tf (.struct p1) = .ok r) ↔ (∃ r, copyFrom ov m tf (.struct p2) = .ok r)) ∧
    (∀ r1 r2, copyFrom ov m tf (.struct p1) = .ok r1 → copyFrom ov m tf (.struct p2) = .ok r2 →
      PriorIndepRes m (attrsOf tf) p1 p2 r1 r2) ∧
    GroupsListed m :=
  have hs := built_sideOK _ _ req desc true "" m (buildRoot_inv hb) hc hh
  ⟨(copyFrom_prior_independent_all ov m tf p1 p2 hs hw1 hw2).1, (copyFrom_prior_independent_all ov m tf p1 p2 hs hw1 hw2).2,
    buildMessage_groupsListed _ _ req desc true "" m (buildRoot_inv hb)⟩

/-- … and the holder of the group of every branch among the root's own fields holds the same value after the two calls -/
theorem C05_built_root_holders (ov : List (String × String)) (cfg : Config) (req : Request) (desc : MsgD) (m : Msg)
    (hb : buildRoot cfg req desc = .ok (some m)) (hc : ConfigTypesAgree (viewOf cfg)) (hh : hygieneB m = true)
    (tf : TfVal) (p1 p2 : List (String × GoVal)) (hw1 : PriorWF m p1) (hw2 : PriorWF m p2)
    (r1 r2 : FromResult) (e1 : copyFrom ov m tf (.struct p1) = .ok r1) (e2 : copyFrom ov m tf (.struct p2) = .ok r2)
    (f : Field) (hf : f ∈ m.fields) (he : f.info.parentIsOptionalEmbed = false) (hbr : IsBranch f.info) :
    r1.obj.field? f.info.oneOfName = r2.obj.field? f.info.oneOfName := by
  obtain ⟨_, h2, h3⟩ := C05_built_root_prior_independent ov cfg req desc m hb hc hh tf p1 p2 hw1 hw2
  exact holders_of_groupsListed m _ p1 p2 r1 r2 (h2 r1 r2 e1 e2) h3 f hf he hbr

/-- **C05 for built roots, in the normal form of the property** (`Spec.nfEqFields`): moreover the IR has no gap and the
attributes of the Terraform object pass the type assertions (`LiveAll`; implied by `ConformsAttrs`) -/
theorem C05_built_root_prior_independent_nfEq (ov : List (String × String)) (cfg : Config) (req : Request) (desc : MsgD)
    (m : Msg) (hb : buildRoot cfg req desc = .ok (some m)) (hc : ConfigTypesAgree (viewOf cfg))
    (hg : gapFreeBs m.fields = true) (hh : hygieneB m = true)
    (tf : TfVal) (hl : LiveAll m (attrsOf tf)) (p1 p2 : List (String × GoVal)) (hw1 : PriorWF m p1) (hw2 : PriorWF m p2)
    (r1 r2 : FromResult) (e1 : copyFrom ov m tf (.struct p1) = .ok r1) (e2 : copyFrom ov m tf (.struct p2) = .ok r2) :
    nfEqFields m.fields r1.obj r2.obj = nfEqFields m.fields r1.obj r1.obj ∧
    nfEqFields m.fields r2.obj r1.obj = nfEqFields m.fields r1.obj r1.obj ∧
    nfEqFields m.fields r2.obj r2.obj = nfEqFields m.fields r1.obj r1.obj :=
  copyFrom_prior_independent_nfEq ov m tf p1 p2 (built_sideOK _ _ req desc true "" m (buildRoot_inv hb) hc hh) hw1 hw2
    (namesOK_of_hygiene m ((hygiene_iff m).mp hh))
    (built_covered _ _ req desc true "" m (buildRoot_inv hb) hg _ hl) r1 r2 e1 e2

-- ======================================================================================================
-- 3. (d) C07 (CopyFrom), for built roots
-- ======================================================================================================

/-- `fromFields_holder` (FromOneof) without "no placeholder among the fields": a placeholder has no block, so it is enough
that it is no branch of the group (built IRs: its oneof name is empty). Needed because a built message CAN hold a
placeholder next to other fields (an embedded message without fields: `Witness.w_placeholderSibling`). -/
theorem fromFields_holder' (ov : List (String × String)) (g : String) (hg : g ≠ "") :
    ∀ (fs : List Field) (attrs : Option (List (String × TfVal))) (st st' : FromSt), IsStruct st.obj →
    (∀ f ∈ fs, GroupOK g f) → (∀ f ∈ fs, f.info.isPlaceholder = true → f.info.oneOfName ≠ g) →
    copyFromFields ov fs attrs st = .ok st' →
    IsStruct st'.obj ∧
    ((st'.obj.field? g = st.obj.field? g ∧ ∀ f ∈ fs, ¬ (f.info.oneOfName = g ∧ BranchKnown attrs f)) ∨
     (∃ f ∈ fs, f.info.oneOfName = g ∧ (∃ a, (attrs.getD []).lookup f.info.nameSnake = some a ∧ a.isKnown = true) ∧
       ∃ t, st'.obj.field? g = some (.iface (some (lastSegment f.info.oneOfType, f.info.name, t)))))
  | [], _, st, st', hs, _, _, h => by
    simp only [copyFromFields] at h
    injection h with h
    subst h
    exact ⟨hs, Or.inl ⟨rfl, by simp⟩⟩
  | f :: rest, attrs, st, st', hs, hok, hph, h => by
    cases hp : f.info.isPlaceholder with
    | true =>
      simp only [copyFromFields, hp, if_true] at h
      obtain ⟨hs2, h2⟩ := fromFields_holder' ov g hg rest attrs st st' hs (fun x hx => hok x (by simp [hx]))
        (fun x hx => hph x (by simp [hx])) h
      refine ⟨hs2, ?_⟩
      rcases h2 with ⟨heq, hnone⟩ | ⟨f2, hf2, ho2, hk2, t2, hset2⟩
      · left
        refine ⟨heq, fun x hx => ?_⟩
        rcases List.mem_cons.mp hx with rfl | hx
        · exact fun hc => hph x (by simp) hp hc.1
        · exact hnone x hx
      · right
        exact ⟨f2, by simp [hf2], ho2, hk2, t2, hset2⟩
    | false =>
      simp only [copyFromFields, hp, Bool.false_eq_true, if_false] at h
      cases hf : copyFromField ov f attrs st with
      | ok st1 =>
        rw [hf] at h
        obtain ⟨hs1, h1⟩ := fromField_holder ov g hg f attrs st st1 hs (hok f (by simp)) hf
        obtain ⟨hs2, h2⟩ := fromFields_holder' ov g hg rest attrs st1 st' hs1 (fun x hx => hok x (by simp [hx]))
          (fun x hx => hph x (by simp [hx])) h
        refine ⟨hs2, ?_⟩
        rcases h2 with ⟨heq, hnone⟩ | ⟨f2, hf2, ho2, hk2, t2, hset2⟩
        · rcases h1 with ⟨heq1, hn1⟩ | ⟨ho1, hk1, t1, hset1⟩
          · left
            refine ⟨by rw [heq, heq1], ?_⟩
            intro x hx
            simp only [List.mem_cons] at hx
            rcases hx with rfl | hx
            · exact hn1
            · exact hnone x hx
          · right
            exact ⟨f, by simp, ho1, hk1, t1, by rw [heq]; exact hset1⟩
        · right
          exact ⟨f2, by simp [hf2], ho2, hk2, t2, hset2⟩
      | panic w => rw [hf] at h; cases h
      | stuck w => rw [hf] at h; cases h

/-- the placeholder of a built message is in no oneof group -/
theorem built_placeholder_oneof (fuel : Nat) (V : CfgView) (req : Request) (desc : MsgD) (isRoot : Bool) (path : String)
    (m : Msg) (h : buildMessage fuel V req desc isRoot path = .ok m) :
    ∀ f ∈ m.fields, f.info.isPlaceholder = true → f.info.oneOfName = "" := by
  intro f hf hp
  have hb := (builts_iff V _).mp (built_message V req fuel desc isRoot path m h) f hf
  rw [built_unfold] at hb
  exact (hb.1.placeholder hp).2.1

/-- the holder of a listed group after `Copy<T>FromTerraform` on a built message without gap and with name hygiene: nil
unless a branch with a known attribute assigned it – then the wrapper of such a branch -/
theorem built_holder (fuel : Nat) (V : CfgView) (req : Request) (desc : MsgD) (isRoot : Bool) (path : String)
    (m : Msg) (hbm : buildMessage fuel V req desc isRoot path = .ok m)
    (hg : gapFreeBs m.fields = true) (hh : hygieneB m = true)
    (ov : List (String × String)) (u n : Bool) (attrs : Option (List (String × TfVal)))
    (atys : Option (List (String × TfTy))) (prior : List (String × GoVal)) (g : String) (hgl : g ∈ m.info.oneOfNames)
    (r : FromResult) (h : copyFrom ov m (.obj u n attrs atys) (.struct prior) = .ok r) :
    (r.obj.field? g = some (.iface none) ∧ ∀ f ∈ m.fields, ¬ (f.info.oneOfName = g ∧ BranchKnown attrs f)) ∨
    (∃ f ∈ m.fields, f.info.oneOfName = g ∧ (∃ a, (attrs.getD []).lookup f.info.nameSnake = some a ∧ a.isKnown = true) ∧
      ∃ t, r.obj.field? g = some (.iface (some (lastSegment f.info.oneOfType, f.info.name, t)))) := by
  have H := (hygiene_iff m).mp hh
  have hne : g ≠ "" := fun e => H.holderNE (e ▸ hgl)
  unfold copyFrom at h
  simp only [] at h
  cases hf : copyFromFields ov m.fields attrs { obj := resetOneOfs m.info.oneOfNames (.struct prior) } with
  | ok st' =>
    rw [hf] at h
    injection h with h
    subst h
    obtain ⟨_, hh'⟩ := fromFields_holder' ov g hne m.fields attrs _ st'
      (isStruct_resetOneOfs m.info.oneOfNames (.struct prior) trivial) (groupOK_of_hygiene m H hg g hgl)
      (fun f hf hp e => hne (e ▸ built_placeholder_oneof fuel V req desc isRoot path m hbm f hf hp)) hf
    rcases hh' with ⟨heq, hnone⟩ | hset
    · left
      refine ⟨?_, hnone⟩
      simp only [heq]
      rw [field?_resetOneOfs m.info.oneOfNames (.struct prior) trivial]
      simp [hgl]
    · exact Or.inr hset
  | panic w => rw [hf] at h; cases h
  | stuck w => rw [hf] at h; cases h

/-- **C07 (CopyFrom) for every root the generator builds: all branch attributes of a group null or unknown ⇒ the oneof is
nil – whatever the target held.** Hypotheses: the root is built, has no gap (`gapFreeBs`) and name hygiene (`hygieneB`);
`g` is one of its groups; value side: no attribute of a branch of `g` is known. Every Terraform object (also malformed
ones), every prior struct. -/
theorem C07_built_root_from_all_null (ov : List (String × String)) (cfg : Config) (req : Request) (desc : MsgD) (m : Msg)
    (hb : buildRoot cfg req desc = .ok (some m)) (hg : gapFreeBs m.fields = true) (hh : hygieneB m = true)
    (u n : Bool) (attrs : Option (List (String × TfVal))) (atys : Option (List (String × TfTy)))
    (prior : List (String × GoVal)) (g : String) (hgl : g ∈ m.info.oneOfNames)
    (hnull : ∀ f ∈ m.fields, f.info.oneOfName = g → ∀ a, (attrs.getD []).lookup f.info.nameSnake = some a → a.isKnown = false)
    (r : FromResult) (h : copyFrom ov m (.obj u n attrs atys) (.struct prior) = .ok r) :
    r.obj.field? g = some (.iface none) := by
  rcases built_holder _ _ req desc true "" m (buildRoot_inv hb) hg hh ov u n attrs atys prior g hgl r h with
    ⟨h1, _⟩ | ⟨f, hf, ho, ⟨a, hl, hk⟩, _⟩
  · exact h1
  · rw [hnull f hf ho a hl] at hk; cases hk

/-- **C07 (CopyFrom) for every root the generator builds: exactly one branch known and non-null ⇒ the oneof holds that
branch.** `f0` is a field of the root with a oneof name (on a root without gap: a scalar / message branch, its group listed);
value side: its attribute is known, non-null and of the right Go type, no other branch attribute of the group is known. -/
theorem C07_built_root_from_one_known (ov : List (String × String)) (cfg : Config) (req : Request) (desc : MsgD) (m : Msg)
    (hb : buildRoot cfg req desc = .ok (some m)) (hg : gapFreeBs m.fields = true) (hh : hygieneB m = true)
    (u n : Bool) (attrs : Option (List (String × TfVal))) (atys : Option (List (String × TfTy)))
    (prior : List (String × GoVal))
    (f0 : Field) (hf0 : f0 ∈ m.fields) (ho0 : f0.info.oneOfName ≠ "") (hk0 : BranchKnown attrs f0)
    (hothers : ∀ f ∈ m.fields, f.info.oneOfName = f0.info.oneOfName →
      f.info.name ≠ f0.info.name ∨ f.info.oneOfType ≠ f0.info.oneOfType →
      ∀ a, (attrs.getD []).lookup f.info.nameSnake = some a → a.isKnown = false)
    (r : FromResult) (h : copyFrom ov m (.obj u n attrs atys) (.struct prior) = .ok r) :
    ∃ t, r.obj.field? f0.info.oneOfName = some (.iface (some (lastSegment f0.info.oneOfType, f0.info.name, t))) := by
  obtain ⟨he0, hb0⟩ := gapFreeB_oneof f0 (gapFreeBs_mem _ hg f0 hf0) ho0
  have hgl := buildMessage_groupsListed _ _ req desc true "" m (buildRoot_inv hb) f0 hf0 he0 hb0
  rcases built_holder _ _ req desc true "" m (buildRoot_inv hb) hg hh ov u n attrs atys prior _ hgl r h with
    ⟨_, hnone⟩ | ⟨f, hfm, ho, ⟨a, hl, hk⟩, t, hset⟩
  · exact absurd ⟨rfl, hk0⟩ (hnone f0 hf0)
  · by_cases hsame : f.info.name = f0.info.name ∧ f.info.oneOfType = f0.info.oneOfType
    · exact ⟨t, by rw [← hsame.1, ← hsame.2]; exact hset⟩
    · have hd : f.info.name ≠ f0.info.name ∨ f.info.oneOfType ≠ f0.info.oneOfType := by
        by_cases h1 : f.info.name = f0.info.name
        · right; intro h2; exact hsame ⟨h1, h2⟩
        · left; exact h1
      rw [hothers f hfm ho hd a hl] at hk
      cases hk

-- ======================================================================================================
-- 4. (b) C05, no diagnostics: the IR side of `Conforms` (FromConforms), discharged for built IRs
-- ======================================================================================================

mutual
/-- **the value part of `Conforms`**: the attribute value has the shape of the type the SCHEMA declares for the field
(`primTyOf ElemType`, Schema.lean) – no reference to the value types the emitted assertions name (`tf.valueType`,
`tf.elemValueType`); known scalars can be cast; known objects / elements conform recursively -/
def ConformsV : Field → TfVal → Prop
  | ⟨info, mapVal, msg, sub⟩, a =>
    match info.kind with
    | .custom => True
    | .primitive =>
      ∃ k u n p, a = .prim k u n p ∧ primTyOf info.tf.elemType = .prim k ∧
        (known u n = true → ∃ c, info.castFrom k p = some c)
    | .object =>
      ∃ u n as tys, a = .obj u n as tys ∧
        (known u n = true → isEmptyMsg msg = false → ConformsVAttrs sub (as.getD []))
    | .primitiveList =>
      ∃ u n es et, a = .list u n es et ∧
        (known u n = true → ∀ e ∈ es.getD [], ∃ k u' n' p, e = .prim k u' n' p ∧ primTyOf info.tf.elemType = .prim k ∧
          (known u' n' = true → ∃ c, info.castFrom k p = some c))
    | .objectList =>
      ∃ u n es et, a = .list u n es et ∧
        (known u n = true → ∀ e ∈ es.getD [], ∃ u' n' as tys, e = .obj u' n' as tys ∧
          (known u' n' = true → ConformsVAttrs sub (as.getD [])))
    | .primitiveMap =>
      ∃ u n es et, a = .map u n es et ∧
        (known u n = true → ∀ e ∈ es.getD [], ∃ k u' n' p, e.2 = .prim k u' n' p ∧
          primTyOf (mapVal.getD info).tf.elemType = .prim k ∧ (known u' n' = true → ∃ c, info.castFrom k p = some c))
    | .objectMap =>
      ∃ u n es et, a = .map u n es et ∧
        (known u n = true → ∀ e ∈ es.getD [], ∃ u' n' as tys, e.2 = .obj u' n' as tys ∧
          (known u' n' = true → ConformsVAttrs sub (as.getD [])))
def ConformsVAttrs : List Field → List (String × TfVal) → Prop
  | [], _ => True
  | f :: rest, attrs =>
    (f.info.isPlaceholder = true ∨ ∃ a, attrs.lookup f.info.nameSnake = some a ∧ ConformsV f a) ∧ ConformsVAttrs rest attrs
end

/-- **the IR part of `Conforms`** at one node: the value types the emitted type assertions name have the constructor of the
kind, and on scalar-valued nodes the primitive kind the schema declares -/
structure ConfNode (info : FieldInfo) (mv : Option FieldInfo) : Prop where
  prim : info.kind = .primitive → ∀ k, vkindOf info.tf.valueType = .prim k ↔ primTyOf info.tf.elemType = .prim k
  obj : info.kind = .object → vkindOf info.tf.valueType = .obj
  list : info.kind = .primitiveList ∨ info.kind = .objectList → vkindOf info.tf.valueType = .list
  map : info.kind = .primitiveMap ∨ info.kind = .objectMap → vkindOf info.tf.valueType = .map
  primList : info.kind = .primitiveList → ∀ k, vkindOf info.tf.elemValueType = .prim k ↔ primTyOf info.tf.elemType = .prim k
  objList : info.kind = .objectList → vkindOf info.tf.elemValueType = .obj
  primMap : info.kind = .primitiveMap →
    ∀ k, vkindOf (mv.getD info).tf.elemValueType = .prim k ↔ primTyOf (mv.getD info).tf.elemType = .prim k
  objMap : info.kind = .objectMap → vkindOf (mv.getD info).tf.elemValueType = .obj

theorem prim_pair {v : VKind} {t : TfTy} {k0 : PrimK} (h1 : v = .prim k0) (h2 : t = .prim k0) :
    ∀ k, v = .prim k ↔ t = .prim k := by
  intro k
  subst h1 h2
  constructor
  · intro h; injection h with h; rw [h]
  · intro h; injection h with h; rw [h]

/-- **every built node satisfies the IR part of `Conforms`** -/
theorem built_confNode {V : CfgView} (hc : ConfigTypesAgree V) (info : FieldInfo) (mv : Option FieldInfo)
    (msg : Option MsgInfo) (sub : List Field) (h : Built V ⟨info, mv, msg, sub⟩) : ConfNode info mv := by
  have coh := built_nodeCoh hc info mv msg sub h
  rw [Built] at h
  obtain ⟨hi, _, _, _⟩ := h
  have hsh := coh.shape
  unfold shapeOKb at hsh
  refine ⟨fun hk => ?_, fun hk => ?_, fun hk => ?_, fun hk => ?_, fun hk => ?_, fun hk => ?_, fun hk => ?_, fun hk => ?_⟩
  · obtain ⟨hr, hm⟩ := coh.singleFlags (Or.inl hk)
    obtain ⟨k0, h1, h2⟩ := coh.primElem (Or.inl hk)
    rw [(hi.nonMap hm).2.2.1 hr]
    exact prim_pair h1 h2
  · simp only [hk] at hsh; exact eq_of_beq hsh
  · rcases hk with hk | hk <;> (simp only [hk] at hsh; exact eq_of_beq hsh)
  · rcases hk with hk | hk <;> (simp only [hk] at hsh; exact eq_of_beq hsh)
  · obtain ⟨k0, h1, h2⟩ := coh.primElem (Or.inr (Or.inl hk))
    exact prim_pair h1 h2
  · exact (coh.objElem (Or.inr (Or.inl hk))).1
  · obtain ⟨k0, h1, h2⟩ := coh.primElem (Or.inr (Or.inr hk))
    rw [coh.mvElem.1, coh.mvElem.2]
    exact prim_pair h1 h2
  · exact (coh.objElem (Or.inr (Or.inr hk))).2

mutual
/-- **on built nodes `Conforms` is exactly its value part** -/
theorem conforms_iff_built {V : CfgView} (hc : ConfigTypesAgree V) :
    ∀ (f : Field) (a : TfVal), Built V f → (Conforms f a ↔ ConformsV f a)
  | ⟨info, mv, msg, sub⟩, a, hb => by
    have cn := built_confNode hc info mv msg sub hb
    rw [Built] at hb
    have ih := conformsAttrs_iff_built hc sub hb.2.2.2
    unfold Conforms ConformsV
    cases hk : info.kind with
    | custom => simp only []
    | primitive =>
      simp only []
      constructor
      · rintro ⟨k, u, n, p, rfl, hv, hcst⟩
        exact ⟨k, u, n, p, rfl, (cn.prim hk k).mp hv, hcst⟩
      · rintro ⟨k, u, n, p, rfl, hv, hcst⟩
        exact ⟨k, u, n, p, rfl, (cn.prim hk k).mpr hv, hcst⟩
    | object =>
      simp only []
      constructor
      · rintro ⟨u, n, as, tys, rfl, _, hs⟩
        exact ⟨u, n, as, tys, rfl, fun h1 h2 => (ih _).mp (hs h1 h2)⟩
      · rintro ⟨u, n, as, tys, rfl, hs⟩
        exact ⟨u, n, as, tys, rfl, cn.obj hk, fun h1 h2 => (ih _).mpr (hs h1 h2)⟩
    | primitiveList =>
      simp only []
      constructor
      · rintro ⟨u, n, es, et, rfl, _, hs⟩
        refine ⟨u, n, es, et, rfl, fun h1 e he => ?_⟩
        obtain ⟨k, u', n', p, rfl, hv, hcst⟩ := hs h1 e he
        exact ⟨k, u', n', p, rfl, (cn.primList hk k).mp hv, hcst⟩
      · rintro ⟨u, n, es, et, rfl, hs⟩
        refine ⟨u, n, es, et, rfl, cn.list (Or.inl hk), fun h1 e he => ?_⟩
        obtain ⟨k, u', n', p, rfl, hv, hcst⟩ := hs h1 e he
        exact ⟨k, u', n', p, rfl, (cn.primList hk k).mpr hv, hcst⟩
    | objectList =>
      simp only []
      constructor
      · rintro ⟨u, n, es, et, rfl, _, hs⟩
        refine ⟨u, n, es, et, rfl, fun h1 e he => ?_⟩
        obtain ⟨u', n', as, tys, rfl, _, hcs⟩ := hs h1 e he
        exact ⟨u', n', as, tys, rfl, fun h2 => (ih _).mp (hcs h2)⟩
      · rintro ⟨u, n, es, et, rfl, hs⟩
        refine ⟨u, n, es, et, rfl, cn.list (Or.inr hk), fun h1 e he => ?_⟩
        obtain ⟨u', n', as, tys, rfl, hcs⟩ := hs h1 e he
        exact ⟨u', n', as, tys, rfl, cn.objList hk, fun h2 => (ih _).mpr (hcs h2)⟩
    | primitiveMap =>
      simp only []
      constructor
      · rintro ⟨u, n, es, et, rfl, _, hs⟩
        refine ⟨u, n, es, et, rfl, fun h1 e he => ?_⟩
        obtain ⟨k, u', n', p, he2, hv, hcst⟩ := hs h1 e he
        exact ⟨k, u', n', p, he2, (cn.primMap hk k).mp hv, hcst⟩
      · rintro ⟨u, n, es, et, rfl, hs⟩
        refine ⟨u, n, es, et, rfl, cn.map (Or.inl hk), fun h1 e he => ?_⟩
        obtain ⟨k, u', n', p, he2, hv, hcst⟩ := hs h1 e he
        exact ⟨k, u', n', p, he2, (cn.primMap hk k).mpr hv, hcst⟩
    | objectMap =>
      simp only []
      constructor
      · rintro ⟨u, n, es, et, rfl, _, hs⟩
        refine ⟨u, n, es, et, rfl, fun h1 e he => ?_⟩
        obtain ⟨u', n', as, tys, he2, _, hcs⟩ := hs h1 e he
        exact ⟨u', n', as, tys, he2, fun h2 => (ih _).mp (hcs h2)⟩
      · rintro ⟨u, n, es, et, rfl, hs⟩
        refine ⟨u, n, es, et, rfl, cn.map (Or.inr hk), fun h1 e he => ?_⟩
        obtain ⟨u', n', as, tys, he2, hcs⟩ := hs h1 e he
        exact ⟨u', n', as, tys, he2, cn.objMap hk, fun h2 => (ih _).mpr (hcs h2)⟩
theorem conformsAttrs_iff_built {V : CfgView} (hc : ConfigTypesAgree V) :
    ∀ (fs : List Field), Builts V fs → ∀ attrs : List (String × TfVal), (ConformsAttrs fs attrs ↔ ConformsVAttrs fs attrs)
  | [], _, _ => by unfold ConformsAttrs ConformsVAttrs; exact Iff.rfl
  | f :: rest, hb, attrs => by
    rw [Builts] at hb
    unfold ConformsAttrs ConformsVAttrs
    rw [conformsAttrs_iff_built hc rest hb.2 attrs]
    constructor
    · rintro ⟨h1, h2⟩
      refine ⟨h1.imp id ?_, h2⟩
      rintro ⟨a, hl, hcf⟩
      exact ⟨a, hl, (conforms_iff_built hc f a hb.1).mp hcf⟩
    · rintro ⟨h1, h2⟩
      refine ⟨h1.imp id ?_, h2⟩
      rintro ⟨a, hl, hcf⟩
      exact ⟨a, hl, (conforms_iff_built hc f a hb.1).mpr hcf⟩
end

/-- for every built message: `ConformsAttrs` ⇔ its value part -/
theorem built_conformsAttrs_iff (fuel : Nat) (V : CfgView) (req : Request) (desc : MsgD) (isRoot : Bool) (path : String)
    (m : Msg) (h : buildMessage fuel V req desc isRoot path = .ok m) (hc : ConfigTypesAgree V)
    (attrs : List (String × TfVal)) : ConformsAttrs m.fields attrs ↔ ConformsVAttrs m.fields attrs :=
  conformsAttrs_iff_built hc _ (built_message V req fuel desc isRoot path m h) attrs

/-- **C05, "returns no error diagnostic", for every root the generator builds.** Hypotheses: the root is built; the
configured time / duration types agree; the Terraform object conforms in its VALUE part (`ConformsVAttrs`: every attribute
present with the shape of the type the schema declares, null / unknown allowed at every level, known scalars castable).
No Boolean on the IR is needed. Every prior struct. -/
theorem C05_built_root_no_diagnostics (ov : List (String × String)) (cfg : Config) (req : Request) (desc : MsgD) (m : Msg)
    (hb : buildRoot cfg req desc = .ok (some m)) (hc : ConfigTypesAgree (viewOf cfg))
    (u n : Bool) (attrs : Option (List (String × TfVal))) (atys : Option (List (String × TfTy)))
    (prior : List (String × GoVal)) (h : ConformsVAttrs m.fields (attrs.getD [])) :
    ∃ r, copyFrom ov m (.obj u n attrs atys) (.struct prior) = .ok r ∧ r.diags = [] :=
  copyFrom_conforming_quiet ov m u n attrs atys prior
    ((built_conformsAttrs_iff _ _ req desc true "" m (buildRoot_inv hb) hc _).mpr h)

/-- **C05 for built roots, all clauses together, from an object that conforms in its value part**: both calls succeed
without diagnostics, `PriorIndepRes`, and the results are equal in the normal form -/
theorem C05_built_root_prior_independent_conforming (ov : List (String × String)) (cfg : Config) (req : Request) (desc : MsgD)
    (m : Msg) (hb : buildRoot cfg req desc = .ok (some m)) (hc : ConfigTypesAgree (viewOf cfg))
    (hg : gapFreeBs m.fields = true) (hh : hygieneB m = true)
    (u n : Bool) (attrs : Option (List (String × TfVal))) (atys : Option (List (String × TfTy)))
    (hcv : ConformsVAttrs m.fields (attrs.getD [])) (p1 p2 : List (String × GoVal)) (hw1 : PriorWF m p1) (hw2 : PriorWF m p2) :
    ∃ r1 r2, copyFrom ov m (.obj u n attrs atys) (.struct p1) = .ok r1 ∧ copyFrom ov m (.obj u n attrs atys) (.struct p2) = .ok r2 ∧
      r1.diags = [] ∧ r2.diags = [] ∧ PriorIndepRes m attrs p1 p2 r1 r2 ∧
      nfEqFields m.fields r1.obj r2.obj = nfEqFields m.fields r1.obj r1.obj ∧
      nfEqFields m.fields r2.obj r1.obj = nfEqFields m.fields r1.obj r1.obj ∧
      nfEqFields m.fields r2.obj r2.obj = nfEqFields m.fields r1.obj r1.obj := by
  have hcf := (built_conformsAttrs_iff _ _ req desc true "" m (buildRoot_inv hb) hc _).mpr hcv
  obtain ⟨r1, e1, d1⟩ := copyFrom_conforming_quiet ov m u n attrs atys p1 hcf
  obtain ⟨r2, e2, d2⟩ := copyFrom_conforming_quiet ov m u n attrs atys p2 hcf
  have hl : LiveAll m (attrsOf (.obj u n attrs atys)) := fun f hf hp _ => liveAll_of_conformsAttrs attrs m.fields hcf f hf hp
  exact ⟨r1, r2, e1, e2, d1, d2,
    (C05_built_root_prior_independent ov cfg req desc m hb hc hh _ p1 p2 hw1 hw2).2.1 r1 r2 e1 e2,
    C05_built_root_prior_independent_nfEq ov cfg req desc m hb hc hg hh _ hl p1 p2 hw1 hw2 r1 r2 e1 e2⟩

-- ======================================================================================================
-- 5. (c) the IR side of `Shaped` (ToInPlace), discharged for built IRs
-- ======================================================================================================

mutual
/-- **the value part of `Shaped`**: `Shaped` without its two conjuncts on the IR (`vkindOf tf.elemValueType ≠ .list` on list
fields, `≠ .map` on map fields) -/
def ShapedV : Field → TfVal → TfTy → Prop
  | ⟨info, _, _, sub⟩, a, ty =>
    match info.kind with
    | .primitive => ∃ k u n p, a = .prim k u n p ∧ ty = .prim k
    | .object => ∃ u n as tys, a = .obj u n as (some tys) ∧ ty = .obj (some tys) ∧ ShapedVAttrs sub (as.getD []) tys
    | .primitiveList | .objectList => ∃ u n es et, a = .list u n es et
    | .primitiveMap | .objectMap => ∃ u n es et, a = .map u n es et
    | .custom => True
def ShapedVAttrs : List Field → List (String × TfVal) → List (String × TfTy) → Prop
  | [], _, _ => True
  | f :: rest, attrs, atys =>
    (∀ a, attrs.lookup f.info.nameSnake = some a → ∃ ty, atys.lookup f.info.nameSnake = some ty ∧ ShapedV f a ty) ∧
    ShapedVAttrs rest attrs atys
end

theorem built_elemKind {V : CfgView} (hc : ConfigTypesAgree V) (info : FieldInfo) (mv : Option FieldInfo)
    (msg : Option MsgInfo) (sub : List Field) (h : Built V ⟨info, mv, msg, sub⟩) (hk : info.kind ≠ .custom) :
    vkindOf info.tf.elemValueType ≠ .list ∧ vkindOf info.tf.elemValueType ≠ .map := by
  have coh := built_nodeCoh hc info mv msg sub h
  have : (∃ k, vkindOf info.tf.elemValueType = .prim k) ∨ vkindOf info.tf.elemValueType = .obj := by
    cases hkk : info.kind with
    | custom => exact absurd hkk hk
    | primitive => obtain ⟨k, h1, _⟩ := coh.primElem (Or.inl hkk); exact Or.inl ⟨k, h1⟩
    | primitiveList => obtain ⟨k, h1, _⟩ := coh.primElem (Or.inr (Or.inl hkk)); exact Or.inl ⟨k, h1⟩
    | primitiveMap => obtain ⟨k, h1, _⟩ := coh.primElem (Or.inr (Or.inr hkk)); exact Or.inl ⟨k, h1⟩
    | object => exact Or.inr (coh.objElem (Or.inl hkk)).1
    | objectList => exact Or.inr (coh.objElem (Or.inr (Or.inl hkk))).1
    | objectMap => exact Or.inr (coh.objElem (Or.inr (Or.inr hkk))).1
  rcases this with ⟨k, h1⟩ | h1 <;> rw [h1] <;> exact ⟨fun e => (by cases e), fun e => (by cases e)⟩

mutual
/-- **on built nodes `Shaped` is exactly its value part** -/
theorem shaped_iff_built {V : CfgView} (hc : ConfigTypesAgree V) :
    ∀ (f : Field) (a : TfVal) (ty : TfTy), Built V f → (Shaped f a ty ↔ ShapedV f a ty)
  | ⟨info, mv, msg, sub⟩, a, ty, hb => by
    have hel := built_elemKind hc info mv msg sub hb
    rw [Built] at hb
    have ih := shapedAttrs_iff_built hc sub hb.2.2.2
    unfold Shaped ShapedV
    cases hk : info.kind with
    | custom => simp only []
    | primitive => simp only []
    | object =>
      simp only []
      constructor
      · rintro ⟨u, n, as, tys, rfl, rfl, hs⟩
        exact ⟨u, n, as, tys, rfl, rfl, (ih _ _).mp hs⟩
      · rintro ⟨u, n, as, tys, rfl, rfl, hs⟩
        exact ⟨u, n, as, tys, rfl, rfl, (ih _ _).mpr hs⟩
    | primitiveList => simp only []; exact ⟨fun h => h.1, fun h => ⟨h, (hel (by rw [hk]; decide)).1⟩⟩
    | objectList => simp only []; exact ⟨fun h => h.1, fun h => ⟨h, (hel (by rw [hk]; decide)).1⟩⟩
    | primitiveMap => simp only []; exact ⟨fun h => h.1, fun h => ⟨h, (hel (by rw [hk]; decide)).2⟩⟩
    | objectMap => simp only []; exact ⟨fun h => h.1, fun h => ⟨h, (hel (by rw [hk]; decide)).2⟩⟩
theorem shapedAttrs_iff_built {V : CfgView} (hc : ConfigTypesAgree V) :
    ∀ (fs : List Field), Builts V fs → ∀ (attrs : List (String × TfVal)) (atys : List (String × TfTy)),
      (ShapedAttrs fs attrs atys ↔ ShapedVAttrs fs attrs atys)
  | [], _, _, _ => by unfold ShapedAttrs ShapedVAttrs; exact Iff.rfl
  | f :: rest, hb, attrs, atys => by
    rw [Builts] at hb
    unfold ShapedAttrs ShapedVAttrs
    rw [shapedAttrs_iff_built hc rest hb.2 attrs atys]
    constructor
    · rintro ⟨h1, h2⟩
      refine ⟨fun a ha => ?_, h2⟩
      obtain ⟨ty, hty, hs⟩ := h1 a ha
      exact ⟨ty, hty, (shaped_iff_built hc f a ty hb.1).mp hs⟩
    · rintro ⟨h1, h2⟩
      refine ⟨fun a ha => ?_, h2⟩
      obtain ⟨ty, hty, hs⟩ := h1 a ha
      exact ⟨ty, hty, (shaped_iff_built hc f a ty hb.1).mpr hs⟩
end

/-- for every built message: `ShapedAttrs` ⇔ its value part -/
theorem built_shapedAttrs_iff (fuel : Nat) (V : CfgView) (req : Request) (desc : MsgD) (isRoot : Bool) (path : String)
    (m : Msg) (h : buildMessage fuel V req desc isRoot path = .ok m) (hc : ConfigTypesAgree V)
    (attrs : List (String × TfVal)) (atys : List (String × TfTy)) :
    ShapedAttrs m.fields attrs atys ↔ ShapedVAttrs m.fields attrs atys :=
  shapedAttrs_iff_built hc _ (built_message V req fuel desc isRoot path m h) attrs atys

-- ======================================================================================================
-- 6. (c) C09, in-place CopyTo, for built roots
-- ======================================================================================================

/-- `ToOKs` against the schema's attribute types, for built roots: no gap, distinct attribute names, a typed struct value -/
theorem built_root_toOKs (cfg : Config) (req : Request) (desc : MsgD) (m : Msg) (hb : buildRoot cfg req desc = .ok (some m))
    (hc : ConfigTypesAgree (viewOf cfg)) (hg : gapFreeBs m.fields = true) (hn : namesOKsB m.fields = true)
    (v : GoVal) (hv : ValOKs m.fields v) : ToOKs m.fields v (attrTypesOf m) :=
  toOKs_attrTypesOf m v ((root_irwfs_iff cfg req desc m hb hc).mpr ⟨hg, hn⟩) hv

/-- **C09, one refresh step, for every root the generator builds**: any typed struct value (`ValOKs`) into any target
whose existing attribute values are shaped for the IR (`ShapedVAttrs`, the value part of `ShapedAttrs`, against the schema's
attribute types): no diagnostic,
the result follows the source and is a target again -/
theorem C09_built_root_step (cfg : Config) (req : Request) (desc : MsgD) (m : Msg) (hb : buildRoot cfg req desc = .ok (some m))
    (hc : ConfigTypesAgree (viewOf cfg)) (hg : gapFreeBs m.fields = true) (hn : namesOKsB m.fields = true)
    (v : GoVal) (hv : ValOKs m.fields v) (u n : Bool) (as : Option (List (String × TfVal)))
    (hs : ShapedVAttrs m.fields (as.getD []) (attrTypesOf m)) :
    ∃ r as', copyTo m v (.obj u n as (some (attrTypesOf m))) = .ok r ∧ r.diags = [] ∧
      r.tf = .obj false false (some as') (some (attrTypesOf m)) ∧
      followsFields m.fields v (as.getD []) as' = true ∧ Props.C09.Target m.fields (attrTypesOf m) r.tf := by
  obtain ⟨r, as0, as', h1, h2, h3, h4, h5, h6⟩ := Props.C09.C09_step m v (attrTypesOf m) (.obj u n as (some (attrTypesOf m)))
    (built_root_toOKs cfg req desc m hb hc hg hn v hv)
    ⟨u, n, as, rfl, (built_shapedAttrs_iff _ _ req desc true "" m (buildRoot_inv hb) hc _ _).mpr hs⟩
  subst h4
  exact ⟨r, as', h1, h2, h3, h5, h6⟩

/-- **C09 over arbitrary sequences of calls, for every root the generator builds**: starting from the empty schema-typed
object, every call of a sequence of typed struct values succeeds without diagnostics and the final object is a target -/
theorem C09_built_root_sequence (cfg : Config) (req : Request) (desc : MsgD) (m : Msg)
    (hb : buildRoot cfg req desc = .ok (some m))
    (hc : ConfigTypesAgree (viewOf cfg)) (hg : gapFreeBs m.fields = true) (hn : namesOKsB m.fields = true)
    (vs : List GoVal) (hvs : ∀ v ∈ vs, ValOKs m.fields v) :
    ∃ o', Props.C09.runSeq m vs (.obj false false none (some (attrTypesOf m))) = .ok o' ∧
      Props.C09.Target m.fields (attrTypesOf m) o' :=
  Props.C09.C09_sequence m (attrTypesOf m) vs _ (fun v hv => built_root_toOKs cfg req desc m hb hc hg hn v (hvs v hv))
    (Props.C09.C09_empty_is_target m.fields (attrTypesOf m))

/-- … from any target, and the last call leaves an object that follows its source -/
theorem C09_built_root_sequence_last (cfg : Config) (req : Request) (desc : MsgD) (m : Msg)
    (hb : buildRoot cfg req desc = .ok (some m))
    (hc : ConfigTypesAgree (viewOf cfg)) (hg : gapFreeBs m.fields = true) (hn : namesOKsB m.fields = true)
    (vs : List GoVal) (vlast : GoVal) (hvs : ∀ v ∈ vs, ValOKs m.fields v) (hl : ValOKs m.fields vlast)
    (o : TfVal) (ho : Props.C09.Target m.fields (attrTypesOf m) o) :
    ∃ omid r as as', Props.C09.runSeq m vs o = .ok omid ∧ copyTo m vlast omid = .ok r ∧ r.diags = [] ∧
      r.tf = .obj false false (some as') (some (attrTypesOf m)) ∧ followsFields m.fields vlast as as' = true :=
  Props.C09.C09_sequence_last m (attrTypesOf m) vs vlast o
    (fun v hv => built_root_toOKs cfg req desc m hb hc hg hn v (hvs v hv))
    (built_root_toOKs cfg req desc m hb hc hg hn vlast hl) ho

/-- **C09, idempotence, for every root the generator builds**: after an in-place `CopyTo` of a typed struct value into a
shaped target, the same call on the result returns the same object, without diagnostics -/
theorem C09_built_root_idempotent (cfg : Config) (req : Request) (desc : MsgD) (m : Msg)
    (hb : buildRoot cfg req desc = .ok (some m))
    (hc : ConfigTypesAgree (viewOf cfg)) (hg : gapFreeBs m.fields = true) (hn : namesOKsB m.fields = true)
    (v : GoVal) (hv : ValOKs m.fields v) (u n : Bool) (as : Option (List (String × TfVal)))
    (hs : ShapedVAttrs m.fields (as.getD []) (attrTypesOf m)) (r : ToResult)
    (h : copyTo m v (.obj u n as (some (attrTypesOf m))) = .ok r) :
    ∃ r', copyTo m v r.tf = .ok r' ∧ r'.tf = r.tf ∧ r'.diags = [] :=
  copyTo_idem m v (attrTypesOf m) u n as r (built_root_toOKs cfg req desc m hb hc hg hn v hv)
    ((built_shapedAttrs_iff _ _ req desc true "" m (buildRoot_inv hb) hc _ _).mpr hs) h

/-- a target in the sense of `Props.C09.Target`, for built roots, from the value part -/
theorem built_root_target_iff (cfg : Config) (req : Request) (desc : MsgD) (m : Msg)
    (hb : buildRoot cfg req desc = .ok (some m)) (hc : ConfigTypesAgree (viewOf cfg)) (o : TfVal) :
    Props.C09.Target m.fields (attrTypesOf m) o ↔
      ∃ u n as, o = .obj u n as (some (attrTypesOf m)) ∧ ShapedVAttrs m.fields (as.getD []) (attrTypesOf m) := by
  unfold Props.C09.Target
  constructor
  · rintro ⟨u, n, as, rfl, hs⟩
    exact ⟨u, n, as, rfl, (built_shapedAttrs_iff _ _ req desc true "" m (buildRoot_inv hb) hc _ _).mp hs⟩
  · rintro ⟨u, n, as, rfl, hs⟩
    exact ⟨u, n, as, rfl, (built_shapedAttrs_iff _ _ req desc true "" m (buildRoot_inv hb) hc _ _).mpr hs⟩


-- ======================================================================================================
-- 7. the conjuncts of `hygieneB` one by one, and built IRs that violate each (evaluation, `decide +kernel`)
-- ======================================================================================================

/-- the six conjuncts of `hygieneB`, in the order of the fields of `Hygiene` -/
def hygienePartsB (m : Msg) : List Bool :=
  [ !m.info.oneOfNames.contains "",
    m.fields.all (fun f => !m.info.oneOfNames.contains f.info.name),
    m.fields.all (fun f => !m.info.oneOfNames.contains f.info.parentIsOptionalEmbedFieldName),
    m.fields.all (fun f => f.info.parentIsOptionalEmbed || decide (IsBranch f.info) || !(parsOf m.fields).contains f.info.name),
    m.fields.all (fun f => f.info.oneOfName == "" || !(parsOf m.fields).contains f.info.oneOfName),
    m.fields.all (fun f => m.fields.all (fun g =>
      !(f.info.parentIsOptionalEmbed && g.info.parentIsOptionalEmbed &&
        f.info.parentIsOptionalEmbedFieldName == g.info.parentIsOptionalEmbedFieldName && f.info.name == g.info.name) ||
      decide (f.info = g.info))) ]

theorem hygieneB_parts (m : Msg) : hygieneB m = (hygienePartsB m).all id := by
  rw [Bool.eq_iff_iff]
  unfold hygieneB hygienePartsB
  simp only [List.all_cons, List.all_nil, Bool.and_true, id, Bool.and_eq_true, List.all_eq_true]
  constructor
  · rintro ⟨h0, h⟩
    exact ⟨h0, fun f hf => (h f hf).1.1.1.1, fun f hf => (h f hf).1.1.1.2, fun f hf => (h f hf).1.1.2,
      fun f hf => (h f hf).1.2, fun f hf => (h f hf).2⟩
  · rintro ⟨h0, h1, h2, h3, h4, h5⟩
    exact ⟨h0, fun f hf => ⟨⟨⟨⟨h1 f hf, h2 f hf⟩, h3 f hf⟩, h4 f hf⟩, h5 f hf⟩⟩

namespace Witness

/-- what the witnesses show of the top-level nodes: Go name, attribute name, oneof name, child of a nullable embedded message,
Go name of the parent pointer, placeholder -/
structure HV where
  name : String
  snake : String
  oneOf : String
  child : Bool
  par : String
  ph : Bool
deriving DecidableEq, Repr

/-- the listed oneof holders, the fields, the six conjuncts of `hygieneB`, and `gapFreeBs` -/
def hview (m : Msg) : List String × List HV × List Bool × Bool :=
  (m.info.oneOfNames,
   m.fields.map (fun f => ⟨f.info.name, f.info.nameSnake, f.info.oneOfName, f.info.parentIsOptionalEmbed,
     f.info.parentIsOptionalEmbedFieldName, f.info.isPlaceholder⟩),
   hygienePartsB m, gapFreeBs m.fields)

def dL : MsgD := { name := "L", fields := [{ name := "x", type := "int32" }] }
def dE : MsgD := { name := "E" }

/-- (1) `holderNE` fails: a oneof declared with the empty name (not a protobuf descriptor, but the model has it): the holder
`""` is listed (and with it the empty parent-pointer name of every field that is no child: the third conjunct) -/
def d1 : MsgD := { name := "W", oneofs := [""], fields := [{ name := "a", type := "string", oneof := some 0 }] }
def r1 : Request := { file := { name := "w.proto", package := "w", messages := [d1] } }
theorem w1_emptyHolder : (buildMessage (defaultFuel r1) (viewOf {}) r1 d1 true "").toOption.map hview =
    some ([""], [⟨"A", "a", "", false, "", false⟩], [false, true, false, true, true, true], true) := by decide +kernel

/-- (2) `nameNotHolder` fails: the field `foo_bar` and the oneof `fooBar` get the same Go name `FooBar` -/
def d2 : MsgD := { name := "W", oneofs := ["fooBar"], fields := [
  { name := "a", type := "string", oneof := some 0 }, { name := "foo_bar", type := "string" }] }
def r2 : Request := { file := { name := "w.proto", package := "w", messages := [d2] } }
theorem w2_fieldNamedLikeHolder : (buildMessage (defaultFuel r2) (viewOf {}) r2 d2 true "").toOption.map hview =
    some (["FooBar"], [⟨"A", "a", "FooBar", false, "", false⟩, ⟨"FooBar", "foo_bar", "", false, "", false⟩],
      [true, false, true, true, true, true], true) := by decide +kernel

/-- (3) `parNotHolder` (and `groupNotPar`) fail: the oneof `l` of the message and the message `L` embedded by pointer: the
holder and the parent pointer are both the Go field `L` -/
def d3 : MsgD := { name := "W", oneofs := ["l"], fields := [
  { name := "a", type := "string", oneof := some 0 }, { name := "e", type := "message", typeName := "L", embed := true }] }
def r3 : Request := { file := { name := "w.proto", package := "w", messages := [d3, dL] } }
theorem w3_parentNamedLikeHolder : (buildMessage (defaultFuel r3) (viewOf {}) r3 d3 true "").toOption.map hview =
    some (["L"], [⟨"A", "a", "L", false, "", false⟩, ⟨"X", "x", "", true, "L", false⟩],
      [true, true, false, true, false, true], true) := by decide +kernel

/-- (4) `nameNotPar` fails: the plain field `l` and the message `L` embedded by pointer are both the Go field `L` -/
def d4 : MsgD := { name := "W", fields := [
  { name := "l", type := "string" }, { name := "e", type := "message", typeName := "L", embed := true }] }
def r4 : Request := { file := { name := "w.proto", package := "w", messages := [d4, dL] } }
theorem w4_fieldNamedLikeParent : (buildMessage (defaultFuel r4) (viewOf {}) r4 d4 true "").toOption.map hview =
    some ([], [⟨"L", "l", "", false, "", false⟩, ⟨"X", "x", "", true, "L", false⟩],
      [true, true, true, false, true, true], true) := by decide +kernel

/-- (5) `groupNotPar` alone fails: the group `l` of a message embedded by pointer (not listed: its branches are children of
the nullable embedded message) and the message `L` embedded by pointer (this root also has a gap: `EmbedOK`) -/
def dO : MsgD := { name := "O", oneofs := ["l"], fields := [{ name := "o1", type := "string", oneof := some 0 }] }
def d5 : MsgD := { name := "W", fields := [
  { name := "o", type := "message", typeName := "O", embed := true }, { name := "e", type := "message", typeName := "L", embed := true }] }
def r5 : Request := { file := { name := "w.proto", package := "w", messages := [d5, dL, dO] } }
theorem w5_groupNamedLikeParent : (buildMessage (defaultFuel r5) (viewOf {}) r5 d5 true "").toOption.map hview =
    some ([], [⟨"O1", "o1", "L", true, "O", false⟩, ⟨"X", "x", "", true, "L", false⟩],
      [true, true, true, true, false, true], false) := by decide +kernel

/-- (6) `childNames` fails: two fields of a message embedded by pointer with the same Go name `AB` (`a_b`, `aB`) and
different records -/
def dP : MsgD := { name := "P", fields := [{ name := "a_b", type := "int32" }, { name := "aB", type := "string" }] }
def d6 : MsgD := { name := "W", fields := [{ name := "e", type := "message", typeName := "P", embed := true }] }
def r6 : Request := { file := { name := "w.proto", package := "w", messages := [d6, dP] } }
theorem w6_childrenSameGoName : (buildMessage (defaultFuel r6) (viewOf {}) r6 d6 true "").toOption.map hview =
    some ([], [⟨"AB", "a_b", "", true, "P", false⟩, ⟨"AB", "a_b", "", true, "P", false⟩],
      [true, true, true, true, true, false], true) := by decide +kernel

/-- (7) "no placeholder among the fields" (hypothesis `hph` of `C07_from_all_null` / `C07_from_one_known`) is NOT guaranteed:
a message without fields embedded by value leaves its placeholder next to the other fields (all of `hygieneB` and `gapFreeBs`
hold); `fromFields_holder'` above does without that hypothesis -/
def d7 : MsgD := { name := "W", oneofs := ["c"], fields := [
  { name := "a", type := "string", oneof := some 0 },
  { name := "e", type := "message", typeName := "E", embed := true, nullable := "false" }] }
def r7 : Request := { file := { name := "w.proto", package := "w", messages := [d7, dE] } }
theorem w_placeholderSibling : (buildMessage (defaultFuel r7) (viewOf {}) r7 d7 true "").toOption.map hview =
    some (["C"], [⟨"A", "a", "C", false, "", false⟩, ⟨"active", "active", "", false, "", true⟩],
      [true, true, true, true, true, true], true) := by decide +kernel

/-- the unconditional statement: every built root satisfies `SideOK` (only `ConfigTypesAgree`) -/
def built_sideOK_full : Prop :=
  ∀ (fuel : Nat) (V : CfgView) (req : Request) (desc : MsgD) (isRoot : Bool) (path : String) (m : Msg),
    buildMessage fuel V req desc isRoot path = .ok m → ConfigTypesAgree V → SideOK m

/-- … is **false**: witness (3), the parent pointer is a listed holder -/
theorem built_sideOK_full_false : ¬ built_sideOK_full := by
  intro H
  have h1 : (buildMessage (defaultFuel r3) (viewOf {}) r3 d3 true "").toOption.map (fun m => decide (SideOK m)) = some false := by
    decide +kernel
  cases hb : buildMessage (defaultFuel r3) (viewOf {}) r3 d3 true "" with
  | error e => rw [hb] at h1; cases h1
  | ok m =>
    have hs := H _ _ _ _ _ _ m hb BuiltWF.Witness.cta_empty
    rw [hb] at h1
    simp only [Except.toOption, Option.map_some, Option.some.injEq, decide_eq_false_iff_not] at h1
    exact h1 hs

/-- the unconditional statement: every built root satisfies `NamesOK` (OrderIndepSiblings) -/
def built_namesOK_full : Prop :=
  ∀ (fuel : Nat) (V : CfgView) (req : Request) (desc : MsgD) (isRoot : Bool) (path : String) (m : Msg),
    buildMessage fuel V req desc isRoot path = .ok m → ConfigTypesAgree V → OrderIndep.NamesOK m.fields

local instance (fs : List Field) (k : String) : Decidable (EmbedPar fs k) := by unfold EmbedPar; infer_instance
local instance (fs : List Field) : Decidable (OrderIndep.NamesOK fs) := by unfold OrderIndep.NamesOK; infer_instance

/-- … is **false**: witness (6), two children with the same Go name -/
theorem built_namesOK_full_false : ¬ built_namesOK_full := by
  intro H
  have h1 : (buildMessage (defaultFuel r6) (viewOf {}) r6 d6 true "").toOption.map
      (fun m => decide (OrderIndep.NamesOK m.fields)) = some false := by
    decide +kernel
  cases hb : buildMessage (defaultFuel r6) (viewOf {}) r6 d6 true "" with
  | error e => rw [hb] at h1; cases h1
  | ok m =>
    have hs := H _ _ _ _ _ _ m hb BuiltWF.Witness.cta_empty
    rw [hb] at h1
    simp only [Except.toOption, Option.map_some, Option.some.injEq, decide_eq_false_iff_not] at h1
    exact h1 hs

end Witness

-- ======================================================================================================
-- 8. sanity: the Booleans on the built root of BuiltWF's `Sanity` section, and the restated theorems on it
-- ======================================================================================================

namespace Sanity
open BuiltWF.Sanity

/-- the Booleans of the restated theorems on the built root (15 attributes: scalars, lists, maps, nested messages, a message
embedded by value, one embedded by pointer, a oneof with a scalar and a message branch) -/
theorem built_booleans : build.toOption.map (fun m =>
      (hygieneB m, hygienePartsB m, gapFreeBs m.fields, namesOKsB m.fields)) =
    some (true, [true, true, true, true, true, true], true, true) := by
  decide +kernel

/-- the listed holders and the parent pointers of the built root -/
theorem built_holders : build.toOption.map (fun m => (m.info.oneOfNames, parsOf m.fields)) = some (["Choice"], ["P"]) := by
  decide +kernel

theorem booleans (m : Msg) (hb : buildRoot cfg req dR = .ok (some m)) :
    hygieneB m = true ∧ gapFreeBs m.fields = true ∧ namesOKsB m.fields = true ∧ m.info.oneOfNames = ["Choice"] := by
  have h := buildRoot_inv hb
  have hc := built_booleans
  have hd := built_holders
  rw [show build = buildMessage (defaultFuel req) (viewOf cfg) req dR true "" from rfl, h] at hc hd
  simp only [Except.toOption, Option.map_some, Option.some.injEq, Prod.mk.injEq] at hc hd
  exact ⟨hc.1, hc.2.2.1, hc.2.2.2, hd.1⟩

/-- **C05 (prior independence) on the built root**: every Terraform value, any two typed priors -/
theorem C05_sanity (ov : List (String × String)) (m : Msg) (hb : buildRoot cfg req dR = .ok (some m))
    (tf : TfVal) (p1 p2 : List (String × GoVal)) (hw1 : PriorWF m p1) (hw2 : PriorWF m p2) :
    ((∃ r, copyFrom ov m tf (.struct p1) = .ok r) ↔ (∃ r, copyFrom ov m tf (.struct p2) = .ok r)) ∧
    (∀ r1 r2, copyFrom ov m tf (.struct p1) = .ok r1 → copyFrom ov m tf (.struct p2) = .ok r2 →
      PriorIndepRes m (attrsOf tf) p1 p2 r1 r2) ∧
    GroupsListed m :=
  C05_built_root_prior_independent ov cfg req dR m hb cta (booleans m hb).1 tf p1 p2 hw1 hw2

/-- the empty prior is typed (non-vacuity of `PriorWF`) -/
theorem priorWF_nil (m : Msg) : PriorWF m [] := by
  intro c _ _ s hs
  simp [GoVal.field?] at hs

/-- **C05 (no diagnostics) on the built root** -/
theorem C05_nodiag_sanity (ov : List (String × String)) (m : Msg) (hb : buildRoot cfg req dR = .ok (some m))
    (u n : Bool) (attrs : Option (List (String × TfVal))) (atys : Option (List (String × TfTy)))
    (prior : List (String × GoVal)) (h : ConformsVAttrs m.fields (attrs.getD [])) :
    ∃ r, copyFrom ov m (.obj u n attrs atys) (.struct prior) = .ok r ∧ r.diags = [] :=
  C05_built_root_no_diagnostics ov cfg req dR m hb cta u n attrs atys prior h

/-- **C07 on the built root**: no branch attribute of `Choice` known ⇒ the holder is nil, whatever the target held -/
theorem C07_sanity (ov : List (String × String)) (m : Msg) (hb : buildRoot cfg req dR = .ok (some m))
    (u n : Bool) (attrs : Option (List (String × TfVal))) (atys : Option (List (String × TfTy)))
    (prior : List (String × GoVal))
    (hnull : ∀ f ∈ m.fields, f.info.oneOfName = "Choice" → ∀ a, (attrs.getD []).lookup f.info.nameSnake = some a → a.isKnown = false)
    (r : FromResult) (h : copyFrom ov m (.obj u n attrs atys) (.struct prior) = .ok r) :
    r.obj.field? "Choice" = some (.iface none) := by
  obtain ⟨h1, h2, _, h4⟩ := booleans m hb
  exact C07_built_root_from_all_null ov cfg req dR m hb h2 h1 u n attrs atys prior "Choice" (by rw [h4]; simp) hnull r h

/-- **C09 on the built root**: every sequence of typed struct values, from the empty schema-typed object -/
theorem C09_sanity (m : Msg) (hb : buildRoot cfg req dR = .ok (some m)) (vs : List GoVal) (hvs : ∀ v ∈ vs, ValOKs m.fields v) :
    ∃ o', Props.C09.runSeq m vs (.obj false false none (some (attrTypesOf m))) = .ok o' ∧
      Props.C09.Target m.fields (attrTypesOf m) o' := by
  obtain ⟨_, h2, h3, _⟩ := booleans m hb
  exact C09_built_root_sequence cfg req dR m hb cta h2 h3 vs hvs

/-- the all-null object of the schema's attribute types -/
def nullAttrs (m : Msg) : List (String × TfVal) :=
  (attrTypesOf m).filterMap fun (k, t) => (nullOfTy t).map fun v => (k, v)

/-- executable cross-check: on the built root, `Copy<T>FromTerraform` of the all-null object into a target that holds branch
`o1` of `Choice` returns no diagnostic and leaves the holder nil – as `C05_nodiag_sanity` / `C07_sanity` say -/
theorem run_all_null : build.toOption.map (fun m =>
      match copyFrom [] m (.obj false false (some (nullAttrs m)) none) (.struct [("Choice", .iface (some ("R_O1", "O1", .sc (.str [120]))))]) with
      | .ok r => (r.diags.isEmpty, (nullAttrs m).length,
          match r.obj.field? "Choice" with | some (.iface none) => true | _ => false)
      | _ => (false, 0, false)) = some (true, 16, true) := by
  decide +kernel

end Sanity

-- ======================================================================================================
-- 9. the same for every message `buildRoots` emits
-- ======================================================================================================

theorem C05_built_roots_prior_independent (ov : List (String × String)) (cfg : Config) (req : Request) (m : Msg)
    (hm : m ∈ (buildRoots cfg req).1) (hc : ConfigTypesAgree (viewOf cfg)) (hh : hygieneB m = true)
    (tf : TfVal) (p1 p2 : List (String × GoVal)) (hw1 : PriorWF m p1) (hw2 : PriorWF m p2) :
    ((∃ r, copyFrom ov m tf (.struct p1) = .ok r) ↔ (∃ r, copyFrom ov m tf (.struct p2) = .ok r)) ∧
    (∀ r1 r2, copyFrom ov m tf (.struct p1) = .ok r1 → copyFrom ov m tf (.struct p2) = .ok r2 →
      PriorIndepRes m (attrsOf tf) p1 p2 r1 r2) ∧
    GroupsListed m := by
  obtain ⟨d, _, hb⟩ := PGT.Props.C18.C18_failed_root_not_emitted cfg req m hm
  exact C05_built_root_prior_independent ov cfg req d m hb hc hh tf p1 p2 hw1 hw2

theorem C05_built_roots_no_diagnostics (ov : List (String × String)) (cfg : Config) (req : Request) (m : Msg)
    (hm : m ∈ (buildRoots cfg req).1) (hc : ConfigTypesAgree (viewOf cfg))
    (u n : Bool) (attrs : Option (List (String × TfVal))) (atys : Option (List (String × TfTy)))
    (prior : List (String × GoVal)) (h : ConformsVAttrs m.fields (attrs.getD [])) :
    ∃ r, copyFrom ov m (.obj u n attrs atys) (.struct prior) = .ok r ∧ r.diags = [] := by
  obtain ⟨d, _, hb⟩ := PGT.Props.C18.C18_failed_root_not_emitted cfg req m hm
  exact C05_built_root_no_diagnostics ov cfg req d m hb hc u n attrs atys prior h

theorem C07_built_roots_from_all_null (ov : List (String × String)) (cfg : Config) (req : Request) (m : Msg)
    (hm : m ∈ (buildRoots cfg req).1) (hg : gapFreeBs m.fields = true) (hh : hygieneB m = true)
    (u n : Bool) (attrs : Option (List (String × TfVal))) (atys : Option (List (String × TfTy)))
    (prior : List (String × GoVal)) (g : String) (hgl : g ∈ m.info.oneOfNames)
    (hnull : ∀ f ∈ m.fields, f.info.oneOfName = g → ∀ a, (attrs.getD []).lookup f.info.nameSnake = some a → a.isKnown = false)
    (r : FromResult) (h : copyFrom ov m (.obj u n attrs atys) (.struct prior) = .ok r) :
    r.obj.field? g = some (.iface none) := by
  obtain ⟨d, _, hb⟩ := PGT.Props.C18.C18_failed_root_not_emitted cfg req m hm
  exact C07_built_root_from_all_null ov cfg req d m hb hg hh u n attrs atys prior g hgl hnull r h

theorem C07_built_roots_from_one_known (ov : List (String × String)) (cfg : Config) (req : Request) (m : Msg)
    (hm : m ∈ (buildRoots cfg req).1) (hg : gapFreeBs m.fields = true) (hh : hygieneB m = true)
    (u n : Bool) (attrs : Option (List (String × TfVal))) (atys : Option (List (String × TfTy)))
    (prior : List (String × GoVal))
    (f0 : Field) (hf0 : f0 ∈ m.fields) (ho0 : f0.info.oneOfName ≠ "") (hk0 : BranchKnown attrs f0)
    (hothers : ∀ f ∈ m.fields, f.info.oneOfName = f0.info.oneOfName →
      f.info.name ≠ f0.info.name ∨ f.info.oneOfType ≠ f0.info.oneOfType →
      ∀ a, (attrs.getD []).lookup f.info.nameSnake = some a → a.isKnown = false)
    (r : FromResult) (h : copyFrom ov m (.obj u n attrs atys) (.struct prior) = .ok r) :
    ∃ t, r.obj.field? f0.info.oneOfName = some (.iface (some (lastSegment f0.info.oneOfType, f0.info.name, t))) := by
  obtain ⟨d, _, hb⟩ := PGT.Props.C18.C18_failed_root_not_emitted cfg req m hm
  exact C07_built_root_from_one_known ov cfg req d m hb hg hh u n attrs atys prior f0 hf0 ho0 hk0 hothers r h

theorem C09_built_roots_sequence (cfg : Config) (req : Request) (m : Msg) (hm : m ∈ (buildRoots cfg req).1)
    (hc : ConfigTypesAgree (viewOf cfg)) (hg : gapFreeBs m.fields = true) (hn : namesOKsB m.fields = true)
    (vs : List GoVal) (hvs : ∀ v ∈ vs, ValOKs m.fields v) :
    ∃ o', Props.C09.runSeq m vs (.obj false false none (some (attrTypesOf m))) = .ok o' ∧
      Props.C09.Target m.fields (attrTypesOf m) o' := by
  obtain ⟨d, _, hb⟩ := PGT.Props.C18.C18_failed_root_not_emitted cfg req m hm
  exact C09_built_root_sequence cfg req d m hb hc hg hn vs hvs

theorem C09_built_roots_idempotent (cfg : Config) (req : Request) (m : Msg) (hm : m ∈ (buildRoots cfg req).1)
    (hc : ConfigTypesAgree (viewOf cfg)) (hg : gapFreeBs m.fields = true) (hn : namesOKsB m.fields = true)
    (v : GoVal) (hv : ValOKs m.fields v) (u n : Bool) (as : Option (List (String × TfVal)))
    (hs : ShapedVAttrs m.fields (as.getD []) (attrTypesOf m)) (r : ToResult)
    (h : copyTo m v (.obj u n as (some (attrTypesOf m))) = .ok r) :
    ∃ r', copyTo m v r.tf = .ok r' ∧ r'.tf = r.tf ∧ r'.diags = [] := by
  obtain ⟨d, _, hb⟩ := PGT.Props.C18.C18_failed_root_not_emitted cfg req m hm
  exact C09_built_root_idempotent cfg req d m hb hc hg hn v hv u n as hs r h

end PGT.Proofs.BuiltFrom

section
open PGT.Proofs.BuiltFrom
#print axioms hygiene_iff
#print axioms hygieneB_parts
#print axioms sideOK_of_hygiene
#print axioms namesOK_of_hygiene
#print axioms groupOK_of_hygiene
#print axioms built_sideOK
#print axioms built_covered
#print axioms C05_built_root_prior_independent
#print axioms C05_built_root_holders
#print axioms C05_built_root_prior_independent_nfEq
#print axioms fromFields_holder'
#print axioms built_holder
#print axioms C07_built_root_from_all_null
#print axioms C07_built_root_from_one_known
#print axioms built_confNode
#print axioms conforms_iff_built
#print axioms built_conformsAttrs_iff
#print axioms C05_built_root_no_diagnostics
#print axioms C05_built_root_prior_independent_conforming
#print axioms shaped_iff_built
#print axioms built_shapedAttrs_iff
#print axioms built_root_toOKs
#print axioms C09_built_root_step
#print axioms C09_built_root_sequence
#print axioms C09_built_root_sequence_last
#print axioms C09_built_root_idempotent
#print axioms built_root_target_iff
#print axioms Witness.w1_emptyHolder
#print axioms Witness.w2_fieldNamedLikeHolder
#print axioms Witness.w3_parentNamedLikeHolder
#print axioms Witness.w4_fieldNamedLikeParent
#print axioms Witness.w5_groupNamedLikeParent
#print axioms Witness.w6_childrenSameGoName
#print axioms Witness.w_placeholderSibling
#print axioms Witness.built_sideOK_full_false
#print axioms Witness.built_namesOK_full_false
#print axioms Sanity.built_booleans
#print axioms Sanity.booleans
#print axioms Sanity.C05_sanity
#print axioms Sanity.C05_nodiag_sanity
#print axioms Sanity.C07_sanity
#print axioms Sanity.C09_sanity
#print axioms Sanity.run_all_null
#print axioms C05_built_roots_prior_independent
#print axioms C05_built_roots_no_diagnostics
#print axioms C07_built_roots_from_all_null
#print axioms C07_built_roots_from_one_known
#print axioms C09_built_roots_sequence
#print axioms C09_built_roots_idempotent
end
