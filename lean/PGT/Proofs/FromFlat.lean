import PGT.Model.CopyFrom
import PGT.Proofs.ToFlat
/-
CopyFrom for scalar fields held by value (the template `genPrimitive` of gen_copy_from.go).
-/
namespace PGT

/-- the field block of a plain scalar field, for **any** attribute map and **any** prior struct:
missing attribute ⇒ one diagnostic naming the path, nothing written;
attribute of another Go type ⇒ one conversion diagnostic, nothing written;
null or unknown ⇒ the zero value is written, whatever payload the value carries and whatever the field held;
known ⇒ the cast of the payload is written. -/
theorem copyFromField_plain (ov : List (String × String)) (f : Field) (k : PrimK) (hp : PlainScalar f.info k)
    (hvt : f.info.tf.valueType = f.info.tf.elemValueType)
    (attrs : Option (List (String × TfVal))) (st : FromSt) :
    copyFromField ov f attrs st =
      match (attrs.getD []).lookup f.info.nameSnake with
      | none => .ok (st.diag (.readMissing f.info.path))
      | some (.prim k' unk null p) =>
        if k' = k then
          if !null && !unk then
            match f.info.castFrom k p with
            | some c => .ok { st with obj := st.obj.setField f.info.name (.sc c) }
            | none => .stuck "cast not modelled"
          else .ok { st with obj := st.obj.setField f.info.name (.sc (zeroOfRep f.info.rep)) }
        else .ok (st.diag (.readConv f.info.path f.info.tf.valueType))
      | some _ => .ok (st.diag (.readConv f.info.path f.info.tf.valueType)) := by
  obtain ⟨info, mapVal, msg, sub⟩ := f
  simp only at hp hvt
  unfold copyFromField copyFromFieldWith
  simp only [hp.kind]
  cases ha : (attrs.getD []).lookup info.nameSnake with
  | none => simp
  | some a =>
    simp only
    cases a with
    | prim k' unk null p =>
      by_cases hk : k' = k
      · subst hk
        cases null <;> cases unk <;>
          simp [TfVal.vkind, hvt, hp.vk, primDecode, known, hp.notNullable, hp.noOneof, hp.noEmbed, zeroPrim, embedGuard]
        cases hc : info.castFrom k' p <;> simp
      · have : (VKind.prim k' != VKind.prim k) = true := by simp [hk]
        simp [TfVal.vkind, hvt, hp.vk, hk, this]
    | list _ _ _ _ => simp [TfVal.vkind, hvt, hp.vk]
    | map _ _ _ _ => simp [TfVal.vkind, hvt, hp.vk]
    | obj _ _ _ _ => simp [TfVal.vkind, hvt, hp.vk]
    | nilv => simp [TfVal.vkind, hvt, hp.vk]
    | foreign _ => simp [TfVal.vkind, hvt, hp.vk]

end PGT
