import PGT.Proofs.FromDiags
import PGT.Proofs.ToWriter
import PGT.Proofs.ToCongr
/-
The hook log is an exact census (property C17: "Custom-type fields are delegated to the user's three hooks"):
CopyFrom / CopyTo call the hook of every custom field they visit exactly once, with the attribute / the Go value of that
field, and call nothing else. For ALL IRs, ALL inputs and ALL prior states (no typing hypotheses), by mutual structural
induction over the IR, on top of the writer laws of `FromDiags` / `ToWriter`.

1. CopyFrom (`fromFields_hooks`, `copyFrom_hooks`): a run that returns has appended exactly `fromHooksFields fs attrs`
   (it does not depend on the import path overrides). A call records `CopyFrom<Suffix>` and the attribute value found
   under the field's name – as is (null, unknown, any Go type), `nilv` when the attribute is missing (`fromCall`).
2. Corollaries: one call per custom field whatever the input holds (`fromHooksField_custom`, `fromHooksLevel_length`,
   `fromHooksLevel_sublist`, `copyFromFields_calls_ge`, `copyFromFields_calls_level`); every call is the call of a
   custom-field occurrence CopyFrom visits, and conversely (`CustomAt`, `mem_census_iff`, `customAt_occurs`,
   `copyFromFields_calls_custom`); no custom field at any depth – log unchanged (`copyFromFields_noCustom`).
3. CopyTo, into ANY target state (`toFields_hooks`, `copyTo_hooks`): exactly `toHooksFields fs obj atys st.attrs`. A call
   records `CopyTo<Suffix>`, the Go value read (`readField`), the attribute type and the attribute value present in the
   target when the block runs (`toCall`); it is made iff the attribute type is present (and the field readable).
   Because of that last component the general census threads the attribute map through the blocks (`toAttrsAfter`);
   with pairwise distinct attribute names (`snakeDistinctFields`) it has the closed form `toHooksFieldsS` in terms of the
   ORIGINAL target (`copyToFields_hooksS`, `copyTo_hooksS`), and into a fresh target every hook gets `nilv`
   (`copyToFields_fresh`). Also (b) `copyToFields_calls_custom`, (c) `copyToFields_noCustom`.
4. Non-vacuity (`exHk_runs`, `exHk_toRuns`): custom fields at top level, inside a nested message and inside list elements.
-/
namespace PGT

-- ======================================================================================================
-- 1. CopyFrom: the hook calls appended, exactly
-- ======================================================================================================

/-- **what the call of a custom field block of CopyFrom records**: the function `CopyFrom<Suffix>` and the attribute
value handed over – `tf.Attrs[<name_snake>]` as found, whatever it is (null, unknown, of any Go type), the nil
interface value when the attribute is missing. (The third argument, `&obj.F`, is write-only for the hook.) -/
def fromCall (info : FieldInfo) (attrs : List (String × TfVal)) : HookCall :=
  .copyFrom ("CopyFrom" ++ info.suffix) ((attrs.lookup info.nameSnake).getD .nilv)

/-- calls of one round of an element loop: those of the nested message for a known object element -/
def elemHooksWith (recH : List (String × TfVal) → List HookCall) (info vf : FieldInfo) (e : TfVal) : List HookCall :=
  if Spec.wrongElem vf e then [] else
  match e with
  | .obj u n as _ => if !u && !n && (info.kind == .objectList || info.kind == .objectMap) then recH (as.getD []) else []
  | _ => []

/-- calls below an attribute value of the right Go type -/
def valHooksWith (recH : List (String × TfVal) → List HookCall) (info : FieldInfo)
    (mapVal : Option FieldInfo) (msg : Option MsgInfo) (a : TfVal) : List HookCall :=
  match a with
  | .obj u n as _ => if !u && !n && info.kind == .object && !isEmptyMsg msg then recH (as.getD []) else []
  | .list u n es _ => if u || n then [] else (es.getD []).flatMap (elemHooksWith recH info info)
  | .map u n es _ => if u || n then [] else (es.getD []).flatMap fun (_, e) => elemHooksWith recH info (mapVal.getD info) e
  | _ => []

/-- calls of one field block, given those of the nested message: a custom field contributes exactly its own call,
any other field the calls made inside the nested messages CopyFrom visits -/
def fieldHooksWith (recH : List (String × TfVal) → List HookCall) (info : FieldInfo)
    (mapVal : Option FieldInfo) (msg : Option MsgInfo) (attrs : List (String × TfVal)) : List HookCall :=
  if info.kind == .custom then [fromCall info attrs] else
  match attrs.lookup info.nameSnake with
  | none => []
  | some a =>
    if a.vkind != vkindOf info.tf.valueType || a.vkind == .unknown then [] else
    valHooksWith recH info mapVal msg a

mutual
/-- **the hook calls `Copy<T>FromTerraform` makes, in order, at every depth** -/
def fromHooksFields (fs : List Field) (attrs : List (String × TfVal)) : List HookCall :=
  match fs with
  | [] => []
  | f :: rest => fromHooksField f attrs ++ fromHooksFields rest attrs

def fromHooksField (f : Field) (attrs : List (String × TfVal)) : List HookCall :=
  match f with
  | ⟨info, mapVal, msg, sub⟩ =>
    if info.isPlaceholder then [] else
    fieldHooksWith (fun as => fromHooksFields sub as) info mapVal msg attrs
end

def RecHooks (rec : FromRec) (recH : List (String × TfVal) → List HookCall) : Prop :=
  ∀ attrs st st', rec attrs st = .ok st' → st'.hooks = st.hooks ++ recH (attrs.getD [])

def BodyHooks (body : FromBody) (eh : TfVal → List HookCall) : Prop :=
  ∀ e ds hs r ds' hs', body e ds hs = .ok (r, ds', hs') → hs' = hs ++ eh e

theorem fromElemsList_hooks (body : FromBody) (eh : TfVal → List HookCall) (hb : BodyHooks body eh) :
    ∀ (elems : List TfVal) (k : Nat) (acc : List GoVal) (ds : List Diag) (hs : List HookCall)
      (l : List GoVal) (ds' : List Diag) (hs' : List HookCall),
      fromElemsList body elems k acc ds hs = .ok (l, ds', hs') → hs' = hs ++ elems.flatMap eh
  | [], k, acc, ds, hs, l, ds', hs', h => by
    simp only [fromElemsList, Outcome.ok.injEq, Prod.mk.injEq] at h
    simp [h.2.2]
  | a :: rest, k, acc, ds, hs, l, ds', hs', h => by
    simp only [fromElemsList] at h
    split at h
    · rename_i v ds1 hs1 heq
      rw [fromElemsList_hooks body eh hb rest _ _ _ _ _ _ _ h, hb _ _ _ _ _ _ heq]
      simp
    · rename_i ds1 hs1 heq
      rw [fromElemsList_hooks body eh hb rest _ _ _ _ _ _ _ h, hb _ _ _ _ _ _ heq]
      simp
    · cases h
    · cases h

theorem fromElemsMap_hooks (body : FromBody) (eh : TfVal → List HookCall) (hb : BodyHooks body eh) :
    ∀ (elems : List (String × TfVal)) (acc : List (String × GoVal)) (ds : List Diag) (hs : List HookCall)
      (l : List (String × GoVal)) (ds' : List Diag) (hs' : List HookCall),
      fromElemsMap body elems acc ds hs = .ok (l, ds', hs') → hs' = hs ++ elems.flatMap fun (_, e) => eh e
  | [], acc, ds, hs, l, ds', hs', h => by
    simp only [fromElemsMap, Outcome.ok.injEq, Prod.mk.injEq] at h
    simp [h.2.2]
  | (k, a) :: rest, acc, ds, hs, l, ds', hs', h => by
    simp only [fromElemsMap] at h
    split at h
    · rename_i v ds1 hs1 heq
      rw [fromElemsMap_hooks body eh hb rest _ _ _ _ _ _ h, hb _ _ _ _ _ _ heq]
      simp
    · rename_i ds1 hs1 heq
      rw [fromElemsMap_hooks body eh hb rest _ _ _ _ _ _ h, hb _ _ _ _ _ _ heq]
      simp
    · cases h
    · cases h

theorem fromElemBody_hooks (rec : FromRec) (recH : List (String × TfVal) → List HookCall) (hrec : RecHooks rec recH)
    (ov : List (String × String)) (info vf : FieldInfo) :
    BodyHooks (fromElemBody rec ov info vf) (elemHooksWith recH info vf) := by
  intro e ds hs r ds' hs' h
  revert h
  unfold fromElemBody elemHooksWith Spec.wrongElem
  cases hw : (e.vkind != vkindOf vf.tf.elemValueType || e.vkind == .unknown)
  case true =>
    simp only [if_true, Outcome.ok.injEq, Prod.mk.injEq]
    intro h
    simp [h.2.2]
  case false =>
    simp only [Bool.false_eq_true, if_false]
    intro h
    cases e with
    | prim k u nl p =>
      simp only [] at h
      split at h
      · rcases primDecode_cases info k u nl p with ⟨t, ht⟩ | ⟨w, hw'⟩
        · rw [ht] at h
          simp only [Outcome.ok.injEq, Prod.mk.injEq] at h
          simp [h.2.2]
        · rw [hw'] at h; cases h
      · cases h
    | obj u nl as atys =>
      simp only [] at h
      split at h
      · rename_i hkind
        split at h
        · rename_i hkn
          have hkn' : (!u && !nl) = true := by
            cases u <;> cases nl <;> simp_all [known]
          simp only [hkn', hkind, Bool.and_self, if_true]
          cases hrc : rec as { obj := .struct [], diags := ds, hooks := hs } with
          | ok st' =>
            rw [hrc] at h
            simp only [Outcome.ok.injEq, Prod.mk.injEq] at h
            rw [← h.2.2]
            exact hrec _ _ _ hrc
          | panic w => rw [hrc] at h; cases h
          | stuck w => rw [hrc] at h; cases h
        · rename_i hkn
          have hkn' : (!u && !nl) = false := by
            cases u <;> cases nl <;> simp_all [known]
          simp only [Outcome.ok.injEq, Prod.mk.injEq] at h
          simp [hkn', h.2.2]
      · cases h
    | list _ _ _ _ => cases h
    | map _ _ _ _ => cases h
    | nilv => cases h
    | foreign _ => cases h

def HooksOK (base H : List HookCall) (o : Outcome FromSt) : Prop := ∀ st', o = .ok st' → st'.hooks = base ++ H

theorem hooksOK_ok (base H : List HookCall) (st : FromSt) (h : st.hooks = base ++ H) : HooksOK base H (.ok st) := by
  intro st' e; cases e; exact h

theorem hooksOK_stuck (base H : List HookCall) (w : String) : HooksOK base H (.stuck w) := by
  intro st' e; cases e

theorem hooksOK_panic (base H : List HookCall) (w : String) : HooksOK base H (.panic w) := by
  intro st' e; cases e

theorem valHooks_unknown (recH : List (String × TfVal) → List HookCall) (info : FieldInfo)
    (mv : Option FieldInfo) (msg : Option MsgInfo) (a : TfVal) (h : a.isKnown = false) :
    valHooksWith recH info mv msg a = [] := by
  cases a with
  | obj u n as t => cases u <;> cases n <;> simp_all [valHooksWith, TfVal.isKnown, known]
  | list u n es t => cases u <;> cases n <;> simp_all [valHooksWith, TfVal.isKnown, known]
  | map u n es t => cases u <;> cases n <;> simp_all [valHooksWith, TfVal.isKnown, known]
  | prim _ _ _ _ => rfl
  | nilv => rfl
  | foreign _ => rfl

theorem valHooks_obj (recH : List (String × TfVal) → List HookCall) (info : FieldInfo)
    (mv : Option FieldInfo) (msg : Option MsgInfo) (u n : Bool) (as : Option (List (String × TfVal)))
    (t : Option (List (String × TfTy))) (hk : info.kind = .object) :
    valHooksWith recH info mv msg (.obj u n as t) = if known u n && !isEmptyMsg msg then recH (as.getD []) else [] := by
  cases u <;> cases n <;> simp [valHooksWith, known, hk]

theorem valHooks_list (recH : List (String × TfVal) → List HookCall) (info : FieldInfo)
    (mv : Option FieldInfo) (msg : Option MsgInfo) (u n : Bool) (es : Option (List TfVal)) (t : Option TfTy) :
    valHooksWith recH info mv msg (.list u n es t) =
      if known u n then (es.getD []).flatMap (elemHooksWith recH info info) else [] := by
  cases u <;> cases n <;> simp [valHooksWith, known]

theorem valHooks_map (recH : List (String × TfVal) → List HookCall) (info : FieldInfo)
    (mv : Option FieldInfo) (msg : Option MsgInfo) (u n : Bool) (es : Option (List (String × TfVal))) (t : Option TfTy) :
    valHooksWith recH info mv msg (.map u n es t) =
      if known u n then (es.getD []).flatMap (fun (_, e) => elemHooksWith recH info (mv.getD info) e) else [] := by
  cases u <;> cases n <;> simp [valHooksWith, known]

theorem fieldHooks_none (recH : List (String × TfVal) → List HookCall) (info : FieldInfo)
    (mv : Option FieldInfo) (msg : Option MsgInfo) (attrs : List (String × TfVal))
    (hl : attrs.lookup info.nameSnake = none) (hk : (info.kind == .custom) = false) :
    fieldHooksWith recH info mv msg attrs = [] := by
  simp only [fieldHooksWith, hl, hk, Bool.false_eq_true, if_false]

theorem fieldHooks_wrong (recH : List (String × TfVal) → List HookCall) (info : FieldInfo)
    (mv : Option FieldInfo) (msg : Option MsgInfo) (attrs : List (String × TfVal)) (a : TfVal)
    (hl : attrs.lookup info.nameSnake = some a) (hk : (info.kind == .custom) = false)
    (hw : (a.vkind != vkindOf info.tf.valueType || a.vkind == .unknown) = true) :
    fieldHooksWith recH info mv msg attrs = [] := by
  simp only [fieldHooksWith, hl, hk, hw, Bool.false_eq_true, if_false, if_true]

theorem fieldHooks_val (recH : List (String × TfVal) → List HookCall) (info : FieldInfo)
    (mv : Option FieldInfo) (msg : Option MsgInfo) (attrs : List (String × TfVal)) (a : TfVal)
    (hl : attrs.lookup info.nameSnake = some a) (hk : (info.kind == .custom) = false)
    (hw : (a.vkind != vkindOf info.tf.valueType || a.vkind == .unknown) = false) :
    fieldHooksWith recH info mv msg attrs = valHooksWith recH info mv msg a := by
  simp only [fieldHooksWith, hl, hk, hw, Bool.false_eq_true, if_false]

/-- **one field block appends exactly `fieldHooksWith`** (over any recursive call that appends exactly `recH`) -/
theorem fieldWith_hooks (rec : FromRec) (recH : List (String × TfVal) → List HookCall) (hrec : RecHooks rec recH)
    (ov : List (String × String)) (info : FieldInfo) (mv : Option FieldInfo) (msg : Option MsgInfo)
    (attrs : Option (List (String × TfVal))) (st : FromSt) :
    HooksOK st.hooks (fieldHooksWith recH info mv msg (attrs.getD [])) (copyFromFieldWith rec ov info mv msg attrs st) := by
  unfold copyFromFieldWith
  cases hk : info.kind with
  | custom =>
    simp only []
    cases hl : List.lookup info.nameSnake (attrs.getD []) with
    | none =>
      simp only []
      generalize writeField _ _ _ = r
      cases r with
      | panic w => exact hooksOK_panic _ _ _
      | stuck w => exact hooksOK_stuck _ _ _
      | ok o =>
        apply hooksOK_ok
        cases info.parentIsOptionalEmbed <;> simp [FromSt.diag, fieldHooksWith, fromCall, hl, hk]
    | some a =>
      simp only []
      generalize writeField _ _ _ = r
      cases r with
      | panic w => exact hooksOK_panic _ _ _
      | stuck w => exact hooksOK_stuck _ _ _
      | ok o =>
        apply hooksOK_ok
        cases info.parentIsOptionalEmbed <;> simp [fieldHooksWith, fromCall, hl, hk]
  | primitive =>
    simp only []
    cases hl : List.lookup info.nameSnake (attrs.getD []) with
    | none => exact hooksOK_ok _ _ _ (by simp [FromSt.diag, fieldHooks_none recH info mv msg _ hl (by rw [hk]; decide)])
    | some a =>
      simp only []
      cases hw : (a.vkind != vkindOf info.tf.valueType || a.vkind == .unknown)
      case true =>
        exact hooksOK_ok _ _ _ (by simp [FromSt.diag, fieldHooks_wrong recH info mv msg _ a hl (by rw [hk]; decide) hw])
      case false =>
        rw [fieldHooks_val recH info mv msg _ a hl (by rw [hk]; decide) hw]
        simp only [Bool.false_eq_true, if_false]
        cases hg : embedGuard info a st.obj with
        | none => exact hooksOK_ok _ _ _ (by simp [valHooks_unknown recH info mv msg a (embedGuard_none hg)])
        | some obj0 =>
          simp only []
          cases a with
          | prim k unk null p =>
            simp only [valHooksWith]
            intro st' h
            have : st'.hooks = st.hooks := by
              revert h
              generalize primDecode info k unk null p = r
              cases r with
              | panic w => intro h; cases h
              | stuck w => intro h; cases h
              | ok t =>
                simp only []
                repeat' (first | (intro h; cases h; done) | (intro h; cases h; rfl) | split)
            simp [this]
          | list _ _ _ _ => exact hooksOK_stuck _ _ _
          | map _ _ _ _ => exact hooksOK_stuck _ _ _
          | obj _ _ _ _ => exact hooksOK_stuck _ _ _
          | nilv => exact hooksOK_stuck _ _ _
          | foreign _ => exact hooksOK_stuck _ _ _
  | object =>
    simp only []
    cases hl : List.lookup info.nameSnake (attrs.getD []) with
    | none => exact hooksOK_ok _ _ _ (by simp [FromSt.diag, fieldHooks_none recH info mv msg _ hl (by rw [hk]; decide)])
    | some a =>
      simp only []
      cases hw : (a.vkind != vkindOf info.tf.valueType || a.vkind == .unknown)
      case true =>
        exact hooksOK_ok _ _ _ (by simp [FromSt.diag, fieldHooks_wrong recH info mv msg _ a hl (by rw [hk]; decide) hw])
      case false =>
        rw [fieldHooks_val recH info mv msg _ a hl (by rw [hk]; decide) hw]
        simp only [Bool.false_eq_true, if_false]
        cases hg : embedGuard info a st.obj with
        | none => exact hooksOK_ok _ _ _ (by simp [valHooks_unknown recH info mv msg a (embedGuard_none hg)])
        | some obj0 =>
          simp only []
          cases a with
          | obj unk null as atys =>
            simp only [valHooks_obj recH info mv msg unk null as atys hk]
            have hrs : ∀ s', rec as { obj := .struct [], diags := st.diags, hooks := st.hooks } = .ok s' →
                s'.hooks = st.hooks ++ recH (as.getD []) := fun s' e => hrec as ⟨.struct [], st.diags, st.hooks⟩ s' e
            generalize rec as { obj := .struct [], diags := st.diags, hooks := st.hooks } = rr at hrs
            cases hkn : known unk null <;> cases hE : isEmptyMsg msg <;>
              simp only [Bool.not_true, Bool.not_false, Bool.and_true, Bool.and_false, Bool.false_eq_true, if_true, if_false,
                Bool.and_self]
            all_goals
              intro st' h
              revert h
              cases rr with
              | panic w => repeat' (first | (intro h; cases h; done) | (intro h; cases h; simp; done) | split)
              | stuck w => repeat' (first | (intro h; cases h; done) | (intro h; cases h; simp; done) | split)
              | ok s' =>
                have := hrs s' rfl
                try simp only []
                repeat' (first | (intro h; cases h; done) | (intro h; cases h; simp; done) | (intro h; cases h; exact this) | split)
          | list _ _ _ _ => exact hooksOK_stuck _ _ _
          | map _ _ _ _ => exact hooksOK_stuck _ _ _
          | prim _ _ _ _ => exact hooksOK_stuck _ _ _
          | nilv => exact hooksOK_stuck _ _ _
          | foreign _ => exact hooksOK_stuck _ _ _
  | primitiveList =>
    simp only []
    cases hl : List.lookup info.nameSnake (attrs.getD []) with
    | none => exact hooksOK_ok _ _ _ (by simp [FromSt.diag, fieldHooks_none recH info mv msg _ hl (by rw [hk]; decide)])
    | some a =>
      simp only []
      cases hw : (a.vkind != vkindOf info.tf.valueType || a.vkind == .unknown)
      case true =>
        exact hooksOK_ok _ _ _ (by simp [FromSt.diag, fieldHooks_wrong recH info mv msg _ a hl (by rw [hk]; decide) hw])
      case false =>
        rw [fieldHooks_val recH info mv msg _ a hl (by rw [hk]; decide) hw]
        simp only [Bool.false_eq_true, if_false]
        cases hg : embedGuard info a st.obj with
        | none => exact hooksOK_ok _ _ _ (by simp [valHooks_unknown recH info mv msg a (embedGuard_none hg)])
        | some obj0 =>
          simp only []
          cases a with
          | list unk null elems ety =>
            simp only [valHooks_list]
            generalize writeField _ _ _ = r
            cases r with
            | panic w => exact hooksOK_panic _ _ _
            | stuck w => exact hooksOK_stuck _ _ _
            | ok o =>
              simp only []
              cases hkn : known unk null with
              | false => exact hooksOK_ok _ _ _ (by simp)
              | true =>
                simp only [if_true]
                generalize hloop : fromElemsList _ _ _ _ _ _ = lr
                cases lr with
                | panic w => exact hooksOK_panic _ _ _
                | stuck w => exact hooksOK_stuck _ _ _
                | ok q =>
                  obtain ⟨l, ds, hs⟩ := q
                  simp only []
                  have hds := fromElemsList_hooks _ _ (fromElemBody_hooks rec recH hrec ov info info) _ _ _ _ _ _ _ _ hloop
                  generalize writeField _ _ _ = r2
                  cases r2 with
                  | panic w => exact hooksOK_panic _ _ _
                  | stuck w => exact hooksOK_stuck _ _ _
                  | ok o2 => exact hooksOK_ok _ _ _ hds
          | prim _ _ _ _ => exact hooksOK_stuck _ _ _
          | obj _ _ _ _ => exact hooksOK_stuck _ _ _
          | map _ _ _ _ => exact hooksOK_stuck _ _ _
          | nilv => exact hooksOK_stuck _ _ _
          | foreign _ => exact hooksOK_stuck _ _ _
  | objectList =>
    simp only []
    cases hl : List.lookup info.nameSnake (attrs.getD []) with
    | none => exact hooksOK_ok _ _ _ (by simp [FromSt.diag, fieldHooks_none recH info mv msg _ hl (by rw [hk]; decide)])
    | some a =>
      simp only []
      cases hw : (a.vkind != vkindOf info.tf.valueType || a.vkind == .unknown)
      case true =>
        exact hooksOK_ok _ _ _ (by simp [FromSt.diag, fieldHooks_wrong recH info mv msg _ a hl (by rw [hk]; decide) hw])
      case false =>
        rw [fieldHooks_val recH info mv msg _ a hl (by rw [hk]; decide) hw]
        simp only [Bool.false_eq_true, if_false]
        cases hg : embedGuard info a st.obj with
        | none => exact hooksOK_ok _ _ _ (by simp [valHooks_unknown recH info mv msg a (embedGuard_none hg)])
        | some obj0 =>
          simp only []
          cases a with
          | list unk null elems ety =>
            simp only [valHooks_list]
            generalize writeField _ _ _ = r
            cases r with
            | panic w => exact hooksOK_panic _ _ _
            | stuck w => exact hooksOK_stuck _ _ _
            | ok o =>
              simp only []
              cases hkn : known unk null with
              | false => exact hooksOK_ok _ _ _ (by simp)
              | true =>
                simp only [if_true]
                generalize hloop : fromElemsList _ _ _ _ _ _ = lr
                cases lr with
                | panic w => exact hooksOK_panic _ _ _
                | stuck w => exact hooksOK_stuck _ _ _
                | ok q =>
                  obtain ⟨l, ds, hs⟩ := q
                  simp only []
                  have hds := fromElemsList_hooks _ _ (fromElemBody_hooks rec recH hrec ov info info) _ _ _ _ _ _ _ _ hloop
                  generalize writeField _ _ _ = r2
                  cases r2 with
                  | panic w => exact hooksOK_panic _ _ _
                  | stuck w => exact hooksOK_stuck _ _ _
                  | ok o2 => exact hooksOK_ok _ _ _ hds
          | prim _ _ _ _ => exact hooksOK_stuck _ _ _
          | obj _ _ _ _ => exact hooksOK_stuck _ _ _
          | map _ _ _ _ => exact hooksOK_stuck _ _ _
          | nilv => exact hooksOK_stuck _ _ _
          | foreign _ => exact hooksOK_stuck _ _ _
  | primitiveMap =>
    simp only []
    cases hl : List.lookup info.nameSnake (attrs.getD []) with
    | none => exact hooksOK_ok _ _ _ (by simp [FromSt.diag, fieldHooks_none recH info mv msg _ hl (by rw [hk]; decide)])
    | some a =>
      simp only []
      cases hw : (a.vkind != vkindOf info.tf.valueType || a.vkind == .unknown)
      case true =>
        exact hooksOK_ok _ _ _ (by simp [FromSt.diag, fieldHooks_wrong recH info mv msg _ a hl (by rw [hk]; decide) hw])
      case false =>
        rw [fieldHooks_val recH info mv msg _ a hl (by rw [hk]; decide) hw]
        simp only [Bool.false_eq_true, if_false]
        cases hg : embedGuard info a st.obj with
        | none => exact hooksOK_ok _ _ _ (by simp [valHooks_unknown recH info mv msg a (embedGuard_none hg)])
        | some obj0 =>
          simp only []
          cases a with
          | map unk null elems ety =>
            simp only [valHooks_map]
            generalize writeField _ _ _ = r
            cases r with
            | panic w => exact hooksOK_panic _ _ _
            | stuck w => exact hooksOK_stuck _ _ _
            | ok o =>
              simp only []
              cases hkn : known unk null with
              | false => exact hooksOK_ok _ _ _ (by simp)
              | true =>
                simp only [if_true]
                generalize hloop : fromElemsMap _ _ _ _ _ = lr
                cases lr with
                | panic w => exact hooksOK_panic _ _ _
                | stuck w => exact hooksOK_stuck _ _ _
                | ok q =>
                  obtain ⟨l, ds, hs⟩ := q
                  simp only []
                  have hds := fromElemsMap_hooks _ _ (fromElemBody_hooks rec recH hrec ov info (mv.getD info)) _ _ _ _ _ _ _ hloop
                  generalize writeField _ _ _ = r2
                  cases r2 with
                  | panic w => exact hooksOK_panic _ _ _
                  | stuck w => exact hooksOK_stuck _ _ _
                  | ok o2 => exact hooksOK_ok _ _ _ hds
          | prim _ _ _ _ => exact hooksOK_stuck _ _ _
          | obj _ _ _ _ => exact hooksOK_stuck _ _ _
          | list _ _ _ _ => exact hooksOK_stuck _ _ _
          | nilv => exact hooksOK_stuck _ _ _
          | foreign _ => exact hooksOK_stuck _ _ _
  | objectMap =>
    simp only []
    cases hl : List.lookup info.nameSnake (attrs.getD []) with
    | none => exact hooksOK_ok _ _ _ (by simp [FromSt.diag, fieldHooks_none recH info mv msg _ hl (by rw [hk]; decide)])
    | some a =>
      simp only []
      cases hw : (a.vkind != vkindOf info.tf.valueType || a.vkind == .unknown)
      case true =>
        exact hooksOK_ok _ _ _ (by simp [FromSt.diag, fieldHooks_wrong recH info mv msg _ a hl (by rw [hk]; decide) hw])
      case false =>
        rw [fieldHooks_val recH info mv msg _ a hl (by rw [hk]; decide) hw]
        simp only [Bool.false_eq_true, if_false]
        cases hg : embedGuard info a st.obj with
        | none => exact hooksOK_ok _ _ _ (by simp [valHooks_unknown recH info mv msg a (embedGuard_none hg)])
        | some obj0 =>
          simp only []
          cases a with
          | map unk null elems ety =>
            simp only [valHooks_map]
            generalize writeField _ _ _ = r
            cases r with
            | panic w => exact hooksOK_panic _ _ _
            | stuck w => exact hooksOK_stuck _ _ _
            | ok o =>
              simp only []
              cases hkn : known unk null with
              | false => exact hooksOK_ok _ _ _ (by simp)
              | true =>
                simp only [if_true]
                generalize hloop : fromElemsMap _ _ _ _ _ = lr
                cases lr with
                | panic w => exact hooksOK_panic _ _ _
                | stuck w => exact hooksOK_stuck _ _ _
                | ok q =>
                  obtain ⟨l, ds, hs⟩ := q
                  simp only []
                  have hds := fromElemsMap_hooks _ _ (fromElemBody_hooks rec recH hrec ov info (mv.getD info)) _ _ _ _ _ _ _ hloop
                  generalize writeField _ _ _ = r2
                  cases r2 with
                  | panic w => exact hooksOK_panic _ _ _
                  | stuck w => exact hooksOK_stuck _ _ _
                  | ok o2 => exact hooksOK_ok _ _ _ hds
          | prim _ _ _ _ => exact hooksOK_stuck _ _ _
          | obj _ _ _ _ => exact hooksOK_stuck _ _ _
          | list _ _ _ _ => exact hooksOK_stuck _ _ _
          | nilv => exact hooksOK_stuck _ _ _
          | foreign _ => exact hooksOK_stuck _ _ _

theorem fromHooksField_eq (f : Field) (attrs : List (String × TfVal)) :
    fromHooksField f attrs =
      if f.info.isPlaceholder then [] else
      fieldHooksWith (fun as => fromHooksFields f.sub as) f.info f.mapVal f.msg attrs := by
  cases f; simp only [fromHooksField]

mutual

/-- **the hook calls of the field blocks of a message are exactly the census** `fromHooksFields`, appended in order to
the log present before – every IR, every Terraform value, every prior state; independent of the import path overrides -/
theorem fromFields_hooks (ov : List (String × String)) : ∀ (fs : List Field) (attrs : Option (List (String × TfVal)))
    (st st' : FromSt), copyFromFields ov fs attrs st = .ok st' →
      st'.hooks = st.hooks ++ fromHooksFields fs (attrs.getD [])
  | [], attrs, st, st', h => by
    simp only [copyFromFields, Outcome.ok.injEq] at h
    simp [fromHooksFields, h]
  | f :: rest, attrs, st, st', h => by
    simp only [copyFromFields] at h
    simp only [fromHooksFields]
    split at h
    · rename_i hp
      rw [fromFields_hooks ov rest attrs st st' h, fromHooksField_eq]
      simp [hp]
    · rename_i hp
      cases hf : copyFromField ov f attrs st with
      | ok s1 =>
        rw [hf] at h
        rw [fromFields_hooks ov rest attrs s1 st' h, fromField_hooks ov f attrs st s1 (by simpa using hp) hf]
        simp
      | panic w => rw [hf] at h; cases h
      | stuck w => rw [hf] at h; cases h

theorem fromField_hooks (ov : List (String × String)) : ∀ (f : Field) (attrs : Option (List (String × TfVal)))
    (st st' : FromSt), f.info.isPlaceholder = false → copyFromField ov f attrs st = .ok st' →
      st'.hooks = st.hooks ++ fromHooksField f (attrs.getD [])
  | ⟨info, mv, msg, sub⟩, attrs, st, st', hp, h => by
    simp only [copyFromField] at h
    simp only [] at hp
    simp only [fromHooksField, hp, Bool.false_eq_true, if_false]
    exact fieldWith_hooks
      (fun as s => copyFromFields ov sub as { s with obj := resetOneOfs ((msg.map (·.oneOfNames)).getD []) s.obj })
      (fun as => fromHooksFields sub as)
      (fun as s s' e => fromFields_hooks ov sub as
        { s with obj := resetOneOfs ((msg.map (·.oneOfNames)).getD []) s.obj } s' e) ov info mv msg attrs st st' h

end

/-- **`Copy<T>FromTerraform` calls exactly the census**: the source is an object and the hook log returned is
`fromHooksFields` of its attributes -/
theorem copyFrom_hooks (ov : List (String × String)) (m : Msg) (tf : TfVal) (obj : GoVal) (r : FromResult)
    (h : copyFrom ov m tf obj = .ok r) :
    ∃ u n as tys, tf = .obj u n as tys ∧ r.hooks = fromHooksFields m.fields (as.getD []) := by
  unfold copyFrom at h
  split at h
  · rename_i u n as tys
    refine ⟨u, n, as, tys, rfl, ?_⟩
    split at h
    · rename_i st heq
      have := fromFields_hooks ov m.fields as _ st heq
      simp only [Outcome.ok.injEq] at h
      subst h
      simpa using this
    · cases h
    · cases h
  · cases h

theorem copyFrom_hooks_obj (ov : List (String × String)) (m : Msg) (u n : Bool) (as : Option (List (String × TfVal)))
    (tys : Option (List (String × TfTy))) (obj : GoVal) (r : FromResult)
    (h : copyFrom ov m (.obj u n as tys) obj = .ok r) : r.hooks = fromHooksFields m.fields (as.getD []) := by
  obtain ⟨u', n', as', tys', e, hh⟩ := copyFrom_hooks ov m _ obj r h
  cases e
  exact hh

-- ======================================================================================================
-- 2. corollaries: one call per custom field, no call for anything else
-- ======================================================================================================

theorem fromHooksFields_flatMap (attrs : List (String × TfVal)) :
    ∀ fs : List Field, fromHooksFields fs attrs = fs.flatMap fun f => fromHooksField f attrs
  | [] => by simp [fromHooksFields]
  | f :: rest => by simp [fromHooksFields, fromHooksFields_flatMap attrs rest]

/-- a custom field for which code is emitted (not the placeholder of an empty message) -/
def Field.isLiveCustom (f : Field) : Bool := !f.info.isPlaceholder && f.info.kind == .custom

/-- number of custom fields of a message (this level) -/
def customCount (fs : List Field) : Nat := (fs.filter Field.isLiveCustom).length

/-- **a custom field contributes exactly one call, whatever the input holds** – attribute missing, null, unknown or of
any Go type; the recorded value is the attribute as found (`nilv` when missing) -/
theorem fromHooksField_custom (f : Field) (attrs : List (String × TfVal)) (hp : f.info.isPlaceholder = false)
    (hk : f.info.kind = .custom) : fromHooksField f attrs = [fromCall f.info attrs] := by
  rw [fromHooksField_eq, hp]
  simp [fieldHooksWith, hk]

theorem fromHooksField_live (f : Field) (attrs : List (String × TfVal)) (h : f.isLiveCustom = true) :
    fromHooksField f attrs = [fromCall f.info attrs] := by
  simp only [Field.isLiveCustom, Bool.and_eq_true, Bool.not_eq_true', beq_iff_eq] at h
  exact fromHooksField_custom f attrs h.1 h.2

/-- the calls of this level: one per custom field, in field order -/
def fromHooksLevel (fs : List Field) (attrs : List (String × TfVal)) : List HookCall :=
  (fs.filter Field.isLiveCustom).map fun f => fromCall f.info attrs

/-- (a) the number of calls of the top level is the number of custom fields – independent of the input -/
theorem fromHooksLevel_length (fs : List Field) (attrs : List (String × TfVal)) :
    (fromHooksLevel fs attrs).length = customCount fs := by
  simp [fromHooksLevel, customCount]

/-- (a) the calls of this level are in the census, in field order (the census interleaves the calls of nested messages) -/
theorem fromHooksLevel_sublist (attrs : List (String × TfVal)) :
    ∀ fs : List Field, (fromHooksLevel fs attrs).Sublist (fromHooksFields fs attrs)
  | [] => by simp [fromHooksLevel, fromHooksFields]
  | f :: rest => by
    have ih := fromHooksLevel_sublist attrs rest
    simp only [fromHooksFields]
    cases hl : f.isLiveCustom with
    | true =>
      rw [fromHooksField_live f attrs hl]
      simp only [fromHooksLevel, List.filter_cons, hl, if_true, List.map_cons, List.singleton_append]
      exact List.Sublist.cons_cons _ ih
    | false =>
      have : fromHooksLevel (f :: rest) attrs = fromHooksLevel rest attrs := by
        simp [fromHooksLevel, hl]
      rw [this]
      exact List.Sublist.trans ih (List.sublist_append_right _ _)

theorem elemHooksWith_nil (recH : List (String × TfVal) → List HookCall) (hrec : ∀ as, recH as = [])
    (info vf : FieldInfo) (e : TfVal) : elemHooksWith recH info vf e = [] := by
  unfold elemHooksWith
  split
  · rfl
  · cases e <;> simp [hrec]

theorem valHooksWith_nil (recH : List (String × TfVal) → List HookCall) (hrec : ∀ as, recH as = [])
    (info : FieldInfo) (mv : Option FieldInfo) (msg : Option MsgInfo) (a : TfVal) : valHooksWith recH info mv msg a = [] := by
  cases a <;> simp [valHooksWith, hrec, elemHooksWith_nil recH hrec]

/-- a field that is not custom makes no call of its own: its calls are those of the nested messages -/
theorem fieldHooksWith_nil (recH : List (String × TfVal) → List HookCall) (hrec : ∀ as, recH as = [])
    (info : FieldInfo) (mv : Option FieldInfo) (msg : Option MsgInfo) (attrs : List (String × TfVal))
    (hk : (info.kind == .custom) = false) : fieldHooksWith recH info mv msg attrs = [] := by
  unfold fieldHooksWith
  simp only [hk, Bool.false_eq_true, if_false]
  split
  · rfl
  · split
    · rfl
    · exact valHooksWith_nil recH hrec info mv msg _

mutual
/-- no custom field at any depth -/
def noCustomFields : List Field → Bool
  | [] => true
  | f :: rest => noCustomField f && noCustomFields rest
def noCustomField : Field → Bool
  | ⟨info, _, _, sub⟩ => info.kind != .custom && noCustomFields sub
end

mutual
theorem fromHooksFields_noCustom : ∀ (fs : List Field), noCustomFields fs = true →
    ∀ attrs, fromHooksFields fs attrs = []
  | [], _, attrs => by simp [fromHooksFields]
  | f :: rest, h, attrs => by
    simp only [noCustomFields, Bool.and_eq_true] at h
    simp [fromHooksFields, fromHooksField_noCustom f h.1 attrs, fromHooksFields_noCustom rest h.2 attrs]

theorem fromHooksField_noCustom : ∀ (f : Field), noCustomField f = true → ∀ attrs, fromHooksField f attrs = []
  | ⟨info, mv, msg, sub⟩, h, attrs => by
    simp only [noCustomField, Bool.and_eq_true, bne_iff_ne, ne_eq] at h
    simp only [fromHooksField]
    split
    · rfl
    · exact fieldHooksWith_nil _ (fun as => fromHooksFields_noCustom sub h.2 as) info mv msg attrs (by simp [h.1])
end

/-- when the nested messages hold no custom field, the census is exactly one call per custom field of this level -/
theorem fromHooksFields_eq_level (attrs : List (String × TfVal)) :
    ∀ fs : List Field, (∀ f ∈ fs, f.info.kind ≠ .custom → noCustomFields f.sub = true) →
      fromHooksFields fs attrs = fromHooksLevel fs attrs
  | [], _ => by simp [fromHooksLevel, fromHooksFields]
  | f :: rest, h => by
    have ih := fromHooksFields_eq_level attrs rest (fun g hg => h g (List.mem_cons_of_mem _ hg))
    simp only [fromHooksFields, ih]
    cases hl : f.isLiveCustom with
    | true =>
      rw [fromHooksField_live f attrs hl]
      simp [fromHooksLevel, hl]
    | false =>
      have e1 : fromHooksLevel (f :: rest) attrs = fromHooksLevel rest attrs := by
        simp [fromHooksLevel, hl]
      rw [e1, fromHooksField_eq]
      split
      · rfl
      · rename_i hp
        have hk : f.info.kind ≠ .custom := by
          intro hk
          simp [Field.isLiveCustom, hk] at hl
          exact hp hl
        rw [fieldHooksWith_nil _ (fun as => fromHooksFields_noCustom f.sub (h f (by simp) hk) as) _ _ _ _ (by simp [hk])]
        rfl

/-- **(a) on runs**: every completed run of the field blocks has made at least one call per custom field of the
message, whatever the input and the prior state … -/
theorem copyFromFields_calls_ge (ov : List (String × String)) (fs : List Field) (attrs : Option (List (String × TfVal)))
    (st st' : FromSt) (h : copyFromFields ov fs attrs st = .ok st') :
    st.hooks.length + customCount fs ≤ st'.hooks.length := by
  rw [fromFields_hooks ov fs attrs st st' h, List.length_append, ← fromHooksLevel_length fs (attrs.getD [])]
  exact Nat.add_le_add_left (fromHooksLevel_sublist (attrs.getD []) fs).length_le _

/-- … and exactly that many – the calls `fromCall` of the custom fields, in field order – when the nested messages
hold no custom field: independent of the input -/
theorem copyFromFields_calls_level (ov : List (String × String)) (fs : List Field) (attrs : Option (List (String × TfVal)))
    (st st' : FromSt) (hflat : ∀ f ∈ fs, f.info.kind ≠ .custom → noCustomFields f.sub = true)
    (h : copyFromFields ov fs attrs st = .ok st') :
    st'.hooks = st.hooks ++ fromHooksLevel fs (attrs.getD []) ∧ st'.hooks.length = st.hooks.length + customCount fs := by
  have e := fromFields_hooks ov fs attrs st st' h
  rw [fromHooksFields_eq_level _ fs hflat] at e
  exact ⟨e, by rw [e, List.length_append, fromHooksLevel_length]⟩

/-- **(c)** an IR without custom fields at any depth: the log is unchanged -/
theorem copyFromFields_noCustom (ov : List (String × String)) (fs : List Field) (attrs : Option (List (String × TfVal)))
    (st st' : FromSt) (hn : noCustomFields fs = true) (h : copyFromFields ov fs attrs st = .ok st') :
    st'.hooks = st.hooks := by
  rw [fromFields_hooks ov fs attrs st st' h, fromHooksFields_noCustom fs hn]
  simp

theorem copyFrom_noCustom (ov : List (String × String)) (m : Msg) (tf : TfVal) (obj : GoVal) (r : FromResult)
    (hn : noCustomFields m.fields = true) (h : copyFrom ov m tf obj = .ok r) : r.hooks = [] := by
  obtain ⟨u, n, as, tys, _, e⟩ := copyFrom_hooks ov m tf obj r h
  rw [e, fromHooksFields_noCustom m.fields hn]

/-- **(b) a custom-field occurrence at any depth.** `CustomAt fs attrs h`: running the field blocks `fs` on an object
with attributes `attrs` meets a custom field whose call is `h` – at this level, or in a nested message reached through
a known non-null object attribute of the right Go type, a known non-null object element of a known non-null list, or
such a value of a known non-null map: exactly the positions `Copy<T>FromTerraform` visits. -/
inductive CustomAt : List Field → List (String × TfVal) → HookCall → Prop
  | here {fs attrs} (f : Field) (hf : f ∈ fs) (hp : f.info.isPlaceholder = false) (hk : f.info.kind = .custom) :
      CustomAt fs attrs (fromCall f.info attrs)
  | inObject {fs attrs h} (f : Field) (as : Option (List (String × TfVal))) (t : Option (List (String × TfTy)))
      (hf : f ∈ fs) (hp : f.info.isPlaceholder = false) (hk : f.info.kind = .object)
      (hl : attrs.lookup f.info.nameSnake = some (.obj false false as t)) (ht : RightType f.info (.obj false false as t))
      (hE : isEmptyMsg f.msg = false) (hd : CustomAt f.sub (as.getD []) h) : CustomAt fs attrs h
  | inListElem {fs attrs h} (f : Field) (es : Option (List TfVal)) (t : Option TfTy)
      (as : Option (List (String × TfVal))) (t' : Option (List (String × TfTy)))
      (hf : f ∈ fs) (hp : f.info.isPlaceholder = false)
      (hk : (f.info.kind == .objectList || f.info.kind == .objectMap) = true)
      (hl : attrs.lookup f.info.nameSnake = some (.list false false es t)) (ht : RightType f.info (.list false false es t))
      (he : .obj false false as t' ∈ es.getD []) (hw : Spec.wrongElem f.info (.obj false false as t') = false)
      (hd : CustomAt f.sub (as.getD []) h) : CustomAt fs attrs h
  | inMapElem {fs attrs h} (f : Field) (es : Option (List (String × TfVal))) (t : Option TfTy) (k : String)
      (as : Option (List (String × TfVal))) (t' : Option (List (String × TfTy)))
      (hf : f ∈ fs) (hp : f.info.isPlaceholder = false)
      (hk : (f.info.kind == .objectList || f.info.kind == .objectMap) = true)
      (hl : attrs.lookup f.info.nameSnake = some (.map false false es t)) (ht : RightType f.info (.map false false es t))
      (he : (k, .obj false false as t') ∈ es.getD [])
      (hw : Spec.wrongElem (f.mapVal.getD f.info) (.obj false false as t') = false)
      (hd : CustomAt f.sub (as.getD []) h) : CustomAt fs attrs h

theorem CustomAt.mono {fs fs' : List Field} {attrs : List (String × TfVal)} {h : HookCall}
    (hsub : ∀ f ∈ fs, f ∈ fs') (c : CustomAt fs attrs h) : CustomAt fs' attrs h := by
  cases c with
  | here f hf hp hk => exact .here f (hsub f hf) hp hk
  | inObject f as t hf hp hk hl ht hE hd => exact .inObject f as t (hsub f hf) hp hk hl ht hE hd
  | inListElem f es t as t' hf hp hk hl ht he hw hd => exact .inListElem f es t as t' (hsub f hf) hp hk hl ht he hw hd
  | inMapElem f es t k as t' hf hp hk hl ht he hw hd => exact .inMapElem f es t k as t' (hsub f hf) hp hk hl ht he hw hd

theorem mem_elemHooksWith {recH : List (String × TfVal) → List HookCall} {info vf : FieldInfo} {e : TfVal} {h : HookCall}
    (hm : h ∈ elemHooksWith recH info vf e) :
    ∃ as t, e = .obj false false as t ∧ Spec.wrongElem vf e = false ∧
      (info.kind == .objectList || info.kind == .objectMap) = true ∧ h ∈ recH (as.getD []) := by
  unfold elemHooksWith at hm
  cases hw : Spec.wrongElem vf e
  case true => simp [hw] at hm
  case false =>
    simp only [hw, Bool.false_eq_true, if_false] at hm
    cases e with
    | obj u n as t =>
      simp only [] at hm
      split at hm
      · rename_i hc
        cases u <;> cases n <;> simp at hc
        exact ⟨as, t, rfl, rfl, by simpa using hc, hm⟩
      · cases hm
    | prim _ _ _ _ => cases hm
    | list _ _ _ _ => cases hm
    | map _ _ _ _ => cases hm
    | nilv => cases hm
    | foreign _ => cases hm

mutual

/-- **(b) no call is made for a non-custom field**: every call of the census is the call of a custom-field occurrence -/
theorem customAt_of_mem_fields : ∀ (fs : List Field) (attrs : List (String × TfVal)) (h : HookCall),
    h ∈ fromHooksFields fs attrs → CustomAt fs attrs h
  | [], attrs, h, hm => by simp [fromHooksFields] at hm
  | f :: rest, attrs, h, hm => by
    simp only [fromHooksFields, List.mem_append] at hm
    rcases hm with hm | hm
    · exact (customAt_of_mem_field f attrs h hm).mono (fun g hg => by simp_all)
    · exact (customAt_of_mem_fields rest attrs h hm).mono (fun g hg => List.mem_cons_of_mem _ hg)

theorem customAt_of_mem_field : ∀ (f : Field) (attrs : List (String × TfVal)) (h : HookCall),
    h ∈ fromHooksField f attrs → CustomAt [f] attrs h
  | ⟨info, mv, msg, sub⟩, attrs, h, hm => by
    simp only [fromHooksField] at hm
    cases hp : info.isPlaceholder
    case true => simp [hp] at hm
    case false =>
      simp only [hp, Bool.false_eq_true, if_false] at hm
      unfold fieldHooksWith at hm
      cases hk : (info.kind == .custom)
      case true =>
        simp only [hk, if_true, List.mem_singleton] at hm
        subst hm
        exact CustomAt.here ⟨info, mv, msg, sub⟩ (List.mem_singleton.mpr rfl) hp (by simpa using hk)
      case false =>
        simp only [hk, Bool.false_eq_true, if_false] at hm
        cases hl : attrs.lookup info.nameSnake with
        | none => simp [hl] at hm
        | some a =>
          simp only [hl] at hm
          cases hw : (a.vkind != vkindOf info.tf.valueType || a.vkind == .unknown)
          case true => simp [hw] at hm
          case false =>
            simp only [hw, Bool.false_eq_true, if_false] at hm
            cases a with
            | obj u n as t =>
              simp only [valHooksWith] at hm
              split at hm
              · rename_i hc
                cases u <;> cases n <;> simp at hc
                exact CustomAt.inObject ⟨info, mv, msg, sub⟩ as t (List.mem_singleton.mpr rfl) hp hc.1 hl hw
                  (by simpa using hc.2) (customAt_of_mem_fields sub _ h hm)
              · cases hm
            | list u n es t =>
              simp only [valHooksWith] at hm
              split at hm
              · cases hm
              · rename_i hc
                cases u <;> cases n <;> simp at hc
                obtain ⟨e, he, hme⟩ := List.mem_flatMap.mp hm
                obtain ⟨as, t', rfl, hwe, hkk, hr⟩ := mem_elemHooksWith hme
                exact CustomAt.inListElem ⟨info, mv, msg, sub⟩ es t as t' (List.mem_singleton.mpr rfl) hp hkk hl hw he hwe
                  (customAt_of_mem_fields sub _ h hr)
            | map u n es t =>
              simp only [valHooksWith] at hm
              split at hm
              · cases hm
              · rename_i hc
                cases u <;> cases n <;> simp at hc
                obtain ⟨⟨k, e⟩, he, hme⟩ := List.mem_flatMap.mp hm
                obtain ⟨as, t', rfl, hwe, hkk, hr⟩ := mem_elemHooksWith hme
                exact CustomAt.inMapElem ⟨info, mv, msg, sub⟩ es t k as t' (List.mem_singleton.mpr rfl) hp hkk hl hw he hwe
                  (customAt_of_mem_fields sub _ h hr)
            | prim _ _ _ _ => simp [valHooksWith] at hm
            | nilv => simp [valHooksWith] at hm
            | foreign _ => simp [valHooksWith] at hm

end

theorem mem_fromHooksFields (attrs : List (String × TfVal)) (h : HookCall) (f : Field) :
    ∀ (fs : List Field), f ∈ fs → h ∈ fromHooksField f attrs → h ∈ fromHooksFields fs attrs
  | [], hf, _ => by cases hf
  | g :: rest, hf, hd => by
    simp only [fromHooksFields, List.mem_append]
    rcases List.mem_cons.mp hf with rfl | hf'
    · exact Or.inl hd
    · exact Or.inr (mem_fromHooksFields attrs h f rest hf' hd)

theorem kind_ne_custom_of_listy {info : FieldInfo} (hk : (info.kind == .objectList || info.kind == .objectMap) = true) :
    (info.kind == .custom) = false := by
  cases h : info.kind <;> simp_all

/-- … and conversely the call of every custom-field occurrence is in the census -/
theorem customAt_mem_census {fs : List Field} {attrs : List (String × TfVal)} {h : HookCall}
    (c : CustomAt fs attrs h) : h ∈ fromHooksFields fs attrs := by
  induction c with
  | here f hf hp hk =>
    apply mem_fromHooksFields _ _ f _ hf
    simp [fromHooksField_custom f _ hp hk]
  | inObject f as t hf hp hk hl ht hE hd ih =>
    apply mem_fromHooksFields _ _ f _ hf
    rw [fromHooksField_eq, hp]
    simp only [Bool.false_eq_true, if_false]
    rw [fieldHooks_val _ f.info f.mapVal f.msg _ _ hl (by rw [hk]; decide) ht]
    simpa [valHooksWith, hk, hE] using ih
  | inListElem f es t as t' hf hp hk hl ht he hw hd ih =>
    apply mem_fromHooksFields _ _ f _ hf
    rw [fromHooksField_eq, hp]
    simp only [Bool.false_eq_true, if_false]
    rw [fieldHooks_val _ f.info f.mapVal f.msg _ _ hl (kind_ne_custom_of_listy hk) ht]
    simp only [valHooksWith, Bool.or_self, Bool.false_eq_true, if_false, List.mem_flatMap]
    exact ⟨_, he, by simpa [elemHooksWith, hw, hk] using ih⟩
  | inMapElem f es t k as t' hf hp hk hl ht he hw hd ih =>
    apply mem_fromHooksFields _ _ f _ hf
    rw [fromHooksField_eq, hp]
    simp only [Bool.false_eq_true, if_false]
    rw [fieldHooks_val _ f.info f.mapVal f.msg _ _ hl (kind_ne_custom_of_listy hk) ht]
    simp only [valHooksWith, Bool.or_self, Bool.false_eq_true, if_false, List.mem_flatMap]
    exact ⟨(k, _), he, by simpa [elemHooksWith, hw, hk] using ih⟩

/-- **(b), as an equivalence**: the census is exactly the set of calls of custom-field occurrences CopyFrom visits -/
theorem mem_census_iff (fs : List Field) (attrs : List (String × TfVal)) (h : HookCall) :
    h ∈ fromHooksFields fs attrs ↔ CustomAt fs attrs h :=
  ⟨customAt_of_mem_fields fs attrs h, customAt_mem_census⟩

/-- `f` occurs in the IR below `fs`, at any depth -/
inductive Field.OccursIn : Field → List Field → Prop
  | top {f fs} (hf : f ∈ fs) : Field.OccursIn f fs
  | nested {f g fs} (hg : g ∈ fs) (h : Field.OccursIn f g.sub) : Field.OccursIn f fs

/-- (b) in plain words: every call recorded is `CopyFrom<Suffix>(attribute)` of a custom (non-placeholder) field of the
IR, applied to the value found under that field's name in some object of the input (`nilv` when missing) -/
theorem customAt_occurs {fs : List Field} {attrs : List (String × TfVal)} {h : HookCall} (c : CustomAt fs attrs h) :
    ∃ (f : Field) (attrs' : List (String × TfVal)), Field.OccursIn f fs ∧ f.info.isPlaceholder = false ∧ f.info.kind = .custom ∧
      h = .copyFrom ("CopyFrom" ++ f.info.suffix) ((attrs'.lookup f.info.nameSnake).getD .nilv) := by
  induction c with
  | here f hf hp hk => exact ⟨f, _, .top hf, hp, hk, rfl⟩
  | inObject f as t hf hp hk hl ht hE hd ih =>
    obtain ⟨g, a', ho, h1, h2, h3⟩ := ih
    exact ⟨g, a', .nested hf ho, h1, h2, h3⟩
  | inListElem f es t as t' hf hp hk hl ht he hw hd ih =>
    obtain ⟨g, a', ho, h1, h2, h3⟩ := ih
    exact ⟨g, a', .nested hf ho, h1, h2, h3⟩
  | inMapElem f es t k as t' hf hp hk hl ht he hw hd ih =>
    obtain ⟨g, a', ho, h1, h2, h3⟩ := ih
    exact ⟨g, a', .nested hf ho, h1, h2, h3⟩

/-- **(b) on runs**: every call a completed run appends is the call of a custom-field occurrence of the IR -/
theorem copyFromFields_calls_custom (ov : List (String × String)) (fs : List Field) (attrs : Option (List (String × TfVal)))
    (st st' : FromSt) (h : copyFromFields ov fs attrs st = .ok st') (c : HookCall) (hc : c ∈ st'.hooks) :
    c ∈ st.hooks ∨ (CustomAt fs (attrs.getD []) c ∧
      ∃ (f : Field) (attrs' : List (String × TfVal)), Field.OccursIn f fs ∧ f.info.isPlaceholder = false ∧ f.info.kind = .custom ∧
        c = .copyFrom ("CopyFrom" ++ f.info.suffix) ((attrs'.lookup f.info.nameSnake).getD .nilv)) := by
  rw [fromFields_hooks ov fs attrs st st' h, List.mem_append] at hc
  rcases hc with hc | hc
  · exact Or.inl hc
  · have ca := customAt_of_mem_fields fs _ c hc
    exact Or.inr ⟨ca, customAt_occurs ca⟩

-- ======================================================================================================
-- 3. CopyTo: the hook calls appended, exactly – into ANY target (in place too)
-- ======================================================================================================

/-- **what the call of a custom field block of CopyTo records**: the function `CopyTo<Suffix>`, the Go value of the
field (`obj.F`, read through a nullable embedded parent: the zero value when that parent is nil), the attribute type
`tf.AttrTypes[<name_snake>]` and the attribute value `tf.Attrs[<name_snake>]` present in the target when the block
runs (the nil interface value when there is none) -/
def toCall (info : FieldInfo) (x : GoVal) (a : TfTy) (cur : Option TfVal) : HookCall :=
  .copyTo ("CopyTo" ++ info.suffix) x (some a) (cur.getD .nilv)

/-- `v, ok := tf.Attrs[name].(types.Object)`: (Null, Attrs, AttrTypes) of the object the nested message is copied
into – the existing one, else a fresh one of the asserted object type -/
def objCur (cur : Option TfVal) (oty : Option (List (String × TfTy))) :
    Bool × List (String × TfVal) × Option (List (String × TfTy)) :=
  match cur with
  | some (.obj _ n (some as) tys) => (n, as, tys)
  | some (.obj _ n none tys) => (n, [], tys)
  | _ => (false, [], oty)

abbrev ToRecH := GoVal → Option (List (String × TfTy)) → List (String × TfVal) → List HookCall

/-- calls of `genObjectBody`: those of the nested message, run on the struct the field holds (a nil pointer: none)
into the attributes / with the attribute types of the existing object value (`objCur`) -/
def toObjHooksWith (recH : ToRecH) (info : FieldInfo) (msg : Option MsgInfo) (subEmpty : Bool) (cur : Option TfVal)
    (oty : Option (List (String × TfTy))) (x : Outcome GoVal) : List HookCall :=
  if !info.isNullable && (subEmpty || isEmptyMsg msg) then
    (if subEmpty then [] else recH (.struct []) (objCur cur oty).2.2 (objCur cur oty).2.1)
  else
  match x with
  | .ok xv =>
    if info.isNullable then
      match xv with
      | .ptr (some s) =>
        if subEmpty then [] else recH (if isEmptyMsg msg then .struct [] else s) (objCur cur oty).2.2 (objCur cur oty).2.1
      | _ => []
    else
      match xv with
      | .struct fs =>
        if subEmpty then [] else
          recH (if isEmptyMsg msg then .struct [] else .struct fs) (objCur cur oty).2.2 (objCur cur oty).2.1
      | _ => []
  | _ => []

/-- calls of one round of the element loop of a list / map of messages: fresh element object (`cur = none`) -/
def toElemHooksWith (recH : ToRecH) (info : FieldInfo) (msg : Option MsgInfo) (subEmpty : Bool)
    (oty : Option (List (String × TfTy))) (a : GoVal) : List HookCall :=
  if info.kind == .objectList || info.kind == .objectMap then toObjHooksWith recH info msg subEmpty none oty (.ok a) else []

/-- the object type of the elements (`o.ElemType.(types.ObjectType)`) -/
def elemOty (info : FieldInfo) (ety : Option TfTy) : Option (List (String × TfTy)) :=
  match elemObjTy (info.kind == .objectList || info.kind == .objectMap) ety with
  | .ok oty => oty
  | _ => none

/-- calls of `genListOrMap`: one round per element of the slice / map the field holds -/
def toListHooksWith (recH : ToRecH) (info : FieldInfo) (msg : Option MsgInfo) (subEmpty : Bool) (ety : Option TfTy)
    (src : GoVal) : List HookCall :=
  if info.isRepeated then
    match src with
    | .slice (some elems) => elems.flatMap (toElemHooksWith recH info msg subEmpty (elemOty info ety))
    | _ => []
  else
    match src with
    | .map (some elems) => elems.flatMap fun (_, a) => toElemHooksWith recH info msg subEmpty (elemOty info ety) a
    | _ => []

/-- `o, ok := a.(types.ListType / types.MapType)`: the element type -/
def listElemTy (info : FieldInfo) (a : TfTy) : Option (Option TfTy) :=
  match a with
  | .list e => if info.isRepeated then some e else none
  | .map e => if info.isRepeated then none else some e
  | _ => none

/-- calls of one field block of CopyTo, given those of the nested message; `cur` = `tf.Attrs[<name_snake>]` when the
block starts. A custom field whose attribute type is present contributes exactly its own call; a field whose attribute
type is missing none (that is a diagnostic); any other field the calls made inside nested messages. -/
def toFieldHooksWith (recH : ToRecH) (info : FieldInfo) (msg : Option MsgInfo) (subEmpty : Bool) (obj0 : GoVal)
    (atys : Option (List (String × TfTy))) (cur : Option TfVal) : List HookCall :=
  match (atys.getD []).lookup info.nameSnake with
  | none => []
  | some a =>
    match info.kind with
    | .primitive => []
    | .object =>
      match a with
      | .obj oty => toObjHooksWith recH info msg subEmpty cur oty (readField info (oneOfShadow info obj0))
      | _ => []
    | .custom =>
      match readField info obj0 with
      | .ok x => [toCall info x a cur]
      | _ => []
    | _ =>
      match listElemTy info a with
      | none => []
      | some ety =>
        match readField info obj0 with
        | .ok src => toListHooksWith recH info msg subEmpty ety src
        | _ => []

/-- the attribute map after the block of `f` has run on `attrs` (diagnostics / hook log do not matter: `ToWriter`) -/
def toAttrsAfter (f : Field) (obj : GoVal) (atys : Option (List (String × TfTy))) (attrs : List (String × TfVal)) :
    List (String × TfVal) :=
  match copyToField f obj atys { attrs := attrs } with
  | .ok s => s.attrs
  | _ => attrs

mutual
/-- **the hook calls `Copy<T>ToTerraform` makes, in order, at every depth, into a target holding `attrs`**: each
block sees the attribute its predecessors left (`toAttrsAfter`) -/
def toHooksFields (fs : List Field) (obj : GoVal) (atys : Option (List (String × TfTy))) (attrs : List (String × TfVal)) :
    List HookCall :=
  match fs with
  | [] => []
  | f :: rest =>
    toHooksField f obj atys (attrs.lookup f.info.nameSnake) ++ toHooksFields rest obj atys (toAttrsAfter f obj atys attrs)

def toHooksField (f : Field) (obj0 : GoVal) (atys : Option (List (String × TfTy))) (cur : Option TfVal) : List HookCall :=
  match f with
  | ⟨info, _, msg, sub⟩ =>
    toFieldHooksWith (fun o a as => toHooksFields sub o a as) info msg sub.isEmpty obj0 atys cur
end

mutual
/-- the closed form: every block looks up its attribute in the ORIGINAL target `attrs` (exact when attribute names
are pairwise distinct in every message: `snakeDistinctFields`) -/
def toHooksFieldsS (fs : List Field) (obj : GoVal) (atys : Option (List (String × TfTy))) (attrs : List (String × TfVal)) :
    List HookCall :=
  match fs with
  | [] => []
  | f :: rest => toHooksFieldS f obj atys (attrs.lookup f.info.nameSnake) ++ toHooksFieldsS rest obj atys attrs

def toHooksFieldS (f : Field) (obj0 : GoVal) (atys : Option (List (String × TfTy))) (cur : Option TfVal) : List HookCall :=
  match f with
  | ⟨info, _, msg, sub⟩ =>
    toFieldHooksWith (fun o a as => toHooksFieldsS sub o a as) info msg sub.isEmpty obj0 atys cur
end

def RecHooksT (rec : ToRec) (recH : ToRecH) : Prop :=
  ∀ o a st st', rec o a st = .ok st' → st'.hooks = st.hooks ++ recH o a st.attrs

def T3HooksOK {α : Type} (base H : List HookCall) (o : Outcome (α × List Diag × List HookCall)) : Prop :=
  ∀ v ds hs, o = .ok (v, ds, hs) → hs = base ++ H

def THooksOK (base H : List HookCall) (o : Outcome ToSt) : Prop := ∀ st', o = .ok st' → st'.hooks = base ++ H

theorem t3HooksOK_panic {α : Type} (base H : List HookCall) (w : String) :
    T3HooksOK (α := α) base H (.panic w) := by intro v ds hs e; cases e
theorem t3HooksOK_stuck {α : Type} (base H : List HookCall) (w : String) :
    T3HooksOK (α := α) base H (.stuck w) := by intro v ds hs e; cases e
theorem t3HooksOK_ok {α : Type} (base H : List HookCall) (v : α) (ds : List Diag) (hs : List HookCall) (h : hs = base ++ H) :
    T3HooksOK base H (.ok (v, ds, hs)) := by intro v ds hs e; cases e; exact h
theorem tHooksOK_panic (base H : List HookCall) (w : String) : THooksOK base H (.panic w) := by intro s e; cases e
theorem tHooksOK_stuck (base H : List HookCall) (w : String) : THooksOK base H (.stuck w) := by intro s e; cases e
theorem tHooksOK_ok (base H : List HookCall) (st : ToSt) (h : st.hooks = base ++ H) : THooksOK base H (.ok st) := by
  intro s e; cases e; exact h

theorem objBody_hooks (rec : ToRec) (recH : ToRecH) (hrec : RecHooksT rec recH) (info : FieldInfo) (msg : Option MsgInfo)
    (subEmpty : Bool) (cur : Option TfVal) (oty : Option (List (String × TfTy))) (x : Outcome GoVal)
    (diags : List Diag) (hooks : List HookCall) :
    T3HooksOK hooks (toObjHooksWith recH info msg subEmpty cur oty x)
      (objBody rec info msg subEmpty cur oty x diags hooks) := by
  unfold objBody toObjHooksWith
  generalize ht : objBody.match_1 _ cur _ _ _ = t
  have hc : objCur cur oty = t := by
    rw [← ht]
    cases cur with
    | none => rfl
    | some c =>
      cases c with
      | obj u n as tys => cases as <;> rfl
      | _ => rfl
  rw [hc]
  obtain ⟨null, attrs, atys⟩ := t
  simp only []
  have fin : ∀ i : GoVal, T3HooksOK hooks (if subEmpty = true then [] else recH i atys attrs)
      (if subEmpty = true then Outcome.ok (TfVal.obj false null (some attrs) atys, diags, hooks)
        else
          match rec i atys { attrs := attrs, diags := diags, hooks := hooks } with
          | .ok st => Outcome.ok (TfVal.obj false null (some st.attrs) atys, st.diags, st.hooks)
          | .panic w => .panic w
          | .stuck w => .stuck w) := by
    intro i
    cases subEmpty
    · simp only [Bool.false_eq_true, if_false]
      cases hr : rec i atys { attrs := attrs, diags := diags, hooks := hooks } with
      | ok s => exact t3HooksOK_ok _ _ _ _ _ (hrec _ _ _ _ hr)
      | panic w => exact t3HooksOK_panic _ _ _
      | stuck w => exact t3HooksOK_stuck _ _ _
    · exact t3HooksOK_ok _ _ _ _ _ (by simp)
  by_cases h1 : (!info.isNullable && (subEmpty || isEmptyMsg msg)) = true
  · simp only [h1, if_true, ite_self]
    exact fin _
  · simp only [h1]
    cases x with
    | panic w => exact t3HooksOK_panic _ _ _
    | stuck w => exact t3HooksOK_stuck _ _ _
    | ok xv =>
      by_cases hn : info.isNullable = true
      · simp only [hn, if_true]
        cases xv with
        | ptr o =>
          cases o with
          | none => exact t3HooksOK_ok _ _ _ _ _ (by simp)
          | some s => exact fin _
        | _ => exact t3HooksOK_stuck _ _ _
      · simp only [hn]
        cases xv with
        | struct fs => exact fin _
        | _ => exact t3HooksOK_stuck _ _ _

theorem copyToElemsList_hooks (body : ElemBody) (eh : GoVal → List HookCall)
    (hb : ∀ a ds hs, T3HooksOK hs (eh a) (body a ds hs)) :
    ∀ (elems : List GoVal) (k : Nat) (acc : List TfVal) (ds : List Diag) (hs : List HookCall),
      T3HooksOK hs (elems.flatMap eh) (copyToElemsList body elems k acc ds hs)
  | [], k, acc, ds, hs => by
    simp only [copyToElemsList]
    exact t3HooksOK_ok _ _ _ _ _ (by simp)
  | a :: rest, k, acc, ds, hs => by
    simp only [copyToElemsList]
    cases hr : body a ds hs with
    | ok q =>
      obtain ⟨v, ds1, hs1⟩ := q
      simp only []
      intro l ds' hs' e
      rw [copyToElemsList_hooks body eh hb rest _ _ _ _ _ _ _ e, hb a ds hs v ds1 hs1 hr]
      simp
    | panic w => exact t3HooksOK_panic _ _ _
    | stuck w => exact t3HooksOK_stuck _ _ _

theorem copyToElemsMap_hooks (body : ElemBody) (eh : GoVal → List HookCall)
    (hb : ∀ a ds hs, T3HooksOK hs (eh a) (body a ds hs)) :
    ∀ (elems : List (String × GoVal)) (acc : List (String × TfVal)) (ds : List Diag) (hs : List HookCall),
      T3HooksOK hs (elems.flatMap fun (_, a) => eh a) (copyToElemsMap body elems acc ds hs)
  | [], acc, ds, hs => by
    simp only [copyToElemsMap]
    exact t3HooksOK_ok _ _ _ _ _ (by simp)
  | (k, a) :: rest, acc, ds, hs => by
    simp only [copyToElemsMap]
    cases hr : body a ds hs with
    | ok q =>
      obtain ⟨v, ds1, hs1⟩ := q
      simp only []
      intro l ds' hs' e
      rw [copyToElemsMap_hooks body eh hb rest _ _ _ _ _ _ e, hb a ds hs v ds1 hs1 hr]
      simp
    | panic w => exact t3HooksOK_panic _ _ _
    | stuck w => exact t3HooksOK_stuck _ _ _

theorem elemBodyOf_hooks (rec : ToRec) (recH : ToRecH) (hrec : RecHooksT rec recH) (info : FieldInfo) (msg : Option MsgInfo)
    (subEmpty : Bool) (obj0 : GoVal) (ety : Option TfTy) (oty : Option (List (String × TfTy))) (a : GoVal) (ds : List Diag)
    (hs : List HookCall) :
    T3HooksOK hs (toElemHooksWith recH info msg subEmpty oty a) (elemBodyOf rec info msg subEmpty obj0 ety oty a ds hs) := by
  unfold elemBodyOf toElemHooksWith
  split
  · exact objBody_hooks rec recH hrec info msg subEmpty none oty (.ok a) ds hs
  · unfold primElemBody
    cases primBody info obj0 none ety (.ok a) with
    | ok q => obtain ⟨v, ds1⟩ := q; exact t3HooksOK_ok _ _ _ _ _ (by simp)
    | panic w => exact t3HooksOK_panic _ _ _
    | stuck w => exact t3HooksOK_stuck _ _ _

theorem listOrMapBody_hooks (rec : ToRec) (recH : ToRecH) (hrec : RecHooksT rec recH) (info : FieldInfo) (msg : Option MsgInfo)
    (subEmpty : Bool) (obj0 : GoVal) (cur : Option TfVal) (ety : Option TfTy) (src : GoVal) (st : ToSt) :
    THooksOK st.hooks (toListHooksWith recH info msg subEmpty ety src)
      (listOrMapBody rec info msg subEmpty obj0 cur ety src st) := by
  unfold listOrMapBody toListHooksWith elemOty
  by_cases hrep : info.isRepeated = true
  · simp only [hrep, if_true]
    cases src with
    | slice o =>
      cases o with
      | none => exact tHooksOK_ok _ _ _ (by simp [ToSt.set])
      | some elems =>
        simp only []
        cases elemObjTy (info.kind == Kind.objectList || info.kind == Kind.objectMap) ety with
        | panic w => exact tHooksOK_panic _ _ _
        | stuck w => exact tHooksOK_stuck _ _ _
        | ok oty =>
          simp only []
          cases curIsElemKind info cur
          · simp only [Bool.false_eq_true, if_false]
            generalize hg : copyToElemsList _ _ _ _ _ _ = r
            cases r with
            | ok q =>
              obtain ⟨es, ds, hs⟩ := q
              exact tHooksOK_ok _ _ _ (copyToElemsList_hooks _ _
                (elemBodyOf_hooks rec recH hrec info msg subEmpty obj0 ety oty) _ _ _ _ _ _ _ _ hg)
            | panic w => exact tHooksOK_panic _ _ _
            | stuck w => exact tHooksOK_stuck _ _ _
          · exact tHooksOK_stuck _ _ _
    | _ => exact tHooksOK_ok _ _ _ (by simp [ToSt.set])
  · simp only [hrep]
    cases src with
    | map o =>
      cases o with
      | none => exact tHooksOK_ok _ _ _ (by simp [ToSt.set])
      | some elems =>
        simp only []
        cases elemObjTy (info.kind == Kind.objectList || info.kind == Kind.objectMap) ety with
        | panic w => exact tHooksOK_panic _ _ _
        | stuck w => exact tHooksOK_stuck _ _ _
        | ok oty =>
          simp only []
          cases curIsElemKind info cur
          · simp only [Bool.false_eq_true, if_false]
            generalize hg : copyToElemsMap _ _ _ _ _ = r
            cases r with
            | ok q =>
              obtain ⟨es, ds, hs⟩ := q
              exact tHooksOK_ok _ _ _ (copyToElemsMap_hooks _ _
                (elemBodyOf_hooks rec recH hrec info msg subEmpty obj0 ety oty) _ _ _ _ _ _ _ hg)
            | panic w => exact tHooksOK_panic _ _ _
            | stuck w => exact tHooksOK_stuck _ _ _
          · exact tHooksOK_stuck _ _ _
    | _ => exact tHooksOK_ok _ _ _ (by simp [ToSt.set])

/-- **one field block of CopyTo appends exactly `toFieldHooksWith`** evaluated at the attribute present when the
block starts (over any recursive call that appends exactly `recH`) -/
theorem toFieldWith_hooks (rec : ToRec) (recH : ToRecH) (hrec : RecHooksT rec recH) (info : FieldInfo) (msg : Option MsgInfo)
    (subEmpty : Bool) (obj0 : GoVal) (atys : Option (List (String × TfTy))) (st : ToSt) :
    THooksOK st.hooks (toFieldHooksWith recH info msg subEmpty obj0 atys (st.attrs.lookup info.nameSnake))
      (copyToFieldWith rec info msg subEmpty obj0 atys st) := by
  unfold copyToFieldWith toFieldHooksWith
  cases (atys.getD []).lookup info.nameSnake with
  | none => exact tHooksOK_ok _ _ _ (by simp [ToSt.diag])
  | some a =>
    simp only []
    cases info.kind with
    | primitive =>
      simp only []
      cases primBody info (oneOfShadow info obj0) (List.lookup info.nameSnake st.attrs) (some a)
          (readField info (oneOfShadow info obj0)) with
      | ok q => obtain ⟨v, ds⟩ := q; exact tHooksOK_ok _ _ _ (by simp [ToSt.set])
      | panic w => exact tHooksOK_panic _ _ _
      | stuck w => exact tHooksOK_stuck _ _ _
    | object =>
      simp only []
      cases a with
      | obj oty =>
        simp only []
        have hb := objBody_hooks rec recH hrec info msg subEmpty (List.lookup info.nameSnake st.attrs) oty
          (readField info (oneOfShadow info obj0)) st.diags st.hooks
        generalize objBody _ _ _ _ _ _ _ _ _ = r at hb
        cases r with
        | ok q => obtain ⟨v, ds, hs⟩ := q; exact tHooksOK_ok _ _ _ (hb _ _ _ rfl)
        | panic w => exact tHooksOK_panic _ _ _
        | stuck w => exact tHooksOK_stuck _ _ _
      | prim _ => exact tHooksOK_ok _ _ _ (by simp [ToSt.diag])
      | list _ => exact tHooksOK_ok _ _ _ (by simp [ToSt.diag])
      | map _ => exact tHooksOK_ok _ _ _ (by simp [ToSt.diag])
      | other _ => exact tHooksOK_ok _ _ _ (by simp [ToSt.diag])
    | custom =>
      simp only []
      cases readField info obj0 with
      | ok x =>
        simp only []
        cases hookTo info.isRepeated x with
        | some v => exact tHooksOK_ok _ _ _ (by simp [toCall])
        | none => exact tHooksOK_stuck _ _ _
      | panic w => exact tHooksOK_panic _ _ _
      | stuck w => exact tHooksOK_stuck _ _ _
    | primitiveList =>
      simp only []
      cases a with
      | list e =>
        cases hrep : info.isRepeated
        · exact tHooksOK_ok _ _ _ (by simp [ToSt.diag, listElemTy, hrep])
        · simp only [listElemTy, hrep, if_true]
          cases readField info obj0 with
          | ok src => exact listOrMapBody_hooks rec recH hrec info msg subEmpty obj0 _ _ src st
          | panic w => exact tHooksOK_panic _ _ _
          | stuck w => exact tHooksOK_stuck _ _ _
      | map e =>
        cases hrep : info.isRepeated
        · simp only [listElemTy, hrep, Bool.false_eq_true, if_false]
          cases readField info obj0 with
          | ok src => exact listOrMapBody_hooks rec recH hrec info msg subEmpty obj0 _ _ src st
          | panic w => exact tHooksOK_panic _ _ _
          | stuck w => exact tHooksOK_stuck _ _ _
        · exact tHooksOK_ok _ _ _ (by simp [ToSt.diag, listElemTy, hrep])
      | prim _ => exact tHooksOK_ok _ _ _ (by simp [ToSt.diag, listElemTy])
      | obj _ => exact tHooksOK_ok _ _ _ (by simp [ToSt.diag, listElemTy])
      | other _ => exact tHooksOK_ok _ _ _ (by simp [ToSt.diag, listElemTy])
    | objectList =>
      simp only []
      cases a with
      | list e =>
        cases hrep : info.isRepeated
        · exact tHooksOK_ok _ _ _ (by simp [ToSt.diag, listElemTy, hrep])
        · simp only [listElemTy, hrep, if_true]
          cases readField info obj0 with
          | ok src => exact listOrMapBody_hooks rec recH hrec info msg subEmpty obj0 _ _ src st
          | panic w => exact tHooksOK_panic _ _ _
          | stuck w => exact tHooksOK_stuck _ _ _
      | map e =>
        cases hrep : info.isRepeated
        · simp only [listElemTy, hrep, Bool.false_eq_true, if_false]
          cases readField info obj0 with
          | ok src => exact listOrMapBody_hooks rec recH hrec info msg subEmpty obj0 _ _ src st
          | panic w => exact tHooksOK_panic _ _ _
          | stuck w => exact tHooksOK_stuck _ _ _
        · exact tHooksOK_ok _ _ _ (by simp [ToSt.diag, listElemTy, hrep])
      | prim _ => exact tHooksOK_ok _ _ _ (by simp [ToSt.diag, listElemTy])
      | obj _ => exact tHooksOK_ok _ _ _ (by simp [ToSt.diag, listElemTy])
      | other _ => exact tHooksOK_ok _ _ _ (by simp [ToSt.diag, listElemTy])
    | primitiveMap =>
      simp only []
      cases a with
      | list e =>
        cases hrep : info.isRepeated
        · exact tHooksOK_ok _ _ _ (by simp [ToSt.diag, listElemTy, hrep])
        · simp only [listElemTy, hrep, if_true]
          cases readField info obj0 with
          | ok src => exact listOrMapBody_hooks rec recH hrec info msg subEmpty obj0 _ _ src st
          | panic w => exact tHooksOK_panic _ _ _
          | stuck w => exact tHooksOK_stuck _ _ _
      | map e =>
        cases hrep : info.isRepeated
        · simp only [listElemTy, hrep, Bool.false_eq_true, if_false]
          cases readField info obj0 with
          | ok src => exact listOrMapBody_hooks rec recH hrec info msg subEmpty obj0 _ _ src st
          | panic w => exact tHooksOK_panic _ _ _
          | stuck w => exact tHooksOK_stuck _ _ _
        · exact tHooksOK_ok _ _ _ (by simp [ToSt.diag, listElemTy, hrep])
      | prim _ => exact tHooksOK_ok _ _ _ (by simp [ToSt.diag, listElemTy])
      | obj _ => exact tHooksOK_ok _ _ _ (by simp [ToSt.diag, listElemTy])
      | other _ => exact tHooksOK_ok _ _ _ (by simp [ToSt.diag, listElemTy])
    | objectMap =>
      simp only []
      cases a with
      | list e =>
        cases hrep : info.isRepeated
        · exact tHooksOK_ok _ _ _ (by simp [ToSt.diag, listElemTy, hrep])
        · simp only [listElemTy, hrep, if_true]
          cases readField info obj0 with
          | ok src => exact listOrMapBody_hooks rec recH hrec info msg subEmpty obj0 _ _ src st
          | panic w => exact tHooksOK_panic _ _ _
          | stuck w => exact tHooksOK_stuck _ _ _
      | map e =>
        cases hrep : info.isRepeated
        · simp only [listElemTy, hrep, Bool.false_eq_true, if_false]
          cases readField info obj0 with
          | ok src => exact listOrMapBody_hooks rec recH hrec info msg subEmpty obj0 _ _ src st
          | panic w => exact tHooksOK_panic _ _ _
          | stuck w => exact tHooksOK_stuck _ _ _
        · exact tHooksOK_ok _ _ _ (by simp [ToSt.diag, listElemTy, hrep])
      | prim _ => exact tHooksOK_ok _ _ _ (by simp [ToSt.diag, listElemTy])
      | obj _ => exact tHooksOK_ok _ _ _ (by simp [ToSt.diag, listElemTy])
      | other _ => exact tHooksOK_ok _ _ _ (by simp [ToSt.diag, listElemTy])

/-- the attributes a completed block leaves are `toAttrsAfter` of those it found – whatever diags / hooks were there -/
theorem toAttrsAfter_eq (f : Field) (obj : GoVal) (atys : Option (List (String × TfTy))) (st s1 : ToSt)
    (h : copyToField f obj atys st = .ok s1) : toAttrsAfter f obj atys st.attrs = s1.attrs := by
  have hi := copyToField_attrs_indep f obj atys { attrs := st.attrs } st rfl
  rw [h] at hi
  unfold toAttrsAfter
  cases hr : copyToField f obj atys { attrs := st.attrs } with
  | ok s => rw [hr] at hi; simp only [Outcome.mapO, Outcome.ok.injEq] at hi; exact hi
  | panic w => rw [hr] at hi; cases hi
  | stuck w => rw [hr] at hi; cases hi

mutual

/-- **the hook calls of the field blocks of `Copy<T>ToTerraform` are exactly the census** `toHooksFields`, appended in
order to the log present before – every IR, every struct value, every attribute-type family, ANY target state
(in place too) -/
theorem toFields_hooks : ∀ (fs : List Field) (obj : GoVal) (atys : Option (List (String × TfTy))) (st st' : ToSt),
    copyToFields fs obj atys st = .ok st' → st'.hooks = st.hooks ++ toHooksFields fs obj atys st.attrs
  | [], obj, atys, st, st', h => by
    simp only [copyToFields, Outcome.ok.injEq] at h
    simp [toHooksFields, h]
  | f :: rest, obj, atys, st, st', h => by
    simp only [copyToFields] at h
    simp only [toHooksFields]
    cases hf : copyToField f obj atys st with
    | ok s1 =>
      rw [hf] at h
      rw [toFields_hooks rest obj atys s1 st' h, toField_hooks f obj atys st s1 hf, toAttrsAfter_eq f obj atys st s1 hf]
      simp
    | panic w => rw [hf] at h; cases h
    | stuck w => rw [hf] at h; cases h

theorem toField_hooks : ∀ (f : Field) (obj : GoVal) (atys : Option (List (String × TfTy))) (st st' : ToSt),
    copyToField f obj atys st = .ok st' →
      st'.hooks = st.hooks ++ toHooksField f obj atys (st.attrs.lookup f.info.nameSnake)
  | ⟨info, mv, msg, sub⟩, obj, atys, st, st', h => by
    simp only [copyToField] at h
    simp only [toHooksField]
    exact toFieldWith_hooks (fun o a s => copyToFields sub o a s) (fun o a as => toHooksFields sub o a as)
      (fun o a s s' e => toFields_hooks sub o a s s' e) info msg sub.isEmpty obj atys st st' h

end

/-- **`Copy<T>ToTerraform` calls exactly the census**, into any target object -/
theorem copyTo_hooks (m : Msg) (obj : GoVal) (tf : TfVal) (r : ToResult) (h : copyTo m obj tf = .ok r) :
    ∃ u n as atys, tf = .obj u n as atys ∧ r.hooks = toHooksFields m.fields obj atys (as.getD []) := by
  unfold copyTo at h
  split at h
  · rename_i u n as atys
    refine ⟨u, n, as, atys, rfl, ?_⟩
    split at h
    · rename_i st heq
      have := toFields_hooks m.fields obj atys _ st heq
      simp only [Outcome.ok.injEq] at h
      subst h
      simpa using this
    · cases h
    · cases h
  · cases h

-- ------------------------------------------------------------------------------------------------------
-- closed form for pairwise distinct attribute names

mutual
/-- attribute names pairwise distinct in every message of the IR -/
def snakeDistinctFields : List Field → Prop
  | [] => True
  | f :: rest => f.info.nameSnake ∉ rest.map (·.info.nameSnake) ∧ snakeDistinctField f ∧ snakeDistinctFields rest
def snakeDistinctField : Field → Prop
  | ⟨_, _, _, sub⟩ => snakeDistinctFields sub
end

mutual

/-- **closed form, any target**: with pairwise distinct attribute names every block finds in the target what was
there at the start, so the calls are `toHooksFieldsS` of the ORIGINAL attributes (generalised: `attrs0` agrees with
the current state on the attributes of `fs`) -/
theorem toFieldsS_hooks : ∀ (fs : List Field) (obj : GoVal) (atys : Option (List (String × TfTy))) (st st' : ToSt)
    (attrs0 : List (String × TfVal)), snakeDistinctFields fs →
    (∀ f ∈ fs, st.attrs.lookup f.info.nameSnake = attrs0.lookup f.info.nameSnake) →
    copyToFields fs obj atys st = .ok st' → st'.hooks = st.hooks ++ toHooksFieldsS fs obj atys attrs0
  | [], obj, atys, st, st', attrs0, _, _, h => by
    simp only [copyToFields, Outcome.ok.injEq] at h
    simp [toHooksFieldsS, h]
  | f :: rest, obj, atys, st, st', attrs0, hd, ha, h => by
    simp only [copyToFields] at h
    simp only [toHooksFieldsS]
    simp only [snakeDistinctFields] at hd
    cases hf : copyToField f obj atys st with
    | ok s1 =>
      rw [hf] at h
      have hrest : ∀ g ∈ rest, s1.attrs.lookup g.info.nameSnake = attrs0.lookup g.info.nameSnake := by
        intro g hg
        have hne : g.info.nameSnake ≠ f.info.nameSnake := by
          intro e
          exact hd.1 (List.mem_map.mpr ⟨g, hg, e⟩)
        rw [copyToField_frame f obj atys st s1 hf _ hne]
        exact ha g (List.mem_cons_of_mem _ hg)
      rw [toFieldsS_hooks rest obj atys s1 st' attrs0 hd.2.2 hrest h, toFieldS_hooks f obj atys st s1 hd.2.1 hf,
        ha f (by simp)]
      simp
    | panic w => rw [hf] at h; cases h
    | stuck w => rw [hf] at h; cases h

theorem toFieldS_hooks : ∀ (f : Field) (obj : GoVal) (atys : Option (List (String × TfTy))) (st st' : ToSt),
    snakeDistinctField f → copyToField f obj atys st = .ok st' →
      st'.hooks = st.hooks ++ toHooksFieldS f obj atys (st.attrs.lookup f.info.nameSnake)
  | ⟨info, mv, msg, sub⟩, obj, atys, st, st', hd, h => by
    simp only [copyToField] at h
    simp only [toHooksFieldS]
    simp only [snakeDistinctField] at hd
    exact toFieldWith_hooks (fun o a s => copyToFields sub o a s) (fun o a as => toHooksFieldsS sub o a as)
      (fun o a s s' e => toFieldsS_hooks sub o a s s' s.attrs hd (fun _ _ => rfl) e) info msg sub.isEmpty obj atys st st' h

end

/-- **closed form of the census of `Copy<T>ToTerraform`, any target, distinct attribute names** -/
theorem copyToFields_hooksS (fs : List Field) (obj : GoVal) (atys : Option (List (String × TfTy))) (st st' : ToSt)
    (hd : snakeDistinctFields fs) (h : copyToFields fs obj atys st = .ok st') :
    st'.hooks = st.hooks ++ toHooksFieldsS fs obj atys st.attrs :=
  toFieldsS_hooks fs obj atys st st' st.attrs hd (fun _ _ => rfl) h

theorem copyTo_hooksS (m : Msg) (obj : GoVal) (u n : Bool) (as : Option (List (String × TfVal)))
    (atys : Option (List (String × TfTy))) (r : ToResult) (hd : snakeDistinctFields m.fields)
    (h : copyTo m obj (.obj u n as atys) = .ok r) : r.hooks = toHooksFieldsS m.fields obj atys (as.getD []) := by
  unfold copyTo at h
  simp only [] at h
  split at h
  · rename_i st heq
    have := copyToFields_hooksS m.fields obj atys _ st hd heq
    simp only [Outcome.ok.injEq] at h
    subst h
    simpa using this
  · cases h
  · cases h

-- ------------------------------------------------------------------------------------------------------
-- corollaries for CopyTo

theorem mem_toObjHooksWith {recH : ToRecH} {info : FieldInfo} {msg : Option MsgInfo} {se : Bool} {cur : Option TfVal}
    {oty : Option (List (String × TfTy))} {x : Outcome GoVal} {h : HookCall}
    (hm : h ∈ toObjHooksWith recH info msg se cur oty x) :
    ∃ o a as, h ∈ recH o a as ∧ (cur = none → as = []) := by
  unfold toObjHooksWith at hm
  repeat' split at hm
  all_goals first
    | (cases hm; done)
    | exact ⟨_, _, _, hm, fun e => by subst e; rfl⟩

theorem mem_toElemHooksWith {recH : ToRecH} {info : FieldInfo} {msg : Option MsgInfo} {se : Bool}
    {oty : Option (List (String × TfTy))} {a : GoVal} {h : HookCall}
    (hm : h ∈ toElemHooksWith recH info msg se oty a) : ∃ o a as, h ∈ recH o a as ∧ as = [] := by
  unfold toElemHooksWith at hm
  split at hm
  · obtain ⟨o, a', as, h1, h2⟩ := mem_toObjHooksWith hm
    exact ⟨o, a', as, h1, h2 rfl⟩
  · cases hm

theorem mem_toListHooksWith {recH : ToRecH} {info : FieldInfo} {msg : Option MsgInfo} {se : Bool} {ety : Option TfTy}
    {src : GoVal} {h : HookCall} (hm : h ∈ toListHooksWith recH info msg se ety src) :
    ∃ o a as, h ∈ recH o a as ∧ as = [] := by
  unfold toListHooksWith at hm
  split at hm
  · split at hm
    · obtain ⟨e, _, he⟩ := List.mem_flatMap.mp hm
      exact mem_toElemHooksWith he
    · cases hm
  · split at hm
    · obtain ⟨⟨k, e⟩, _, he⟩ := List.mem_flatMap.mp hm
      exact mem_toElemHooksWith he
    · cases hm

/-- **every call of a field block is either the block's own – the field is custom, its attribute type is present,
the call records the value read, that type and the attribute found – or a call of a nested message** (into a fresh
attribute map when the target held nothing under the field's name) -/
theorem mem_toFieldHooksWith {recH : ToRecH} {info : FieldInfo} {msg : Option MsgInfo} {se : Bool} {obj0 : GoVal}
    {atys : Option (List (String × TfTy))} {cur : Option TfVal} {h : HookCall}
    (hm : h ∈ toFieldHooksWith recH info msg se obj0 atys cur) :
    (info.kind = .custom ∧ ∃ x a, (atys.getD []).lookup info.nameSnake = some a ∧ readField info obj0 = .ok x ∧
        h = toCall info x a cur) ∨
    (info.kind ≠ .custom ∧ ∃ o a as, h ∈ recH o a as ∧ (cur = none → as = [])) := by
  unfold toFieldHooksWith at hm
  cases hl : (atys.getD []).lookup info.nameSnake with
  | none => simp [hl] at hm
  | some a =>
    simp only [hl] at hm
    cases hk : info.kind with
    | primitive => simp [hk] at hm
    | custom =>
      simp only [hk] at hm
      cases hr : readField info obj0 with
      | ok x =>
        simp only [hr, List.mem_singleton] at hm
        exact Or.inl ⟨rfl, x, a, rfl, rfl, hm⟩
      | panic w => simp [hr] at hm
      | stuck w => simp [hr] at hm
    | object =>
      simp only [hk] at hm
      refine Or.inr ⟨by simp, ?_⟩
      cases a with
      | obj oty => exact mem_toObjHooksWith hm
      | prim _ => cases hm
      | list _ => cases hm
      | map _ => cases hm
      | other _ => cases hm
    | primitiveList =>
      simp only [hk] at hm
      refine Or.inr ⟨by simp, ?_⟩
      repeat' split at hm
      all_goals first
        | (cases hm; done)
        | (obtain ⟨o, a', as, h1, h2⟩ := mem_toListHooksWith hm; exact ⟨o, a', as, h1, fun _ => h2⟩)
    | objectList =>
      simp only [hk] at hm
      refine Or.inr ⟨by simp, ?_⟩
      repeat' split at hm
      all_goals first
        | (cases hm; done)
        | (obtain ⟨o, a', as, h1, h2⟩ := mem_toListHooksWith hm; exact ⟨o, a', as, h1, fun _ => h2⟩)
    | primitiveMap =>
      simp only [hk] at hm
      refine Or.inr ⟨by simp, ?_⟩
      repeat' split at hm
      all_goals first
        | (cases hm; done)
        | (obtain ⟨o, a', as, h1, h2⟩ := mem_toListHooksWith hm; exact ⟨o, a', as, h1, fun _ => h2⟩)
    | objectMap =>
      simp only [hk] at hm
      refine Or.inr ⟨by simp, ?_⟩
      repeat' split at hm
      all_goals first
        | (cases hm; done)
        | (obtain ⟨o, a', as, h1, h2⟩ := mem_toListHooksWith hm; exact ⟨o, a', as, h1, fun _ => h2⟩)

/-- **a custom field whose attribute type is present contributes exactly one call** – whatever the target holds; it
records the value read from the struct, the attribute type and the attribute found in the target -/
theorem toFieldHooksWith_custom (recH : ToRecH) (info : FieldInfo) (msg : Option MsgInfo) (se : Bool) (obj0 : GoVal)
    (atys : Option (List (String × TfTy))) (cur : Option TfVal) (a : TfTy) (x : GoVal) (hk : info.kind = .custom)
    (hl : (atys.getD []).lookup info.nameSnake = some a) (hr : readField info obj0 = .ok x) :
    toFieldHooksWith recH info msg se obj0 atys cur = [toCall info x a cur] := by
  simp [toFieldHooksWith, hk, hl, hr]

/-- a field (custom or not) whose attribute type is missing makes no call: that is a diagnostic (`C17_copy_to_missing`) -/
theorem toFieldHooksWith_missing (recH : ToRecH) (info : FieldInfo) (msg : Option MsgInfo) (se : Bool) (obj0 : GoVal)
    (atys : Option (List (String × TfTy))) (cur : Option TfVal)
    (hl : (atys.getD []).lookup info.nameSnake = none) : toFieldHooksWith recH info msg se obj0 atys cur = [] := by
  simp [toFieldHooksWith, hl]

theorem toHooksField_custom (f : Field) (obj0 : GoVal) (atys : Option (List (String × TfTy))) (cur : Option TfVal)
    (a : TfTy) (x : GoVal) (hk : f.info.kind = .custom) (hl : (atys.getD []).lookup f.info.nameSnake = some a)
    (hr : readField f.info obj0 = .ok x) :
    toHooksField f obj0 atys cur = [toCall f.info x a cur] ∧ toHooksFieldS f obj0 atys cur = [toCall f.info x a cur] := by
  obtain ⟨info, mv, msg, sub⟩ := f
  exact ⟨toFieldHooksWith_custom _ info msg _ obj0 atys cur a x hk hl hr,
    toFieldHooksWith_custom _ info msg _ obj0 atys cur a x hk hl hr⟩

/-- a field that is not custom makes no call of its own -/
theorem toFieldHooksWith_nil (recH : ToRecH) (hrec : ∀ o a as, recH o a as = []) (info : FieldInfo) (msg : Option MsgInfo)
    (se : Bool) (obj0 : GoVal) (atys : Option (List (String × TfTy))) (cur : Option TfVal) (hk : info.kind ≠ .custom) :
    toFieldHooksWith recH info msg se obj0 atys cur = [] := by
  apply List.eq_nil_iff_forall_not_mem.mpr
  intro h hm
  rcases mem_toFieldHooksWith hm with ⟨hc, _⟩ | ⟨_, o, a, as, hin, _⟩
  · exact hk hc
  · rw [hrec] at hin; cases hin

mutual
theorem toHooksFields_noCustom : ∀ (fs : List Field), noCustomFields fs = true →
    ∀ obj atys attrs, toHooksFields fs obj atys attrs = []
  | [], _, obj, atys, attrs => by simp [toHooksFields]
  | f :: rest, h, obj, atys, attrs => by
    simp only [noCustomFields, Bool.and_eq_true] at h
    simp [toHooksFields, toHooksField_noCustom f h.1, toHooksFields_noCustom rest h.2]

theorem toHooksField_noCustom : ∀ (f : Field), noCustomField f = true → ∀ obj atys cur, toHooksField f obj atys cur = []
  | ⟨info, mv, msg, sub⟩, h, obj, atys, cur => by
    simp only [noCustomField, Bool.and_eq_true, bne_iff_ne, ne_eq] at h
    simp only [toHooksField]
    exact toFieldHooksWith_nil _ (fun o a as => toHooksFields_noCustom sub h.2 o a as) info msg _ obj atys cur h.1
end

/-- **(c)** an IR without custom fields at any depth: CopyTo leaves the log unchanged, into any target -/
theorem copyToFields_noCustom (fs : List Field) (obj : GoVal) (atys : Option (List (String × TfTy))) (st st' : ToSt)
    (hn : noCustomFields fs = true) (h : copyToFields fs obj atys st = .ok st') : st'.hooks = st.hooks := by
  rw [toFields_hooks fs obj atys st st' h, toHooksFields_noCustom fs hn]
  simp

/-- the call `h` is `CopyTo<Suffix>(obj.F, type, attribute)` of a custom field occurring in the IR below `fs` -/
def ToCallOf (fs : List Field) (h : HookCall) : Prop :=
  ∃ f : Field, Field.OccursIn f fs ∧ f.info.kind = .custom ∧
    ∃ (x : GoVal) (a : TfTy) (cur : Option TfVal) (o : GoVal), readField f.info o = .ok x ∧ h = toCall f.info x a cur

theorem Field.OccursIn.mono {f : Field} {fs fs' : List Field} (hsub : ∀ g ∈ fs, g ∈ fs') (c : Field.OccursIn f fs) :
    Field.OccursIn f fs' := by
  cases c with
  | top hf => exact .top (hsub _ hf)
  | nested hg h => exact .nested (hsub _ hg) h

theorem ToCallOf.mono {fs fs' : List Field} {h : HookCall} (hsub : ∀ g ∈ fs, g ∈ fs') (c : ToCallOf fs h) : ToCallOf fs' h := by
  obtain ⟨f, ho, r⟩ := c
  exact ⟨f, ho.mono hsub, r⟩

mutual

/-- **(b) for CopyTo: no call is made for a non-custom field** – every call of the census is the call of a custom
field occurring in the IR -/
theorem toCallOf_of_mem_fields : ∀ (fs : List Field) (obj : GoVal) (atys : Option (List (String × TfTy)))
    (attrs : List (String × TfVal)) (h : HookCall), h ∈ toHooksFields fs obj atys attrs → ToCallOf fs h
  | [], obj, atys, attrs, h, hm => by simp [toHooksFields] at hm
  | f :: rest, obj, atys, attrs, h, hm => by
    simp only [toHooksFields, List.mem_append] at hm
    rcases hm with hm | hm
    · exact (toCallOf_of_mem_field f obj atys _ h hm).mono (fun g hg => by simp_all)
    · exact (toCallOf_of_mem_fields rest obj atys _ h hm).mono (fun g hg => List.mem_cons_of_mem _ hg)

theorem toCallOf_of_mem_field : ∀ (f : Field) (obj : GoVal) (atys : Option (List (String × TfTy)))
    (cur : Option TfVal) (h : HookCall), h ∈ toHooksField f obj atys cur → ToCallOf [f] h
  | ⟨info, mv, msg, sub⟩, obj, atys, cur, h, hm => by
    simp only [toHooksField] at hm
    rcases mem_toFieldHooksWith hm with ⟨hc, x, a, _, hr, he⟩ | ⟨_, o, a, as, hin, _⟩
    · exact ⟨⟨info, mv, msg, sub⟩, .top (List.mem_singleton.mpr rfl), hc, x, a, cur, obj, hr, he⟩
    · obtain ⟨g, ho, r⟩ := toCallOf_of_mem_fields sub o a as h hin
      exact ⟨g, .nested (g := ⟨info, mv, msg, sub⟩) (List.mem_singleton.mpr rfl) ho, r⟩

end

/-- **(b) on runs of CopyTo** -/
theorem copyToFields_calls_custom (fs : List Field) (obj : GoVal) (atys : Option (List (String × TfTy))) (st st' : ToSt)
    (h : copyToFields fs obj atys st = .ok st') (c : HookCall) (hc : c ∈ st'.hooks) : c ∈ st.hooks ∨ ToCallOf fs c := by
  rw [toFields_hooks fs obj atys st st' h, List.mem_append] at hc
  exact hc.imp id (toCallOf_of_mem_fields fs obj atys _ c)

/-- the attribute value a call of CopyTo records -/
def HookCall.curOf : HookCall → Option TfVal
  | .copyTo _ _ _ cur => some cur
  | .copyFrom _ _ => none

mutual

/-- **fresh target**: into an empty attribute map (distinct attribute names) every hook is handed the nil attribute
value, at every depth -/
theorem toHooksFieldsS_fresh : ∀ (fs : List Field) (obj : GoVal) (atys : Option (List (String × TfTy))) (h : HookCall),
    h ∈ toHooksFieldsS fs obj atys [] → h.curOf = some .nilv
  | [], obj, atys, h, hm => by simp [toHooksFieldsS] at hm
  | f :: rest, obj, atys, h, hm => by
    simp only [toHooksFieldsS, List.mem_append, List.lookup] at hm
    rcases hm with hm | hm
    · exact toHooksFieldS_fresh f obj atys h hm
    · exact toHooksFieldsS_fresh rest obj atys h hm

theorem toHooksFieldS_fresh : ∀ (f : Field) (obj : GoVal) (atys : Option (List (String × TfTy))) (h : HookCall),
    h ∈ toHooksFieldS f obj atys none → h.curOf = some .nilv
  | ⟨info, mv, msg, sub⟩, obj, atys, h, hm => by
    simp only [toHooksFieldS] at hm
    rcases mem_toFieldHooksWith hm with ⟨_, x, a, _, _, he⟩ | ⟨_, o, a, as, hin, has⟩
    · rw [he]; rfl
    · rw [has rfl] at hin
      exact toHooksFieldsS_fresh sub o a h hin

end

/-- **fresh target, on runs** -/
theorem copyToFields_fresh (fs : List Field) (obj : GoVal) (atys : Option (List (String × TfTy))) (st st' : ToSt)
    (hd : snakeDistinctFields fs) (hfresh : st.attrs = []) (h : copyToFields fs obj atys st = .ok st')
    (c : HookCall) (hc : c ∈ st'.hooks) : c ∈ st.hooks ∨ c.curOf = some .nilv := by
  rw [copyToFields_hooksS fs obj atys st st' hd h, hfresh, List.mem_append] at hc
  exact hc.imp id (toHooksFieldsS_fresh fs obj atys c)

-- ======================================================================================================
-- 4. non-vacuity: a custom field at top level, one inside a nested message, one inside list elements
-- ======================================================================================================

def exHkC : Field := { info := { name := "C", nameSnake := "c", kind := .custom, suffix := "Dur", path := "M.C" } }

def exHkD : Field := { info := { name := "D", nameSnake := "d", kind := .custom, suffix := "Labels", path := "M.N.D" } }

def exHkE : Field :=
  { info := { name := "E", nameSnake := "e", kind := .custom, suffix := "BoolCustom", isRepeated := true, path := "M.L.E" } }

def exHkN : Field :=
  { info := { name := "N", nameSnake := "n", kind := .object, isNullable := true, path := "M.N",
              tf := { valueType := "github.com/hashicorp/terraform-plugin-framework/types.Object" } },
    msg := some { name := "Inner" },
    sub := [exHkD] }

def exHkL : Field :=
  { info := { name := "L", nameSnake := "l", kind := .objectList, isRepeated := true, isNullable := true, path := "M.L",
              tf := { valueType := "github.com/hashicorp/terraform-plugin-framework/types.List",
                      elemValueType := "github.com/hashicorp/terraform-plugin-framework/types.Object" } },
    msg := some { name := "Elem" },
    sub := [exHkE] }

def exHkMsg : Msg := { info := { name := "M" }, fields := [exHkC, exHkN, exHkL] }

/-- `c` holds a string, `n.d` is null, the first element of `l` has no `e` at all, the second an unknown `e` -/
def exHkAttrs : List (String × TfVal) :=
  [("c", .prim .string false false (.str [72, 40, 120, 41])),
   ("n", .obj false false (some [("d", .prim .string false true (.str []))]) none),
   ("l", .list false false (some [.obj false false (some []) none,
                                  .obj false false (some [("e", .list true false none none)]) none]) none)]

def exHkLog : List HookCall :=
  [.copyFrom "CopyFromDur" (.prim .string false false (.str [72, 40, 120, 41])),
   .copyFrom "CopyFromLabels" (.prim .string false true (.str [])),
   .copyFrom "CopyFromBoolCustom" .nilv,
   .copyFrom "CopyFromBoolCustom" (.list true false none none)]

theorem exHk_vkObj : vkindOf "github.com/hashicorp/terraform-plugin-framework/types.Object" = .obj := by decide
theorem exHk_vkList : vkindOf "github.com/hashicorp/terraform-plugin-framework/types.List" = .list := by decide

/-- the census of the example: four calls – the missing and the unknown attribute included -/
theorem exHk_census : fromHooksFields exHkMsg.fields exHkAttrs = exHkLog := by
  simp [exHkMsg, exHkC, exHkN, exHkL, exHkD, exHkE, exHkAttrs, exHkLog, fromHooksFields, fromHooksField, fieldHooksWith,
    valHooksWith, elemHooksWith, fromCall, Spec.wrongElem, exHk_vkObj, exHk_vkList, TfVal.vkind, isEmptyMsg, List.lookup]

/-- the run returns and its result passes the Boolean check `p` -/
def Outcome.check {α : Type} (o : Outcome α) (p : α → Bool) : Bool :=
  match o with
  | .ok r => p r
  | _ => false

theorem Outcome.ok_of_check {α : Type} (o : Outcome α) (p : α → Bool)
    (h : o.check p = true) : ∃ r, o = .ok r ∧ p r = true := by
  cases o with
  | ok r => exact ⟨r, rfl, h⟩
  | panic w => cases h
  | stuck w => cases h

/-- the run completes (with the diagnostic for the missing attribute) -/
theorem exHk_ok :
    (copyFrom [] exHkMsg (.obj false false (some exHkAttrs) none) (.struct [])).check
      (fun r => r.diags == [.readMissing "M.L.E"] && r.hooks.length == 4) = true := by
  decide +kernel

/-- the run completes, and its hook log is the census -/
theorem exHk_runs :
    ∃ r, copyFrom [] exHkMsg (.obj false false (some exHkAttrs) none) (.struct []) = .ok r ∧
      r.hooks = exHkLog ∧ r.hooks = fromHooksFields exHkMsg.fields exHkAttrs := by
  obtain ⟨r, hr, _⟩ := Outcome.ok_of_check _ _ exHk_ok
  have hh : r.hooks = fromHooksFields exHkMsg.fields exHkAttrs := copyFrom_hooks_obj [] exHkMsg _ _ _ _ _ r hr
  exact ⟨r, hr, hh.trans exHk_census, hh⟩

-- CopyTo on the same message, into a target that already holds a value under `c` (in place)

def exHkObj : GoVal :=
  .struct [("C", .sc (.str [120])),
           ("N", .ptr (some (.struct [("D", .sc (.str [121]))]))),
           ("L", .slice (some [.ptr (some (.struct [("E", .slice none)]))]))]

def exHkTys : List (String × TfTy) :=
  [("c", .prim .string), ("n", .obj (some [("d", .prim .string)])),
   ("l", .list (some (.obj (some [("e", .list (some (.prim .string)))]))))]

def exHkTarget : List (String × TfVal) := [("c", .prim .string false false (.str [1]))]

def exHkToLog : List HookCall :=
  [.copyTo "CopyToDur" (.sc (.str [120])) (some (.prim .string)) (.prim .string false false (.str [1])),
   .copyTo "CopyToLabels" (.sc (.str [121])) (some (.prim .string)) .nilv,
   .copyTo "CopyToBoolCustom" (.slice none) (some (.list (some (.prim .string)))) .nilv]

theorem exHk_distinct : snakeDistinctFields exHkMsg.fields := by
  simp [exHkMsg, exHkC, exHkN, exHkL, exHkD, exHkE, snakeDistinctFields, snakeDistinctField]

/-- the closed-form census of the example: three calls; the top-level one is handed the value already in the target -/
theorem exHk_toCensus : toHooksFieldsS exHkMsg.fields exHkObj (some exHkTys) exHkTarget = exHkToLog := by
  simp [exHkMsg, exHkC, exHkN, exHkL, exHkD, exHkE, exHkObj, exHkTys, exHkTarget, exHkToLog, toHooksFieldsS, toHooksFieldS,
    toFieldHooksWith, toObjHooksWith, toListHooksWith, toElemHooksWith, elemOty, elemObjTy, listElemTy, toCall, objCur,
    readField, oneOfShadow, GoVal.field?, isEmptyMsg, List.lookup]

theorem exHk_toOk :
    (copyTo exHkMsg exHkObj (.obj false false (some exHkTarget) (some exHkTys))).check
      (fun r => r.diags == [] && r.hooks.length == 3) = true := by
  decide +kernel

/-- the CopyTo run completes, and its hook log is the census -/
theorem exHk_toRuns :
    ∃ r, copyTo exHkMsg exHkObj (.obj false false (some exHkTarget) (some exHkTys)) = .ok r ∧
      r.hooks = exHkToLog ∧ r.hooks = toHooksFieldsS exHkMsg.fields exHkObj (some exHkTys) exHkTarget := by
  obtain ⟨r, hr, _⟩ := Outcome.ok_of_check _ _ exHk_toOk
  have hh : r.hooks = toHooksFieldsS exHkMsg.fields exHkObj (some exHkTys) exHkTarget :=
    copyTo_hooksS exHkMsg exHkObj _ _ _ _ r exHk_distinct hr
  exact ⟨r, hr, hh.trans exHk_toCensus, hh⟩

end PGT

#print axioms PGT.fromFields_hooks
#print axioms PGT.copyFrom_hooks
#print axioms PGT.copyFromFields_calls_ge
#print axioms PGT.copyFromFields_calls_level
#print axioms PGT.copyFromFields_noCustom
#print axioms PGT.mem_census_iff
#print axioms PGT.copyFromFields_calls_custom
#print axioms PGT.toFields_hooks
#print axioms PGT.copyTo_hooks
#print axioms PGT.copyToFields_hooksS
#print axioms PGT.copyTo_hooksS
#print axioms PGT.copyToFields_noCustom
#print axioms PGT.copyToFields_calls_custom
#print axioms PGT.copyToFields_fresh
#print axioms PGT.exHk_census
#print axioms PGT.exHk_ok
#print axioms PGT.exHk_runs
#print axioms PGT.exHk_toRuns
