import PGT.Proofs.EchoOneof
/-
C08 (apply echo) with oneof groups at EVERY position of the tree (task P50).

PGT/Proofs/EchoOneof.lean proves `C08_echo_oneof` for `PlanOKs2` and leaves `C08_echo_oneof_full` open: the same conclusion
for `PlanOKsD` – groups inside the messages of list / map elements and inside the zero struct of a null / unknown by-value
message, message branches without fields, scalar branches held by pointer.

Result of this file.
* **`C08_echo_oneof_full` is FALSE** (`C08_echo_oneof_full_false`). The elements of a list / map are rendered by CopyTo
  from scratch (no existing element value is consulted). A scalar branch held **by value whose Terraform type has no zero
  literal** (`zeroValue = ""`; `ScalarIR` does not ask for one) is then rendered **not null** whether the branch is set or
  not; the second decode reads it into the holder, and if it is declared after the branch that is really set the holder
  switches (`EchoOneofDeepWitness.witness_fails`, evaluated by `decide`). In place (top level, nested messages) the same
  branch is harmless: the existing `Null` flag is kept.
* **The corrected statement is proved** (`C08_echo_oneof_deep` = `C08_echo_oneof_full_corrected_holds`): the conclusion of
  `C08_echo_oneof_full` for every plan satisfying `PlanOKsD` and every IR satisfying `ElemsFreshs` – below the element
  message of a list / map of messages every scalar branch is held by pointer or has a zero literal (`FreshIR`; exactly the
  shapes for which "branch not set" renders null, `ToOneof.BranchIR`). The witness is the remaining shape.
* The judgement actually used is `PlanOKs3` (`C08_echo_oneof3`), with `PlanOKs2 → PlanOKs3` (`planOKs2_planOKs3`) and
  `ElemsFreshs → PlanOKsD → PlanOKs3` (`planOKsD_planOKs3`). It covers all four extensions asked for:
  (1) groups inside list / map element messages (clauses **L** / **Mp**; the decoded elements are typed `ToOKs` / `RT4OKs`,
      rendered from scratch – `freshFields2` – and read back by the round trip with groups `fromField_reads4`);
  (2) the zero struct of a null / unknown by-value nested message (clause **M2**);
  (3) message branches (and nested messages) without fields (clauses **M1** / **M3** with `EmptyOK`);
  (4) scalar branches held by pointer (clause **S**; the comparison lemmas `nfEq_branch_*3`), also below list / map
      elements: `RT4OK` / `fromFields_reads4` extend the round trip with groups of PGT/Proofs/RoundTripOneof.lean (C04,
      `RT2OK`, scalar branches by value only) to scalar branches held by pointer.
-/
namespace PGT
open PGT.Spec PGT.Props

-- ------------------------------------------------------------------------------------------------------
-- the witness against `C08_echo_oneof_full` (the proof that it satisfies `PlanOKsD` is at the end of the file)

namespace EchoOneofDeepWitness
open EchoExample EchoOneofExample

/-- a `string` branch held by value whose Terraform type has **no zero literal** -/
def brNoZero : FieldInfo :=
  { brStr "T" "t" "Choice" "types.Item_T" with tf := { (strField "T" "t").tf with zeroValue := "" } }

def fT : Field := ⟨brNoZero, none, none, []⟩

def itemFields : List Field := [fM, fT]

def listInfo : FieldInfo :=
  { name := "Items", nameSnake := "items", kind := .objectList, isRepeated := true,
    tf := { type := "types.ListType", valueType := "types.List", elemType := "types.ObjectType",
            elemValueType := "types.Object", isMessage := true } }

def fItems : Field := ⟨listInfo, none, some { name := "Item", oneOfNames := ["Choice"] }, itemFields⟩

def msgW : Msg := { info := { name := "W" }, fields := [fItems] }

def itemTys : List (String × TfTy) := [("m", .obj (some innerTys)), ("t", .prim .string)]

def atysW : List (String × TfTy) := [("items", .list (some (.obj (some itemTys))))]

def planW : TfVal :=
  .obj false false
    (some [("items", .list false false
      (some [.obj false false
        (some [("m", .obj false false (some [("c", .prim .string false false (.str [120]))]) (some innerTys)),
               ("t", .prim .string false true (.str []))])
        (some itemTys)])
      (some (.obj (some itemTys))))])
    (some atysW)

/-- the three calls on the witness: no diagnostics, nothing unknown, but the second decode differs from the first -/
theorem witness_fails : run3 msgW planW = some (true, true, false) := by decide +kernel

end EchoOneofDeepWitness

-- ------------------------------------------------------------------------------------------------------
-- the plain-tree typing of the read-back implies the typing with groups

theorem msgTyped_mono_deep (b : Bool) (P Q : GoVal → Prop) (x : GoVal) (h : MsgTyped b P x)
    (hpq : ∀ fs, P (.struct fs) → Q (.struct fs)) : MsgTyped b Q x := by
  unfold MsgTyped at *
  cases b
  · simp only [Bool.false_eq_true, if_false] at *
    obtain ⟨fs, rfl, h1⟩ := h
    exact ⟨fs, rfl, hpq fs h1⟩
  · simp only [if_true] at *
    rcases h with rfl | ⟨fs, rfl, h1⟩
    · exact Or.inl rfl
    · exact Or.inr ⟨fs, rfl, hpq fs h1⟩

mutual
theorem rtok_rt2ok : ∀ (f : Field) (obj : GoVal), RTOK f obj → RT2OK f obj
  | ⟨info, mv, msg, sub⟩, obj, h => by
    unfold RTOK at h
    obtain ⟨ho, he, hem, hph, h⟩ := h
    unfold RT2OK
    refine ⟨he, hem, fun hp => ⟨hph hp, ho⟩, Or.inl ⟨ho, ?_⟩⟩
    cases hk : info.kind with
    | primitive => simp only [hk] at h ⊢; exact h
    | primitiveList => simp only [hk] at h ⊢; exact h
    | primitiveMap => simp only [hk] at h ⊢; exact h
    | custom => simp only [hk] at h
    | object =>
      simp only [hk] at h ⊢
      exact ⟨h.1, msgTyped_mono_deep _ _ _ _ h.2 (fun fs hP => rtoks_rt2oks sub (.struct fs) hP)⟩
    | objectList =>
      simp only [hk] at h ⊢
      exact ⟨h.1, h.2.1, fun e he' => msgTyped_mono_deep _ _ _ _ (h.2.2 e he') (fun fs hP => rtoks_rt2oks sub (.struct fs) hP)⟩
    | objectMap =>
      simp only [hk] at h ⊢
      exact ⟨h.1, h.2.1, h.2.2.1, fun e he' => msgTyped_mono_deep _ _ _ _ (h.2.2.2 e he') (fun fs hP => rtoks_rt2oks sub (.struct fs) hP)⟩

theorem rtoks_rt2oks : ∀ (fs : List Field) (obj : GoVal), RTOKs fs obj → RT2OKs fs obj
  | [], _, _ => trivial
  | f :: rest, obj, h => by
    have hall := rtoks_oneof (f :: rest) obj h
    unfold RTOKs at h
    obtain ⟨hf, hn, hrest⟩ := h
    unfold RT2OKs
    refine ⟨rtok_rt2ok f obj hf, ?_, rtoks_rt2oks rest obj hrest⟩
    intro g hg e
    exfalso
    have h1 := hall f (by simp)
    have h2 := hall g (by simp [hg])
    rw [wkey_plain _ h1, wkey_plain _ h2] at e
    exact hn (by rw [e]; exact List.mem_map_of_mem hg)
end

-- ------------------------------------------------------------------------------------------------------
-- the typing of the read-back with groups, scalar branches held by pointer included

mutual
/-- `RT2OK` (PGT/Proofs/RoundTripOneof.lean) with the scalar branches held by pointer allowed: a scalar branch is held
by pointer or its Terraform type has a zero literal (`ToOneof.BranchIR`: then "branch not set" renders null) -/
def RT4OK : Field → GoVal → Prop
  | ⟨info, mapVal, msg, sub⟩, obj =>
    info.parentIsOptionalEmbed = false ∧ EmptyOK msg sub ∧
    (info.isPlaceholder = true → info.kind = .primitive ∧ info.oneOfName = "") ∧
    ((info.oneOfName = "" ∧
      match info.kind with
      | .primitive =>
        info.isPlaceholder = true ∨
          ∃ k, PrimRT info k ∧ vkindOf info.tf.valueType = .prim k ∧ PrimVal info (getVal info obj)
      | .object =>
        vkindOf info.tf.valueType = .obj ∧ MsgTyped info.isNullable (fun s => RT4OKs sub s) (getVal info obj)
      | .primitiveList =>
        vkindOf info.tf.valueType = .list ∧ info.isPlaceholder = false ∧
          ∃ k, PrimRT info k ∧ ∀ e ∈ sliceElems (getVal info obj), PrimVal info e
      | .objectList =>
        vkindOf info.tf.valueType = .list ∧ vkindOf info.tf.elemValueType = .obj ∧
          ∀ e ∈ sliceElems (getVal info obj), MsgTyped info.isNullable (fun s => RT4OKs sub s) e
      | .primitiveMap =>
        vkindOf info.tf.valueType = .map ∧ info.isPlaceholder = false ∧
          (mapVal.getD info).tf.elemValueType = info.tf.elemValueType ∧
          ((mapElems (getVal info obj)).map (·.1)).Nodup ∧
          ∃ k, PrimRT info k ∧ ∀ e ∈ mapElems (getVal info obj), PrimVal info e.2
      | .objectMap =>
        vkindOf info.tf.valueType = .map ∧ vkindOf (mapVal.getD info).tf.elemValueType = .obj ∧
          ((mapElems (getVal info obj)).map (·.1)).Nodup ∧
          ∀ e ∈ mapElems (getVal info obj), MsgTyped info.isNullable (fun s => RT4OKs sub s) e.2
      | .custom => False) ∨
     (info.oneOfName ≠ "" ∧ HolderWF info obj ∧
      match info.kind with
      | .primitive =>
        (info.isNullable = true ∨ info.tf.zeroValue ≠ "") ∧
          ∃ k, PrimRT info k ∧ vkindOf info.tf.valueType = .prim k ∧ PrimVal info (getVal info obj)
      | .object =>
        info.isNullable = true ∧ vkindOf info.tf.valueType = .obj ∧
          MsgTyped true (fun s => RT4OKs sub s) (getVal info obj)
      | _ => False))

def RT4OKs : List Field → GoVal → Prop
  | [], _ => True
  | f :: rest, obj => RT4OK f obj ∧ (∀ g ∈ rest, SepOK f.info g.info) ∧ RT4OKs rest obj
end

mutual
theorem rt2ok_rt4ok : ∀ (f : Field) (obj : GoVal), RT2OK f obj → RT4OK f obj
  | ⟨info, mv, msg, sub⟩, obj, h => by
    unfold RT2OK at h
    obtain ⟨he, hem, hph, h⟩ := h
    unfold RT4OK
    refine ⟨he, hem, hph, ?_⟩
    rcases h with ⟨ho, h⟩ | ⟨ho, hw, h⟩
    · refine Or.inl ⟨ho, ?_⟩
      cases hk : info.kind with
      | primitive => simp only [hk] at h ⊢; exact h
      | primitiveList => simp only [hk] at h ⊢; exact h
      | primitiveMap => simp only [hk] at h ⊢; exact h
      | custom => simp only [hk] at h
      | object =>
        simp only [hk] at h ⊢
        exact ⟨h.1, msgTyped_mono_deep _ _ _ _ h.2 (fun fs hP => rt2oks_rt4oks sub (.struct fs) hP)⟩
      | objectList =>
        simp only [hk] at h ⊢
        exact ⟨h.1, h.2.1, fun e he' => msgTyped_mono_deep _ _ _ _ (h.2.2 e he') (fun fs hP => rt2oks_rt4oks sub (.struct fs) hP)⟩
      | objectMap =>
        simp only [hk] at h ⊢
        exact ⟨h.1, h.2.1, h.2.2.1, fun e he' => msgTyped_mono_deep _ _ _ _ (h.2.2.2 e he') (fun fs hP => rt2oks_rt4oks sub (.struct fs) hP)⟩
    · refine Or.inr ⟨ho, hw, ?_⟩
      cases hk : info.kind with
      | primitive => simp only [hk] at h ⊢; exact ⟨Or.inr h.2.1, h.2.2⟩
      | object =>
        simp only [hk] at h ⊢
        exact ⟨h.1, h.2.1, msgTyped_mono_deep _ _ _ _ h.2.2 (fun fs hP => rt2oks_rt4oks sub (.struct fs) hP)⟩
      | primitiveList => simp only [hk] at h
      | primitiveMap => simp only [hk] at h
      | objectList => simp only [hk] at h
      | objectMap => simp only [hk] at h
      | custom => simp only [hk] at h

theorem rt2oks_rt4oks : ∀ (fs : List Field) (obj : GoVal), RT2OKs fs obj → RT4OKs fs obj
  | [], _, _ => trivial
  | f :: rest, obj, h => by
    unfold RT2OKs at h
    unfold RT4OKs
    exact ⟨rt2ok_rt4ok f obj h.1, h.2.1, rt2oks_rt4oks rest obj h.2.2⟩
end

theorem rt4oks_mem : ∀ (fs : List Field) (obj : GoVal), RT4OKs fs obj → ∀ f ∈ fs, RT4OK f obj
  | [], _, _, f, hf => by simp at hf
  | x :: rest, obj, hok, f, hf => by
    unfold RT4OKs at hok
    rcases List.mem_cons.1 hf with rfl | hf
    · exact hok.1
    · exact rt4oks_mem rest obj hok.2.2 f hf

-- ------------------------------------------------------------------------------------------------------
-- IR condition for positions that CopyTo renders from scratch (elements of lists / maps of messages)

mutual
/-- everything at and below the field can be rendered from scratch and read back: a scalar branch of a oneof group is
held by pointer or its Terraform type has a zero literal (then "branch not set" renders null: `ToOneof.BranchIR`, `RT4OK`);
it has no nested message marked empty with fields other than placeholders (`EmptyOK`; scalars have no nested message) -/
def FreshIR : Field → Prop
  | ⟨info, _, msg, sub⟩ =>
    (info.oneOfName ≠ "" → info.kind = .primitive → (info.isNullable = true ∨ info.tf.zeroValue ≠ "") ∧ EmptyOK msg sub) ∧
      FreshIRs sub
def FreshIRs : List Field → Prop
  | [] => True
  | f :: rest => FreshIR f ∧ FreshIRs rest
end

theorem freshIRs_mem : ∀ (fs : List Field), FreshIRs fs → ∀ f ∈ fs, FreshIR f
  | [], _, f, hf => by simp at hf
  | g :: rest, h, f, hf => by
    unfold FreshIRs at h
    rcases List.mem_cons.1 hf with rfl | hf
    · exact h.1
    · exact freshIRs_mem rest h.2 f hf

-- ------------------------------------------------------------------------------------------------------
-- the judgement with oneof groups at every position

mutual
/-- `a` is a planned value of field `f` (attribute type `ty`):
* **P** a field of the plain tree (`PlanOK`), or
* **M** a nested message with fields or without (`EmptyOK`):
  **M1** outside oneof groups, known – its attributes satisfy `PlanOKs3` (groups below);
  **M2** outside oneof groups, held by value, null / unknown – no attributes, the zero struct of the message is typed for
  CopyTo and for the read-back (`ToOKs`, `RT4OKs`: groups below);
  **M3** a message branch (held by pointer), any flags – known: `PlanOKs3` below, null / unknown: no attributes, or
* **S** a scalar branch (held by value or by pointer), any flags, `LeafOK`, or
* **L** / **Mp** a list / map of messages (with fields) whose element messages carry groups: the elements of a known list
  satisfy `PlanOKs3`, the element message satisfies `FreshIRs`. -/
def PlanOK3 (X : String → TfVal → Prop) : Field → TfVal → TfTy → Prop
  | ⟨info, mapVal, msg, sub⟩, a, ty =>
    PlanOK X ⟨info, mapVal, msg, sub⟩ a ty ∨
    (info.parentIsOptionalEmbed = false ∧ info.isPlaceholder = false ∧ info.kind = .object ∧ EmptyOK msg sub ∧
      vkindOf info.tf.valueType = .obj ∧ sub ≠ [] ∧
      ((info.oneOfName = "" ∧ ∃ as tys, a = .obj false false as (some tys) ∧ ty = .obj (some tys) ∧
          PlanOKs3 X sub (as.getD []) tys ∧ KeysOK X sub (as.getD [])) ∨
       (info.oneOfName = "" ∧ info.isNullable = false ∧ ∃ u n as tys, a = .obj u n as (some tys) ∧ ty = .obj (some tys) ∧
          known u n = false ∧ as.getD [] = [] ∧ ToOKs sub (.struct []) tys ∧ RT4OKs sub (.struct [])) ∨
       (info.oneOfName ≠ "" ∧ info.isNullable = true ∧ ∃ u n as tys, a = .obj u n as (some tys) ∧ ty = .obj (some tys) ∧
          (known u n = true → PlanOKs3 X sub (as.getD []) tys ∧ KeysOK X sub (as.getD [])) ∧
          (known u n = false → as.getD [] = [])))) ∨
    (info.oneOfName ≠ "" ∧ info.parentIsOptionalEmbed = false ∧ info.isPlaceholder = false ∧ info.kind = .primitive ∧
      ∃ k u n p, a = .prim k u n p ∧ ty = .prim k ∧ vkindOf info.tf.valueType = .prim k ∧ ScalarIR info k ∧
        LeafOK info k u n p) ∨
    (info.oneOfName = "" ∧ info.parentIsOptionalEmbed = false ∧ info.isPlaceholder = false ∧ info.kind = .objectList ∧
      EmptyOK msg sub ∧ FreshIRs sub ∧
      ∃ u n es et tys, a = .list u n es et ∧ ty = .list (some (.obj (some tys))) ∧ vkindOf info.tf.valueType = .list ∧
        vkindOf info.tf.elemValueType = .obj ∧ info.isRepeated = true ∧ sub ≠ [] ∧ isEmptyMsg msg = false ∧
        (known u n = true → ∀ e ∈ es.getD [], ∃ u' n' as tys', e = .obj u' n' as tys' ∧
            (known u' n' = true → PlanOKs3 X sub (as.getD []) tys) ∧
            (known u' n' = false → info.isNullable = false → ToOKs sub (.struct []) tys ∧ RT4OKs sub (.struct []))) ∧
        (u = false → n = true → es.getD [] = [])) ∨
    (info.oneOfName = "" ∧ info.parentIsOptionalEmbed = false ∧ info.isPlaceholder = false ∧ info.kind = .objectMap ∧
      EmptyOK msg sub ∧ FreshIRs sub ∧
      ∃ u n es et tys, a = .map u n es et ∧ ty = .map (some (.obj (some tys))) ∧ vkindOf info.tf.valueType = .map ∧
        vkindOf info.tf.elemValueType = .obj ∧ vkindOf (mapVal.getD info).tf.elemValueType = .obj ∧
        info.isRepeated = false ∧ sub ≠ [] ∧ isEmptyMsg msg = false ∧
        ((es.getD []).map (·.1)).Nodup ∧
        (known u n = true → ∀ e ∈ es.getD [], ∃ u' n' as tys', e.2 = .obj u' n' as tys' ∧
            (known u' n' = true → PlanOKs3 X sub (as.getD []) tys) ∧
            (known u' n' = false → info.isNullable = false → ToOKs sub (.struct []) tys ∧ RT4OKs sub (.struct []))) ∧
        (u = false → n = true → es.getD [] = []))

/-- the list-level clauses are those of `PlanOKs2` -/
def PlanOKs3 (X : String → TfVal → Prop) : List Field → List (String × TfVal) → List (String × TfTy) → Prop
  | [], _, _ => True
  | f :: rest, attrs, atys =>
    (∃ a ty, attrs.lookup f.info.nameSnake = some a ∧ atys.lookup f.info.nameSnake = some ty ∧ PlanOK3 X f a ty) ∧
    f.info.nameSnake ∉ rest.map (·.info.nameSnake) ∧
    (∀ g ∈ rest, SepOK f.info g.info) ∧
    (∀ g ∈ rest, f.info.oneOfName ≠ "" → g.info.oneOfName = f.info.oneOfName →
        notNullAt attrs f = false ∨ notNullAt attrs g = false) ∧
    PlanOKs3 X rest attrs atys
end

/-- a decoded message element of a list / map: typed for the CopyTo from scratch and for the read-back -/
def ElemTyped (nullable : Bool) (sub : List Field) (tys : List (String × TfTy)) (e : GoVal) : Prop :=
  MsgTyped nullable (fun s => ToOKs sub s tys) e ∧ MsgTyped nullable (fun s => RT4OKs sub s) e

mutual
/-- the planned value `a` of field `f` together with what CopyFrom decoded from it into struct `o` -/
def Ech3 (X : String → TfVal → Prop) : Field → TfVal → TfTy → GoVal → Prop
  | ⟨info, mapVal, msg, sub⟩, a, ty, o =>
    (PlanOK X ⟨info, mapVal, msg, sub⟩ a ty ∧ ToOK ⟨info, mapVal, msg, sub⟩ o ty ∧ RTOK ⟨info, mapVal, msg, sub⟩ o ∧
      DecRel ⟨info, mapVal, msg, sub⟩ a (getVal info o)) ∨
    (info.parentIsOptionalEmbed = false ∧ info.isPlaceholder = false ∧ info.kind = .object ∧ EmptyOK msg sub ∧
      vkindOf info.tf.valueType = .obj ∧ sub ≠ [] ∧
      ((info.oneOfName = "" ∧ ∃ as tys fs, a = .obj false false as (some tys) ∧ ty = .obj (some tys) ∧
          getVal info o = (if info.isNullable then .ptr (some (.struct fs)) else .struct fs) ∧
          (isEmptyMsg msg = true → fs = []) ∧
          Ech3s X sub (as.getD []) tys (.struct fs) ∧ KeysOK X sub (as.getD [])) ∨
       (info.oneOfName = "" ∧ info.isNullable = false ∧ ∃ u n as tys, a = .obj u n as (some tys) ∧ ty = .obj (some tys) ∧
          known u n = false ∧ as.getD [] = [] ∧ getVal info o = .struct [] ∧
          ToOKs sub (.struct []) tys ∧ RT4OKs sub (.struct [])) ∨
       (info.oneOfName ≠ "" ∧ info.isNullable = true ∧ ∃ u n as tys, a = .obj u n as (some tys) ∧ ty = .obj (some tys) ∧
          (known u n = true → ∃ fs, BrState info o (some (.ptr (some (.struct fs)))) ∧ (isEmptyMsg msg = true → fs = []) ∧
              Ech3s X sub (as.getD []) tys (.struct fs) ∧ KeysOK X sub (as.getD [])) ∧
          (known u n = false → as.getD [] = [] ∧ BrState info o none)))) ∨
    (info.oneOfName ≠ "" ∧ info.parentIsOptionalEmbed = false ∧ info.isPlaceholder = false ∧ info.kind = .primitive ∧
      ∃ k u n p, a = .prim k u n p ∧ ty = .prim k ∧ vkindOf info.tf.valueType = .prim k ∧ ScalarIR info k ∧
        LeafOK info k u n p ∧
        ∃ x, primDecode info k u n p = .ok x ∧ BrState info o (if known u n then some x else none)) ∨
    (info.oneOfName = "" ∧ info.parentIsOptionalEmbed = false ∧ info.isPlaceholder = false ∧ info.kind = .objectList ∧
      EmptyOK msg sub ∧
      ∃ u n es et tys xs, a = .list u n es et ∧ ty = .list (some (.obj (some tys))) ∧ vkindOf info.tf.valueType = .list ∧
        vkindOf info.tf.elemValueType = .obj ∧ info.isRepeated = true ∧ sub ≠ [] ∧ isEmptyMsg msg = false ∧
        (u = false → n = true → es.getD [] = []) ∧
        getVal info o = .slice (some xs) ∧ xs.length = (if known u n then (es.getD []).length else 0) ∧
        ∀ e ∈ xs, ElemTyped info.isNullable sub tys e) ∨
    (info.oneOfName = "" ∧ info.parentIsOptionalEmbed = false ∧ info.isPlaceholder = false ∧ info.kind = .objectMap ∧
      EmptyOK msg sub ∧
      ∃ u n es et tys xs, a = .map u n es et ∧ ty = .map (some (.obj (some tys))) ∧ vkindOf info.tf.valueType = .map ∧
        vkindOf info.tf.elemValueType = .obj ∧ vkindOf (mapVal.getD info).tf.elemValueType = .obj ∧
        info.isRepeated = false ∧ sub ≠ [] ∧ isEmptyMsg msg = false ∧
        (u = false → n = true → es.getD [] = []) ∧
        getVal info o = .map (some xs) ∧ xs.length = (if known u n then (es.getD []).length else 0) ∧
        (known u n = true → ∀ kv ∈ es.getD [], (xs.lookup kv.1).isSome = true) ∧
        (xs.map (·.1)).Nodup ∧ ∀ e ∈ xs, ElemTyped info.isNullable sub tys e.2)

def Ech3s (X : String → TfVal → Prop) : List Field → List (String × TfVal) → List (String × TfTy) → GoVal → Prop
  | [], _, _, _ => True
  | f :: rest, attrs, atys, o =>
    (∃ a ty, attrs.lookup f.info.nameSnake = some a ∧ atys.lookup f.info.nameSnake = some ty ∧ Ech3 X f a ty o) ∧
    f.info.nameSnake ∉ rest.map (·.info.nameSnake) ∧
    (∀ g ∈ rest, SepOK f.info g.info) ∧
    (∀ g ∈ rest, f.info.oneOfName ≠ "" → g.info.oneOfName = f.info.oneOfName →
        notNullAt attrs f = false ∨ notNullAt attrs g = false) ∧
    Ech3s X rest attrs atys o
end

-- ------------------------------------------------------------------------------------------------------
-- what the judgement says about the fields of one message

theorem ech3s_groups (X : String → TfVal → Prop) (A : List (String × TfVal)) (atys : List (String × TfTy)) (o : GoVal) :
    ∀ (fs : List Field), Ech3s X fs A atys o → GroupsL A fs
  | [], _ => trivial
  | f :: rest, h => by
    unfold Ech3s at h
    exact ⟨h.2.2.1, h.2.2.2.1, ech3s_groups X A atys o rest h.2.2.2.2⟩

theorem ech3s_mem (X : String → TfVal → Prop) (A : List (String × TfVal)) (atys : List (String × TfTy)) (o : GoVal) :
    ∀ (fs : List Field), Ech3s X fs A atys o → ∀ f ∈ fs, ∃ a ty, A.lookup f.info.nameSnake = some a ∧
      atys.lookup f.info.nameSnake = some ty ∧ Ech3 X f a ty o
  | [], _, f, hf => by simp at hf
  | x :: rest, h, f, hf => by
    unfold Ech3s at h
    rcases List.mem_cons.1 hf with rfl | hf
    · exact h.1
    · exact ech3s_mem X A atys o rest h.2.2.2.2 f hf

theorem ech3s_nodupSnake (X : String → TfVal → Prop) (A : List (String × TfVal)) (atys : List (String × TfTy)) (o : GoVal) :
    ∀ (fs : List Field), Ech3s X fs A atys o → (fs.map (·.info.nameSnake)).Nodup
  | [], _ => by simp
  | f :: rest, h => by
    unfold Ech3s at h
    simp only [List.map_cons, List.nodup_cons]
    exact ⟨h.2.1, ech3s_nodupSnake X A atys o rest h.2.2.2.2⟩

/-- the shape of a branch: a scalar (held by value or by pointer), or a message held by pointer -/
def BranchShape3 (f : Field) : Prop :=
  f.info.kind = .primitive ∨ (f.info.kind = .object ∧ f.info.isNullable = true)

theorem ech3_facts (X : String → TfVal → Prop) (f : Field) (a : TfVal) (ty : TfTy) (o : GoVal) (h : Ech3 X f a ty o) :
    f.info.parentIsOptionalEmbed = false ∧
    (f.info.oneOfName = "" → (f.info.isPlaceholder = true → f.info.kind = .primitive)) ∧
    (f.info.oneOfName ≠ "" → f.info.isPlaceholder = false ∧ BranchShape3 f ∧
      ∃ x, BrState f.info o x ∧ (isNull a = true → x = none)) := by
  obtain ⟨info, mv, msg, sub⟩ := f
  unfold Ech3 at h
  rcases h with ⟨hp, _⟩ | ⟨he, hph, hk, _, _, _, hcase⟩ | ⟨ho, he, hph, hk, k, u, n, p, rfl, _, _, _, _, x, _, hst⟩ |
    ⟨ho, he, hph, _⟩ | ⟨ho, he, hph, _⟩
  · unfold PlanOK at hp
    exact ⟨hp.2.1, fun _ => hp.2.2.1, fun h => absurd hp.1 h⟩
  · refine ⟨he, fun _ h => (by rw [hph] at h; cases h), ?_⟩
    intro ho
    rcases hcase with ⟨ho', _⟩ | ⟨ho', _⟩ | ⟨_, hn, u, n, as, tys, rfl, _, hkn, hunk⟩
    · exact absurd ho' ho
    · exact absurd ho' ho
    · refine ⟨hph, Or.inr ⟨hk, hn⟩, ?_⟩
      by_cases hknown : known u n = true
      · obtain ⟨fs, hst, _⟩ := hkn hknown
        refine ⟨_, hst, ?_⟩
        intro hnull
        cases u <;> cases n <;> simp [known, isNull] at hknown hnull
      · exact ⟨none, (hunk (by simpa using hknown)).2, fun _ => rfl⟩
  · refine ⟨he, fun h => absurd h ho, fun _ => ⟨hph, Or.inl hk, _, hst, ?_⟩⟩
    intro hnull
    have : n = true := by simpa [isNull] using hnull
    subst this
    simp [known]
  · exact ⟨he, fun _ h => (by rw [hph] at h; cases h), fun h => absurd ho h⟩
  · exact ⟨he, fun _ h => (by rw [hph] at h; cases h), fun h => absurd ho h⟩

-- ------------------------------------------------------------------------------------------------------
-- the comparison of C04 on a branch (scalar branches held by pointer included)

/-- a branch that contributes nothing: it reads as a zero scalar / nil pointer -/
def Idle3 (f : Field) (obj : GoVal) : Prop :=
  match f.info.kind with
  | .primitive => primIsZero (getVal f.info obj) = true
  | .object => getVal f.info obj = .ptr none
  | _ => False

theorem idle3_of_branchIdle (f : Field) (obj : GoVal) (h : BranchIdle f obj) : Idle3 f obj := by
  unfold BranchIdle at h
  unfold Idle3
  cases hk : f.info.kind <;> simp only [hk] at h ⊢
  · obtain ⟨s, hs, hz⟩ := h
    rw [hs]
    exact hz
  · exact h

/-- what the second decode put into the holder for branch `f`, compared with what the branch reads in the first struct -/
def PayNf3 (f : Field) (x y : GoVal) : Prop :=
  match f with
  | ⟨info, _, _, sub⟩ =>
    match info.kind with
    | .primitive => primNfEq info.isNullable x y = true
    | .object => ∃ fs o', x = .ptr (some (.struct fs)) ∧ y = .ptr (some o') ∧ nfEqFields sub (.struct fs) o' = true
    | _ => False

theorem primNfEq_isZero (b : Bool) (p q : GoVal) (h : primNfEq b p q = true) : primIsZero p = primIsZero q := by
  unfold primNfEq at h
  cases b
  · simp only [Bool.false_eq_true, if_false] at h
    cases p <;> cases q <;> simp at h
    rename_i s t
    simp only [primIsZero]
    exact scNfEq_isZero s t h
  · simp only [if_true] at h
    cases p with
    | ptr op =>
      cases q with
      | ptr oq =>
        cases op with
        | none => cases oq <;> simp at h; rfl
        | some v =>
          cases oq with
          | none => cases v <;> simp at h
          | some w => cases v <;> cases w <;> simp at h; rfl
      | sc _ => cases op <;> simp at h
      | struct _ => cases op <;> simp at h
      | slice _ => cases op <;> simp at h
      | map _ => cases op <;> simp at h
      | iface _ => cases op <;> simp at h
    | sc _ => simp at h
    | struct _ => simp at h
    | slice _ => simp at h
    | map _ => simp at h
    | iface _ => simp at h

theorem primIsZero_zeroGoOf (info : FieldInfo) (hk : info.kind = .primitive) : primIsZero (zeroGoOf info) = true := by
  cases hn : info.isNullable <;> simp [zeroGoOf, hk, hn, primIsZero, scIsZero_zeroOfRep]

theorem nfEq_branch_none3 (f : Field) (a b : GoVal) (ho : f.info.oneOfName ≠ "") (hsh : BranchShape3 f)
    (ha : activePayload f.info a = none) (hb : activePayload f.info b = none) : nfEqField f a b = true := by
  have hob : (f.info.oneOfName != "") = true := by simpa using ho
  obtain ⟨info, mv, msg, sub⟩ := f
  simp only at hob ha hb
  unfold nfEqField
  rcases hsh with hk | ⟨hk, _⟩ <;> simp only at hk <;> simp [hob, hk, ha, hb, Option.filter]

theorem getVal_of_brState (info : FieldInfo) (a : GoVal) (x : Option GoVal) (ho : info.oneOfName ≠ "")
    (he : info.parentIsOptionalEmbed = false) (hst : BrState info a x) :
    getVal info a = (activePayload info a).getD (zeroGoOf info) ∧ activePayload info a = x := by
  cases x with
  | none =>
    have h0 := hst
    simp only [BrState] at h0
    rw [brState_none info a ho he hst, h0]
    exact ⟨rfl, rfl⟩
  | some p =>
    obtain ⟨h1, h2⟩ := brState_some info a p ho he hst
    rw [h1, h2]
    exact ⟨rfl, rfl⟩

/-- a branch that reads zero in `a` (inactive, or active with a zero payload) and is not active in `b` -/
theorem nfEq_branch_idle3 (f : Field) (a b : GoVal) (ho : f.info.oneOfName ≠ "") (he : f.info.parentIsOptionalEmbed = false)
    (hsh : BranchShape3 f) (x : Option GoVal) (hst : BrState f.info a x) (hidle : Idle3 f a)
    (hb : activePayload f.info b = none) : nfEqField f a b = true := by
  cases x with
  | none => exact nfEq_branch_none3 f a b ho hsh hst hb
  | some p =>
    obtain ⟨hg, hap⟩ := brState_some f.info a p ho he hst
    have hob : (f.info.oneOfName != "") = true := by simpa using ho
    unfold Idle3 at hidle
    obtain ⟨info, mv, msg, sub⟩ := f
    simp only at hob hap hb hg hidle
    unfold nfEqField
    rcases hsh with hk | ⟨hk, _⟩ <;> simp only at hk
    · simp only [hk] at hidle
      rw [hg] at hidle
      simp [hob, hk, hap, hb, Option.filter, hidle]
    · simp only [hk] at hidle
      rw [hg] at hidle
      subst hidle
      simp [hob, hk, hap, hb, Option.filter, isNilPtr]

/-- the branch whose wrapper the second holder carries -/
theorem nfEq_branch_set3 (f : Field) (a b : GoVal) (ho : f.info.oneOfName ≠ "") (he : f.info.parentIsOptionalEmbed = false)
    (hsh : BranchShape3 f) (x : Option GoVal) (hst : BrState f.info a x) (y : GoVal)
    (hb : b.field? f.info.oneOfName = some (wrapOf f.info y)) (hp : PayNf3 f (getVal f.info a) y) :
    nfEqField f a b = true := by
  have hob : (f.info.oneOfName != "") = true := by simpa using ho
  have hapb : activePayload f.info b = some y := by
    rw [activePayload_field f.info b _ _ _ hb]; simp
  obtain ⟨hga, _⟩ := getVal_of_brState f.info a x ho he hst
  obtain ⟨info, mv, msg, sub⟩ := f
  simp only at hob hapb hga hp
  unfold PayNf3 at hp
  unfold nfEqField
  rcases hsh with hk | ⟨hk, hn⟩ <;> simp only at hk
  · simp only [hk] at hp
    have hz := primNfEq_isZero _ _ _ hp
    cases hapa : activePayload info a with
    | none =>
      rw [hapa] at hga
      simp only [Option.getD] at hga
      rw [hga, primIsZero_zeroGoOf info hk] at hz
      simp [hob, hk, hapb, Option.filter, ← hz]
    | some p =>
      rw [hapa] at hga
      simp only [Option.getD] at hga
      rw [hga] at hz hp
      cases hzp : primIsZero p with
      | true =>
        rw [hzp] at hz
        simp [hob, hk, hapb, Option.filter, hzp, ← hz]
      | false =>
        rw [hzp] at hz
        simp [hob, hk, hapb, Option.filter, hzp, ← hz, hp]
  · simp only at hn
    simp only [hk] at hp
    obtain ⟨fs, o', hs, rfl, hnf⟩ := hp
    cases hapa : activePayload info a with
    | none =>
      rw [hapa] at hga
      simp only [Option.getD, zeroGoOf, hk, hn, if_true] at hga
      rw [hga] at hs
      cases hs
    | some p =>
      rw [hapa] at hga
      simp only [Option.getD] at hga
      rw [hga] at hs
      subst hs
      simp [hob, hk, hapb, Option.filter, isNilPtr, structOf, hnf]

-- ------------------------------------------------------------------------------------------------------
-- the second decode of a whole message from the second decodes of its fields

/-- the block of branch `f` in the second CopyFrom, on the echoed value `v` -/
def SecondBr3 (ov : List (String × String)) (f : Field) (o : GoVal) (a v : TfVal) : Prop :=
  ∀ (attrs2 : Option (List (String × TfVal))) (st2 : FromSt), (attrs2.getD []).lookup f.info.nameSnake = some v →
    (copyFromField ov f attrs2 st2 = .ok st2 ∧ Idle3 f o) ∨
    (isNull a = false ∧ ∃ y, copyFromField ov f attrs2 st2 =
        .ok { st2 with obj := st2.obj.setField f.info.oneOfName (wrapOf f.info y) } ∧ PayNf3 f (getVal f.info o) y)

def Second3 (ov : List (String × String)) (f : Field) (o : GoVal) (a v : TfVal) : Prop :=
  (f.info.oneOfName = "" ∧ (f.info.isPlaceholder = true ∨ SecondDec ov f (getVal f.info o) v)) ∨
  (f.info.oneOfName ≠ "" ∧ SecondBr3 ov f o a v)

def G3 (A : List (String × TfVal)) (o : GoVal) (g : String) (fs : List Field) (o0 o2 : GoVal) : Prop :=
  (∃ f0 ∈ fs, f0.info.oneOfName = g ∧ notNullAt A f0 = true ∧
      ∃ y, o2.field? g = some (wrapOf f0.info y) ∧ PayNf3 f0 (getVal f0.info o) y) ∨
  (o2.field? g = o0.field? g ∧ ∀ f ∈ fs, f.info.oneOfName = g → Idle3 f o)

theorem second_fields3 (ov : List (String × String)) (o : GoVal) (A : List (String × TfVal))
    (attrs2 : Option (List (String × TfVal))) :
    ∀ (fs : List Field) (st2 : FromSt), IsStruct st2.obj → GroupsL A fs →
    (∀ f ∈ fs, f.info.parentIsOptionalEmbed = false ∧
      (f.info.oneOfName = "" → f.info.isPlaceholder = true → f.info.kind = .primitive) ∧
      (f.info.oneOfName ≠ "" → f.info.isPlaceholder = false)) →
    (∀ f ∈ fs, ∃ a v, A.lookup f.info.nameSnake = some a ∧ (attrs2.getD []).lookup f.info.nameSnake = some v ∧ Second3 ov f o a v) →
    ∃ o2, copyFromFields ov fs attrs2 st2 = .ok { st2 with obj := o2 } ∧ IsStruct o2 ∧
      (∀ f ∈ fs, f.info.oneOfName = "" → valNfEq f (getVal f.info o) (getVal f.info o2) = true) ∧
      (∀ g, g ≠ "" → (∀ f ∈ fs, f.info.oneOfName = "" → f.info.name ≠ g) → G3 A o g fs st2.obj o2) ∧
      (∀ key, (∀ f ∈ fs, wkey f.info ≠ key) → o2.field? key = st2.obj.field? key)
  | [], st2, hs, _, _, _ =>
    ⟨st2.obj, by simp [copyFromFields], hs, by simp, fun g _ _ => Or.inr ⟨rfl, by simp⟩, by simp⟩
  | f :: rest, st2, hs, hG, hfacts, hall => by
    unfold GroupsL at hG
    obtain ⟨hsep, _, hGrest⟩ := hG
    obtain ⟨he, hphk, hbph⟩ := hfacts f (by simp)
    obtain ⟨a, v, hla, hlv, h2⟩ := hall f (by simp)
    have hfactsR : ∀ g ∈ rest, g.info.parentIsOptionalEmbed = false ∧
        (g.info.oneOfName = "" → g.info.isPlaceholder = true → g.info.kind = .primitive) ∧
        (g.info.oneOfName ≠ "" → g.info.isPlaceholder = false) := fun g hg => hfacts g (by simp [hg])
    have hallR : ∀ g ∈ rest, ∃ a v, A.lookup g.info.nameSnake = some a ∧ (attrs2.getD []).lookup g.info.nameSnake = some v ∧
        Second3 ov g o a v := fun g hg => hall g (by simp [hg])
    -- transfer of the holder description from the rest to the whole list when the head does not touch the holder
    have keep : ∀ (g : String) (o0' o2 : GoVal), o0'.field? g = st2.obj.field? g →
        (f.info.oneOfName = g → Idle3 f o) → G3 A o g rest o0' o2 → G3 A o g (f :: rest) st2.obj o2 := by
      intro g o0' o2 h0 hfi hg2
      rcases hg2 with ⟨f0, hf0, h⟩ | ⟨hun, hidle⟩
      · exact Or.inl ⟨f0, by simp [hf0], h⟩
      · refine Or.inr ⟨hun.trans h0, ?_⟩
        intro f' hf' hg'
        simp only [List.mem_cons] at hf'
        rcases hf' with rfl | hf'
        · exact hfi hg'
        · exact hidle f' hf' hg'
    rcases h2 with ⟨ho, hsd⟩ | ⟨ho, hsb⟩
    · by_cases hph : f.info.isPlaceholder = true
      · obtain ⟨o2, hrun2, hso, hval, hg2, hframe⟩ := second_fields3 ov o A attrs2 rest st2 hs hGrest hfactsR hallR
        refine ⟨o2, ?_, hso, ?_, ?_, ?_⟩
        · simp only [copyFromFields, hph, if_true]
          exact hrun2
        · intro g hg hgo
          simp only [List.mem_cons] at hg
          rcases hg with rfl | hg
          · obtain ⟨info, mv, msg, sub⟩ := g
            simp only at hph hphk ho
            unfold valNfEq
            simp [hphk ho hph, hph]
          · exact hval g hg hgo
        · intro g hg hnp
          exact keep g st2.obj o2 rfl (fun e => absurd (ho.symm.trans e).symm hg)
            (hg2 g hg (fun f' hf' => hnp f' (by simp [hf'])))
        · intro key hkey
          exact hframe key (fun g hg => hkey g (by simp [hg]))
      · have hph' : f.info.isPlaceholder = false := by simpa using hph
        rcases hsd with hsd | hsd
        · exact absurd hsd hph
        obtain ⟨y, hrun, hv⟩ := hsd attrs2 st2 hlv
        obtain ⟨o2, hrun2, hso, hval, hg2, hframe⟩ := second_fields3 ov o A attrs2 rest
          { st2 with obj := st2.obj.setField f.info.name y } (isStruct_setField _ _ _ hs) hGrest hfactsR hallR
        refine ⟨o2, ?_, hso, ?_, ?_, ?_⟩
        · simp only [copyFromFields, hph', Bool.false_eq_true, if_false, hrun]
          exact hrun2
        · intro g hg hgo
          simp only [List.mem_cons] at hg
          rcases hg with rfl | hg
          · rw [getVal_plain g.info o2 ho he, hframe g.info.name (fun g' hg' => by
              have := sep_plain_left g.info g'.info (hsep g' hg') ho
              rw [wkey_plain _ ho] at this
              exact this), field?_setField_same _ _ _ hs]
            exact hv
          · exact hval g hg hgo
        · intro g hg hnp
          exact keep g _ o2 (field?_setField_other _ _ _ _ (fun e => hnp f (by simp) ho e.symm))
            (fun e => absurd (ho.symm.trans e).symm hg) (hg2 g hg (fun f' hf' => hnp f' (by simp [hf'])))
        · intro key hkey
          rw [hframe key (fun g hg => hkey g (by simp [hg]))]
          have := hkey f (by simp)
          rw [wkey_plain _ ho] at this
          exact field?_setField_other _ _ _ _ (fun e => this e.symm)
    · have hph' : f.info.isPlaceholder = false := hbph ho
      rcases hsb attrs2 st2 hlv with ⟨hrun, hidle⟩ | ⟨hnn, y, hrun, hpay⟩
      · obtain ⟨o2, hrun2, hso, hval, hg2, hframe⟩ := second_fields3 ov o A attrs2 rest st2 hs hGrest hfactsR hallR
        refine ⟨o2, ?_, hso, ?_, ?_, ?_⟩
        · simp only [copyFromFields, hph', Bool.false_eq_true, if_false, hrun]
          exact hrun2
        · intro g hg hgo
          simp only [List.mem_cons] at hg
          rcases hg with rfl | hg
          · exact absurd hgo ho
          · exact hval g hg hgo
        · intro g hg hnp
          exact keep g st2.obj o2 rfl (fun _ => hidle) (hg2 g hg (fun f' hf' => hnp f' (by simp [hf'])))
        · intro key hkey
          exact hframe key (fun g hg => hkey g (by simp [hg]))
      · obtain ⟨o2, hrun2, hso, hval, hg2, hframe⟩ := second_fields3 ov o A attrs2 rest
          { st2 with obj := st2.obj.setField f.info.oneOfName (wrapOf f.info y) } (isStruct_setField _ _ _ hs)
          hGrest hfactsR hallR
        refine ⟨o2, ?_, hso, ?_, ?_, ?_⟩
        · simp only [copyFromFields, hph', Bool.false_eq_true, if_false, hrun]
          exact hrun2
        · intro g hg hgo
          simp only [List.mem_cons] at hg
          rcases hg with rfl | hg
          · exact absurd hgo ho
          · exact hval g hg hgo
        · intro g hg hnp
          have hrest' := hg2 g hg (fun f' hf' => hnp f' (by simp [hf']))
          by_cases e : f.info.oneOfName = g
          · rcases hrest' with ⟨f0, hf0, h⟩ | ⟨hun, _⟩
            · exact Or.inl ⟨f0, by simp [hf0], h⟩
            · refine Or.inl ⟨f, by simp, e, notNullAt_of A f a hla hnn, y, ?_, hpay⟩
              rw [hun, ← e]
              exact field?_setField_same _ _ _ hs
          · exact keep g _ o2 (field?_setField_other _ _ _ _ (fun e' => e e'.symm)) (fun e' => absurd e' e) hrest'
        · intro key hkey
          rw [hframe key (fun g hg => hkey g (by simp [hg]))]
          have := hkey f (by simp)
          rw [wkey_branch _ ho] at this
          exact field?_setField_other _ _ _ _ (fun e => this e.symm)

/-- a branch that is not the active one reads zero -/
theorem idle3_of_inactive (f : Field) (o : GoVal) (ho : f.info.oneOfName ≠ "") (he : f.info.parentIsOptionalEmbed = false)
    (hsh : BranchShape3 f) (h : activePayload f.info o = none) : Idle3 f o := by
  have hg := ToOneof.inactive_reads_zero f.info o ho he h
  unfold Idle3
  rcases hsh with hk | ⟨hk, hn⟩
  · simp only [hk]
    rw [hg]
    exact primIsZero_zeroGoOf f.info hk
  · simp only [hk]
    rw [hg]
    simp [zeroGoOf, hk, hn]

/-- **the second decode of a whole message with oneof groups, from facts about its fields**: every field is read back
(`Second3`); every branch has a holder state in the first struct `o` and reads zero there when its attribute in `A` is
null; of two branches of one group at most one attribute in `A` is not null (`GroupsL`). Then the decode succeeds without a
diagnostic and gives `o` back in normal form. -/
theorem secondAllG (ov : List (String × String)) (fs : List Field) (A : List (String × TfVal)) (o : GoVal)
    (attrs2 : Option (List (String × TfVal))) (hG : GroupsL A fs)
    (hfacts : ∀ f ∈ fs, f.info.parentIsOptionalEmbed = false ∧
      (f.info.oneOfName = "" → f.info.isPlaceholder = true → f.info.kind = .primitive) ∧
      (f.info.oneOfName ≠ "" → f.info.isPlaceholder = false))
    (hbr : ∀ f ∈ fs, f.info.oneOfName ≠ "" → BranchShape3 f ∧
      ∃ a x, A.lookup f.info.nameSnake = some a ∧ BrState f.info o x ∧ (isNull a = true → Idle3 f o))
    (hall : ∀ f ∈ fs, ∃ a v, A.lookup f.info.nameSnake = some a ∧ (attrs2.getD []).lookup f.info.nameSnake = some v ∧
      Second3 ov f o a v)
    (st2 : FromSt) (hs : IsStruct st2.obj) (hinit : ∀ g, InitNone st2.obj g) :
    ∃ o2, copyFromFields ov fs attrs2 st2 = .ok { st2 with obj := o2 } ∧ IsStruct o2 ∧ nfEqFields fs o o2 = true := by
  obtain ⟨o2, hrun, hso, hval, hg2, _⟩ := second_fields3 ov o A attrs2 fs st2 hs hG hfacts hall
  refine ⟨o2, hrun, hso, ?_⟩
  apply nfEqFields_of_forall
  intro f hf
  by_cases ho : f.info.oneOfName = ""
  · rw [nfEqField_eq_valNfEq f o o2 ho]
    exact hval f hf ho
  · have he := (hfacts f hf).1
    obtain ⟨hsh, a, x, hla, hst, hnullx⟩ := hbr f hf ho
    rcases hg2 f.info.oneOfName ho (fun f' hf' hp' => groups_no_plain_named A fs hG f hf ho f' hf' hp') with
      ⟨f0, hf0, hg0, hnn0, y, hy, hpay⟩ | ⟨hun, hidle⟩
    · rcases groups_mem A fs hG f hf f0 hf0 ho hg0 with rfl | ⟨hne, hex⟩
      · exact nfEq_branch_set3 f o o2 ho he hsh x hst y hy hpay
      · have hfn : notNullAt A f = false := by
          rcases hex with h | h
          · exact h
          · rw [hnn0] at h; cases h
        have hnull : isNull a = true := by
          simp only [notNullAt, hla] at hfn
          simpa using hfn
        exact nfEq_branch_idle3 f o o2 ho he hsh x hst (hnullx hnull)
          (activePayload_wrap_other f.info f0.info o2 y hy hne)
    · refine nfEq_branch_idle3 f o o2 ho he hsh x hst (hidle f hf rfl) ?_
      rw [activePayload_congr f.info o2 st2.obj hun]
      exact activePayload_init f.info _ (hinit _)

/-- **the second decode of a whole message with oneof groups**: it succeeds without a diagnostic and gives the first
struct back in normal form -/
theorem secondAll3 (X : String → TfVal → Prop) (ov : List (String × String)) (fs : List Field) (A : List (String × TfVal))
    (atys : List (String × TfTy)) (o : GoVal) (A' : List (String × TfVal)) (hE : Ech3s X fs A atys o)
    (hall : ∀ f ∈ fs, ∃ a v, A.lookup f.info.nameSnake = some a ∧ A'.lookup f.info.nameSnake = some v ∧ Second3 ov f o a v)
    (st2 : FromSt) (hs : IsStruct st2.obj) (hinit : ∀ g, InitNone st2.obj g) :
    ∃ o2, copyFromFields ov fs (some A') st2 = .ok { st2 with obj := o2 } ∧ IsStruct o2 ∧ nfEqFields fs o o2 = true := by
  have hG := ech3s_groups X A atys o fs hE
  refine secondAllG ov fs A o (some A') hG ?_ ?_ hall st2 hs hinit
  · intro f hf
    obtain ⟨a, ty, _, _, hEf⟩ := ech3s_mem X A atys o fs hE f hf
    obtain ⟨h1, h2, h3⟩ := ech3_facts X f a ty o hEf
    exact ⟨h1, h2, fun h => (h3 h).1⟩
  · intro f hf ho
    obtain ⟨a, ty, hla, _, hEf⟩ := ech3s_mem X A atys o fs hE f hf
    obtain ⟨he, _, hbr⟩ := ech3_facts X f a ty o hEf
    obtain ⟨_, hsh, x, hst, hnullx⟩ := hbr ho
    refine ⟨hsh, a, x, hla, hst, ?_⟩
    intro hnull
    have hx := hnullx hnull
    subst hx
    exact idle3_of_inactive f o ho he hsh hst

-- ------------------------------------------------------------------------------------------------------
-- C04 with groups, scalar branches held by pointer included: CopyFrom reads back what CopyTo rendered from scratch

/-- a scalar branch (held by value with a zero literal, or by pointer): a zero value / nil pointer renders null and is not
read back; anything else renders not null and is read back into the branch's wrapper -/
theorem fieldWith_scalar_branch (rec : FromRec) (ov : List (String × String)) (info : FieldInfo) (mv : Option FieldInfo)
    (msg : Option MsgInfo) (attrs : Option (List (String × TfVal))) (st : FromSt) (a : TfVal) (x : GoVal)
    (hk : info.kind = .primitive) (ho : info.oneOfName ≠ "") (he : info.parentIsOptionalEmbed = false)
    (hb : info.isNullable = true ∨ info.tf.zeroValue ≠ "")
    (k : PrimK) (hrt : PrimRT info k) (hvt : vkindOf info.tf.valueType = .prim k) (hx : PrimVal info x)
    (hl : (attrs.getD []).lookup info.nameSnake = some a) (hr : primRenders info x a = true) :
    (primIsZero x = true ∧ copyFromFieldWith rec ov info mv msg attrs st = .ok st) ∨
    (isNull a = false ∧ ∃ y, copyFromFieldWith rec ov info mv msg attrs st =
        .ok { st with obj := st.obj.setField info.oneOfName (wrapOf info y) } ∧ primNfEq info.isNullable x y = true) := by
  cases a with
  | prim k' u n p =>
    obtain ⟨rfl, y, hd, hy⟩ := primDecode_renders info k hrt x hx k' u n p hr
    have hrun := fromFieldWith_primBranch_run rec ov info mv msg attrs st k' u n p y hk ho he hvt hl hd
    have hflags : u = false ∧ (n = true → primIsZero x = true) := by
      unfold primRenders at hr
      unfold PrimVal at hx
      simp only [Bool.and_eq_true, Bool.not_eq_true'] at hr
      obtain ⟨⟨hu, _⟩, hr⟩ := hr
      refine ⟨hu, ?_⟩
      by_cases hn : info.isNullable = true
      · simp only [hn, if_true] at hx hr
        rcases hx with rfl | ⟨s, rfl, _⟩
        · intro _; rfl
        · simp only [Bool.and_eq_true, Bool.not_eq_true'] at hr
          intro hn'
          rw [hr.1] at hn'
          cases hn'
      · have hn' : info.isNullable = false := by simpa using hn
        have hzv : (info.tf.zeroValue != "") = true := by
          rcases hb with hb | hb
          · exact absurd hb hn
          · simpa using hb
        simp only [hn', Bool.false_eq_true, if_false, hzv, if_true] at hx hr
        obtain ⟨s, rfl, _⟩ := hx
        simp only [Bool.and_eq_true, beq_iff_eq] at hr
        intro h
        simp only [primIsZero]
        rw [← hr.2]
        exact h
    obtain ⟨rfl, hz⟩ := hflags
    cases n with
    | true =>
      left
      exact ⟨hz rfl, by rw [hrun]; simp [known]⟩
    | false =>
      right
      exact ⟨rfl, y, by rw [hrun]; simp [known], hy⟩
  | list _ _ _ _ => simp [primRenders] at hr
  | map _ _ _ _ => simp [primRenders] at hr
  | obj _ _ _ _ => simp [primRenders] at hr
  | nilv => simp [primRenders] at hr
  | foreign _ => simp [primRenders] at hr

/-- the holder state of a branch whose holder is well formed -/
theorem brState_of_holderWF (info : FieldInfo) (o : GoVal) (hw : HolderWF info o) : ∃ x, BrState info o x := by
  cases hap : activePayload info o with
  | none => exact ⟨none, hap⟩
  | some p =>
    refine ⟨some p, ?_⟩
    unfold activePayload at hap
    cases hf : o.field? info.oneOfName with
    | none => simp [hf] at hap
    | some v =>
      cases v with
      | iface io =>
        cases io with
        | none => simp [hf] at hap
        | some t =>
          obtain ⟨w, fn, payload⟩ := t
          simp only [hf] at hap
          by_cases hwm : (w == lastSegment info.oneOfType) = true
          · simp only [hwm, if_true] at hap
            injection hap with hap
            subst hap
            have hwe : w = lastSegment info.oneOfType := by simpa using hwm
            have hfn := hw w fn payload hf hwe
            subst hwe hfn
            exact hf
          · simp [hwm] at hap
      | sc _ => simp [hf] at hap
      | ptr _ => simp [hf] at hap
      | struct _ => simp [hf] at hap
      | slice _ => simp [hf] at hap
      | map _ => simp [hf] at hap

/-- what the typing judgement says about a field -/
theorem rt4ok_facts (f : Field) (obj : GoVal) (h : RT4OK f obj) :
    f.info.parentIsOptionalEmbed = false ∧
    (f.info.isPlaceholder = true → f.info.kind = .primitive ∧ f.info.oneOfName = "") ∧
    (f.info.oneOfName ≠ "" → BranchShape3 f ∧ ToOneof.BranchIR f ∧ HolderWF f.info obj ∧
      (f.info.kind = .object → getVal f.info obj = .ptr none ∨ ∃ fs, getVal f.info obj = .ptr (some (.struct fs)))) := by
  obtain ⟨info, mv, msg, sub⟩ := f
  unfold RT4OK at h
  obtain ⟨he, _, hph, hcase⟩ := h
  refine ⟨he, hph, ?_⟩
  intro ho
  rcases hcase with ⟨h0, _⟩ | ⟨_, hw, hm⟩
  · exact absurd h0 ho
  · have hnp : info.isPlaceholder = false := by
      cases hp : info.isPlaceholder with
      | false => rfl
      | true => exact absurd (hph hp).2 ho
    cases hk : info.kind <;> simp only [hk] at hm
    · exact ⟨Or.inl hk, ⟨ho, he, Or.inl ⟨hk, hnp, hm.1⟩⟩, hw, fun h => by cases h⟩
    · refine ⟨Or.inr ⟨hk, hm.1⟩, ⟨ho, he, Or.inr ⟨hk, hm.1⟩⟩, hw, fun _ => ?_⟩
      have hv := hm.2.2
      unfold MsgTyped at hv
      simp only [if_true] at hv
      rcases hv with hv | ⟨fs, hv, _⟩
      · exact Or.inl hv
      · exact Or.inr ⟨fs, hv⟩

/-- branches of one group in a list typed by `RT4OKs` are told apart by their wrapper types -/
theorem groupSep_of_rt4oks : ∀ (fs : List Field) (obj : GoVal), RT4OKs fs obj → ToOneof.GroupSep fs
  | [], _, _, f, hf, _, _, _, _ => by simp at hf
  | x :: rest, obj, hok, f, hf, f0, hf0, hne, hsame => by
    unfold RT4OKs at hok
    obtain ⟨_, hsep, hrest⟩ := hok
    simp only [List.mem_cons] at hf hf0
    have hne0 : f0.info.oneOfName ≠ "" := by rw [hsame]; exact hne
    rcases hf with rfl | hf <;> rcases hf0 with rfl | hf0
    · exact Or.inl rfl
    · exact Or.inr (sep_branch _ _ (hsep f0 hf0) hne hsame)
    · exact Or.inr (fun e => sep_branch _ _ (hsep f hf) hne0 hsame.symm e.symm)
    · exact groupSep_of_rt4oks rest obj hrest f hf f0 hf0 hne hsame

theorem notNullAt_true (A : List (String × TfVal)) (f : Field) (h : notNullAt A f = true) :
    ∃ a, A.lookup f.info.nameSnake = some a ∧ isNull a = false := by
  unfold notNullAt at h
  cases hl : A.lookup f.info.nameSnake with
  | none => simp [hl] at h
  | some a => simp only [hl] at h; exact ⟨a, rfl, by simpa using h⟩

/-- a rendering is exclusive: of two branches of one group at most one attribute is not null (`ToOneof.at_most_one`) -/
theorem groupsL_of_renders (obj : GoVal) (A : List (String × TfVal)) : ∀ (all fs : List Field),
    rendersFields all obj A = true → RT4OKs all obj → (∀ f ∈ fs, f ∈ all) → RT4OKs fs obj → GroupsL A fs
  | _, [], _, _, _, _ => trivial
  | all, f :: rest, hR, hall, hsub, hok => by
    have hok0 := hok
    unfold RT4OKs at hok
    obtain ⟨hf, hsep, hrest⟩ := hok
    unfold GroupsL
    refine ⟨hsep, ?_, groupsL_of_renders obj A all rest hR hall (fun g hg => hsub g (by simp [hg])) hrest⟩
    intro g hg ho hgo
    cases h1 : notNullAt A f with
    | false => exact Or.inl rfl
    | true =>
      cases h2 : notNullAt A g with
      | false => exact Or.inr rfl
      | true =>
        exfalso
        obtain ⟨a1, hl1, hn1⟩ := notNullAt_true A f h1
        obtain ⟨a2, hl2, hn2⟩ := notNullAt_true A g h2
        have hgo' : g.info.oneOfName ≠ "" := by rw [hgo]; exact ho
        have hb1 := (rt4ok_facts f obj hf).2.2 ho
        have hb2 := (rt4ok_facts g obj (rt4oks_mem rest obj hrest g hg)).2.2 hgo'
        have e := ToOneof.at_most_one all obj A hR (groupSep_of_rt4oks all obj hall) f (hsub f (by simp)) g
          (hsub g (by simp [hg])) hb1.2.1 hb2.2.1 hgo a1 a2 hl1 hl2 hn1 hn2
        subst e
        exact sep_branch _ _ (hsep f hg) ho hgo rfl

/-- **the read-back of a whole message from the read-backs of its fields** -/
theorem reads_of_facts4 (ov : List (String × String)) (fs : List Field) (obj : GoVal) (attrs : Option (List (String × TfVal)))
    (hR : rendersFields fs obj (attrs.getD []) = true) (hok : RT4OKs fs obj)
    (hall : ∀ f ∈ fs, ∃ a, (attrs.getD []).lookup f.info.nameSnake = some a ∧ Second3 ov f obj a a)
    (st : FromSt) (hs : IsStruct st.obj) (hinit : ∀ g, InitNone st.obj g) :
    ∃ o, copyFromFields ov fs attrs st = .ok { st with obj := o } ∧ IsStruct o ∧ nfEqFields fs obj o = true := by
  refine secondAllG ov fs (attrs.getD []) obj attrs (groupsL_of_renders obj _ fs fs hR hok (fun _ h => h) hok) ?_ ?_ ?_ st hs hinit
  · intro f hf
    obtain ⟨he, hph, _⟩ := rt4ok_facts f obj (rt4oks_mem fs obj hok f hf)
    refine ⟨he, fun _ hp => (hph hp).1, fun ho => ?_⟩
    cases hp : f.info.isPlaceholder with
    | false => rfl
    | true => exact absurd (hph hp).2 ho
  · intro f hf ho
    obtain ⟨he, _, hbr⟩ := rt4ok_facts f obj (rt4oks_mem fs obj hok f hf)
    obtain ⟨hsh, hbir, hw, hobj⟩ := hbr ho
    obtain ⟨a, hl, hr⟩ := ToOneof.renders_lookup fs obj _ hR f hf
    obtain ⟨x, hst⟩ := brState_of_holderWF f.info obj hw
    refine ⟨hsh, a, x, hl, hst, ?_⟩
    intro hnull
    have hbn := ToOneof.branch_null f obj a hbir hr
    rw [hnull] at hbn
    unfold ToOneof.payloadActive at hbn
    unfold Idle3
    rcases hsh with hk | ⟨hk, _⟩
    · simp only [hk]
      have hko : (Kind.primitive == Kind.object) = false := by decide
      simp only [hk, hko, Bool.false_eq_true, if_false] at hbn
      simpa using hbn.symm
    · simp only [hk]
      simp only [hk, beq_self_eq_true, if_true] at hbn
      rcases hobj hk with h | ⟨fs', h⟩
      · exact h
      · rw [h] at hbn
        simp [isNilPtr] at hbn
  · intro f hf
    obtain ⟨a, hl, h⟩ := hall f hf
    exact ⟨a, a, hl, hl, h⟩

mutual

/-- **C04 with groups, one field**: the rendering `a` of field `f` of struct `obj` is read back (`Second3`: a field outside
oneof groups is assigned a value equal to the original in normal form; a branch that reads zero is skipped, any other
branch is read into its wrapper) -/
theorem fromField_reads4 (ov : List (String × String)) : ∀ (f : Field) (obj : GoVal) (a : TfVal),
    rendersVal f obj a = true → RT4OK f obj → Second3 ov f obj a a
  | ⟨info, mv, msg, sub⟩, obj, a, hr, hok => by
    have hr0 := hr
    have hfacts := rt4ok_facts _ _ hok
    unfold RT4OK at hok
    obtain ⟨he, hem, hphk, hok⟩ := hok
    have hrec : RecReads (fun as s => copyFromFields ov sub as { s with obj := resetOneOfs ((msg.map (·.oneOfNames)).getD []) s.obj }) sub (fun s => RT4OKs sub s) := by
      intro s as ds hs hR hP
      exact reads_of_facts4 ov sub s as hR hP (fromFields_facts4 ov sub s (as.getD []) hR hP)
        { obj := resetOneOfs ((msg.map (·.oneOfNames)).getD []) (.struct []), diags := ds, hooks := hs }
        (isStruct_resetOneOfs _ _ trivial) (fun g => initNone_reset _ g (.struct []) trivial (initNone_empty g))
    unfold Second3
    by_cases hph : info.isPlaceholder = true
    · exact Or.inl ⟨(hphk hph).2, Or.inl hph⟩
    · have hph' : info.isPlaceholder = false := by simpa using hph
      unfold rendersVal at hr
      rcases hok with ⟨ho, hok⟩ | ⟨ho, hw, hok⟩
      · refine Or.inl ⟨ho, Or.inr ?_⟩
        intro attrs st hl
        simp only at hl
        simp only [copyFromField]
        unfold valNfEq
        cases hk : info.kind with
        | primitive =>
          simp only [hk, hph', Bool.false_eq_true, if_false] at hok hr ⊢
          have hnn : (info.parentIsOptionalEmbed && parentIsNil info obj) = false := by simp [he]
          simp only [hnn, Bool.false_eq_true, if_false] at hr
          rcases hok with hp | ⟨k, hrt, hvt, hx⟩
          · exact absurd hp (by simp)
          · exact fieldWith_prim _ ov info mv msg attrs st a _ hk ho he k hrt hvt hx hl hr
        | object =>
          simp only [hk] at hok hr ⊢
          exact fieldWith_obj _ ov info mv msg sub attrs st a _ _ hrec hk ho he hem hok.1 hok.2 hl hr
        | primitiveList =>
          simp only [hk] at hok hr ⊢
          obtain ⟨hvt, _, k, hrt, hT⟩ := hok
          exact fieldWith_list _ ov info mv msg attrs st a _ _ _ _ (elemReads_prim _ ov info info k hrt hrt.ek (Or.inl hk))
            (Or.inl hk) ho he hvt hT hl hr
        | objectList =>
          simp only [hk] at hok hr ⊢
          obtain ⟨hvt, hev, hT⟩ := hok
          exact fieldWith_list _ ov info mv msg attrs st a _ _ _ _ (elemReads_obj _ ov info info sub _ hrec hev (Or.inl hk))
            (Or.inr hk) ho he hvt hT hl hr
        | primitiveMap =>
          simp only [hk] at hok hr ⊢
          obtain ⟨hvt, _, hev, hnd, k, hrt, hT⟩ := hok
          have hb := elemReads_prim (fun as s => copyFromFields ov sub as { s with obj := resetOneOfs ((msg.map (·.oneOfNames)).getD []) s.obj })
            ov info (mv.getD info) k hrt (by rw [hev]; exact hrt.ek) (Or.inr hk)
          exact fieldWith_map _ ov info mv msg attrs st a _ _ _ _ hb (Or.inl hk) ho he hvt hnd hT hl hr
        | objectMap =>
          simp only [hk] at hok hr ⊢
          obtain ⟨hvt, hev, hnd, hT⟩ := hok
          exact fieldWith_map _ ov info mv msg attrs st a _ _ _ _ (elemReads_obj _ ov info (mv.getD info) sub _ hrec hev (Or.inr hk))
            (Or.inr hk) ho he hvt hnd hT hl hr
        | custom =>
          simp only [hk] at hok
      · refine Or.inr ⟨ho, ?_⟩
        intro attrs st hl
        simp only at hl
        simp only [copyFromField]
        cases hk : info.kind with
        | primitive =>
          simp only [hk, hph', Bool.false_eq_true, if_false] at hok hr
          have hnn : (info.parentIsOptionalEmbed && parentIsNil info obj) = false := by simp [he]
          simp only [hnn, Bool.false_eq_true, if_false] at hr
          obtain ⟨hb, k, hrt, hvt, hx⟩ := hok
          rcases fieldWith_scalar_branch _ ov info mv msg attrs st a _ hk ho he hb k hrt hvt hx hl hr with
            ⟨hz, hrun⟩ | ⟨hnn', y, hrun, hnf⟩
          · left
            refine ⟨hrun, ?_⟩
            unfold Idle3
            simp only [hk]
            exact hz
          · right
            refine ⟨hnn', y, hrun, ?_⟩
            unfold PayNf3
            simp only [hk]
            exact hnf
        | object =>
          simp only [hk] at hok hr
          obtain ⟨hn, hvt, hx⟩ := hok
          rw [hn] at hr
          rcases fieldWith_obj_branch _ ov info mv msg sub attrs st a _ _ hrec hk ho he hn hem hvt hx hl hr with
            ⟨hxn, hrun⟩ | ⟨fs, o, hxs, hrun, hnf⟩
          · left
            refine ⟨hrun, ?_⟩
            unfold Idle3
            simp only [hk]
            exact hxn
          · right
            have hbn := ToOneof.branch_null ⟨info, mv, msg, sub⟩ obj a (hfacts.2.2 ho).2.1 hr0
            simp only [ToOneof.payloadActive, hk, beq_self_eq_true, if_true, hxs, isNilPtr, Bool.not_false, Bool.not_true] at hbn
            refine ⟨hbn, .ptr (some o), hrun, ?_⟩
            unfold PayNf3
            simp only [hk]
            exact ⟨fs, o, hxs, rfl, by simpa [structOf] using hnf⟩
        | primitiveList => simp only [hk] at hok
        | objectList => simp only [hk] at hok
        | primitiveMap => simp only [hk] at hok
        | objectMap => simp only [hk] at hok
        | custom => simp only [hk] at hok

theorem fromFields_facts4 (ov : List (String × String)) : ∀ (fs : List Field) (obj : GoVal) (A : List (String × TfVal)),
    rendersFields fs obj A = true → RT4OKs fs obj →
    ∀ f ∈ fs, ∃ a, A.lookup f.info.nameSnake = some a ∧ Second3 ov f obj a a
  | [], _, _, _, _, f, hf => by simp at hf
  | g :: rest, obj, A, hR, hok, f, hf => by
    unfold rendersFields at hR
    simp only [Bool.and_eq_true] at hR
    unfold RT4OKs at hok
    rcases List.mem_cons.1 hf with h | hf
    · have h' := h.symm
      subst h'
      cases hl : A.lookup g.info.nameSnake with
      | none => simp [hl] at hR
      | some a =>
        simp only [hl] at hR
        exact ⟨a, rfl, fromField_reads4 ov g obj a hR.1 hok.1⟩
    · exact fromFields_facts4 ov rest obj A hR.2 hok.2.2 f hf

end

/-- **C04 with groups, a whole message** (scalar branches held by pointer included): CopyFrom of a rendering of `obj` into
a struct whose holders are unset succeeds without a diagnostic and gives `obj` back in normal form -/
theorem fromFields_reads4 (ov : List (String × String)) (fs : List Field) (obj : GoVal) (attrs : Option (List (String × TfVal)))
    (hR : rendersFields fs obj (attrs.getD []) = true) (hok : RT4OKs fs obj)
    (st : FromSt) (hs : IsStruct st.obj) (hinit : ∀ g, InitNone st.obj g) :
    ∃ o, copyFromFields ov fs attrs st = .ok { st with obj := o } ∧ IsStruct o ∧ nfEqFields fs obj o = true :=
  reads_of_facts4 ov fs obj attrs hR hok (fromFields_facts4 ov fs obj (attrs.getD []) hR hok) st hs hinit

-- ------------------------------------------------------------------------------------------------------
-- the decoded struct is typed for CopyTo (`ToOKs`) and – below `FreshIRs` – for the read-back (`RT4OKs`)

mutual
theorem ech3_toOK (X : String → TfVal → Prop) : ∀ (f : Field) (a : TfVal) (ty : TfTy) (o : GoVal), Ech3 X f a ty o → ToOK f o ty
  | ⟨info, mv, msg, sub⟩, a, ty, o, h => by
    unfold Ech3 at h
    rcases h with ⟨_, hT, _, _⟩ | ⟨he, hph, hk, hem, hvt, hsub, hcase⟩ |
      ⟨ho, he, hph, hk, k, u, n, p, rfl, rfl, hvt, hir, hleaf, x, hd, hst⟩ |
      ⟨ho, he, hph, hk, hem, u, n, es, et, tys, xs, rfl, rfl, hvt, hevk, hrep, hsub, hne, _, hgx, _, hall⟩ |
      ⟨ho, he, hph, hk, hem, u, n, es, et, tys, xs, rfl, rfl, hvt, hevk, hmvk, hrep, hsub, hne, _, hgx, _, _, hnd, hall⟩
    · exact hT
    · unfold ToOK
      simp only [hk]
      rcases hcase with ⟨ho, as, tys, fs, rfl, rfl, hgx, hfs, hEs, _⟩ | ⟨ho, hn, u, n, as, tys, rfl, rfl, _, _, hgx, hzT, _⟩ |
        ⟨ho, hn, u, n, as, tys, rfl, rfl, hkn, hunk⟩
      · refine ⟨reachable_plain info o he, tys, rfl, hsub, ?_, ?_⟩
        · intro h fs' hfs'
          have := hfs h
          subst this
          rw [hgx] at hfs'
          cases hn : info.isNullable <;> simp [hn] at hfs' <;> exact hfs'
        · rw [hgx]
          unfold MsgTyped
          cases hn : info.isNullable
          · simp only [Bool.false_eq_true, if_false]
            exact ⟨fs, rfl, ech3s_toOKs X sub _ tys _ hEs⟩
          · simp only [if_true]
            exact Or.inr ⟨fs, rfl, ech3s_toOKs X sub _ tys _ hEs⟩
      · refine ⟨reachable_plain info o he, tys, rfl, hsub, ?_, ?_⟩
        · intro _ fs' hfs'
          rw [hgx] at hfs'
          simp at hfs'
          exact hfs'
        · rw [hgx]
          unfold MsgTyped
          simp only [hn, Bool.false_eq_true, if_false]
          exact ⟨[], rfl, hzT⟩
      · by_cases hknown : known u n = true
        · obtain ⟨fs, hst, hfs, hEs, _⟩ := hkn hknown
          have hgx := (brState_some info o _ ho he hst).1
          refine ⟨reachable_plain info o he, tys, rfl, hsub, ?_, ?_⟩
          · intro h fs' hfs'
            have := hfs h
            subst this
            rw [hgx] at hfs'
            simp at hfs'
            exact hfs'
          · rw [hgx]
            unfold MsgTyped
            simp only [hn, if_true]
            exact Or.inr ⟨fs, rfl, ech3s_toOKs X sub _ tys _ hEs⟩
        · obtain ⟨_, hst⟩ := hunk (by simpa using hknown)
          have hgx : getVal info o = .ptr none := by
            rw [brState_none info o ho he hst]; simp [zeroGoOf, hk, hn]
          refine ⟨reachable_plain info o he, tys, rfl, hsub, ?_, ?_⟩
          · intro _ fs' hfs'
            rw [hgx] at hfs'
            simp at hfs'
          · rw [hgx]
            unfold MsgTyped
            simp only [hn, if_true]
            exact Or.inl trivial
    · unfold ToOK
      simp only [hk]
      refine ⟨⟨k, hir.rt.ek, rfl⟩, Or.inr (Or.inr ⟨reachable_plain info o he, ?_⟩)⟩
      rw [scalarBranch_getVal info k u n p x o hk ho he hd hst]
      obtain ⟨y, hd', hty, _⟩ := primDecode_typed info k hir u n p hleaf.castable
      rw [hd] at hd'
      injection hd' with hd'
      subst hd'
      exact hty
    · unfold ToOK
      simp only [hk]
      exact ⟨hrep, ho, reachable_plain info o he, hevk, tys, rfl, hsub, hne, Or.inr ⟨xs, hgx, fun e he' => (hall e he').1⟩⟩
    · unfold ToOK
      simp only [hk]
      exact ⟨hrep, ho, reachable_plain info o he, hevk, tys, rfl, hsub, hne,
        Or.inr ⟨xs, hgx, hnd, fun e he' => (hall e he').1⟩⟩

theorem ech3s_toOKs (X : String → TfVal → Prop) : ∀ (fs : List Field) (A : List (String × TfVal)) (atys : List (String × TfTy))
    (o : GoVal), Ech3s X fs A atys o → ToOKs fs o atys
  | [], _, _, _, _ => trivial
  | f :: rest, A, atys, o, h => by
    unfold Ech3s at h
    obtain ⟨⟨a, ty, _, hlt, hEf⟩, hnS, _, _, hrest⟩ := h
    unfold ToOKs
    exact ⟨⟨ty, hlt, ech3_toOK X f a ty o hEf⟩, hnS, ech3s_toOKs X rest A atys o hrest⟩
end

mutual
theorem ech3_rt4OK (X : String → TfVal → Prop) : ∀ (f : Field) (a : TfVal) (ty : TfTy) (o : GoVal), FreshIR f → Ech3 X f a ty o →
    RT4OK f o
  | ⟨info, mv, msg, sub⟩, a, ty, o, hF, h => by
    unfold FreshIR at hF
    obtain ⟨hFb, hFs⟩ := hF
    unfold Ech3 at h
    rcases h with ⟨_, _, hR, _⟩ | ⟨he, hph, hk, hem, hvt, hsub, hcase⟩ |
      ⟨ho, he, hph, hk, k, u, n, p, rfl, rfl, hvt, hir, hleaf, x, hd, hst⟩ |
      ⟨ho, he, hph, hk, hem, u, n, es, et, tys, xs, rfl, rfl, hvt, hevk, hrep, hsub, hne, _, hgx, _, hall⟩ |
      ⟨ho, he, hph, hk, hem, u, n, es, et, tys, xs, rfl, rfl, hvt, hevk, hmvk, hrep, hsub, hne, _, hgx, _, _, hnd, hall⟩
    · exact rt2ok_rt4ok _ o (rtok_rt2ok _ o hR)
    · unfold RT4OK
      refine ⟨he, hem, fun h => (by rw [hph] at h; cases h), ?_⟩
      simp only [hk]
      rcases hcase with ⟨ho, as, tys, fs, rfl, rfl, hgx, hfs, hEs, _⟩ | ⟨ho, hn, u, n, as, tys, rfl, rfl, _, _, hgx, _, hzR⟩ |
        ⟨ho, hn, u, n, as, tys, rfl, rfl, hkn, hunk⟩
      · refine Or.inl ⟨ho, hvt, ?_⟩
        rw [hgx]
        unfold MsgTyped
        cases hn : info.isNullable
        · simp only [Bool.false_eq_true, if_false]
          exact ⟨fs, rfl, ech3s_rt4OKs X sub _ tys _ hFs hEs⟩
        · simp only [if_true]
          exact Or.inr ⟨fs, rfl, ech3s_rt4OKs X sub _ tys _ hFs hEs⟩
      · refine Or.inl ⟨ho, hvt, ?_⟩
        rw [hgx]
        unfold MsgTyped
        simp only [hn, Bool.false_eq_true, if_false]
        exact ⟨[], rfl, hzR⟩
      · by_cases hknown : known u n = true
        · obtain ⟨fs, hst, hfs, hEs, _⟩ := hkn hknown
          refine Or.inr ⟨ho, holderWF_of_brState _ _ _ hst, hn, hvt, ?_⟩
          rw [(brState_some info o _ ho he hst).1]
          unfold MsgTyped
          simp only [if_true]
          exact Or.inr ⟨fs, rfl, ech3s_rt4OKs X sub _ tys _ hFs hEs⟩
        · obtain ⟨_, hst⟩ := hunk (by simpa using hknown)
          refine Or.inr ⟨ho, holderWF_of_brState _ _ _ hst, hn, hvt, ?_⟩
          rw [brState_none info o ho he hst]
          unfold MsgTyped
          simp only [if_true]
          left
          simp [zeroGoOf, hk, hn]
    · obtain ⟨hb, hem⟩ := hFb ho hk
      unfold RT4OK
      refine ⟨he, hem, fun h => (by rw [hph] at h; cases h), Or.inr ⟨ho, holderWF_of_brState _ _ _ hst, ?_⟩⟩
      simp only [hk]
      refine ⟨hb, k, hir.rt, hvt, ?_⟩
      rw [scalarBranch_getVal info k u n p x o hk ho he hd hst]
      obtain ⟨y, hd', _, hpv⟩ := primDecode_typed info k hir u n p hleaf.castable
      rw [hd] at hd'
      injection hd' with hd'
      subst hd'
      exact hpv
    · unfold RT4OK
      refine ⟨he, hem, fun h => (by rw [hph] at h; cases h), Or.inl ⟨ho, ?_⟩⟩
      simp only [hk]
      refine ⟨hvt, hevk, ?_⟩
      rw [hgx]
      exact fun e he' => (hall e he').2
    · unfold RT4OK
      refine ⟨he, hem, fun h => (by rw [hph] at h; cases h), Or.inl ⟨ho, ?_⟩⟩
      simp only [hk]
      refine ⟨hvt, hmvk, ?_, ?_⟩
      · rw [hgx]; exact hnd
      · rw [hgx]; exact fun e he' => (hall e he').2

theorem ech3s_rt4OKs (X : String → TfVal → Prop) : ∀ (fs : List Field) (A : List (String × TfVal)) (atys : List (String × TfTy))
    (o : GoVal), FreshIRs fs → Ech3s X fs A atys o → RT4OKs fs o
  | [], _, _, _, _, _ => trivial
  | f :: rest, A, atys, o, hF, h => by
    unfold FreshIRs at hF
    unfold Ech3s at h
    obtain ⟨⟨a, ty, _, _, hEf⟩, _, hsep, _, hrest⟩ := h
    unfold RT4OKs
    exact ⟨ech3_rt4OK X f a ty o hF.1 hEf, hsep, ech3s_rt4OKs X rest A atys o hF.2 hrest⟩
end

-- ------------------------------------------------------------------------------------------------------
-- C08 with oneof groups at every position, step 1: decode

theorem fromFieldWith_objBranch_known_empty (rec : FromRec) (ov : List (String × String)) (info : FieldInfo) (mv : Option FieldInfo)
    (msg : Option MsgInfo) (attrs : Option (List (String × TfVal))) (st : FromSt) (u n : Bool)
    (as : Option (List (String × TfVal))) (tys : Option (List (String × TfTy)))
    (hk : info.kind = .object) (ho : info.oneOfName ≠ "") (he : info.parentIsOptionalEmbed = false)
    (hvt : vkindOf info.tf.valueType = .obj) (hem : isEmptyMsg msg = true) (hkn : known u n = true)
    (hl : (attrs.getD []).lookup info.nameSnake = some (.obj u n as tys)) :
    copyFromFieldWith rec ov info mv msg attrs st =
      .ok { st with obj := st.obj.setField info.oneOfName (wrapOf info (.ptr (some (.struct [])))) } := by
  have hoe : (info.oneOfName == "") = false := by simpa using ho
  unfold copyFromFieldWith
  simp [hk, hl, TfVal.vkind, hvt, embedGuard_plain info _ _ he, hoe, hkn, hem, wrapOf]

/-- a message without fields: its placeholders are described by `Ech3s` in every struct -/
theorem placeholders_ech3s (X : String → TfVal → Prop) (attrs : List (String × TfVal)) (tys : List (String × TfTy)) (s : GoVal) :
    ∀ (sub : List Field), PlanOKs3 X sub attrs tys →
      (∀ g ∈ sub, g.info.isPlaceholder = true ∧ g.info.kind = .primitive ∧ g.info.oneOfName = "") →
      Ech3s X sub attrs tys s
  | [], _, _ => trivial
  | f :: rest, hP, hall => by
    unfold PlanOKs3 at hP
    obtain ⟨⟨a, ty, hla, hlt, hpf⟩, hnS, hsep, hexcl, hrest⟩ := hP
    have hE := placeholders_ech3s X attrs tys s rest hrest (fun g hg => hall g (by simp [hg]))
    obtain ⟨hph, hk, _⟩ := hall f (by simp)
    obtain ⟨info, mv, msg, sub⟩ := f
    simp only at hph hk hla hlt hnS
    unfold Ech3s
    refine ⟨⟨a, ty, hla, hlt, ?_⟩, hnS, hsep, hexcl, hE⟩
    unfold PlanOK3 at hpf
    rcases hpf with hp | ⟨_, h, _⟩ | ⟨_, _, h, _⟩ | ⟨_, _, h, _⟩ | ⟨_, _, h, _⟩
    · have hp0 := hp
      unfold PlanOK at hp
      obtain ⟨ho, he, hphk, hEm, hp⟩ := hp
      simp only [hk] at hp
      obtain ⟨k, u, n, p, rfl, rfl, hvk, _⟩ := hp
      unfold Ech3
      refine Or.inl ⟨hp0, ?_, ?_, ?_⟩
      · unfold ToOK
        simp only [hk]
        exact ⟨⟨k, hvk, rfl⟩, Or.inl hph⟩
      · unfold RTOK
        simp only [hk]
        exact ⟨ho, he, hEm, fun _ => trivial, Or.inl hph⟩
      · unfold DecRel
        simp only [hk]
        exact Or.inl hph
    · rw [hph] at h; cases h
    · rw [hph] at h; cases h
    · rw [hph] at h; cases h
    · rw [hph] at h; cases h

/-- the recursive call on the message of a list / map element decodes a planned attribute map into a struct that is
typed for the CopyTo from scratch and for the read-back -/
def RecDec3 (X : String → TfVal → Prop) (rec : FromRec) (sub : List Field) (tys : List (String × TfTy)) : Prop :=
  ∀ (as : Option (List (String × TfVal))) (ds : List Diag) (hs : List HookCall), PlanOKs3 X sub (as.getD []) tys →
    ∃ o, rec as { obj := .struct [], diags := ds, hooks := hs } = .ok { obj := o, diags := ds, hooks := hs } ∧
      IsStruct o ∧ ToOKs sub o tys ∧ RT4OKs sub o

/-- a message element of a planned list / map, groups allowed -/
def ObjElemPlan3 (X : String → TfVal → Prop) (nullable : Bool) (sub : List Field) (tys : List (String × TfTy)) (e : TfVal) : Prop :=
  ∃ u' n' as tys', e = .obj u' n' as tys' ∧
    (known u' n' = true → PlanOKs3 X sub (as.getD []) tys) ∧
    (known u' n' = false → nullable = false → ToOKs sub (.struct []) tys ∧ RT4OKs sub (.struct []))

theorem elemDec_obj3 (X : String → TfVal → Prop) (rec : FromRec) (ov : List (String × String)) (info vf : FieldInfo) (sub : List Field)
    (tys : List (String × TfTy)) (hrec : RecDec3 X rec sub tys) (hvf : vkindOf vf.tf.elemValueType = .obj)
    (hk : info.kind = .objectList ∨ info.kind = .objectMap) :
    ElemDec (fromElemBody rec ov info vf) (ObjElemPlan3 X info.isNullable sub tys) (ElemTyped info.isNullable sub tys) := by
  intro e ds hs ⟨u, n, as, tys', he, hkn, hunk⟩
  subst he
  have hkk : (info.kind == .objectList || info.kind == .objectMap) = true := by rcases hk with hk | hk <;> simp [hk]
  unfold fromElemBody ElemTyped MsgTyped
  simp only [TfVal.vkind, hvf, hkk, if_true, bne_self_eq_false, Bool.false_or]
  simp only [show (VKind.obj == VKind.unknown) = false from rfl, Bool.false_eq_true, if_false]
  by_cases hknown : known u n = true
  · obtain ⟨o, hrun, hso, hT, hR⟩ := hrec as ds hs (hkn hknown)
    cases o with
    | struct fs =>
      by_cases hn : info.isNullable = true
      · refine ⟨.ptr (some (.struct fs)), by simp [hknown, hrun, hn], ?_, ?_⟩
        · simp only [hn, if_true]; exact Or.inr ⟨fs, rfl, hT⟩
        · simp only [hn, if_true]; exact Or.inr ⟨fs, rfl, hR⟩
      · have hn' : info.isNullable = false := by simpa using hn
        refine ⟨.struct fs, by simp [hknown, hrun, hn'], ?_, ?_⟩
        · simp only [hn', Bool.false_eq_true, if_false]; exact ⟨fs, rfl, hT⟩
        · simp only [hn', Bool.false_eq_true, if_false]; exact ⟨fs, rfl, hR⟩
    | sc _ => cases hso
    | ptr _ => cases hso
    | slice _ => cases hso
    | map _ => cases hso
    | iface _ => cases hso
  · have hknown' : known u n = false := by simpa using hknown
    by_cases hn : info.isNullable = true
    · refine ⟨.ptr none, by simp [hknown', zeroMsg, hn], ?_, ?_⟩
      · simp only [hn, if_true]; exact Or.inl trivial
      · simp only [hn, if_true]; exact Or.inl trivial
    · have hn' : info.isNullable = false := by simpa using hn
      obtain ⟨hzT, hzR⟩ := hunk hknown' hn'
      refine ⟨.struct [], by simp [hknown', zeroMsg, hn'], ?_, ?_⟩
      · simp only [hn', Bool.false_eq_true, if_false]; exact ⟨[], rfl, hzT⟩
      · simp only [hn', Bool.false_eq_true, if_false]; exact ⟨[], rfl, hzR⟩

mutual

/-- one field block of the first CopyFrom (see `decField2`) -/
theorem decField3 (X : String → TfVal → Prop) (ov : List (String × String)) : ∀ (f : Field)
    (attrs : Option (List (String × TfVal))) (st : FromSt) (a : TfVal) (ty : TfTy),
    (attrs.getD []).lookup f.info.nameSnake = some a → PlanOK3 X f a ty → f.info.isPlaceholder = false → IsStruct st.obj →
    (∃ x, copyFromField ov f attrs st = .ok { st with obj := st.obj.setField (wkey f.info) x } ∧
      (f.info.oneOfName ≠ "" → isNull a = false ∧ ∃ y, x = wrapOf f.info y) ∧
      (∀ o, o.field? (wkey f.info) = some x → Ech3 X f a ty o)) ∨
    (f.info.oneOfName ≠ "" ∧ copyFromField ov f attrs st = .ok st ∧
      (∀ o, activePayload f.info o = none → Ech3 X f a ty o))
  | ⟨info, mv, msg, sub⟩, attrs, st, a, ty, hl, hp, hph, hs => by
    simp only at hl hph
    unfold PlanOK3 at hp
    simp only [copyFromField]
    have hrecD : ∀ (as : Option (List (String × TfVal))) (tys : List (String × TfTy)) (ds : List Diag) (hks : List HookCall),
        PlanOKs3 X sub (as.getD []) tys →
        ∃ fs, ((fun as s => copyFromFields ov sub as { s with obj := resetOneOfs ((msg.map (·.oneOfNames)).getD []) s.obj }) : FromRec)
            as { obj := .struct [], diags := ds, hooks := hks } = .ok { obj := .struct fs, diags := ds, hooks := hks } ∧
          Ech3s X sub (as.getD []) tys (.struct fs) := by
      intro as tys ds hks hP
      obtain ⟨o', hrun', hso', _, _, hE'⟩ := decFields3 X ov sub as
        { obj := resetOneOfs ((msg.map (·.oneOfNames)).getD []) (.struct []), diags := ds, hooks := hks } tys hP
        (isStruct_resetOneOfs _ _ trivial)
        (fun g _ _ => activePayload_init g.info _ (initNone_reset _ _ (.struct []) trivial (initNone_empty _)))
      cases o' with
      | struct fs => exact ⟨fs, hrun', hE'⟩
      | sc _ => cases hso'
      | ptr _ => cases hso'
      | slice _ => cases hso'
      | map _ => cases hso'
      | iface _ => cases hso'
    rcases hp with hp | ⟨he, _, hk, hem, hvt, hsub, hcase⟩ | ⟨ho, he, _, hk, k, u, n, p, rfl, rfl, hvt, hir, hleaf⟩ |
      ⟨ho, he, _, hk, hem, hF, u, n, es, et, tys, rfl, rfl, hvt, hevk, hrep, hsub, hne, hel, hnull⟩ |
      ⟨ho, he, _, hk, hem, hF, u, n, es, et, tys, rfl, rfl, hvt, hevk, hmvk, hrep, hsub, hne, hnd, hel, hnull⟩
    · -- a field of the plain tree
      have ho : info.oneOfName = "" := by unfold PlanOK at hp; exact hp.1
      have he : info.parentIsOptionalEmbed = false := by unfold PlanOK at hp; exact hp.2.1
      obtain ⟨x, hrun, htyped, hdec⟩ := decField X ov ⟨info, mv, msg, sub⟩ attrs st a ty hl hp hph
      simp only [copyFromField] at hrun
      left
      refine ⟨x, ?_, fun h => absurd ho h, ?_⟩
      · rw [wkey_plain info ho]; exact hrun
      · intro o hox
        rw [wkey_plain info ho] at hox
        have hgx : getVal info o = x := by rw [getVal_plain info o ho he, hox]; rfl
        obtain ⟨hT, hR⟩ := htyped o hgx
        unfold Ech3
        exact Or.inl ⟨hp, hT, hR, by rw [hgx]; exact hdec⟩
    · rcases hcase with ⟨ho, as, tys, rfl, rfl, hP, hkeys⟩ | ⟨ho, hn, u, n, as, tys, rfl, rfl, hkn, has, hzT, hzR⟩ |
        ⟨ho, hn, u, n, as, tys, rfl, rfl, hkn, hunk⟩
      · -- a known nested message with groups below
        have key : ∃ fs, copyFromFieldWith (fun as s => copyFromFields ov sub as { s with obj := resetOneOfs ((msg.map (·.oneOfNames)).getD []) s.obj }) ov info mv msg attrs st =
              .ok { st with obj := st.obj.setField info.name (if info.isNullable then .ptr (some (.struct fs)) else .struct fs) } ∧
            (isEmptyMsg msg = true → fs = []) ∧ Ech3s X sub (as.getD []) tys (.struct fs) := by
          by_cases hE : isEmptyMsg msg = true
          · exact ⟨[], fromFieldWith_obj_empty_run _ ov info mv msg attrs st false false as (some tys) hk ho he hvt hE rfl hl,
              fun _ => rfl, placeholders_ech3s X _ tys _ sub hP (hem hE)⟩
          · have hE' : isEmptyMsg msg = false := by simpa using hE
            obtain ⟨fs, hrun', hE3⟩ := hrecD as tys st.diags st.hooks hP
            exact ⟨fs, fromFieldWith_obj_run _ ov info mv msg attrs st false false as (some tys) (.struct fs) hk ho he hvt hE' rfl hl hrun',
              (fun h => by rw [hE'] at h; cases h), hE3⟩
        obtain ⟨fs, hrun, hfs, hE3⟩ := key
        left
        refine ⟨if info.isNullable then .ptr (some (.struct fs)) else .struct fs, ?_, fun h => absurd ho h, ?_⟩
        · rw [wkey_plain info ho]
          exact hrun
        · intro o hox
          rw [wkey_plain info ho] at hox
          have hgx : getVal info o = (if info.isNullable then GoVal.ptr (some (.struct fs)) else .struct fs) := by
            rw [getVal_plain info o ho he, hox]; rfl
          unfold Ech3
          exact Or.inr (Or.inl ⟨he, hph, hk, hem, hvt, hsub, Or.inl ⟨ho, as, tys, fs, rfl, rfl, hgx, hfs, hE3, hkeys⟩⟩)
      · -- a null / unknown message held by value: the zero struct
        have hrun := fromFieldWith_unknown_run (fun as s => copyFromFields ov sub as { s with obj := resetOneOfs ((msg.map (·.oneOfNames)).getD []) s.obj })
          ov info mv msg attrs st _ ho he hl (Or.inl ⟨hk, u, n, as, some tys, rfl, hkn, hvt⟩)
        have hzw : zeroWrite info = GoVal.struct [] := by simp [zeroWrite, hk, hn]
        rw [hzw] at hrun
        left
        refine ⟨.struct [], ?_, fun h => absurd ho h, ?_⟩
        · rw [wkey_plain info ho]
          exact hrun
        · intro o hox
          rw [wkey_plain info ho] at hox
          have hgx : getVal info o = .struct [] := by rw [getVal_plain info o ho he, hox]; rfl
          unfold Ech3
          exact Or.inr (Or.inl ⟨he, hph, hk, hem, hvt, hsub,
            Or.inr (Or.inl ⟨ho, hn, u, n, as, tys, rfl, rfl, hkn, has, hgx, hzT, hzR⟩)⟩)
      · -- a message branch
        by_cases hknown : known u n = true
        · obtain ⟨hP, hkeys⟩ := hkn hknown
          have key : ∃ fs, copyFromFieldWith (fun as s => copyFromFields ov sub as { s with obj := resetOneOfs ((msg.map (·.oneOfNames)).getD []) s.obj }) ov info mv msg attrs st =
                .ok { st with obj := st.obj.setField info.oneOfName (wrapOf info (.ptr (some (.struct fs)))) } ∧
              (isEmptyMsg msg = true → fs = []) ∧ Ech3s X sub (as.getD []) tys (.struct fs) := by
            by_cases hE : isEmptyMsg msg = true
            · exact ⟨[], fromFieldWith_objBranch_known_empty _ ov info mv msg attrs st u n as (some tys) hk ho he hvt hE hknown hl,
                fun _ => rfl, placeholders_ech3s X _ tys _ sub hP (hem hE)⟩
            · have hE' : isEmptyMsg msg = false := by simpa using hE
              obtain ⟨fs, hrun', hE3⟩ := hrecD as tys st.diags st.hooks hP
              exact ⟨fs, fromFieldWith_objBranch_known _ ov info mv msg attrs st u n as (some tys) (.struct fs) hk ho he hvt hE'
                hknown hl hrun', (fun h => by rw [hE'] at h; cases h), hE3⟩
          obtain ⟨fs, hrun, hfs, hE3⟩ := key
          left
          refine ⟨wrapOf info (.ptr (some (.struct fs))), ?_, ?_, ?_⟩
          · rw [wkey_branch info ho]
            exact hrun
          · intro _
            refine ⟨?_, _, rfl⟩
            cases u <;> cases n <;> simp [known, isNull] at hknown ⊢
          · intro o hox
            rw [wkey_branch info ho] at hox
            unfold Ech3
            refine Or.inr (Or.inl ⟨he, hph, hk, hem, hvt, hsub, Or.inr (Or.inr ⟨ho, hn, u, n, as, tys, rfl, rfl, ?_, ?_⟩)⟩)
            · intro _
              exact ⟨fs, hox, hfs, hE3, hkeys⟩
            · intro h; rw [hknown] at h; cases h
        · have hknown' : known u n = false := by simpa using hknown
          right
          refine ⟨ho, fromFieldWith_objBranch_unknown _ ov info mv msg attrs st u n as (some tys) hk ho he hvt hknown' hl, ?_⟩
          intro o hap
          unfold Ech3
          refine Or.inr (Or.inl ⟨he, hph, hk, hem, hvt, hsub, Or.inr (Or.inr ⟨ho, hn, u, n, as, tys, rfl, rfl, ?_, ?_⟩)⟩)
          · intro h; rw [hknown'] at h; cases h
          · intro _
            exact ⟨hunk hknown', hap⟩
    · -- a scalar branch
      obtain ⟨y, hd, _, _⟩ := primDecode_typed info k hir u n p hleaf.castable
      have hrun := fromFieldWith_primBranch_run (fun as s => copyFromFields ov sub as { s with obj := resetOneOfs ((msg.map (·.oneOfNames)).getD []) s.obj })
        ov info mv msg attrs st k u n p y hk ho he hvt hl hd
      by_cases hknown : known u n = true
      · left
        refine ⟨wrapOf info y, ?_, ?_, ?_⟩
        · rw [wkey_branch info ho, hrun]; simp [hknown]
        · intro _
          refine ⟨?_, _, rfl⟩
          cases u <;> cases n <;> simp [known, isNull] at hknown ⊢
        · intro o hox
          rw [wkey_branch info ho] at hox
          unfold Ech3
          refine Or.inr (Or.inr (Or.inl ⟨ho, he, hph, hk, k, u, n, p, rfl, rfl, hvt, hir, hleaf, y, hd, ?_⟩))
          rw [hknown]
          exact hox
      · have hknown' : known u n = false := by simpa using hknown
        right
        refine ⟨ho, by rw [hrun]; simp [hknown'], ?_⟩
        intro o hap
        unfold Ech3
        refine Or.inr (Or.inr (Or.inl ⟨ho, he, hph, hk, k, u, n, p, rfl, rfl, hvt, hir, hleaf, y, hd, ?_⟩))
        rw [hknown']
        exact hap
    · -- a list of messages whose elements carry groups
      have hrec : RecDec3 X (fun as s => copyFromFields ov sub as { s with obj := resetOneOfs ((msg.map (·.oneOfNames)).getD []) s.obj }) sub tys := by
        intro as ds hks hP
        obtain ⟨fs, hrun', hE3⟩ := hrecD as tys ds hks hP
        exact ⟨.struct fs, hrun', trivial, ech3s_toOKs X sub _ tys _ hE3, ech3s_rt4OKs X sub _ tys _ hF hE3⟩
      have key : ∃ xs, copyFromFieldWith (fun as s => copyFromFields ov sub as { s with obj := resetOneOfs ((msg.map (·.oneOfNames)).getD []) s.obj }) ov info mv msg attrs st =
              .ok { st with obj := st.obj.setField info.name (.slice (some xs)) } ∧
          xs.length = (if known u n then (es.getD []).length else 0) ∧
          ∀ y ∈ xs, ElemTyped info.isNullable sub tys y := by
        by_cases hknown : known u n = true
        · obtain ⟨ys, hloop, hlen, hall⟩ := fromElemsList_dec _ _ _
            (elemDec_obj3 X (fun as s => copyFromFields ov sub as { s with obj := resetOneOfs ((msg.map (·.oneOfNames)).getD []) s.obj }) ov info info sub tys hrec hevk (Or.inl hk)) st.diags st.hooks (es.getD []) []
            (List.replicate (es.getD []).length (zeroElem info)) (hel hknown) (by simp)
          simp only [List.length_nil, List.nil_append] at hloop
          exact ⟨ys, fromFieldWith_list_run _ ov info mv msg attrs st u n es et ys (Or.inr hk) he hvt hknown hl hloop,
            by simp [hknown, hlen], hall⟩
        · have hknown' : known u n = false := by simpa using hknown
          have hrun := fromFieldWith_unknown_run (fun as s => copyFromFields ov sub as { s with obj := resetOneOfs ((msg.map (·.oneOfNames)).getD []) s.obj })
            ov info mv msg attrs st _ ho he hl (Or.inr (Or.inl ⟨Or.inr hk, u, n, es, et, rfl, hknown', hvt⟩))
          have hzw : zeroWrite info = GoVal.slice (some []) := by simp [zeroWrite, hk]
          rw [hzw] at hrun
          exact ⟨[], hrun, by simp [hknown'], by simp⟩
      obtain ⟨xs, hrun, hlen, hall⟩ := key
      left
      refine ⟨.slice (some xs), ?_, fun h => absurd ho h, ?_⟩
      · rw [wkey_plain info ho]
        exact hrun
      · intro o hox
        rw [wkey_plain info ho] at hox
        have hgx : getVal info o = .slice (some xs) := by rw [getVal_plain info o ho he, hox]; rfl
        unfold Ech3
        exact Or.inr (Or.inr (Or.inr (Or.inl ⟨ho, he, hph, hk, hem, u, n, es, et, tys, xs, rfl, rfl, hvt, hevk, hrep, hsub, hne, hnull,
          hgx, hlen, hall⟩)))
    · -- a map of messages whose elements carry groups
      have hrec : RecDec3 X (fun as s => copyFromFields ov sub as { s with obj := resetOneOfs ((msg.map (·.oneOfNames)).getD []) s.obj }) sub tys := by
        intro as ds hks hP
        obtain ⟨fs, hrun', hE3⟩ := hrecD as tys ds hks hP
        exact ⟨.struct fs, hrun', trivial, ech3s_toOKs X sub _ tys _ hE3, ech3s_rt4OKs X sub _ tys _ hF hE3⟩
      have key : ∃ xs, copyFromFieldWith (fun as s => copyFromFields ov sub as { s with obj := resetOneOfs ((msg.map (·.oneOfNames)).getD []) s.obj }) ov info mv msg attrs st =
              .ok { st with obj := st.obj.setField info.name (.map (some xs)) } ∧
          xs.length = (if known u n then (es.getD []).length else 0) ∧
          (known u n = true → ∀ kv ∈ es.getD [], (xs.lookup kv.1).isSome = true) ∧
          (xs.map (·.1)).Nodup ∧ ∀ y ∈ xs, ElemTyped info.isNullable sub tys y.2 := by
        by_cases hknown : known u n = true
        · obtain ⟨ys, hloop, hkeys, hall⟩ := fromElemsMap_dec _ _ _
            (elemDec_obj3 X (fun as s => copyFromFields ov sub as { s with obj := resetOneOfs ((msg.map (·.oneOfNames)).getD []) s.obj }) ov info (mv.getD info) sub tys hrec hmvk (Or.inr hk)) st.diags st.hooks (es.getD []) []
            hnd (by intro kv _; simp [List.lookup]) (hel hknown)
          simp only [List.nil_append] at hloop
          have hlen : ys.length = (es.getD []).length := by
            have := congrArg List.length hkeys
            simpa using this
          refine ⟨ys, fromFieldWith_map_run _ ov info mv msg attrs st u n es et ys (Or.inr hk) he hvt hknown hl hloop,
            by simp [hknown, hlen], ?_, by rw [hkeys]; exact hnd, hall⟩
          intro _ kv hkv
          exact lookup_isSome_of_mem_keys _ _ (by rw [hkeys]; exact List.mem_map_of_mem (f := (·.1)) hkv)
        · have hknown' : known u n = false := by simpa using hknown
          have hrun := fromFieldWith_unknown_run (fun as s => copyFromFields ov sub as { s with obj := resetOneOfs ((msg.map (·.oneOfNames)).getD []) s.obj })
            ov info mv msg attrs st _ ho he hl (Or.inr (Or.inr ⟨Or.inr hk, u, n, es, et, rfl, hknown', hvt⟩))
          have hzw : zeroWrite info = GoVal.map (some []) := by simp [zeroWrite, hk]
          rw [hzw] at hrun
          exact ⟨[], hrun, by simp [hknown'], (fun h => by rw [hknown'] at h; cases h), by simp, by simp⟩
      obtain ⟨xs, hrun, hlen, hsome, hndx, hall⟩ := key
      left
      refine ⟨.map (some xs), ?_, fun h => absurd ho h, ?_⟩
      · rw [wkey_plain info ho]
        exact hrun
      · intro o hox
        rw [wkey_plain info ho] at hox
        have hgx : getVal info o = .map (some xs) := by rw [getVal_plain info o ho he, hox]; rfl
        unfold Ech3
        exact Or.inr (Or.inr (Or.inr (Or.inr ⟨ho, he, hph, hk, hem, u, n, es, et, tys, xs, rfl, rfl, hvt, hevk, hmvk, hrep, hsub, hne,
          hnull, hgx, hlen, hsome, hndx, hall⟩)))

/-- **decode with oneof groups, a whole message**: on a plan satisfying `PlanOKs3` the field blocks succeed and append
no diagnostic; Go fields no block can assign are untouched; the holder of a group is what it was or the wrapper of a
branch whose attribute is not null; the struct is described by `Ech3s`. -/
theorem decFields3 (X : String → TfVal → Prop) (ov : List (String × String)) : ∀ (fs : List Field)
    (attrs : Option (List (String × TfVal))) (st : FromSt) (atys : List (String × TfTy)),
    PlanOKs3 X fs (attrs.getD []) atys → IsStruct st.obj →
    (∀ f ∈ fs, f.info.oneOfName ≠ "" → activePayload f.info st.obj = none) →
    ∃ o, copyFromFields ov fs attrs st = .ok { st with obj := o } ∧ IsStruct o ∧
      (∀ key, (∀ f ∈ fs, wkey f.info ≠ key) → o.field? key = st.obj.field? key) ∧
      (∀ g, (∀ f ∈ fs, f.info.oneOfName = "" → f.info.name ≠ g) →
        o.field? g = st.obj.field? g ∨
        ∃ d ∈ fs, d.info.oneOfName = g ∧ notNullAt (attrs.getD []) d = true ∧ ∃ y, o.field? g = some (wrapOf d.info y)) ∧
      Ech3s X fs (attrs.getD []) atys o
  | [], _, st, _, _, hs, _ => ⟨st.obj, by simp [copyFromFields], hs, by simp, fun _ _ => Or.inl rfl, trivial⟩
  | f :: rest, attrs, st, atys, hP, hs, hpre => by
    unfold PlanOKs3 at hP
    obtain ⟨⟨a, ty, hla, hlt, hpf⟩, hnS, hsep, hexcl, hrest⟩ := hP
    by_cases hph : f.info.isPlaceholder = true
    · -- the placeholder of a message without fields is skipped
      obtain ⟨o, hrun2, hso, hframe, hhold, hE⟩ := decFields3 X ov rest attrs st atys hrest hs
        (fun g hg => hpre g (by simp [hg]))
      obtain ⟨info, mv, msg, sub⟩ := f
      simp only at hph hla hlt hnS
      unfold PlanOK3 at hpf
      rcases hpf with hp | ⟨_, h, _⟩ | ⟨_, _, h, _⟩ | ⟨_, _, h, _⟩ | ⟨_, _, h, _⟩
      · have hp0 := hp
        unfold PlanOK at hp
        obtain ⟨ho, he, hphk, hEm, hp⟩ := hp
        have hk := hphk hph
        simp only [hk] at hp
        obtain ⟨k, u, n, p, rfl, rfl, hvk, _⟩ := hp
        refine ⟨o, ?_, hso, ?_, ?_, ?_⟩
        · simp only [copyFromFields, hph, if_true]
          exact hrun2
        · intro key hkey
          exact hframe key (fun g hg => hkey g (by simp [hg]))
        · intro g hg
          rcases hhold g (fun f' hf' => hg f' (by simp [hf'])) with h | ⟨d, hd, h⟩
          · exact Or.inl h
          · exact Or.inr ⟨d, by simp [hd], h⟩
        · unfold Ech3s
          refine ⟨⟨_, _, hla, hlt, ?_⟩, hnS, hsep, hexcl, hE⟩
          unfold Ech3
          refine Or.inl ⟨hp0, ?_, ?_, ?_⟩
          · unfold ToOK
            simp only [hk]
            exact ⟨⟨k, hvk, rfl⟩, Or.inl hph⟩
          · unfold RTOK
            simp only [hk]
            exact ⟨ho, he, hEm, fun _ => trivial, Or.inl hph⟩
          · unfold DecRel
            simp only [hk]
            exact Or.inl hph
      · rw [hph] at h; cases h
      · rw [hph] at h; cases h
      · rw [hph] at h; cases h
      · rw [hph] at h; cases h
    · have hph' : f.info.isPlaceholder = false := by simpa using hph
      have hplainNames : ∀ f' ∈ rest, f'.info.oneOfName = "" → f.info.oneOfName ≠ "" → f'.info.name ≠ f.info.oneOfName := by
        intro f' hf' hp' hb e
        have := sep_plain_right f.info f'.info (hsep f' hf') hp'
        rw [wkey_plain _ hp', wkey_branch _ hb] at this
        exact this e
      rcases decField3 X ov f attrs st a ty hla hpf hph' hs with ⟨x, hrun, hbr, hEf⟩ | ⟨ho, hrun, hEf⟩
      · -- the block assigns `wkey f`
        have hpre1 : ∀ g ∈ rest, g.info.oneOfName ≠ "" →
            activePayload g.info (st.obj.setField (wkey f.info) x) = none := by
          intro g hg hgo
          by_cases e : wkey f.info = g.info.oneOfName
          · have hsg := hsep g hg (by rw [e, wkey_branch _ hgo])
            obtain ⟨_, y, rfl⟩ := hbr hsg.1
            refine activePayload_wrap_other g.info f.info _ y ?_ (fun e' => hsg.2.2 e'.symm)
            rw [← e]
            exact field?_setField_same _ _ _ hs
          · rw [activePayload_congr g.info _ st.obj (field?_setField_other _ _ _ _ (fun e' => e e'.symm))]
            exact hpre g (by simp [hg]) hgo
        obtain ⟨o, hrun2, hso, hframe, hhold, hE⟩ := decFields3 X ov rest attrs
          { st with obj := st.obj.setField (wkey f.info) x } atys hrest (isStruct_setField _ _ _ hs) hpre1
        have hfinal : o.field? (wkey f.info) = some x := by
          by_cases ho : f.info.oneOfName = ""
          · rw [hframe (wkey f.info) (fun g hg => sep_plain_left f.info g.info (hsep g hg) ho)]
            exact field?_setField_same _ _ _ hs
          · rcases hhold (wkey f.info) (fun f' hf' hp' => by rw [wkey_branch _ ho]; exact hplainNames f' hf' hp' ho) with
              h | ⟨d, hd, hdg, hdn, _⟩
            · rw [h]; exact field?_setField_same _ _ _ hs
            · exfalso
              rw [wkey_branch _ ho] at hdg
              have hfn := notNullAt_of (attrs.getD []) f a hla (hbr ho).1
              rcases hexcl d hd ho hdg with h | h
              · rw [hfn] at h; cases h
              · rw [hdn] at h; cases h
        refine ⟨o, ?_, hso, ?_, ?_, ?_⟩
        · simp only [copyFromFields, hph', Bool.false_eq_true, if_false, hrun]
          exact hrun2
        · intro key hkey
          rw [hframe key (fun g hg => hkey g (by simp [hg]))]
          exact field?_setField_other _ _ _ _ (fun e => hkey f (by simp) e.symm)
        · intro g hg
          rcases hhold g (fun f' hf' => hg f' (by simp [hf'])) with h | ⟨d, hd, h⟩
          · by_cases e : wkey f.info = g
            · by_cases ho : f.info.oneOfName = ""
              · exact absurd (by rw [← e, wkey_plain _ ho]) (hg f (by simp) ho)
              · obtain ⟨hnn, y, rfl⟩ := hbr ho
                right
                refine ⟨f, by simp, by rw [← e, wkey_branch _ ho], notNullAt_of _ f a hla hnn, y, ?_⟩
                rw [h, ← e]
                exact field?_setField_same _ _ _ hs
            · left
              rw [h]
              exact field?_setField_other _ _ _ _ (fun e' => e e'.symm)
          · exact Or.inr ⟨d, by simp [hd], h⟩
        · unfold Ech3s
          exact ⟨⟨a, ty, hla, hlt, hEf o hfinal⟩, hnS, hsep, hexcl, hE⟩
      · -- a null / unknown branch: nothing happens
        obtain ⟨o, hrun2, hso, hframe, hhold, hE⟩ := decFields3 X ov rest attrs st atys hrest hs
          (fun g hg => hpre g (by simp [hg]))
        have hap : activePayload f.info o = none := by
          rcases hhold f.info.oneOfName (fun f' hf' hp' => hplainNames f' hf' hp' ho) with h | ⟨d, hd, hdg, _, y, hy⟩
          · rw [activePayload_congr f.info o st.obj h]
            exact hpre f (by simp) ho
          · exact activePayload_wrap_other f.info d.info o y hy (sep_branch f.info d.info (hsep d hd) ho hdg)
        refine ⟨o, ?_, hso, ?_, ?_, ?_⟩
        · simp only [copyFromFields, hph', Bool.false_eq_true, if_false, hrun]
          exact hrun2
        · intro key hkey
          exact hframe key (fun g hg => hkey g (by simp [hg]))
        · intro g hg
          rcases hhold g (fun f' hf' => hg f' (by simp [hf'])) with h | ⟨d, hd, h⟩
          · exact Or.inl h
          · exact Or.inr ⟨d, by simp [hd], h⟩
        · unfold Ech3s
          exact ⟨⟨a, ty, hla, hlt, hEf o hap⟩, hnS, hsep, hexcl, hE⟩

end

-- ------------------------------------------------------------------------------------------------------
-- CopyTo from scratch of a struct typed with groups (`ToOKs`, `RT4OKs`) renders it and leaves nothing unknown

mutual

theorem freshField2 : ∀ (f : Field) (s : GoVal) (atys : List (String × TfTy)) (st : ToSt) (ty : TfTy) (sk : List String),
    atys.lookup f.info.nameSnake = some ty → ToOK f s ty → RT4OK f s → st.attrs.lookup f.info.nameSnake = none →
    ∃ v hs, copyToField f s (some atys) st =
        .ok { attrs := setKey f.info.nameSnake v st.attrs, diags := st.diags, hooks := st.hooks ++ hs } ∧
      rendersVal f s v = true ∧ noUnknownDeep sk v = true
  | ⟨info, mv, msg, sub⟩, obj, atys, st, ty, sk, hty, hok, hrt, hcur => by
    simp only at hty hcur
    unfold RT4OK at hrt
    obtain ⟨he, _, _, hrt⟩ := hrt
    have hrecK : ∀ (as : List (String × TfTy)) (sk' : List String),
        RecSpec (fun o a s => copyToFields sub o a s) (some as) (fun s => ToOKs sub s as ∧ RT4OKs sub s)
          (fun o as' => rendersFields sub o as' && noUnknownAs sk' as') := by
      intro as sk' s diags hooks hP
      obtain ⟨st', hrun, hd, ⟨hs, hh⟩, hr, _, hkn⟩ :=
        freshFields2 sub s as { attrs := [], diags := diags, hooks := hooks } sk' hP.1 hP.2 (by intro f _; simp [List.lookup])
      refine ⟨st'.attrs, hs, ?_, ?_⟩
      · show copyToFields sub s (some as) _ = _
        rw [hrun]
        cases st'
        simp_all
      · simp only [Bool.and_eq_true]
        exact ⟨hr, noUnknownAs_of_forall sk' _ (hkn (by simp))⟩
    cases hkind : info.kind with
    | custom =>
      rcases hrt with ⟨_, hrt⟩ | ⟨_, _, hrt⟩ <;> simp only [hkind] at hrt
    | primitive =>
      obtain ⟨v, hs, hstep, hr⟩ := toField_renders ⟨info, mv, msg, sub⟩ obj atys st ty hty hok hcur
      obtain ⟨k, n, p, rfl⟩ := copyToField_prim_known info mv msg sub obj atys st v _ _ ty hkind hty hstep
      exact ⟨_, hs, hstep, hr, by simp [noUnknownDeep]⟩
    | object =>
      unfold ToOK at hok
      simp only [hkind] at hok
      obtain ⟨_, as, rfl, hsub, hE, htyped⟩ := hok
      have hmR : MsgTyped info.isNullable (fun s => RT4OKs sub s) (getVal info obj) := by
        rcases hrt with ⟨_, hrt⟩ | ⟨_, _, hrt⟩
        · simp only [hkind] at hrt; exact hrt.2
        · simp only [hkind] at hrt; rw [hrt.1]; exact hrt.2.2
      have hse : sub.isEmpty = false := by cases sub <;> simp_all
      obtain ⟨v, hs, hrun, hr, hkn⟩ :=
        objBody_fresh_known (fun o a s => copyToFields sub o a s) info msg (some as) (getVal info obj) st.diags st.hooks
          (fun s => ToOKs sub s as ∧ RT4OKs sub s) (fun o as' => rendersFields sub o as') sk (hrecK as sk) hE
          (msgTyped_and _ _ _ _ htyped hmR)
      refine ⟨v, hs, ?_, ?_, hkn⟩
      · apply copyToField_obj_run2 info mv msg sub obj atys st as v _ _ hkind he hty
        rw [hcur, hse]
        exact hrun
      · simp only [rendersVal, hkind]
        exact hr
    | primitiveList =>
      unfold ToOK at hok
      simp only [hkind] at hok
      obtain ⟨hrep, ho, hnp, hreach, k, hk, rfl, hval⟩ := hok
      have hek : vkindOf info.tf.elemValueType ≠ .list := by rw [hk]; simp
      rcases hval with hnil | ⟨es, hes, htyped⟩
      · refine ⟨.list false true (some []) (some (.prim k)), [], ?_, ?_, by simp [noUnknownDeep, noUnknownList]⟩
        · rw [listField_run_nil info mv msg sub obj atys st (.prim k) (Or.inl hkind) ho he hrep hty hek hnil false true none
            (some (.prim k)) (Or.inr ⟨hcur, rfl, rfl⟩)]
          simp
        · simp [rendersVal, hkind, hnil, sliceElems]
      · have hoty : elemObjTy (info.kind == .objectList || info.kind == .objectMap) (some (.prim k)) = .ok none := by
          simp [elemObjTy, hkind]
        have hbody : elemBodyOf (fun o a s => copyToFields sub o a s) info msg sub.isEmpty obj (some (.prim k)) none =
            primElemBody info obj (some (.prim k)) := by simp [elemBodyOf, hkind]
        have hb := bodySpec_and _ _ (noUnknownDeep sk) _
          (primElem_spec info k obj es hk hnp (not_nil_of_reachable info obj hreach) htyped)
          (fun e v h => primRenders_known info e v sk h)
        rw [← hbody] at hb
        obtain ⟨r, hs, hrun, hlen, hall, hkn⟩ := listField_run info mv msg sub obj atys st (.prim k) none _ sk es (Or.inl hkind)
          ho he hrep hty hek hoty hes hb false true none (some (.prim k)) (Or.inr ⟨hcur, rfl, rfl⟩)
        refine ⟨_, hs, hrun, ?_, hkn⟩
        simp [rendersVal, hkind, hes, sliceElems, hlen, hall, decide_pos_length]
    | objectList =>
      unfold ToOK at hok
      simp only [hkind] at hok
      obtain ⟨hrep, ho, hreach, hevk, as, rfl, hsub, hne, hval⟩ := hok
      have htR0 : ∀ e ∈ sliceElems (getVal info obj), MsgTyped info.isNullable (fun s => RT4OKs sub s) e := by
        rcases hrt with ⟨_, hrt⟩ | ⟨_, _, hrt⟩
        · simp only [hkind] at hrt; exact hrt.2.2
        · simp only [hkind] at hrt
      have hek : vkindOf info.tf.elemValueType ≠ .list := by rw [hevk]; simp
      have hse : sub.isEmpty = false := by cases sub <;> simp_all
      rcases hval with hnil | ⟨es, hes, htyped⟩
      · refine ⟨.list false true (some []) (some (.obj (some as))), [], ?_, ?_, by simp [noUnknownDeep, noUnknownList]⟩
        · rw [listField_run_nil info mv msg sub obj atys st (.obj (some as)) (Or.inr hkind) ho he hrep hty hek hnil false true none
            (some (.obj (some as))) (Or.inr ⟨hcur, rfl, rfl⟩)]
          simp
        · simp [rendersVal, hkind, hnil, sliceElems]
      · have hoty : elemObjTy (info.kind == .objectList || info.kind == .objectMap) (some (.obj (some as))) = .ok (some as) := by
          simp [elemObjTy, hkind]
        have htR : ∀ e ∈ es, MsgTyped info.isNullable (fun s => RT4OKs sub s) e := by
          have := htR0
          rw [hes] at this
          exact this
        have hb : BodySpec (elemBodyOf (fun o a s => copyToFields sub o a s) info msg sub.isEmpty obj (some (.obj (some as))) (some as))
            (fun e v => objRenders info.isNullable (fun o as' => rendersFields sub o as') e v && noUnknownDeep sk v) es := by
          intro a ha diags hooks
          have hE : isEmptyMsg msg = true → ∀ fs, a = .ptr (some (.struct fs)) ∨ a = .struct fs → fs = [] := by
            intro h; rw [hne] at h; cases h
          obtain ⟨v, hs, hrun, hr, hkn⟩ := objBody_fresh_known (fun o a s => copyToFields sub o a s) info msg (some as) a diags hooks
            (fun s => ToOKs sub s as ∧ RT4OKs sub s) (fun o as' => rendersFields sub o as') sk (hrecK as sk) hE
            (msgTyped_and _ _ _ _ (htyped a ha) (htR a ha))
          refine ⟨v, hs, ?_, by simp [hr, hkn]⟩
          simp only [elemBodyOf, hkind, hse]
          simpa using hrun
        obtain ⟨r, hs, hrun, hlen, hall, hkn⟩ := listField_run info mv msg sub obj atys st (.obj (some as)) (some as) _ sk es
          (Or.inr hkind) ho he hrep hty hek hoty hes hb false true none (some (.obj (some as))) (Or.inr ⟨hcur, rfl, rfl⟩)
        refine ⟨_, hs, hrun, ?_, hkn⟩
        simp [rendersVal, hkind, hes, sliceElems, hlen, hall, decide_pos_length]
    | primitiveMap =>
      unfold ToOK at hok
      simp only [hkind] at hok
      obtain ⟨hrep, ho, hnp, hreach, hzv, k, hk, rfl, hval⟩ := hok
      have hek : vkindOf info.tf.elemValueType ≠ .map := by rw [hk]; simp
      rcases hval with hnil | ⟨es, hes, hnd, htyped⟩
      · refine ⟨.map false true (some []) (some (.prim k)), [], ?_, ?_, by simp [noUnknownDeep, noUnknownAs]⟩
        · rw [mapField_run_nil info mv msg sub obj atys st (.prim k) (Or.inl hkind) ho he hrep hty hek hnil false true none
            (some (.prim k)) (Or.inr ⟨hcur, rfl, rfl⟩)]
          simp
        · simp [rendersVal, hkind, hnil, mapElems]
      · have hoty : elemObjTy (info.kind == .objectList || info.kind == .objectMap) (some (.prim k)) = .ok none := by
          simp [elemObjTy, hkind]
        have hbody : elemBodyOf (fun o a s => copyToFields sub o a s) info msg sub.isEmpty obj (some (.prim k)) none =
            primElemBody info obj (some (.prim k)) := by simp [elemBodyOf, hkind]
        have hb := bodySpec_and _ _ (noUnknownDeep []) _
          (primElem_spec info k obj (es.map (·.2)) hk hnp (not_nil_of_reachable info obj hreach)
            (by intro e he; simp at he; obtain ⟨a, ha⟩ := he; exact htyped _ ha))
          (fun e v h => primRenders_known info e v [] h)
        rw [← hbody] at hb
        obtain ⟨r, hs, hrun, hlen, hall, hkn⟩ := mapField_run info mv msg sub obj atys st (.prim k) none _ es (Or.inl hkind)
          ho he hrep hty hek hoty hes hnd hb false true none (some (.prim k)) (Or.inr ⟨hcur, rfl, rfl⟩) sk
        refine ⟨_, hs, hrun, ?_, hkn⟩
        simp only [rendersVal, hkind, hes, mapElems, Option.getD]
        simp [hlen, decide_pos_length]
        intro a b hab
        obtain ⟨v, hv, hq⟩ := hall (a, b) hab
        simp [hv, hq]
    | objectMap =>
      unfold ToOK at hok
      simp only [hkind] at hok
      obtain ⟨hrep, ho, hreach, hevk, as, rfl, hsub, hne, hval⟩ := hok
      have htR0 : ∀ e ∈ mapElems (getVal info obj), MsgTyped info.isNullable (fun s => RT4OKs sub s) e.2 := by
        rcases hrt with ⟨_, hrt⟩ | ⟨_, _, hrt⟩
        · simp only [hkind] at hrt; exact hrt.2.2.2
        · simp only [hkind] at hrt
      have hek : vkindOf info.tf.elemValueType ≠ .map := by rw [hevk]; simp
      have hse : sub.isEmpty = false := by cases sub <;> simp_all
      rcases hval with hnil | ⟨es, hes, hnd, htyped⟩
      · refine ⟨.map false true (some []) (some (.obj (some as))), [], ?_, ?_, by simp [noUnknownDeep, noUnknownAs]⟩
        · rw [mapField_run_nil info mv msg sub obj atys st (.obj (some as)) (Or.inr hkind) ho he hrep hty hek hnil false true none
            (some (.obj (some as))) (Or.inr ⟨hcur, rfl, rfl⟩)]
          simp
        · simp [rendersVal, hkind, hnil, mapElems]
      · have hoty : elemObjTy (info.kind == .objectList || info.kind == .objectMap) (some (.obj (some as))) = .ok (some as) := by
          simp [elemObjTy, hkind]
        have htR : ∀ e ∈ es, MsgTyped info.isNullable (fun s => RT4OKs sub s) e.2 := by
          have := htR0
          rw [hes] at this
          exact this
        have hb : BodySpec (elemBodyOf (fun o a s => copyToFields sub o a s) info msg sub.isEmpty obj (some (.obj (some as))) (some as))
            (fun e v => objRenders info.isNullable (fun o as' => rendersFields sub o as') e v && noUnknownDeep [] v)
            (es.map (·.2)) := by
          intro a ha diags hooks
          simp at ha
          obtain ⟨key, hka⟩ := ha
          have hE : isEmptyMsg msg = true → ∀ fs, a = .ptr (some (.struct fs)) ∨ a = .struct fs → fs = [] := by
            intro h; rw [hne] at h; cases h
          obtain ⟨v, hs, hrun, hr, hkn⟩ := objBody_fresh_known (fun o a s => copyToFields sub o a s) info msg (some as) a diags hooks
            (fun s => ToOKs sub s as ∧ RT4OKs sub s) (fun o as' => rendersFields sub o as') [] (hrecK as []) hE
            (msgTyped_and _ _ _ _ (htyped _ hka) (htR _ hka))
          refine ⟨v, hs, ?_, by simp [hr, hkn]⟩
          simp only [elemBodyOf, hkind, hse]
          simpa using hrun
        obtain ⟨r, hs, hrun, hlen, hall, hkn⟩ := mapField_run info mv msg sub obj atys st (.obj (some as)) (some as) _ es
          (Or.inr hkind) ho he hrep hty hek hoty hes hnd hb false true none (some (.obj (some as))) (Or.inr ⟨hcur, rfl, rfl⟩) sk
        refine ⟨_, hs, hrun, ?_, hkn⟩
        simp only [rendersVal, hkind, hes, mapElems, Option.getD]
        simp [hlen, decide_pos_length]
        intro a b hab
        obtain ⟨v, hv, hq⟩ := hall (a, b) hab
        simp [hv, hq]

theorem freshFields2 : ∀ (fs : List Field) (s : GoVal) (atys : List (String × TfTy)) (st : ToSt) (sk : List String),
    ToOKs fs s atys → RT4OKs fs s → (∀ f ∈ fs, st.attrs.lookup f.info.nameSnake = none) →
    ∃ st', copyToFields fs s (some atys) st = .ok st' ∧ st'.diags = st.diags ∧ (∃ hs, st'.hooks = st.hooks ++ hs) ∧
      rendersFields fs s st'.attrs = true ∧
      (∀ key, key ∉ fs.map (·.info.nameSnake) → st'.attrs.lookup key = st.attrs.lookup key) ∧
      ((∀ kv ∈ st.attrs, noUnknownDeep sk kv.2 = true) → ∀ kv ∈ st'.attrs, noUnknownDeep sk kv.2 = true)
  | [], _, _, st, _, _, _, _ => ⟨st, by simp [copyToFields], rfl, ⟨[], by simp⟩, by simp [rendersFields], by simp, fun h => h⟩
  | f :: rest, obj, atys, st, sk, hok, hrt, hnone => by
    unfold ToOKs at hok
    unfold RT4OKs at hrt
    obtain ⟨⟨ty, hty, hf⟩, hnotin, hrest⟩ := hok
    obtain ⟨hrf, _, hrrest⟩ := hrt
    obtain ⟨v, hs1, hstep, hr, hkv⟩ := freshField2 f obj atys st ty sk hty hf hrf (hnone f (by simp))
    have hnone1 : ∀ g ∈ rest, (setKey f.info.nameSnake v st.attrs).lookup g.info.nameSnake = none := by
      intro g hg
      have hne : g.info.nameSnake ≠ f.info.nameSnake := by
        intro e
        exact hnotin (by rw [← e]; exact List.mem_map_of_mem hg)
      rw [lookup_setKey_other _ _ _ hne]
      exact hnone g (by simp [hg])
    obtain ⟨st', hrun, hd, ⟨hs2, hh⟩, hrr, hframe, hkn⟩ :=
      freshFields2 rest obj atys { attrs := setKey f.info.nameSnake v st.attrs, diags := st.diags, hooks := st.hooks ++ hs1 } sk
        hrest hrrest hnone1
    refine ⟨st', ?_, hd, ⟨hs1 ++ hs2, by simp [hh]⟩, ?_, ?_, ?_⟩
    · simp only [copyToFields, hstep]
      exact hrun
    · simp only [rendersFields]
      have : st'.attrs.lookup f.info.nameSnake = some v := by
        rw [hframe _ hnotin]
        exact lookup_setKey_same _ _ _
      simp [this, hr, hrr]
    · intro key hkey
      simp at hkey
      rw [hframe key (by simpa using hkey.2)]
      exact lookup_setKey_other _ _ _ hkey.1 _
    · intro h0
      apply hkn
      intro kv hkv
      simp only at hkv
      rw [setKey_of_lookup_none _ _ _ (hnone f (by simp))] at hkv
      simp only [List.mem_append, List.mem_singleton] at hkv
      rcases hkv with hkv | rfl
      · exact h0 kv hkv
      · exact hkv

end

theorem recSpec_fresh2 (sub : List Field) (as : List (String × TfTy)) (sk : List String) :
    RecSpec (fun o a s => copyToFields sub o a s) (some as) (fun s => ToOKs sub s as ∧ RT4OKs sub s)
      (fun o as' => rendersFields sub o as' && noUnknownAs sk as') := by
  intro s diags hooks hP
  obtain ⟨st', hrun, hd, ⟨hs, hh⟩, hr, _, hkn⟩ :=
    freshFields2 sub s as { attrs := [], diags := diags, hooks := hooks } sk hP.1 hP.2 (by intro f _; simp [List.lookup])
  refine ⟨st'.attrs, hs, ?_, ?_⟩
  · show copyToFields sub s (some as) _ = _
    rw [hrun]
    cases st'
    simp_all
  · simp only [Bool.and_eq_true]
    exact ⟨hr, noUnknownAs_of_forall sk _ (hkn (by simp))⟩

/-- the element body of a list / map of messages renders every typed element, leaving nothing unknown below -/
theorem objElems_spec2 (info : FieldInfo) (msg : Option MsgInfo) (sub : List Field) (obj : GoVal) (as : List (String × TfTy))
    (sk : List String) (elems : List GoVal)
    (hkind : info.kind = .objectList ∨ info.kind = .objectMap) (hsub : sub ≠ []) (hne : isEmptyMsg msg = false)
    (hT : ∀ e ∈ elems, ElemTyped info.isNullable sub as e) :
    BodySpec (elemBodyOf (fun o a s => copyToFields sub o a s) info msg sub.isEmpty obj (some (.obj (some as))) (some as))
      (fun e v => objRenders info.isNullable (fun o as' => rendersFields sub o as') e v && noUnknownDeep sk v) elems := by
  intro a ha diags hooks
  have hse : sub.isEmpty = false := by cases sub <;> simp_all
  have hE : isEmptyMsg msg = true → ∀ fs, a = .ptr (some (.struct fs)) ∨ a = .struct fs → fs = [] := by
    intro h; rw [hne] at h; cases h
  obtain ⟨v, hs, hrun, hr, hkn⟩ := objBody_fresh_known (fun o a s => copyToFields sub o a s) info msg (some as) a diags hooks
    (fun s => ToOKs sub s as ∧ RT4OKs sub s) (fun o as' => rendersFields sub o as') sk (recSpec_fresh2 sub as sk) hE
    (msgTyped_and _ _ _ _ (hT a ha).1 (hT a ha).2)
  refine ⟨v, hs, ?_, by simp [hr, hkn]⟩
  have hkk : (info.kind == .objectList || info.kind == .objectMap) = true := by rcases hkind with h | h <;> simp [h]
  simp only [elemBodyOf, hkk, hse, if_true]
  simpa using hrun

-- ------------------------------------------------------------------------------------------------------
-- the second decode of a list / map / by-value message whose message carries groups

theorem secondDec_of_reads2 (ov : List (String × String)) (f : Field) (o : GoVal) (v : TfVal)
    (ho : f.info.oneOfName = "") (hph : f.info.isPlaceholder = false) (hr : rendersVal f o v = true) (hrt : RT4OK f o) :
    SecondDec ov f (getVal f.info o) v := by
  intro attrs2 st2 hl2
  have h := fromField_reads4 ov f o v hr hrt
  unfold Second3 at h
  rcases h with ⟨_, h⟩ | ⟨h, _⟩
  · rcases h with h | h
    · rw [hph] at h; cases h
    · exact h attrs2 st2 hl2
  · exact absurd ho h

theorem secondDec_list2 (ov : List (String × String)) (info : FieldInfo) (mv : Option FieldInfo) (msg : Option MsgInfo)
    (sub : List Field) (o : GoVal) (xs : List GoVal) (r : List TfVal) (nl : Bool) (et : Option TfTy)
    (hk : info.kind = .primitiveList ∨ info.kind = .objectList) (ho : info.oneOfName = "")
    (he : info.parentIsOptionalEmbed = false) (hph : info.isPlaceholder = false)
    (hvt : vkindOf info.tf.valueType = .list)
    (hx : getVal info o = .slice (some xs)) (hlen : r.length = xs.length)
    (hrt : RT4OK ⟨info, mv, msg, sub⟩ o)
    (hrend : xs ≠ [] → rendersVal ⟨info, mv, msg, sub⟩ o (.list false false (some r) et) = true) :
    SecondDec ov ⟨info, mv, msg, sub⟩ (getVal info o) (.list false (if xs.length > 0 then false else nl) (some r) et) := by
  cases xs with
  | nil =>
    intro attrs2 st2 hl2
    have hr : r = [] := by simpa using hlen
    subst hr
    simp only [List.length_nil, Nat.lt_irrefl, gt_iff_lt, if_false] at hl2
    refine ⟨.slice (some []), ?_, ?_⟩
    · simp only [copyFromField]
      cases nl with
      | false =>
        exact fromFieldWith_list_run _ ov info mv msg attrs2 st2 false false (some []) et [] hk he hvt rfl hl2
          (by simp [fromElemsList])
      | true =>
        have := fromFieldWith_unknown_run
          (fun as s => copyFromFields ov sub as { s with obj := resetOneOfs ((msg.map (·.oneOfNames)).getD []) s.obj })
          ov info mv msg attrs2 st2 _ ho he hl2 (Or.inr (Or.inl ⟨hk, false, true, some [], et, rfl, rfl, hvt⟩))
        have hzw : zeroWrite info = GoVal.slice (some []) := by rcases hk with hk | hk <;> simp [zeroWrite, hk]
        rw [hzw] at this
        exact this
    · rw [hx]
      unfold valNfEq
      rcases hk with hk | hk <;> simp [hk, sliceElems]
  | cons x xs' =>
    simp only [List.length_cons, gt_iff_lt, Nat.zero_lt_succ, if_true]
    exact secondDec_of_reads2 ov ⟨info, mv, msg, sub⟩ o _ ho hph (hrend (by simp)) hrt

theorem secondDec_map2 (ov : List (String × String)) (info : FieldInfo) (mv : Option FieldInfo) (msg : Option MsgInfo)
    (sub : List Field) (o : GoVal) (xs : List (String × GoVal)) (r : List (String × TfVal)) (nl : Bool) (et : Option TfTy)
    (hk : info.kind = .primitiveMap ∨ info.kind = .objectMap) (ho : info.oneOfName = "")
    (he : info.parentIsOptionalEmbed = false) (hph : info.isPlaceholder = false)
    (hvt : vkindOf info.tf.valueType = .map)
    (hx : getVal info o = .map (some xs)) (hlen : r.length = xs.length)
    (hrt : RT4OK ⟨info, mv, msg, sub⟩ o)
    (hrend : xs ≠ [] → rendersVal ⟨info, mv, msg, sub⟩ o (.map false false (some r) et) = true) :
    SecondDec ov ⟨info, mv, msg, sub⟩ (getVal info o) (.map false (if xs.length > 0 then false else nl) (some r) et) := by
  cases xs with
  | nil =>
    intro attrs2 st2 hl2
    have hr : r = [] := by simpa using hlen
    subst hr
    simp only [List.length_nil, Nat.lt_irrefl, gt_iff_lt, if_false] at hl2
    refine ⟨.map (some []), ?_, ?_⟩
    · simp only [copyFromField]
      cases nl with
      | false =>
        exact fromFieldWith_map_run _ ov info mv msg attrs2 st2 false false (some []) et [] hk he hvt rfl hl2
          (by simp [fromElemsMap])
      | true =>
        have := fromFieldWith_unknown_run
          (fun as s => copyFromFields ov sub as { s with obj := resetOneOfs ((msg.map (·.oneOfNames)).getD []) s.obj })
          ov info mv msg attrs2 st2 _ ho he hl2 (Or.inr (Or.inr ⟨hk, false, true, some [], et, rfl, rfl, hvt⟩))
        have hzw : zeroWrite info = GoVal.map (some []) := by rcases hk with hk | hk <;> simp [zeroWrite, hk]
        rw [hzw] at this
        exact this
    · rw [hx]
      unfold valNfEq
      rcases hk with hk | hk <;> simp [hk, mapElems]
  | cons x xs' =>
    simp only [List.length_cons, gt_iff_lt, Nat.zero_lt_succ, if_true]
    exact secondDec_of_reads2 ov ⟨info, mv, msg, sub⟩ o _ ho hph (hrend (by simp)) hrt

-- ------------------------------------------------------------------------------------------------------
-- the zero struct equals itself in normal form

theorem field?_nil (name : String) : (GoVal.struct []).field? name = none := by
  simp [GoVal.field?, List.lookup]

theorem getVal_zeroStruct (info : FieldInfo) (he : info.parentIsOptionalEmbed = false) :
    getVal info (.struct []) = zeroGoOf info := by
  by_cases ho : info.oneOfName = ""
  · rw [getVal_plain info _ ho he, field?_nil]; rfl
  · exact ToOneof.inactive_reads_zero info _ ho he (activePayload_init info _ (Or.inl (field?_nil _)))

mutual
theorem nfEqField_zero : ∀ (f : Field), RT4OK f (.struct []) → nfEqField f (.struct []) (.struct []) = true
  | ⟨info, mv, msg, sub⟩, h => by
    unfold RT4OK at h
    obtain ⟨he, _, _, h⟩ := h
    have hap : activePayload info (.struct []) = none := activePayload_init info _ (Or.inl (field?_nil _))
    have hgz := getVal_zeroStruct info he
    rcases h with ⟨ho, h⟩ | ⟨ho, _, h⟩
    · rw [nfEqField_eq_valNfEq _ _ _ ho]
      simp only [hgz]
      unfold valNfEq
      cases hk : info.kind with
      | custom => simp only [hk] at h
      | primitive =>
        simp only [hk]
        split
        · rfl
        · cases hn : info.isNullable
          · simp [zeroGoOf, hk, hn, primNfEq, scNfEq_refl']
          · simp [zeroGoOf, hk, hn, primNfEq]
      | object =>
        simp only [hk] at h ⊢
        obtain ⟨_, hm⟩ := h
        unfold msgNfEq
        cases hn : info.isNullable
        · rw [hgz] at hm
          unfold MsgTyped at hm
          simp only [hn, Bool.false_eq_true, if_false, zeroGoOf, hk] at hm ⊢
          obtain ⟨fs, hfs, hP⟩ := hm
          injection hfs with hfs
          subst hfs
          simp only [structOf]
          exact nfEqFields_zero sub hP
        · simp [zeroGoOf, hk, hn, isNilPtr]
      | primitiveList => simp [hk, zeroGoOf, sliceElems]
      | objectList => simp [hk, zeroGoOf, sliceElems]
      | primitiveMap => simp [hk, zeroGoOf, mapElems]
      | objectMap => simp [hk, zeroGoOf, mapElems]
    · have hsh : BranchShape3 ⟨info, mv, msg, sub⟩ := by
        unfold BranchShape3
        cases hk : info.kind <;> simp only [hk] at h ⊢
        · exact Or.inl trivial
        · exact Or.inr ⟨trivial, h.1⟩
      exact nfEq_branch_none3 _ _ _ ho hsh hap hap

theorem nfEqFields_zero : ∀ (fs : List Field), RT4OKs fs (.struct []) → nfEqFields fs (.struct []) (.struct []) = true
  | [], _ => by simp [nfEqFields]
  | f :: rest, h => by
    unfold RT4OKs at h
    unfold nfEqFields
    rw [nfEqField_zero f h.1, nfEqFields_zero rest h.2.2]
    rfl
end

-- ------------------------------------------------------------------------------------------------------
-- the echo of a scalar branch: the `Null` flag of the result

theorem primEcho_null (info : FieldInfo) (k : PrimK) (hir : ScalarIR info k) (obj : GoVal) (u n : Bool) (p : Sc) (x : GoVal)
    (t : Option TfTy) (hph : info.isPlaceholder = false) (he : info.parentIsOptionalEmbed = false)
    (hd : primDecode info k u n p = .ok x) (n2 : Bool) (p2 : Sc)
    (hpb : primBody info obj (some (.prim k u n p)) t (.ok x) = .ok (.prim k false n2 p2, [])) :
    (n2 = false → n = false) ∧ (n2 = true → primIsZero x = true) := by
  rw [primBody_inplace info k obj u n p t _ hir.rt.ek] at hpb
  unfold assignPrim at hpb
  simp only [hph, he, Bool.false_eq_true, if_false] at hpb
  unfold primDecode at hd
  by_cases hknown : known u n = true
  · have hun : u = false ∧ n = false := by cases u <;> cases n <;> simp [known] at hknown ⊢
    obtain ⟨rfl, rfl⟩ := hun
    cases hc : info.castFrom k p with
    | none => simp [hknown, hc] at hd
    | some c =>
      by_cases hn : info.isNullable = true
      · simp only [hknown, if_true, hc, hn] at hd
        injection hd with hd
        subst hd
        simp only [hn, if_true] at hpb
        injection hpb with hpb
        injection hpb with hpb
        injection hpb with _ _ h3 _
        subst h3
        exact ⟨fun _ => rfl, fun h => by cases h⟩
      · have hn' : info.isNullable = false := by simpa using hn
        simp only [hknown, if_true, hc, hn', Bool.false_eq_true, if_false] at hd
        injection hd with hd
        subst hd
        simp only [hn', Bool.false_eq_true, if_false] at hpb
        cases hct : info.castTo c with
        | none => simp [hct] at hpb
        | some c' =>
          simp only [hct] at hpb
          injection hpb with hpb
          injection hpb with hpb
          injection hpb with _ _ h3 _
          subst h3
          exact ⟨fun _ => rfl, fun h => by cases h⟩
  · have hknown' : known u n = false := by simpa using hknown
    simp only [hknown', Bool.false_eq_true, if_false] at hd
    injection hd with hd
    subst hd
    refine ⟨?_, fun _ => ?_⟩
    · intro h2
      by_cases hn : info.isNullable = true
      · simp only [zeroPrim, hn, if_true] at hpb
        injection hpb with hpb
        injection hpb with hpb
        injection hpb with _ _ h3 _
        rw [h2] at h3
        cases h3
      · have hn' : info.isNullable = false := by simpa using hn
        simp only [zeroPrim, hn', Bool.false_eq_true, if_false] at hpb
        cases hct : info.castTo (zeroOfRep info.rep) with
        | none => simp [hct] at hpb
        | some c' =>
          simp only [hct] at hpb
          injection hpb with hpb
          injection hpb with hpb
          injection hpb with _ _ h3 _
          rw [h2] at h3
          exact h3
    · cases hn : info.isNullable <;> simp [zeroPrim, hn, primIsZero, scIsZero_zeroOfRep]

-- ------------------------------------------------------------------------------------------------------
-- C08 with oneof groups at every position, steps 2 and 3: the echo of every field

/-- what the echo of one attribute satisfies (see `EchoV2`) -/
def EchoV3 (ov : List (String × String)) (skN skE : List String) (f : Field) (o : GoVal) (a v : TfVal) : Prop :=
  noUnknownDeep skN v = true ∧ echoKeeps skE a v = true ∧
  (f.info.oneOfName ≠ "" → isNull v = false → isNull a = false) ∧ Second3 ov f o a v

theorem echo_attrs3 (X : String → TfVal → Prop) (ov : List (String × String)) (skN skE : List String)
    (hX : ExtraOK X skN skE) (fs : List Field) (o : GoVal)
    (A A' : List (String × TfVal)) (hkeys : KeysOK X fs A) (hk' : A'.map (·.1) = A.map (·.1))
    (hframe : ∀ key, key ∉ fs.map (·.info.nameSnake) → A'.lookup key = A.lookup key)
    (hall : ∀ f ∈ fs, ∃ a v, A.lookup f.info.nameSnake = some a ∧ A'.lookup f.info.nameSnake = some v ∧
        EchoV3 ov skN skE f o a v) :
    noUnknownAs skN A' = true ∧ echoKeepsAs skE A A' = true := by
  have hndk : (A'.map (·.1)).Nodup := by rw [hk']; exact hkeys.1
  refine ⟨?_, ?_⟩
  · apply noUnknownAs_of_forall'
    intro kv hkv
    have hl' := lookup_of_mem_nodup A' kv.1 kv.2 hndk hkv
    by_cases hin : kv.1 ∈ fs.map (·.info.nameSnake)
    · obtain ⟨g, hg, hgn⟩ := List.mem_map.mp hin
      obtain ⟨a', v', _, hlv, hev⟩ := hall g hg
      rw [← hgn, hlv] at hl'
      injection hl' with hl'
      subst hl'
      exact Or.inr hev.1
    · rw [hframe kv.1 hin] at hl'
      have hmem := mem_of_lookup _ _ _ hl'
      rcases hkeys.2 (kv.1, kv.2) hmem with h | h
      · exact absurd h hin
      · exact (hX _ _ h).1
  · apply echoKeepsAs_of_forall'
    intro kv hkv
    have hl := lookup_of_mem_nodup A kv.1 kv.2 hkeys.1 hkv
    by_cases hin : kv.1 ∈ fs.map (·.info.nameSnake)
    · obtain ⟨g, hg, hgn⟩ := List.mem_map.mp hin
      obtain ⟨a', v', hla, hlv, hev⟩ := hall g hg
      rw [← hgn] at hl
      rw [hla] at hl
      injection hl with hl
      subst hl
      exact Or.inr ⟨v', by rw [← hgn]; exact hlv, hev.2.1⟩
    · rcases hkeys.2 kv hkv with hin' | hx
      · exact absurd hin' hin
      · rcases (hX _ _ hx).2 with hc | hr
        · exact Or.inl hc
        · exact Or.inr ⟨kv.2, by rw [hframe kv.1 hin]; exact hl, hr⟩

mutual

theorem echoField3 (X : String → TfVal → Prop) (ov : List (String × String)) (skN skE : List String)
    (hX : ExtraOK X skN skE) : ∀ (f : Field) (o : GoVal)
    (atys : List (String × TfTy)) (st : ToSt) (a : TfVal) (ty : TfTy),
    atys.lookup f.info.nameSnake = some ty → st.attrs.lookup f.info.nameSnake = some a → Ech3 X f a ty o →
    ∃ v hs, copyToField f o (some atys) st =
        .ok { attrs := setKey f.info.nameSnake v st.attrs, diags := st.diags, hooks := st.hooks ++ hs } ∧
      EchoV3 ov skN skE f o a v
  | ⟨info, mv, msg, sub⟩, o, atys, st, a, ty, hty, hcur, hE => by
    simp only at hty hcur
    unfold Ech3 at hE
    unfold EchoV3 Second3
    -- the recursive call on a known nested message / message branch held as `x`
    have hnested : ∀ (as : Option (List (String × TfVal))) (tys : List (String × TfTy)) (fs : List (String × GoVal)) (x : GoVal),
        (isEmptyMsg msg = true → fs = []) → Ech3s X sub (as.getD []) tys (.struct fs) → KeysOK X sub (as.getD []) →
        ((info.isNullable = true ∧ x = .ptr (some (.struct fs))) ∨ (info.isNullable = false ∧ x = .struct fs)) →
        ∃ attrs' hs', objBody (fun o a s => copyToFields sub o a s) info msg false (some (.obj false false as (some tys)))
            (some tys) (.ok x) st.diags st.hooks = .ok (.obj false false (some attrs') (some tys), st.diags, st.hooks ++ hs') ∧
          noUnknownDeep skN (.obj false false (some attrs') (some tys)) = true ∧
          echoKeeps skE (.obj false false as (some tys)) (.obj false false (some attrs') (some tys)) = true ∧
          ∀ (ds : List Diag) (hks : List HookCall), ∃ o2,
            copyFromFields ov sub (some attrs')
              { obj := resetOneOfs ((msg.map (·.oneOfNames)).getD []) (.struct []), diags := ds, hooks := hks } =
              .ok { obj := o2, diags := ds, hooks := hks } ∧ IsStruct o2 ∧ nfEqFields sub (.struct fs) o2 = true := by
      intro as tys fs x hemv hEs hkeys hxx
      obtain ⟨st', hrun, hd', ⟨hs', hh⟩, hkeys', hframe', hall⟩ := echoFields3 X ov skN skE hX sub (.struct fs) tys (as.getD [])
        { attrs := as.getD [], diags := st.diags, hooks := st.hooks } hEs (fun _ _ => rfl)
      have hrec : (fun o a s => copyToFields sub o a s) (.struct fs) (some tys)
          { attrs := as.getD [], diags := st.diags, hooks := st.hooks } =
          .ok { attrs := st'.attrs, diags := st.diags, hooks := st.hooks ++ hs' } := by
        show copyToFields sub _ _ _ = _
        rw [hrun]
        cases st'
        simp_all
      have hob := objBody_echo (fun o a s => copyToFields sub o a s) info msg (some tys) false false as tys x fs
        st.diags st.hooks st'.attrs (st.hooks ++ hs') hemv hxx hrec
      obtain ⟨hknA, hkeepA⟩ := echo_attrs3 X ov skN skE hX sub (.struct fs) (as.getD []) st'.attrs hkeys hkeys' hframe' hall
      refine ⟨st'.attrs, hs', hob, ?_, ?_, ?_⟩
      · simp only [noUnknownDeep, Bool.not_false, Bool.true_and]
        exact hknA
      · cases as with
        | none => simp [echoKeeps]
        | some l =>
          simp only [echoKeeps, Bool.false_eq_true, if_false, beq_self_eq_true, Bool.true_and, Bool.false_or, Option.getD_some]
          exact hkeepA
      · intro ds hks
        obtain ⟨o2, hrun2, hso2, hnf⟩ := secondAll3 X ov sub (as.getD []) tys (.struct fs) st'.attrs hEs
          (fun g hg => by
            obtain ⟨a', v', hla', hlv', hev'⟩ := hall g hg
            exact ⟨a', v', hla', hlv', hev'.2.2.2⟩)
          { obj := resetOneOfs ((msg.map (·.oneOfNames)).getD []) (.struct []), diags := ds, hooks := hks }
          (isStruct_resetOneOfs _ _ trivial)
          (fun g => initNone_reset _ g (.struct []) trivial (initNone_empty g))
        exact ⟨o2, hrun2, hso2, hnf⟩
    rcases hE with ⟨hp, hT, hR, hD⟩ | ⟨he, hph, hk, hem, hvt, hsub, hcase⟩ |
      ⟨ho, he, hph, hk, k, u, n, p, rfl, rfl, hvt, hir, hleaf, x, hd, hst⟩ |
      ⟨ho, he, hph, hk, hem, u, n, es, et, tys, xs, rfl, rfl, hvt, hevk, hrep, hsub, hne, hnull, hgx, hlen, hall⟩ |
      ⟨ho, he, hph, hk, hem, u, n, es, et, tys, xs, rfl, rfl, hvt, hevk, hmvk, hrep, hsub, hne, hnull, hgx, hlen, hsome, hndx, hall⟩
    · -- a field of the plain tree
      have ho : info.oneOfName = "" := by unfold PlanOK at hp; exact hp.1
      obtain ⟨v, hs, hrun, hev⟩ := echoField X ov skN skE hX ⟨info, mv, msg, sub⟩ o atys st a ty hty hcur hp hT hR hD
      exact ⟨v, hs, hrun, hev.1, hev.2.1, fun h => absurd ho h, Or.inl ⟨ho, hev.2.2⟩⟩
    · have hse : sub.isEmpty = false := by cases sub <;> simp_all
      rcases hcase with ⟨ho, as, tys, fs, rfl, rfl, hgx, hfs, hEs, hkeys⟩ |
        ⟨ho, hn, u, n, as, tys, rfl, rfl, hknown', has, hgx, hzT, hzR⟩ | ⟨ho, hn, u, n, as, tys, rfl, rfl, hkn, hunk⟩
      · -- a known nested message with groups below
        have hxx : (info.isNullable = true ∧ getVal info o = .ptr (some (.struct fs))) ∨
            (info.isNullable = false ∧ getVal info o = .struct fs) := by
          cases hn : info.isNullable <;> simp [hn] at hgx ⊢ <;> exact hgx
        obtain ⟨attrs', hs', hob, hkn', hkeep, hsec⟩ := hnested as tys fs (getVal info o) hfs hEs hkeys hxx
        refine ⟨.obj false false (some attrs') (some tys), hs', ?_, hkn', hkeep, fun h => absurd ho h, Or.inl ⟨ho, Or.inr ?_⟩⟩
        · apply copyToField_obj_run2 info mv msg sub o atys st tys _ _ _ hk he hty
          rw [hcur, hse]
          exact hob
        · intro attrs2 st2 hl2
          by_cases hE : isEmptyMsg msg = true
          · have hfs0 := hfs hE
            subst hfs0
            refine ⟨if info.isNullable then .ptr (some (.struct [])) else .struct [], ?_, ?_⟩
            · simp only [copyFromField]
              exact fromFieldWith_obj_empty_run _ ov info mv msg attrs2 st2 false false (some attrs') (some tys) hk ho he hvt
                hE rfl hl2
            · unfold valNfEq
              simp only [hk]
              rw [hgx]
              unfold msgNfEq
              have hpl := nfEqFields_placeholders sub (.struct []) (.struct []) (hem hE)
              cases hn : info.isNullable
              · simp only [Bool.false_eq_true, if_false, structOf]
                exact hpl
              · simp [isNilPtr, structOf, hpl]
          · have hE' : isEmptyMsg msg = false := by simpa using hE
            obtain ⟨o2, hrun2, hso2, hnf⟩ := hsec st2.diags st2.hooks
            refine ⟨if info.isNullable then .ptr (some o2) else o2, ?_, ?_⟩
            · simp only [copyFromField]
              exact fromFieldWith_obj_run _ ov info mv msg attrs2 st2 false false (some attrs') (some tys) o2 hk ho he hvt hE'
                rfl hl2 hrun2
            · unfold valNfEq
              simp only [hk]
              rw [hgx]
              unfold msgNfEq
              cases hn : info.isNullable
              · simp only [Bool.false_eq_true, if_false, structOf_of_isStruct o2 hso2]
                simp only [structOf]
                exact hnf
              · simp [isNilPtr, structOf, hnf]
      · -- a null / unknown message held by value: the zero struct is rendered from scratch
        have hnu : u = false → n = true := by
          intro hu; subst hu; cases n <;> simp [known] at hknown' ⊢
        obtain ⟨st', hrun, hd', ⟨hs', hh⟩, hr, _, hknw⟩ := freshFields2 sub (.struct []) tys
          { attrs := [], diags := st.diags, hooks := st.hooks } skN hzT hzR (by intro f _; simp [List.lookup])
        have hrec : (fun o a s => copyToFields sub o a s) (.struct []) (some tys)
            { attrs := as.getD [], diags := st.diags, hooks := st.hooks } =
            .ok { attrs := st'.attrs, diags := st.diags, hooks := st.hooks ++ hs' } := by
          show copyToFields sub _ _ _ = _
          rw [has, hrun]
          cases st'
          simp_all
        have hob := objBody_echo (fun o a s => copyToFields sub o a s) info msg (some tys) u n as tys (getVal info o) []
          st.diags st.hooks st'.attrs (st.hooks ++ hs') (fun _ => rfl) (Or.inr ⟨hn, hgx⟩) hrec
        have hrt : RT4OK ⟨info, mv, msg, sub⟩ o := by
          unfold RT4OK
          refine ⟨he, hem, fun h => (by rw [hph] at h; cases h), Or.inl ⟨ho, ?_⟩⟩
          simp only [hk]
          refine ⟨hvt, ?_⟩
          rw [hgx]
          unfold MsgTyped
          simp only [hn, Bool.false_eq_true, if_false]
          exact ⟨[], rfl, hzR⟩
        refine ⟨.obj false n (some st'.attrs) (some tys), hs', ?_, ?_, ?_, fun h => absurd ho h, Or.inl ⟨ho, Or.inr ?_⟩⟩
        · apply copyToField_obj_run2 info mv msg sub o atys st tys _ _ _ hk he hty
          rw [hcur, hse]
          exact hob
        · simp only [noUnknownDeep, Bool.not_false, Bool.true_and]
          exact noUnknownAs_of_forall skN _ (hknw (by simp))
        · cases u with
          | true => cases as <;> simp [echoKeeps]
          | false =>
            have := hnu rfl
            subst this
            cases as <;> simp [echoKeeps]
        · cases n with
          | true =>
            intro attrs2 st2 hl2
            refine ⟨.struct [], ?_, ?_⟩
            · simp only [copyFromField]
              have := fromFieldWith_unknown_run (fun as s => copyFromFields ov sub as { s with obj := resetOneOfs ((msg.map (·.oneOfNames)).getD []) s.obj })
                ov info mv msg attrs2 st2 _ ho he hl2 (Or.inl ⟨hk, false, true, some st'.attrs, some tys, rfl, rfl, hvt⟩)
              have hzw : zeroWrite info = GoVal.struct [] := by simp [zeroWrite, hk, hn]
              rw [hzw] at this
              exact this
            · unfold valNfEq
              simp only [hk]
              rw [hgx]
              simp only [msgNfEq, hn, Bool.false_eq_true, if_false, structOf]
              exact nfEqFields_zero sub hzR
          | false =>
            apply secondDec_of_reads2 ov ⟨info, mv, msg, sub⟩ o _ ho hph _ hrt
            simp [rendersVal, hk, objRenders, hn, hgx, structOf, hr]
      · -- a message branch
        by_cases hknown : known u n = true
        · have hun : u = false ∧ n = false := by cases u <;> cases n <;> simp [known] at hknown ⊢
          obtain ⟨rfl, rfl⟩ := hun
          obtain ⟨fs, hst, hfs, hEs, hkeys⟩ := hkn hknown
          have hgx := (brState_some info o _ ho he hst).1
          obtain ⟨attrs', hs', hob, hkn', hkeep, hsec⟩ := hnested as tys fs (getVal info o) hfs hEs hkeys (Or.inl ⟨hn, hgx⟩)
          refine ⟨.obj false false (some attrs') (some tys), hs', ?_, hkn', hkeep, fun _ _ => rfl, Or.inr ⟨ho, ?_⟩⟩
          · apply copyToField_obj_run2 info mv msg sub o atys st tys _ _ _ hk he hty
            rw [hcur, hse]
            exact hob
          · intro attrs2 st2 hl2
            right
            by_cases hE : isEmptyMsg msg = true
            · refine ⟨rfl, .ptr (some (.struct [])), ?_, ?_⟩
              · simp only [copyFromField]
                exact fromFieldWith_objBranch_known_empty _ ov info mv msg attrs2 st2 false false (some attrs') (some tys) hk ho he
                  hvt hE rfl hl2
              · unfold PayNf3
                simp only [hk]
                exact ⟨fs, .struct [], hgx, rfl, nfEqFields_placeholders sub _ _ (hem hE)⟩
            · have hE' : isEmptyMsg msg = false := by simpa using hE
              obtain ⟨o2, hrun2, hso2, hnf⟩ := hsec st2.diags st2.hooks
              refine ⟨rfl, .ptr (some o2), ?_, ?_⟩
              · simp only [copyFromField]
                exact fromFieldWith_objBranch_known _ ov info mv msg attrs2 st2 false false (some attrs') (some tys) o2 hk ho he
                  hvt hE' rfl hl2 hrun2
              · unfold PayNf3
                simp only [hk]
                exact ⟨fs, o2, hgx, rfl, hnf⟩
        · have hknown' : known u n = false := by simpa using hknown
          obtain ⟨has, hst⟩ := hunk hknown'
          have hgx : getVal info o = .ptr none := by
            rw [brState_none info o ho he hst]; simp [zeroGoOf, hk, hn]
          have hnu : u = false → n = true := by
            intro hu; subst hu; cases n <;> simp [known] at hknown' ⊢
          refine ⟨.obj false true (some (as.getD [])) (some tys), [], ?_, ?_, ?_, fun _ h => by simp [isNull] at h, Or.inr ⟨ho, ?_⟩⟩
          · have hob := objBody_echo_nil (fun o a s => copyToFields sub o a s) info msg (some tys) u n as tys st.diags st.hooks hn
            rw [copyToField_obj_run2 info mv msg sub o atys st tys _ _ _ hk he hty (by rw [hcur, hse, hgx]; exact hob)]
            simp
          · simp [noUnknownDeep, has, noUnknownAs]
          · cases u with
            | true => cases as <;> simp [echoKeeps]
            | false =>
              have := hnu rfl
              subst this
              cases as <;> simp [echoKeeps]
          · intro attrs2 st2 hl2
            left
            refine ⟨?_, ?_⟩
            · simp only [copyFromField]
              exact fromFieldWith_objBranch_unknown _ ov info mv msg attrs2 st2 false true (some (as.getD [])) (some tys) hk ho he
                hvt rfl hl2
            · unfold Idle3
              simp only [hk]
              exact hgx
    · -- a scalar branch (held by value or by pointer)
      have hgx : getVal info o = x := scalarBranch_getVal info k u n p x o hk ho he hd hst
      obtain ⟨n2, p2, hpb, ⟨y, hd2, hnf⟩, hex⟩ :=
        primEcho info k hir (oneOfShadow info o) u n p x (some (.prim k)) hph he hleaf.castable hd
      obtain ⟨hnn, hzz⟩ := primEcho_null info k hir (oneOfShadow info o) u n p x (some (.prim k)) hph he hd n2 p2 hpb
      refine ⟨.prim k false n2 p2, [], ?_, by simp [noUnknownDeep], ?_, ?_, Or.inr ⟨ho, ?_⟩⟩
      · rw [copyToField_prim_run2 info mv msg sub o atys st k _ hk he hty (by rw [hcur, hgx]; exact hpb)]
        simp
      · cases u with
        | true => simp [echoKeeps]
        | false =>
          obtain ⟨rfl, rfl⟩ := hex hleaf rfl
          simp [echoKeeps, TfVal.beq]
      · intro _ h
        simp only [isNull] at h ⊢
        exact hnn h
      · intro attrs2 st2 hl2
        have hrun := fromFieldWith_primBranch_run (fun as s => copyFromFields ov sub as { s with obj := resetOneOfs ((msg.map (·.oneOfNames)).getD []) s.obj })
          ov info mv msg attrs2 st2 k false n2 p2 y hk ho he hvt hl2 hd2
        cases n2 with
        | true =>
          left
          refine ⟨?_, ?_⟩
          · simp only [copyFromField]
            rw [hrun]
            simp [known]
          · unfold Idle3
            simp only [hk]
            rw [hgx]
            exact hzz rfl
        | false =>
          right
          refine ⟨by simp only [isNull]; exact hnn rfl, y, ?_, ?_⟩
          · simp only [copyFromField]
            rw [hrun]
            simp [known]
          · unfold PayNf3
            simp only [hk]
            rw [hgx]
            exact hnf
    · -- a list of messages whose elements carry groups
      have hek : vkindOf info.tf.elemValueType ≠ .list := by rw [hevk]; simp
      have hoty : elemObjTy (info.kind == .objectList || info.kind == .objectMap) (some (.obj (some tys))) = .ok (some tys) := by
        simp [elemObjTy, hk]
      have hrt : RT4OK ⟨info, mv, msg, sub⟩ o := by
        unfold RT4OK
        refine ⟨he, hem, fun h => (by rw [hph] at h; cases h), Or.inl ⟨ho, ?_⟩⟩
        simp only [hk]
        refine ⟨hvt, hevk, ?_⟩
        rw [hgx]
        exact fun e he' => (hall e he').2
      obtain ⟨r, hs, hrun, hlenr, hallr, hkn⟩ := listField_run info mv msg sub o atys st (.obj (some tys)) (some tys)
        (fun e v => objRenders info.isNullable (fun o as' => rendersFields sub o as') e v) skN xs (Or.inr hk) ho he hrep hty hek hoty
        hgx (objElems_spec2 info msg sub o tys skN xs (Or.inl hk) hsub hne hall) u n es et (Or.inl hcur)
      refine ⟨_, hs, hrun, hkn, ?_, fun h => absurd ho h, Or.inl ⟨ho, Or.inr ?_⟩⟩
      · cases u with
        | true => simp [echoKeeps]
        | false =>
          cases n with
          | false =>
            simp only [known, Bool.not_false, Bool.and_self, if_true] at hlen
            simp [echoKeeps, hlenr, hlen]
          | true =>
            simp only [known, Bool.not_true, Bool.false_and, Bool.false_eq_true, if_false] at hlen
            have hxs : xs = [] := by simpa using hlen
            subst hxs
            have hr0 : r = [] := by simpa using hlenr
            subst hr0
            simp [echoKeeps, hnull rfl rfl]
      · apply secondDec_list2 ov info mv msg sub o xs r n et (Or.inr hk) ho he hph hvt hgx hlenr hrt
        intro hne'
        cases xs with
        | nil => exact absurd rfl hne'
        | cons x0 xs0 => simp [rendersVal, hk, hgx, sliceElems, hlenr, hallr]
    · -- a map of messages whose elements carry groups
      have hek : vkindOf info.tf.elemValueType ≠ .map := by rw [hevk]; simp
      have hoty : elemObjTy (info.kind == .objectList || info.kind == .objectMap) (some (.obj (some tys))) = .ok (some tys) := by
        simp [elemObjTy, hk]
      have hrt : RT4OK ⟨info, mv, msg, sub⟩ o := by
        unfold RT4OK
        refine ⟨he, hem, fun h => (by rw [hph] at h; cases h), Or.inl ⟨ho, ?_⟩⟩
        simp only [hk]
        refine ⟨hvt, hmvk, ?_, ?_⟩
        · rw [hgx]; exact hndx
        · rw [hgx]; exact fun e he' => (hall e he').2
      obtain ⟨r, hs, hrun, hlenr, hallr, hkn⟩ := mapField_run info mv msg sub o atys st (.obj (some tys)) (some tys)
        (fun e v => objRenders info.isNullable (fun o as' => rendersFields sub o as') e v) xs (Or.inr hk) ho he hrep hty hek hoty
        hgx hndx
        (objElems_spec2 info msg sub o tys [] (xs.map (·.2)) (Or.inr hk) hsub hne
          (by intro e he'; simp at he'; obtain ⟨a, ha⟩ := he'; exact hall _ ha)) u n es et (Or.inl hcur) skN
      refine ⟨_, hs, hrun, hkn, ?_, fun h => absurd ho h, Or.inl ⟨ho, Or.inr ?_⟩⟩
      · cases u with
        | true => simp [echoKeeps]
        | false =>
          cases n with
          | false =>
            simp only [known, Bool.not_false, Bool.and_self, if_true] at hlen
            simp only [echoKeeps, Bool.false_eq_true, if_false, Option.getD_some, Bool.and_eq_true, beq_iff_eq, List.all_eq_true]
            refine ⟨⟨by split <;> rfl, by rw [hlenr, hlen]⟩, ?_⟩
            intro kv hkv
            have h1 := hsome (by simp [known]) kv hkv
            cases hlx : xs.lookup kv.1 with
            | none => simp [hlx] at h1
            | some xv =>
              obtain ⟨v, hv, _⟩ := hallr (kv.1, xv) (mem_of_lookup _ _ _ hlx)
              simp only at hv
              simp [hv]
          | true =>
            simp only [known, Bool.not_true, Bool.false_and, Bool.false_eq_true, if_false] at hlen
            have hxs : xs = [] := by simpa using hlen
            subst hxs
            have hr0 : r = [] := by simpa using hlenr
            subst hr0
            simp [echoKeeps, hnull rfl rfl]
      · apply secondDec_map2 ov info mv msg sub o xs r n et (Or.inr hk) ho he hph hvt hgx hlenr hrt
        intro hne'
        cases xs with
        | nil => exact absurd rfl hne'
        | cons x0 xs0 =>
          simp only [rendersVal, hk, hgx, mapElems, Option.getD]
          simp [hlenr]
          refine ⟨?_, ?_⟩
          · obtain ⟨v, hv, hq⟩ := hallr x0 (by simp)
            simp [hv, hq]
          · intro a b hab
            obtain ⟨v, hv, hq⟩ := hallr (a, b) (by simp [hab])
            simp [hv, hq]

theorem echoFields3 (X : String → TfVal → Prop) (ov : List (String × String)) (skN skE : List String)
    (hX : ExtraOK X skN skE) : ∀ (fs : List Field) (o : GoVal)
    (atys : List (String × TfTy)) (A : List (String × TfVal)) (st : ToSt),
    Ech3s X fs A atys o → (∀ f ∈ fs, st.attrs.lookup f.info.nameSnake = A.lookup f.info.nameSnake) →
    ∃ st', copyToFields fs o (some atys) st = .ok st' ∧ st'.diags = st.diags ∧ (∃ hs, st'.hooks = st.hooks ++ hs) ∧
      st'.attrs.map (·.1) = st.attrs.map (·.1) ∧
      (∀ key, key ∉ fs.map (·.info.nameSnake) → st'.attrs.lookup key = st.attrs.lookup key) ∧
      (∀ f ∈ fs, ∃ a v, A.lookup f.info.nameSnake = some a ∧ st'.attrs.lookup f.info.nameSnake = some v ∧
          EchoV3 ov skN skE f o a v)
  | [], _, _, _, st, _, _ => ⟨st, by simp [copyToFields], rfl, ⟨[], by simp⟩, rfl, by simp, by simp⟩
  | f :: rest, o, atys, A, st, hE, hinv => by
    unfold Ech3s at hE
    obtain ⟨⟨a, ty, hla, hlt, hEf⟩, hnS, _, _, hErest⟩ := hE
    have hcur : st.attrs.lookup f.info.nameSnake = some a := by rw [hinv f (by simp)]; exact hla
    obtain ⟨v, hs1, hstep, hev⟩ := echoField3 X ov skN skE hX f o atys st a ty hlt hcur hEf
    have hne : ∀ g ∈ rest, g.info.nameSnake ≠ f.info.nameSnake := by
      intro g hg e
      exact hnS (by rw [← e]; exact List.mem_map_of_mem hg)
    obtain ⟨st', hrun, hd, ⟨hs2, hh⟩, hkeys, hframe, hall⟩ := echoFields3 X ov skN skE hX rest o atys A
      { attrs := setKey f.info.nameSnake v st.attrs, diags := st.diags, hooks := st.hooks ++ hs1 } hErest
      (fun g hg => by
        show (setKey f.info.nameSnake v st.attrs).lookup g.info.nameSnake = _
        rw [lookup_setKey_other _ _ _ (hne g hg)]
        exact hinv g (by simp [hg]))
    refine ⟨st', ?_, hd, ⟨hs1 ++ hs2, by simp [hh]⟩, ?_, ?_, ?_⟩
    · simp only [copyToFields, hstep]
      exact hrun
    · rw [hkeys]
      exact keys_setKey_mem _ _ _ (by simp [hcur])
    · intro key hkey
      simp only [List.map_cons, List.mem_cons, not_or] at hkey
      rw [hframe key hkey.2]
      exact lookup_setKey_other _ _ _ hkey.1 _
    · intro g hg
      simp only [List.mem_cons] at hg
      rcases hg with rfl | hg
      · refine ⟨a, v, hla, ?_, hev⟩
        rw [hframe _ hnS]
        exact lookup_setKey_same _ _ _
      · exact hall g hg

end

-- ------------------------------------------------------------------------------------------------------
-- C08 with oneof groups at every position: the statement

/-- the judgement for a whole plan object of message `m` -/
def PlanObj3 (X : String → TfVal → Prop) (m : Msg) (plan : TfVal) : Prop :=
  ∃ u n as atys, plan = .obj u n as (some atys) ∧ (u = false → n = false) ∧
    PlanOKs3 X m.fields (as.getD []) atys ∧ KeysOK X m.fields (as.getD [])

/-- **C08, apply echo, with oneof groups** (same conclusion as `C08_echo`): for a plan object satisfying `PlanObj3` – the
plain tree plus scalar and message branches of oneof groups, of each group at most one branch attribute not null –
* `CopyFrom(plan)` into a fresh struct succeeds without diagnostics (`s1`),
* `CopyTo(s1)` into the plan object itself succeeds without diagnostics (`e`),
* a second `CopyFrom(e)` into a fresh struct succeeds without diagnostics (`s2`),
* nothing is unknown in `e` at any depth, every attribute that was known in the plan is unchanged in `e`, and `s2`
  equals `s1` in normal form. -/
theorem C08_echo_oneof3 (X : String → TfVal → Prop) (ov : List (String × String)) (m : Msg) (plan : TfVal) (skN skE : List String)
    (hX : ExtraOK X skN skE) (hp : PlanObj3 X m plan) :
    ∃ s1 e s2, copyFrom ov m plan (.struct []) = .ok s1 ∧ s1.diags = [] ∧
      copyTo m s1.obj plan = .ok e ∧ e.diags = [] ∧
      copyFrom ov m e.tf (.struct []) = .ok s2 ∧ s2.diags = [] ∧
      noUnknownDeep skN e.tf = true ∧ echoKeeps skE plan e.tf = true ∧ nfEqFields m.fields s1.obj s2.obj = true := by
  obtain ⟨u, n, as, atys, rfl, hun, hP, hkeys⟩ := hp
  -- first decode
  obtain ⟨o, hrun1, hso, _, _, hE⟩ := decFields3 X ov m.fields as { obj := resetOneOfs m.info.oneOfNames (.struct []) } atys hP
    (isStruct_resetOneOfs _ _ trivial)
    (fun g _ _ => activePayload_init g.info _ (initNone_reset _ _ (.struct []) trivial (initNone_empty _)))
  -- echo
  obtain ⟨st', hrun2, hd2, _, hk', hframe', hall⟩ :=
    echoFields3 X ov skN skE hX m.fields o atys (as.getD []) { attrs := as.getD [] } hE (fun _ _ => rfl)
  -- second decode
  obtain ⟨o2, hrun3, _, hnf⟩ := secondAll3 X ov m.fields (as.getD []) atys o st'.attrs hE
    (fun g hg => by
      obtain ⟨a', v', hla', hlv', hev'⟩ := hall g hg
      exact ⟨a', v', hla', hlv', hev'.2.2.2⟩)
    { obj := resetOneOfs m.info.oneOfNames (.struct []) } (isStruct_resetOneOfs _ _ trivial)
    (fun g => initNone_reset _ g (.struct []) trivial (initNone_empty g))
  obtain ⟨hkn, hkeep⟩ := echo_attrs3 X ov skN skE hX m.fields o (as.getD []) st'.attrs hkeys hk' hframe' hall
  refine ⟨{ obj := o, diags := [], hooks := [] },
    { tf := .obj false false (some st'.attrs) (some atys), diags := st'.diags, hooks := st'.hooks },
    { obj := o2, diags := [], hooks := [] }, ?_, rfl, ?_, ?_, ?_, rfl, ?_, ?_, hnf⟩
  · simp [copyFrom, hrun1]
  · simp [copyTo, hrun2]
  · simpa using hd2
  · simp [copyFrom, hrun3]
  · simp only [noUnknownDeep, Bool.not_false, Bool.true_and]
    exact hkn
  · cases u with
    | true => cases as <;> simp [echoKeeps]
    | false =>
      have := hun rfl
      subst this
      cases as with
      | none => simp [echoKeeps]
      | some l =>
        simp only [echoKeeps, Bool.false_eq_true, if_false, beq_self_eq_true, Bool.true_and, Bool.false_or, Option.getD_some]
        exact hkeep

/-- **C08 with oneof groups in the shape of `PGT.Props.C08.C08_full`**: whatever the three calls return, they return no
diagnostic and the executable statement `Spec.c08Check` holds. -/
theorem C08_echo_oneof3_check (X : String → TfVal → Prop) (ov : List (String × String)) (m : Msg) (plan : TfVal)
    (s1 : FromResult) (e : ToResult) (s2 : FromResult)
    (hX : ExtraOK X (injectedNames m.fields m.info.injected ++ customNames m.fields) (customNames m.fields))
    (hp : PlanObj3 X m plan)
    (h1 : copyFrom ov m plan (.struct []) = .ok s1) (h2 : copyTo m s1.obj plan = .ok e)
    (h3 : copyFrom ov m e.tf (.struct []) = .ok s2) :
    s1.diags = [] ∧ e.diags = [] ∧ s2.diags = [] ∧ c08Check m plan s1.obj e.tf s2.obj = true := by
  obtain ⟨s1', e', s2', h1', hd1, h2', hd2, h3', hd3, hkn, hkeep, hnf⟩ :=
    C08_echo_oneof3 X ov m plan (injectedNames m.fields m.info.injected ++ customNames m.fields) (customNames m.fields) hX hp
  rw [h1] at h1'
  injection h1' with h1'
  subst h1'
  rw [h2] at h2'
  injection h2' with h2'
  subst h2'
  rw [h3] at h3'
  injection h3' with h3'
  subst h3'
  refine ⟨hd1, hd2, hd3, ?_⟩
  simp [c08Check, hkn, hkeep, hnf]

-- ------------------------------------------------------------------------------------------------------
-- the neighbours of the judgement: `PlanOKs2 → PlanOKs3`, and `PlanOKsD → PlanOKs3` under the IR condition `ElemsFreshs`

mutual
theorem planOK2_planOK3 (X : String → TfVal → Prop) : ∀ (f : Field) (a : TfVal) (ty : TfTy), PlanOK2 X f a ty → PlanOK3 X f a ty
  | ⟨info, mv, msg, sub⟩, a, ty, h => by
    unfold PlanOK2 at h
    unfold PlanOK3
    rcases h with hp | ⟨he, hph, hk, hem, hvt, hsub, hcase⟩ | ⟨ho, he, hph, hk, hn, k, u, n, p, rfl, rfl, hvt, hir, hleaf⟩
    · exact Or.inl hp
    · refine Or.inr (Or.inl ⟨he, hph, hk, emptyOK_of_nonEmpty msg sub hem, hvt, hsub, ?_⟩)
      rcases hcase with ⟨ho, as, tys, rfl, rfl, hP, hkeys⟩ | ⟨ho, hn, u, n, as, tys, rfl, rfl, hkn, hunk⟩
      · exact Or.inl ⟨ho, as, tys, rfl, rfl, planOKs2_planOKs3 X sub _ tys hP, hkeys⟩
      · exact Or.inr (Or.inr ⟨ho, hn, u, n, as, tys, rfl, rfl,
          fun h => ⟨planOKs2_planOKs3 X sub _ tys (hkn h).1, (hkn h).2⟩, hunk⟩)
    · exact Or.inr (Or.inr (Or.inl ⟨ho, he, hph, hk, k, u, n, p, rfl, rfl, hvt, hir, hleaf⟩))

theorem planOKs2_planOKs3 (X : String → TfVal → Prop) : ∀ (fs : List Field) (A : List (String × TfVal)) (atys : List (String × TfTy)),
    PlanOKs2 X fs A atys → PlanOKs3 X fs A atys
  | [], _, _, _ => trivial
  | f :: rest, A, atys, h => by
    unfold PlanOKs2 at h
    obtain ⟨⟨a, ty, hla, hlt, hp⟩, h1, h2, h3, hrest⟩ := h
    unfold PlanOKs3
    exact ⟨⟨a, ty, hla, hlt, planOK2_planOK3 X f a ty hp⟩, h1, h2, h3, planOKs2_planOKs3 X rest A atys hrest⟩
end

/-- `C08_echo_oneof` is an instance of `C08_echo_oneof3` -/
theorem planObj2_planObj3 (X : String → TfVal → Prop) (m : Msg) (plan : TfVal) (h : PlanObj2 X m plan) : PlanObj3 X m plan := by
  obtain ⟨u, n, as, atys, rfl, hun, hP, hkeys⟩ := h
  exact ⟨u, n, as, atys, rfl, hun, planOKs2_planOKs3 X _ _ _ hP, hkeys⟩

mutual
/-- IR only: at every depth, the element message of a list / map of messages satisfies `FreshIRs` -/
def ElemsFresh : Field → Prop
  | ⟨info, _, _, sub⟩ => ((info.kind = .objectList ∨ info.kind = .objectMap) → FreshIRs sub) ∧ ElemsFreshs sub
def ElemsFreshs : List Field → Prop
  | [] => True
  | f :: rest => ElemsFresh f ∧ ElemsFreshs rest
end

mutual
theorem planOKD_planOK3 (X : String → TfVal → Prop) : ∀ (f : Field) (a : TfVal) (ty : TfTy), ElemsFresh f → PlanOKD X f a ty →
    PlanOK3 X f a ty
  | ⟨info, mv, msg, sub⟩, a, ty, hF, h => by
    unfold ElemsFresh at hF
    obtain ⟨hFe, hFs⟩ := hF
    unfold PlanOKD at h
    obtain ⟨he, hphk, hem, h⟩ := h
    unfold PlanOK3
    cases hk : info.kind with
    | custom => simp only [hk] at h
    | primitive =>
      simp only [hk] at h
      obtain ⟨k, u, n, p, rfl, rfl, hvk, hcase⟩ := h
      by_cases ho : info.oneOfName = ""
      · left
        unfold PlanOK
        refine ⟨ho, he, fun hp => (hphk hp).1, hem, ?_⟩
        simp only [hk]
        exact ⟨k, u, n, p, rfl, rfl, hvk, hcase⟩
      · have hph : info.isPlaceholder = false := by
          cases hp : info.isPlaceholder with
          | false => rfl
          | true => exact absurd (hphk hp).2 ho
        rcases hcase with hp | ⟨hvt, hir, hleaf⟩
        · rw [hph] at hp; cases hp
        · exact Or.inr (Or.inr (Or.inl ⟨ho, he, hph, rfl, k, u, n, p, rfl, rfl, hvt, hir, hleaf⟩))
    | object =>
      simp only [hk] at h
      obtain ⟨u, n, as, tys, rfl, rfl, hvt, hsub, hbn, hkn, hunk⟩ := h
      have hph : info.isPlaceholder = false := by
        cases hp : info.isPlaceholder with
        | false => rfl
        | true => have := (hphk hp).1; rw [hk] at this; cases this
      by_cases ho : info.oneOfName = ""
      · by_cases hknown : known u n = true
        · have hun : u = false ∧ n = false := by cases u <;> cases n <;> simp [known] at hknown ⊢
          obtain ⟨rfl, rfl⟩ := hun
          obtain ⟨hP, hkeys⟩ := hkn hknown
          exact Or.inr (Or.inl ⟨he, hph, rfl, hem, hvt, hsub,
            Or.inl ⟨ho, as, tys, rfl, rfl, planOKsD_planOKs3 X sub _ tys hFs hP, hkeys⟩⟩)
        · have hknown' : known u n = false := by simpa using hknown
          obtain ⟨has, hz⟩ := hunk hknown'
          by_cases hn : info.isNullable = true
          · left
            unfold PlanOK
            refine ⟨ho, he, fun hp => (hphk hp).1, hem, ?_⟩
            simp only [hk]
            exact ⟨u, n, as, tys, rfl, rfl, hvt, hsub, fun h => absurd h hknown,
              fun _ => ⟨has, fun h => by rw [hn] at h; cases h⟩⟩
          · have hn' : info.isNullable = false := by simpa using hn
            obtain ⟨hzT, hzR⟩ := hz hn'
            exact Or.inr (Or.inl ⟨he, hph, rfl, hem, hvt, hsub,
              Or.inr (Or.inl ⟨ho, hn', u, n, as, tys, rfl, rfl, hknown', has, hzT, rt2oks_rt4oks _ _ hzR⟩)⟩)
      · exact Or.inr (Or.inl ⟨he, hph, rfl, hem, hvt, hsub, Or.inr (Or.inr ⟨ho, hbn ho, u, n, as, tys, rfl, rfl,
          fun h => ⟨planOKsD_planOKs3 X sub _ tys hFs (hkn h).1, (hkn h).2⟩, fun h => (hunk h).1⟩)⟩)
    | primitiveList =>
      simp only [hk] at h
      obtain ⟨ho, h⟩ := h
      left
      unfold PlanOK
      refine ⟨ho, he, fun hp => (hphk hp).1, hem, ?_⟩
      simp only [hk]
      exact h
    | primitiveMap =>
      simp only [hk] at h
      obtain ⟨ho, h⟩ := h
      left
      unfold PlanOK
      refine ⟨ho, he, fun hp => (hphk hp).1, hem, ?_⟩
      simp only [hk]
      exact h
    | objectList =>
      simp only [hk] at h
      obtain ⟨ho, u, n, es, et, tys, rfl, rfl, hvt, hevk, hrep, hsub, hne, hel, hnull⟩ := h
      have hph : info.isPlaceholder = false := by
        cases hp : info.isPlaceholder with
        | false => rfl
        | true => have := (hphk hp).1; rw [hk] at this; cases this
      refine Or.inr (Or.inr (Or.inr (Or.inl ⟨ho, he, hph, rfl, hem, hFe (Or.inl hk), u, n, es, et, tys, rfl, rfl, hvt, hevk, hrep,
        hsub, hne, ?_, hnull⟩)))
      intro hknown e hee
      obtain ⟨u', n', as, tys', rfl, h1, h2⟩ := hel hknown e hee
      exact ⟨u', n', as, tys', rfl, fun h => planOKsD_planOKs3 X sub _ tys hFs (h1 h),
        fun h h' => ⟨(h2 h h').1, rt2oks_rt4oks _ _ (h2 h h').2⟩⟩
    | objectMap =>
      simp only [hk] at h
      obtain ⟨ho, u, n, es, et, tys, rfl, rfl, hvt, hevk, hmvk, hrep, hsub, hne, hnd, hel, hnull⟩ := h
      have hph : info.isPlaceholder = false := by
        cases hp : info.isPlaceholder with
        | false => rfl
        | true => have := (hphk hp).1; rw [hk] at this; cases this
      refine Or.inr (Or.inr (Or.inr (Or.inr ⟨ho, he, hph, rfl, hem, hFe (Or.inr hk), u, n, es, et, tys, rfl, rfl, hvt, hevk, hmvk,
        hrep, hsub, hne, hnd, ?_, hnull⟩)))
      intro hknown e hee
      obtain ⟨u', n', as, tys', he2, h1, h2⟩ := hel hknown e hee
      exact ⟨u', n', as, tys', he2, fun h => planOKsD_planOKs3 X sub _ tys hFs (h1 h),
        fun h h' => ⟨(h2 h h').1, rt2oks_rt4oks _ _ (h2 h h').2⟩⟩

theorem planOKsD_planOKs3 (X : String → TfVal → Prop) : ∀ (fs : List Field) (A : List (String × TfVal)) (atys : List (String × TfTy)),
    ElemsFreshs fs → PlanOKsD X fs A atys → PlanOKs3 X fs A atys
  | [], _, _, _, _ => trivial
  | f :: rest, A, atys, hF, h => by
    unfold ElemsFreshs at hF
    unfold PlanOKsD at h
    obtain ⟨⟨a, ty, hla, hlt, hp⟩, h1, h2, h3, hrest⟩ := h
    unfold PlanOKs3
    exact ⟨⟨a, ty, hla, hlt, planOKD_planOK3 X f a ty hF.1 hp⟩, h1, h2, h3, planOKsD_planOKs3 X rest A atys hF.2 hrest⟩
end

/-- **The corrected statement at full strength.** The conclusion of `C08_echo_oneof_full` for plans satisfying `PlanOKsD`
– oneof groups at every position – holds for every IR satisfying `ElemsFreshs`: below the element message of a list / map
of messages every scalar branch is held by pointer or has a zero literal. Without that condition the statement is false
(`C08_echo_oneof_full_false`: a scalar branch held by value without a zero literal). -/
theorem C08_echo_oneof_deep (X : String → TfVal → Prop) (ov : List (String × String)) (m : Msg) (plan : TfVal)
    (skN skE : List String) (hX : ExtraOK X skN skE) (hIR : ElemsFreshs m.fields)
    (hp : ∃ u n as atys, plan = .obj u n as (some atys) ∧ (u = false → n = false) ∧
      PlanOKsD X m.fields (as.getD []) atys ∧ KeysOK X m.fields (as.getD [])) :
    ∃ s1 e s2, copyFrom ov m plan (.struct []) = .ok s1 ∧ s1.diags = [] ∧
      copyTo m s1.obj plan = .ok e ∧ e.diags = [] ∧
      copyFrom ov m e.tf (.struct []) = .ok s2 ∧ s2.diags = [] ∧
      noUnknownDeep skN e.tf = true ∧ echoKeeps skE plan e.tf = true ∧ nfEqFields m.fields s1.obj s2.obj = true := by
  obtain ⟨u, n, as, atys, rfl, hun, hP, hkeys⟩ := hp
  exact C08_echo_oneof3 X ov m _ skN skE hX ⟨u, n, as, atys, rfl, hun, planOKsD_planOKs3 X _ _ _ hIR hP, hkeys⟩

/-- the corrected statement, as a proposition next to `C08_echo_oneof_full` -/
def C08_echo_oneof_full_corrected : Prop :=
  ∀ (X : String → TfVal → Prop) (ov : List (String × String)) (m : Msg) (plan : TfVal) (skN skE : List String),
    ExtraOK X skN skE → ElemsFreshs m.fields →
    (∃ u n as atys, plan = .obj u n as (some atys) ∧ (u = false → n = false) ∧
      PlanOKsD X m.fields (as.getD []) atys ∧ KeysOK X m.fields (as.getD [])) →
    ∃ s1 e s2, copyFrom ov m plan (.struct []) = .ok s1 ∧ s1.diags = [] ∧
      copyTo m s1.obj plan = .ok e ∧ e.diags = [] ∧
      copyFrom ov m e.tf (.struct []) = .ok s2 ∧ s2.diags = [] ∧
      noUnknownDeep skN e.tf = true ∧ echoKeeps skE plan e.tf = true ∧ nfEqFields m.fields s1.obj s2.obj = true

theorem C08_echo_oneof_full_corrected_holds : C08_echo_oneof_full_corrected :=
  fun X ov m plan skN skE hX hIR hp => C08_echo_oneof_deep X ov m plan skN skE hX hIR hp

-- ------------------------------------------------------------------------------------------------------
-- `C08_echo_oneof_full` is false: the witness satisfies `PlanOKsD`

namespace EchoOneofDeepWitness
open EchoExample EchoOneofExample

theorem brNoZero_rep : brNoZero.rep = .str := by
  simp only [FieldInfo.rep, brNoZero, brStr, strField, rep_string]

theorem brNoZero_castTo (v : List UInt8) : brNoZero.castTo (.str v) = some (.str v) := by
  simp only [FieldInfo.castTo, brNoZero_rep]
  simp only [brNoZero, brStr, strField, rep_string, conv]

theorem brNoZero_castFrom (v : List UInt8) : brNoZero.castFrom .string (.str v) = some (.str v) := by
  simp only [FieldInfo.castFrom, brNoZero_rep, PrimK.rep, conv]

/-- the branch without a zero literal satisfies the scalar hypotheses of the judgement -/
theorem brNoZero_ir : ScalarIR brNoZero .string where
  rt := primRT_of_row _ .string vk_string (by rw [brNoZero_rep]; rfl) (by rw [brNoZero_rep]; exact rep_string)
    (by rw [brNoZero_rep]; decide) (by intro h; cases h)
  nullZero := by intro h; cases h
  cast := by
    intro _ s hs
    rw [brNoZero_rep] at hs
    cases s <;> simp [C19.HasRep] at hs
    rename_i v
    refine ⟨.str v, brNoZero_castTo v, ?_⟩
    intro h
    exact absurd rfl h

theorem brNoZero_leaf (u n : Bool) (v : List UInt8) (hnull : u = false → n = true → v = []) :
    LeafOK brNoZero .string u n (.str v) where
  castable := fun _ => ⟨.str v, brNoZero_castFrom v⟩
  range := by
    intro _ _ c hc
    rw [brNoZero_castFrom] at hc
    injection hc with hc
    subst hc
    exact brNoZero_castTo v
  rangePtr := by intro _ h; cases h
  nullPayload := by
    intro hu hn _
    rw [hnull hu hn, brNoZero_rep]
    exact brNoZero_castTo []

theorem items_okD : PlanOKsD NoExtra itemFields
    [("m", .obj false false (some [("c", .prim .string false false (.str [120]))]) (some innerTys)),
     ("t", .prim .string false true (.str []))] itemTys := by
  unfold itemFields PlanOKsD
  refine ⟨⟨_, .obj (some innerTys), by rfl, by rfl, ?_⟩, by decide, ?_, ?_, ?_⟩
  · unfold fM PlanOKD
    refine ⟨rfl, (fun h => by cases h), (fun h => by cases h), ?_⟩
    refine ⟨false, false, _, innerTys, rfl, rfl, vk_object, by decide, fun _ => rfl, ?_, by intro h; cases h⟩
    intro _
    refine ⟨?_, by decide, ?_⟩
    · simp only [Option.getD_some]
      unfold inner PlanOKsD
      refine ⟨⟨.prim .string false false (.str [120]), .prim .string, by rfl, by rfl, ?_⟩, by decide, by simp, by simp, trivial⟩
      unfold PlanOKD
      refine ⟨rfl, (fun h => by cases h), emptyOK_none [], ?_⟩
      exact ⟨.string, false, false, .str [120], rfl, rfl, vk_string,
        Or.inr ⟨vk_string, strField_ir "C" "c", strField_leaf "C" "c" false false [120] (by intro _ h; cases h)⟩⟩
    · intro kv hkv
      simp only [Option.getD_some, List.mem_singleton] at hkv
      subst hkv
      exact Or.inl (by decide)
  · intro g hg
    simp only [List.mem_cons, List.mem_nil_iff, or_false] at hg
    subst hg
    unfold SepOK
    decide
  · intro g hg
    simp only [List.mem_cons, List.mem_nil_iff, or_false] at hg
    subst hg
    decide
  unfold PlanOKsD
  refine ⟨⟨.prim .string false true (.str []), .prim .string, by rfl, by rfl, ?_⟩, by decide, by simp, by simp, trivial⟩
  unfold fT PlanOKD
  refine ⟨rfl, (fun h => by cases h), emptyOK_none [], ?_⟩
  exact ⟨.string, false, true, .str [], rfl, rfl, vk_string,
    Or.inr ⟨vk_string, brNoZero_ir, brNoZero_leaf false true [] (fun _ _ => rfl)⟩⟩

theorem vk_list : vkindOf "types.List" = .list := by decide

/-- the plan of the witness satisfies the hypothesis of `C08_echo_oneof_full` -/
theorem planW_okD : ∃ u n as atys, planW = .obj u n as (some atys) ∧ (u = false → n = false) ∧
    PlanOKsD NoExtra msgW.fields (as.getD []) atys ∧ KeysOK NoExtra msgW.fields (as.getD []) := by
  refine ⟨false, false, _, atysW, rfl, fun _ => rfl, ?_, ?_⟩
  · unfold msgW
    simp only [Option.getD_some]
    unfold PlanOKsD
    refine ⟨⟨_, .list (some (.obj (some itemTys))), by rfl, by rfl, ?_⟩, by decide, by simp, by simp, trivial⟩
    unfold fItems PlanOKD
    refine ⟨rfl, (fun h => by cases h), (fun h => by cases h), ?_⟩
    refine ⟨rfl, false, false, _, _, itemTys, rfl, rfl, vk_list, vk_object, rfl, by decide, rfl, ?_, (by intro _ h; cases h)⟩
    intro _ e he
    simp only [Option.getD_some, List.mem_singleton] at he
    subst he
    refine ⟨false, false, _, _, rfl, fun _ => ?_, fun h => by cases h⟩
    simp only [Option.getD_some]
    exact items_okD
  · refine ⟨by decide, ?_⟩
    intro kv hkv
    simp only [Option.getD_some, List.mem_singleton] at hkv
    subst hkv
    exact Or.inl (by decide)

/-- the IR of the witness violates the condition of the corrected statement: the branch `T` has no zero literal -/
theorem witness_not_fresh : ¬ ElemsFreshs msgW.fields := by
  intro h
  unfold msgW ElemsFreshs at h
  have h1 := h.1
  unfold fItems ElemsFresh at h1
  have h2 := h1.1 (Or.inl rfl)
  unfold itemFields FreshIRs at h2
  have h3 := h2.2
  unfold FreshIRs at h3
  have h4 := h3.1
  unfold fT FreshIR at h4
  rcases (h4.1 (by decide) rfl).1 with h5 | h5
  · cases h5
  · exact h5 rfl

/-- the condition is sufficient, not necessary: with the branch `T` declared *before* the message branch the same plan
passes – the second decode reads `T` first and `M` overwrites the holder -/
def msgW' : Msg :=
  { info := { name := "W" },
    fields := [⟨listInfo, none, some { name := "Item", oneOfNames := ["Choice"] }, [fT, fM]⟩] }

theorem reversed_order_ok : run3 msgW' planW = some (true, true, true) := by decide +kernel

end EchoOneofDeepWitness

/-- **`C08_echo_oneof_full` is false.** Witness: a list of messages whose element message has the group `Choice` with a
message branch `M` and, declared after it, a `string` branch `T` held by value whose Terraform type has no zero literal
(`ScalarIR` does not ask for one). The plan's single element chooses `M`; `t` is null. The plan satisfies `PlanOKsD`
(`planW_okD`). The three calls return no diagnostic and nothing is unknown, but the elements of a list are rendered from
scratch: without a zero literal the attribute `t` of the inactive branch is rendered **not null** (zero payload), the
second decode reads `T` after `M`, the holder switches, `nfEqFields` is false (`witness_fails`, by `decide`). -/
theorem C08_echo_oneof_full_false : ¬ C08_echo_oneof_full := by
  intro h
  obtain ⟨s1, e, s2, h1, _, h2, _, h3, _, _, _, hnf⟩ :=
    h NoExtra [] EchoOneofDeepWitness.msgW EchoOneofDeepWitness.planW [] [] (extraOK_none [] []) EchoOneofDeepWitness.planW_okD
  have hw := EchoOneofDeepWitness.witness_fails
  unfold EchoOneofExample.run3 at hw
  rw [h1] at hw
  simp only at hw
  rw [h2] at hw
  simp only at hw
  rw [h3] at hw
  simp only at hw
  injection hw with hw
  injection hw with _ hw
  injection hw with _ hw
  rw [hnf] at hw
  cases hw

-- ------------------------------------------------------------------------------------------------------
-- non-vacuity: a list of messages whose element message has a oneof group; two elements choosing different branches

namespace EchoOneofDeepExample
open EchoExample EchoOneofExample

/-- the element message: the group `Choice` of the string branch `S` (by value, zero literal `""`) and the message branch `M` -/
def itemFields : List Field := [fS, fM]

def fItems : Field :=
  ⟨EchoOneofDeepWitness.listInfo, none, some { name := "Item", oneOfNames := ["Choice"] }, itemFields⟩

/-- a message with a plain field and a list of messages with a oneof group -/
def msgL : Msg := { info := { name := "L" }, fields := [fName, fItems] }

def itemTys : List (String × TfTy) := [("s", .prim .string), ("m", .obj (some innerTys))]

def atysL : List (String × TfTy) := [("name", .prim .string), ("items", .list (some (.obj (some itemTys))))]

/-- the first element chooses the message branch `m` (`s` is null) -/
def elem1 : TfVal :=
  .obj false false
    (some [("s", .prim .string false true (.str [])),
           ("m", .obj false false (some [("c", .prim .string false false (.str [120]))]) (some innerTys))])
    (some itemTys)

/-- the second element chooses the string branch `s` = "hi" (`m` is null) -/
def elem2 : TfVal :=
  .obj false false
    (some [("s", .prim .string false false (.str [104, 105])),
           ("m", .obj false true (some []) (some innerTys))])
    (some itemTys)

def planL : TfVal :=
  .obj false false
    (some [("name", .prim .string false false (.str [110])),
           ("items", .list false false (some [elem1, elem2]) (some (.obj (some itemTys))))])
    (some atysL)

/-- the example on the executable definitions: no diagnostics, nothing unknown, second decode equal -/
theorem example_runs : run3 msgL planL = some (true, true, true) := by decide +kernel

/-- the branches (wrapper type, field name) the holders `Choice` of the elements of a decoded list carry -/
def elemBranches (v : Option GoVal) : List (Option (String × String)) :=
  match v with
  | some (.slice (some es)) =>
    es.map fun e => match e.field? "Choice" with
      | some (.iface (some (w, n, _))) => some (w, n)
      | _ => none
  | _ => []

/-- the two decoded elements hold different branches -/
theorem example_decodes :
    (match copyFrom [] msgL planL (.struct []) with
     | .ok s1 => elemBranches (s1.obj.field? "Items")
     | _ => []) = [some ("Ex_M", "M"), some ("Ex_S", "S")] := by decide +kernel

theorem items_fresh : FreshIRs itemFields := by
  unfold itemFields FreshIRs
  refine ⟨?_, ?_⟩
  · unfold fS FreshIR
    exact ⟨fun _ _ => ⟨Or.inr (by decide), emptyOK_none []⟩, trivial⟩
  unfold FreshIRs
  refine ⟨?_, trivial⟩
  unfold fM FreshIR
  refine ⟨(fun _ h => by simp [brMsg] at h), ?_⟩
  unfold inner FreshIRs
  refine ⟨?_, trivial⟩
  unfold FreshIR
  exact ⟨fun h => absurd rfl h, trivial⟩

theorem item_ok (us ns : Bool) (v : List UInt8) (hv : us = false → ns = true → v = []) (nm : Bool)
    (cs : List (String × TfVal))
    (hcs : known false nm = true → cs = [("c", .prim .string false false (.str [120]))])
    (hcn : known false nm = false → cs = [])
    (hex : ns = true ∨ nm = true) :
    PlanOKs3 NoExtra itemFields [("s", .prim .string us ns (.str v)), ("m", .obj false nm (some cs) (some innerTys))] itemTys := by
  unfold itemFields PlanOKs3
  refine ⟨⟨.prim .string us ns (.str v), .prim .string, by rfl, by rfl, ?_⟩, by decide, ?_, ?_, ?_⟩
  · unfold fS PlanOK3
    exact Or.inr (Or.inr (Or.inl ⟨by decide, rfl, rfl, rfl, .string, us, ns, .str v, rfl, rfl, vk_string,
      brStr_ir _ _ _ _, brStr_leaf _ _ _ _ us ns v hv⟩))
  · intro g hg
    simp only [List.mem_cons, List.mem_nil_iff, or_false] at hg
    subst hg
    unfold SepOK
    decide
  · intro g hg _ _
    simp only [List.mem_cons, List.mem_nil_iff, or_false] at hg
    subst hg
    rcases hex with rfl | rfl
    · left; simp [notNullAt, fS, brStr, strField, List.lookup, isNull]
    · right; simp [notNullAt, fM, brMsg, List.lookup, isNull]
  unfold PlanOKs3
  refine ⟨⟨.obj false nm (some cs) (some innerTys), .obj (some innerTys), by rfl, by rfl, ?_⟩, by decide, by simp, by simp, trivial⟩
  unfold fM PlanOK3
  refine Or.inr (Or.inl ⟨rfl, rfl, rfl, (fun h => by cases h), vk_object, by decide,
    Or.inr (Or.inr ⟨by decide, rfl, false, nm, _, innerTys, rfl, rfl, ?_, ?_⟩)⟩)
  · intro hk
    rw [hcs hk]
    refine ⟨?_, by decide, ?_⟩
    · simp only [Option.getD_some]
      unfold inner PlanOKs3
      refine ⟨⟨.prim .string false false (.str [120]), .prim .string, by rfl, by rfl, ?_⟩, by decide, by simp, by simp, trivial⟩
      unfold PlanOK3
      exact Or.inl (strField_plan NoExtra "C" "c" none false false [120] (by intro _ h; cases h))
    · intro kv hkv
      simp only [Option.getD_some, List.mem_singleton] at hkv
      subst hkv
      exact Or.inl (by decide)
  · intro hk
    rw [hcn hk]
    rfl

theorem plan_ok : PlanObj3 NoExtra msgL planL := by
  refine ⟨false, false, _, atysL, rfl, fun _ => rfl, ?_, ?_⟩
  · unfold msgL
    simp only [Option.getD_some]
    unfold PlanOKs3
    refine ⟨⟨.prim .string false false (.str [110]), .prim .string, by rfl, by rfl, ?_⟩, by decide, ?_, ?_, ?_⟩
    · unfold fName PlanOK3
      exact Or.inl (strField_plan NoExtra "Name" "name" none false false [110] (by intro _ h; cases h))
    · intro g hg
      simp only [List.mem_cons, List.mem_nil_iff, or_false] at hg
      subst hg
      unfold SepOK
      decide
    · intro g _ h
      exact absurd rfl h
    unfold PlanOKs3
    refine ⟨⟨_, .list (some (.obj (some itemTys))), by rfl, by rfl, ?_⟩, by decide, by simp, by simp, trivial⟩
    unfold fItems PlanOK3
    refine Or.inr (Or.inr (Or.inr (Or.inl ⟨rfl, rfl, rfl, rfl, (fun h => by cases h), items_fresh, false, false, _, _, itemTys, rfl, rfl,
      EchoOneofDeepWitness.vk_list, vk_object, rfl, by decide, rfl, ?_, (by intro _ h; cases h)⟩)))
    intro _ e he
    simp only [Option.getD_some, List.mem_cons, List.mem_nil_iff, or_false] at he
    rcases he with rfl | rfl
    · refine ⟨false, false, _, _, rfl, fun _ => ?_, fun h => by cases h⟩
      simp only [Option.getD_some]
      exact item_ok false true [] (fun _ _ => rfl) false _ (fun _ => rfl) (fun h => by cases h) (Or.inl rfl)
    · refine ⟨false, false, _, _, rfl, fun _ => ?_, fun h => by cases h⟩
      simp only [Option.getD_some]
      exact item_ok false false [104, 105] (fun _ h => by cases h) true _ (fun h => by cases h) (fun _ => rfl) (Or.inr rfl)
  · refine ⟨by decide, ?_⟩
    intro kv hkv
    simp only [Option.getD_some, List.mem_cons, List.mem_nil_iff, or_false] at hkv
    rcases hkv with rfl | rfl
    · exact Or.inl (by decide)
    · exact Or.inl (by decide)

/-- the main theorem applies to the example -/
theorem example_applies : ∃ s1 e s2, copyFrom [] msgL planL (.struct []) = .ok s1 ∧ s1.diags = [] ∧
    copyTo msgL s1.obj planL = .ok e ∧ e.diags = [] ∧
    copyFrom [] msgL e.tf (.struct []) = .ok s2 ∧ s2.diags = [] ∧
    noUnknownDeep [] e.tf = true ∧ echoKeeps [] planL e.tf = true ∧ nfEqFields msgL.fields s1.obj s2.obj = true :=
  C08_echo_oneof3 NoExtra [] msgL planL [] [] (extraOK_none [] []) plan_ok

end EchoOneofDeepExample

-- ------------------------------------------------------------------------------------------------------
-- non-vacuity of the extension to scalar branches held by pointer: a list of messages whose element message has a group
-- with a `*string` branch and a message branch; two elements choosing different branches

namespace EchoOneofDeepExamplePtr
open EchoExample EchoOneofExample

/-- a `string` branch held by pointer (no zero literal: null-ness is nil-ness) -/
def brPtr : FieldInfo :=
  { brStr "P" "p" "Choice" "types.Ex_P" with isNullable := true, tf := { (strField "P" "p").tf with zeroValue := "" } }

def fP : Field := ⟨brPtr, none, none, []⟩

theorem brPtr_rep : brPtr.rep = .str := by
  simp only [FieldInfo.rep, brPtr, brStr, strField, rep_string]

theorem brPtr_castFrom (v : List UInt8) : brPtr.castFrom .string (.str v) = some (.str v) := by
  simp only [FieldInfo.castFrom, brPtr_rep, PrimK.rep, conv]

theorem brPtr_ir : ScalarIR brPtr .string where
  rt := primRT_of_row _ .string vk_string (by rw [brPtr_rep]; rfl) (by rw [brPtr_rep]; exact rep_string)
    (by rw [brPtr_rep]; decide) (by intro _; rw [brPtr_rep]; rfl)
  nullZero := fun _ => rfl
  cast := by intro h; cases h

theorem brPtr_leaf (u n : Bool) (v : List UInt8) : LeafOK brPtr .string u n (.str v) where
  castable := fun _ => ⟨.str v, brPtr_castFrom v⟩
  range := by intro _ h; cases h
  rangePtr := fun _ _ => brPtr_castFrom v
  nullPayload := by intro _ _ h; cases h

def itemFields : List Field := [fP, fM]

def fItems : Field :=
  ⟨EchoOneofDeepWitness.listInfo, none, some { name := "Item", oneOfNames := ["Choice"] }, itemFields⟩

def msgP : Msg := { info := { name := "L" }, fields := [fItems] }

def itemTys : List (String × TfTy) := [("p", .prim .string), ("m", .obj (some innerTys))]

def atysP : List (String × TfTy) := [("items", .list (some (.obj (some itemTys))))]

/-- the first element chooses the pointer branch `p` = "hi" (`m` is null); the second chooses `m` (`p` is null) -/
def planP : TfVal :=
  .obj false false
    (some [("items", .list false false
      (some [.obj false false
               (some [("p", .prim .string false false (.str [104, 105])), ("m", .obj false true (some []) (some innerTys))])
               (some itemTys),
             .obj false false
               (some [("p", .prim .string false true (.str [])),
                      ("m", .obj false false (some [("c", .prim .string false false (.str [120]))]) (some innerTys))])
               (some itemTys)])
      (some (.obj (some itemTys))))])
    (some atysP)

theorem example_runs : run3 msgP planP = some (true, true, true) := by decide +kernel

theorem example_decodes :
    (match copyFrom [] msgP planP (.struct []) with
     | .ok s1 => EchoOneofDeepExample.elemBranches (s1.obj.field? "Items")
     | _ => []) = [some ("Ex_P", "P"), some ("Ex_M", "M")] := by decide +kernel

theorem items_fresh : FreshIRs itemFields := by
  unfold itemFields FreshIRs
  refine ⟨?_, ?_⟩
  · unfold fP FreshIR
    exact ⟨fun _ _ => ⟨Or.inl rfl, emptyOK_none []⟩, trivial⟩
  unfold FreshIRs
  refine ⟨?_, trivial⟩
  unfold fM FreshIR
  refine ⟨(fun _ h => by simp [brMsg] at h), ?_⟩
  unfold inner FreshIRs
  refine ⟨?_, trivial⟩
  unfold FreshIR
  exact ⟨fun h => absurd rfl h, trivial⟩

theorem item_ok (us ns : Bool) (v : List UInt8) (nm : Bool) (cs : List (String × TfVal))
    (hcs : known false nm = true → cs = [("c", .prim .string false false (.str [120]))])
    (hcn : known false nm = false → cs = [])
    (hex : ns = true ∨ nm = true) :
    PlanOKs3 NoExtra itemFields [("p", .prim .string us ns (.str v)), ("m", .obj false nm (some cs) (some innerTys))] itemTys := by
  unfold itemFields PlanOKs3
  refine ⟨⟨.prim .string us ns (.str v), .prim .string, by rfl, by rfl, ?_⟩, by decide, ?_, ?_, ?_⟩
  · unfold fP PlanOK3
    exact Or.inr (Or.inr (Or.inl ⟨by decide, rfl, rfl, rfl, .string, us, ns, .str v, rfl, rfl, vk_string,
      brPtr_ir, brPtr_leaf us ns v⟩))
  · intro g hg
    simp only [List.mem_cons, List.mem_nil_iff, or_false] at hg
    subst hg
    unfold SepOK
    decide
  · intro g hg _ _
    simp only [List.mem_cons, List.mem_nil_iff, or_false] at hg
    subst hg
    rcases hex with rfl | rfl
    · left; simp [notNullAt, fP, brPtr, brStr, strField, List.lookup, isNull]
    · right; simp [notNullAt, fM, brMsg, List.lookup, isNull]
  unfold PlanOKs3
  refine ⟨⟨.obj false nm (some cs) (some innerTys), .obj (some innerTys), by rfl, by rfl, ?_⟩, by decide, by simp, by simp, trivial⟩
  unfold fM PlanOK3
  refine Or.inr (Or.inl ⟨rfl, rfl, rfl, (fun h => by cases h), vk_object, by decide,
    Or.inr (Or.inr ⟨by decide, rfl, false, nm, _, innerTys, rfl, rfl, ?_, ?_⟩)⟩)
  · intro hk
    rw [hcs hk]
    refine ⟨?_, by decide, ?_⟩
    · simp only [Option.getD_some]
      unfold inner PlanOKs3
      refine ⟨⟨.prim .string false false (.str [120]), .prim .string, by rfl, by rfl, ?_⟩, by decide, by simp, by simp, trivial⟩
      unfold PlanOK3
      exact Or.inl (strField_plan NoExtra "C" "c" none false false [120] (by intro _ h; cases h))
    · intro kv hkv
      simp only [Option.getD_some, List.mem_singleton] at hkv
      subst hkv
      exact Or.inl (by decide)
  · intro hk
    rw [hcn hk]
    rfl

theorem plan_ok : PlanObj3 NoExtra msgP planP := by
  refine ⟨false, false, _, atysP, rfl, fun _ => rfl, ?_, ?_⟩
  · unfold msgP
    simp only [Option.getD_some]
    unfold PlanOKs3
    refine ⟨⟨_, .list (some (.obj (some itemTys))), by rfl, by rfl, ?_⟩, by decide, by simp, by simp, trivial⟩
    unfold fItems PlanOK3
    refine Or.inr (Or.inr (Or.inr (Or.inl ⟨rfl, rfl, rfl, rfl, (fun h => by cases h), items_fresh, false, false, _, _, itemTys, rfl, rfl,
      EchoOneofDeepWitness.vk_list, vk_object, rfl, by decide, rfl, ?_, (by intro _ h; cases h)⟩)))
    intro _ e he
    simp only [Option.getD_some, List.mem_cons, List.mem_nil_iff, or_false] at he
    rcases he with rfl | rfl
    · refine ⟨false, false, _, _, rfl, fun _ => ?_, fun h => by cases h⟩
      simp only [Option.getD_some]
      exact item_ok false false [104, 105] true _ (fun h => by cases h) (fun _ => rfl) (Or.inr rfl)
    · refine ⟨false, false, _, _, rfl, fun _ => ?_, fun h => by cases h⟩
      simp only [Option.getD_some]
      exact item_ok false true [] false _ (fun _ => rfl) (fun h => by cases h) (Or.inl rfl)
  · refine ⟨by decide, ?_⟩
    intro kv hkv
    simp only [Option.getD_some, List.mem_singleton] at hkv
    subst hkv
    exact Or.inl (by decide)

/-- the main theorem applies to the example -/
theorem example_applies : ∃ s1 e s2, copyFrom [] msgP planP (.struct []) = .ok s1 ∧ s1.diags = [] ∧
    copyTo msgP s1.obj planP = .ok e ∧ e.diags = [] ∧
    copyFrom [] msgP e.tf (.struct []) = .ok s2 ∧ s2.diags = [] ∧
    noUnknownDeep [] e.tf = true ∧ echoKeeps [] planP e.tf = true ∧ nfEqFields msgP.fields s1.obj s2.obj = true :=
  C08_echo_oneof3 NoExtra [] msgP planP [] [] (extraOK_none [] []) plan_ok

end EchoOneofDeepExamplePtr

end PGT
