import PGT.Proofs.FromFrame
/-
C05, first clause: for any Terraform object that *conforms* to the schema – every attribute present and of the right Go
type, nulls and unknowns allowed anywhere, any payload under them – CopyFrom returns no diagnostic (and does not get
stuck on an unmodelled cast). Every template (also oneof branches, children of embedded messages, custom types), every depth.
-/
namespace PGT

mutual
/-- the attribute value `a` conforms to field `f`: the Go type the emitted assertion expects; known values of scalars can be
cast; known objects hold conforming attributes for all fields of the nested message; elements of known lists / maps conform -/
def Conforms : Field → TfVal → Prop
  | ⟨info, mapVal, msg, sub⟩, a =>
    match info.kind with
    | .custom => True
    | .primitive =>
      ∃ k u n p, a = .prim k u n p ∧ vkindOf info.tf.valueType = .prim k ∧
        (known u n = true → ∃ c, info.castFrom k p = some c)
    | .object =>
      ∃ u n as tys, a = .obj u n as tys ∧ vkindOf info.tf.valueType = .obj ∧
        (known u n = true → isEmptyMsg msg = false → ConformsAttrs sub (as.getD []))
    | .primitiveList =>
      ∃ u n es et, a = .list u n es et ∧ vkindOf info.tf.valueType = .list ∧
        (known u n = true → ∀ e ∈ es.getD [], ∃ k u' n' p, e = .prim k u' n' p ∧ vkindOf info.tf.elemValueType = .prim k ∧
          (known u' n' = true → ∃ c, info.castFrom k p = some c))
    | .objectList =>
      ∃ u n es et, a = .list u n es et ∧ vkindOf info.tf.valueType = .list ∧
        (known u n = true → ∀ e ∈ es.getD [], ∃ u' n' as tys, e = .obj u' n' as tys ∧ vkindOf info.tf.elemValueType = .obj ∧
          (known u' n' = true → ConformsAttrs sub (as.getD [])))
    | .primitiveMap =>
      ∃ u n es et, a = .map u n es et ∧ vkindOf info.tf.valueType = .map ∧
        (known u n = true → ∀ e ∈ es.getD [], ∃ k u' n' p, e.2 = .prim k u' n' p ∧
          vkindOf (mapVal.getD info).tf.elemValueType = .prim k ∧ (known u' n' = true → ∃ c, info.castFrom k p = some c))
    | .objectMap =>
      ∃ u n es et, a = .map u n es et ∧ vkindOf info.tf.valueType = .map ∧
        (known u n = true → ∀ e ∈ es.getD [], ∃ u' n' as tys, e.2 = .obj u' n' as tys ∧
          vkindOf (mapVal.getD info).tf.elemValueType = .obj ∧ (known u' n' = true → ConformsAttrs sub (as.getD [])))

/-- every field of the message has a conforming attribute -/
def ConformsAttrs : List Field → List (String × TfVal) → Prop
  | [], _ => True
  | f :: rest, attrs =>
    (f.info.isPlaceholder = true ∨ ∃ a, attrs.lookup f.info.nameSnake = some a ∧ Conforms f a) ∧ ConformsAttrs rest attrs
end

/-- the result of a block that appends no diagnostic -/
def Quiet (st : FromSt) (o : Outcome FromSt) : Prop := ∃ st', o = .ok st' ∧ st'.diags = st.diags ∧ IsStruct st'.obj

/-- the recursive call appends no diagnostic on conforming attributes -/
def RecQuiet (rec : FromRec) (sub : List Field) : Prop :=
  ∀ (as : Option (List (String × TfVal))) (st : FromSt), IsStruct st.obj → ConformsAttrs sub (as.getD []) → Quiet st (rec as st)

theorem quiet_ok (st st' : FromSt) (hd : st'.diags = st.diags) (hs : IsStruct st'.obj) : Quiet st (.ok st') :=
  ⟨st', rfl, hd, hs⟩

theorem primDecode_ok (f : FieldInfo) (k : PrimK) (u n : Bool) (p : Sc) (h : known u n = true → ∃ c, f.castFrom k p = some c) :
    ∃ t, primDecode f k u n p = .ok t := by
  unfold primDecode
  by_cases hk : known u n = true
  · obtain ⟨c, hc⟩ := h hk
    exact ⟨if f.isNullable then .ptr (some (.sc c)) else .sc c, by simp [hk, hc]⟩
  · exact ⟨zeroPrim f, by simp [hk]⟩

theorem fieldWith_quiet_prim (rec : FromRec) (ov : List (String × String)) (info : FieldInfo) (mv : Option FieldInfo)
    (msg : Option MsgInfo) (attrs : Option (List (String × TfVal))) (st : FromSt) (hs : IsStruct st.obj)
    (hk : info.kind = .primitive) (k : PrimK) (u n : Bool) (p : Sc)
    (hl : (attrs.getD []).lookup info.nameSnake = some (.prim k u n p)) (hvt : vkindOf info.tf.valueType = .prim k)
    (hc : known u n = true → ∃ c, info.castFrom k p = some c) :
    Quiet st (copyFromFieldWith rec ov info mv msg attrs st) := by
  obtain ⟨t, ht⟩ := primDecode_ok info k u n p hc
  have hI := writeInv_isStruct info
  have hg : embedGuard info (.prim k u n p) st.obj = some st.obj := by simp [embedGuard, hk]
  unfold copyFromFieldWith
  simp only [hk, hl, TfVal.vkind, hvt, hg, ht, bne_self_eq_false, Bool.false_or]
  simp only [show (VKind.prim k == VKind.unknown) = false from rfl, Bool.false_eq_true, if_false]
  split
  · split
    · exact quiet_ok _ _ rfl (isStruct_setField _ _ _ hs)
    · exact quiet_ok _ _ rfl hs
  · split
    · split
      · generalize hr : writeField _ _ _ = r
        obtain ⟨o, rfl, hso, _⟩ := writeField_ok' hI hr (allocParent_ok info IsStruct hI st.obj hs).1
          (fun _ => (allocParent_ok info IsStruct hI st.obj hs).2)
        exact quiet_ok _ _ rfl hso
      · split
        · rename_i val heq
          obtain ⟨o, ho, hso, _⟩ := writeField_ok info IsStruct hI st.obj t hs (fun _ => ⟨val, heq⟩)
          simp only [ho]
          exact quiet_ok _ _ rfl hso
        · exact quiet_ok _ _ rfl hs
    · exact quiet_ok _ _ rfl (isStruct_setField _ _ _ hs)

theorem fieldWith_quiet_obj (rec : FromRec) (ov : List (String × String)) (info : FieldInfo) (mv : Option FieldInfo)
    (msg : Option MsgInfo) (sub : List Field) (attrs : Option (List (String × TfVal))) (st : FromSt) (hs : IsStruct st.obj)
    (hrec : RecQuiet rec sub)
    (hk : info.kind = .object) (u n : Bool) (as : Option (List (String × TfVal))) (tys : Option (List (String × TfTy)))
    (hl : (attrs.getD []).lookup info.nameSnake = some (.obj u n as tys)) (hvt : vkindOf info.tf.valueType = .obj)
    (hc : known u n = true → isEmptyMsg msg = false → ConformsAttrs sub (as.getD [])) :
    Quiet st (copyFromFieldWith rec ov info mv msg attrs st) := by
  have hI := writeInv_isStruct info
  unfold copyFromFieldWith
  simp only [hk, hl, TfVal.vkind, hvt, bne_self_eq_false, Bool.false_or]
  simp only [show (VKind.obj == VKind.unknown) = false from rfl, Bool.false_eq_true, if_false]
  cases hg : embedGuard info (.obj u n as tys) st.obj with
  | none => exact quiet_ok _ _ rfl hs
  | some obj0 =>
    simp only []
    obtain ⟨hs0, hp0'⟩ := embedGuard_ok info IsStruct hI _ st.obj obj0 hs hg
    have hp0 : ParentSet info obj0 := hp0' (by rw [hk]; simp)
    split
    · -- not a oneof branch
      generalize hr : writeField _ _ _ = r
      obtain ⟨o, rfl, hso, hpo⟩ := writeField_ok' hI hr hs0 hp0
      simp only []
      split
      · generalize hr2 : writeField _ _ _ = r2
        obtain ⟨o2, rfl, hso2, _⟩ := writeField_ok' hI hr2 hso hpo
        exact quiet_ok _ _ rfl hso2
      · split
        · rename_i h1 h2
          have hkn : known u n = true := by
            simp only [Bool.and_eq_true] at h2; exact h2.1
          have hem : isEmptyMsg msg = false := by
            simp only [Bool.and_eq_true, Bool.not_eq_true'] at h2; exact h2.2
          obtain ⟨st1, hrun, hd1, _⟩ := hrec as { obj := .struct [], diags := st.diags, hooks := st.hooks } trivial (hc hkn hem)
          simp only [hrun]
          generalize hr2 : writeField _ _ _ = r2
          obtain ⟨o2, rfl, hso2, _⟩ := writeField_ok' hI hr2 hso hpo
          exact quiet_ok _ _ hd1 hso2
        · exact quiet_ok _ _ rfl hso
    · -- oneof branch
      split
      · rename_i hkn
        by_cases hem : isEmptyMsg msg = true
        · simp only [hem, Bool.not_true, Bool.false_eq_true, if_false]
          exact quiet_ok _ _ rfl (isStruct_setField _ _ _ hs0)
        · have hem' : isEmptyMsg msg = false := by simpa using hem
          obtain ⟨st1, hrun, hd1, _⟩ := hrec as { obj := .struct [], diags := st.diags, hooks := st.hooks } trivial (hc hkn hem')
          simp only [hem', Bool.not_false, if_true, hrun]
          exact quiet_ok _ _ hd1 (isStruct_setField _ _ _ hs0)
      · exact quiet_ok _ _ rfl hs0

-- element loops

def BodyQuiet (body : TfVal → List Diag → List HookCall → Outcome (Option GoVal × List Diag × List HookCall)) (P : TfVal → Prop) : Prop :=
  ∀ e ds hs, P e → ∃ y hs', body e ds hs = .ok (y, ds, hs')

theorem fromElemsList_quiet (body : TfVal → List Diag → List HookCall → Outcome (Option GoVal × List Diag × List HookCall))
    (P : TfVal → Prop) (hb : BodyQuiet body P) :
    ∀ (elems : List TfVal) (k : Nat) (acc : List GoVal) (ds : List Diag) (hs : List HookCall), (∀ e ∈ elems, P e) →
      ∃ l hs', fromElemsList body elems k acc ds hs = .ok (l, ds, hs')
  | [], _, acc, ds, hs, _ => ⟨acc, hs, by simp [fromElemsList]⟩
  | e :: rest, k, acc, ds, hs, hP => by
    obtain ⟨y, hs1, hrun⟩ := hb e ds hs (hP e (by simp))
    simp only [fromElemsList, hrun]
    cases y with
    | some v => exact fromElemsList_quiet body P hb rest _ _ ds hs1 (fun x hx => hP x (by simp [hx]))
    | none => exact fromElemsList_quiet body P hb rest _ _ ds hs1 (fun x hx => hP x (by simp [hx]))

theorem fromElemsMap_quiet (body : TfVal → List Diag → List HookCall → Outcome (Option GoVal × List Diag × List HookCall))
    (P : TfVal → Prop) (hb : BodyQuiet body P) :
    ∀ (elems : List (String × TfVal)) (acc : List (String × GoVal)) (ds : List Diag) (hs : List HookCall),
      (∀ e ∈ elems, P e.2) → ∃ l hs', fromElemsMap body elems acc ds hs = .ok (l, ds, hs')
  | [], acc, ds, hs, _ => ⟨acc, hs, by simp [fromElemsMap]⟩
  | (k, e) :: rest, acc, ds, hs, hP => by
    obtain ⟨y, hs1, hrun⟩ := hb e ds hs (hP (k, e) (by simp))
    simp only [fromElemsMap, hrun]
    cases y with
    | some v => exact fromElemsMap_quiet body P hb rest _ ds hs1 (fun x hx => hP x (by simp [hx]))
    | none => exact fromElemsMap_quiet body P hb rest _ ds hs1 (fun x hx => hP x (by simp [hx]))

/-- a conforming scalar element -/
def PrimElemOK (info vf : FieldInfo) (e : TfVal) : Prop :=
  ∃ k u n p, e = .prim k u n p ∧ vkindOf vf.tf.elemValueType = .prim k ∧ (known u n = true → ∃ c, info.castFrom k p = some c)

/-- a conforming message element -/
def ObjElemOK (vf : FieldInfo) (sub : List Field) (e : TfVal) : Prop :=
  ∃ u n as tys, e = .obj u n as tys ∧ vkindOf vf.tf.elemValueType = .obj ∧ (known u n = true → ConformsAttrs sub (as.getD []))

theorem elemBody_quiet_prim (rec : FromRec) (ov : List (String × String)) (info vf : FieldInfo)
    (hk : info.kind = .primitiveList ∨ info.kind = .primitiveMap) :
    BodyQuiet (fromElemBody rec ov info vf) (PrimElemOK info vf) := by
  intro e ds hs ⟨k, u, n, p, he, hvk, hc⟩
  subst he
  obtain ⟨t, ht⟩ := primDecode_ok info k u n p hc
  refine ⟨some t, hs, ?_⟩
  unfold fromElemBody
  rcases hk with hk | hk <;> simp [TfVal.vkind, hvk, hk, ht]

theorem elemBody_quiet_obj (rec : FromRec) (ov : List (String × String)) (info vf : FieldInfo) (sub : List Field)
    (hrec : RecQuiet rec sub) (hk : info.kind = .objectList ∨ info.kind = .objectMap) :
    BodyQuiet (fromElemBody rec ov info vf) (ObjElemOK vf sub) := by
  intro e ds hs ⟨u, n, as, tys, he, hvk, hc⟩
  subst he
  have hkk : (info.kind == .objectList || info.kind == .objectMap) = true := by rcases hk with hk | hk <;> simp [hk]
  unfold fromElemBody
  simp only [TfVal.vkind, hvk, hkk, if_true, bne_self_eq_false, Bool.false_or]
  simp only [show (VKind.obj == VKind.unknown) = false from rfl, Bool.false_eq_true, if_false]
  by_cases hkn : known u n = true
  · obtain ⟨st1, hrun, hd1, _⟩ := hrec as { obj := .struct [], diags := ds, hooks := hs } trivial (hc hkn)
    refine ⟨some (if info.isNullable = true then GoVal.ptr (some st1.obj) else st1.obj), st1.hooks, ?_⟩
    have hd1' : st1.diags = ds := hd1
    simp [hkn, hrun, hd1']
  · exact ⟨some (zeroMsg info), hs, by simp [hkn]⟩

theorem fieldWith_quiet_list (rec : FromRec) (ov : List (String × String)) (info : FieldInfo) (mv : Option FieldInfo)
    (msg : Option MsgInfo) (attrs : Option (List (String × TfVal))) (st : FromSt) (hs : IsStruct st.obj)
    (P : TfVal → Prop) (hb : BodyQuiet (fromElemBody rec ov info info) P)
    (hk : info.kind = .primitiveList ∨ info.kind = .objectList) (u n : Bool) (es : Option (List TfVal)) (et : Option TfTy)
    (hl : (attrs.getD []).lookup info.nameSnake = some (.list u n es et)) (hvt : vkindOf info.tf.valueType = .list)
    (hc : known u n = true → ∀ e ∈ es.getD [], P e) :
    Quiet st (copyFromFieldWith rec ov info mv msg attrs st) := by
  have hI := writeInv_isStruct info
  unfold copyFromFieldWith
  have hkc : info.kind ≠ .custom := by rcases hk with hk | hk <;> simp [hk]
  have hkp : info.kind ≠ .primitive := by rcases hk with hk | hk <;> simp [hk]
  cases hg : embedGuard info (.list u n es et) st.obj with
  | none =>
    rcases hk with hk | hk <;>
      simp only [hk, hl, TfVal.vkind, hvt, bne_self_eq_false, Bool.false_or, hg,
        show (VKind.list == VKind.unknown) = false from rfl, Bool.false_eq_true, if_false] <;>
      exact quiet_ok _ _ rfl hs
  | some obj0 =>
    obtain ⟨hs0, hp0'⟩ := embedGuard_ok info IsStruct hI _ st.obj obj0 hs hg
    have hp0 : ParentSet info obj0 := hp0' hkp
    have key : Quiet st
        (match writeField info obj0 (.slice (some (List.replicate (if known u n then (es.getD []).length else 0) (zeroElem info)))) with
         | .panic w => .panic w
         | .stuck w => .stuck w
         | .ok o =>
           if known u n then
             match fromElemsList (fromElemBody rec ov info info) (es.getD []) 0 (List.replicate (es.getD []).length (zeroElem info)) st.diags st.hooks with
             | .panic w => .panic w
             | .stuck w => .stuck w
             | .ok (l, ds, hs) =>
               match writeField info o (.slice (some l)) with
               | .ok o' => .ok { obj := o', diags := ds, hooks := hs }
               | .panic w => .panic w
               | .stuck w => .stuck w
           else .ok { obj := o, diags := st.diags, hooks := st.hooks }) := by
      generalize hr : writeField _ _ _ = r
      obtain ⟨o, rfl, hso, hpo⟩ := writeField_ok' hI hr hs0 hp0
      simp only []
      split
      · rename_i hkn
        obtain ⟨l, hs', hloop⟩ := fromElemsList_quiet _ P hb (es.getD []) 0 (List.replicate (es.getD []).length (zeroElem info))
          st.diags st.hooks (hc hkn)
        simp only [hloop]
        generalize hr2 : writeField _ _ _ = r2
        obtain ⟨o2, rfl, hso2, _⟩ := writeField_ok' hI hr2 hso hpo
        exact quiet_ok _ _ rfl hso2
      · exact quiet_ok _ _ rfl hso
    rcases hk with hk | hk <;>
      simp only [hk, hl, TfVal.vkind, hvt, bne_self_eq_false, Bool.false_or, hg,
        show (VKind.list == VKind.unknown) = false from rfl, Bool.false_eq_true, if_false] <;>
      exact key

theorem fieldWith_quiet_map (rec : FromRec) (ov : List (String × String)) (info : FieldInfo) (mv : Option FieldInfo)
    (msg : Option MsgInfo) (attrs : Option (List (String × TfVal))) (st : FromSt) (hs : IsStruct st.obj)
    (P : TfVal → Prop) (hb : BodyQuiet (fromElemBody rec ov info (mv.getD info)) P)
    (hk : info.kind = .primitiveMap ∨ info.kind = .objectMap) (u n : Bool) (es : Option (List (String × TfVal))) (et : Option TfTy)
    (hl : (attrs.getD []).lookup info.nameSnake = some (.map u n es et)) (hvt : vkindOf info.tf.valueType = .map)
    (hc : known u n = true → ∀ e ∈ es.getD [], P e.2) :
    Quiet st (copyFromFieldWith rec ov info mv msg attrs st) := by
  have hI := writeInv_isStruct info
  unfold copyFromFieldWith
  have hkp : info.kind ≠ .primitive := by rcases hk with hk | hk <;> simp [hk]
  cases hg : embedGuard info (.map u n es et) st.obj with
  | none =>
    rcases hk with hk | hk <;>
      simp only [hk, hl, TfVal.vkind, hvt, bne_self_eq_false, Bool.false_or, hg,
        show (VKind.map == VKind.unknown) = false from rfl, Bool.false_eq_true, if_false] <;>
      exact quiet_ok _ _ rfl hs
  | some obj0 =>
    obtain ⟨hs0, hp0'⟩ := embedGuard_ok info IsStruct hI _ st.obj obj0 hs hg
    have hp0 : ParentSet info obj0 := hp0' hkp
    have key : Quiet st
        (match writeField info obj0 (.map (some [])) with
         | .panic w => .panic w
         | .stuck w => .stuck w
         | .ok o =>
           if known u n then
             match fromElemsMap (fromElemBody rec ov info (mv.getD info)) (es.getD []) [] st.diags st.hooks with
             | .panic w => .panic w
             | .stuck w => .stuck w
             | .ok (l, ds, hs) =>
               match writeField info o (.map (some l)) with
               | .ok o' => .ok { obj := o', diags := ds, hooks := hs }
               | .panic w => .panic w
               | .stuck w => .stuck w
           else .ok { obj := o, diags := st.diags, hooks := st.hooks }) := by
      generalize hr : writeField _ _ _ = r
      obtain ⟨o, rfl, hso, hpo⟩ := writeField_ok' hI hr hs0 hp0
      simp only []
      split
      · rename_i hkn
        obtain ⟨l, hs', hloop⟩ := fromElemsMap_quiet _ P hb (es.getD []) [] st.diags st.hooks (hc hkn)
        simp only [hloop]
        generalize hr2 : writeField _ _ _ = r2
        obtain ⟨o2, rfl, hso2, _⟩ := writeField_ok' hI hr2 hso hpo
        exact quiet_ok _ _ rfl hso2
      · exact quiet_ok _ _ rfl hso
    rcases hk with hk | hk <;>
      simp only [hk, hl, TfVal.vkind, hvt, bne_self_eq_false, Bool.false_or, hg,
        show (VKind.map == VKind.unknown) = false from rfl, Bool.false_eq_true, if_false] <;>
      exact key

theorem fieldWith_quiet_custom (rec : FromRec) (ov : List (String × String)) (info : FieldInfo) (mv : Option FieldInfo)
    (msg : Option MsgInfo) (attrs : Option (List (String × TfVal))) (st : FromSt) (hs : IsStruct st.obj)
    (hk : info.kind = .custom) (a : TfVal) (hl : (attrs.getD []).lookup info.nameSnake = some a) :
    Quiet st (copyFromFieldWith rec ov info mv msg attrs st) := by
  have hI := writeInv_isStruct info
  unfold copyFromFieldWith
  simp only [hk, hl]
  cases he : info.parentIsOptionalEmbed with
  | true =>
    simp only [if_true]
    generalize hr : writeField _ _ _ = r
    obtain ⟨o, rfl, hso, _⟩ := writeField_ok' hI hr (allocParent_ok info IsStruct hI st.obj hs).1
      (fun _ => (allocParent_ok info IsStruct hI st.obj hs).2)
    exact quiet_ok _ _ rfl hso
  | false =>
    simp only [Bool.false_eq_true, if_false]
    generalize hr : writeField _ _ _ = r
    obtain ⟨o, rfl, hso, _⟩ := writeField_ok' hI hr hs (fun h => by rw [he] at h; cases h)
    exact quiet_ok _ _ rfl hso

mutual

theorem fromField_quiet (ov : List (String × String)) : ∀ (f : Field) (attrs : Option (List (String × TfVal))) (st : FromSt) (a : TfVal),
    IsStruct st.obj → (attrs.getD []).lookup f.info.nameSnake = some a → Conforms f a → Quiet st (copyFromField ov f attrs st)
  | ⟨info, mv, msg, sub⟩, attrs, st, a, hs, hl, hc => by
    simp only at hl
    unfold Conforms at hc
    simp only [copyFromField]
    have hrec : RecQuiet (fun as s => copyFromFields ov sub as { s with obj := resetOneOfs ((msg.map (·.oneOfNames)).getD []) s.obj }) sub := by
      intro as s hs' hC
      obtain ⟨st', hrun, hd, hso⟩ := fromFields_quiet ov sub as { s with obj := resetOneOfs ((msg.map (·.oneOfNames)).getD []) s.obj }
        (isStruct_resetOneOfs _ _ hs') hC
      exact ⟨st', hrun, hd, hso⟩
    cases hk : info.kind with
    | custom => exact fieldWith_quiet_custom _ ov info mv msg attrs st hs hk a hl
    | primitive =>
      simp only [hk] at hc
      obtain ⟨k, u, n, p, rfl, hvt, hcast⟩ := hc
      exact fieldWith_quiet_prim _ ov info mv msg attrs st hs hk k u n p hl hvt hcast
    | object =>
      simp only [hk] at hc
      obtain ⟨u, n, as, tys, rfl, hvt, hsub⟩ := hc
      exact fieldWith_quiet_obj _ ov info mv msg sub attrs st hs hrec hk u n as tys hl hvt hsub
    | primitiveList =>
      simp only [hk] at hc
      obtain ⟨u, n, es, et, rfl, hvt, hel⟩ := hc
      exact fieldWith_quiet_list _ ov info mv msg attrs st hs _ (elemBody_quiet_prim _ ov info info (Or.inl hk)) (Or.inl hk)
        u n es et hl hvt hel
    | objectList =>
      simp only [hk] at hc
      obtain ⟨u, n, es, et, rfl, hvt, hel⟩ := hc
      exact fieldWith_quiet_list _ ov info mv msg attrs st hs _ (elemBody_quiet_obj _ ov info info sub hrec (Or.inl hk)) (Or.inr hk)
        u n es et hl hvt hel
    | primitiveMap =>
      simp only [hk] at hc
      obtain ⟨u, n, es, et, rfl, hvt, hel⟩ := hc
      exact fieldWith_quiet_map _ ov info mv msg attrs st hs _ (elemBody_quiet_prim _ ov info (mv.getD info) (Or.inr hk)) (Or.inl hk)
        u n es et hl hvt hel
    | objectMap =>
      simp only [hk] at hc
      obtain ⟨u, n, es, et, rfl, hvt, hel⟩ := hc
      exact fieldWith_quiet_map _ ov info mv msg attrs st hs _ (elemBody_quiet_obj _ ov info (mv.getD info) sub hrec (Or.inr hk)) (Or.inr hk)
        u n es et hl hvt hel

theorem fromFields_quiet (ov : List (String × String)) : ∀ (fs : List Field) (attrs : Option (List (String × TfVal))) (st : FromSt),
    IsStruct st.obj → ConformsAttrs fs (attrs.getD []) → Quiet st (copyFromFields ov fs attrs st)
  | [], _, st, hs, _ => ⟨st, by simp [copyFromFields], rfl, hs⟩
  | f :: rest, attrs, st, hs, hC => by
    unfold ConformsAttrs at hC
    obtain ⟨hf, hrest⟩ := hC
    simp only [copyFromFields]
    by_cases hph : f.info.isPlaceholder = true
    · simp only [hph, if_true]
      exact fromFields_quiet ov rest attrs st hs hrest
    · simp only [hph, Bool.false_eq_true, if_false]
      rcases hf with hp | ⟨a, hl, hc⟩
      · exact absurd hp hph
      · obtain ⟨st1, hrun, hd1, hs1⟩ := fromField_quiet ov f attrs st a hs hl hc
        simp only [hrun]
        obtain ⟨st2, hrun2, hd2, hs2⟩ := fromFields_quiet ov rest attrs st1 hs1 hrest
        exact ⟨st2, hrun2, by rw [hd2, hd1], hs2⟩

end

/-- **C05, first clause**: CopyFrom of a conforming object returns no diagnostic – every message, every prior struct -/
theorem copyFrom_conforming_quiet (ov : List (String × String)) (m : Msg) (u n : Bool) (attrs : Option (List (String × TfVal)))
    (atys : Option (List (String × TfTy))) (prior : List (String × GoVal)) (h : ConformsAttrs m.fields (attrs.getD [])) :
    ∃ r, copyFrom ov m (.obj u n attrs atys) (.struct prior) = .ok r ∧ r.diags = [] := by
  obtain ⟨st', hrun, hd, _⟩ := fromFields_quiet ov m.fields attrs { obj := resetOneOfs m.info.oneOfNames (.struct prior) }
    (isStruct_resetOneOfs _ _ trivial) h
  exact ⟨{ obj := st'.obj, diags := st'.diags, hooks := st'.hooks }, by simp [copyFrom, hrun], by simpa using hd⟩

end PGT
