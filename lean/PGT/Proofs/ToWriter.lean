import PGT.Model.CopyTo
/-
Diagnostics and hook logs are write-only in CopyTo: the initial contents of `ToSt.diags` / `ToSt.hooks` are never read,
only appended to. For ALL inputs (no typing hypotheses), by mutual structural induction over the IR.
-/
namespace PGT

/-- prepend `d` / `h` to the diagnostics / hook log of a state -/
def shiftSt (d : List Diag) (h : List HookCall) (st : ToSt) : ToSt :=
  { attrs := st.attrs, diags := d ++ st.diags, hooks := h ++ st.hooks }

/-- map over the result of an outcome; panic / stuck unchanged -/
def Outcome.mapO {α β} (f : α → β) : Outcome α → Outcome β
  | .ok a => .ok (f a)
  | .panic w => .panic w
  | .stuck w => .stuck w

/-- the same shift on the (value, diags, hooks) triples of the templates -/
def shift3 {α} (d : List Diag) (h : List HookCall) (r : α × List Diag × List HookCall) : α × List Diag × List HookCall :=
  (r.1, d ++ r.2.1, h ++ r.2.2)

/-- the recursive call only appends to diags / hooks -/
def RecWriter (rec : ToRec) : Prop :=
  ∀ o a st d h, rec o a (shiftSt d h st) = (rec o a st).mapO (shiftSt d h)

/-- an element body only appends to diags / hooks -/
def BodyWriter (body : ElemBody) : Prop :=
  ∀ a diags hooks d h, body a (d ++ diags) (h ++ hooks) = (body a diags hooks).mapO (shift3 d h)

theorem objBody_writer (rec : ToRec) (hrec : RecWriter rec) (info : FieldInfo) (msg : Option MsgInfo) (subEmpty : Bool)
    (cur : Option TfVal) (oty : Option (List (String × TfTy))) (x : Outcome GoVal) (diags : List Diag) (hooks : List HookCall)
    (d : List Diag) (h : List HookCall) :
    objBody rec info msg subEmpty cur oty x (d ++ diags) (h ++ hooks) =
      (objBody rec info msg subEmpty cur oty x diags hooks).mapO (shift3 d h) := by
  have hr : ∀ inner atys attrs, rec inner atys { attrs := attrs, diags := d ++ diags, hooks := h ++ hooks } =
      (rec inner atys { attrs := attrs, diags := diags, hooks := hooks }).mapO (shiftSt d h) :=
    fun i a at' => hrec i a ⟨at', diags, hooks⟩ d h
  unfold objBody
  generalize objBody.match_1 _ cur _ _ _ = t
  obtain ⟨null, attrs, atys⟩ := t
  simp only [hr]
  have fin : ∀ s : GoVal,
      (if subEmpty = true then Outcome.ok (TfVal.obj false null (some attrs) atys, d ++ diags, h ++ hooks)
        else
          match Outcome.mapO (shiftSt d h) (rec s atys { attrs := attrs, diags := diags, hooks := hooks }) with
          | .ok st => Outcome.ok (TfVal.obj false null (some st.attrs) atys, st.diags, st.hooks)
          | .panic w => .panic w
          | .stuck w => .stuck w) =
      Outcome.mapO (shift3 d h)
        (if subEmpty = true then Outcome.ok (TfVal.obj false null (some attrs) atys, diags, hooks)
        else
          match rec s atys { attrs := attrs, diags := diags, hooks := hooks } with
          | .ok st => Outcome.ok (TfVal.obj false null (some st.attrs) atys, st.diags, st.hooks)
          | .panic w => .panic w
          | .stuck w => .stuck w) := by
    intro s
    cases subEmpty
    · simp only [Bool.false_eq_true, if_false]
      generalize rec _ _ _ = r
      cases r <;> rfl
    · rfl
  by_cases h1 : (!info.isNullable && (subEmpty || isEmptyMsg msg)) = true
  · simp only [h1, if_true]
    exact fin _
  · simp only [h1]
    cases x with
    | panic w => rfl
    | stuck w => rfl
    | ok xv =>
      by_cases hn : info.isNullable = true
      · simp only [hn, if_true]
        cases xv with
        | ptr o =>
          cases o with
          | none => rfl
          | some s => exact fin _
        | _ => rfl
      · simp only [hn]
        cases xv with
        | struct fs => exact fin _
        | _ => rfl

theorem elemsList_writer (body : ElemBody) (hb : BodyWriter body) :
    ∀ (elems : List GoVal) (k : Nat) (acc : List TfVal) (diags : List Diag) (hooks : List HookCall)
      (d : List Diag) (h : List HookCall),
      copyToElemsList body elems k acc (d ++ diags) (h ++ hooks) =
        (copyToElemsList body elems k acc diags hooks).mapO (shift3 d h)
  | [], k, acc, diags, hooks, d, h => rfl
  | a :: rest, k, acc, diags, hooks, d, h => by
    simp only [copyToElemsList, hb a diags hooks d h]
    generalize body a diags hooks = r
    cases r with
    | ok q =>
      obtain ⟨v, ds, hs⟩ := q
      exact elemsList_writer body hb rest (k + 1) (setIdx acc k v) ds hs d h
    | panic w => rfl
    | stuck w => rfl

theorem elemsMap_writer (body : ElemBody) (hb : BodyWriter body) :
    ∀ (elems : List (String × GoVal)) (acc : List (String × TfVal)) (diags : List Diag) (hooks : List HookCall)
      (d : List Diag) (h : List HookCall),
      copyToElemsMap body elems acc (d ++ diags) (h ++ hooks) =
        (copyToElemsMap body elems acc diags hooks).mapO (shift3 d h)
  | [], acc, diags, hooks, d, h => rfl
  | (k, a) :: rest, acc, diags, hooks, d, h => by
    simp only [copyToElemsMap, hb a diags hooks d h]
    generalize body a diags hooks = r
    cases r with
    | ok q =>
      obtain ⟨v, ds, hs⟩ := q
      exact elemsMap_writer body hb rest (setKey k v acc) ds hs d h
    | panic w => rfl
    | stuck w => rfl

theorem primElemBody_writer (info : FieldInfo) (obj : GoVal) (ety : Option TfTy) : BodyWriter (primElemBody info obj ety) := by
  intro a diags hooks d h
  unfold primElemBody
  generalize primBody info obj none ety (.ok a) = r
  cases r with
  | ok q =>
    obtain ⟨v, ds⟩ := q
    simp [Outcome.mapO, shift3]
  | panic w => rfl
  | stuck w => rfl

theorem elemBodyOf_writer (rec : ToRec) (hrec : RecWriter rec) (info : FieldInfo) (msg : Option MsgInfo) (subEmpty : Bool)
    (obj0 : GoVal) (ety : Option TfTy) (oty : Option (List (String × TfTy))) :
    BodyWriter (elemBodyOf rec info msg subEmpty obj0 ety oty) := by
  unfold elemBodyOf
  split
  · intro a diags hooks d h
    exact objBody_writer rec hrec info msg subEmpty none oty (.ok a) diags hooks d h
  · exact primElemBody_writer info obj0 ety

theorem listOrMapBody_writer (rec : ToRec) (hrec : RecWriter rec) (info : FieldInfo) (msg : Option MsgInfo) (subEmpty : Bool)
    (obj0 : GoVal) (cur : Option TfVal) (ety : Option TfTy) (src : GoVal) (st : ToSt) (d : List Diag) (h : List HookCall) :
    listOrMapBody rec info msg subEmpty obj0 cur ety src (shiftSt d h st) =
      (listOrMapBody rec info msg subEmpty obj0 cur ety src st).mapO (shiftSt d h) := by
  unfold listOrMapBody
  have hd : (shiftSt d h st).diags = d ++ st.diags := rfl
  have hh : (shiftSt d h st).hooks = h ++ st.hooks := rfl
  simp only [hd, hh]
  by_cases hrep : info.isRepeated = true
  · simp only [hrep, if_true]
    have key : ∀ elems : List GoVal, ∀ c : Bool × List TfVal × Option TfTy,
        (match elemObjTy (info.kind == Kind.objectList || info.kind == Kind.objectMap) ety with
        | Outcome.panic w => Outcome.panic w
        | Outcome.stuck w => Outcome.stuck w
        | Outcome.ok oty =>
          if curIsElemKind info cur = true then Outcome.stuck "element aliases the enclosing attribute (not modelled)"
          else
            match
              copyToElemsList (elemBodyOf rec info msg subEmpty obj0 ety oty) elems 0 c.snd.fst (d ++ st.diags) (h ++ st.hooks) with
            | Outcome.ok (es, ds, hs) =>
              Outcome.ok
                { attrs := setKey info.nameSnake (TfVal.list false (if elems.length > 0 then false else c.fst) (some es) c.snd.snd)
                      (shiftSt d h st).attrs,
                  diags := ds, hooks := hs }
            | Outcome.panic w => Outcome.panic w
            | Outcome.stuck w => Outcome.stuck w) =
        Outcome.mapO (shiftSt d h)
        (match elemObjTy (info.kind == Kind.objectList || info.kind == Kind.objectMap) ety with
        | Outcome.panic w => Outcome.panic w
        | Outcome.stuck w => Outcome.stuck w
        | Outcome.ok oty =>
          if curIsElemKind info cur = true then Outcome.stuck "element aliases the enclosing attribute (not modelled)"
          else
            match
              copyToElemsList (elemBodyOf rec info msg subEmpty obj0 ety oty) elems 0 c.snd.fst st.diags st.hooks with
            | Outcome.ok (es, ds, hs) =>
              Outcome.ok
                { attrs := setKey info.nameSnake (TfVal.list false (if elems.length > 0 then false else c.fst) (some es) c.snd.snd)
                      st.attrs,
                  diags := ds, hooks := hs }
            | Outcome.panic w => Outcome.panic w
            | Outcome.stuck w => Outcome.stuck w) := by
      intro elems c
      generalize elemObjTy _ ety = eo
      cases eo with
      | panic w => rfl
      | stuck w => rfl
      | ok oty =>
        simp only []
        cases curIsElemKind info cur
        · simp only [Bool.false_eq_true, if_false]
          rw [elemsList_writer _ (elemBodyOf_writer rec hrec info msg subEmpty obj0 ety oty)]
          generalize copyToElemsList _ _ _ _ _ _ = r
          cases r with
          | ok q => obtain ⟨es, ds, hs⟩ := q; rfl
          | panic w => rfl
          | stuck w => rfl
        · rfl
    cases src with
    | slice o =>
      cases o with
      | none => rfl
      | some elems => exact key elems _
    | _ => rfl
  · simp only [hrep]
    have key : ∀ elems : List (String × GoVal), ∀ c : Bool × List (String × TfVal) × Option TfTy,
        (match elemObjTy (info.kind == Kind.objectList || info.kind == Kind.objectMap) ety with
        | Outcome.panic w => Outcome.panic w
        | Outcome.stuck w => Outcome.stuck w
        | Outcome.ok oty =>
          if curIsElemKind info cur = true then Outcome.stuck "element aliases the enclosing attribute (not modelled)"
          else
            match
              copyToElemsMap (elemBodyOf rec info msg subEmpty obj0 ety oty) elems c.snd.fst (d ++ st.diags) (h ++ st.hooks) with
            | Outcome.ok (es, ds, hs) =>
              Outcome.ok
                { attrs := setKey info.nameSnake (TfVal.map false (if elems.length > 0 then false else c.fst) (some es) c.snd.snd)
                      (shiftSt d h st).attrs,
                  diags := ds, hooks := hs }
            | Outcome.panic w => Outcome.panic w
            | Outcome.stuck w => Outcome.stuck w) =
        Outcome.mapO (shiftSt d h)
        (match elemObjTy (info.kind == Kind.objectList || info.kind == Kind.objectMap) ety with
        | Outcome.panic w => Outcome.panic w
        | Outcome.stuck w => Outcome.stuck w
        | Outcome.ok oty =>
          if curIsElemKind info cur = true then Outcome.stuck "element aliases the enclosing attribute (not modelled)"
          else
            match
              copyToElemsMap (elemBodyOf rec info msg subEmpty obj0 ety oty) elems c.snd.fst st.diags st.hooks with
            | Outcome.ok (es, ds, hs) =>
              Outcome.ok
                { attrs := setKey info.nameSnake (TfVal.map false (if elems.length > 0 then false else c.fst) (some es) c.snd.snd)
                      st.attrs,
                  diags := ds, hooks := hs }
            | Outcome.panic w => Outcome.panic w
            | Outcome.stuck w => Outcome.stuck w) := by
      intro elems c
      generalize elemObjTy _ ety = eo
      cases eo with
      | panic w => rfl
      | stuck w => rfl
      | ok oty =>
        simp only []
        cases curIsElemKind info cur
        · simp only [Bool.false_eq_true, if_false]
          rw [elemsMap_writer _ (elemBodyOf_writer rec hrec info msg subEmpty obj0 ety oty)]
          generalize copyToElemsMap _ _ _ _ _ = r
          cases r with
          | ok q => obtain ⟨es, ds, hs⟩ := q; rfl
          | panic w => rfl
          | stuck w => rfl
        · rfl
    cases src with
    | map o =>
      cases o with
      | none => rfl
      | some elems => exact key elems _
    | _ => rfl

theorem copyToFieldWith_writer (rec : ToRec) (hrec : RecWriter rec) (info : FieldInfo) (msg : Option MsgInfo) (subEmpty : Bool)
    (obj0 : GoVal) (atys : Option (List (String × TfTy))) (st : ToSt) (d : List Diag) (h : List HookCall) :
    copyToFieldWith rec info msg subEmpty obj0 atys (shiftSt d h st) =
      (copyToFieldWith rec info msg subEmpty obj0 atys st).mapO (shiftSt d h) := by
  unfold copyToFieldWith
  have hd : (shiftSt d h st).diags = d ++ st.diags := rfl
  have hh : (shiftSt d h st).hooks = h ++ st.hooks := rfl
  have ha : (shiftSt d h st).attrs = st.attrs := rfl
  cases (atys.getD []).lookup info.nameSnake with
  | none => simp [Outcome.mapO, shiftSt, ToSt.diag]
  | some a =>
    simp only []
    cases info.kind with
    | primitive =>
      simp only [ha]
      generalize primBody _ _ _ _ _ = r
      cases r with
      | ok q => obtain ⟨v, ds⟩ := q; simp [Outcome.mapO, shiftSt, ToSt.set]
      | panic w => rfl
      | stuck w => rfl
    | object =>
      simp only [ha, hd, hh]
      cases a with
      | obj oty =>
        simp only []
        rw [objBody_writer rec hrec]
        generalize objBody _ _ _ _ _ _ _ _ _ = r
        cases r with
        | ok q => obtain ⟨v, ds, hs⟩ := q; rfl
        | panic w => rfl
        | stuck w => rfl
      | _ => simp [Outcome.mapO, shiftSt, ToSt.diag]
    | custom =>
      simp only [ha, hh]
      generalize readField info obj0 = r
      cases r with
      | ok x =>
        simp only []
        cases hookTo info.isRepeated x with
        | some v => simp [Outcome.mapO, shiftSt, ToSt.set]
        | none => rfl
      | panic w => rfl
      | stuck w => rfl
    | _ =>
      simp only [ha]
      split
      · simp [Outcome.mapO, shiftSt, ToSt.diag]
      · generalize readField info obj0 = r
        cases r with
        | ok src => exact listOrMapBody_writer rec hrec info msg subEmpty obj0 _ _ src st d h
        | panic w => rfl
        | stuck w => rfl

mutual

theorem copyToFields_writer : ∀ (fs : List Field) (obj : GoVal) (atys : Option (List (String × TfTy))) (st : ToSt)
    (d : List Diag) (h : List HookCall),
    copyToFields fs obj atys (shiftSt d h st) = (copyToFields fs obj atys st).mapO (shiftSt d h)
  | [], obj, atys, st, d, h => by simp [copyToFields, Outcome.mapO]
  | f :: rest, obj, atys, st, d, h => by
    simp only [copyToFields, copyToField_writer f obj atys st d h]
    generalize copyToField f obj atys st = r
    cases r with
    | ok st' => exact copyToFields_writer rest obj atys st' d h
    | panic w => rfl
    | stuck w => rfl

theorem copyToField_writer : ∀ (f : Field) (obj : GoVal) (atys : Option (List (String × TfTy))) (st : ToSt)
    (d : List Diag) (h : List HookCall),
    copyToField f obj atys (shiftSt d h st) = (copyToField f obj atys st).mapO (shiftSt d h)
  | ⟨info, mv, msg, sub⟩, obj, atys, st, d, h => by
    unfold copyToField
    exact copyToFieldWith_writer _ (fun o a s d h => copyToFields_writer sub o a s d h) info msg sub.isEmpty obj atys st d h

end

-- ------------------------------------------------------------------------------------------------------
-- corollaries: every run is the run from empty diags / hooks, shifted; attributes and status do not depend on them

theorem Outcome.mapO_mapO {α β γ} (f : α → β) (g : β → γ) (r : Outcome α) : (r.mapO f).mapO g = r.mapO (fun a => g (f a)) := by
  cases r <;> rfl

theorem shiftSt_empty (st : ToSt) : shiftSt st.diags st.hooks { attrs := st.attrs, diags := [], hooks := [] } = st := by
  cases st; simp [shiftSt]

/-- a run from any state is the run from empty diags / hooks with the initial diags / hooks prepended -/
theorem copyToFields_rebase (fs : List Field) (obj : GoVal) (atys : Option (List (String × TfTy))) (st : ToSt) :
    copyToFields fs obj atys st =
      (copyToFields fs obj atys { attrs := st.attrs, diags := [], hooks := [] }).mapO (shiftSt st.diags st.hooks) := by
  rw [← copyToFields_writer, shiftSt_empty]

theorem copyToField_rebase (f : Field) (obj : GoVal) (atys : Option (List (String × TfTy))) (st : ToSt) :
    copyToField f obj atys st =
      (copyToField f obj atys { attrs := st.attrs, diags := [], hooks := [] }).mapO (shiftSt st.diags st.hooks) := by
  rw [← copyToField_writer, shiftSt_empty]

/-- the resulting attribute map and the ok / panic / stuck status (with its message) do not depend on the initial
diags / hooks -/
theorem copyToFields_attrs_indep (fs : List Field) (obj : GoVal) (atys : Option (List (String × TfTy))) (st1 st2 : ToSt)
    (h : st1.attrs = st2.attrs) :
    (copyToFields fs obj atys st1).mapO (·.attrs) = (copyToFields fs obj atys st2).mapO (·.attrs) := by
  rw [copyToFields_rebase fs obj atys st1, copyToFields_rebase fs obj atys st2, h, Outcome.mapO_mapO, Outcome.mapO_mapO]
  rfl

theorem copyToField_attrs_indep (f : Field) (obj : GoVal) (atys : Option (List (String × TfTy))) (st1 st2 : ToSt)
    (h : st1.attrs = st2.attrs) :
    (copyToField f obj atys st1).mapO (·.attrs) = (copyToField f obj atys st2).mapO (·.attrs) := by
  rw [copyToField_rebase f obj atys st1, copyToField_rebase f obj atys st2, h, Outcome.mapO_mapO, Outcome.mapO_mapO]
  rfl

/-- … and the diagnostics / hook calls *appended* by a run do not depend on them either -/
theorem copyToFields_ok_shift (fs : List Field) (obj : GoVal) (atys : Option (List (String × TfTy))) (st st' : ToSt)
    (h : copyToFields fs obj atys st = .ok st') :
    ∃ ds hs, st'.diags = st.diags ++ ds ∧ st'.hooks = st.hooks ++ hs ∧
      ∀ d k, copyToFields fs obj atys { attrs := st.attrs, diags := d, hooks := k } =
        .ok { attrs := st'.attrs, diags := d ++ ds, hooks := k ++ hs } := by
  rw [copyToFields_rebase] at h
  generalize hr : copyToFields fs obj atys { attrs := st.attrs, diags := [], hooks := [] } = r at h
  cases r with
  | ok s0 =>
    simp only [Outcome.mapO, Outcome.ok.injEq] at h
    subst h
    refine ⟨s0.diags, s0.hooks, rfl, rfl, ?_⟩
    intro d k
    rw [copyToFields_rebase, hr]
    rfl
  | panic w => simp [Outcome.mapO] at h
  | stuck w => simp [Outcome.mapO] at h

theorem elemsList_rebase (body : ElemBody) (hb : BodyWriter body) (elems : List GoVal) (k : Nat) (acc : List TfVal)
    (diags : List Diag) (hooks : List HookCall) :
    copyToElemsList body elems k acc diags hooks = (copyToElemsList body elems k acc [] []).mapO (shift3 diags hooks) := by
  have := elemsList_writer body hb elems k acc [] [] diags hooks
  simpa using this

theorem elemsMap_rebase (body : ElemBody) (hb : BodyWriter body) (elems : List (String × GoVal)) (acc : List (String × TfVal))
    (diags : List Diag) (hooks : List HookCall) :
    copyToElemsMap body elems acc diags hooks = (copyToElemsMap body elems acc [] []).mapO (shift3 diags hooks) := by
  have := elemsMap_writer body hb elems acc [] [] diags hooks
  simpa using this

end PGT

#print axioms PGT.copyToFields_writer
#print axioms PGT.copyToField_writer
#print axioms PGT.copyToFields_attrs_indep
#print axioms PGT.copyToFields_ok_shift
