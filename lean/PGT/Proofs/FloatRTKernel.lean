import PGT.Model.Float
/-
Kernel-only proofs of the two float32 facts of PGT/Proofs/FloatRT.lean (no SAT certificate, no compiled code):

  narrow_widen : float32 -> float64 -> float32 is the identity on every non-NaN bit pattern
  widen_zero   : the zero test on the widened value sees exactly the two float32 zeros

Method. `narrow32` / `widen64` are restated as functions of the already separated fields (`narrow32'`, `widen64'`,
`widenSub` = the 23-way leading-one cascade); the restatements are definitionally equal to the model (`narrow32_eq`,
`widen64_eq` by `rfl`). Every branch is then described on `BitVec.toNat` level
(x = s*2^31 + e*2^23 + m, widen64 x = s*2^63 + E*2^52 + M) and the arithmetic is closed by `omega`.
Subnormals: one parametric lemma in the position j of the leading one (`widenSub_eq`, `widen'_sub`, `narrow'_sub`,
`sub_arith`: 2^52 + ((m*2^(23-j)) mod 2^23)*2^29 = m*2^(52-j), so the shift by 52-j is exact, no rounding).
-/
namespace PGT.F.Kernel
open PGT.F

/-! ### `narrow32` as a function of sign / exponent / mantissa -/

def narrow32' (sign : BitVec 32) (e m : BitVec 64) : BitVec 32 :=
  if e == 0x7ff#64 then
    if m == 0#64 then sign ||| 0x7f800000#32
    else sign ||| 0x7fc00000#32 ||| ((m >>> 29).truncate 32)
  else if e.ult 873#64 then sign
  else if e.ult 897#64 then
    let full : BitVec 64 := m ||| 0x10000000000000#64
    let s : BitVec 64 := 926#64 - e
    let q : BitVec 64 := full >>> s
    let rem : BitVec 64 := full &&& ((1#64 <<< s) - 1#64)
    let half : BitVec 64 := 1#64 <<< (s - 1#64)
    let up : Bool := half.ult rem || (rem == half && (q &&& 1#64) == 1#64)
    sign ||| ((if up then q + 1#64 else q).truncate 32)
  else
    let r : BitVec 64 := m >>> 29
    let rem : BitVec 64 := m &&& 0x1fffffff#64
    let up : Bool := (0x10000000#64).ult rem || (rem == 0x10000000#64 && (r &&& 1#64) == 1#64)
    let body : BitVec 64 := (((e - 896#64) <<< 23) ||| r) + (if up then 1#64 else 0#64)
    if (0x7f800000#64).ule body then sign ||| 0x7f800000#32 else sign ||| body.truncate 32

theorem narrow32_eq (x : BitVec 64) :
    narrow32 x = narrow32' (((x >>> 63).truncate 32) <<< 31) ((x >>> 52) &&& 0x7ff#64)
      (x &&& 0xfffffffffffff#64) := rfl

/-- `a * 2^i ||| b = a * 2^i + b` when `b < 2^i` -/
theorem or_eq_add (a b i : Nat) (h : b < 2 ^ i) : a * 2 ^ i ||| b = a * 2 ^ i + b := by
  rw [← Nat.shiftLeft_eq, Nat.shiftLeft_add_eq_or_of_lt h]

theorem narrow'_normal (sign : BitVec 32) (e m : BitVec 64) (s E mm : Nat)
    (hsign : sign.toNat = s * 2 ^ 31) (he : e.toNat = E) (hE : 897 ≤ E) (hE' : E ≤ 1150)
    (hm : m.toNat = mm * 2 ^ 29) (hmm : mm < 2 ^ 23) :
    (narrow32' sign e m).toNat = s * 2 ^ 31 + (E - 896) * 2 ^ 23 + mm := by
  have h1 : (e == 0x7ff#64) = false := by simp [BitVec.toNat_eq]; omega
  have h2 : (e.ult 873#64) = false := by simp [BitVec.ult_eq_decide]; omega
  have h3 : (e.ult 897#64) = false := by simp [BitVec.ult_eq_decide]; omega
  have hrem : m &&& 0x1fffffff#64 = 0#64 := by
    apply BitVec.eq_of_toNat_eq
    rw [BitVec.toNat_and]
    show m.toNat &&& (2 ^ 29 - 1) = 0
    rw [Nat.and_two_pow_sub_one_eq_mod, hm]; omega
  have hr : (m >>> 29).toNat = mm := by
    rw [BitVec.toNat_ushiftRight, Nat.shiftRight_eq_div_pow, hm]; omega
  have hb : (((e - 896#64) <<< 23) ||| (m >>> 29)).toNat = (E - 896) * 2 ^ 23 + mm := by
    rw [BitVec.toNat_or, hr, BitVec.toNat_shiftLeft, BitVec.toNat_sub, he, Nat.shiftLeft_eq]
    have : (2 ^ 64 - (896#64).toNat + E) % 2 ^ 64 = E - 896 := by
      simp; omega
    rw [this]
    have : (E - 896) * 2 ^ 23 % 2 ^ 64 = (E - 896) * 2 ^ 23 := by omega
    rw [this, or_eq_add _ _ _ hmm]
  unfold narrow32'
  simp only [h1, h2, h3, hrem]
  have hu1 : (268435456#64).ult 0#64 = false := by decide
  have hu2 : (0#64 == 268435456#64) = false := by decide
  simp only [Bool.false_eq_true, if_false, hu1, hu2, Bool.false_and, Bool.or_false, BitVec.add_zero]
  have hule : (2139095040#64).ule ((e - 896#64) <<< 23 ||| m >>> 29) = false := by
    rw [BitVec.ule_eq_decide, hb]; simp; omega
  simp only [hule, Bool.false_eq_true, if_false]
  rw [BitVec.toNat_or, hsign, BitVec.toNat_setWidth, hb]
  have : ((E - 896) * 2 ^ 23 + mm) % 2 ^ 32 = (E - 896) * 2 ^ 23 + mm := by omega
  rw [this, or_eq_add]
  · omega
  · omega

theorem narrow'_inf (sign : BitVec 32) (s : Nat) (hsign : sign.toNat = s * 2 ^ 31) :
    (narrow32' sign 0x7ff#64 0#64).toNat = s * 2 ^ 31 + 255 * 2 ^ 23 := by
  have h1 : (0x7ff#64 == 0x7ff#64) = true := by decide
  have h2 : (0#64 == 0#64) = true := by decide
  unfold narrow32'
  simp only [h1, h2, if_true]
  rw [BitVec.toNat_or, hsign]
  show s * 2 ^ 31 ||| 255 * 2 ^ 23 = _
  rw [or_eq_add]; omega

theorem narrow'_zero (sign : BitVec 32) (m : BitVec 64) : narrow32' sign 0#64 m = sign := by
  have h1 : (0#64 == 0x7ff#64) = false := by decide
  have h2 : (0#64).ult 873#64 = true := by decide
  unfold narrow32'
  simp only [h1, h2, if_true, Bool.false_eq_true, if_false]

/-- subnormal result: the 53-bit significand `2^52 + M` is an exact multiple `Q * 2^sh` of the shift -/
theorem narrow'_sub (sign : BitVec 32) (e m : BitVec 64) (s E M Q sh : Nat)
    (hsign : sign.toNat = s * 2 ^ 31) (he : e.toNat = E) (hE : 873 ≤ E) (hE' : E ≤ 896)
    (hsh : sh = 926 - E)
    (hm : m.toNat = M) (hM : M < 2 ^ 52) (hQ : 2 ^ 52 + M = Q * 2 ^ sh) (hQ' : Q < 2 ^ 31) :
    (narrow32' sign e m).toNat = s * 2 ^ 31 + Q := by
  have h1 : (e == 0x7ff#64) = false := by simp [BitVec.toNat_eq]; omega
  have h2 : (e.ult 873#64) = false := by simp [BitVec.ult_eq_decide]; omega
  have h3 : (e.ult 897#64) = true := by simp [BitVec.ult_eq_decide]; omega
  have hfull : (m ||| 0x10000000000000#64).toNat = Q * 2 ^ sh := by
    rw [BitVec.toNat_or, hm, ← hQ, Nat.or_comm]
    show 1 * 2 ^ 52 ||| M = _
    rw [or_eq_add _ _ _ hM]
  have hs : (926#64 - e).toNat = sh := by
    rw [BitVec.toNat_sub, he]; simp; omega
  have hs1 : (926#64 - e - 1#64).toNat = sh - 1 := by
    rw [BitVec.toNat_sub, hs]; simp; omega
  have hshlt : sh < 64 := by omega
  have e1 : (1 : Nat) % 2 ^ 64 = 1 := by omega
  have hpow : 2 ^ sh < 2 ^ 64 := Nat.pow_lt_pow_right (by omega) hshlt
  have hpow1 : 2 ^ (sh - 1) < 2 ^ 64 := Nat.pow_lt_pow_right (by omega) (by omega)
  have hpos : 0 < 2 ^ sh := Nat.two_pow_pos _
  have hq : ((m ||| 0x10000000000000#64) >>> (926#64 - e)).toNat = Q := by
    rw [BitVec.ushiftRight_eq', BitVec.toNat_ushiftRight, hs, hfull, Nat.shiftRight_eq_div_pow,
      Nat.mul_div_cancel _ hpos]
  have hrem : (m ||| 0x10000000000000#64) &&& ((1#64 <<< (926#64 - e)) - 1#64) = 0#64 := by
    apply BitVec.eq_of_toNat_eq
    rw [BitVec.toNat_and, hfull, BitVec.toNat_sub, BitVec.shiftLeft_eq', BitVec.toNat_shiftLeft, hs]
    simp only [BitVec.toNat_ofNat, Nat.shiftLeft_eq, e1, Nat.one_mul]
    rw [Nat.mod_eq_of_lt hpow]
    have : (2 ^ 64 - 1 + 2 ^ sh) % 2 ^ 64 = 2 ^ sh - 1 := by omega
    rw [this, Nat.and_two_pow_sub_one_eq_mod, Nat.mul_mod_left]
  have hhalf : (1#64 <<< (926#64 - e - 1#64)).toNat = 2 ^ (sh - 1) := by
    rw [BitVec.shiftLeft_eq', BitVec.toNat_shiftLeft, hs1]
    simp only [BitVec.toNat_ofNat, Nat.shiftLeft_eq, e1, Nat.one_mul]
    rw [Nat.mod_eq_of_lt hpow1]
  have hpos1 : 0 < 2 ^ (sh - 1) := Nat.two_pow_pos _
  have hu1 : (1#64 <<< (926#64 - e - 1#64)).ult 0#64 = false := by
    rw [BitVec.ult_eq_decide]; simp
  have hu2 : (0#64 == 1#64 <<< (926#64 - e - 1#64)) = false := by
    apply beq_false_of_ne
    intro h
    have h' := congrArg BitVec.toNat h
    rw [hhalf] at h'
    simp only [BitVec.toNat_ofNat] at h'
    omega
  unfold narrow32'
  simp only [h1, h2, h3, hrem, hu1, hu2, if_true, Bool.false_eq_true, if_false, Bool.false_and, Bool.or_false]
  rw [BitVec.toNat_or, hsign, BitVec.toNat_setWidth, hq]
  have : Q % 2 ^ 32 = Q := by omega
  rw [this, or_eq_add _ _ _ hQ']


/-! ### `widen64` as a function of sign / exponent / mantissa; the subnormal cascade -/

def widenSub (sign : BitVec 64) (m : BitVec 32) : BitVec 64 :=
  if m &&& 0x400000#32 != 0#32 then
    sign ||| (896#64 <<< 52) ||| (((((m <<< 1) &&& 0x7fffff#32).zeroExtend 64)) <<< 29)
  else
  if m &&& 0x200000#32 != 0#32 then
    sign ||| (895#64 <<< 52) ||| (((((m <<< 2) &&& 0x7fffff#32).zeroExtend 64)) <<< 29)
  else
  if m &&& 0x100000#32 != 0#32 then
    sign ||| (894#64 <<< 52) ||| (((((m <<< 3) &&& 0x7fffff#32).zeroExtend 64)) <<< 29)
  else
  if m &&& 0x80000#32 != 0#32 then
    sign ||| (893#64 <<< 52) ||| (((((m <<< 4) &&& 0x7fffff#32).zeroExtend 64)) <<< 29)
  else
  if m &&& 0x40000#32 != 0#32 then
    sign ||| (892#64 <<< 52) ||| (((((m <<< 5) &&& 0x7fffff#32).zeroExtend 64)) <<< 29)
  else
  if m &&& 0x20000#32 != 0#32 then
    sign ||| (891#64 <<< 52) ||| (((((m <<< 6) &&& 0x7fffff#32).zeroExtend 64)) <<< 29)
  else
  if m &&& 0x10000#32 != 0#32 then
    sign ||| (890#64 <<< 52) ||| (((((m <<< 7) &&& 0x7fffff#32).zeroExtend 64)) <<< 29)
  else
  if m &&& 0x8000#32 != 0#32 then
    sign ||| (889#64 <<< 52) ||| (((((m <<< 8) &&& 0x7fffff#32).zeroExtend 64)) <<< 29)
  else
  if m &&& 0x4000#32 != 0#32 then
    sign ||| (888#64 <<< 52) ||| (((((m <<< 9) &&& 0x7fffff#32).zeroExtend 64)) <<< 29)
  else
  if m &&& 0x2000#32 != 0#32 then
    sign ||| (887#64 <<< 52) ||| (((((m <<< 10) &&& 0x7fffff#32).zeroExtend 64)) <<< 29)
  else
  if m &&& 0x1000#32 != 0#32 then
    sign ||| (886#64 <<< 52) ||| (((((m <<< 11) &&& 0x7fffff#32).zeroExtend 64)) <<< 29)
  else
  if m &&& 0x800#32 != 0#32 then
    sign ||| (885#64 <<< 52) ||| (((((m <<< 12) &&& 0x7fffff#32).zeroExtend 64)) <<< 29)
  else
  if m &&& 0x400#32 != 0#32 then
    sign ||| (884#64 <<< 52) ||| (((((m <<< 13) &&& 0x7fffff#32).zeroExtend 64)) <<< 29)
  else
  if m &&& 0x200#32 != 0#32 then
    sign ||| (883#64 <<< 52) ||| (((((m <<< 14) &&& 0x7fffff#32).zeroExtend 64)) <<< 29)
  else
  if m &&& 0x100#32 != 0#32 then
    sign ||| (882#64 <<< 52) ||| (((((m <<< 15) &&& 0x7fffff#32).zeroExtend 64)) <<< 29)
  else
  if m &&& 0x80#32 != 0#32 then
    sign ||| (881#64 <<< 52) ||| (((((m <<< 16) &&& 0x7fffff#32).zeroExtend 64)) <<< 29)
  else
  if m &&& 0x40#32 != 0#32 then
    sign ||| (880#64 <<< 52) ||| (((((m <<< 17) &&& 0x7fffff#32).zeroExtend 64)) <<< 29)
  else
  if m &&& 0x20#32 != 0#32 then
    sign ||| (879#64 <<< 52) ||| (((((m <<< 18) &&& 0x7fffff#32).zeroExtend 64)) <<< 29)
  else
  if m &&& 0x10#32 != 0#32 then
    sign ||| (878#64 <<< 52) ||| (((((m <<< 19) &&& 0x7fffff#32).zeroExtend 64)) <<< 29)
  else
  if m &&& 0x8#32 != 0#32 then
    sign ||| (877#64 <<< 52) ||| (((((m <<< 20) &&& 0x7fffff#32).zeroExtend 64)) <<< 29)
  else
  if m &&& 0x4#32 != 0#32 then
    sign ||| (876#64 <<< 52) ||| (((((m <<< 21) &&& 0x7fffff#32).zeroExtend 64)) <<< 29)
  else
  if m &&& 0x2#32 != 0#32 then
    sign ||| (875#64 <<< 52) ||| (((((m <<< 22) &&& 0x7fffff#32).zeroExtend 64)) <<< 29)
  else
  if m &&& 0x1#32 != 0#32 then
    sign ||| (874#64 <<< 52) ||| (((((m <<< 23) &&& 0x7fffff#32).zeroExtend 64)) <<< 29)
  else sign

def widen64' (sign : BitVec 64) (e m : BitVec 32) : BitVec 64 :=
  if e == 0xff#32 then
    if m == 0#32 then sign ||| 0x7ff0000000000000#64
    else sign ||| 0x7ff8000000000000#64 ||| ((m.zeroExtend 64) <<< 29)
  else if e == 0#32 then widenSub sign m
  else sign ||| (((e.zeroExtend 64) + 896#64) <<< 52) ||| ((m.zeroExtend 64) <<< 29)

theorem widen64_eq (x : BitVec 32) :
    widen64 x = widen64' (((x >>> 31).zeroExtend 64) <<< 63) ((x >>> 23) &&& 0xff#32) (x &&& 0x7fffff#32) := rfl

theorem bit_test (m : BitVec 32) (p : Nat) (hp : p < 32) :
    (m &&& BitVec.ofNat 32 (2 ^ p) != 0#32) = decide (m.toNat / 2 ^ p % 2 = 1) := by
  have : BitVec.ofNat 32 (2 ^ p) = BitVec.twoPow 32 p := by
    apply BitVec.eq_of_toNat_eq; simp [BitVec.toNat_twoPow]
  rw [this, BitVec.and_twoPow, ← Nat.testBit_eq_decide_div_mod_eq]
  show _ = m.getLsbD p
  cases h : m.getLsbD p
  · simp
  · simp only [if_true, bne_iff_ne, ne_eq]
    intro h0
    have h1 := congrArg BitVec.toNat h0
    rw [BitVec.toNat_twoPow, Nat.mod_eq_of_lt (Nat.pow_lt_pow_right (by omega) hp)] at h1
    have := Nat.two_pow_pos p
    simp only [BitVec.toNat_ofNat, Nat.zero_mod] at h1
    omega

theorem bit_clear (m : BitVec 32) (p : Nat) (hp : p < 32) (h : m.toNat < 2 ^ p) :
    (m &&& BitVec.ofNat 32 (2 ^ p) != 0#32) = false := by
  rw [bit_test m p hp, Nat.div_eq_of_lt h]; rfl

theorem bit_set (m : BitVec 32) (p : Nat) (hp : p < 32) (h : 2 ^ p ≤ m.toNat) (h' : m.toNat < 2 ^ (p + 1)) :
    (m &&& BitVec.ofNat 32 (2 ^ p) != 0#32) = true := by
  rw [bit_test m p hp]
  have : m.toNat / 2 ^ p = 1 := by
    rw [Nat.pow_succ] at h'
    apply Nat.div_eq_of_lt_le
    · omega
    · omega
  rw [this]; rfl

theorem widenSub_22 (sign : BitVec 64) (m : BitVec 32) (lo : 2 ^ 22 ≤ m.toNat) (hi : m.toNat < 2 ^ (22 + 1)) :
    widenSub sign m = sign ||| (896#64 <<< 52) ||| (((((m <<< 1) &&& 0x7fffff#32).zeroExtend 64)) <<< 29) := by
  have c22 : (m &&& 0x400000#32 != 0#32) = true := bit_set m 22 (by omega) lo hi
  unfold widenSub
  simp only [c22, if_true]

theorem widenSub_21 (sign : BitVec 64) (m : BitVec 32) (lo : 2 ^ 21 ≤ m.toNat) (hi : m.toNat < 2 ^ (21 + 1)) :
    widenSub sign m = sign ||| (895#64 <<< 52) ||| (((((m <<< 2) &&& 0x7fffff#32).zeroExtend 64)) <<< 29) := by
  have c22 : (m &&& 0x400000#32 != 0#32) = false := bit_clear m 22 (by omega) (by omega)
  have c21 : (m &&& 0x200000#32 != 0#32) = true := bit_set m 21 (by omega) lo hi
  unfold widenSub
  simp only [c22, c21, Bool.false_eq_true, if_false, if_true]

theorem widenSub_20 (sign : BitVec 64) (m : BitVec 32) (lo : 2 ^ 20 ≤ m.toNat) (hi : m.toNat < 2 ^ (20 + 1)) :
    widenSub sign m = sign ||| (894#64 <<< 52) ||| (((((m <<< 3) &&& 0x7fffff#32).zeroExtend 64)) <<< 29) := by
  have c22 : (m &&& 0x400000#32 != 0#32) = false := bit_clear m 22 (by omega) (by omega)
  have c21 : (m &&& 0x200000#32 != 0#32) = false := bit_clear m 21 (by omega) (by omega)
  have c20 : (m &&& 0x100000#32 != 0#32) = true := bit_set m 20 (by omega) lo hi
  unfold widenSub
  simp only [c22, c21, c20, Bool.false_eq_true, if_false, if_true]

theorem widenSub_19 (sign : BitVec 64) (m : BitVec 32) (lo : 2 ^ 19 ≤ m.toNat) (hi : m.toNat < 2 ^ (19 + 1)) :
    widenSub sign m = sign ||| (893#64 <<< 52) ||| (((((m <<< 4) &&& 0x7fffff#32).zeroExtend 64)) <<< 29) := by
  have c22 : (m &&& 0x400000#32 != 0#32) = false := bit_clear m 22 (by omega) (by omega)
  have c21 : (m &&& 0x200000#32 != 0#32) = false := bit_clear m 21 (by omega) (by omega)
  have c20 : (m &&& 0x100000#32 != 0#32) = false := bit_clear m 20 (by omega) (by omega)
  have c19 : (m &&& 0x80000#32 != 0#32) = true := bit_set m 19 (by omega) lo hi
  unfold widenSub
  simp only [c22, c21, c20, c19, Bool.false_eq_true, if_false, if_true]

theorem widenSub_18 (sign : BitVec 64) (m : BitVec 32) (lo : 2 ^ 18 ≤ m.toNat) (hi : m.toNat < 2 ^ (18 + 1)) :
    widenSub sign m = sign ||| (892#64 <<< 52) ||| (((((m <<< 5) &&& 0x7fffff#32).zeroExtend 64)) <<< 29) := by
  have c22 : (m &&& 0x400000#32 != 0#32) = false := bit_clear m 22 (by omega) (by omega)
  have c21 : (m &&& 0x200000#32 != 0#32) = false := bit_clear m 21 (by omega) (by omega)
  have c20 : (m &&& 0x100000#32 != 0#32) = false := bit_clear m 20 (by omega) (by omega)
  have c19 : (m &&& 0x80000#32 != 0#32) = false := bit_clear m 19 (by omega) (by omega)
  have c18 : (m &&& 0x40000#32 != 0#32) = true := bit_set m 18 (by omega) lo hi
  unfold widenSub
  simp only [c22, c21, c20, c19, c18, Bool.false_eq_true, if_false, if_true]

theorem widenSub_17 (sign : BitVec 64) (m : BitVec 32) (lo : 2 ^ 17 ≤ m.toNat) (hi : m.toNat < 2 ^ (17 + 1)) :
    widenSub sign m = sign ||| (891#64 <<< 52) ||| (((((m <<< 6) &&& 0x7fffff#32).zeroExtend 64)) <<< 29) := by
  have c22 : (m &&& 0x400000#32 != 0#32) = false := bit_clear m 22 (by omega) (by omega)
  have c21 : (m &&& 0x200000#32 != 0#32) = false := bit_clear m 21 (by omega) (by omega)
  have c20 : (m &&& 0x100000#32 != 0#32) = false := bit_clear m 20 (by omega) (by omega)
  have c19 : (m &&& 0x80000#32 != 0#32) = false := bit_clear m 19 (by omega) (by omega)
  have c18 : (m &&& 0x40000#32 != 0#32) = false := bit_clear m 18 (by omega) (by omega)
  have c17 : (m &&& 0x20000#32 != 0#32) = true := bit_set m 17 (by omega) lo hi
  unfold widenSub
  simp only [c22, c21, c20, c19, c18, c17, Bool.false_eq_true, if_false, if_true]

theorem widenSub_16 (sign : BitVec 64) (m : BitVec 32) (lo : 2 ^ 16 ≤ m.toNat) (hi : m.toNat < 2 ^ (16 + 1)) :
    widenSub sign m = sign ||| (890#64 <<< 52) ||| (((((m <<< 7) &&& 0x7fffff#32).zeroExtend 64)) <<< 29) := by
  have c22 : (m &&& 0x400000#32 != 0#32) = false := bit_clear m 22 (by omega) (by omega)
  have c21 : (m &&& 0x200000#32 != 0#32) = false := bit_clear m 21 (by omega) (by omega)
  have c20 : (m &&& 0x100000#32 != 0#32) = false := bit_clear m 20 (by omega) (by omega)
  have c19 : (m &&& 0x80000#32 != 0#32) = false := bit_clear m 19 (by omega) (by omega)
  have c18 : (m &&& 0x40000#32 != 0#32) = false := bit_clear m 18 (by omega) (by omega)
  have c17 : (m &&& 0x20000#32 != 0#32) = false := bit_clear m 17 (by omega) (by omega)
  have c16 : (m &&& 0x10000#32 != 0#32) = true := bit_set m 16 (by omega) lo hi
  unfold widenSub
  simp only [c22, c21, c20, c19, c18, c17, c16, Bool.false_eq_true, if_false, if_true]

theorem widenSub_15 (sign : BitVec 64) (m : BitVec 32) (lo : 2 ^ 15 ≤ m.toNat) (hi : m.toNat < 2 ^ (15 + 1)) :
    widenSub sign m = sign ||| (889#64 <<< 52) ||| (((((m <<< 8) &&& 0x7fffff#32).zeroExtend 64)) <<< 29) := by
  have c22 : (m &&& 0x400000#32 != 0#32) = false := bit_clear m 22 (by omega) (by omega)
  have c21 : (m &&& 0x200000#32 != 0#32) = false := bit_clear m 21 (by omega) (by omega)
  have c20 : (m &&& 0x100000#32 != 0#32) = false := bit_clear m 20 (by omega) (by omega)
  have c19 : (m &&& 0x80000#32 != 0#32) = false := bit_clear m 19 (by omega) (by omega)
  have c18 : (m &&& 0x40000#32 != 0#32) = false := bit_clear m 18 (by omega) (by omega)
  have c17 : (m &&& 0x20000#32 != 0#32) = false := bit_clear m 17 (by omega) (by omega)
  have c16 : (m &&& 0x10000#32 != 0#32) = false := bit_clear m 16 (by omega) (by omega)
  have c15 : (m &&& 0x8000#32 != 0#32) = true := bit_set m 15 (by omega) lo hi
  unfold widenSub
  simp only [c22, c21, c20, c19, c18, c17, c16, c15, Bool.false_eq_true, if_false, if_true]

theorem widenSub_14 (sign : BitVec 64) (m : BitVec 32) (lo : 2 ^ 14 ≤ m.toNat) (hi : m.toNat < 2 ^ (14 + 1)) :
    widenSub sign m = sign ||| (888#64 <<< 52) ||| (((((m <<< 9) &&& 0x7fffff#32).zeroExtend 64)) <<< 29) := by
  have c22 : (m &&& 0x400000#32 != 0#32) = false := bit_clear m 22 (by omega) (by omega)
  have c21 : (m &&& 0x200000#32 != 0#32) = false := bit_clear m 21 (by omega) (by omega)
  have c20 : (m &&& 0x100000#32 != 0#32) = false := bit_clear m 20 (by omega) (by omega)
  have c19 : (m &&& 0x80000#32 != 0#32) = false := bit_clear m 19 (by omega) (by omega)
  have c18 : (m &&& 0x40000#32 != 0#32) = false := bit_clear m 18 (by omega) (by omega)
  have c17 : (m &&& 0x20000#32 != 0#32) = false := bit_clear m 17 (by omega) (by omega)
  have c16 : (m &&& 0x10000#32 != 0#32) = false := bit_clear m 16 (by omega) (by omega)
  have c15 : (m &&& 0x8000#32 != 0#32) = false := bit_clear m 15 (by omega) (by omega)
  have c14 : (m &&& 0x4000#32 != 0#32) = true := bit_set m 14 (by omega) lo hi
  unfold widenSub
  simp only [c22, c21, c20, c19, c18, c17, c16, c15, c14, Bool.false_eq_true, if_false, if_true]

theorem widenSub_13 (sign : BitVec 64) (m : BitVec 32) (lo : 2 ^ 13 ≤ m.toNat) (hi : m.toNat < 2 ^ (13 + 1)) :
    widenSub sign m = sign ||| (887#64 <<< 52) ||| (((((m <<< 10) &&& 0x7fffff#32).zeroExtend 64)) <<< 29) := by
  have c22 : (m &&& 0x400000#32 != 0#32) = false := bit_clear m 22 (by omega) (by omega)
  have c21 : (m &&& 0x200000#32 != 0#32) = false := bit_clear m 21 (by omega) (by omega)
  have c20 : (m &&& 0x100000#32 != 0#32) = false := bit_clear m 20 (by omega) (by omega)
  have c19 : (m &&& 0x80000#32 != 0#32) = false := bit_clear m 19 (by omega) (by omega)
  have c18 : (m &&& 0x40000#32 != 0#32) = false := bit_clear m 18 (by omega) (by omega)
  have c17 : (m &&& 0x20000#32 != 0#32) = false := bit_clear m 17 (by omega) (by omega)
  have c16 : (m &&& 0x10000#32 != 0#32) = false := bit_clear m 16 (by omega) (by omega)
  have c15 : (m &&& 0x8000#32 != 0#32) = false := bit_clear m 15 (by omega) (by omega)
  have c14 : (m &&& 0x4000#32 != 0#32) = false := bit_clear m 14 (by omega) (by omega)
  have c13 : (m &&& 0x2000#32 != 0#32) = true := bit_set m 13 (by omega) lo hi
  unfold widenSub
  simp only [c22, c21, c20, c19, c18, c17, c16, c15, c14, c13, Bool.false_eq_true, if_false, if_true]

theorem widenSub_12 (sign : BitVec 64) (m : BitVec 32) (lo : 2 ^ 12 ≤ m.toNat) (hi : m.toNat < 2 ^ (12 + 1)) :
    widenSub sign m = sign ||| (886#64 <<< 52) ||| (((((m <<< 11) &&& 0x7fffff#32).zeroExtend 64)) <<< 29) := by
  have c22 : (m &&& 0x400000#32 != 0#32) = false := bit_clear m 22 (by omega) (by omega)
  have c21 : (m &&& 0x200000#32 != 0#32) = false := bit_clear m 21 (by omega) (by omega)
  have c20 : (m &&& 0x100000#32 != 0#32) = false := bit_clear m 20 (by omega) (by omega)
  have c19 : (m &&& 0x80000#32 != 0#32) = false := bit_clear m 19 (by omega) (by omega)
  have c18 : (m &&& 0x40000#32 != 0#32) = false := bit_clear m 18 (by omega) (by omega)
  have c17 : (m &&& 0x20000#32 != 0#32) = false := bit_clear m 17 (by omega) (by omega)
  have c16 : (m &&& 0x10000#32 != 0#32) = false := bit_clear m 16 (by omega) (by omega)
  have c15 : (m &&& 0x8000#32 != 0#32) = false := bit_clear m 15 (by omega) (by omega)
  have c14 : (m &&& 0x4000#32 != 0#32) = false := bit_clear m 14 (by omega) (by omega)
  have c13 : (m &&& 0x2000#32 != 0#32) = false := bit_clear m 13 (by omega) (by omega)
  have c12 : (m &&& 0x1000#32 != 0#32) = true := bit_set m 12 (by omega) lo hi
  unfold widenSub
  simp only [c22, c21, c20, c19, c18, c17, c16, c15, c14, c13, c12, Bool.false_eq_true, if_false, if_true]

theorem widenSub_11 (sign : BitVec 64) (m : BitVec 32) (lo : 2 ^ 11 ≤ m.toNat) (hi : m.toNat < 2 ^ (11 + 1)) :
    widenSub sign m = sign ||| (885#64 <<< 52) ||| (((((m <<< 12) &&& 0x7fffff#32).zeroExtend 64)) <<< 29) := by
  have c22 : (m &&& 0x400000#32 != 0#32) = false := bit_clear m 22 (by omega) (by omega)
  have c21 : (m &&& 0x200000#32 != 0#32) = false := bit_clear m 21 (by omega) (by omega)
  have c20 : (m &&& 0x100000#32 != 0#32) = false := bit_clear m 20 (by omega) (by omega)
  have c19 : (m &&& 0x80000#32 != 0#32) = false := bit_clear m 19 (by omega) (by omega)
  have c18 : (m &&& 0x40000#32 != 0#32) = false := bit_clear m 18 (by omega) (by omega)
  have c17 : (m &&& 0x20000#32 != 0#32) = false := bit_clear m 17 (by omega) (by omega)
  have c16 : (m &&& 0x10000#32 != 0#32) = false := bit_clear m 16 (by omega) (by omega)
  have c15 : (m &&& 0x8000#32 != 0#32) = false := bit_clear m 15 (by omega) (by omega)
  have c14 : (m &&& 0x4000#32 != 0#32) = false := bit_clear m 14 (by omega) (by omega)
  have c13 : (m &&& 0x2000#32 != 0#32) = false := bit_clear m 13 (by omega) (by omega)
  have c12 : (m &&& 0x1000#32 != 0#32) = false := bit_clear m 12 (by omega) (by omega)
  have c11 : (m &&& 0x800#32 != 0#32) = true := bit_set m 11 (by omega) lo hi
  unfold widenSub
  simp only [c22, c21, c20, c19, c18, c17, c16, c15, c14, c13, c12, c11, Bool.false_eq_true, if_false, if_true]

theorem widenSub_10 (sign : BitVec 64) (m : BitVec 32) (lo : 2 ^ 10 ≤ m.toNat) (hi : m.toNat < 2 ^ (10 + 1)) :
    widenSub sign m = sign ||| (884#64 <<< 52) ||| (((((m <<< 13) &&& 0x7fffff#32).zeroExtend 64)) <<< 29) := by
  have c22 : (m &&& 0x400000#32 != 0#32) = false := bit_clear m 22 (by omega) (by omega)
  have c21 : (m &&& 0x200000#32 != 0#32) = false := bit_clear m 21 (by omega) (by omega)
  have c20 : (m &&& 0x100000#32 != 0#32) = false := bit_clear m 20 (by omega) (by omega)
  have c19 : (m &&& 0x80000#32 != 0#32) = false := bit_clear m 19 (by omega) (by omega)
  have c18 : (m &&& 0x40000#32 != 0#32) = false := bit_clear m 18 (by omega) (by omega)
  have c17 : (m &&& 0x20000#32 != 0#32) = false := bit_clear m 17 (by omega) (by omega)
  have c16 : (m &&& 0x10000#32 != 0#32) = false := bit_clear m 16 (by omega) (by omega)
  have c15 : (m &&& 0x8000#32 != 0#32) = false := bit_clear m 15 (by omega) (by omega)
  have c14 : (m &&& 0x4000#32 != 0#32) = false := bit_clear m 14 (by omega) (by omega)
  have c13 : (m &&& 0x2000#32 != 0#32) = false := bit_clear m 13 (by omega) (by omega)
  have c12 : (m &&& 0x1000#32 != 0#32) = false := bit_clear m 12 (by omega) (by omega)
  have c11 : (m &&& 0x800#32 != 0#32) = false := bit_clear m 11 (by omega) (by omega)
  have c10 : (m &&& 0x400#32 != 0#32) = true := bit_set m 10 (by omega) lo hi
  unfold widenSub
  simp only [c22, c21, c20, c19, c18, c17, c16, c15, c14, c13, c12, c11, c10, Bool.false_eq_true, if_false, if_true]

theorem widenSub_9 (sign : BitVec 64) (m : BitVec 32) (lo : 2 ^ 9 ≤ m.toNat) (hi : m.toNat < 2 ^ (9 + 1)) :
    widenSub sign m = sign ||| (883#64 <<< 52) ||| (((((m <<< 14) &&& 0x7fffff#32).zeroExtend 64)) <<< 29) := by
  have c22 : (m &&& 0x400000#32 != 0#32) = false := bit_clear m 22 (by omega) (by omega)
  have c21 : (m &&& 0x200000#32 != 0#32) = false := bit_clear m 21 (by omega) (by omega)
  have c20 : (m &&& 0x100000#32 != 0#32) = false := bit_clear m 20 (by omega) (by omega)
  have c19 : (m &&& 0x80000#32 != 0#32) = false := bit_clear m 19 (by omega) (by omega)
  have c18 : (m &&& 0x40000#32 != 0#32) = false := bit_clear m 18 (by omega) (by omega)
  have c17 : (m &&& 0x20000#32 != 0#32) = false := bit_clear m 17 (by omega) (by omega)
  have c16 : (m &&& 0x10000#32 != 0#32) = false := bit_clear m 16 (by omega) (by omega)
  have c15 : (m &&& 0x8000#32 != 0#32) = false := bit_clear m 15 (by omega) (by omega)
  have c14 : (m &&& 0x4000#32 != 0#32) = false := bit_clear m 14 (by omega) (by omega)
  have c13 : (m &&& 0x2000#32 != 0#32) = false := bit_clear m 13 (by omega) (by omega)
  have c12 : (m &&& 0x1000#32 != 0#32) = false := bit_clear m 12 (by omega) (by omega)
  have c11 : (m &&& 0x800#32 != 0#32) = false := bit_clear m 11 (by omega) (by omega)
  have c10 : (m &&& 0x400#32 != 0#32) = false := bit_clear m 10 (by omega) (by omega)
  have c9 : (m &&& 0x200#32 != 0#32) = true := bit_set m 9 (by omega) lo hi
  unfold widenSub
  simp only [c22, c21, c20, c19, c18, c17, c16, c15, c14, c13, c12, c11, c10, c9, Bool.false_eq_true, if_false, if_true]

theorem widenSub_8 (sign : BitVec 64) (m : BitVec 32) (lo : 2 ^ 8 ≤ m.toNat) (hi : m.toNat < 2 ^ (8 + 1)) :
    widenSub sign m = sign ||| (882#64 <<< 52) ||| (((((m <<< 15) &&& 0x7fffff#32).zeroExtend 64)) <<< 29) := by
  have c22 : (m &&& 0x400000#32 != 0#32) = false := bit_clear m 22 (by omega) (by omega)
  have c21 : (m &&& 0x200000#32 != 0#32) = false := bit_clear m 21 (by omega) (by omega)
  have c20 : (m &&& 0x100000#32 != 0#32) = false := bit_clear m 20 (by omega) (by omega)
  have c19 : (m &&& 0x80000#32 != 0#32) = false := bit_clear m 19 (by omega) (by omega)
  have c18 : (m &&& 0x40000#32 != 0#32) = false := bit_clear m 18 (by omega) (by omega)
  have c17 : (m &&& 0x20000#32 != 0#32) = false := bit_clear m 17 (by omega) (by omega)
  have c16 : (m &&& 0x10000#32 != 0#32) = false := bit_clear m 16 (by omega) (by omega)
  have c15 : (m &&& 0x8000#32 != 0#32) = false := bit_clear m 15 (by omega) (by omega)
  have c14 : (m &&& 0x4000#32 != 0#32) = false := bit_clear m 14 (by omega) (by omega)
  have c13 : (m &&& 0x2000#32 != 0#32) = false := bit_clear m 13 (by omega) (by omega)
  have c12 : (m &&& 0x1000#32 != 0#32) = false := bit_clear m 12 (by omega) (by omega)
  have c11 : (m &&& 0x800#32 != 0#32) = false := bit_clear m 11 (by omega) (by omega)
  have c10 : (m &&& 0x400#32 != 0#32) = false := bit_clear m 10 (by omega) (by omega)
  have c9 : (m &&& 0x200#32 != 0#32) = false := bit_clear m 9 (by omega) (by omega)
  have c8 : (m &&& 0x100#32 != 0#32) = true := bit_set m 8 (by omega) lo hi
  unfold widenSub
  simp only [c22, c21, c20, c19, c18, c17, c16, c15, c14, c13, c12, c11, c10, c9, c8, Bool.false_eq_true, if_false, if_true]

theorem widenSub_7 (sign : BitVec 64) (m : BitVec 32) (lo : 2 ^ 7 ≤ m.toNat) (hi : m.toNat < 2 ^ (7 + 1)) :
    widenSub sign m = sign ||| (881#64 <<< 52) ||| (((((m <<< 16) &&& 0x7fffff#32).zeroExtend 64)) <<< 29) := by
  have c22 : (m &&& 0x400000#32 != 0#32) = false := bit_clear m 22 (by omega) (by omega)
  have c21 : (m &&& 0x200000#32 != 0#32) = false := bit_clear m 21 (by omega) (by omega)
  have c20 : (m &&& 0x100000#32 != 0#32) = false := bit_clear m 20 (by omega) (by omega)
  have c19 : (m &&& 0x80000#32 != 0#32) = false := bit_clear m 19 (by omega) (by omega)
  have c18 : (m &&& 0x40000#32 != 0#32) = false := bit_clear m 18 (by omega) (by omega)
  have c17 : (m &&& 0x20000#32 != 0#32) = false := bit_clear m 17 (by omega) (by omega)
  have c16 : (m &&& 0x10000#32 != 0#32) = false := bit_clear m 16 (by omega) (by omega)
  have c15 : (m &&& 0x8000#32 != 0#32) = false := bit_clear m 15 (by omega) (by omega)
  have c14 : (m &&& 0x4000#32 != 0#32) = false := bit_clear m 14 (by omega) (by omega)
  have c13 : (m &&& 0x2000#32 != 0#32) = false := bit_clear m 13 (by omega) (by omega)
  have c12 : (m &&& 0x1000#32 != 0#32) = false := bit_clear m 12 (by omega) (by omega)
  have c11 : (m &&& 0x800#32 != 0#32) = false := bit_clear m 11 (by omega) (by omega)
  have c10 : (m &&& 0x400#32 != 0#32) = false := bit_clear m 10 (by omega) (by omega)
  have c9 : (m &&& 0x200#32 != 0#32) = false := bit_clear m 9 (by omega) (by omega)
  have c8 : (m &&& 0x100#32 != 0#32) = false := bit_clear m 8 (by omega) (by omega)
  have c7 : (m &&& 0x80#32 != 0#32) = true := bit_set m 7 (by omega) lo hi
  unfold widenSub
  simp only [c22, c21, c20, c19, c18, c17, c16, c15, c14, c13, c12, c11, c10, c9, c8, c7, Bool.false_eq_true, if_false, if_true]

theorem widenSub_6 (sign : BitVec 64) (m : BitVec 32) (lo : 2 ^ 6 ≤ m.toNat) (hi : m.toNat < 2 ^ (6 + 1)) :
    widenSub sign m = sign ||| (880#64 <<< 52) ||| (((((m <<< 17) &&& 0x7fffff#32).zeroExtend 64)) <<< 29) := by
  have c22 : (m &&& 0x400000#32 != 0#32) = false := bit_clear m 22 (by omega) (by omega)
  have c21 : (m &&& 0x200000#32 != 0#32) = false := bit_clear m 21 (by omega) (by omega)
  have c20 : (m &&& 0x100000#32 != 0#32) = false := bit_clear m 20 (by omega) (by omega)
  have c19 : (m &&& 0x80000#32 != 0#32) = false := bit_clear m 19 (by omega) (by omega)
  have c18 : (m &&& 0x40000#32 != 0#32) = false := bit_clear m 18 (by omega) (by omega)
  have c17 : (m &&& 0x20000#32 != 0#32) = false := bit_clear m 17 (by omega) (by omega)
  have c16 : (m &&& 0x10000#32 != 0#32) = false := bit_clear m 16 (by omega) (by omega)
  have c15 : (m &&& 0x8000#32 != 0#32) = false := bit_clear m 15 (by omega) (by omega)
  have c14 : (m &&& 0x4000#32 != 0#32) = false := bit_clear m 14 (by omega) (by omega)
  have c13 : (m &&& 0x2000#32 != 0#32) = false := bit_clear m 13 (by omega) (by omega)
  have c12 : (m &&& 0x1000#32 != 0#32) = false := bit_clear m 12 (by omega) (by omega)
  have c11 : (m &&& 0x800#32 != 0#32) = false := bit_clear m 11 (by omega) (by omega)
  have c10 : (m &&& 0x400#32 != 0#32) = false := bit_clear m 10 (by omega) (by omega)
  have c9 : (m &&& 0x200#32 != 0#32) = false := bit_clear m 9 (by omega) (by omega)
  have c8 : (m &&& 0x100#32 != 0#32) = false := bit_clear m 8 (by omega) (by omega)
  have c7 : (m &&& 0x80#32 != 0#32) = false := bit_clear m 7 (by omega) (by omega)
  have c6 : (m &&& 0x40#32 != 0#32) = true := bit_set m 6 (by omega) lo hi
  unfold widenSub
  simp only [c22, c21, c20, c19, c18, c17, c16, c15, c14, c13, c12, c11, c10, c9, c8, c7, c6, Bool.false_eq_true, if_false, if_true]

theorem widenSub_5 (sign : BitVec 64) (m : BitVec 32) (lo : 2 ^ 5 ≤ m.toNat) (hi : m.toNat < 2 ^ (5 + 1)) :
    widenSub sign m = sign ||| (879#64 <<< 52) ||| (((((m <<< 18) &&& 0x7fffff#32).zeroExtend 64)) <<< 29) := by
  have c22 : (m &&& 0x400000#32 != 0#32) = false := bit_clear m 22 (by omega) (by omega)
  have c21 : (m &&& 0x200000#32 != 0#32) = false := bit_clear m 21 (by omega) (by omega)
  have c20 : (m &&& 0x100000#32 != 0#32) = false := bit_clear m 20 (by omega) (by omega)
  have c19 : (m &&& 0x80000#32 != 0#32) = false := bit_clear m 19 (by omega) (by omega)
  have c18 : (m &&& 0x40000#32 != 0#32) = false := bit_clear m 18 (by omega) (by omega)
  have c17 : (m &&& 0x20000#32 != 0#32) = false := bit_clear m 17 (by omega) (by omega)
  have c16 : (m &&& 0x10000#32 != 0#32) = false := bit_clear m 16 (by omega) (by omega)
  have c15 : (m &&& 0x8000#32 != 0#32) = false := bit_clear m 15 (by omega) (by omega)
  have c14 : (m &&& 0x4000#32 != 0#32) = false := bit_clear m 14 (by omega) (by omega)
  have c13 : (m &&& 0x2000#32 != 0#32) = false := bit_clear m 13 (by omega) (by omega)
  have c12 : (m &&& 0x1000#32 != 0#32) = false := bit_clear m 12 (by omega) (by omega)
  have c11 : (m &&& 0x800#32 != 0#32) = false := bit_clear m 11 (by omega) (by omega)
  have c10 : (m &&& 0x400#32 != 0#32) = false := bit_clear m 10 (by omega) (by omega)
  have c9 : (m &&& 0x200#32 != 0#32) = false := bit_clear m 9 (by omega) (by omega)
  have c8 : (m &&& 0x100#32 != 0#32) = false := bit_clear m 8 (by omega) (by omega)
  have c7 : (m &&& 0x80#32 != 0#32) = false := bit_clear m 7 (by omega) (by omega)
  have c6 : (m &&& 0x40#32 != 0#32) = false := bit_clear m 6 (by omega) (by omega)
  have c5 : (m &&& 0x20#32 != 0#32) = true := bit_set m 5 (by omega) lo hi
  unfold widenSub
  simp only [c22, c21, c20, c19, c18, c17, c16, c15, c14, c13, c12, c11, c10, c9, c8, c7, c6, c5, Bool.false_eq_true, if_false, if_true]

theorem widenSub_4 (sign : BitVec 64) (m : BitVec 32) (lo : 2 ^ 4 ≤ m.toNat) (hi : m.toNat < 2 ^ (4 + 1)) :
    widenSub sign m = sign ||| (878#64 <<< 52) ||| (((((m <<< 19) &&& 0x7fffff#32).zeroExtend 64)) <<< 29) := by
  have c22 : (m &&& 0x400000#32 != 0#32) = false := bit_clear m 22 (by omega) (by omega)
  have c21 : (m &&& 0x200000#32 != 0#32) = false := bit_clear m 21 (by omega) (by omega)
  have c20 : (m &&& 0x100000#32 != 0#32) = false := bit_clear m 20 (by omega) (by omega)
  have c19 : (m &&& 0x80000#32 != 0#32) = false := bit_clear m 19 (by omega) (by omega)
  have c18 : (m &&& 0x40000#32 != 0#32) = false := bit_clear m 18 (by omega) (by omega)
  have c17 : (m &&& 0x20000#32 != 0#32) = false := bit_clear m 17 (by omega) (by omega)
  have c16 : (m &&& 0x10000#32 != 0#32) = false := bit_clear m 16 (by omega) (by omega)
  have c15 : (m &&& 0x8000#32 != 0#32) = false := bit_clear m 15 (by omega) (by omega)
  have c14 : (m &&& 0x4000#32 != 0#32) = false := bit_clear m 14 (by omega) (by omega)
  have c13 : (m &&& 0x2000#32 != 0#32) = false := bit_clear m 13 (by omega) (by omega)
  have c12 : (m &&& 0x1000#32 != 0#32) = false := bit_clear m 12 (by omega) (by omega)
  have c11 : (m &&& 0x800#32 != 0#32) = false := bit_clear m 11 (by omega) (by omega)
  have c10 : (m &&& 0x400#32 != 0#32) = false := bit_clear m 10 (by omega) (by omega)
  have c9 : (m &&& 0x200#32 != 0#32) = false := bit_clear m 9 (by omega) (by omega)
  have c8 : (m &&& 0x100#32 != 0#32) = false := bit_clear m 8 (by omega) (by omega)
  have c7 : (m &&& 0x80#32 != 0#32) = false := bit_clear m 7 (by omega) (by omega)
  have c6 : (m &&& 0x40#32 != 0#32) = false := bit_clear m 6 (by omega) (by omega)
  have c5 : (m &&& 0x20#32 != 0#32) = false := bit_clear m 5 (by omega) (by omega)
  have c4 : (m &&& 0x10#32 != 0#32) = true := bit_set m 4 (by omega) lo hi
  unfold widenSub
  simp only [c22, c21, c20, c19, c18, c17, c16, c15, c14, c13, c12, c11, c10, c9, c8, c7, c6, c5, c4, Bool.false_eq_true, if_false, if_true]

theorem widenSub_3 (sign : BitVec 64) (m : BitVec 32) (lo : 2 ^ 3 ≤ m.toNat) (hi : m.toNat < 2 ^ (3 + 1)) :
    widenSub sign m = sign ||| (877#64 <<< 52) ||| (((((m <<< 20) &&& 0x7fffff#32).zeroExtend 64)) <<< 29) := by
  have c22 : (m &&& 0x400000#32 != 0#32) = false := bit_clear m 22 (by omega) (by omega)
  have c21 : (m &&& 0x200000#32 != 0#32) = false := bit_clear m 21 (by omega) (by omega)
  have c20 : (m &&& 0x100000#32 != 0#32) = false := bit_clear m 20 (by omega) (by omega)
  have c19 : (m &&& 0x80000#32 != 0#32) = false := bit_clear m 19 (by omega) (by omega)
  have c18 : (m &&& 0x40000#32 != 0#32) = false := bit_clear m 18 (by omega) (by omega)
  have c17 : (m &&& 0x20000#32 != 0#32) = false := bit_clear m 17 (by omega) (by omega)
  have c16 : (m &&& 0x10000#32 != 0#32) = false := bit_clear m 16 (by omega) (by omega)
  have c15 : (m &&& 0x8000#32 != 0#32) = false := bit_clear m 15 (by omega) (by omega)
  have c14 : (m &&& 0x4000#32 != 0#32) = false := bit_clear m 14 (by omega) (by omega)
  have c13 : (m &&& 0x2000#32 != 0#32) = false := bit_clear m 13 (by omega) (by omega)
  have c12 : (m &&& 0x1000#32 != 0#32) = false := bit_clear m 12 (by omega) (by omega)
  have c11 : (m &&& 0x800#32 != 0#32) = false := bit_clear m 11 (by omega) (by omega)
  have c10 : (m &&& 0x400#32 != 0#32) = false := bit_clear m 10 (by omega) (by omega)
  have c9 : (m &&& 0x200#32 != 0#32) = false := bit_clear m 9 (by omega) (by omega)
  have c8 : (m &&& 0x100#32 != 0#32) = false := bit_clear m 8 (by omega) (by omega)
  have c7 : (m &&& 0x80#32 != 0#32) = false := bit_clear m 7 (by omega) (by omega)
  have c6 : (m &&& 0x40#32 != 0#32) = false := bit_clear m 6 (by omega) (by omega)
  have c5 : (m &&& 0x20#32 != 0#32) = false := bit_clear m 5 (by omega) (by omega)
  have c4 : (m &&& 0x10#32 != 0#32) = false := bit_clear m 4 (by omega) (by omega)
  have c3 : (m &&& 0x8#32 != 0#32) = true := bit_set m 3 (by omega) lo hi
  unfold widenSub
  simp only [c22, c21, c20, c19, c18, c17, c16, c15, c14, c13, c12, c11, c10, c9, c8, c7, c6, c5, c4, c3, Bool.false_eq_true, if_false, if_true]

theorem widenSub_2 (sign : BitVec 64) (m : BitVec 32) (lo : 2 ^ 2 ≤ m.toNat) (hi : m.toNat < 2 ^ (2 + 1)) :
    widenSub sign m = sign ||| (876#64 <<< 52) ||| (((((m <<< 21) &&& 0x7fffff#32).zeroExtend 64)) <<< 29) := by
  have c22 : (m &&& 0x400000#32 != 0#32) = false := bit_clear m 22 (by omega) (by omega)
  have c21 : (m &&& 0x200000#32 != 0#32) = false := bit_clear m 21 (by omega) (by omega)
  have c20 : (m &&& 0x100000#32 != 0#32) = false := bit_clear m 20 (by omega) (by omega)
  have c19 : (m &&& 0x80000#32 != 0#32) = false := bit_clear m 19 (by omega) (by omega)
  have c18 : (m &&& 0x40000#32 != 0#32) = false := bit_clear m 18 (by omega) (by omega)
  have c17 : (m &&& 0x20000#32 != 0#32) = false := bit_clear m 17 (by omega) (by omega)
  have c16 : (m &&& 0x10000#32 != 0#32) = false := bit_clear m 16 (by omega) (by omega)
  have c15 : (m &&& 0x8000#32 != 0#32) = false := bit_clear m 15 (by omega) (by omega)
  have c14 : (m &&& 0x4000#32 != 0#32) = false := bit_clear m 14 (by omega) (by omega)
  have c13 : (m &&& 0x2000#32 != 0#32) = false := bit_clear m 13 (by omega) (by omega)
  have c12 : (m &&& 0x1000#32 != 0#32) = false := bit_clear m 12 (by omega) (by omega)
  have c11 : (m &&& 0x800#32 != 0#32) = false := bit_clear m 11 (by omega) (by omega)
  have c10 : (m &&& 0x400#32 != 0#32) = false := bit_clear m 10 (by omega) (by omega)
  have c9 : (m &&& 0x200#32 != 0#32) = false := bit_clear m 9 (by omega) (by omega)
  have c8 : (m &&& 0x100#32 != 0#32) = false := bit_clear m 8 (by omega) (by omega)
  have c7 : (m &&& 0x80#32 != 0#32) = false := bit_clear m 7 (by omega) (by omega)
  have c6 : (m &&& 0x40#32 != 0#32) = false := bit_clear m 6 (by omega) (by omega)
  have c5 : (m &&& 0x20#32 != 0#32) = false := bit_clear m 5 (by omega) (by omega)
  have c4 : (m &&& 0x10#32 != 0#32) = false := bit_clear m 4 (by omega) (by omega)
  have c3 : (m &&& 0x8#32 != 0#32) = false := bit_clear m 3 (by omega) (by omega)
  have c2 : (m &&& 0x4#32 != 0#32) = true := bit_set m 2 (by omega) lo hi
  unfold widenSub
  simp only [c22, c21, c20, c19, c18, c17, c16, c15, c14, c13, c12, c11, c10, c9, c8, c7, c6, c5, c4, c3, c2, Bool.false_eq_true, if_false, if_true]

theorem widenSub_1 (sign : BitVec 64) (m : BitVec 32) (lo : 2 ^ 1 ≤ m.toNat) (hi : m.toNat < 2 ^ (1 + 1)) :
    widenSub sign m = sign ||| (875#64 <<< 52) ||| (((((m <<< 22) &&& 0x7fffff#32).zeroExtend 64)) <<< 29) := by
  have c22 : (m &&& 0x400000#32 != 0#32) = false := bit_clear m 22 (by omega) (by omega)
  have c21 : (m &&& 0x200000#32 != 0#32) = false := bit_clear m 21 (by omega) (by omega)
  have c20 : (m &&& 0x100000#32 != 0#32) = false := bit_clear m 20 (by omega) (by omega)
  have c19 : (m &&& 0x80000#32 != 0#32) = false := bit_clear m 19 (by omega) (by omega)
  have c18 : (m &&& 0x40000#32 != 0#32) = false := bit_clear m 18 (by omega) (by omega)
  have c17 : (m &&& 0x20000#32 != 0#32) = false := bit_clear m 17 (by omega) (by omega)
  have c16 : (m &&& 0x10000#32 != 0#32) = false := bit_clear m 16 (by omega) (by omega)
  have c15 : (m &&& 0x8000#32 != 0#32) = false := bit_clear m 15 (by omega) (by omega)
  have c14 : (m &&& 0x4000#32 != 0#32) = false := bit_clear m 14 (by omega) (by omega)
  have c13 : (m &&& 0x2000#32 != 0#32) = false := bit_clear m 13 (by omega) (by omega)
  have c12 : (m &&& 0x1000#32 != 0#32) = false := bit_clear m 12 (by omega) (by omega)
  have c11 : (m &&& 0x800#32 != 0#32) = false := bit_clear m 11 (by omega) (by omega)
  have c10 : (m &&& 0x400#32 != 0#32) = false := bit_clear m 10 (by omega) (by omega)
  have c9 : (m &&& 0x200#32 != 0#32) = false := bit_clear m 9 (by omega) (by omega)
  have c8 : (m &&& 0x100#32 != 0#32) = false := bit_clear m 8 (by omega) (by omega)
  have c7 : (m &&& 0x80#32 != 0#32) = false := bit_clear m 7 (by omega) (by omega)
  have c6 : (m &&& 0x40#32 != 0#32) = false := bit_clear m 6 (by omega) (by omega)
  have c5 : (m &&& 0x20#32 != 0#32) = false := bit_clear m 5 (by omega) (by omega)
  have c4 : (m &&& 0x10#32 != 0#32) = false := bit_clear m 4 (by omega) (by omega)
  have c3 : (m &&& 0x8#32 != 0#32) = false := bit_clear m 3 (by omega) (by omega)
  have c2 : (m &&& 0x4#32 != 0#32) = false := bit_clear m 2 (by omega) (by omega)
  have c1 : (m &&& 0x2#32 != 0#32) = true := bit_set m 1 (by omega) lo hi
  unfold widenSub
  simp only [c22, c21, c20, c19, c18, c17, c16, c15, c14, c13, c12, c11, c10, c9, c8, c7, c6, c5, c4, c3, c2, c1, Bool.false_eq_true, if_false, if_true]

theorem widenSub_0 (sign : BitVec 64) (m : BitVec 32) (lo : 2 ^ 0 ≤ m.toNat) (hi : m.toNat < 2 ^ (0 + 1)) :
    widenSub sign m = sign ||| (874#64 <<< 52) ||| (((((m <<< 23) &&& 0x7fffff#32).zeroExtend 64)) <<< 29) := by
  have c22 : (m &&& 0x400000#32 != 0#32) = false := bit_clear m 22 (by omega) (by omega)
  have c21 : (m &&& 0x200000#32 != 0#32) = false := bit_clear m 21 (by omega) (by omega)
  have c20 : (m &&& 0x100000#32 != 0#32) = false := bit_clear m 20 (by omega) (by omega)
  have c19 : (m &&& 0x80000#32 != 0#32) = false := bit_clear m 19 (by omega) (by omega)
  have c18 : (m &&& 0x40000#32 != 0#32) = false := bit_clear m 18 (by omega) (by omega)
  have c17 : (m &&& 0x20000#32 != 0#32) = false := bit_clear m 17 (by omega) (by omega)
  have c16 : (m &&& 0x10000#32 != 0#32) = false := bit_clear m 16 (by omega) (by omega)
  have c15 : (m &&& 0x8000#32 != 0#32) = false := bit_clear m 15 (by omega) (by omega)
  have c14 : (m &&& 0x4000#32 != 0#32) = false := bit_clear m 14 (by omega) (by omega)
  have c13 : (m &&& 0x2000#32 != 0#32) = false := bit_clear m 13 (by omega) (by omega)
  have c12 : (m &&& 0x1000#32 != 0#32) = false := bit_clear m 12 (by omega) (by omega)
  have c11 : (m &&& 0x800#32 != 0#32) = false := bit_clear m 11 (by omega) (by omega)
  have c10 : (m &&& 0x400#32 != 0#32) = false := bit_clear m 10 (by omega) (by omega)
  have c9 : (m &&& 0x200#32 != 0#32) = false := bit_clear m 9 (by omega) (by omega)
  have c8 : (m &&& 0x100#32 != 0#32) = false := bit_clear m 8 (by omega) (by omega)
  have c7 : (m &&& 0x80#32 != 0#32) = false := bit_clear m 7 (by omega) (by omega)
  have c6 : (m &&& 0x40#32 != 0#32) = false := bit_clear m 6 (by omega) (by omega)
  have c5 : (m &&& 0x20#32 != 0#32) = false := bit_clear m 5 (by omega) (by omega)
  have c4 : (m &&& 0x10#32 != 0#32) = false := bit_clear m 4 (by omega) (by omega)
  have c3 : (m &&& 0x8#32 != 0#32) = false := bit_clear m 3 (by omega) (by omega)
  have c2 : (m &&& 0x4#32 != 0#32) = false := bit_clear m 2 (by omega) (by omega)
  have c1 : (m &&& 0x2#32 != 0#32) = false := bit_clear m 1 (by omega) (by omega)
  have c0 : (m &&& 0x1#32 != 0#32) = true := bit_set m 0 (by omega) lo hi
  unfold widenSub
  simp only [c22, c21, c20, c19, c18, c17, c16, c15, c14, c13, c12, c11, c10, c9, c8, c7, c6, c5, c4, c3, c2, c1, c0, Bool.false_eq_true, if_false, if_true]

theorem widenSub_zero (sign : BitVec 64) (m : BitVec 32) (h : m.toNat = 0) : widenSub sign m = sign := by
  have c22 : (m &&& 0x400000#32 != 0#32) = false := bit_clear m 22 (by omega) (by omega)
  have c21 : (m &&& 0x200000#32 != 0#32) = false := bit_clear m 21 (by omega) (by omega)
  have c20 : (m &&& 0x100000#32 != 0#32) = false := bit_clear m 20 (by omega) (by omega)
  have c19 : (m &&& 0x80000#32 != 0#32) = false := bit_clear m 19 (by omega) (by omega)
  have c18 : (m &&& 0x40000#32 != 0#32) = false := bit_clear m 18 (by omega) (by omega)
  have c17 : (m &&& 0x20000#32 != 0#32) = false := bit_clear m 17 (by omega) (by omega)
  have c16 : (m &&& 0x10000#32 != 0#32) = false := bit_clear m 16 (by omega) (by omega)
  have c15 : (m &&& 0x8000#32 != 0#32) = false := bit_clear m 15 (by omega) (by omega)
  have c14 : (m &&& 0x4000#32 != 0#32) = false := bit_clear m 14 (by omega) (by omega)
  have c13 : (m &&& 0x2000#32 != 0#32) = false := bit_clear m 13 (by omega) (by omega)
  have c12 : (m &&& 0x1000#32 != 0#32) = false := bit_clear m 12 (by omega) (by omega)
  have c11 : (m &&& 0x800#32 != 0#32) = false := bit_clear m 11 (by omega) (by omega)
  have c10 : (m &&& 0x400#32 != 0#32) = false := bit_clear m 10 (by omega) (by omega)
  have c9 : (m &&& 0x200#32 != 0#32) = false := bit_clear m 9 (by omega) (by omega)
  have c8 : (m &&& 0x100#32 != 0#32) = false := bit_clear m 8 (by omega) (by omega)
  have c7 : (m &&& 0x80#32 != 0#32) = false := bit_clear m 7 (by omega) (by omega)
  have c6 : (m &&& 0x40#32 != 0#32) = false := bit_clear m 6 (by omega) (by omega)
  have c5 : (m &&& 0x20#32 != 0#32) = false := bit_clear m 5 (by omega) (by omega)
  have c4 : (m &&& 0x10#32 != 0#32) = false := bit_clear m 4 (by omega) (by omega)
  have c3 : (m &&& 0x8#32 != 0#32) = false := bit_clear m 3 (by omega) (by omega)
  have c2 : (m &&& 0x4#32 != 0#32) = false := bit_clear m 2 (by omega) (by omega)
  have c1 : (m &&& 0x2#32 != 0#32) = false := bit_clear m 1 (by omega) (by omega)
  have c0 : (m &&& 0x1#32 != 0#32) = false := bit_clear m 0 (by omega) (by omega)
  unfold widenSub
  simp only [c22, c21, c20, c19, c18, c17, c16, c15, c14, c13, c12, c11, c10, c9, c8, c7, c6, c5, c4, c3, c2, c1, c0, Bool.false_eq_true, if_false]

theorem widenSub_eq (sign : BitVec 64) (m : BitVec 32) (j : Nat) (hj : j ≤ 22)
    (lo : 2 ^ j ≤ m.toNat) (hi : m.toNat < 2 ^ (j + 1)) :
    widenSub sign m = sign ||| (BitVec.ofNat 64 (874 + j) <<< 52) |||
      (((((m <<< (23 - j)) &&& 0x7fffff#32).zeroExtend 64)) <<< 29) := by
  have hc : j = 0 ∨ j = 1 ∨ j = 2 ∨ j = 3 ∨ j = 4 ∨ j = 5 ∨ j = 6 ∨ j = 7 ∨ j = 8 ∨ j = 9 ∨ j = 10 ∨ j = 11 ∨ j = 12 ∨ j = 13 ∨ j = 14 ∨ j = 15 ∨ j = 16 ∨ j = 17 ∨ j = 18 ∨ j = 19 ∨ j = 20 ∨ j = 21 ∨ j = 22 := by omega
  rcases hc with rfl | rfl | rfl | rfl | rfl | rfl | rfl | rfl | rfl | rfl | rfl | rfl | rfl | rfl | rfl | rfl | rfl | rfl | rfl | rfl | rfl | rfl | rfl
  · exact widenSub_0 sign m lo hi
  · exact widenSub_1 sign m lo hi
  · exact widenSub_2 sign m lo hi
  · exact widenSub_3 sign m lo hi
  · exact widenSub_4 sign m lo hi
  · exact widenSub_5 sign m lo hi
  · exact widenSub_6 sign m lo hi
  · exact widenSub_7 sign m lo hi
  · exact widenSub_8 sign m lo hi
  · exact widenSub_9 sign m lo hi
  · exact widenSub_10 sign m lo hi
  · exact widenSub_11 sign m lo hi
  · exact widenSub_12 sign m lo hi
  · exact widenSub_13 sign m lo hi
  · exact widenSub_14 sign m lo hi
  · exact widenSub_15 sign m lo hi
  · exact widenSub_16 sign m lo hi
  · exact widenSub_17 sign m lo hi
  · exact widenSub_18 sign m lo hi
  · exact widenSub_19 sign m lo hi
  · exact widenSub_20 sign m lo hi
  · exact widenSub_21 sign m lo hi
  · exact widenSub_22 sign m lo hi


/-! ### splitting bit patterns into sign / exponent / mantissa -/

theorem split64 (y : BitVec 64) (s E M : Nat) (_hs : s < 2) (hE : E < 2048) (hM : M < 2 ^ 52)
    (hy : y.toNat = s * 2 ^ 63 + E * 2 ^ 52 + M) :
    (((y >>> 63).truncate 32) <<< 31).toNat = s * 2 ^ 31 ∧
    ((y >>> 52) &&& 0x7ff#64).toNat = E ∧ (y &&& 0xfffffffffffff#64).toNat = M := by
  refine ⟨?_, ?_, ?_⟩
  · rw [BitVec.toNat_shiftLeft, BitVec.toNat_setWidth, BitVec.toNat_ushiftRight,
      Nat.shiftRight_eq_div_pow, Nat.shiftLeft_eq, hy]
    omega
  · rw [BitVec.toNat_and, BitVec.toNat_ushiftRight, Nat.shiftRight_eq_div_pow, hy]
    show _ &&& (2 ^ 11 - 1) = E
    rw [Nat.and_two_pow_sub_one_eq_mod]; omega
  · rw [BitVec.toNat_and, hy]
    show _ &&& (2 ^ 52 - 1) = M
    rw [Nat.and_two_pow_sub_one_eq_mod]; omega

theorem split32 (x : BitVec 32) :
    (((x >>> 31).zeroExtend 64) <<< 63).toNat = (x.toNat / 2 ^ 31) * 2 ^ 63 ∧
    ((x >>> 23) &&& 0xff#32).toNat = x.toNat / 2 ^ 23 % 256 ∧
    (x &&& 0x7fffff#32).toNat = x.toNat % 2 ^ 23 := by
  have hx := x.isLt
  refine ⟨?_, ?_, ?_⟩
  · rw [BitVec.toNat_shiftLeft, BitVec.toNat_setWidth, BitVec.toNat_ushiftRight,
      Nat.shiftRight_eq_div_pow, Nat.shiftLeft_eq]
    omega
  · rw [BitVec.toNat_and, BitVec.toNat_ushiftRight, Nat.shiftRight_eq_div_pow]
    show _ &&& (2 ^ 8 - 1) = _
    rw [Nat.and_two_pow_sub_one_eq_mod]
  · rw [BitVec.toNat_and]
    show _ &&& (2 ^ 23 - 1) = _
    rw [Nat.and_two_pow_sub_one_eq_mod]

/-! ### `widen64'` on `toNat` level -/

theorem or3 (a b c : BitVec 64) (s E T : Nat) (ha : a.toNat = s * 2 ^ 63) (hb : b.toNat = E * 2 ^ 52)
    (hE : E < 2048) (hc : c.toNat = T * 2 ^ 29) (hT : T < 2 ^ 23) :
    (a ||| b ||| c).toNat = s * 2 ^ 63 + E * 2 ^ 52 + T * 2 ^ 29 := by
  rw [BitVec.toNat_or, BitVec.toNat_or, ha, hb, hc, or_eq_add _ _ _ (by omega)]
  have : s * 2 ^ 63 + E * 2 ^ 52 = (s * 2048 + E) * 2 ^ 52 := by omega
  rw [this, or_eq_add _ _ _ (by omega)]

theorem piece_toNat (sign : BitVec 64) (m : BitVec 32) (E k s : Nat) (hsign : sign.toNat = s * 2 ^ 63)
    (hE : E < 2048) :
    (sign ||| (BitVec.ofNat 64 E <<< 52) ||| ((((m <<< k) &&& 0x7fffff#32).zeroExtend 64) <<< 29)).toNat
      = s * 2 ^ 63 + E * 2 ^ 52 + ((m.toNat * 2 ^ k) % 2 ^ 23) * 2 ^ 29 := by
  apply or3 _ _ _ _ _ _ hsign _ hE
  · rw [BitVec.toNat_shiftLeft, BitVec.toNat_setWidth, BitVec.toNat_and, BitVec.toNat_shiftLeft,
      Nat.shiftLeft_eq, Nat.shiftLeft_eq]
    show ((m.toNat * 2 ^ k % 2 ^ 32) &&& (2 ^ 23 - 1)) % 2 ^ 64 * 2 ^ 29 % 2 ^ 64 = _
    rw [Nat.and_two_pow_sub_one_eq_mod]
    generalize m.toNat * 2 ^ k = a
    omega
  · omega
  · rw [BitVec.toNat_shiftLeft, BitVec.toNat_ofNat, Nat.shiftLeft_eq]; omega

theorem widen'_normal (sign : BitVec 64) (e m : BitVec 32) (s : Nat) (hsign : sign.toNat = s * 2 ^ 63)
    (he1 : 1 ≤ e.toNat) (he2 : e.toNat ≤ 254) (hm : m.toNat < 2 ^ 23) :
    (widen64' sign e m).toNat = s * 2 ^ 63 + (e.toNat + 896) * 2 ^ 52 + m.toNat * 2 ^ 29 := by
  have h1 : (e == 0xff#32) = false := by simp [BitVec.toNat_eq]; omega
  have h2 : (e == 0#32) = false := by simp [BitVec.toNat_eq]; omega
  unfold widen64'
  simp only [h1, h2, Bool.false_eq_true, if_false]
  apply or3 _ _ _ _ _ _ hsign _ (by omega) _ hm
  · rw [BitVec.toNat_shiftLeft, BitVec.toNat_add, BitVec.toNat_setWidth, Nat.shiftLeft_eq]
    simp only [BitVec.toNat_ofNat]
    omega
  · rw [BitVec.toNat_shiftLeft, BitVec.toNat_setWidth, Nat.shiftLeft_eq]; omega

theorem widen'_inf (sign : BitVec 64) (e m : BitVec 32) (s : Nat) (hsign : sign.toNat = s * 2 ^ 63)
    (he : e.toNat = 255) (hm : m.toNat = 0) :
    (widen64' sign e m).toNat = s * 2 ^ 63 + 2047 * 2 ^ 52 := by
  have h1 : (e == 0xff#32) = true := by simp [BitVec.toNat_eq]; omega
  have h2 : (m == 0#32) = true := by simp [BitVec.toNat_eq]; omega
  unfold widen64'
  simp only [h1, h2, if_true]
  rw [BitVec.toNat_or, hsign]
  show s * 2 ^ 63 ||| 2047 * 2 ^ 52 = _
  rw [or_eq_add _ _ _ (by omega)]

theorem widen'_zero (sign : BitVec 64) (e m : BitVec 32) (he : e.toNat = 0) (hm : m.toNat = 0) :
    widen64' sign e m = sign := by
  have h1 : (e == 0xff#32) = false := by simp [BitVec.toNat_eq]; omega
  have h2 : (e == 0#32) = true := by simp [BitVec.toNat_eq]; omega
  unfold widen64'
  simp only [h1, h2, Bool.false_eq_true, if_false, if_true]
  exact widenSub_zero sign m hm

theorem widen'_sub (sign : BitVec 64) (e m : BitVec 32) (s j : Nat) (hsign : sign.toNat = s * 2 ^ 63)
    (he : e.toNat = 0) (hj : j ≤ 22) (lo : 2 ^ j ≤ m.toNat) (hi : m.toNat < 2 ^ (j + 1)) :
    (widen64' sign e m).toNat
      = s * 2 ^ 63 + (874 + j) * 2 ^ 52 + ((m.toNat * 2 ^ (23 - j)) % 2 ^ 23) * 2 ^ 29 := by
  have h1 : (e == 0xff#32) = false := by simp [BitVec.toNat_eq]; omega
  have h2 : (e == 0#32) = true := by simp [BitVec.toNat_eq]; omega
  unfold widen64'
  simp only [h1, h2, Bool.false_eq_true, if_false, if_true]
  rw [widenSub_eq sign m j hj lo hi]
  exact piece_toNat sign m (874 + j) (23 - j) s hsign (by omega)

/-- NaN: the widened value has exponent field 2047 and a non-zero mantissa; only a bound is needed -/
theorem widen'_nan (sign : BitVec 64) (e m : BitVec 32) (s : Nat) (hsign : sign.toNat = s * 2 ^ 63)
    (he : e.toNat = 255) (hm : m.toNat ≠ 0) (hm' : m.toNat < 2 ^ 23) :
    ∃ Z, (widen64' sign e m).toNat = s * 2 ^ 63 + Z ∧ 0 < Z ∧ Z < 2 ^ 63 := by
  have h1 : (e == 0xff#32) = true := by simp [BitVec.toNat_eq]; omega
  have h2 : (m == 0#32) = false := by simp [BitVec.toNat_eq]; omega
  unfold widen64'
  simp only [h1, h2, Bool.false_eq_true, if_false, if_true]
  have hlt : (0x7ff8000000000000#64 ||| ((m.zeroExtend 64) <<< 29)).toNat < 2 ^ 63 := by
    rw [BitVec.toNat_or]
    apply Nat.or_lt_two_pow
    · decide
    · rw [BitVec.toNat_shiftLeft, BitVec.toNat_setWidth, Nat.shiftLeft_eq]; omega
  have hpos : 0 < (0x7ff8000000000000#64 ||| ((m.zeroExtend 64) <<< 29)).toNat := by
    rw [BitVec.toNat_or]
    have h := @Nat.left_le_or (0x7ff8000000000000#64).toNat (BitVec.zeroExtend 64 m <<< 29).toNat
    have h' : 0 < (0x7ff8000000000000#64).toNat := by decide
    omega
  refine ⟨(0x7ff8000000000000#64 ||| ((m.zeroExtend 64) <<< 29)).toNat, ?_, hpos, hlt⟩
  rw [BitVec.or_assoc, BitVec.toNat_or, hsign, or_eq_add _ _ _ hlt]

/-! ### `narrow32` of a 64-bit pattern given by its fields -/

theorem narrow_normal (y : BitVec 64) (s E mm : Nat) (hs : s < 2) (hE : 897 ≤ E) (hE' : E ≤ 1150)
    (hmm : mm < 2 ^ 23) (hy : y.toNat = s * 2 ^ 63 + E * 2 ^ 52 + mm * 2 ^ 29) :
    (narrow32 y).toNat = s * 2 ^ 31 + (E - 896) * 2 ^ 23 + mm := by
  obtain ⟨h1, h2, h3⟩ := split64 y s E (mm * 2 ^ 29) hs (by omega) (by omega) hy
  rw [narrow32_eq]
  exact narrow'_normal _ _ _ s E mm h1 h2 hE hE' h3 hmm

theorem narrow_inf (y : BitVec 64) (s : Nat) (hs : s < 2) (hy : y.toNat = s * 2 ^ 63 + 2047 * 2 ^ 52) :
    (narrow32 y).toNat = s * 2 ^ 31 + 255 * 2 ^ 23 := by
  obtain ⟨h1, h2, h3⟩ := split64 y s 2047 0 hs (by omega) (by omega) (by omega)
  rw [narrow32_eq]
  have e2 : (y >>> 52) &&& 0x7ff#64 = 0x7ff#64 := BitVec.eq_of_toNat_eq h2
  have e3 : y &&& 0xfffffffffffff#64 = 0#64 := BitVec.eq_of_toNat_eq h3
  rw [e2, e3]
  exact narrow'_inf _ s h1

theorem narrow_zero (y : BitVec 64) (s : Nat) (hs : s < 2) (hy : y.toNat = s * 2 ^ 63) :
    (narrow32 y).toNat = s * 2 ^ 31 := by
  obtain ⟨h1, h2, _⟩ := split64 y s 0 0 hs (by omega) (by omega)
    (by simp only [hy, Nat.zero_mul, Nat.add_zero])
  rw [narrow32_eq]
  have e2 : (y >>> 52) &&& 0x7ff#64 = 0#64 := BitVec.eq_of_toNat_eq h2
  rw [e2, narrow'_zero]
  exact h1

theorem narrow_sub (y : BitVec 64) (s E M Q : Nat) (hs : s < 2) (hE : 873 ≤ E) (hE' : E ≤ 896)
    (hM : M < 2 ^ 52) (hQ : 2 ^ 52 + M = Q * 2 ^ (926 - E)) (hQ' : Q < 2 ^ 31)
    (hy : y.toNat = s * 2 ^ 63 + E * 2 ^ 52 + M) :
    (narrow32 y).toNat = s * 2 ^ 31 + Q := by
  obtain ⟨h1, h2, h3⟩ := split64 y s E M hs (by omega) hM hy
  rw [narrow32_eq]
  exact narrow'_sub _ _ _ s E M Q (926 - E) h1 h2 hE hE' rfl h3 hM hQ hQ'

/-! ### arithmetic of the subnormal normalisation -/

theorem sub_arith (mn j : Nat) (hj : j ≤ 22) (lo : 2 ^ j ≤ mn) (hi : mn < 2 ^ (j + 1)) :
    2 ^ 52 + ((mn * 2 ^ (23 - j)) % 2 ^ 23) * 2 ^ 29 = mn * 2 ^ (52 - j) := by
  have hc : j = 0 ∨ j = 1 ∨ j = 2 ∨ j = 3 ∨ j = 4 ∨ j = 5 ∨ j = 6 ∨ j = 7 ∨ j = 8 ∨ j = 9 ∨ j = 10 ∨
      j = 11 ∨ j = 12 ∨ j = 13 ∨ j = 14 ∨ j = 15 ∨ j = 16 ∨ j = 17 ∨ j = 18 ∨ j = 19 ∨ j = 20 ∨
      j = 21 ∨ j = 22 := by omega
  rcases hc with rfl | rfl | rfl | rfl | rfl | rfl | rfl | rfl | rfl | rfl | rfl | rfl | rfl | rfl |
    rfl | rfl | rfl | rfl | rfl | rfl | rfl | rfl | rfl <;> omega

theorem leading_one (mn : Nat) (h0 : mn ≠ 0) (h : mn < 2 ^ 23) :
    ∃ j, j ≤ 22 ∧ 2 ^ j ≤ mn ∧ mn < 2 ^ (j + 1) := by
  refine ⟨mn.log2, ?_, Nat.log2_self_le h0, Nat.lt_log2_self⟩
  have h1 : 2 ^ mn.log2 < 2 ^ 23 := Nat.lt_of_le_of_lt (Nat.log2_self_le h0) h
  have := (Nat.pow_lt_pow_iff_right (by omega : 1 < 2)).1 h1
  omega

/-! ### the two theorems -/

theorem narrow_widen (x : BitVec 32) (h : isNaN32 x = false) : narrow32 (widen64 x) = x := by
  obtain ⟨hsign, he, hm⟩ := split32 x
  have hx := x.isLt
  apply BitVec.eq_of_toNat_eq
  rw [widen64_eq]
  generalize hS : ((x >>> 31).zeroExtend 64) <<< 63 = sign at *
  generalize hEe : (x >>> 23) &&& 0xff#32 = e at *
  generalize hMm : x &&& 0x7fffff#32 = m at *
  have hs : x.toNat / 2 ^ 31 < 2 := by omega
  have hmlt : m.toNat < 2 ^ 23 := by omega
  by_cases c255 : e.toNat = 255
  · -- infinity
    have hm0 : m.toNat = 0 := by
      unfold isNaN32 at h
      rw [hEe, hMm] at h
      have h1 : (e == 0xff#32) = true := by simp [BitVec.toNat_eq]; omega
      rw [h1, Bool.true_and] at h
      have h2 : m = 0#32 := by simpa using h
      rw [h2]; rfl
    rw [narrow_inf _ _ hs (widen'_inf sign e m _ hsign c255 hm0)]
    omega
  · by_cases c0 : e.toNat = 0
    · by_cases cm : m.toNat = 0
      · rw [widen'_zero sign e m c0 cm, narrow_zero _ _ hs hsign]
        omega
      · obtain ⟨j, hj, lo, hi⟩ := leading_one m.toNat cm hmlt
        have hw := widen'_sub sign e m _ j hsign c0 hj lo hi
        have ha := sub_arith m.toNat j hj lo hi
        have hsh : 926 - (874 + j) = 52 - j := by omega
        rw [narrow_sub _ _ (874 + j) _ m.toNat hs (by omega) (by omega) ?_ (by rw [hsh]; exact ha) (by omega) hw]
        · omega
        · generalize m.toNat * 2 ^ (23 - j) = a
          omega
    · have hw := widen'_normal sign e m _ hsign (by omega) (by omega) hmlt
      rw [narrow_normal _ _ (e.toNat + 896) m.toNat hs (by omega) (by omega) hmlt hw]
      omega

theorem isZero64_toNat (y : BitVec 64) (s Z : Nat) (hZ : Z < 2 ^ 63) (hy : y.toNat = s * 2 ^ 63 + Z) :
    isZero64 y = decide (Z = 0) := by
  have h : (y &&& 0x7fffffffffffffff#64).toNat = Z := by
    rw [BitVec.toNat_and, hy]
    show _ &&& (2 ^ 63 - 1) = Z
    rw [Nat.and_two_pow_sub_one_eq_mod]; omega
  unfold isZero64
  by_cases hz : Z = 0
  · have e : y &&& 0x7fffffffffffffff#64 = 0#64 := BitVec.eq_of_toNat_eq (by rw [h, hz]; rfl)
    rw [e, hz]; rfl
  · rw [decide_eq_false hz]
    apply beq_false_of_ne
    intro e
    rw [e] at h
    exact hz h.symm

theorem low31_toNat (x : BitVec 32) : ((x &&& 0x7fffffff#32) == 0#32) = decide (x.toNat % 2 ^ 31 = 0) := by
  have h : (x &&& 0x7fffffff#32).toNat = x.toNat % 2 ^ 31 := by
    rw [BitVec.toNat_and]
    show _ &&& (2 ^ 31 - 1) = _
    rw [Nat.and_two_pow_sub_one_eq_mod]
  by_cases hz : x.toNat % 2 ^ 31 = 0
  · have e : x &&& 0x7fffffff#32 = 0#32 := BitVec.eq_of_toNat_eq (by rw [h, hz]; rfl)
    rw [e, hz]; rfl
  · rw [decide_eq_false hz]
    apply beq_false_of_ne
    intro e
    rw [e] at h
    exact hz h.symm

theorem widen_zero (x : BitVec 32) : isZero64 (widen64 x) = ((x &&& 0x7fffffff#32) == 0#32) := by
  obtain ⟨hsign, he, hm⟩ := split32 x
  have hx := x.isLt
  rw [low31_toNat, widen64_eq]
  generalize hS : ((x >>> 31).zeroExtend 64) <<< 63 = sign at *
  generalize hEe : (x >>> 23) &&& 0xff#32 = e at *
  generalize hMm : x &&& 0x7fffff#32 = m at *
  have hmlt : m.toNat < 2 ^ 23 := by omega
  by_cases c255 : e.toNat = 255
  · by_cases cm : m.toNat = 0
    · rw [isZero64_toNat _ _ (2047 * 2 ^ 52) (by omega) (widen'_inf sign e m _ hsign c255 cm)]
      apply decide_eq_decide.2; omega
    · obtain ⟨Z, hw, hZ0, hZ⟩ := widen'_nan sign e m _ hsign c255 cm hmlt
      rw [isZero64_toNat _ _ Z hZ hw]
      apply decide_eq_decide.2; omega
  · by_cases c0 : e.toNat = 0
    · by_cases cm : m.toNat = 0
      · rw [widen'_zero sign e m c0 cm, isZero64_toNat sign (x.toNat / 2 ^ 31) 0 (Nat.two_pow_pos 63)
          (by rw [Nat.add_zero]; exact hsign)]
        apply decide_eq_decide.2; omega
      · obtain ⟨j, hj, lo, hi⟩ := leading_one m.toNat cm hmlt
        have hw := widen'_sub sign e m _ j hsign c0 hj lo hi
        rw [Nat.add_assoc] at hw
        rw [isZero64_toNat _ _ _ ?_ hw]
        · apply decide_eq_decide.2
          generalize m.toNat * 2 ^ (23 - j) = a
          omega
        · generalize m.toNat * 2 ^ (23 - j) = a
          omega
    · have hw := widen'_normal sign e m _ hsign (by omega) (by omega) hmlt
      rw [Nat.add_assoc] at hw
      rw [isZero64_toNat _ _ _ (by omega) hw]
      apply decide_eq_decide.2; omega

/-- the full statements (both are proved above, nothing is missing) -/
def narrow_widen_full : Prop := ∀ (x : BitVec 32), isNaN32 x = false → narrow32 (widen64 x) = x
def widen_zero_full : Prop := ∀ (x : BitVec 32), isZero64 (widen64 x) = ((x &&& 0x7fffffff#32) == 0#32)

theorem narrow_widen_full_holds : narrow_widen_full := narrow_widen
theorem widen_zero_full_holds : widen_zero_full := widen_zero
end PGT.F.Kernel

#print axioms PGT.F.Kernel.narrow_widen
#print axioms PGT.F.Kernel.widen_zero
#print axioms PGT.F.Kernel.narrow_widen_full_holds
#print axioms PGT.F.Kernel.widen_zero_full_holds
