import PGT.Proofs.SchemaTyped
import PGT.Proofs.BuildErrors
import PGT.Proofs.PathUnique
import PGT.Proofs.ExclusionPrune
import PGT.Proofs.ExclusionPruneEmbed
import PGT.Proofs.FromUniformAll
import PGT.Proofs.FromDiags
/-
P55 - the IRs the front end BUILDS are well formed: the IR-side hypotheses of the converter theorems, discharged for built IRs.

SchemaTyped.lean proves C03 / C20 / C04 / C06 on the schema-typed target from `IRWFs` (node facts + distinct names) and the
typing of the struct value, and leaves open the link to the front end. This file provides it.

0. `mkNode`, `coreStep_ok_inv`   inversion of one block of `BuildField`: a successful block is empty (excluded), the spliced field
                                 list of an embedded message (`spliced`), or ONE node `mkNode …` (message / scalar / map node);
                                 `getTerraformType_shape` (`ValueType`, zero value of map records).
   `Built` / `built_all`         THE INVARIANT, by induction over the fuel, for every view / request / descriptor / root flag /
                                 path, NO hypothesis: kind = `getKind` of the stored flags, map ⊕ repeated, records come from
                                 `GetTerraformType`, map nodes carry the value field's record and element pair, message-valued
                                 nodes carry the nested message, a message without declared fields holds exactly the placeholder.
1. `NodeWF` / `NodeWFs`, `irwfs_iff : IRWFs fs ↔ NodeWFs fs ∧ NamesOKs fs`.
2. `NodeWF'` (guaranteed part) + `gapFreeB` (the four conjuncts NOT guaranteed, a Boolean on the IR):
   `nodeWFs_iff' : NodeWFs fs ↔ NodeWFs' fs ∧ gapFreeBs fs = true`;
   MAIN `built_nodeWF' : buildMessage … = .ok m → ConfigTypesAgree V → NodeWFs' m.fields`  (`configTypesAgree_needed`);
   `built_nodeWF_iff`, `built_irwfs_iff : IRWFs m.fields ↔ gapFreeBs m.fields = true ∧ namesOKsB m.fields = true`.
3. `NodeCoh` / `built_coherent` (shapeOKb, VFOKInfo, EmptyOK, placeholder, kind / flag coherence, element value types),
   `built_vfoks` (no hypothesis), `built_shapeOK`.
4. closing the gap: `built_subsNE` (no exclusions ⇒ `sub ≠ []`), `built_descFree` (descriptor conditions `reqOKb`, decidable on
   the request, + no configured custom types ⇒ `EmbedOK`, `oneOfName = ""`, `isEmptyMsg msg = false`), `built_gapFree`,
   `built_gapFree_of_subs`, MAIN (full) `built_nodeWF`.
5. roots: `root_irwfs_iff`, `root_irwfs_desc`, `C03_built_root(_desc)`, `C20_built_root`, `C04_built_root`, `C06_built_root`,
   `vfoks_built_root`, `C03_built_roots`, `C06_built_roots`, `built_roots_guaranteed`.
6. `Witness`: built IRs violating each of the four conjuncts (`decide +kernel`); `built_nodeWF_full_false`, `noExclusion_needed`.
7. `Sanity`: `irwfsB` (SchemaTyped) evaluated on a built IR with 15 attributes agrees with the theorems.

FINDING (conjuncts of `IRWF` the build does NOT guarantee; each with a built witness in `Witness`):
  (a) `isEmptyMsg msg = false` on lists / maps of messages   - a list / map of a message without fields is built (`w1`);
  (b) `sub ≠ []` on message-valued nodes                      - all fields of the nested message excluded: no placeholder (`w2`);
  (c) `EmbedOK`                                               - a oneof inside a message embedded by pointer (`w3`);
  (d) `oneOfName = ""` on custom-typed / repeated / map nodes - a oneof branch with a custom type (`w4`); a repeated oneof
                                                                branch (`w5`, not a protobuf descriptor, but the model has it).
Open: `PrimRT` and the oneof-branch conditions of `RT3OK` (casts / nullability of the Go type) are not derived from the build.
-/
namespace PGT.Proofs.BuiltWF
open PGT PGT.Spec PGT.SchemaTyped PGT.Proofs.BuildErrors PGT.Proofs.PathUnique PGT.Proofs.ExclusionPrune

/-- the node `coreStep` emits on its non-embedding branch, as a function of the type record `tf`, the map value field
`mapV` (maps) and the nested message `nested` (message-typed, non-map fields) -/
def mkNode (cfg : CfgView) (ctx : MsgCtx) (f : FieldD) (keys : Keys) (goType : String) (isMap isRepeated hasComment : Bool)
    (tf : TfType) (mapV : Option Field) (nestedMsg : Option Msg) : Field :=
  let info : FieldInfo :=
    { name := goNameS f.name, nameSnake := snakeOf cfg f keys, isRequired := cfg.required keys, isComputed := cfg.computed keys,
      isSensitive := cfg.sensitive keys, isRepeated := isRepeated, isMap := isMap,
      isNullable := goType.toList.contains '*',
      validators := (cfg.validators keys).getD [],
      planModifiers := planModsOf cfg keys, path := keys.path, comment := commentOf f hasComment,
      goType := goType, goElemType := goType, tf := tf, protoType := f.type }
  let info := if isRepeated then { info with goElemType := afterFirstBracket info.goType } else info
  let info : FieldInfo :=
    match mapV with
    | some v =>
      let typ := prependPackageNameIfMissing cfg.importOverride (gogoMapGoType f) cfg.defaultPackageName
      { info with goType := typ, isNullable := typ.toList.contains '*',
                  tf := { info.tf with elemType := v.info.tf.elemType, elemValueType := v.info.tf.elemValueType,
                                       valueCastToType := v.info.tf.valueCastToType,
                                       valueCastFromType := v.info.tf.valueCastFromType },
                  goElemType := v.info.goElemType }
    | none => info
  let isCustom := isCustomOf cfg f keys
  let suffix := suffixOf cfg f keys
  let mapValIsMessage := match mapV with | some v => v.info.tf.isMessage | none => false
  let kind := kindOf isCustom isMap mapValIsMessage isRepeated info.tf.isMessage
  let oo : String × String :=
    match f.oneof with
    | none => ("", "")
    | some i => (goNameS (ctx.desc.oneofs.getD i ""), msgGoType cfg (ctx.desc.name ++ "_" ++ goNameS f.name))
  let info := { info with isCustomType := isCustom, suffix := suffix, kind := kind,
                          goElemTypeIndirect := stripChars info.goElemType ['*'],
                          oneOfName := oo.1, oneOfType := oo.2 }
  let ms : Option MsgInfo × List Field :=
    match mapV, nestedMsg with
    | some v, _ => (v.msg, v.sub)
    | none, some m => (some m.info, m.fields)
    | none, none => (none, [])
  { info := info, mapVal := mapV.map (·.info), msg := ms.1, sub := ms.2 }

/-- the two forms of the embedding branch -/
def spliced (goType : String) (m : Msg) : List Field :=
  if !(goType.toList.contains '*') then m.fields
  else
    let full := String.ofList (dropStar goType.toList)
    let short := match lastIndexOfChar '.' full.toList with
      | some i => String.ofList (full.toList.drop (i + 1))
      | none => full
    m.fields.map (markEmbedded full short)

/-- **inversion of `coreStep`**: a successful block is empty (excluded), the spliced field list of an embedded message, or a
single node `mkNode …` – a message node, a scalar node or a map node -/
theorem coreStep_ok_inv (V : CfgView) (req : Request) (ctx : MsgCtx) (f : FieldD) (keys : Keys)
    (goType : String) (isMap isRep hasComment : Bool)
    (bm : MsgD → Except BuildError Msg) (bv : Except BuildError (List Field)) (r : List Field)
    (h : coreStep V req ctx f keys goType isMap isRep hasComment bm bv = .ok r) :
    (V.excluded keys = true ∧ r = []) ∨
    (V.excluded keys = false ∧ ∃ tf, getTerraformType V f isMap isRep goType keys.path = .ok tf ∧
      ((isMap = false ∧ tf.isMessage = true ∧ ∃ d m, req.findMessage f.typeName = some d ∧ bm d = .ok m ∧
          ((f.embed = true ∧ r = spliced goType m) ∨
           (f.embed = false ∧ r = [mkNode V ctx f keys goType false isRep hasComment tf none (some m)]))) ∨
       (isMap = false ∧ tf.isMessage = false ∧ r = [mkNode V ctx f keys goType false isRep hasComment tf none none]) ∨
       (isMap = true ∧ scalarGoType f.mapKey = "string" ∧ ∃ v vs, bv = .ok (v :: vs) ∧
          r = [mkNode V ctx f keys goType true isRep hasComment tf (some v) none]))) := by
  unfold coreStep at h
  cases hex : V.excluded keys with
  | true =>
    simp only [hex, if_true] at h
    injection h with h
    exact Or.inl ⟨rfl, h.symm⟩
  | false =>
    refine Or.inr ⟨rfl, ?_⟩
    cases htf : getTerraformType V f isMap isRep goType keys.path with
    | error e => simp only [hex, htf] at h; cases h
    | ok tf =>
      refine ⟨tf, rfl, ?_⟩
      cases hc : (tf.isMessage && !isMap) with
      | true =>
        have hmap : isMap = false := by cases isMap <;> simp_all
        subst hmap
        have hm : tf.isMessage = true := by simpa using hc
        cases hfind : req.findMessage f.typeName with
        | none => simp only [hex, htf, hc, hfind] at h; cases h
        | some d =>
          cases hb : bm d with
          | error e => simp only [hex, htf, hc, hfind, hb] at h; cases h
          | ok m =>
            refine Or.inl ⟨rfl, hm, d, m, rfl, hb, ?_⟩
            cases hemb : f.embed with
            | false =>
              simp only [hex, htf, hc, hfind, hb, hemb, Bool.and_false, Bool.false_eq_true, if_false] at h
              injection h with h
              exact Or.inr ⟨rfl, h.symm⟩
            | true =>
              refine Or.inl ⟨rfl, ?_⟩
              unfold spliced
              cases hnl : goType.toList.contains '*' with
              | false =>
                simp only [hex, htf, hm, hfind, hb, hemb, hnl, Bool.and_self, Bool.not_false,
                  Bool.false_eq_true, if_false, if_true] at h
                injection h with h
                subst h
                rfl
              | true =>
                simp only [hex, htf, hm, hfind, hb, hemb, hnl, Bool.and_self, Bool.not_true, Bool.not_false,
                  Bool.false_eq_true, if_false, if_true] at h
                injection h with h
                subst h
                rfl
      | false =>
        cases isMap with
        | false =>
          have hm : tf.isMessage = false := by simpa using hc
          simp only [hex, htf, hc, Bool.false_and, Bool.false_eq_true, if_false] at h
          injection h with h
          exact Or.inr (Or.inl ⟨rfl, hm, h.symm⟩)
        | true =>
          by_cases hk : scalarGoType f.mapKey = "string"
          · cases hv : bv with
            | error e => simp [hex, htf, hk, hv] at h
            | ok l =>
              cases l with
              | nil => simp [hex, htf, hk, hv] at h
              | cons v vs =>
                simp only [hex, htf, hc, hk, hv, Bool.false_and, Bool.false_eq_true, if_false] at h
                injection h with h
                exact Or.inr (Or.inr ⟨rfl, hk, v, vs, rfl, h.symm⟩)
          · simp [hex, htf, hk] at h

theorem bases_valueType : ∀ b ∈ Generated.bases, b.valueType = b.elemValueType := by decide

/-- a row that fires for a map field (proto tag `MESSAGE`) and has a base record: the base's zero value is empty -/
theorem rows_map_zero : ∀ r ∈ Generated.typeRows, ∀ b ∈ Generated.bases, b.name = r.base →
    (if r.kind == "scalar" || r.kind == "enum" then r.protos.contains "MESSAGE"
     else if r.kind == "message" then true else r.kind == "default") = true → b.zeroValue = "" := by
  decide

theorem vkind_list : vkindOf (Generated.typesPkg ++ ".List") = .list := by decide
theorem vkind_map : vkindOf (Generated.typesPkg ++ ".Map") = .map := by decide

/-- **shape of the record `GetTerraformType` returns**: `ValueType` is `types.Map` for maps, `types.List` for repeated fields and
the element value type otherwise; the zero value of a map field's record is empty -/
theorem getTerraformType_shape (cfg : CfgView) (f : FieldD) (isMap isRep : Bool) (goType path : String) (t : TfType)
    (h : getTerraformType cfg f isMap isRep goType path = .ok t) :
    (isMap = true → t.valueType = Generated.typesPkg ++ ".Map" ∧ t.zeroValue = "") ∧
    (isMap = false → isRep = true → t.valueType = Generated.typesPkg ++ ".List") ∧
    (isMap = false → isRep = false → t.valueType = t.elemValueType) := by
  unfold getTerraformType at h
  simp only at h
  cases hfind : Generated.typeRows.find? (rowMatches cfg f isMap) with
  | none => simp [hfind] at h
  | some r =>
    simp only [hfind] at h
    have hr : r ∈ Generated.typeRows := List.mem_of_find?_eq_some hfind
    have hrm : rowMatches cfg f isMap r = true := List.find?_some hfind
    by_cases h1 : (r.kind == "time") = true
    · simp only [h1, if_true] at h
      cases ht : cfg.timeType with
      | none => simp [ht] at h
      | some s =>
        simp only [ht] at h
        injection h with h
        subst h
        cases isMap <;> cases isRep <;> by_cases hc : (f.castType != "") = true <;>
          simp [hc, tfTypeOfConfig]
    · simp only [h1, Bool.false_eq_true, if_false] at h
      by_cases h2 : (r.kind == "duration") = true
      · simp only [h2, if_true] at h
        cases ht : cfg.durationType with
        | none => simp [ht] at h
        | some s =>
          simp only [ht] at h
          injection h with h
          subst h
          cases isMap <;> cases isRep <;> by_cases hc : (f.castType != "") = true <;>
            simp [hc, tfTypeOfConfig]
      · simp only [h2, Bool.false_eq_true, if_false] at h
        by_cases h3 : (r.kind == "default") = true
        · simp [h3] at h
        · simp only [h3, Bool.false_eq_true, if_false] at h
          cases hb : Generated.bases.find? (fun b => b.name == r.base) with
          | none => simp [hb] at h
          | some b =>
            simp only [hb] at h
            have hbm : b ∈ Generated.bases := List.mem_of_find?_eq_some hb
            have hbn : b.name = r.base := by
              have := List.find?_some hb
              simpa using this
            have hbv := bases_valueType b hbm
            have hz : isMap = true → b.zeroValue = "" := by
              intro hmap
              subst hmap
              apply rows_map_zero r hr b hbm hbn
              unfold rowMatches at hrm
              simp only [h1, h2, Bool.false_eq_true, if_false, FieldD.protoTag, if_true] at hrm
              exact hrm
            cases isRep <;> cases isMap <;> cases hm : r.isMessage <;>
              by_cases hc : (f.castType != "") = true <;>
              by_cases hcf1 : (r.castFrom == "<elem>") = true <;>
              by_cases hcf2 : (r.castFrom != "") = true <;>
              simp only [hm, hc, hcf1, hcf2, Bool.false_eq_true, if_false, if_true] at h <;>
              injection h with h <;> subst h <;> simp [tfTypeOfBase, hbv, hz]

-- ------------------------------------------------------------------------------------------------------
-- projections of `mkNode`

section proj
variable (V : CfgView) (ctx : MsgCtx) (f : FieldD) (keys : Keys) (goType : String) (isMap isRep hc : Bool)
  (tf : TfType) (mapV : Option Field) (nested : Option Msg)

theorem mkNode_isMap : (mkNode V ctx f keys goType isMap isRep hc tf mapV nested).info.isMap = isMap := by
  cases isRep <;> cases mapV <;> rfl
theorem mkNode_isRepeated : (mkNode V ctx f keys goType isMap isRep hc tf mapV nested).info.isRepeated = isRep := by
  cases isRep <;> cases mapV <;> rfl
theorem mkNode_isPlaceholder : (mkNode V ctx f keys goType isMap isRep hc tf mapV nested).info.isPlaceholder = false := by
  cases isRep <;> cases mapV <;> rfl
theorem mkNode_parent : (mkNode V ctx f keys goType isMap isRep hc tf mapV nested).info.parentIsOptionalEmbed = false := by
  cases isRep <;> cases mapV <;> rfl
theorem mkNode_isCustomType :
    (mkNode V ctx f keys goType isMap isRep hc tf mapV nested).info.isCustomType = isCustomOf V f keys := by
  cases isRep <;> cases mapV <;> rfl
theorem mkNode_mapVal : (mkNode V ctx f keys goType isMap isRep hc tf mapV nested).mapVal = mapV.map (·.info) := rfl
theorem mkNode_tf_none : (mkNode V ctx f keys goType isMap isRep hc tf none nested).info.tf = tf := by
  cases isRep <;> rfl
theorem mkNode_tf_some (v : Field) : (mkNode V ctx f keys goType isMap isRep hc tf (some v) nested).info.tf =
    { tf with elemType := v.info.tf.elemType, elemValueType := v.info.tf.elemValueType,
              valueCastToType := v.info.tf.valueCastToType, valueCastFromType := v.info.tf.valueCastFromType } := by
  cases isRep <;> rfl
theorem mkNode_tf_isMessage : (mkNode V ctx f keys goType isMap isRep hc tf mapV nested).info.tf.isMessage = tf.isMessage := by
  cases isRep <;> cases mapV <;> rfl
theorem mkNode_kind : (mkNode V ctx f keys goType isMap isRep hc tf mapV nested).info.kind =
    kindOf (isCustomOf V f keys) isMap ((mapV.map (·.info.tf.isMessage)).getD false) isRep tf.isMessage := by
  cases isRep <;> cases mapV <;> rfl
theorem mkNode_oneOfName : (mkNode V ctx f keys goType isMap isRep hc tf mapV nested).info.oneOfName =
    (match f.oneof with | none => "" | some i => goNameS (ctx.desc.oneofs.getD i "")) := by
  cases isRep <;> cases mapV <;> (simp only [mkNode]; cases f.oneof <;> rfl)
theorem mkNode_nameSnake : (mkNode V ctx f keys goType isMap isRep hc tf mapV nested).info.nameSnake = snakeOf V f keys := by
  cases isRep <;> cases mapV <;> rfl
theorem mkNode_path : (mkNode V ctx f keys goType isMap isRep hc tf mapV nested).info.path = keys.path := by
  cases isRep <;> cases mapV <;> rfl
theorem mkNode_msg_some (v : Field) : (mkNode V ctx f keys goType isMap isRep hc tf (some v) nested).msg = v.msg := rfl
theorem mkNode_sub_some (v : Field) : (mkNode V ctx f keys goType isMap isRep hc tf (some v) nested).sub = v.sub := rfl
theorem mkNode_msg_none_some (m : Msg) : (mkNode V ctx f keys goType isMap isRep hc tf none (some m)).msg = some m.info := rfl
theorem mkNode_sub_none_some (m : Msg) : (mkNode V ctx f keys goType isMap isRep hc tf none (some m)).sub = m.fields := rfl
theorem mkNode_msg_none_none : (mkNode V ctx f keys goType isMap isRep hc tf none none).msg = none := rfl
theorem mkNode_sub_none_none : (mkNode V ctx f keys goType isMap isRep hc tf none none).sub = [] := rfl

end proj

-- ------------------------------------------------------------------------------------------------------
-- the invariant of the front end

/-- where a `tf` record's element pair comes from: a row of the table (with the record's message flag), or the configured
time / duration type of the view (`getTerraformType_origin`) -/
def TfSrc (V : CfgView) (tf : TfType) : Prop :=
  FromTable tf.isMessage tf.elemType tf.elemValueType ∨
  (∃ s, (V.timeType = some s ∨ V.durationType = some s) ∧ tf.isMessage = false ∧
      tf.elemType = s.type ∧ tf.elemValueType = s.valueType)

/-- **node-level facts every built node satisfies** (no hypothesis on the configuration): the kind is `getKind` of the
flags stored in the node; map and repeated exclude each other; a non-map node has no map value record, its record is a
`GetTerraformType` record with `ValueType` = `List` (repeated) or the element value type; a map node carries the record of
its value field, shares its element pair, has an empty zero value and `ValueType` = `Map`; only `active` is a placeholder -/
structure InfoB (V : CfgView) (info : FieldInfo) (mapVal : Option FieldInfo) : Prop where
  kind_eq : info.kind = kindOf info.isCustomType info.isMap ((mapVal.map (·.tf.isMessage)).getD false) info.isRepeated
    info.tf.isMessage
  notBoth : info.isMap = true → info.isRepeated = false
  nonMap : info.isMap = false → mapVal = none ∧ TfSrc V info.tf ∧
    (info.isRepeated = false → info.tf.valueType = info.tf.elemValueType) ∧
    (info.isRepeated = true → info.tf.valueType = Generated.typesPkg ++ ".List")
  map : info.isMap = true → ∃ vi, mapVal = some vi ∧ TfSrc V vi.tf ∧ info.tf.elemType = vi.tf.elemType ∧
    info.tf.elemValueType = vi.tf.elemValueType ∧ info.tf.zeroValue = "" ∧
    info.tf.valueType = Generated.typesPkg ++ ".Map"
  placeholder : info.isPlaceholder = true →
    info.kind = .primitive ∧ info.oneOfName = "" ∧ info.isRepeated = false ∧ info.isMap = false

/-- a message without declared fields holds exactly the placeholder -/
def MsgB (mi : MsgInfo) (fields : List Field) : Prop := mi.isEmpty = true → ∃ p, fields = [placeholderField p]

mutual
/-- **what `BuildField` establishes for a node**, at every depth: `InfoB`; a node whose value (the field itself, or the value
of the map) is message-typed carries the nested message, a message without declared fields holding exactly the placeholder;
other nodes carry neither message nor children -/
def Built (V : CfgView) : Field → Prop
  | ⟨info, mapVal, msg, sub⟩ =>
    InfoB V info mapVal ∧
    ((mapVal.getD info).tf.isMessage = true → ∃ mi, msg = some mi ∧ MsgB mi sub) ∧
    ((mapVal.getD info).tf.isMessage = false → msg = none ∧ sub = []) ∧
    Builts V sub
def Builts (V : CfgView) : List Field → Prop
  | [] => True
  | f :: fs => Built V f ∧ Builts V fs
end

theorem builts_iff (V : CfgView) : ∀ fs : List Field, Builts V fs ↔ ∀ f ∈ fs, Built V f
  | [] => by rw [Builts]; simp
  | f :: fs => by rw [Builts, builts_iff V fs]; simp

theorem built_unfold (V : CfgView) (x : Field) : Built V x ↔
    InfoB V x.info x.mapVal ∧
    ((x.mapVal.getD x.info).tf.isMessage = true → ∃ mi, x.msg = some mi ∧ MsgB mi x.sub) ∧
    ((x.mapVal.getD x.info).tf.isMessage = false → x.msg = none ∧ x.sub = []) ∧
    Builts V x.sub := by
  obtain ⟨info, mv, msg, sub⟩ := x
  rw [Built]

/-- the record of the placeholder `active`: the `boolType` base -/
def phTf : TfType := (Generated.bases.find? (·.name == "boolType")).map tfTypeOfBase |>.getD {}

theorem placeholder_tf (p : String) : (placeholderField p).info.tf = phTf := rfl
theorem placeholder_mapVal (p : String) : (placeholderField p).mapVal = none := rfl
theorem phTf_table : fromTableB phTf.isMessage phTf.elemType phTf.elemValueType = true := by decide
theorem phTf_valueType : phTf.valueType = phTf.elemValueType := by decide
theorem phTf_isMessage : phTf.isMessage = false := by decide

theorem built_placeholder (V : CfgView) (p : String) : Built V (placeholderField p) := by
  rw [built_unfold]
  refine ⟨?_, ?_, fun _ => ⟨rfl, rfl⟩, ?_⟩
  · exact
      { kind_eq := rfl
        notBoth := fun h => (by cases h)
        nonMap := fun _ => ⟨rfl, Or.inl (fromTable_of_b _ _ _ (by rw [placeholder_tf]; exact phTf_table)),
          fun _ => (by rw [placeholder_tf]; exact phTf_valueType), fun h => (by cases h)⟩
        map := fun h => (by cases h)
        placeholder := fun _ => ⟨rfl, rfl, rfl, rfl⟩ }
  · intro h
    rw [placeholder_mapVal, Option.getD_none, placeholder_tf, phTf_isMessage] at h
    cases h
  · show Builts V []
    rw [Builts]; trivial

theorem built_mark (V : CfgView) (a b : String) (x : Field) (h : Built V x) : Built V (markEmbedded a b x) := by
  obtain ⟨info, mv, msg, sub⟩ := x
  rw [built_unfold] at h ⊢
  obtain ⟨hi, h1, h2, h3⟩ := h
  refine ⟨⟨hi.kind_eq, hi.notBoth, hi.nonMap, hi.map, hi.placeholder⟩, ?_, ?_, h3⟩
  · cases mv <;> exact h1
  · cases mv <;> exact h2

-- ------------------------------------------------------------------------------------------------------
-- the three kinds of node satisfy the invariant

theorem tfSrc_of_get (V : CfgView) (f : FieldD) (isMap isRep : Bool) (goType path : String) (t : TfType)
    (h : getTerraformType V f isMap isRep goType path = .ok t) : TfSrc V t :=
  getTerraformType_origin V f isMap isRep goType path t h

theorem mkNode_infoB_nonMap (V : CfgView) (ctx : MsgCtx) (f : FieldD) (keys : Keys) (goType : String) (isRep hc : Bool)
    (tf : TfType) (nested : Option Msg) (htf : getTerraformType V f false isRep goType keys.path = .ok tf) :
    InfoB V (mkNode V ctx f keys goType false isRep hc tf none nested).info none where
  kind_eq := by rw [mkNode_kind, mkNode_isCustomType, mkNode_isMap, mkNode_isRepeated, mkNode_tf_isMessage]; rfl
  notBoth := by rw [mkNode_isMap]; intro h; cases h
  nonMap := by
    intro _
    obtain ⟨_, h2, h3⟩ := getTerraformType_shape V f false isRep goType keys.path tf htf
    rw [mkNode_tf_none, mkNode_isRepeated]
    exact ⟨rfl, tfSrc_of_get V f false isRep goType keys.path tf htf, h3 rfl, h2 rfl⟩
  map := by rw [mkNode_isMap]; intro h; cases h
  placeholder := by rw [mkNode_isPlaceholder]; intro h; cases h

theorem mkNode_infoB_map (V : CfgView) (ctx : MsgCtx) (f : FieldD) (keys : Keys) (goType : String) (hc : Bool)
    (tf : TfType) (nested : Option Msg) (v : Field) (htf : getTerraformType V f true false goType keys.path = .ok tf)
    (hv : TfSrc V v.info.tf) :
    InfoB V (mkNode V ctx f keys goType true false hc tf (some v) nested).info (some v.info) where
  kind_eq := by rw [mkNode_kind, mkNode_isCustomType, mkNode_isMap, mkNode_isRepeated, mkNode_tf_isMessage]; rfl
  notBoth := by rw [mkNode_isRepeated]; intro _; rfl
  nonMap := by rw [mkNode_isMap]; intro h; cases h
  map := by
    intro _
    obtain ⟨h1, _, _⟩ := getTerraformType_shape V f true false goType keys.path tf htf
    rw [mkNode_tf_some]
    exact ⟨v.info, rfl, hv, rfl, rfl, (h1 rfl).2, (h1 rfl).1⟩
  placeholder := by rw [mkNode_isPlaceholder]; intro h; cases h

theorem builts_nil (V : CfgView) : Builts V [] := by rw [Builts]; trivial

/-- a message-typed, non-map, non-embedded field -/
theorem mkNode_built_msg (V : CfgView) (ctx : MsgCtx) (f : FieldD) (keys : Keys) (goType : String) (isRep hc : Bool)
    (tf : TfType) (m : Msg) (htf : getTerraformType V f false isRep goType keys.path = .ok tf) (hm : tf.isMessage = true)
    (hB : Builts V m.fields) (hM : MsgB m.info m.fields) :
    Built V (mkNode V ctx f keys goType false isRep hc tf none (some m)) := by
  rw [built_unfold, mkNode_mapVal, mkNode_msg_none_some, mkNode_sub_none_some]
  refine ⟨mkNode_infoB_nonMap V ctx f keys goType isRep hc tf _ htf, fun _ => ⟨m.info, rfl, hM⟩, fun h => ?_, hB⟩
  simp only [Option.map_none, Option.getD_none] at h
  rw [mkNode_tf_isMessage, hm] at h
  cases h

/-- a scalar-typed, non-map field -/
theorem mkNode_built_scalar (V : CfgView) (ctx : MsgCtx) (f : FieldD) (keys : Keys) (goType : String) (isRep hc : Bool)
    (tf : TfType) (htf : getTerraformType V f false isRep goType keys.path = .ok tf) (hm : tf.isMessage = false) :
    Built V (mkNode V ctx f keys goType false isRep hc tf none none) := by
  rw [built_unfold, mkNode_mapVal, mkNode_msg_none_none, mkNode_sub_none_none]
  refine ⟨mkNode_infoB_nonMap V ctx f keys goType isRep hc tf _ htf, fun h => ?_, fun _ => ⟨rfl, rfl⟩, builts_nil V⟩
  simp only [Option.map_none, Option.getD_none] at h
  rw [mkNode_tf_isMessage, hm] at h
  cases h

/-- a map field over its value field `v` (a built, non-map node) -/
theorem mkNode_built_map (V : CfgView) (ctx : MsgCtx) (f : FieldD) (keys : Keys) (goType : String) (hc : Bool)
    (tf : TfType) (v : Field) (htf : getTerraformType V f true false goType keys.path = .ok tf)
    (hv : Built V v) (hvm : v.info.isMap = false) :
    Built V (mkNode V ctx f keys goType true false hc tf (some v) none) := by
  rw [built_unfold] at hv
  obtain ⟨hi, h1, h2, h3⟩ := hv
  obtain ⟨hmv, hsrc, _, _⟩ := hi.nonMap hvm
  rw [hmv, Option.getD_none] at h1 h2
  rw [built_unfold, mkNode_mapVal, mkNode_msg_some, mkNode_sub_some]
  exact ⟨mkNode_infoB_map V ctx f keys goType hc tf _ v htf hsrc, h1, h2, h3⟩

theorem spliced_mem (goType : String) (m : Msg) (x : Field) (hx : x ∈ spliced goType m) :
    x ∈ m.fields ∨ ∃ a b y, y ∈ m.fields ∧ x = markEmbedded a b y := by
  unfold spliced at hx
  split at hx
  · exact Or.inl hx
  · obtain ⟨y, hy, rfl⟩ := List.mem_map.mp hx
    exact Or.inr ⟨_, _, y, hy, rfl⟩

theorem mapValueField_embed (f : FieldD) : f.mapValueField.embed = false := rfl

/-- **one block**: the nodes of a block satisfy the invariant if those of the recursive results do; a block that is not the
splice of an embedded message is empty or one node with the flags of the call -/
theorem coreStep_built (V : CfgView) (req : Request) (ctx : MsgCtx) (f : FieldD) (keys : Keys)
    (goType : String) (isMap isRep hasComment : Bool) (hnb : isMap = true → isRep = false)
    (bm : MsgD → Except BuildError Msg) (bv : Except BuildError (List Field))
    (hbm : ∀ d m, req.findMessage f.typeName = some d → bm d = .ok m → Builts V m.fields ∧ MsgB m.info m.fields)
    (hbv : ∀ r, bv = .ok r → ∀ x ∈ r, Built V x ∧ x.info.isMap = false)
    (r : List Field) (h : coreStep V req ctx f keys goType isMap isRep hasComment bm bv = .ok r) :
    (∀ x ∈ r, Built V x) ∧
    (f.embed = false → ∀ x ∈ r, x.info.isMap = isMap ∧ x.info.isRepeated = isRep ∧ x.info.isPlaceholder = false) := by
  rcases coreStep_ok_inv V req ctx f keys goType isMap isRep hasComment bm bv r h with
    ⟨_, rfl⟩ | ⟨_, tf, htf, hcase⟩
  · exact ⟨fun x hx => (by cases hx), fun _ x hx => (by cases hx)⟩
  · rcases hcase with ⟨rfl, hm, d, m, hfind, hb, hr⟩ | ⟨rfl, hm, rfl⟩ | ⟨rfl, hk, v, vs, hv, rfl⟩
    · obtain ⟨hB, hM⟩ := hbm d m hfind hb
      rcases hr with ⟨hemb, rfl⟩ | ⟨hemb, rfl⟩
      · refine ⟨fun x hx => ?_, fun he => (by rw [hemb] at he; cases he)⟩
        rcases spliced_mem goType m x hx with hx | ⟨a, b, y, hy, rfl⟩
        · exact (builts_iff V _).mp hB x hx
        · exact built_mark V a b y ((builts_iff V _).mp hB y hy)
      · refine ⟨fun x hx => ?_, fun _ x hx => ?_⟩ <;> (rw [List.mem_singleton] at hx; subst hx)
        · exact mkNode_built_msg V ctx f keys goType isRep hasComment tf m htf hm hB hM
        · exact ⟨mkNode_isMap .., mkNode_isRepeated .., mkNode_isPlaceholder ..⟩
    · refine ⟨fun x hx => ?_, fun _ x hx => ?_⟩ <;> (rw [List.mem_singleton] at hx; subst hx)
      · exact mkNode_built_scalar V ctx f keys goType isRep hasComment tf htf hm
      · exact ⟨mkNode_isMap .., mkNode_isRepeated .., mkNode_isPlaceholder ..⟩
    · have hrep : isRep = false := hnb rfl
      subst hrep
      obtain ⟨hvB, hvm⟩ := hbv _ hv v List.mem_cons_self
      refine ⟨fun x hx => ?_, fun _ x hx => ?_⟩ <;> (rw [List.mem_singleton] at hx; subst hx)
      · exact mkNode_built_map V ctx f keys goType hasComment tf v htf hvB hvm
      · exact ⟨mkNode_isMap .., mkNode_isRepeated .., mkNode_isPlaceholder ..⟩

-- ------------------------------------------------------------------------------------------------------
-- the whole tree

theorem card_flags (c : Card) : (c == .map) = true → (c == .repeated) = false := by
  cases c <;> decide

/-- the message level of the induction, given the blocks of the declared fields -/
theorem msgStep_built (V : CfgView) (desc : MsgD) (isRoot : Bool) (path : String) (c : Except BuildError (List Field))
    (m : Msg) (P : Field → Prop) (hph : ∀ p, P (placeholderField p))
    (hc : ∀ fs, c = .ok fs → ∀ x ∈ fs, P x)
    (h : msgStep V desc isRoot path c = .ok m) :
    (∀ x ∈ m.fields, P x) ∧ MsgB m.info m.fields ∧ m.info.isEmpty = desc.fields.isEmpty := by
  unfold msgStep at h
  cases hemp : desc.fields.isEmpty with
  | true =>
    simp only [hemp, if_true] at h
    injection h with h
    subst h
    refine ⟨fun x hx => ?_, fun _ => ⟨_, rfl⟩, rfl⟩
    rw [List.mem_singleton] at hx
    subst hx
    exact hph _
  | false =>
    simp only [hemp, Bool.false_eq_true, if_false] at h
    cases c with
    | error e => simp at h
    | ok fs =>
      simp only at h
      injection h with h
      subst h
      refine ⟨fun x hx => ?_, fun he => ?_, rfl⟩
      · refine hc fs rfl x ?_
        simp only at hx
        split at hx
        · exact (mem_sortFieldsByName x fs).mp hx
        · exact hx
      · cases he

/-- **MAIN (invariant)**: every node of every IR the front end builds satisfies `Built` – for every fuel, view, request,
descriptor, root flag and path; no hypothesis on the configuration or on the descriptor -/
theorem built_all (V : CfgView) (req : Request) : ∀ n : Nat,
    (∀ desc isRoot path m, buildMessage n V req desc isRoot path = .ok m →
        Builts V m.fields ∧ MsgB m.info m.fields) ∧
    (∀ ctx f keys goType isMap isRep hasComment r, (isMap = true → isRep = false) →
        buildFieldCore n V req ctx f keys goType isMap isRep hasComment = .ok r →
        (∀ x ∈ r, Built V x) ∧
        (f.embed = false → ∀ x ∈ r, x.info.isMap = isMap ∧ x.info.isRepeated = isRep ∧ x.info.isPlaceholder = false)) := by
  intro n
  induction n with
  | zero =>
    constructor
    · intro desc isRoot path m h; rw [buildMessage_zero] at h; cases h
    · intro ctx f keys goType isMap isRep hc r _ h; rw [buildFieldCore_zero] at h; cases h
  | succ n ih =>
    obtain ⟨ihM, ihF⟩ := ih
    constructor
    · intro desc isRoot path m h
      rw [buildMessage_succ] at h
      obtain ⟨h1, h2, _⟩ := msgStep_built V desc isRoot path _ m (Built V) (built_placeholder V) (fun fs hfs x hx => by
        obtain ⟨b, _, r, hr, hxr⟩ := collect_mem _ desc.fields fs hfs x hx
        exact (ihF _ b _ _ _ _ _ r (card_flags b.card) hr).1 x hxr) h
      exact ⟨(builts_iff V _).mpr h1, h2⟩
    · intro ctx f keys goType isMap isRep hc r hnb h
      rw [buildFieldCore_succ] at h
      refine coreStep_built V req ctx f keys goType isMap isRep hc hnb _ _ ?_ ?_ r h
      · intro d m _ hb
        exact ihM d false keys.path m hb
      · intro r' hr' x hx
        obtain ⟨h1, h2⟩ := ihF ctx f.mapValueField keys _ false false false r' (fun h => by cases h) hr'
        exact ⟨h1 x hx, (h2 rfl x hx).1⟩

theorem built_message (V : CfgView) (req : Request) (n : Nat) (desc : MsgD) (isRoot : Bool) (path : String) (m : Msg)
    (h : buildMessage n V req desc isRoot path = .ok m) : Builts V m.fields :=
  ((built_all V req n).1 desc isRoot path m h).1

-- ======================================================================================================
-- 1. `IRWF` = node part + name part
-- ======================================================================================================

mutual
/-- the node part of `IRWF` (SchemaTyped): everything except the distinctness of attribute names -/
def NodeWF : Field → Prop
  | ⟨info, mapVal, msg, sub⟩ =>
    EmbedOK info ∧
    match info.kind with
    | .primitive => ScalarTf info.tf
    | .custom => info.oneOfName = ""
    | .object => sub ≠ [] ∧ NodeWFs sub
    | .primitiveList =>
      info.isRepeated = true ∧ info.oneOfName = "" ∧ info.isPlaceholder = false ∧ ScalarTf info.tf
    | .objectList =>
      info.isRepeated = true ∧ info.oneOfName = "" ∧ MessageTf info.tf ∧ sub ≠ [] ∧ isEmptyMsg msg = false ∧ NodeWFs sub
    | .primitiveMap =>
      info.isRepeated = false ∧ info.oneOfName = "" ∧ info.isPlaceholder = false ∧ info.tf.zeroValue = "" ∧
      ScalarTf info.tf ∧ (mapVal.getD info).tf.elemType = info.tf.elemType
    | .objectMap =>
      info.isRepeated = false ∧ info.oneOfName = "" ∧ MessageTf info.tf ∧ sub ≠ [] ∧ isEmptyMsg msg = false ∧ NodeWFs sub
def NodeWFs : List Field → Prop
  | [] => True
  | f :: rest => NodeWF f ∧ NodeWFs rest
end

mutual
theorem irwf_iff : ∀ f : Field, IRWF f ↔ NodeWF f ∧ NamesOK f
  | ⟨info, mapVal, msg, sub⟩ => by
    unfold IRWF NodeWF NamesOK
    have ih := irwfs_iff sub
    cases hk : info.kind with
    | primitive => simp only [and_true]
    | custom => simp only [and_true]
    | primitiveList => simp only [and_true]
    | primitiveMap => simp only [and_true]
    | object =>
      simp only []
      rw [ih]
      constructor
      · rintro ⟨e, n, a, b⟩; exact ⟨⟨e, n, a⟩, b⟩
      · rintro ⟨⟨e, n, a⟩, b⟩; exact ⟨e, n, a, b⟩
    | objectList =>
      simp only []
      rw [ih]
      constructor
      · rintro ⟨e, r, o, t, n, m, a, b⟩; exact ⟨⟨e, r, o, t, n, m, a⟩, b⟩
      · rintro ⟨⟨e, r, o, t, n, m, a⟩, b⟩; exact ⟨e, r, o, t, n, m, a, b⟩
    | objectMap =>
      simp only []
      rw [ih]
      constructor
      · rintro ⟨e, r, o, t, n, m, a, b⟩; exact ⟨⟨e, r, o, t, n, m, a⟩, b⟩
      · rintro ⟨⟨e, r, o, t, n, m, a⟩, b⟩; exact ⟨e, r, o, t, n, m, a, b⟩
/-- **`IRWFs` = node part ∧ name part** (`NamesOKs`: SchemaTyped, pairwise distinct attribute names at every level reached
through message-valued fields) -/
theorem irwfs_iff : ∀ fs : List Field, IRWFs fs ↔ NodeWFs fs ∧ NamesOKs fs
  | [] => by unfold IRWFs NodeWFs NamesOKs; simp
  | f :: rest => by
    unfold IRWFs NodeWFs NamesOKs
    rw [irwf_iff f, irwfs_iff rest]
    constructor
    · rintro ⟨⟨a, b⟩, c, d, e⟩; exact ⟨⟨a, d⟩, b, c, e⟩
    · rintro ⟨⟨a, d⟩, b, c, e⟩; exact ⟨⟨a, b⟩, c, d, e⟩
end

theorem nodeWFs_iff : ∀ fs : List Field, NodeWFs fs ↔ ∀ f ∈ fs, NodeWF f
  | [] => by rw [NodeWFs]; simp
  | f :: fs => by rw [NodeWFs, nodeWFs_iff fs]; simp

-- ======================================================================================================
-- 2. what the build guarantees of `NodeWF` (`NodeWF'`), and the rest (`gapFreeB`, decidable on the IR)
-- ======================================================================================================

mutual
/-- **the part of `NodeWF` every built IR satisfies**: `NodeWF` without `EmbedOK`, without `oneOfName = ""` (custom, lists,
maps), without `sub ≠ []` (object kinds) and without `isEmptyMsg msg = false` (lists / maps of messages) -/
def NodeWF' : Field → Prop
  | ⟨info, mapVal, _, sub⟩ =>
    match info.kind with
    | .primitive => ScalarTf info.tf
    | .custom => True
    | .object => NodeWFs' sub
    | .primitiveList => info.isRepeated = true ∧ info.isPlaceholder = false ∧ ScalarTf info.tf
    | .objectList => info.isRepeated = true ∧ MessageTf info.tf ∧ NodeWFs' sub
    | .primitiveMap =>
      info.isRepeated = false ∧ info.isPlaceholder = false ∧ info.tf.zeroValue = "" ∧
      ScalarTf info.tf ∧ (mapVal.getD info).tf.elemType = info.tf.elemType
    | .objectMap => info.isRepeated = false ∧ MessageTf info.tf ∧ NodeWFs' sub
def NodeWFs' : List Field → Prop
  | [] => True
  | f :: rest => NodeWF' f ∧ NodeWFs' rest
end

mutual
/-- **the gap**, as a Boolean on the IR: the four conjuncts of `NodeWF` the build does not guarantee -
* `EmbedOK`: no oneof branch among the children of a nullable embedded message,
* `oneOfName = ""` on custom-typed, repeated and map fields,
* `sub ≠ []` on message-valued nodes (a nested message all of whose fields are excluded has no attribute),
* `isEmptyMsg msg = false` on lists / maps of messages (the element message declares at least one field) -/
def gapFreeB : Field → Bool
  | ⟨info, _, msg, sub⟩ =>
    (!info.parentIsOptionalEmbed || info.oneOfName == "") &&
    match info.kind with
    | .primitive => true
    | .custom => info.oneOfName == ""
    | .object => !sub.isEmpty && gapFreeBs sub
    | .primitiveList => info.oneOfName == ""
    | .objectList => info.oneOfName == "" && !sub.isEmpty && !isEmptyMsg msg && gapFreeBs sub
    | .primitiveMap => info.oneOfName == ""
    | .objectMap => info.oneOfName == "" && !sub.isEmpty && !isEmptyMsg msg && gapFreeBs sub
def gapFreeBs : List Field → Bool
  | [] => true
  | f :: rest => gapFreeB f && gapFreeBs rest
end

theorem isEmpty_false_iff {α} (l : List α) : l.isEmpty = false ↔ l ≠ [] := by
  cases l <;> simp

theorem embedOK_iff (info : FieldInfo) : (!info.parentIsOptionalEmbed || info.oneOfName == "") = true ↔ EmbedOK info := by
  unfold EmbedOK
  cases info.parentIsOptionalEmbed <;> simp

mutual
/-- **`NodeWF` = guaranteed part ∧ gap** -/
theorem nodeWF_iff' : ∀ f : Field, NodeWF f ↔ NodeWF' f ∧ gapFreeB f = true
  | ⟨info, mapVal, msg, sub⟩ => by
    unfold NodeWF NodeWF' gapFreeB
    have ih := nodeWFs_iff' sub
    rw [Bool.and_eq_true, embedOK_iff]
    cases hk : info.kind with
    | primitive => simp only [and_true]; exact and_comm
    | custom =>
      simp only [beq_iff_eq, true_and]
    | primitiveList =>
      simp only [beq_iff_eq]
      constructor
      · rintro ⟨e, r, o, p, s⟩; exact ⟨⟨r, p, s⟩, e, o⟩
      · rintro ⟨⟨r, p, s⟩, e, o⟩; exact ⟨e, r, o, p, s⟩
    | primitiveMap =>
      simp only [beq_iff_eq]
      constructor
      · rintro ⟨e, r, o, p, z, s, m⟩; exact ⟨⟨r, p, z, s, m⟩, e, o⟩
      · rintro ⟨⟨r, p, z, s, m⟩, e, o⟩; exact ⟨e, r, o, p, z, s, m⟩
    | object =>
      simp only [Bool.and_eq_true, Bool.not_eq_true', isEmpty_false_iff]
      rw [ih]
      constructor
      · rintro ⟨e, n, a, b⟩; exact ⟨a, e, n, b⟩
      · rintro ⟨a, e, n, b⟩; exact ⟨e, n, a, b⟩
    | objectList =>
      simp only [Bool.and_eq_true, Bool.not_eq_true', isEmpty_false_iff, beq_iff_eq]
      rw [ih]
      constructor
      · rintro ⟨e, r, o, t, n, m, a, b⟩; exact ⟨⟨r, t, a⟩, e, ⟨⟨o, n⟩, m⟩, b⟩
      · rintro ⟨⟨r, t, a⟩, e, ⟨⟨o, n⟩, m⟩, b⟩; exact ⟨e, r, o, t, n, m, a, b⟩
    | objectMap =>
      simp only [Bool.and_eq_true, Bool.not_eq_true', isEmpty_false_iff, beq_iff_eq]
      rw [ih]
      constructor
      · rintro ⟨e, r, o, t, n, m, a, b⟩; exact ⟨⟨r, t, a⟩, e, ⟨⟨o, n⟩, m⟩, b⟩
      · rintro ⟨⟨r, t, a⟩, e, ⟨⟨o, n⟩, m⟩, b⟩; exact ⟨e, r, o, t, n, m, a, b⟩
theorem nodeWFs_iff' : ∀ fs : List Field, NodeWFs fs ↔ NodeWFs' fs ∧ gapFreeBs fs = true
  | [] => by unfold NodeWFs NodeWFs' gapFreeBs; simp
  | f :: rest => by
    unfold NodeWFs NodeWFs' gapFreeBs
    rw [nodeWF_iff' f, nodeWFs_iff' rest, Bool.and_eq_true]
    constructor
    · rintro ⟨⟨a, b⟩, c, d⟩; exact ⟨⟨a, c⟩, b, d⟩
    · rintro ⟨⟨a, c⟩, b, d⟩; exact ⟨⟨a, b⟩, c, d⟩
end

-- `getKind` inverted
theorem kindOf_primitive : ∀ c m v r g, kindOf c m v r g = .primitive → c = false ∧ m = false ∧ r = false ∧ g = false := by
  decide
theorem kindOf_custom : ∀ c m v r g, kindOf c m v r g = .custom ↔ c = true := by decide
theorem kindOf_object : ∀ c m v r g, kindOf c m v r g = .object → c = false ∧ m = false ∧ r = false ∧ g = true := by
  decide
theorem kindOf_primitiveList : ∀ c m v r g, kindOf c m v r g = .primitiveList →
    c = false ∧ m = false ∧ r = true ∧ g = false := by decide
theorem kindOf_objectList : ∀ c m v r g, kindOf c m v r g = .objectList →
    c = false ∧ m = false ∧ r = true ∧ g = true := by decide
theorem kindOf_primitiveMap : ∀ c m v r g, kindOf c m v r g = .primitiveMap → c = false ∧ m = true ∧ v = false := by
  decide
theorem kindOf_objectMap : ∀ c m v r g, kindOf c m v r g = .objectMap → c = false ∧ m = true ∧ v = true := by decide

theorem scalarTf_of_src {V : CfgView} (hc : ConfigTypesAgree V) {tf : TfType} (h : TfSrc V tf) (hm : tf.isMessage = false) :
    ScalarTf tf := by
  rcases h with h | ⟨s, hs, _, h1, h2⟩
  · rw [hm] at h; exact Or.inl h
  · exact Or.inr ⟨s, hc s hs, h1, h2⟩

theorem messageTf_of_src {V : CfgView} {tf : TfType} (h : TfSrc V tf) (hm : tf.isMessage = true) : MessageTf tf := by
  rcases h with h | ⟨s, _, hf, _, _⟩
  · rw [hm] at h; exact h
  · rw [hm] at hf; cases hf

theorem scalarTf_congr {a b : TfType} (h1 : a.elemType = b.elemType) (h2 : a.elemValueType = b.elemValueType)
    (h : ScalarTf b) : ScalarTf a := by
  unfold ScalarTf at h ⊢
  rw [h1, h2]; exact h

theorem messageTf_congr {a b : TfType} (h1 : a.elemType = b.elemType) (h2 : a.elemValueType = b.elemValueType)
    (h : MessageTf b) : MessageTf a := by
  unfold MessageTf at h ⊢
  rw [h1, h2]; exact h

/-- the node facts by kind, read off `InfoB` -/
theorem infoB_kinds {V : CfgView} (hc : ConfigTypesAgree V) {info : FieldInfo} {mapVal : Option FieldInfo}
    (hi : InfoB V info mapVal) :
    (info.kind = .primitive → ScalarTf info.tf) ∧
    (info.kind = .primitiveList → info.isRepeated = true ∧ info.isPlaceholder = false ∧ ScalarTf info.tf) ∧
    (info.kind = .objectList → info.isRepeated = true ∧ MessageTf info.tf) ∧
    (info.kind = .primitiveMap → info.isRepeated = false ∧ info.isPlaceholder = false ∧ info.tf.zeroValue = "" ∧
      ScalarTf info.tf ∧ (mapVal.getD info).tf.elemType = info.tf.elemType) ∧
    (info.kind = .objectMap → info.isRepeated = false ∧ MessageTf info.tf) := by
  have hnp : ∀ k, info.kind = k → k ≠ .primitive → info.isPlaceholder = false := by
    intro k hk hne
    cases hp : info.isPlaceholder with
    | false => rfl
    | true => exact absurd ((hi.placeholder hp).1.symm.trans hk).symm hne
  refine ⟨fun hk => ?_, fun hk => ?_, fun hk => ?_, fun hk => ?_, fun hk => ?_⟩
  · obtain ⟨_, hm, _, hg⟩ := kindOf_primitive _ _ _ _ _ (hi.kind_eq.symm.trans hk)
    exact scalarTf_of_src hc (hi.nonMap hm).2.1 hg
  · obtain ⟨_, hm, hr, hg⟩ := kindOf_primitiveList _ _ _ _ _ (hi.kind_eq.symm.trans hk)
    exact ⟨hr, hnp _ hk (by decide), scalarTf_of_src hc (hi.nonMap hm).2.1 hg⟩
  · obtain ⟨_, hm, hr, hg⟩ := kindOf_objectList _ _ _ _ _ (hi.kind_eq.symm.trans hk)
    exact ⟨hr, messageTf_of_src (hi.nonMap hm).2.1 hg⟩
  · obtain ⟨_, hm, hv⟩ := kindOf_primitiveMap _ _ _ _ _ (hi.kind_eq.symm.trans hk)
    obtain ⟨vi, hmv, hsrc, he1, he2, hz, _⟩ := hi.map hm
    subst hmv
    exact ⟨hi.notBoth hm, hnp _ hk (by decide), hz,
      scalarTf_congr he1 he2 (scalarTf_of_src hc hsrc (by simpa using hv)), he1.symm⟩
  · obtain ⟨_, hm, hv⟩ := kindOf_objectMap _ _ _ _ _ (hi.kind_eq.symm.trans hk)
    obtain ⟨vi, hmv, hsrc, he1, he2, hz, _⟩ := hi.map hm
    subst hmv
    exact ⟨hi.notBoth hm, messageTf_congr he1 he2 (messageTf_of_src hsrc (by simpa using hv))⟩

mutual
theorem nodeWF'_of_built {V : CfgView} (hc : ConfigTypesAgree V) : ∀ f : Field, Built V f → NodeWF' f
  | ⟨info, mapVal, msg, sub⟩, h => by
    rw [Built] at h
    obtain ⟨hi, _, _, hs⟩ := h
    have ih := nodeWFs'_of_builts hc sub hs
    obtain ⟨k1, k2, k3, k4, k5⟩ := infoB_kinds hc hi
    unfold NodeWF'
    cases hk : info.kind with
    | primitive => exact k1 hk
    | custom => trivial
    | object => exact ih
    | primitiveList => exact k2 hk
    | objectList => exact ⟨(k3 hk).1, (k3 hk).2, ih⟩
    | primitiveMap => exact k4 hk
    | objectMap => exact ⟨(k5 hk).1, (k5 hk).2, ih⟩
theorem nodeWFs'_of_builts {V : CfgView} (hc : ConfigTypesAgree V) : ∀ fs : List Field, Builts V fs → NodeWFs' fs
  | [], _ => by unfold NodeWFs'; trivial
  | f :: rest, h => by
    rw [Builts] at h
    unfold NodeWFs'
    exact ⟨nodeWF'_of_built hc f h.1, nodeWFs'_of_builts hc rest h.2⟩
end

/-- **MAIN**: for every fuel, view, request, descriptor, root flag and path – the IR the front end builds satisfies the
guaranteed part of `IRWF`'s node facts at every depth. The only hypothesis: the configured time / duration types name a
type and a value type of the same primitive kind (`ConfigTypesAgree`, SchemaTyped). -/
theorem built_nodeWF' (fuel : Nat) (V : CfgView) (req : Request) (desc : MsgD) (isRoot : Bool) (path : String) (m : Msg)
    (h : buildMessage fuel V req desc isRoot path = .ok m) (hc : ConfigTypesAgree V) : NodeWFs' m.fields :=
  nodeWFs'_of_builts hc _ (built_message V req fuel desc isRoot path m h)

/-- … and `NodeWFs` itself exactly when the IR has none of the four gaps (a Boolean on the built IR) -/
theorem built_nodeWF_iff (fuel : Nat) (V : CfgView) (req : Request) (desc : MsgD) (isRoot : Bool) (path : String) (m : Msg)
    (h : buildMessage fuel V req desc isRoot path = .ok m) (hc : ConfigTypesAgree V) :
    NodeWFs m.fields ↔ gapFreeBs m.fields = true := by
  rw [nodeWFs_iff']
  exact ⟨fun h => h.2, fun hg => ⟨built_nodeWF' fuel V req desc isRoot path m h hc, hg⟩⟩

-- ======================================================================================================
-- 3. further facts of built IRs: `VFOKs`, `shapeOKb`, `EmptyOK`, kind / flag coherence
-- ======================================================================================================

/-- **node-level coherence of built IRs** – what `RT3OK` (RoundTripEmbed), `ToOK` (ToAll), `VFOKs` (FromDiags) and `SideOK`
(FromUniformAll) ask of a node alone, as far as the build guarantees it -/
structure NodeCoh (info : FieldInfo) (mv : Option FieldInfo) (msg : Option MsgInfo) (sub : List Field) : Prop where
  /-- the value type the block asserts fits the kind -/
  shape : PriorIndep.shapeOKb info = true
  /-- a list field carries no map value record of another element type -/
  vf : VFOKInfo info mv
  /-- a message without declared fields holds only the placeholder -/
  empty : EmptyOK msg sub
  /-- only `active` is a placeholder -/
  ph : info.isPlaceholder = true → info.kind = .primitive ∧ info.oneOfName = ""
  /-- the kind is `getKind` of the flags stored in the node -/
  kindEq : info.kind = kindOf info.isCustomType info.isMap ((mv.map (·.tf.isMessage)).getD false) info.isRepeated
    info.tf.isMessage
  /-- a map value record on map fields only -/
  mvIff : mv.isSome = info.isMap
  /-- the map value record has the element pair of the field -/
  mvElem : (mv.getD info).tf.elemValueType = info.tf.elemValueType ∧ (mv.getD info).tf.elemType = info.tf.elemType
  /-- element value types by kind -/
  primElem : info.kind = .primitive ∨ info.kind = .primitiveList ∨ info.kind = .primitiveMap →
    ∃ k, vkindOf info.tf.elemValueType = .prim k ∧ primTyOf info.tf.elemType = .prim k
  objElem : info.kind = .object ∨ info.kind = .objectList ∨ info.kind = .objectMap →
    vkindOf info.tf.elemValueType = .obj ∧ vkindOf (mv.getD info).tf.elemValueType = .obj
  /-- message-valued nodes carry the nested message, scalar-valued ones carry nothing -/
  objMsg : info.kind = .object ∨ info.kind = .objectList ∨ info.kind = .objectMap → msg.isSome = true
  primMsg : info.kind = .primitive ∨ info.kind = .primitiveList ∨ info.kind = .primitiveMap → msg = none ∧ sub = []
  /-- flags by kind -/
  listFlags : info.kind = .primitiveList ∨ info.kind = .objectList → info.isRepeated = true ∧ info.isMap = false
  mapFlags : info.kind = .primitiveMap ∨ info.kind = .objectMap → info.isRepeated = false ∧ info.isMap = true
  singleFlags : info.kind = .primitive ∨ info.kind = .object → info.isRepeated = false ∧ info.isMap = false
  customIff : info.kind = .custom ↔ info.isCustomType = true

theorem emptyOK_of_msgB (mi : MsgInfo) (sub : List Field) (h : MsgB mi sub) : EmptyOK (some mi) sub := by
  intro he g hg
  obtain ⟨p, hp⟩ := h he
  subst hp
  rw [List.mem_singleton] at hg
  subst hg
  exact ⟨rfl, rfl, rfl⟩

theorem kindOf_cases : ∀ c m v r g,
    (kindOf c m v r g = .primitive ∨ kindOf c m v r g = .primitiveList → m = false ∧ g = false) ∧
    (kindOf c m v r g = .object ∨ kindOf c m v r g = .objectList → m = false ∧ g = true) ∧
    (kindOf c m v r g = .primitiveMap → m = true ∧ v = false) ∧
    (kindOf c m v r g = .objectMap → m = true ∧ v = true) ∧
    (kindOf c m v r g = .primitiveList ∨ kindOf c m v r g = .objectList → r = true ∧ m = false) ∧
    (kindOf c m v r g = .primitive ∨ kindOf c m v r g = .object → r = false ∧ m = false) := by
  decide

theorem built_nodeCoh {V : CfgView} (hc : ConfigTypesAgree V) (info : FieldInfo) (mv : Option FieldInfo)
    (msg : Option MsgInfo) (sub : List Field) (h : Built V ⟨info, mv, msg, sub⟩) : NodeCoh info mv msg sub := by
  rw [Built] at h
  obtain ⟨hi, h1, h2, _⟩ := h
  have hke := hi.kind_eq
  obtain ⟨c1, c2, c3, c4, c5, c6⟩ := kindOf_cases info.isCustomType info.isMap ((mv.map (·.tf.isMessage)).getD false)
    info.isRepeated info.tf.isMessage
  rw [← hke] at c1 c2 c3 c4 c5 c6
  -- the value is message-typed exactly on the object kinds, scalar on the primitive kinds
  have hvalObj : info.kind = .object ∨ info.kind = .objectList ∨ info.kind = .objectMap → (mv.getD info).tf.isMessage = true := by
    rintro (hk | hk | hk)
    · obtain ⟨hm, hg⟩ := c2 (Or.inl hk)
      rw [(hi.nonMap hm).1]; exact hg
    · obtain ⟨hm, hg⟩ := c2 (Or.inr hk)
      rw [(hi.nonMap hm).1]; exact hg
    · obtain ⟨hm, hv⟩ := c4 hk
      obtain ⟨vi, hmv, _⟩ := hi.map hm
      subst hmv
      simpa using hv
  have hvalPrim : info.kind = .primitive ∨ info.kind = .primitiveList ∨ info.kind = .primitiveMap →
      (mv.getD info).tf.isMessage = false := by
    rintro (hk | hk | hk)
    · obtain ⟨hm, hg⟩ := c1 (Or.inl hk)
      rw [(hi.nonMap hm).1]; exact hg
    · obtain ⟨hm, hg⟩ := c1 (Or.inr hk)
      rw [(hi.nonMap hm).1]; exact hg
    · obtain ⟨hm, hv⟩ := c3 hk
      obtain ⟨vi, hmv, _⟩ := hi.map hm
      subst hmv
      simpa using hv
  have hmvElem : (mv.getD info).tf.elemValueType = info.tf.elemValueType ∧ (mv.getD info).tf.elemType = info.tf.elemType := by
    cases hm : info.isMap with
    | false => rw [(hi.nonMap hm).1]; exact ⟨rfl, rfl⟩
    | true =>
      obtain ⟨vi, hmv, _, he1, he2, _⟩ := hi.map hm
      subst hmv
      exact ⟨he2.symm, he1.symm⟩
  -- the record of the value: the field's own (non-map) or the value field's (map)
  have hsrc : TfSrc V (mv.getD info).tf := by
    cases hm : info.isMap with
    | false => rw [(hi.nonMap hm).1]; exact (hi.nonMap hm).2.1
    | true =>
      obtain ⟨vi, hmv, hs, _⟩ := hi.map hm
      subst hmv
      exact hs
  have hprimElem : info.kind = .primitive ∨ info.kind = .primitiveList ∨ info.kind = .primitiveMap →
      ∃ k, vkindOf info.tf.elemValueType = .prim k ∧ primTyOf info.tf.elemType = .prim k := by
    intro hk
    have := scalarTf_bridge _ (scalarTf_of_src hc hsrc (hvalPrim hk))
    rwa [hmvElem.1, hmvElem.2] at this
  have hobjElem : info.kind = .object ∨ info.kind = .objectList ∨ info.kind = .objectMap →
      vkindOf info.tf.elemValueType = .obj ∧ vkindOf (mv.getD info).tf.elemValueType = .obj := by
    intro hk
    have := messageTf_bridge _ (messageTf_of_src hsrc (hvalObj hk))
    exact ⟨by rw [← hmvElem.1]; exact this, this⟩
  refine
    { shape := ?_, vf := ?_, empty := ?_, ph := fun hp => ⟨(hi.placeholder hp).1, (hi.placeholder hp).2.1⟩, kindEq := hke,
      mvIff := ?_, mvElem := hmvElem, primElem := hprimElem, objElem := hobjElem, objMsg := ?_, primMsg := ?_,
      listFlags := c5, mapFlags := ?_, singleFlags := c6, customIff := ?_ }
  · -- shape
    unfold PriorIndep.shapeOKb
    cases hk : info.kind with
    | primitive =>
      obtain ⟨hr, hm⟩ := c6 (Or.inl hk)
      obtain ⟨k, hk1, _⟩ := hprimElem (Or.inl hk)
      simp only []
      rw [(hi.nonMap hm).2.2.1 hr, hk1]
    | custom => rfl
    | object =>
      obtain ⟨hr, hm⟩ := c6 (Or.inr hk)
      simp only []
      rw [(hi.nonMap hm).2.2.1 hr, (hobjElem (Or.inl hk)).1]; rfl
    | primitiveList =>
      obtain ⟨hr, hm⟩ := c5 (Or.inl hk)
      simp only []
      rw [(hi.nonMap hm).2.2.2 hr, vkind_list]; rfl
    | objectList =>
      obtain ⟨hr, hm⟩ := c5 (Or.inr hk)
      simp only []
      rw [(hi.nonMap hm).2.2.2 hr, vkind_list]; rfl
    | primitiveMap =>
      obtain ⟨vi, _, _, _, _, _, hvt⟩ := hi.map (c3 hk).1
      simp only []
      rw [hvt, vkind_map]; rfl
    | objectMap =>
      obtain ⟨vi, _, _, _, _, _, hvt⟩ := hi.map (c4 hk).1
      simp only []
      rw [hvt, vkind_map]; rfl
  · exact fun _ => hmvElem.1
  · cases hv : (mv.getD info).tf.isMessage with
    | true =>
      obtain ⟨mi, hmi, hB⟩ := h1 hv
      subst hmi
      exact emptyOK_of_msgB mi sub hB
    | false =>
      rw [(h2 hv).1]
      intro he; cases he
  · cases hm : info.isMap with
    | false => rw [(hi.nonMap hm).1]; rfl
    | true =>
      obtain ⟨vi, hmv, _⟩ := hi.map hm
      rw [hmv]; rfl
  · intro hk
    obtain ⟨mi, hmi, _⟩ := h1 (hvalObj hk)
    rw [hmi]; rfl
  · exact fun hk => h2 (hvalPrim hk)
  · rintro (hk | hk)
    · exact ⟨hi.notBoth (c3 hk).1, (c3 hk).1⟩
    · exact ⟨hi.notBoth (c4 hk).1, (c4 hk).1⟩
  · rw [hke]; exact kindOf_custom _ _ _ _ _

mutual
/-- "`P` holds at every node, at every depth" -/
def AllNodes (P : FieldInfo → Option FieldInfo → Option MsgInfo → List Field → Prop) : Field → Prop
  | ⟨info, mv, msg, sub⟩ => P info mv msg sub ∧ AllNodess P sub
def AllNodess (P : FieldInfo → Option FieldInfo → Option MsgInfo → List Field → Prop) : List Field → Prop
  | [] => True
  | f :: rest => AllNodes P f ∧ AllNodess P rest
end

mutual
theorem allNodes_of_built {V : CfgView} (hc : ConfigTypesAgree V) : ∀ f : Field, Built V f → AllNodes NodeCoh f
  | ⟨info, mv, msg, sub⟩, h => by
    have hcoh := built_nodeCoh hc info mv msg sub h
    rw [Built] at h
    rw [AllNodes]
    exact ⟨hcoh, allNodess_of_builts hc sub h.2.2.2⟩
theorem allNodess_of_builts {V : CfgView} (hc : ConfigTypesAgree V) : ∀ fs : List Field, Builts V fs → AllNodess NodeCoh fs
  | [], _ => by rw [AllNodess]; trivial
  | f :: rest, h => by
    rw [Builts] at h
    rw [AllNodess]
    exact ⟨allNodes_of_built hc f h.1, allNodess_of_builts hc rest h.2⟩
end

/-- **every node of a built IR is coherent** (`NodeCoh`), for every fuel, view, request, descriptor, root flag, path -/
theorem built_coherent (fuel : Nat) (V : CfgView) (req : Request) (desc : MsgD) (isRoot : Bool) (path : String) (m : Msg)
    (h : buildMessage fuel V req desc isRoot path = .ok m) (hc : ConfigTypesAgree V) : AllNodess NodeCoh m.fields :=
  allNodess_of_builts hc _ (built_message V req fuel desc isRoot path m h)

mutual
theorem vfok_of_built {V : CfgView} : ∀ f : Field, Built V f → VFOK f
  | ⟨info, mv, msg, sub⟩, h => by
    rw [Built] at h
    obtain ⟨hi, _, _, hs⟩ := h
    rw [VFOK]
    refine ⟨fun _ => ?_, vfoks_of_builts sub hs⟩
    cases hm : info.isMap with
    | false => rw [(hi.nonMap hm).1]; rfl
    | true =>
      obtain ⟨vi, hmv, _, _, he2, _⟩ := hi.map hm
      subst hmv
      exact he2.symm
theorem vfoks_of_builts {V : CfgView} : ∀ fs : List Field, Builts V fs → VFOKs fs
  | [], _ => by rw [VFOKs]; trivial
  | f :: rest, h => by
    rw [Builts] at h
    rw [VFOKs]
    exact ⟨vfok_of_built f h.1, vfoks_of_builts rest h.2⟩
end

/-- **`VFOKs` (FromDiags) holds for every built IR** – no hypothesis at all -/
theorem built_vfoks (fuel : Nat) (V : CfgView) (req : Request) (desc : MsgD) (isRoot : Bool) (path : String) (m : Msg)
    (h : buildMessage fuel V req desc isRoot path = .ok m) : VFOKs m.fields :=
  vfoks_of_builts _ (built_message V req fuel desc isRoot path m h)

/-- `shapeOKb` for the top-level fields (what `SideOK`, FromUniformAll, asks of the children of nullable embedded messages) -/
theorem built_shapeOK (fuel : Nat) (V : CfgView) (req : Request) (desc : MsgD) (isRoot : Bool) (path : String) (m : Msg)
    (h : buildMessage fuel V req desc isRoot path = .ok m) (hc : ConfigTypesAgree V) :
    ∀ c ∈ m.fields, PriorIndep.shapeOKb c.info = true := by
  intro c hcm
  have hb := (builts_iff V _).mp (built_message V req fuel desc isRoot path m h) c hcm
  obtain ⟨info, mv, msg, sub⟩ := c
  exact (built_nodeCoh hc info mv msg sub hb).shape

-- ======================================================================================================
-- 4. closing the gap from the descriptor / the configuration
-- ======================================================================================================

-- 4a. `sub ≠ []`: without exclusions every message-valued node has children ---------------------------

mutual
/-- every node whose value (the field, or the value of the map) is message-typed has at least one child, at every depth
(kind-free form of the conjunct `sub ≠ []` of `IRWF`) -/
def SubsNE : Field → Prop
  | ⟨info, mv, _, sub⟩ => ((mv.getD info).tf.isMessage = true → sub ≠ []) ∧ SubsNEs sub
def SubsNEs : List Field → Prop
  | [] => True
  | f :: rest => SubsNE f ∧ SubsNEs rest
end

theorem subsNEs_iff : ∀ fs : List Field, SubsNEs fs ↔ ∀ f ∈ fs, SubsNE f
  | [] => by rw [SubsNEs]; simp
  | f :: fs => by rw [SubsNEs, subsNEs_iff fs]; simp

theorem subsNE_unfold (x : Field) : SubsNE x ↔
    ((x.mapVal.getD x.info).tf.isMessage = true → x.sub ≠ []) ∧ SubsNEs x.sub := by
  obtain ⟨info, mv, msg, sub⟩ := x
  rw [SubsNE]

theorem subsNE_mark (a b : String) (x : Field) (h : SubsNE x) : SubsNE (markEmbedded a b x) := by
  obtain ⟨info, mv, msg, sub⟩ := x
  rw [subsNE_unfold] at h ⊢
  refine ⟨?_, h.2⟩
  cases mv <;> exact h.1

theorem subsNE_placeholder (p : String) : SubsNE (placeholderField p) := by
  rw [subsNE_unfold]
  refine ⟨fun h => ?_, ?_⟩
  · rw [placeholder_mapVal, Option.getD_none, placeholder_tf, phTf_isMessage] at h; cases h
  · show SubsNEs []; rw [SubsNEs]; trivial

theorem spliced_ne (goType : String) (m : Msg) (h : m.fields ≠ []) : spliced goType m ≠ [] := by
  unfold spliced
  split
  · exact h
  · intro hm
    exact h (List.map_eq_nil_iff.mp hm)

theorem collect_mem_conv {ε α β} (g : β → Except ε (List α)) : ∀ (l : List β) (fs : List α),
    collectFields (l.map g) = .ok fs → ∀ b ∈ l, ∀ r, g b = .ok r → ∀ x ∈ r, x ∈ fs
  | [], _, _, b, hb, _, _, _, _ => by cases hb
  | a :: l, fs, h, b, hb, r, hr, x, hx => by
    simp only [List.map_cons] at h
    cases ha : g a with
    | error e => simp [ha, collectFields] at h
    | ok ra =>
      rw [ha] at h
      simp only [collectFields] at h
      cases hrest : collectFields (l.map g) with
      | error e => simp [hrest] at h
      | ok more =>
        rw [hrest] at h
        injection h with h
        subst h
        rcases List.mem_cons.mp hb with rfl | hb
        · rw [ha] at hr; injection hr with hr; subst hr
          exact List.mem_append_left _ hx
        · exact List.mem_append_right _ (collect_mem_conv g l more hrest b hb r hr x hx)

theorem ne_nil_of_mem' {α} {l : List α} {x : α} (h : x ∈ l) : l ≠ [] := by
  intro e; rw [e] at h; cases h

/-- the message level, for "the field list is not empty" -/
theorem msgStep_ne (V : CfgView) (desc : MsgD) (isRoot : Bool) (path : String) (fs : List Field) (m : Msg)
    (hfs : desc.fields.isEmpty = false → fs ≠ [])
    (h : msgStep V desc isRoot path (.ok fs) = .ok m) : m.fields ≠ [] := by
  unfold msgStep at h
  cases hemp : desc.fields.isEmpty with
  | true =>
    simp only [hemp, if_true] at h
    injection h with h
    subst h
    simp
  | false =>
    simp only [hemp, Bool.false_eq_true, if_false] at h
    injection h with h
    subst h
    simp only
    have hne := hfs hemp
    split
    · cases hfl : fs with
      | nil => exact absurd hfl hne
      | cons a l => exact ne_nil_of_mem' ((mem_sortFieldsByName a (a :: l)).mpr List.mem_cons_self)
    · exact hne

/-- **without exclusions**: every block yields at least one node, every built message has at least one field, and every
message-valued node has children, at every depth -/
theorem built_subsNE (V : CfgView) (req : Request) (hx : ∀ k, V.excluded k = false) : ∀ n : Nat,
    (∀ desc isRoot path m, buildMessage n V req desc isRoot path = .ok m → m.fields ≠ [] ∧ SubsNEs m.fields) ∧
    (∀ ctx f keys goType isMap isRep hasComment r,
        buildFieldCore n V req ctx f keys goType isMap isRep hasComment = .ok r → r ≠ [] ∧ ∀ x ∈ r, SubsNE x) := by
  intro n
  induction n with
  | zero =>
    constructor
    · intro desc isRoot path m h; rw [buildMessage_zero] at h; cases h
    · intro ctx f keys goType isMap isRep hc r h; rw [buildFieldCore_zero] at h; cases h
  | succ n ih =>
    obtain ⟨ihM, ihF⟩ := ih
    constructor
    · intro desc isRoot path m h
      rw [buildMessage_succ] at h
      cases hcol : collectFields (desc.fields.map fun f => fieldCall n V req (ctxOf desc isRoot path) f) with
      | error e =>
        rw [hcol] at h
        have hnil := msgStep_error_ok V desc isRoot path e m h
        obtain ⟨h1, _, _⟩ := msgStep_built V desc isRoot path _ m SubsNE subsNE_placeholder
          (fun fs hfs => by cases hfs) h
        refine ⟨?_, (subsNEs_iff _).mpr h1⟩
        unfold msgStep at h
        simp only [hnil, List.isEmpty_nil, if_true] at h
        injection h with h
        subst h
        simp
      | ok fs =>
        rw [hcol] at h
        obtain ⟨h1, _, _⟩ := msgStep_built V desc isRoot path _ m SubsNE subsNE_placeholder (fun fs' hfs' x hx' => by
          injection hfs' with hfs'
          subst hfs'
          obtain ⟨b, _, r, hr, hxr⟩ := collect_mem _ desc.fields fs hcol x hx'
          exact (ihF _ b _ _ _ _ _ r hr).2 x hxr) h
        refine ⟨msgStep_ne V desc isRoot path fs m (fun hemp => ?_) h, (subsNEs_iff _).mpr h1⟩
        cases hdf : desc.fields with
        | nil => rw [hdf] at hemp; cases hemp
        | cons b l =>
          have hbm : b ∈ desc.fields := by rw [hdf]; exact List.mem_cons_self
          cases hb : fieldCall n V req (ctxOf desc isRoot path) b with
          | error e =>
            obtain ⟨e', he'⟩ := field_error_fails_message n V req desc isRoot path b hbm ⟨e, hb⟩
            rw [buildMessage_succ, hcol] at he'
            rw [he'] at h; cases h
          | ok r =>
            obtain ⟨hrne, _⟩ := ihF _ b _ _ _ _ _ r hb
            cases hr : r with
            | nil => exact absurd hr hrne
            | cons y ys =>
              exact ne_nil_of_mem' (collect_mem_conv _ desc.fields fs hcol b hbm r hb y (by rw [hr]; exact List.mem_cons_self))
    · intro ctx f keys goType isMap isRep hc r h
      rw [buildFieldCore_succ] at h
      rcases coreStep_ok_inv V req ctx f keys goType isMap isRep hc _ _ r h with
        ⟨hex, _⟩ | ⟨_, tf, htf, hcase⟩
      · rw [hx keys] at hex; cases hex
      · rcases hcase with ⟨rfl, hm, d, m, hfind, hb, hr⟩ | ⟨rfl, hm, rfl⟩ | ⟨rfl, hk, v, vs, hv, rfl⟩
        · obtain ⟨hne, hS⟩ := ihM d false keys.path m hb
          rcases hr with ⟨hemb, rfl⟩ | ⟨hemb, rfl⟩
          · refine ⟨spliced_ne goType m hne, fun x hx' => ?_⟩
            rcases spliced_mem goType m x hx' with hx' | ⟨a, b, y, hy, rfl⟩
            · exact (subsNEs_iff _).mp hS x hx'
            · exact subsNE_mark a b y ((subsNEs_iff _).mp hS y hy)
          · refine ⟨by simp, fun x hx' => ?_⟩
            rw [List.mem_singleton] at hx'; subst hx'
            rw [subsNE_unfold, mkNode_sub_none_some]
            exact ⟨fun _ => hne, hS⟩
        · refine ⟨by simp, fun x hx' => ?_⟩
          rw [List.mem_singleton] at hx'; subst hx'
          rw [subsNE_unfold, mkNode_mapVal, mkNode_sub_none_none]
          refine ⟨fun hv => ?_, by rw [SubsNEs]; trivial⟩
          simp only [Option.map_none, Option.getD_none] at hv
          rw [mkNode_tf_isMessage, hm] at hv
          cases hv
        · refine ⟨by simp, fun x hx' => ?_⟩
          rw [List.mem_singleton] at hx'; subst hx'
          obtain ⟨_, hvS⟩ := ihF ctx f.mapValueField keys _ false false false _ hv
          have hvS := hvS v List.mem_cons_self
          -- `v` is a non-map node: its own record is the value record
          have hvB := ((built_all V req n).2 ctx f.mapValueField keys _ false false false _ (fun h => by cases h) hv)
          have hvmap : v.mapVal = none := by
            have hb := hvB.1 v List.mem_cons_self
            rw [built_unfold] at hb
            exact (hb.1.nonMap (hvB.2 rfl v List.mem_cons_self).1).1
          rw [subsNE_unfold] at hvS
          rw [hvmap, Option.getD_none] at hvS
          rw [subsNE_unfold, mkNode_mapVal, mkNode_sub_some]
          exact hvS

-- 4b. `EmbedOK`, `oneOfName = ""`, `isEmptyMsg msg = false`: conditions on the descriptor ----------------

/-- **the condition on a declared field** (decidable on the request):
* a oneof branch is a single-valued field (protobuf guarantees it) without a `gogoproto.customtype`,
* the element / value message of a repeated / map field (if its type name resolves) declares at least one field,
* an embedded message declares no oneof branch. -/
def fieldOKb (req : Request) (f : FieldD) : Bool :=
  (f.oneof.isNone || (f.card == .single && f.customType == "")) &&
  (f.card == .single || match req.findMessage f.typeName with | some e => !e.fields.isEmpty | none => true) &&
  (!f.embed || match req.findMessage f.typeName with | some e => e.fields.all (·.oneof.isNone) | none => true)

def descOKb (req : Request) (d : MsgD) : Bool := d.fields.all (fieldOKb req)

/-- … for the root and every message of the request -/
def reqOKb (req : Request) (root : MsgD) : Bool := (root :: reqMsgs req).all (descOKb req)

/-- the element message declares a field -/
def NEm (req : Request) (f : FieldD) : Prop := ∀ e, req.findMessage f.typeName = some e → e.fields.isEmpty = false

theorem fieldOKb_spec {req : Request} {f : FieldD} (h : fieldOKb req f = true) :
    (((f.card == .map) = true ∨ (f.card == .repeated) = true ∨ f.customType ≠ "") → f.oneof = none) ∧
    (((f.card == .map) = true ∨ (f.card == .repeated) = true) → NEm req f) ∧
    (f.embed = true → ∀ e, req.findMessage f.typeName = some e → ∀ g ∈ e.fields, g.oneof = none) := by
  unfold fieldOKb at h
  simp only [Bool.and_eq_true, Bool.or_eq_true, beq_iff_eq, Bool.not_eq_true'] at h
  obtain ⟨⟨h1, h2⟩, h3⟩ := h
  refine ⟨fun hc => ?_, fun hc e he => ?_, fun hemb e he g hg => ?_⟩
  · rcases h1 with h1 | ⟨hs, hcu⟩
    · cases ho : f.oneof with
      | none => rfl
      | some i => rw [ho] at h1; cases h1
    · rcases hc with hc | hc | hc
      · rw [hs] at hc; cases hc
      · rw [hs] at hc; cases hc
      · exact absurd hcu hc
  · rcases h2 with h2 | h2
    · rcases hc with hc | hc <;> (rw [h2] at hc; cases hc)
    · rw [he] at h2
      simpa using h2
  · rcases h3 with h3 | h3
    · rw [hemb] at h3; cases h3
    · rw [he] at h3
      have := List.all_eq_true.mp h3 g hg
      cases ho : g.oneof with
      | none => rfl
      | some i => rw [ho] at this; cases this

mutual
/-- kind-free form of the three conjuncts: no oneof branch among the children of a nullable embedded message; custom-typed,
repeated and map fields are not oneof branches; the element message of a repeated / map field declares a field -/
def DescFree : Field → Prop
  | ⟨info, _, msg, sub⟩ =>
    EmbedOK info ∧
    ((info.isCustomType = true ∨ info.isRepeated = true ∨ info.isMap = true) → info.oneOfName = "") ∧
    ((info.isRepeated = true ∨ info.isMap = true) → isEmptyMsg msg = false) ∧
    DescFrees sub
def DescFrees : List Field → Prop
  | [] => True
  | f :: rest => DescFree f ∧ DescFrees rest
end

theorem descFrees_iff : ∀ fs : List Field, DescFrees fs ↔ ∀ f ∈ fs, DescFree f
  | [] => by rw [DescFrees]; simp
  | f :: fs => by rw [DescFrees, descFrees_iff fs]; simp

theorem descFree_unfold (x : Field) : DescFree x ↔
    EmbedOK x.info ∧
    ((x.info.isCustomType = true ∨ x.info.isRepeated = true ∨ x.info.isMap = true) → x.info.oneOfName = "") ∧
    ((x.info.isRepeated = true ∨ x.info.isMap = true) → isEmptyMsg x.msg = false) ∧
    DescFrees x.sub := by
  obtain ⟨info, mv, msg, sub⟩ := x
  rw [DescFree]

theorem descFree_mark (a b : String) (x : Field) (h : DescFree x) (ho : x.info.oneOfName = "") :
    DescFree (markEmbedded a b x) := by
  obtain ⟨info, mv, msg, sub⟩ := x
  rw [descFree_unfold] at h ⊢
  exact ⟨fun _ => ho, h.2.1, h.2.2.1, h.2.2.2⟩

theorem descFree_placeholder (p : String) : DescFree (placeholderField p) := by
  rw [descFree_unfold]
  refine ⟨fun _ => rfl, fun _ => rfl, fun _ => rfl, ?_⟩
  show DescFrees []; rw [DescFrees]; trivial

theorem markEmbedded_oneOfName (a b : String) (x : Field) : (markEmbedded a b x).info.oneOfName = x.info.oneOfName := rfl

theorem built_isEmpty (V : CfgView) (req : Request) (n : Nat) (desc : MsgD) (isRoot : Bool) (path : String) (m : Msg)
    (h : buildMessage n V req desc isRoot path = .ok m) : m.info.isEmpty = desc.fields.isEmpty := by
  cases n with
  | zero => rw [buildMessage_zero] at h; cases h
  | succ n =>
    rw [buildMessage_succ] at h
    exact (msgStep_built V desc isRoot path _ m (fun _ => True) (fun _ => trivial) (fun _ _ _ _ => trivial) h).2.2

theorem isCustomOf_noCfg {V : CfgView} (hcu : ∀ k, V.customType k = none) (f : FieldD) (keys : Keys) :
    isCustomOf V f keys = (f.customType != "") := by
  unfold isCustomOf
  rw [hcu keys]
  simp

/-- one node, given: its oneof name is empty when it is custom-typed / repeated / a map; its element message is not empty
when it is repeated / a map; its children are fine -/
theorem mkNode_descFree (V : CfgView) (ctx : MsgCtx) (f : FieldD) (keys : Keys) (goType : String) (isMap isRep hc : Bool)
    (tf : TfType) (mapV : Option Field) (nested : Option Msg)
    (hoo : (isCustomOf V f keys = true ∨ isRep = true ∨ isMap = true) → f.oneof = none)
    (hem : (isRep = true ∨ isMap = true) → isEmptyMsg (mkNode V ctx f keys goType isMap isRep hc tf mapV nested).msg = false)
    (hsub : DescFrees (mkNode V ctx f keys goType isMap isRep hc tf mapV nested).sub) :
    DescFree (mkNode V ctx f keys goType isMap isRep hc tf mapV nested) := by
  rw [descFree_unfold, mkNode_isCustomType, mkNode_isRepeated, mkNode_isMap]
  refine ⟨fun hp => ?_, fun h => ?_, hem, hsub⟩
  · rw [mkNode_parent] at hp; cases hp
  · rw [mkNode_oneOfName, hoo h]

/-- **under the descriptor conditions** (and without configured custom types): no node of a built IR violates `EmbedOK`, no
custom-typed / repeated / map node is a oneof branch, no repeated / map node has an element message without fields -/
theorem built_descFree (V : CfgView) (req : Request) (hcu : ∀ k, V.customType k = none)
    (hreq : ∀ d ∈ reqMsgs req, descOKb req d = true) : ∀ n : Nat,
    (∀ desc isRoot path m, descOKb req desc = true → buildMessage n V req desc isRoot path = .ok m →
        DescFrees m.fields ∧ ((∀ g ∈ desc.fields, g.oneof = none) → ∀ x ∈ m.fields, x.info.oneOfName = "")) ∧
    (∀ ctx f keys goType isMap isRep hasComment r,
        ((isMap = true ∨ isRep = true ∨ f.customType ≠ "") → f.oneof = none) →
        ((isMap = true ∨ isRep = true) → NEm req f) →
        (f.embed = true → ∀ e, req.findMessage f.typeName = some e → ∀ g ∈ e.fields, g.oneof = none) →
        buildFieldCore n V req ctx f keys goType isMap isRep hasComment = .ok r →
        (∀ x ∈ r, DescFree x) ∧ (f.oneof = none → ∀ x ∈ r, x.info.oneOfName = "") ∧
        (f.embed = false → NEm req f → ∀ x ∈ r, isEmptyMsg x.msg = false)) := by
  intro n
  induction n with
  | zero =>
    constructor
    · intro desc isRoot path m _ h; rw [buildMessage_zero] at h; cases h
    · intro ctx f keys goType isMap isRep hc r _ _ _ h; rw [buildFieldCore_zero] at h; cases h
  | succ n ih =>
    obtain ⟨ihM, ihF⟩ := ih
    constructor
    · intro desc isRoot path m hd h
      rw [buildMessage_succ] at h
      have hcall : ∀ b ∈ desc.fields, ∀ r, fieldCall n V req (ctxOf desc isRoot path) b = .ok r →
          (∀ x ∈ r, DescFree x) ∧ (b.oneof = none → ∀ x ∈ r, x.info.oneOfName = "") := by
        intro b hb r hr
        obtain ⟨s1, s2, s3⟩ := fieldOKb_spec (List.all_eq_true.mp hd b hb)
        obtain ⟨c1, c2, _⟩ := ihF _ b _ _ _ _ _ r s1 s2 s3 hr
        exact ⟨c1, c2⟩
      obtain ⟨h1, _, _⟩ := msgStep_built V desc isRoot path _ m DescFree descFree_placeholder (fun fs hfs x hx => by
        obtain ⟨b, hb, r, hr, hxr⟩ := collect_mem _ desc.fields fs hfs x hx
        exact (hcall b hb r hr).1 x hxr) h
      refine ⟨(descFrees_iff _).mpr h1, fun hno => ?_⟩
      exact (msgStep_built V desc isRoot path _ m (fun x => x.info.oneOfName = "") (fun _ => rfl) (fun fs hfs x hx => by
        obtain ⟨b, hb, r, hr, hxr⟩ := collect_mem _ desc.fields fs hfs x hx
        exact (hcall b hb r hr).2 (hno b hb) x hxr) h).1
    · intro ctx f keys goType isMap isRep hc r h1 h2 h3 h
      rw [buildFieldCore_succ] at h
      have hoo : (isCustomOf V f keys = true ∨ isRep = true ∨ isMap = true) → f.oneof = none := by
        rw [isCustomOf_noCfg hcu]
        rintro (hcus | hr | hm)
        · exact h1 (Or.inr (Or.inr (by simpa using hcus)))
        · exact h1 (Or.inr (Or.inl hr))
        · exact h1 (Or.inl hm)
      rcases coreStep_ok_inv V req ctx f keys goType isMap isRep hc _ _ r h with
        ⟨_, rfl⟩ | ⟨_, tf, htf, hcase⟩
      · exact ⟨fun x hx => (by cases hx), fun _ x hx => (by cases hx), fun _ _ x hx => (by cases hx)⟩
      · rcases hcase with ⟨rfl, hm, d, m, hfind, hb, hr⟩ | ⟨rfl, hm, rfl⟩ | ⟨rfl, hk, v, vs, hv, rfl⟩
        · obtain ⟨hD, hO⟩ := ihM d false keys.path m (hreq d (findMessage_mem hfind)) hb
          have hemp := built_isEmpty V req n d false keys.path m hb
          rcases hr with ⟨hemb, rfl⟩ | ⟨hemb, rfl⟩
          · have hO' := hO (h3 hemb d hfind)
            refine ⟨fun x hx => ?_, fun _ x hx => ?_, fun he => (by rw [hemb] at he; cases he)⟩
            · rcases spliced_mem goType m x hx with hx | ⟨a, b, y, hy, rfl⟩
              · exact (descFrees_iff _).mp hD x hx
              · exact descFree_mark a b y ((descFrees_iff _).mp hD y hy) (hO' y hy)
            · rcases spliced_mem goType m x hx with hx | ⟨a, b, y, hy, rfl⟩
              · exact hO' x hx
              · rw [markEmbedded_oneOfName]; exact hO' y hy
          · have hmsg : NEm req f → isEmptyMsg (mkNode V ctx f keys goType false isRep hc tf none (some m)).msg = false := by
              intro hne
              rw [mkNode_msg_none_some]
              show m.info.isEmpty = false
              rw [hemp]; exact hne d hfind
            refine ⟨fun x hx => ?_, fun ho x hx => ?_, fun _ hne x hx => ?_⟩ <;>
              (rw [List.mem_singleton] at hx; subst hx)
            · refine mkNode_descFree V ctx f keys goType false isRep hc tf none (some m) hoo (fun hrm => ?_) hD
              exact hmsg (h2 (by rcases hrm with hrm | hrm; exact Or.inr hrm; cases hrm))
            · rw [mkNode_oneOfName, ho]
            · exact hmsg hne
        · refine ⟨fun x hx => ?_, fun ho x hx => ?_, fun _ _ x hx => ?_⟩ <;>
            (rw [List.mem_singleton] at hx; subst hx)
          · exact mkNode_descFree V ctx f keys goType false isRep hc tf none none hoo (fun _ => rfl)
              (by rw [mkNode_sub_none_none, DescFrees]; trivial)
          · rw [mkNode_oneOfName, ho]
          · rfl
        · obtain ⟨v1, _, v3⟩ := ihF ctx f.mapValueField keys _ false false false _
            (fun hcs => by rcases hcs with hcs | hcs | hcs; cases hcs; cases hcs; exact absurd rfl hcs)
            (fun hcs => by rcases hcs with hcs | hcs <;> cases hcs) (fun he => by cases he) hv
          have hvD := v1 v List.mem_cons_self
          rw [descFree_unfold] at hvD
          have hmsg : NEm req f → isEmptyMsg (mkNode V ctx f keys goType true isRep hc tf (some v) none).msg = false := by
            intro hne
            rw [mkNode_msg_some]
            exact v3 rfl hne v List.mem_cons_self
          refine ⟨fun x hx => ?_, fun ho x hx => ?_, fun _ hne x hx => ?_⟩ <;>
            (rw [List.mem_singleton] at hx; subst hx)
          · exact mkNode_descFree V ctx f keys goType true isRep hc tf (some v) none hoo
              (fun _ => hmsg (h2 (Or.inl rfl))) (by rw [mkNode_sub_some]; exact hvD.2.2.2)
          · rw [mkNode_oneOfName, ho]
          · exact hmsg hne

-- 4c. the gap closed --------------------------------------------------------------------------------------

/-- flags by kind, read off `InfoB` (no hypothesis on the configuration) -/
theorem infoB_flags {V : CfgView} {info : FieldInfo} {mv : Option FieldInfo} (hi : InfoB V info mv) :
    (info.kind = .object ∨ info.kind = .objectList ∨ info.kind = .objectMap → (mv.getD info).tf.isMessage = true) ∧
    (info.kind = .custom → info.isCustomType = true) ∧
    (info.kind = .primitiveList ∨ info.kind = .objectList → info.isRepeated = true) ∧
    (info.kind = .primitiveMap ∨ info.kind = .objectMap → info.isMap = true) := by
  have hke := hi.kind_eq
  obtain ⟨_, c2, c3, c4, c5, _⟩ := kindOf_cases info.isCustomType info.isMap ((mv.map (·.tf.isMessage)).getD false)
    info.isRepeated info.tf.isMessage
  rw [← hke] at c2 c3 c4 c5
  refine ⟨?_, fun hk => ?_, fun hk => (c5 hk).1, ?_⟩
  · rintro (hk | hk | hk)
    · obtain ⟨hm, hg⟩ := c2 (Or.inl hk)
      rw [(hi.nonMap hm).1]; exact hg
    · obtain ⟨hm, hg⟩ := c2 (Or.inr hk)
      rw [(hi.nonMap hm).1]; exact hg
    · obtain ⟨hm, hv⟩ := c4 hk
      obtain ⟨vi, hmv, _⟩ := hi.map hm
      subst hmv
      simpa using hv
  · exact (kindOf_custom _ _ _ _ _).mp (hke.symm.trans hk)
  · rintro (hk | hk)
    · exact (c3 hk).1
    · exact (c4 hk).1

mutual
/-- a built node with children under every message-valued node and without the descriptor-level defects has no gap -/
theorem gapFree_of {V : CfgView} : ∀ f : Field, Built V f → SubsNE f → DescFree f → gapFreeB f = true
  | ⟨info, mv, msg, sub⟩, hb, hs, hd => by
    rw [Built] at hb
    rw [SubsNE] at hs
    rw [DescFree] at hd
    obtain ⟨hi, _, _, hbs⟩ := hb
    obtain ⟨f1, f2, f3, f4⟩ := infoB_flags hi
    obtain ⟨d1, d2, d3, d4⟩ := hd
    have ih := gapFrees_of sub hbs hs.2 d4
    unfold gapFreeB
    rw [Bool.and_eq_true]
    refine ⟨(embedOK_iff info).mpr d1, ?_⟩
    cases hk : info.kind with
    | primitive => rfl
    | custom => simpa using d2 (Or.inl (f2 hk))
    | primitiveList => simpa using d2 (Or.inr (Or.inl (f3 (Or.inl hk))))
    | primitiveMap => simpa using d2 (Or.inr (Or.inr (f4 (Or.inl hk))))
    | object =>
      simp only [Bool.and_eq_true, Bool.not_eq_true', isEmpty_false_iff]
      exact ⟨hs.1 (f1 (Or.inl hk)), ih⟩
    | objectList =>
      simp only [Bool.and_eq_true, Bool.not_eq_true', isEmpty_false_iff, beq_iff_eq]
      have hr := f3 (Or.inr hk)
      exact ⟨⟨⟨d2 (Or.inr (Or.inl hr)), hs.1 (f1 (Or.inr (Or.inl hk)))⟩, d3 (Or.inl hr)⟩, ih⟩
    | objectMap =>
      simp only [Bool.and_eq_true, Bool.not_eq_true', isEmpty_false_iff, beq_iff_eq]
      have hm := f4 (Or.inr hk)
      exact ⟨⟨⟨d2 (Or.inr (Or.inr hm)), hs.1 (f1 (Or.inr (Or.inr hk)))⟩, d3 (Or.inr hm)⟩, ih⟩
theorem gapFrees_of {V : CfgView} : ∀ fs : List Field, Builts V fs → SubsNEs fs → DescFrees fs → gapFreeBs fs = true
  | [], _, _, _ => by rw [gapFreeBs]
  | f :: rest, hb, hs, hd => by
    rw [Builts] at hb
    rw [SubsNEs] at hs
    rw [DescFrees] at hd
    rw [gapFreeBs, Bool.and_eq_true]
    exact ⟨gapFree_of f hb.1 hs.1 hd.1, gapFrees_of rest hb.2 hs.2 hd.2⟩
end

mutual
/-- `SubsNE` as a Boolean on the IR -/
def subsNEB : Field → Bool
  | ⟨info, mv, _, sub⟩ => (!(mv.getD info).tf.isMessage || !sub.isEmpty) && subsNEBs sub
def subsNEBs : List Field → Bool
  | [] => true
  | f :: rest => subsNEB f && subsNEBs rest
end

mutual
theorem subsNE_of_b : ∀ f : Field, subsNEB f = true → SubsNE f
  | ⟨info, mv, msg, sub⟩, h => by
    rw [subsNEB, Bool.and_eq_true] at h
    rw [SubsNE]
    refine ⟨fun hm => ?_, subsNEs_of_b sub h.2⟩
    have h1 := h.1
    rw [hm] at h1
    simpa [isEmpty_false_iff] using h1
theorem subsNEs_of_b : ∀ fs : List Field, subsNEBs fs = true → SubsNEs fs
  | [], _ => by rw [SubsNEs]; trivial
  | f :: rest, h => by
    rw [subsNEBs, Bool.and_eq_true] at h
    rw [SubsNEs]
    exact ⟨subsNE_of_b f h.1, subsNEs_of_b rest h.2⟩
end

/-- the hypotheses on the view: nothing is excluded / no custom type is configured -/
def NoExclusion (V : CfgView) : Prop := ∀ k, V.excluded k = false
def NoConfiguredCustom (V : CfgView) : Prop := ∀ k, V.customType k = none

theorem reqOKb_spec {req : Request} {root : MsgD} (h : reqOKb req root = true) :
    descOKb req root = true ∧ ∀ d ∈ reqMsgs req, descOKb req d = true := by
  unfold reqOKb at h
  rw [List.all_cons, Bool.and_eq_true] at h
  exact ⟨h.1, fun d hd => List.all_eq_true.mp h.2 d hd⟩

/-- **the gap closed, with exclusions allowed**: under the descriptor conditions (`reqOKb`, decidable on the request) and
without configured custom types, the only gap left is `sub ≠ []`, a Boolean on the built IR -/
theorem built_gapFree_of_subs (fuel : Nat) (V : CfgView) (req : Request) (desc : MsgD) (isRoot : Bool) (path : String) (m : Msg)
    (h : buildMessage fuel V req desc isRoot path = .ok m) (hcu : NoConfiguredCustom V) (hreq : reqOKb req desc = true)
    (hsub : subsNEBs m.fields = true) : gapFreeBs m.fields = true := by
  obtain ⟨hroot, hall⟩ := reqOKb_spec hreq
  exact gapFrees_of _ (built_message V req fuel desc isRoot path m h) (subsNEs_of_b _ hsub)
    ((built_descFree V req hcu hall fuel).1 desc isRoot path m hroot h).1

/-- **the gap closed**: without exclusions, without configured custom types, under the descriptor conditions -/
theorem built_gapFree (fuel : Nat) (V : CfgView) (req : Request) (desc : MsgD) (isRoot : Bool) (path : String) (m : Msg)
    (h : buildMessage fuel V req desc isRoot path = .ok m) (hx : NoExclusion V) (hcu : NoConfiguredCustom V)
    (hreq : reqOKb req desc = true) : gapFreeBs m.fields = true := by
  obtain ⟨hroot, hall⟩ := reqOKb_spec hreq
  exact gapFrees_of _ (built_message V req fuel desc isRoot path m h)
    ((built_subsNE V req hx fuel).1 desc isRoot path m h).2
    ((built_descFree V req hcu hall fuel).1 desc isRoot path m hroot h).1

/-- **MAIN, full node predicate**: `buildMessage … = .ok m → NodeWFs m.fields`, for every fuel, view, request, descriptor,
root flag and path, under `ConfigTypesAgree` and the conditions that close the gap -/
theorem built_nodeWF (fuel : Nat) (V : CfgView) (req : Request) (desc : MsgD) (isRoot : Bool) (path : String) (m : Msg)
    (h : buildMessage fuel V req desc isRoot path = .ok m) (hc : ConfigTypesAgree V) (hx : NoExclusion V)
    (hcu : NoConfiguredCustom V) (hreq : reqOKb req desc = true) : NodeWFs m.fields :=
  (built_nodeWF_iff fuel V req desc isRoot path m h hc).mpr (built_gapFree fuel V req desc isRoot path m h hx hcu hreq)

-- names ----------------------------------------------------------------------------------------------------

mutual
/-- `NamesOKs` (SchemaTyped) as a Boolean -/
def namesOKB : Field → Bool
  | ⟨info, _, _, sub⟩ =>
    match info.kind with
    | .object | .objectList | .objectMap => namesOKsB sub
    | _ => true
def namesOKsB : List Field → Bool
  | [] => true
  | f :: rest => namesOKB f && !(rest.map (·.info.nameSnake)).contains f.info.nameSnake && namesOKsB rest
end

mutual
theorem namesOK_iff_b : ∀ f : Field, NamesOK f ↔ namesOKB f = true
  | ⟨info, mv, msg, sub⟩ => by
    unfold NamesOK namesOKB
    have ih := namesOKs_iff_b sub
    cases hk : info.kind <;> simp only [] <;> first | exact ih | simp
theorem namesOKs_iff_b : ∀ fs : List Field, NamesOKs fs ↔ namesOKsB fs = true
  | [] => by unfold NamesOKs namesOKsB; simp
  | f :: rest => by
    unfold NamesOKs namesOKsB
    rw [namesOK_iff_b f, namesOKs_iff_b rest]
    simp only [Bool.and_eq_true, Bool.not_eq_true', List.contains_eq_mem, decide_eq_false_iff_not, and_assoc]
end

instance (fs : List Field) : Decidable (NamesOKs fs) := decidable_of_iff _ (namesOKs_iff_b fs).symm

/-- **built IRs: `IRWFs` ⇔ no gap ∧ distinct names** – both decidable on the IR -/
theorem built_irwfs_iff (fuel : Nat) (V : CfgView) (req : Request) (desc : MsgD) (isRoot : Bool) (path : String) (m : Msg)
    (h : buildMessage fuel V req desc isRoot path = .ok m) (hc : ConfigTypesAgree V) :
    IRWFs m.fields ↔ gapFreeBs m.fields = true ∧ namesOKsB m.fields = true := by
  rw [irwfs_iff, built_nodeWF_iff fuel V req desc isRoot path m h hc, namesOKs_iff_b]

-- ======================================================================================================
-- 5. the roots the generator builds
-- ======================================================================================================

theorem viewOf_noExclusion (cfg : Config) (h : cfg.excludeFields = []) : NoExclusion (viewOf cfg) := by
  intro k
  show flagValue cfg.excludeFields k = false
  rw [flagValue_eq, h]
  rfl

theorem viewOf_noCustom (cfg : Config) (h : cfg.customTypes = []) : NoConfiguredCustom (viewOf cfg) := by
  intro k
  show firstLookup "GetCustomType" cfg.customTypes k = none
  rw [h]
  unfold firstLookup
  rw [List.findSome?_eq_none_iff]
  intro e _
  cases k.eval e <;> rfl

/-- the hypothesis on the configuration: the configured time / duration types name a type and a value type of the same
primitive kind (SchemaTyped `ConfigTypesAgree` of the view of `cfg`) -/
theorem configTypesAgree_viewOf (cfg : Config) :
    ConfigTypesAgree (viewOf cfg) ↔ ∀ s, (cfg.timeType = some s ∨ cfg.durationType = some s) → ConfigAgrees s := Iff.rfl

/-- **a built root is well formed** exactly when it has no gap and distinct names per level (two Booleans on the IR) -/
theorem root_irwfs_iff (cfg : Config) (req : Request) (desc : MsgD) (m : Msg) (hb : buildRoot cfg req desc = .ok (some m))
    (hc : ConfigTypesAgree (viewOf cfg)) : IRWFs m.fields ↔ gapFreeBs m.fields = true ∧ namesOKsB m.fields = true :=
  built_irwfs_iff _ _ req desc true "" m (buildRoot_inv hb) hc

/-- … and under the descriptor / configuration conditions exactly when its attribute names are distinct per level -/
theorem root_irwfs_desc (cfg : Config) (req : Request) (desc : MsgD) (m : Msg) (hb : buildRoot cfg req desc = .ok (some m))
    (hc : ConfigTypesAgree (viewOf cfg)) (hx : cfg.excludeFields = []) (hcu : cfg.customTypes = [])
    (hreq : reqOKb req desc = true) : IRWFs m.fields ↔ namesOKsB m.fields = true := by
  rw [root_irwfs_iff cfg req desc m hb hc]
  have := built_gapFree _ _ req desc true "" m (buildRoot_inv hb) (viewOf_noExclusion cfg hx) (viewOf_noCustom cfg hcu) hreq
  exact ⟨fun h => h.2, fun h => ⟨this, h⟩⟩

/-- **C03 for every root the generator builds**: the configured time / duration types agree; the built IR has no gap and
pairwise distinct attribute names per level (Booleans on the IR); then for every typed struct value CopyTo into the empty
schema-typed object succeeds without diagnostics and the stored attributes render the value -/
theorem C03_built_root (cfg : Config) (req : Request) (desc : MsgD) (m : Msg) (hb : buildRoot cfg req desc = .ok (some m))
    (hc : ConfigTypesAgree (viewOf cfg)) (hg : gapFreeBs m.fields = true) (hn : namesOKsB m.fields = true)
    (obj : GoVal) (hv : ValOKs m.fields obj) :
    ∃ r as, copyTo m obj (.obj false false none (some (attrTypesOf m))) = .ok r ∧ r.diags = [] ∧
      r.tf = .obj false false (some as) (some (attrTypesOf m)) ∧ rendersFields m.fields obj as = true :=
  C03_schema_typed m obj ((root_irwfs_iff cfg req desc m hb hc).mpr ⟨hg, hn⟩) hv

/-- **C03 from the descriptor**: no exclusions, no configured custom types, the descriptor conditions `reqOKb` (decidable
on the request), distinct attribute names per level (decidable on the IR) -/
theorem C03_built_root_desc (cfg : Config) (req : Request) (desc : MsgD) (m : Msg)
    (hb : buildRoot cfg req desc = .ok (some m))
    (hc : ConfigTypesAgree (viewOf cfg)) (hx : cfg.excludeFields = []) (hcu : cfg.customTypes = [])
    (hreq : reqOKb req desc = true) (hn : namesOKsB m.fields = true) (obj : GoVal) (hv : ValOKs m.fields obj) :
    ∃ r as, copyTo m obj (.obj false false none (some (attrTypesOf m))) = .ok r ∧ r.diags = [] ∧
      r.tf = .obj false false (some as) (some (attrTypesOf m)) ∧ rendersFields m.fields obj as = true :=
  C03_schema_typed m obj ((root_irwfs_desc cfg req desc m hb hc hx hcu hreq).mpr hn) hv

/-- **C20 for every root the generator builds** -/
theorem C20_built_root (cfg : Config) (req : Request) (desc : MsgD) (m : Msg) (hb : buildRoot cfg req desc = .ok (some m))
    (hc : ConfigTypesAgree (viewOf cfg)) (hg : gapFreeBs m.fields = true) (hn : namesOKsB m.fields = true)
    (obj : GoVal) (hv : ValOKs m.fields obj) :
    ∃ r, copyTo m obj (.obj false false none (some (attrTypesOf m))) = .ok r ∧ c20Check m obj r.tf = true :=
  C20_schema_typed m obj ((root_irwfs_iff cfg req desc m hb hc).mpr ⟨hg, hn⟩) hv

/-- **C04 for every root the generator builds** (`RT3OKs`: the read-back side, RoundTripEmbed) -/
theorem C04_built_root (ov : List (String × String)) (cfg : Config) (req : Request) (desc : MsgD) (m : Msg)
    (hb : buildRoot cfg req desc = .ok (some m))
    (hc : ConfigTypesAgree (viewOf cfg)) (hg : gapFreeBs m.fields = true) (hn : namesOKsB m.fields = true)
    (obj : GoVal) (hv : ValOKs m.fields obj) (hrt : RT3OKs m.fields obj) :
    ∃ r b, copyTo m obj (.obj false false none (some (attrTypesOf m))) = .ok r ∧ r.diags = [] ∧
      copyFrom ov m r.tf (.struct []) = .ok b ∧ b.diags = [] ∧ c04Check m obj b.obj = true :=
  C04_schema_typed ov m obj ((root_irwfs_iff cfg req desc m hb hc).mpr ⟨hg, hn⟩) hv hrt

/-- **C06 (CopyTo side) for every root the generator builds**: for EVERY struct value, no panic on the schema-typed target;
only the distinctness of attribute names per level is needed (no node fact, no condition on the configuration) -/
theorem C06_built_root (cfg : Config) (req : Request) (desc : MsgD) (m : Msg) (_hb : buildRoot cfg req desc = .ok (some m))
    (hn : namesOKsB m.fields = true) (obj : GoVal) (u n : Bool) (w : String) :
    copyTo m obj (.obj u n none (some (attrTypesOf m))) ≠ .panic w :=
  C06_schema_typed_names m obj u n ((namesOKs_iff_b _).mpr hn) w

/-- **C06 (diagnostics census of CopyFrom) for every root the generator builds**: `VFOKs` holds (no hypothesis), so the
executable census of FromDiags applies to every successful `copyFrom` -/
theorem vfoks_built_root (cfg : Config) (req : Request) (desc : MsgD) (m : Msg) (hb : buildRoot cfg req desc = .ok (some m)) :
    VFOKs m.fields :=
  built_vfoks _ _ req desc true "" m (buildRoot_inv hb)

/-- the same for every message `buildRoots` emits -/
theorem C03_built_roots (cfg : Config) (req : Request) (m : Msg) (hm : m ∈ (buildRoots cfg req).1)
    (hc : ConfigTypesAgree (viewOf cfg)) (hg : gapFreeBs m.fields = true) (hn : namesOKsB m.fields = true)
    (obj : GoVal) (hv : ValOKs m.fields obj) :
    ∃ r as, copyTo m obj (.obj false false none (some (attrTypesOf m))) = .ok r ∧ r.diags = [] ∧
      r.tf = .obj false false (some as) (some (attrTypesOf m)) ∧ rendersFields m.fields obj as = true := by
  obtain ⟨d, _, hb⟩ := PGT.Props.C18.C18_failed_root_not_emitted cfg req m hm
  exact C03_built_root cfg req d m hb hc hg hn obj hv

theorem C06_built_roots (cfg : Config) (req : Request) (m : Msg) (hm : m ∈ (buildRoots cfg req).1)
    (hn : namesOKsB m.fields = true) (obj : GoVal) (u n : Bool) (w : String) :
    copyTo m obj (.obj u n none (some (attrTypesOf m))) ≠ .panic w := by
  obtain ⟨d, _, hb⟩ := PGT.Props.C18.C18_failed_root_not_emitted cfg req m hm
  exact C06_built_root cfg req d m hb hn obj u n w

/-- every emitted root: node facts guaranteed, `VFOKs`, coherence -/
theorem built_roots_guaranteed (cfg : Config) (req : Request) (m : Msg) (hm : m ∈ (buildRoots cfg req).1)
    (hc : ConfigTypesAgree (viewOf cfg)) : NodeWFs' m.fields ∧ VFOKs m.fields ∧ AllNodess NodeCoh m.fields := by
  obtain ⟨d, _, hb⟩ := PGT.Props.C18.C18_failed_root_not_emitted cfg req m hm
  have h := buildRoot_inv hb
  exact ⟨built_nodeWF' _ _ req d true "" m h hc, built_vfoks _ _ req d true "" m h, built_coherent _ _ req d true "" m h hc⟩

-- ======================================================================================================
-- 6. the gap is real: built IRs that violate each of the four conjuncts (evaluation, `decide +kernel`)
-- ======================================================================================================

namespace Witness

theorem cta_empty : ConfigTypesAgree (viewOf {}) := by
  intro s hs
  rcases hs with hs | hs <;> cases hs

def dE : MsgD := { name := "E" }
def dL : MsgD := { name := "L", fields := [{ name := "x", type := "int32" }] }
def dO : MsgD := { name := "O", oneofs := ["choice"], fields := [
  { name := "o1", type := "string", oneof := some 0 }, { name := "o2", type := "int64", oneof := some 0 }] }

/-- what the witnesses show of the top-level nodes: attribute name, kind, oneof name, `parentIsOptionalEmbed`,
`isEmptyMsg msg`, number of children -/
structure NodeView where
  name : String
  kind : Kind
  oneOf : String
  embedChild : Bool
  emptyMsg : Bool
  children : Nat
deriving DecidableEq, Repr

def view (m : Msg) : List NodeView :=
  m.fields.map fun f => ⟨f.info.nameSnake, f.info.kind, f.info.oneOfName, f.info.parentIsOptionalEmbed, isEmptyMsg f.msg, f.sub.length⟩

/-- (a) `isEmptyMsg msg = false` fails: a list and a map of a message without fields are built; the element message holds only
the placeholder -/
def dW1 : MsgD := { name := "W1", fields := [
  { name := "es", type := "message", typeName := "E", card := .repeated },
  { name := "em", type := "message", typeName := "E", card := .map }] }
def rW1 : Request := { file := { name := "w.proto", package := "w", messages := [dW1, dE] } }
abbrev bW1 := buildMessage (defaultFuel rW1) (viewOf {}) rW1 dW1 true ""

theorem w1_emptyElement : bW1.toOption.map (fun m => (view m, gapFreeBs m.fields)) =
    some ([⟨"es", .objectList, "", false, true, 1⟩, ⟨"em", .objectMap, "", false, true, 1⟩], false) := by decide +kernel

/-- (b) `sub ≠ []` fails: the only field of the nested message is excluded; the node is built without children (and the nested
message gets NO placeholder) -/
def dW2 : MsgD := { name := "W2", fields := [{ name := "l", type := "message", typeName := "L" }] }
def rW2 : Request := { file := { name := "w.proto", package := "w", messages := [dW2, dL] } }
abbrev bW2 := buildMessage (defaultFuel rW2) (viewOf { excludeFields := ["W2.l.x"] }) rW2 dW2 true ""

theorem w2_noChildren : bW2.toOption.map (fun m => (view m, gapFreeBs m.fields)) =
    some ([⟨"l", .object, "", false, false, 0⟩], false) := by decide +kernel

/-- (c) `EmbedOK` fails: a message with a oneof, embedded by pointer; its branches are children of the nullable embedded
message AND oneof branches -/
def dW3 : MsgD := { name := "W3", fields := [{ name := "o", type := "message", typeName := "O", embed := true }] }
def rW3 : Request := { file := { name := "w.proto", package := "w", messages := [dW3, dO] } }
abbrev bW3 := buildMessage (defaultFuel rW3) (viewOf {}) rW3 dW3 true ""

theorem w3_branchUnderNullableEmbed : bW3.toOption.map (fun m => (view m, gapFreeBs m.fields)) =
    some ([⟨"o1", .primitive, "Choice", true, false, 0⟩, ⟨"o2", .primitive, "Choice", true, false, 0⟩], false) := by
  decide +kernel

/-- (d) `oneOfName = ""` fails on a custom-typed field: a oneof branch with a `gogoproto.customtype` -/
def dW4 : MsgD := { name := "W4", oneofs := ["choice"], fields := [
  { name := "c", type := "bytes", customType := "Foo", oneof := some 0 }, { name := "d", type := "string", oneof := some 0 }] }
def rW4 : Request := { file := { name := "w.proto", package := "w", messages := [dW4] } }
abbrev bW4 := buildMessage (defaultFuel rW4) (viewOf {}) rW4 dW4 true ""

theorem w4_customBranch : bW4.toOption.map (fun m => (view m, gapFreeBs m.fields)) =
    some ([⟨"c", .custom, "Choice", false, false, 0⟩, ⟨"d", .primitive, "Choice", false, false, 0⟩], false) := by
  decide +kernel

/-- (d') … and on a repeated field: the descriptor model does not forbid a repeated oneof branch (protobuf does) -/
def dW5 : MsgD := { name := "W5", oneofs := ["choice"], fields := [
  { name := "rs", type := "string", card := .repeated, oneof := some 0 }] }
def rW5 : Request := { file := { name := "w.proto", package := "w", messages := [dW5] } }
abbrev bW5 := buildMessage (defaultFuel rW5) (viewOf {}) rW5 dW5 true ""

theorem w5_repeatedBranch : bW5.toOption.map (fun m => (view m, gapFreeBs m.fields)) =
    some ([⟨"rs", .primitiveList, "Choice", false, false, 0⟩], false) := by decide +kernel

/-- the descriptor condition `reqOKb` rejects (a), (c), (d), (d'); (b) is a matter of the configuration -/
theorem witnesses_rejected :
    reqOKb rW1 dW1 = false ∧ reqOKb rW3 dW3 = false ∧ reqOKb rW4 dW4 = false ∧ reqOKb rW5 dW5 = false ∧
    reqOKb rW2 dW2 = true := by decide

end Witness

/-- the unconditional statement (only `ConfigTypesAgree`) -/
def built_nodeWF_full : Prop :=
  ∀ (fuel : Nat) (V : CfgView) (req : Request) (desc : MsgD) (isRoot : Bool) (path : String) (m : Msg),
    buildMessage fuel V req desc isRoot path = .ok m → ConfigTypesAgree V → NodeWFs m.fields

/-- … is **false**: a list of a message without fields is built -/
theorem built_nodeWF_full_false : ¬ built_nodeWF_full := by
  intro H
  have h1 : Witness.bW1.toOption.map (fun m => gapFreeBs m.fields) = some false := by decide +kernel
  cases hb : Witness.bW1 with
  | error e => rw [hb] at h1; cases h1
  | ok m =>
    have hn := H _ _ _ _ _ _ m hb Witness.cta_empty
    rw [nodeWFs_iff'] at hn
    rw [hb] at h1
    simp only [Except.toOption, Option.map_some, Option.some.injEq] at h1
    rw [hn.2] at h1
    cases h1

/-- each of the hypotheses of `built_nodeWF` that closes the gap is needed: dropping `NoExclusion` ((b): `reqOKb` holds, no
custom type is configured) the conclusion fails -/
theorem noExclusion_needed :
    ¬ (∀ (fuel : Nat) (V : CfgView) (req : Request) (desc : MsgD) (isRoot : Bool) (path : String) (m : Msg),
      buildMessage fuel V req desc isRoot path = .ok m → ConfigTypesAgree V → NoConfiguredCustom V →
      reqOKb req desc = true → NodeWFs m.fields) := by
  intro H
  have h1 : Witness.bW2.toOption.map (fun m => gapFreeBs m.fields) = some false := by decide +kernel
  cases hb : Witness.bW2 with
  | error e => rw [hb] at h1; cases h1
  | ok m =>
    have hn := H _ _ _ _ _ _ m hb (by intro s hs; rcases hs with hs | hs <;> cases hs)
      (viewOf_noCustom _ rfl) (by decide)
    rw [nodeWFs_iff'] at hn
    rw [hb] at h1
    simp only [Except.toOption, Option.map_some, Option.some.injEq] at h1
    rw [hn.2] at h1
    cases h1

/-- a necessary condition of `NodeWF'` on a scalar node, as a Boolean: the schema declares a primitive type -/
def primOKB (f : Field) : Bool :=
  f.info.kind != .primitive || (match primTyOf f.info.tf.elemType with | .prim _ => true | _ => false)

theorem primOKB_of_nodeWF' (f : Field) (h : NodeWF' f) : primOKB f = true := by
  obtain ⟨info, mv, msg, sub⟩ := f
  unfold NodeWF' at h
  unfold primOKB
  cases hk : info.kind <;> simp only [hk] at h ⊢ <;> try rfl
  obtain ⟨k, _, hk2⟩ := scalarTf_bridge info.tf h
  simp [hk2]

/-- **`ConfigTypesAgree` is needed** for `built_nodeWF'`: with a configured time type whose type name denotes no primitive
type, a timestamp field is built as a scalar node whose record is not `ScalarTf` -/
theorem configTypesAgree_needed :
    ¬ (∀ (fuel : Nat) (V : CfgView) (req : Request) (desc : MsgD) (isRoot : Bool) (path : String) (m : Msg),
      buildMessage fuel V req desc isRoot path = .ok m → NodeWFs' m.fields) := by
  intro H
  let dT : MsgD := { name := "T", fields := [{ name := "t", type := "timestamp" }] }
  let rT : Request := { file := { name := "t.proto", package := "t", messages := [dT] } }
  let cT : Config := { timeType := some { type := "Foo", valueType := "Bar", castToType := "", castFromType := "" } }
  have h1 : (buildMessage (defaultFuel rT) (viewOf cT) rT dT true "").toOption.map (fun m => m.fields.all primOKB) =
      some false := by decide +kernel
  cases hb : buildMessage (defaultFuel rT) (viewOf cT) rT dT true "" with
  | error e => rw [hb] at h1; cases h1
  | ok m =>
    have hn := H _ _ _ _ _ _ m hb
    rw [hb] at h1
    simp only [Except.toOption, Option.map_some, Option.some.injEq] at h1
    have hall : m.fields.all primOKB = true := by
      rw [List.all_eq_true]
      intro f hf
      have hw : ∀ fs : List Field, NodeWFs' fs → ∀ f ∈ fs, NodeWF' f := by
        intro fs
        induction fs with
        | nil => intro _ f hf; cases hf
        | cons a l ih =>
          intro h f hf
          rw [NodeWFs'] at h
          rcases List.mem_cons.mp hf with rfl | hf
          · exact h.1
          · exact ih h.2 f hf
      exact primOKB_of_nodeWF' f (hw _ hn f hf)
    rw [hall] at h1
    cases h1

-- ======================================================================================================
-- 7. sanity: the checker `irwfsB` (SchemaTyped) on a built IR covering several templates agrees with the theorems
-- ======================================================================================================

namespace Sanity

def tsT : SchemaTypeC :=
  { type := "github.com/gravitational/protoc-gen-terraform/v3/test.TimeType",
    valueType := "github.com/gravitational/protoc-gen-terraform/v3/test.TimeValue",
    castToType := "time.Time", castFromType := "time.Time" }

/-- a time type is configured, an attribute is injected into the root, the fields are sorted -/
def cfg : Config :=
  { types := ["R"], timeType := some tsT, sort := true,
    injectedFields := [("R", [{ name := "id", type := "github.com/hashicorp/terraform-plugin-framework/types.StringType", computed := true }])] }

theorem cta : ConfigTypesAgree (viewOf cfg) := by
  intro s hs
  rcases hs with hs | hs
  · have : s = tsT := by
      have : some tsT = some s := hs
      injection this with this
      exact this.symm
    subst this
    exact ⟨.time, by decide, by decide⟩
  · cases hs

def dL : MsgD := { name := "L", fields := [{ name := "x", type := "int32" }, { name := "a", type := "string" }] }
def dE : MsgD := { name := "E" }
def dP : MsgD := { name := "P", fields := [{ name := "pq", type := "bool" }] }
def dV : MsgD := { name := "V", fields := [{ name := "vs", type := "string" }, { name := "vt", type := "timestamp" }] }
/-- string, repeated int32, enum, bytes, timestamp, nested message, message without fields (placeholder), list and map of
messages, map of strings, a message embedded by value, a message embedded by pointer, a scalar and a message oneof branch -/
def dR : MsgD := { name := "R", oneofs := ["choice"], fields := [
  { name := "s", type := "string" },
  { name := "ns", type := "int32", card := .repeated },
  { name := "en", type := "enum", typeName := "Color" },
  { name := "by", type := "bytes" },
  { name := "t", type := "timestamp" },
  { name := "n", type := "message", typeName := "L" },
  { name := "e", type := "message", typeName := "E" },
  { name := "ls", type := "message", typeName := "L", card := .repeated },
  { name := "lm", type := "message", typeName := "L", card := .map },
  { name := "sm", type := "string", card := .map },
  { name := "v", type := "message", typeName := "V", embed := true, nullable := "false" },
  { name := "p", type := "message", typeName := "P", embed := true },
  { name := "o1", type := "string", oneof := some 0 },
  { name := "o2", type := "message", typeName := "L", oneof := some 0 } ] }
def req : Request := { file := { name := "r.proto", package := "r", messages := [dR, dL, dE, dV, dP] } }

abbrev build := buildMessage (defaultFuel req) (viewOf cfg) req dR true ""

/-- the descriptor conditions hold (decidable on the request) -/
theorem reqOK : reqOKb req dR = true := by decide

/-- the attributes of the built root, the kinds, and the three Booleans: the checker of SchemaTyped, the gap, the names -/
theorem built_checks : build.toOption.map (fun m =>
      (m.fields.map fun f => (f.info.nameSnake, f.info.kind), irwfsB m.fields, gapFreeBs m.fields, namesOKsB m.fields,
        subsNEBs m.fields)) =
    some ([("by", .primitive), ("e", .object), ("en", .primitive), ("lm", .objectMap), ("ls", .objectList), ("n", .object),
           ("ns", .primitiveList), ("o1", .primitive), ("o2", .object), ("pq", .primitive), ("s", .primitive), ("sm", .primitiveMap),
           ("t", .primitive), ("vs", .primitive), ("vt", .primitive)], true, true, true, true) := by
  decide +kernel

/-- … and through the theorems: `IRWFs` of the built root follows from the descriptor conditions and the names -/
theorem built_irwfs (m : Msg) (hb : buildRoot cfg req dR = .ok (some m)) : IRWFs m.fields := by
  have hn : namesOKsB m.fields = true := by
    have h := buildRoot_inv hb
    have hc := built_checks
    rw [show build = buildMessage (defaultFuel req) (viewOf cfg) req dR true "" from rfl, h] at hc
    simp only [Except.toOption, Option.map_some, Option.some.injEq, Prod.mk.injEq] at hc
    exact hc.2.2.2.1
  exact (root_irwfs_desc cfg req dR m hb cta rfl rfl reqOK).mpr hn

/-- the two routes agree: `irwfsB` (sound: `irwfs_of_b`) says the same as `root_irwfs_iff` -/
theorem agree (m : Msg) (hb : buildRoot cfg req dR = .ok (some m)) :
    irwfsB m.fields = true ∧ (gapFreeBs m.fields = true ∧ namesOKsB m.fields = true) ∧ IRWFs m.fields := by
  have h := buildRoot_inv hb
  have hc := built_checks
  rw [show build = buildMessage (defaultFuel req) (viewOf cfg) req dR true "" from rfl, h] at hc
  simp only [Except.toOption, Option.map_some, Option.some.injEq, Prod.mk.injEq] at hc
  exact ⟨hc.2.1, ⟨hc.2.2.1, hc.2.2.2.1⟩, (root_irwfs_iff cfg req dR m hb cta).mpr ⟨hc.2.2.1, hc.2.2.2.1⟩⟩

/-- the root is built (so the statements above are not vacuous) -/
theorem root_built : (buildRoot cfg req dR).toOption.map (fun o => o.isSome) = some true := by decide +kernel

/-- **C03 on the built root**: for every typed struct value -/
theorem C03_sanity (m : Msg) (hb : buildRoot cfg req dR = .ok (some m)) (obj : GoVal) (hv : ValOKs m.fields obj) :
    ∃ r as, copyTo m obj (.obj false false none (some (attrTypesOf m))) = .ok r ∧ r.diags = [] ∧
      r.tf = .obj false false (some as) (some (attrTypesOf m)) ∧ rendersFields m.fields obj as = true :=
  C03_schema_typed m obj (built_irwfs m hb) hv

end Sanity

end PGT.Proofs.BuiltWF

section
open PGT.Proofs.BuiltWF
#print axioms coreStep_ok_inv
#print axioms getTerraformType_shape
#print axioms built_all
#print axioms irwfs_iff
#print axioms nodeWFs_iff'
#print axioms built_nodeWF'
#print axioms built_nodeWF_iff
#print axioms built_irwfs_iff
#print axioms built_coherent
#print axioms built_vfoks
#print axioms built_shapeOK
#print axioms built_subsNE
#print axioms built_descFree
#print axioms built_gapFree
#print axioms built_gapFree_of_subs
#print axioms built_nodeWF
#print axioms root_irwfs_iff
#print axioms root_irwfs_desc
#print axioms C03_built_root
#print axioms C03_built_root_desc
#print axioms C20_built_root
#print axioms C04_built_root
#print axioms C06_built_root
#print axioms vfoks_built_root
#print axioms C03_built_roots
#print axioms C06_built_roots
#print axioms built_roots_guaranteed
#print axioms built_nodeWF_full_false
#print axioms noExclusion_needed
#print axioms configTypesAgree_needed
#print axioms Witness.w1_emptyElement
#print axioms Witness.w2_noChildren
#print axioms Witness.w3_branchUnderNullableEmbed
#print axioms Witness.w4_customBranch
#print axioms Witness.w5_repeatedBranch
#print axioms Sanity.built_checks
#print axioms Sanity.agree
#print axioms Sanity.C03_sanity
end
