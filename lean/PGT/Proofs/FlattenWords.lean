import PGT.Model.Strings
import PGT.Proofs.Strings
/-
Flattening a proto comment (`toSingleLine`, `fieldComment`, `messageComment`) loses nothing but white space:
the list of words (maximal runs of characters outside Go's `unicode.IsSpace` set `isGoSpace`, the set that
`strings.TrimSpace` removes) is preserved, for every string.
-/
namespace PGT

/-! ## Words -/

theorem mem_takeWhile_imp {p : Char → Bool} : ∀ {l : Str} {x : Char}, x ∈ l.takeWhile p → p x = true
  | [], _, h => by simp at h
  | c :: l, x, h => by
    cases hc : p c with
    | true =>
      rw [List.takeWhile_cons_of_pos hc] at h
      rcases List.mem_cons.mp h with rfl | h
      · exact hc
      · exact mem_takeWhile_imp h
    | false => rw [List.takeWhile_cons_of_neg (by simp [hc])] at h; simp at h

/-- Split at every character satisfying `p`: (first piece, remaining pieces).  Pieces may be empty. -/
def splitBy (p : Char → Bool) : Str → Str × List Str
  | [] => ([], [])
  | c :: rest =>
    let r := splitBy p rest
    if p c then ([], r.1 :: r.2) else (c :: r.1, r.2)

def piecesBy (p : Char → Bool) (s : Str) : List Str := (splitBy p s).1 :: (splitBy p s).2

/-- The words of `s`: the maximal runs of characters not satisfying `p`, in order
(the non-empty pieces of splitting `s` at every `p`-character; Go's `strings.FieldsFunc(s, p)`). -/
def wordsBy (p : Char → Bool) (s : Str) : List Str := (piecesBy p s).filter (fun w => !w.isEmpty)

/-- words w.r.t. the white space of `strings.TrimSpace` (Go's `strings.Fields`) -/
abbrev words (s : Str) : List Str := wordsBy isGoSpace s

/-- words w.r.t. the four ASCII blanks of `Strcase.isSpace` -/
abbrev asciiWords (s : Str) : List Str := wordsBy Strcase.isSpace s

example : words "  ab \t c\r\n d ".toList = ["ab".toList, "c".toList, "d".toList] := by decide

section spec
variable {p : Char → Bool}

theorem piecesBy_nil : piecesBy p [] = [[]] := rfl

theorem piecesBy_cons_sep {c : Char} (hc : p c = true) (s : Str) : piecesBy p (c :: s) = [] :: piecesBy p s := by
  simp [piecesBy, splitBy, hc]

theorem piecesBy_cons_not {c : Char} (hc : p c = false) (s : Str) :
    piecesBy p (c :: s) = (c :: (splitBy p s).1) :: (splitBy p s).2 := by
  simp [piecesBy, splitBy, hc]

theorem piecesBy_append {c : Char} (hc : p c = true) (b : Str) :
    ∀ a : Str, piecesBy p (a ++ c :: b) = piecesBy p a ++ piecesBy p b
  | [] => by simp [piecesBy_cons_sep hc, piecesBy_nil]
  | x :: a => by
    have ih := piecesBy_append hc b a
    cases hx : p x with
    | true =>
      rw [List.cons_append, piecesBy_cons_sep hx, piecesBy_cons_sep hx, ih]; rfl
    | false =>
      rw [List.cons_append, piecesBy_cons_not hx, piecesBy_cons_not hx]
      simp only [piecesBy, List.cons_append, List.cons.injEq] at ih
      simp [piecesBy, ih.1, ih.2]

/-- a string without separators is a single piece -/
theorem piecesBy_no_sep : ∀ w : Str, (∀ x ∈ w, p x = false) → piecesBy p w = [w]
  | [], _ => rfl
  | x :: w, h => by
    have ih := piecesBy_no_sep w (fun y hy => h y (by simp [hy]))
    rw [piecesBy_cons_not (h x (by simp))]
    simp only [piecesBy, List.cons.injEq] at ih
    simp [ih.1, ih.2]

/-! The four equations below determine `wordsBy p` (see `wordsBy_unique`). -/

theorem wordsBy_nil : wordsBy p [] = [] := rfl

/-- a leading white-space character is skipped -/
theorem wordsBy_cons_sep {c : Char} (hc : p c = true) (s : Str) : wordsBy p (c :: s) = wordsBy p s := by
  simp [wordsBy, piecesBy_cons_sep hc]

/-- a non-empty string without white space is one word -/
theorem wordsBy_word {w : Str} (hne : w ≠ []) (hw : ∀ x ∈ w, p x = false) : wordsBy p w = [w] := by
  cases w with
  | nil => exact absurd rfl hne
  | cons a l => simp [wordsBy, piecesBy_no_sep _ hw]

theorem wordsBy_append {c : Char} (hc : p c = true) (a b : Str) :
    wordsBy p (a ++ c :: b) = wordsBy p a ++ wordsBy p b := by
  simp [wordsBy, piecesBy_append hc]

/-- a maximal run of non-white-space characters followed by a white-space character is the first word -/
theorem wordsBy_word_sep {w : Str} (hne : w ≠ []) (hw : ∀ x ∈ w, p x = false) {c : Char} (hc : p c = true)
    (s : Str) : wordsBy p (w ++ c :: s) = w :: wordsBy p s := by
  rw [wordsBy_append hc, wordsBy_word hne hw]; rfl

/-- every word is non-empty and contains no white space -/
theorem piecesBy_no_sep_mem : ∀ (s : Str) (w : Str), w ∈ piecesBy p s → ∀ x ∈ w, p x = false
  | [], w, h => by simp [piecesBy_nil] at h; subst h; simp
  | c :: s, w, h => by
    have ih := piecesBy_no_sep_mem s
    cases hc : p c with
    | true =>
      rw [piecesBy_cons_sep hc] at h
      rcases List.mem_cons.mp h with rfl | h
      · simp
      · exact ih w h
    | false =>
      rw [piecesBy_cons_not hc] at h
      rcases List.mem_cons.mp h with rfl | h
      · intro x hx
        rcases List.mem_cons.mp hx with rfl | hx
        · exact hc
        · exact ih _ (by simp [piecesBy]) x hx
      · exact ih w (by simp [piecesBy, h])

theorem wordsBy_mem {s w : Str} (h : w ∈ wordsBy p s) : w ≠ [] ∧ ∀ x ∈ w, p x = false := by
  simp only [wordsBy, List.mem_filter] at h
  refine ⟨?_, piecesBy_no_sep_mem s w h.1⟩
  intro e; subst e; simp at h

theorem wordsBy_all_sep : ∀ t : Str, (∀ x ∈ t, p x = true) → wordsBy p t = []
  | [], _ => rfl
  | c :: t, h => by
    rw [wordsBy_cons_sep (h c (by simp))]
    exact wordsBy_all_sep t (fun x hx => h x (by simp [hx]))

theorem wordsBy_append_all_sep (s : Str) : ∀ t : Str, (∀ x ∈ t, p x = true) → wordsBy p (s ++ t) = wordsBy p s
  | [], _ => by simp
  | c :: t, h => by
    rw [wordsBy_append (h c (by simp)), wordsBy_all_sep t (fun x hx => h x (by simp [hx]))]; simp

end spec

/-- `wordsBy p` is the only function satisfying the four defining equations of "maximal runs of non-`p` characters". -/
theorem wordsBy_unique (p : Char → Bool) (f : Str → List Str)
    (h0 : f [] = [])
    (h1 : ∀ c s, p c = true → f (c :: s) = f s)
    (h2 : ∀ w, w ≠ [] → (∀ x ∈ w, p x = false) → f w = [w])
    (h3 : ∀ w c s, w ≠ [] → (∀ x ∈ w, p x = false) → p c = true → f (w ++ c :: s) = w :: f s) :
    ∀ s, f s = wordsBy p s := by
  intro s
  generalize hn : s.length = n
  induction n using Nat.strongRecOn generalizing s with
  | _ n ih =>
    cases s with
    | nil => rw [h0, wordsBy_nil]
    | cons c s =>
      cases hc : p c with
      | true =>
        rw [h1 c s hc, wordsBy_cons_sep hc]
        exact ih s.length (by simp at hn; omega) s rfl
      | false =>
        -- the first word
        have hsplit := List.takeWhile_append_dropWhile (p := fun x => !p x) (l := c :: s)
        have htw : ∀ x ∈ (c :: s).takeWhile (fun x => !p x), p x = false := by
          intro x hx
          have := mem_takeWhile_imp hx
          simpa using this
        have hne : (c :: s).takeWhile (fun x => !p x) ≠ [] := by simp [List.takeWhile, hc]
        cases hd : (c :: s).dropWhile (fun x => !p x) with
        | nil =>
          rw [hd, List.append_nil] at hsplit
          rw [← hsplit, h2 _ hne htw, wordsBy_word hne htw]
        | cons d r =>
          have hpd : p d = true := by
            have := head_dropWhile_not (p := fun x => !p x) (c :: s) d (by rw [hd]; rfl)
            simpa using this
          rw [hd] at hsplit
          have hlen : r.length < n := by
            have := congrArg List.length hsplit
            simp at this hn
            omega
          rw [← hsplit, h3 _ d r hne htw hpd, wordsBy_word_sep hne htw hpd, ih r.length hlen r rfl]

/-! ## Trimming keeps the words -/

section trim
variable {p q : Char → Bool}

theorem wordsBy_dropWhile (hq : ∀ x, q x = true → p x = true) : ∀ s : Str, wordsBy p (s.dropWhile q) = wordsBy p s
  | [] => rfl
  | c :: s => by
    cases hc : q c with
    | true => rw [List.dropWhile_cons_of_pos hc, wordsBy_cons_sep (hq c hc)]; exact wordsBy_dropWhile hq s
    | false => rw [List.dropWhile_cons_of_neg (by simp [hc])]

theorem dropWhileEnd_decomp (q : Char → Bool) (s : Str) :
    ∃ t : Str, s = dropWhileEnd q s ++ t ∧ ∀ x ∈ t, q x = true := by
  refine ⟨(s.reverse.takeWhile q).reverse, ?_, ?_⟩
  · unfold dropWhileEnd
    rw [← List.reverse_append, List.takeWhile_append_dropWhile, List.reverse_reverse]
  · intro x hx
    exact mem_takeWhile_imp (List.mem_reverse.mp hx)

theorem wordsBy_dropWhileEnd (hq : ∀ x, q x = true → p x = true) (s : Str) :
    wordsBy p (dropWhileEnd q s) = wordsBy p s := by
  obtain ⟨t, hs, ht⟩ := dropWhileEnd_decomp q s
  conv => rhs; rw [hs]
  exact (wordsBy_append_all_sep _ t (fun x hx => hq x (ht x hx))).symm

end trim

theorem words_trimSpace (s : Str) : words (trimSpace s) = words s := by
  unfold trimSpace words
  rw [wordsBy_dropWhileEnd (fun _ h => h), wordsBy_dropWhile (fun _ h => h)]

theorem words_trimNewlines (s : Str) : words (trimNewlines s) = words s := by
  have hq : ∀ x : Char, (x == '\n') = true → isGoSpace x = true := by
    intro x hx
    simp only [beq_iff_eq] at hx
    subst hx; decide
  unfold trimNewlines words
  rw [wordsBy_dropWhileEnd hq, wordsBy_dropWhile hq]

/-! ## Splitting into lines and joining -/

/-- `strings.Join(strings.Split(s, sep), sep) = s` -/
theorem joinWith_splitOnChar (c : Char) : ∀ s : Str, joinWith [c] (splitOnChar c s) = s
  | [] => rfl
  | x :: rest => by
    have ih := joinWith_splitOnChar c rest
    simp only [splitOnChar]
    split
    · rename_i heq; exact absurd heq (splitOnChar_ne_nil c rest)
    · rename_i hd tl heq
      rw [heq] at ih
      split
      · rename_i hxc
        have : x = c := by simpa using hxc
        subst this
        simp [joinWith, ih]
      · cases tl with
        | nil => simp [joinWith] at ih ⊢; exact ih
        | cons t tl => simp [joinWith] at ih ⊢; exact ih

theorem wordsBy_joinWith {p : Char → Bool} {c : Char} (hc : p c = true) :
    ∀ l : List Str, wordsBy p (joinWith [c] l) = l.flatMap (wordsBy p)
  | [] => rfl
  | [a] => by simp [joinWith]
  | a :: b :: rest => by
    have ih := wordsBy_joinWith hc (b :: rest)
    simp only [joinWith, List.append_assoc, List.singleton_append]
    rw [wordsBy_append hc, ih]; simp

/-- the words of a text are the words of its lines -/
theorem words_lines (s : Str) : words s = (splitOnChar '\n' s).flatMap words := by
  conv => lhs; rw [← joinWith_splitOnChar '\n' s]
  exact wordsBy_joinWith (by decide) _

/-! ## Main theorems -/

/-- `ToSingleLine` keeps the words, for every string. -/
theorem words_toSingleLine (s : Str) : words (toSingleLine s) = words s := by
  unfold toSingleLine
  rw [words_trimSpace]
  have h := words_lines s
  unfold words at *
  rw [wordsBy_joinWith (by decide), h, List.flatMap_map]
  congr 1
  funext l
  exact words_trimSpace l

/-- the description of a field has exactly the words of the leading proto comment -/
theorem words_fieldComment (s : Str) : words (fieldComment s) = words s := by
  unfold fieldComment
  rw [words_toSingleLine, words_trimSpace, words_trimNewlines]

/-- the description of a message has exactly the words of the leading proto comment -/
theorem words_messageComment (s : Str) : words (messageComment s) = words s := by
  unfold messageComment
  rw [words_toSingleLine, words_trimNewlines]

/-! ## The separators of the output

`ToSingleLine` = the trimmed lines joined by one space each, after dropping the blank lines at both ends.
White space inside a line is kept verbatim; a blank line between two non-blank lines yields a second space. -/

/-- drop the empty strings at both ends of a list -/
def stripBlank (l : List Str) : List Str :=
  ((l.dropWhile List.isEmpty).reverse.dropWhile List.isEmpty).reverse

theorem dropWhile_joinWith {p : Char → Bool} {c : Char} (hc : p c = true) :
    ∀ l : List Str, (∀ t ∈ l, ∀ x, t.head? = some x → p x = false) →
      (joinWith [c] l).dropWhile p = joinWith [c] (l.dropWhile List.isEmpty)
  | [], _ => rfl
  | [a], h => by
    cases a with
    | nil => rfl
    | cons x a =>
      have hx := h (x :: a) (by simp) x rfl
      simp [joinWith, List.dropWhile, hx]
  | a :: b :: rest, h => by
    have ih := dropWhile_joinWith hc (b :: rest) (fun t ht => h t (by simp [ht]))
    cases a with
    | nil =>
      simp only [joinWith, List.nil_append, List.singleton_append]
      rw [List.dropWhile_cons_of_pos hc, List.dropWhile_cons_of_pos rfl]
      exact ih
    | cons x a =>
      have hx := h (x :: a) (by simp) x rfl
      simp [joinWith, List.dropWhile, hx]

theorem joinWith_snoc (sep : Str) (x : Str) :
    ∀ l : List Str, l ≠ [] → joinWith sep (l ++ [x]) = joinWith sep l ++ sep ++ x
  | [], h => absurd rfl h
  | [a], _ => by simp [joinWith]
  | a :: b :: rest, _ => by
    have ih := joinWith_snoc sep x (b :: rest) (by simp)
    simp only [List.cons_append] at ih
    simp [joinWith, ih]

theorem reverse_joinWith (sep : Str) :
    ∀ l : List Str, (joinWith sep l).reverse = joinWith sep.reverse (l.reverse.map List.reverse)
  | [] => rfl
  | [a] => by simp [joinWith]
  | a :: b :: rest => by
    have ih := reverse_joinWith sep (b :: rest)
    have hne : (b :: rest).reverse.map List.reverse ≠ [] := by simp
    rw [List.reverse_cons (a := a), List.map_append, List.map_singleton, joinWith_snoc _ _ _ hne, ← ih]
    simp [joinWith]

theorem dropWhileEnd_joinWith {p : Char → Bool} {c : Char} (hc : p c = true) (l : List Str)
    (h : ∀ t ∈ l, ∀ x, t.getLast? = some x → p x = false) :
    dropWhileEnd p (joinWith [c] l) = joinWith [c] (l.reverse.dropWhile List.isEmpty).reverse := by
  have hcomp : (List.isEmpty ∘ List.reverse : Str → Bool) = List.isEmpty := by
    funext t; cases t <;> simp
  unfold dropWhileEnd
  rw [reverse_joinWith, List.reverse_singleton, dropWhile_joinWith hc, reverse_joinWith, List.reverse_singleton,
    List.dropWhile_map, hcomp, ← List.map_reverse, List.map_map]
  · have : (List.reverse ∘ List.reverse : Str → Str) = id := by funext t; simp
    rw [this, List.map_id]
  · intro t ht x hx
    simp only [List.mem_map, List.mem_reverse] at ht
    obtain ⟨u, hu, rfl⟩ := ht
    rw [List.head?_reverse] at hx
    exact h u hu x hx

/-- **Exact form of the output**: the trimmed lines, without the blank ones at both ends, joined by single spaces. -/
theorem toSingleLine_eq (s : Str) :
    toSingleLine s = joinWith [' '] (stripBlank ((splitOnChar '\n' s).map trimSpace)) := by
  have hsp : isGoSpace ' ' = true := by decide
  have hhead : ∀ t ∈ (splitOnChar '\n' s).map trimSpace, ∀ x, t.head? = some x → isGoSpace x = false := by
    intro t ht x hx
    simp only [List.mem_map] at ht
    obtain ⟨u, _, rfl⟩ := ht
    exact trimSpace_head_not_space u x hx
  have hlast : ∀ t ∈ ((splitOnChar '\n' s).map trimSpace).dropWhile List.isEmpty,
      ∀ x, t.getLast? = some x → isGoSpace x = false := by
    intro t ht x hx
    have ht' := (List.dropWhile_sublist _).mem ht
    simp only [List.mem_map] at ht'
    obtain ⟨u, _, rfl⟩ := ht'
    exact trimSpace_last_not_space u x hx
  unfold toSingleLine stripBlank
  show dropWhileEnd isGoSpace (List.dropWhile isGoSpace (joinWith [' '] _)) = _
  rw [dropWhile_joinWith hsp _ hhead, dropWhileEnd_joinWith hsp _ hlast]

theorem stripBlank_of_ends {l : List Str} (h1 : ∀ t, l.head? = some t → t ≠ [])
    (h2 : ∀ t, l.getLast? = some t → t ≠ []) : stripBlank l = l := by
  have dw : ∀ m : List Str, (∀ t, m.head? = some t → t ≠ []) → m.dropWhile List.isEmpty = m := by
    intro m hm
    cases m with
    | nil => rfl
    | cons a m =>
      have := hm a rfl
      cases a with
      | nil => exact absurd rfl this
      | cons x a => rfl
  unfold stripBlank
  rw [dw l h1, dw l.reverse (by rw [List.head?_reverse]; exact h2), List.reverse_reverse]

/-- If the first and the last line are not blank, nothing is dropped: every line break becomes one space
(a blank line in between therefore shows up as two adjacent spaces, see `blank_line_two_spaces`). -/
theorem toSingleLine_of_ends (s : Str)
    (h1 : ∀ u, (splitOnChar '\n' s).head? = some u → trimSpace u ≠ [])
    (h2 : ∀ u, (splitOnChar '\n' s).getLast? = some u → trimSpace u ≠ []) :
    toSingleLine s = joinWith [' '] ((splitOnChar '\n' s).map trimSpace) := by
  rw [toSingleLine_eq, stripBlank_of_ends]
  · intro t ht
    rw [List.head?_map] at ht
    cases hu : (splitOnChar '\n' s).head? with
    | none => rw [hu] at ht; simp at ht
    | some u => rw [hu] at ht; simp at ht; subst ht; exact h1 u hu
  · intro t ht
    rw [List.getLast?_map] at ht
    cases hu : (splitOnChar '\n' s).getLast? with
    | none => rw [hu] at ht; simp at ht
    | some u => rw [hu] at ht; simp at ht; subst ht; exact h2 u hu

/-! ### A line break between two non-blank lines becomes exactly one space -/

theorem splitOnChar_eq_piecesBy (c : Char) : ∀ s : Str, splitOnChar c s = piecesBy (· == c) s
  | [] => rfl
  | x :: rest => by
    have ih := splitOnChar_eq_piecesBy c rest
    simp only [splitOnChar]
    rw [ih]
    cases hx : x == c with
    | true => rw [piecesBy_cons_sep (p := (· == c)) hx]; simp [piecesBy]
    | false => rw [piecesBy_cons_not (p := (· == c)) hx]; simp [piecesBy]

theorem splitOnChar_append (c : Char) (a b : Str) :
    splitOnChar c (a ++ c :: b) = splitOnChar c a ++ splitOnChar c b := by
  simp only [splitOnChar_eq_piecesBy]
  exact piecesBy_append (p := (· == c)) (by simp) b a

theorem joinWith_append (sep : Str) : ∀ (l m : List Str), l ≠ [] → m ≠ [] →
    joinWith sep (l ++ m) = joinWith sep l ++ sep ++ joinWith sep m
  | [], _, h, _ => absurd rfl h
  | [a], m, _, hm => by
    cases m with
    | nil => exact absurd rfl hm
    | cons b m => simp [joinWith]
  | a :: b :: rest, m, _, hm => by
    have ih := joinWith_append sep (b :: rest) m (by simp) hm
    simp only [List.cons_append] at ih
    simp [joinWith, ih]

section strip
variable {α : Type} {E : α → Bool}

theorem dropWhile_append_cons_neg {t : α} (ht : E t = false) (Y : List α) :
    ∀ X : List α, (X ++ t :: Y).dropWhile E = (X ++ [t]).dropWhile E ++ Y
  | [] => by simp [ht]
  | x :: X => by
    cases hx : E x with
    | true =>
      simp only [List.cons_append]
      rw [List.dropWhile_cons_of_pos hx, List.dropWhile_cons_of_pos hx]
      exact dropWhile_append_cons_neg ht Y X
    | false => simp [hx]

theorem dropWhile_snoc_neg {t : α} (ht : E t = false) :
    ∀ X : List α, ∃ Z, (X ++ [t]).dropWhile E = Z ++ [t]
  | [] => ⟨[], by simp [ht]⟩
  | x :: X => by
    cases hx : E x with
    | true =>
      obtain ⟨Z, hZ⟩ := dropWhile_snoc_neg ht X
      exact ⟨Z, by simp only [List.cons_append]; rw [List.dropWhile_cons_of_pos hx]; exact hZ⟩
    | false => exact ⟨x :: X, by simp [hx]⟩

/-- drop from the right end -/
def dropEnd (E : α → Bool) (l : List α) : List α := (l.reverse.dropWhile E).reverse

theorem dropEnd_append_cons_neg {t : α} (ht : E t = false) (X Y : List α) :
    dropEnd E (X ++ t :: Y) = X ++ dropEnd E (t :: Y) := by
  unfold dropEnd
  rw [List.reverse_append, List.reverse_cons, List.append_assoc, List.singleton_append,
    dropWhile_append_cons_neg ht, List.reverse_append, List.reverse_reverse]

theorem dropEnd_cons_neg {t : α} (ht : E t = false) (Y : List α) : ∃ Z, dropEnd E (t :: Y) = t :: Z := by
  unfold dropEnd
  rw [List.reverse_cons]
  obtain ⟨Z, hZ⟩ := dropWhile_snoc_neg ht Y.reverse
  exact ⟨Z.reverse, by rw [hZ]; simp⟩

end strip

theorem stripBlank_eq (l : List Str) : stripBlank l = dropEnd List.isEmpty (l.dropWhile List.isEmpty) := rfl

theorem stripBlank_append {A B : List Str} {t t' : Str} (hA : A.getLast? = some t) (ht : t ≠ [])
    (hB : B.head? = some t') (ht' : t' ≠ []) :
    stripBlank (A ++ B) = stripBlank A ++ stripBlank B ∧ stripBlank A ≠ [] ∧ stripBlank B ≠ [] := by
  have et : List.isEmpty t = false := by cases t with | nil => exact absurd rfl ht | cons _ _ => rfl
  have et' : List.isEmpty t' = false := by cases t' with | nil => exact absurd rfl ht' | cons _ _ => rfl
  obtain ⟨A0, rfl⟩ : ∃ A0, A = A0 ++ [t] := by
    rcases List.eq_nil_or_concat A with rfl | ⟨L, b, rfl⟩
    · simp at hA
    · simp at hA; subst hA; exact ⟨L, by simp⟩
  obtain ⟨B0, rfl⟩ : ∃ B0, B = t' :: B0 := by
    cases B with
    | nil => simp at hB
    | cons b B0 => simp at hB; subst hB; exact ⟨B0, rfl⟩
  obtain ⟨Z, hZ⟩ := dropWhile_snoc_neg et A0
  obtain ⟨Z', hZ'⟩ := dropEnd_cons_neg et' B0
  have hAs : stripBlank (A0 ++ [t]) = Z ++ [t] := by
    rw [stripBlank_eq, hZ, dropEnd_append_cons_neg et]
    simp [dropEnd, et]
  have hBs : stripBlank (t' :: B0) = t' :: Z' := by
    rw [stripBlank_eq, List.dropWhile_cons_of_neg (by simp [et']), hZ']
  refine ⟨?_, by rw [hAs]; simp, by rw [hBs]; simp⟩
  rw [hAs, hBs, stripBlank_eq, List.append_assoc, List.singleton_append, dropWhile_append_cons_neg et, hZ,
    dropEnd_append_cons_neg et', hZ']

/-- **One line break, one space.**  If the line before a line break and the line after it are not blank,
the flattened text is the flattened first part, exactly one space, and the flattened second part. -/
theorem toSingleLine_append (a b : Str) {u v : Str}
    (hu : (splitOnChar '\n' a).getLast? = some u) (hu' : trimSpace u ≠ [])
    (hv : (splitOnChar '\n' b).head? = some v) (hv' : trimSpace v ≠ []) :
    toSingleLine (a ++ '\n' :: b) = toSingleLine a ++ ' ' :: toSingleLine b := by
  have hA : ((splitOnChar '\n' a).map trimSpace).getLast? = some (trimSpace u) := by
    rw [List.getLast?_map, hu]; rfl
  have hB : ((splitOnChar '\n' b).map trimSpace).head? = some (trimSpace v) := by
    rw [List.head?_map, hv]; rfl
  obtain ⟨h1, h2, h3⟩ := stripBlank_append hA hu' hB hv'
  rw [toSingleLine_eq, toSingleLine_eq a, toSingleLine_eq b, splitOnChar_append, List.map_append, h1,
    joinWith_append _ _ _ h2 h3]
  simp

/-- two single lines -/
theorem toSingleLine_two_lines (u v : Str) (hu : '\n' ∉ u) (hv : '\n' ∉ v)
    (hu' : trimSpace u ≠ []) (hv' : trimSpace v ≠ []) :
    toSingleLine (u ++ '\n' :: v) = trimSpace u ++ ' ' :: trimSpace v := by
  have one : ∀ w : Str, '\n' ∉ w → splitOnChar '\n' w = [w] := by
    intro w hw
    rw [splitOnChar_eq_piecesBy]
    exact piecesBy_no_sep w (fun x hx => by
      cases h : x == '\n' with
      | false => rfl
      | true => simp only [beq_iff_eq] at h; subst h; exact absurd hx hw)
  have flat : ∀ w : Str, '\n' ∉ w → trimSpace w ≠ [] → toSingleLine w = trimSpace w := by
    intro w hw hw'
    rw [toSingleLine_of_ends w (by rw [one w hw]; intro t ht; simp at ht; subst ht; exact hw')
      (by rw [one w hw]; intro t ht; simp at ht; subst ht; exact hw'), one w hw]
    rfl
  rw [toSingleLine_append u v (by rw [one u hu]; rfl) hu' (by rw [one v hv]; rfl) hv', flat u hu hu', flat v hv hv']

/-! ## The white-space set matters

`strings.TrimSpace` removes Go's `unicode.IsSpace` set; w.r.t. the four ASCII blanks of `Strcase.isSpace`
(' ', '\t', '\n', '\r') the statement is false: a vertical tab (or form feed, NBSP, U+2028, ...) at the end of a
line is part of a word for `asciiWords` but is trimmed away. -/

/-- counterexample for the ASCII white-space set -/
theorem asciiWords_toSingleLine_counterexample :
    asciiWords (toSingleLine ['a', '\x0b', '\n', 'b']) ≠ asciiWords ['a', '\x0b', '\n', 'b'] := by decide

/-- a blank line between two lines gives two spaces -/
theorem blank_line_two_spaces : toSingleLine "a\n\nb".toList = "a  b".toList := by decide

/-- white space inside a line is kept as it is; CR LF is handled (CR is white space) -/
theorem inner_space_kept : toSingleLine "a \t b\r\n c".toList = "a \t b c".toList := by decide

theorem wordsBy_congr {p q : Char → Bool} : ∀ s : Str, (∀ x ∈ s, p x = q x) → wordsBy p s = wordsBy q s := by
  have key : ∀ s : Str, (∀ x ∈ s, p x = q x) → splitBy p s = splitBy q s := by
    intro s
    induction s with
    | nil => intro _; rfl
    | cons c s ih =>
      intro h
      simp only [splitBy]
      rw [ih (fun x hx => h x (by simp [hx])), h c (by simp)]
  intro s h
  simp only [wordsBy, piecesBy, key s h]

theorem mem_of_mem_splitOnChar (c : Char) : ∀ (s : Str) (p : Str), p ∈ splitOnChar c s → ∀ x ∈ p, x ∈ s
  | [], p, h => by simp [splitOnChar] at h; subst h; simp
  | y :: rest, p, h => by
    have ih := mem_of_mem_splitOnChar c rest
    rw [splitOnChar_eq_piecesBy] at h
    rw [splitOnChar_eq_piecesBy] at ih
    intro x hx
    cases hy : y == c with
    | true =>
      rw [piecesBy_cons_sep (p := (· == c)) hy] at h
      rcases List.mem_cons.mp h with rfl | h
      · simp at hx
      · exact List.mem_cons_of_mem _ (ih p h x hx)
    | false =>
      rw [piecesBy_cons_not (p := (· == c)) hy] at h
      rcases List.mem_cons.mp h with rfl | h
      · rcases List.mem_cons.mp hx with rfl | hx
        · simp
        · exact List.mem_cons_of_mem _ (ih _ (by simp [piecesBy]) x hx)
      · exact List.mem_cons_of_mem _ (ih p (by simp [piecesBy, h]) x hx)

/-- the output consists of characters of the input and of spaces -/
theorem mem_toSingleLine {s : Str} {x : Char} (h : x ∈ toSingleLine s) : x = ' ' ∨ x ∈ s := by
  rcases mem_joinWith (mem_trimSpace h) with h2 | ⟨p, hp, hx⟩
  · simp at h2; exact Or.inl h2
  · simp only [List.mem_map] at hp
    obtain ⟨q, hq, rfl⟩ := hp
    exact Or.inr (mem_of_mem_splitOnChar '\n' s q hq x (mem_trimSpace hx))

/-- With the ASCII white-space set the words are preserved exactly when the comment uses no other white space:
side condition "every `unicode.IsSpace` character of `s` is one of ' ', '\t', '\n', '\r'". -/
theorem asciiWords_toSingleLine (s : Str) (h : ∀ x ∈ s, isGoSpace x = true → Strcase.isSpace x = true) :
    asciiWords (toSingleLine s) = asciiWords s := by
  have sub : ∀ x : Char, Strcase.isSpace x = true → isGoSpace x = true := by
    intro x hx
    simp only [Strcase.isSpace, Bool.or_eq_true, beq_iff_eq] at hx
    rcases hx with ((rfl | rfl) | rfl) | rfl <;> decide
  have agree : ∀ x ∈ s, Strcase.isSpace x = isGoSpace x := by
    intro x hx
    cases hg : isGoSpace x with
    | true => exact h x hx hg
    | false =>
      cases ha : Strcase.isSpace x with
      | false => rfl
      | true => rw [sub x ha] at hg; cases hg
  have agree' : ∀ x ∈ toSingleLine s, Strcase.isSpace x = isGoSpace x := by
    intro x hx
    rcases mem_toSingleLine hx with rfl | hx
    · decide
    · exact agree x hx
  show wordsBy _ _ = wordsBy _ _
  rw [wordsBy_congr _ agree', wordsBy_congr _ agree]
  exact words_toSingleLine s

end PGT

section axioms
open PGT
#print axioms words_toSingleLine
#print axioms words_fieldComment
#print axioms words_messageComment
#print axioms wordsBy_unique
#print axioms toSingleLine_eq
#print axioms toSingleLine_append
#print axioms toSingleLine_two_lines
#print axioms asciiWords_toSingleLine_counterexample
#print axioms asciiWords_toSingleLine
end axioms
