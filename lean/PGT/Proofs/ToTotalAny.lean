import PGT.Proofs.ToTotal
import PGT.Proofs.ToInPlace
import PGT.Proofs.ToCongr
import PGT.Proofs.ToWriter
/-
C06, CopyTo half, for ANY target object: `Copy<T>ToTerraform` never panics when the target already holds values.

What the model (PGT/Model/CopyTo.lean) does with an existing attribute value `cur = tf.Attrs[name]`:
* primitive: re-used when it is of the element value type, replaced otherwise – the attribute TYPE `t` comes from the
  enclosing object's `AttrTypes`, never from the value;
* list / map: re-used when it is a `types.List` / `types.Map` (its `ElemType` is kept in the result but never read: the
  element type the loop uses is the one of the attribute TYPE `a.(types.ListType).ElemType`); the elements are rebuilt
  with `cur = none`;
* object: re-used when it is a `types.Object`, and then the nested field blocks run on the VALUE's `Attrs` with the VALUE's
  `AttrTypes` (`objBody`: `(n, as, tys)` of `cur`), not with the `AttrTypes` of the asserted attribute type `oty`.

So `TysOK` on the target's attribute types is not enough: the nested object VALUES that are re-used must carry attribute
types that are well formed themselves (`AttrsOK`). The hypothesis cannot be dropped (`copyTo_any_witness_*`).
-/
namespace PGT

mutual
/-- the existing value `cur` of field `f`, whose attribute type is `ty`, is harmless: when the field block re-uses it as
a nested object (`f` a message field, `ty` an object type, `cur` a `types.Object`), the attribute types the VALUE carries
are well formed for the nested message (`TysOK`) and the values it holds are harmless for those types in turn. Nothing is
asked of values of any other Go type, of unknown / null flags, of nil `Attrs` / `Elems` / `AttrTypes`, or of list / map
values (their elements and element types are not read). -/
def CurOK : Field → TfTy → Option TfVal → Prop
  | ⟨info, _, _, sub⟩, ty, cur =>
    match info.kind with
    | .object => ∀ oty u n as tys, ty = .obj oty → cur = some (.obj u n as tys) → TysOK sub tys ∧ AttrsOK sub tys (as.getD [])
    | _ => True

/-- … for the attributes `attrs` of an object whose attribute types are `atys` (fields whose type is missing are skipped
by the emitted code: nothing is asked of their values) -/
def AttrsOK : List Field → Option (List (String × TfTy)) → List (String × TfVal) → Prop
  | [], _, _ => True
  | f :: rest, atys, attrs =>
    (∀ ty, (atys.getD []).lookup f.info.nameSnake = some ty → CurOK f ty (attrs.lookup f.info.nameSnake)) ∧
    AttrsOK rest atys attrs
end

theorem curOK_none (f : Field) (ty : TfTy) : CurOK f ty none := by
  obtain ⟨info, mv, msg, sub⟩ := f
  unfold CurOK
  cases info.kind <;> simp

/-- an object without values is harmless -/
theorem attrsOK_nil : ∀ (fs : List Field) (atys : Option (List (String × TfTy))), AttrsOK fs atys []
  | [], _ => by unfold AttrsOK; trivial
  | f :: rest, atys => by
    unfold AttrsOK
    exact ⟨fun ty _ => by simpa [List.lookup] using curOK_none f ty, attrsOK_nil rest atys⟩

/-- `AttrsOK` reads the attribute map only through the lookups of the fields' names -/
theorem attrsOK_congr : ∀ (fs : List Field) (atys : Option (List (String × TfTy))) (attrs attrs' : List (String × TfVal)),
    (∀ f ∈ fs, attrs'.lookup f.info.nameSnake = attrs.lookup f.info.nameSnake) → AttrsOK fs atys attrs → AttrsOK fs atys attrs'
  | [], _, _, _, _, _ => by unfold AttrsOK; trivial
  | f :: rest, atys, attrs, attrs', heq, h => by
    unfold AttrsOK at h ⊢
    refine ⟨?_, attrsOK_congr rest atys attrs attrs' (fun g hg => heq g (by simp [hg])) h.2⟩
    intro ty hty
    rw [heq f (by simp)]
    exact h.1 ty hty

-- ------------------------------------------------------------------------------------------------------
-- the templates, for any existing value

/-- the recursive call never panics on an attribute map `attrs` with attribute types `tys` satisfying `R` -/
def RecNPAny (rec : ToRec) (R : Option (List (String × TfTy)) → List (String × TfVal) → Prop) : Prop :=
  ∀ o tys attrs diags hooks, R tys attrs → NoPanic (rec o tys { attrs := attrs, diags := diags, hooks := hooks })

/-- `objBody` on a re-used object value whose `Attrs` are not nil -/
theorem objBody_noPanic_some (rec : ToRec) (R : Option (List (String × TfTy)) → List (String × TfVal) → Prop)
    (hrec : RecNPAny rec R) (info : FieldInfo) (msg : Option MsgInfo) (se : Bool) (u n : Bool) (as : List (String × TfVal))
    (tys oty : Option (List (String × TfTy))) (x : Outcome GoVal)
    (diags : List Diag) (hooks : List HookCall) (hx : NoPanic x) (hR : R tys as) :
    NoPanic (objBody rec info msg se (some (.obj u n (some as) tys)) oty x diags hooks) := by
  intro w
  unfold objBody
  simp only []
  split
  · split
    · simp
    · generalize hr : rec _ _ _ = r
      have hnp : NoPanic r := by rw [← hr]; exact hrec _ _ _ _ _ hR
      cases r with
      | ok st => simp
      | panic w' => exact absurd rfl (hnp w')
      | stuck w' => simp
  · cases x with
    | panic w' => exact absurd rfl (hx w')
    | stuck w' => simp
    | ok xv =>
      simp only []
      split
      · split
        · simp
        · split
          · simp
          · generalize hr : rec _ _ _ = r
            have hnp : NoPanic r := by rw [← hr]; exact hrec _ _ _ _ _ hR
            cases r with
            | ok st => simp
            | panic w' => exact absurd rfl (hnp w')
            | stuck w' => simp
        · simp
      · split
        · split
          · simp
          · generalize hr : rec _ _ _ = r
            have hnp : NoPanic r := by rw [← hr]; exact hrec _ _ _ _ _ hR
            cases r with
            | ok st => simp
            | panic w' => exact absurd rfl (hnp w')
            | stuck w' => simp
        · simp

/-- every existing value is treated like a re-used object with non-nil `Attrs`: the value's own `(Null, Attrs, AttrTypes)`
when it is a `types.Object`, `(false, {}, oty)` otherwise -/
theorem objBody_norm (rec : ToRec) (info : FieldInfo) (msg : Option MsgInfo) (se : Bool) (cur : Option TfVal)
    (oty : Option (List (String × TfTy))) (x : Outcome GoVal) (diags : List Diag) (hooks : List HookCall) :
    (∃ u n as tys, cur = some (.obj u n as tys) ∧
      objBody rec info msg se cur oty x diags hooks =
        objBody rec info msg se (some (.obj false n (some (as.getD [])) tys)) oty x diags hooks) ∨
    ((∀ u n as tys, cur ≠ some (.obj u n as tys)) ∧
      objBody rec info msg se cur oty x diags hooks =
        objBody rec info msg se (some (.obj false false (some []) oty)) oty x diags hooks) := by
  cases cur with
  | none => exact Or.inr ⟨by intros; simp, by unfold objBody; rfl⟩
  | some c =>
    cases c with
    | obj u n as tys =>
      refine Or.inl ⟨u, n, as, tys, rfl, ?_⟩
      cases as <;> (unfold objBody; rfl)
    | prim _ _ _ _ => exact Or.inr ⟨by intros; simp, by unfold objBody; rfl⟩
    | list _ _ _ _ => exact Or.inr ⟨by intros; simp, by unfold objBody; rfl⟩
    | map _ _ _ _ => exact Or.inr ⟨by intros; simp, by unfold objBody; rfl⟩
    | nilv => exact Or.inr ⟨by intros; simp, by unfold objBody; rfl⟩
    | foreign _ => exact Or.inr ⟨by intros; simp, by unfold objBody; rfl⟩

/-- **the object template never panics on any existing value** that is harmless: `R oty []` for the fresh case (the
asserted object type), `R tys attrs` for a re-used `types.Object` (the value's own types and attributes) -/
theorem objBody_noPanic_any (rec : ToRec) (R : Option (List (String × TfTy)) → List (String × TfVal) → Prop)
    (hrec : RecNPAny rec R) (info : FieldInfo) (msg : Option MsgInfo) (se : Bool) (cur : Option TfVal)
    (oty : Option (List (String × TfTy))) (x : Outcome GoVal) (diags : List Diag) (hooks : List HookCall)
    (hx : NoPanic x) (hfresh : R oty [])
    (hcur : ∀ u n as tys, cur = some (.obj u n as tys) → R tys (as.getD [])) :
    NoPanic (objBody rec info msg se cur oty x diags hooks) := by
  rcases objBody_norm rec info msg se cur oty x diags hooks with ⟨u, n, as, tys, hc, he⟩ | ⟨_, he⟩
  · rw [he]
    exact objBody_noPanic_some rec R hrec info msg se false n _ tys oty x diags hooks hx (hcur u n as tys hc)
  · rw [he]
    exact objBody_noPanic_some rec R hrec info msg se false false [] oty oty x diags hooks hx hfresh

/-- **the list / map template never panics on any existing value**: the existing value contributes its `Null` flag, its
`Elems` (overwritten index by index, or re-allocated) and its `ElemType` (stored back, never read) -/
theorem listOrMapBody_noPanic_any (rec : ToRec) (P : Option (List (String × TfTy)) → Prop) (hrec : RecNP rec P)
    (info : FieldInfo) (msg : Option MsgInfo) (se : Bool) (obj0 : GoVal) (cur : Option TfVal) (ety : Option TfTy)
    (src : GoVal) (st : ToSt) (hety : ElemTyOK info P ety) :
    NoPanic (listOrMapBody rec info msg se obj0 cur ety src st) := by
  have hoty : ∃ oty, elemObjTy (info.kind == .objectList || info.kind == .objectMap) ety = .ok oty := by
    unfold ElemTyOK at hety
    unfold elemObjTy
    split
    · rename_i hobj
      simp only [hobj, if_true] at hety
      obtain ⟨as, rfl, _⟩ := hety
      exact ⟨as, rfl⟩
    · exact ⟨none, rfl⟩
  obtain ⟨oty, hoty⟩ := hoty
  have hb := elemBody_noPanic rec P hrec info msg se obj0 ety oty hety hoty
  intro w
  unfold listOrMapBody
  simp only [hoty]
  split
  · split
    · simp
    · split
      · simp
      · generalize hl : copyToElemsList _ _ _ _ _ _ = lr
        have hlr : NoPanic lr := by rw [← hl]; exact copyToElemsList_noPanic _ hb _ _ _ _ _
        cases lr with
        | panic w' => exact absurd rfl (hlr w')
        | stuck w' => simp
        | ok r => simp
  · split
    · simp
    · split
      · simp
      · generalize hl : copyToElemsMap _ _ _ _ _ = lr
        have hlr : NoPanic lr := by rw [← hl]; exact copyToElemsMap_noPanic _ hb _ _ _ _
        cases lr with
        | panic w' => exact absurd rfl (hlr w')
        | stuck w' => simp
        | ok r => simp

/-- **one field block never panics, whatever the target object holds**, provided the attribute type is well formed
(`FieldTyOK`, as in `toFieldWith_safe`) and – message fields only – a re-used `types.Object` value is harmless (`R`) -/
theorem toFieldWith_noPanic_any (rec : ToRec) (P : Option (List (String × TfTy)) → Prop)
    (R : Option (List (String × TfTy)) → List (String × TfVal) → Prop) (hrec : RecNPAny rec R)
    (hPR : ∀ tys, P tys → R tys [])
    (info : FieldInfo) (msg : Option MsgInfo) (se : Bool) (obj0 : GoVal) (atys : Option (List (String × TfTy))) (st : ToSt)
    (hty : ∀ ty, (atys.getD []).lookup info.nameSnake = some ty → FieldTyOK info P ty)
    (hcur : info.kind = .object → ∀ oty u n as tys, (atys.getD []).lookup info.nameSnake = some (.obj oty) →
      st.attrs.lookup info.nameSnake = some (.obj u n as tys) → R tys (as.getD [])) :
    NoPanic (copyToFieldWith rec info msg se obj0 atys st) := by
  have hrecP : RecNP rec P := fun o as ds hs hP => hrec o as [] ds hs (hPR as hP)
  intro w
  unfold copyToFieldWith
  cases hl : List.lookup info.nameSnake (atys.getD []) with
  | none => simp
  | some a =>
    have hfa := hty a hl
    unfold FieldTyOK at hfa
    simp only []
    cases hk : info.kind
    case primitive =>
      simp only []
      generalize hp : primBody _ _ _ _ _ = pr
      have hnp : NoPanic pr := by rw [← hp]; exact primBody_noPanic _ _ _ _ _ (readField_noPanic _ _)
      cases pr with
      | panic w' => exact absurd rfl (hnp w')
      | stuck w' => simp
      | ok r => simp
    case object =>
      simp only [hk] at hfa
      simp only []
      cases a with
      | obj oty =>
        simp only []
        generalize hp : objBody _ _ _ _ _ _ _ _ _ = pr
        have hnp : NoPanic pr := by
          rw [← hp]
          exact objBody_noPanic_any rec R hrec info msg se _ oty _ _ _ (readField_noPanic _ _) (hPR oty (hfa oty rfl))
            (fun u n as tys hc => hcur hk oty u n as tys hl hc)
        cases pr with
        | panic w' => exact absurd rfl (hnp w')
        | stuck w' => simp
        | ok r => simp
      | prim _ => simp
      | list _ => simp
      | map _ => simp
      | other _ => simp
    case custom =>
      simp only []
      have hnp := readField_noPanic info obj0
      cases hr : readField info obj0 with
      | panic w' => exact absurd hr (hnp w')
      | stuck w' => simp
      | ok x =>
        simp only []
        cases hookTo info.isRepeated x <;> simp
    all_goals
      simp only [hk] at hfa
      simp only []
      have hnp := readField_noPanic info obj0
      split
      · simp
      · rename_i ety heq
        have he : ElemTyOK info P ety := by
          cases a with
          | list e =>
            simp only [] at heq
            split at heq
            · injection heq with heq; subst heq; exact hfa e (Or.inl rfl)
            · cases heq
          | map e =>
            simp only [] at heq
            split at heq
            · cases heq
            · injection heq with heq; subst heq; exact hfa e (Or.inr rfl)
          | prim _ => cases heq
          | obj _ => cases heq
          | other _ => cases heq
        cases hr : readField info obj0 with
        | panic w' => exact absurd hr (hnp w')
        | stuck w' => simp
        | ok src =>
          exact listOrMapBody_noPanic_any rec P hrecP info msg se obj0 _ ety src st he w

-- ------------------------------------------------------------------------------------------------------
-- the induction over the IR

mutual

theorem toFields_noPanic_any : ∀ (fs : List Field) (obj : GoVal) (atys : Option (List (String × TfTy))) (st : ToSt),
    TysOK fs atys → AttrsOK fs atys st.attrs → NoPanic (copyToFields fs obj atys st)
  | [], _, _, _, _, _ => by intro w; simp [copyToFields]
  | f :: rest, obj, atys, st, hok, hv => by
    unfold TysOK at hok
    obtain ⟨hf, hnotin, hrest⟩ := hok
    unfold AttrsOK at hv
    obtain ⟨hvf, hvrest⟩ := hv
    have h1 := toField_noPanic_any f obj atys st hf hvf
    intro w
    simp only [copyToFields]
    cases hs : copyToField f obj atys st with
    | panic w' => exact absurd hs (h1 w')
    | stuck w' => simp
    | ok st' =>
      simp only []
      refine toFields_noPanic_any rest obj atys st' hrest ?_ w
      apply attrsOK_congr rest atys st.attrs st'.attrs _ hvrest
      intro g hg
      have hne : g.info.nameSnake ≠ f.info.nameSnake := by
        intro e
        exact hnotin (by rw [← e]; exact List.mem_map_of_mem hg)
      exact copyToField_frame f obj atys st st' hs _ hne

theorem toField_noPanic_any : ∀ (f : Field) (obj : GoVal) (atys : Option (List (String × TfTy))) (st : ToSt),
    (∀ ty, (atys.getD []).lookup f.info.nameSnake = some ty → TyOK f ty) →
    (∀ ty, (atys.getD []).lookup f.info.nameSnake = some ty → CurOK f ty (st.attrs.lookup f.info.nameSnake)) →
    NoPanic (copyToField f obj atys st)
  | ⟨info, mv, msg, sub⟩, obj, atys, st, hty, hcur => by
    simp only [copyToField]
    apply toFieldWith_noPanic_any (P := TysOK sub) (R := fun tys attrs => TysOK sub tys ∧ AttrsOK sub tys attrs)
    · intro o tys attrs ds hs hR
      exact toFields_noPanic_any sub o tys _ hR.1 hR.2
    · intro tys h
      exact ⟨h, attrsOK_nil sub tys⟩
    · intro ty hl
      exact fieldTyOK_of_tyOK info mv msg sub ty (hty ty hl)
    · intro hk oty u n as tys hl hc
      have h := hcur _ hl
      unfold CurOK at h
      simp only [hk] at h
      exact h oty u n as tys rfl hc

end

/-- **`Copy<T>ToTerraform` never panics on ANY target object**: every IR, every struct value, every attribute map `as`
(nil or not, values of any Go type, unknown / null anywhere, duplicate keys, nested to any depth), every sub-family of
attribute types – provided the attribute types of the target (`TysOK`) and the attribute types carried by the nested
object VALUES the code re-uses (`AttrsOK`) are well formed. -/
theorem copyTo_noPanic_any (m : Msg) (obj : GoVal) (u n : Bool) (as : Option (List (String × TfVal)))
    (atys : Option (List (String × TfTy))) (h : TysOK m.fields atys) (hv : AttrsOK m.fields atys (as.getD []))
    (w : String) : copyTo m obj (.obj u n as atys) ≠ .panic w := by
  unfold copyTo
  simp only []
  have := toFields_noPanic_any m.fields obj atys { attrs := as.getD [] } h hv
  cases hr : copyToFields m.fields obj atys { attrs := as.getD [] } with
  | panic w' => exact absurd hr (this w')
  | stuck w' => simp
  | ok st => simp

/-- on a target that is not an object the model stops (the Go signature takes `*types.Object`: not expressible) -/
theorem copyTo_nonObject (m : Msg) (obj : GoVal) (tf : TfVal) (h : ∀ u n as atys, tf ≠ .obj u n as atys) :
    copyTo m obj tf = .stuck "target is not an object" := by
  unfold copyTo
  cases tf with
  | obj u n as atys => exact absurd rfl (h u n as atys)
  | _ => rfl

/-- … so `copyTo` never panics on any target value at all -/
theorem copyTo_noPanic_anyTarget (m : Msg) (obj : GoVal) (tf : TfVal)
    (h : ∀ u n as atys, tf = .obj u n as atys → TysOK m.fields atys ∧ AttrsOK m.fields atys (as.getD [])) (w : String) :
    copyTo m obj tf ≠ .panic w := by
  cases tf with
  | obj u n as atys => exact copyTo_noPanic_any m obj u n as atys (h u n as atys rfl).1 (h u n as atys rfl).2 w
  | prim _ _ _ _ => rw [copyTo_nonObject _ _ _ (by intros; simp)]; simp
  | list _ _ _ _ => rw [copyTo_nonObject _ _ _ (by intros; simp)]; simp
  | map _ _ _ _ => rw [copyTo_nonObject _ _ _ (by intros; simp)]; simp
  | nilv => rw [copyTo_nonObject _ _ _ (by intros; simp)]; simp
  | foreign _ => rw [copyTo_nonObject _ _ _ (by intros; simp)]; simp

/-- `copyTo_noPanic` of ToTotal.lean recovered: no values, nothing to ask -/
theorem copyTo_noPanic_of_any (m : Msg) (obj : GoVal) (u n : Bool) (atys : Option (List (String × TfTy)))
    (h : TysOK m.fields atys) (w : String) : copyTo m obj (.obj u n none atys) ≠ .panic w :=
  copyTo_noPanic_any m obj u n none atys h (attrsOK_nil m.fields atys) w

-- ------------------------------------------------------------------------------------------------------
-- values a framework decode produces from a schema-typed plan / state

mutual
/-- the nested object VALUES carry the attribute types of their attribute TYPE, at every depth – what
`tfsdk.Plan.Get` / `State.Get` into a `types.Object` produces from a schema-typed plan. Values of any other Go type,
unknown / null flags, nil `Attrs` / `Elems`, list and map values with any elements and element type: unconstrained. -/
def CurMatches : Field → TfTy → Option TfVal → Prop
  | ⟨info, _, _, sub⟩, ty, cur =>
    match info.kind with
    | .object => ∀ oty u n as tys, ty = .obj oty → cur = some (.obj u n as tys) → tys = oty ∧ AttrsMatch sub oty (as.getD [])
    | _ => True

def AttrsMatch : List Field → Option (List (String × TfTy)) → List (String × TfVal) → Prop
  | [], _, _ => True
  | f :: rest, atys, attrs =>
    (∀ ty, (atys.getD []).lookup f.info.nameSnake = some ty → CurMatches f ty (attrs.lookup f.info.nameSnake)) ∧
    AttrsMatch rest atys attrs
end

mutual

theorem attrsOK_of_match : ∀ (fs : List Field) (atys : Option (List (String × TfTy))) (attrs : List (String × TfVal)),
    TysOK fs atys → AttrsMatch fs atys attrs → AttrsOK fs atys attrs
  | [], _, _, _, _ => by unfold AttrsOK; trivial
  | f :: rest, atys, attrs, hok, hm => by
    unfold TysOK at hok
    unfold AttrsMatch at hm
    unfold AttrsOK
    exact ⟨fun ty hl => curOK_of_match f ty _ (hok.1 ty hl) (hm.1 ty hl), attrsOK_of_match rest atys attrs hok.2.2 hm.2⟩

theorem curOK_of_match : ∀ (f : Field) (ty : TfTy) (cur : Option TfVal), TyOK f ty → CurMatches f ty cur → CurOK f ty cur
  | ⟨info, mv, msg, sub⟩, ty, cur, hty, hm => by
    unfold CurOK
    unfold CurMatches at hm
    unfold TyOK at hty
    cases hk : info.kind <;> simp only [hk] at hty hm ⊢
    intro oty u n as tys hty' hc
    obtain ⟨rfl, hsub⟩ := hm oty u n as tys hty' hc
    have hok := hty tys hty'
    exact ⟨hok, attrsOK_of_match sub tys _ hok hsub⟩

end

mutual

theorem attrsMatch_of_shaped : ∀ (fs : List Field) (atys : List (String × TfTy)) (attrs : List (String × TfVal)),
    ShapedAttrs fs attrs atys → AttrsMatch fs (some atys) attrs
  | [], _, _, _ => by unfold AttrsMatch; trivial
  | f :: rest, atys, attrs, hs => by
    unfold ShapedAttrs at hs
    unfold AttrsMatch
    refine ⟨?_, attrsMatch_of_shaped rest atys attrs hs.2⟩
    intro ty hl
    simp only [Option.getD] at hl
    cases hc : attrs.lookup f.info.nameSnake with
    | none =>
      obtain ⟨info, mv, msg, sub⟩ := f
      unfold CurMatches
      cases info.kind <;> simp
    | some a =>
      obtain ⟨ty', hl', hsh⟩ := hs.1 a hc
      rw [hl] at hl'
      injection hl' with hl'
      subst hl'
      exact curMatches_of_shaped f a ty hsh

theorem curMatches_of_shaped : ∀ (f : Field) (a : TfVal) (ty : TfTy), Shaped f a ty → CurMatches f ty (some a)
  | ⟨info, mv, msg, sub⟩, a, ty, hsh => by
    unfold CurMatches
    unfold Shaped at hsh
    cases hk : info.kind <;> simp only [hk] at hsh ⊢
    intro oty u n as tys hty hc
    obtain ⟨u', n', as', tys0, ha, hty0, hsub⟩ := hsh
    rw [hty0] at hty
    injection hty with hty
    subst hty
    injection hc with hc
    rw [ha] at hc
    injection hc with _ _ has htys
    subst has htys
    exact ⟨rfl, attrsMatch_of_shaped sub tys0 _ hsub⟩

end

/-- **no panic on a decoded target**: the object values carry the attribute types of the (well-formed) attribute types -/
theorem copyTo_noPanic_matching (m : Msg) (obj : GoVal) (u n : Bool) (as : Option (List (String × TfVal)))
    (atys : Option (List (String × TfTy))) (h : TysOK m.fields atys) (hv : AttrsMatch m.fields atys (as.getD []))
    (w : String) : copyTo m obj (.obj u n as atys) ≠ .panic w :=
  copyTo_noPanic_any m obj u n as atys h (attrsOK_of_match m.fields atys _ h hv) w

/-- … in particular on every target `ShapedAttrs` of ToInPlace.lean describes (C08 / C09: repeated calls in place) -/
theorem copyTo_noPanic_shaped (m : Msg) (obj : GoVal) (u n : Bool) (as : Option (List (String × TfVal)))
    (atys : List (String × TfTy)) (h : TysOK m.fields (some atys)) (hv : ShapedAttrs m.fields (as.getD []) atys)
    (w : String) : copyTo m obj (.obj u n as (some atys)) ≠ .panic w :=
  copyTo_noPanic_matching m obj u n as (some atys) h (attrsMatch_of_shaped m.fields atys _ hv) w

-- ------------------------------------------------------------------------------------------------------
-- the hypotheses are decidable: executable checkers

mutual
def tyOKb : Field → TfTy → Bool
  | ⟨info, _, _, sub⟩, ty =>
    match info.kind with
    | .object => (match ty with | .obj as => tysOKb sub as | _ => true)
    | .primitiveList | .primitiveMap => (match ty with | .list e => e.isSome | .map e => e.isSome | _ => true)
    | .objectList | .objectMap =>
      (match ty with
       | .list e => (match e with | some (.obj as) => tysOKb sub as | _ => false)
       | .map e => (match e with | some (.obj as) => tysOKb sub as | _ => false)
       | _ => true)
    | _ => true

def tysOKb : List Field → Option (List (String × TfTy)) → Bool
  | [], _ => true
  | f :: rest, atys =>
    (match (atys.getD []).lookup f.info.nameSnake with | some ty => tyOKb f ty | none => true) &&
    (!(rest.map (·.info.nameSnake)).contains f.info.nameSnake && tysOKb rest atys)
end

mutual

theorem tyOKb_iff : ∀ (f : Field) (ty : TfTy), tyOKb f ty = true ↔ TyOK f ty
  | ⟨info, mv, msg, sub⟩, ty => by
    unfold tyOKb TyOK
    cases hk : info.kind
    case primitive => simp
    case custom => simp
    case primitiveList => cases ty <;> simp [Option.isSome_iff_ne_none]
    case primitiveMap => cases ty <;> simp [Option.isSome_iff_ne_none]
    case object =>
      cases ty with
      | obj as =>
        simp only []
        constructor
        · intro h as' e; injection e with e; subst e; exact (tysOKb_iff sub as).1 h
        · intro h; exact (tysOKb_iff sub as).2 (h as rfl)
      | _ => simp
    case objectList =>
      cases ty with
      | list e =>
        cases e with
        | none => simp
        | some t =>
          cases t with
          | obj as =>
            simp only []
            constructor
            · intro h e he
              have : e = some (.obj as) := by rcases he with he | he <;> first | (injection he with he; exact he.symm) | cases he
              exact ⟨as, this, (tysOKb_iff sub as).1 h⟩
            · intro h
              obtain ⟨as', he, h'⟩ := h _ (Or.inl rfl)
              injection he with he; injection he with he; subst he
              exact (tysOKb_iff sub as).2 h'
          | _ => simp
      | map e =>
        cases e with
        | none => simp
        | some t =>
          cases t with
          | obj as =>
            simp only []
            constructor
            · intro h e he
              have : e = some (.obj as) := by rcases he with he | he <;> first | (injection he with he; exact he.symm) | cases he
              exact ⟨as, this, (tysOKb_iff sub as).1 h⟩
            · intro h
              obtain ⟨as', he, h'⟩ := h _ (Or.inr rfl)
              injection he with he; injection he with he; subst he
              exact (tysOKb_iff sub as).2 h'
          | _ => simp
      | _ => simp
    case objectMap =>
      cases ty with
      | list e =>
        cases e with
        | none => simp
        | some t =>
          cases t with
          | obj as =>
            simp only []
            constructor
            · intro h e he
              have : e = some (.obj as) := by rcases he with he | he <;> first | (injection he with he; exact he.symm) | cases he
              exact ⟨as, this, (tysOKb_iff sub as).1 h⟩
            · intro h
              obtain ⟨as', he, h'⟩ := h _ (Or.inl rfl)
              injection he with he; injection he with he; subst he
              exact (tysOKb_iff sub as).2 h'
          | _ => simp
      | map e =>
        cases e with
        | none => simp
        | some t =>
          cases t with
          | obj as =>
            simp only []
            constructor
            · intro h e he
              have : e = some (.obj as) := by rcases he with he | he <;> first | (injection he with he; exact he.symm) | cases he
              exact ⟨as, this, (tysOKb_iff sub as).1 h⟩
            · intro h
              obtain ⟨as', he, h'⟩ := h _ (Or.inr rfl)
              injection he with he; injection he with he; subst he
              exact (tysOKb_iff sub as).2 h'
          | _ => simp
      | _ => simp

theorem tysOKb_iff : ∀ (fs : List Field) (atys : Option (List (String × TfTy))), tysOKb fs atys = true ↔ TysOK fs atys
  | [], _ => by unfold tysOKb TysOK; simp
  | f :: rest, atys => by
    unfold tysOKb TysOK
    simp only [Bool.and_eq_true, Bool.not_eq_true', List.contains_eq_mem, decide_eq_false_iff_not]
    rw [tysOKb_iff rest atys]
    refine and_congr ?_ Iff.rfl
    cases (atys.getD []).lookup f.info.nameSnake with
    | none => simp
    | some ty =>
      simp only [Option.some.injEq]
      constructor
      · intro h ty' e; subst e; exact (tyOKb_iff f ty).1 h
      · intro h; exact (tyOKb_iff f ty).2 (h ty rfl)

end

instance (fs : List Field) (atys : Option (List (String × TfTy))) : Decidable (TysOK fs atys) :=
  decidable_of_iff _ (tysOKb_iff fs atys)

mutual
def curOKb : Field → TfTy → Option TfVal → Bool
  | ⟨info, _, _, sub⟩, ty, cur =>
    match info.kind with
    | .object =>
      (match ty with
       | .obj _ =>
         (match cur with
          | some (.obj _ _ as tys) => tysOKb sub tys && attrsOKb sub tys (as.getD [])
          | _ => true)
       | _ => true)
    | _ => true

def attrsOKb : List Field → Option (List (String × TfTy)) → List (String × TfVal) → Bool
  | [], _, _ => true
  | f :: rest, atys, attrs =>
    (match (atys.getD []).lookup f.info.nameSnake with
     | some ty => curOKb f ty (attrs.lookup f.info.nameSnake)
     | none => true) &&
    attrsOKb rest atys attrs
end

mutual

theorem curOKb_iff : ∀ (f : Field) (ty : TfTy) (cur : Option TfVal), curOKb f ty cur = true ↔ CurOK f ty cur
  | ⟨info, mv, msg, sub⟩, ty, cur => by
    unfold curOKb CurOK
    cases hk : info.kind <;> simp only []
    case object =>
      cases ty with
      | obj oty =>
        cases cur with
        | none => simp
        | some c =>
          cases c with
          | obj u n as tys =>
            simp only [Bool.and_eq_true]
            rw [tysOKb_iff sub tys, attrsOKb_iff sub tys (as.getD [])]
            constructor
            · intro h oty' u' n' as' tys' _ hc
              injection hc with hc
              injection hc with _ _ h1 h2
              subst h1 h2
              exact h
            · intro h
              exact h oty u n as tys rfl rfl
          | _ => simp
      | _ => simp

theorem attrsOKb_iff : ∀ (fs : List Field) (atys : Option (List (String × TfTy))) (attrs : List (String × TfVal)),
    attrsOKb fs atys attrs = true ↔ AttrsOK fs atys attrs
  | [], _, _ => by unfold attrsOKb AttrsOK; simp
  | f :: rest, atys, attrs => by
    unfold attrsOKb AttrsOK
    simp only [Bool.and_eq_true]
    rw [attrsOKb_iff rest atys attrs]
    refine and_congr ?_ Iff.rfl
    cases (atys.getD []).lookup f.info.nameSnake with
    | none => simp
    | some ty =>
      simp only [Option.some.injEq]
      constructor
      · intro h ty' e; subst e; exact (curOKb_iff f ty _).1 h
      · intro h; exact (curOKb_iff f ty _).2 (h ty rfl)

end

instance (fs : List Field) (atys : Option (List (String × TfTy))) (attrs : List (String × TfVal)) :
    Decidable (AttrsOK fs atys attrs) :=
  decidable_of_iff _ (attrsOKb_iff fs atys attrs)

/-- the executable form of the theorem: what a harness can check on a concrete target before the call -/
theorem copyTo_noPanic_checked (m : Msg) (obj : GoVal) (u n : Bool) (as : Option (List (String × TfVal)))
    (atys : Option (List (String × TfTy)))
    (h : (tysOKb m.fields atys && attrsOKb m.fields atys (as.getD [])) = true) (w : String) :
    copyTo m obj (.obj u n as atys) ≠ .panic w := by
  simp only [Bool.and_eq_true] at h
  exact copyTo_noPanic_any m obj u n as atys ((tysOKb_iff _ _).1 h.1) ((attrsOKb_iff _ _ _).1 h.2) w

-- ------------------------------------------------------------------------------------------------------
-- the hypothesis on the existing values cannot be dropped: a witness

/-- the statement of the task with `TysOK` on the target's attribute types as only hypothesis – FALSE
(`copyTo_noPanic_any_full_false`) -/
def copyTo_noPanic_any_full : Prop :=
  ∀ (m : Msg) (obj : GoVal) (u n : Bool) (as : Option (List (String × TfVal))) (atys : Option (List (String × TfTy)))
    (_ : TysOK m.fields atys) (w : String), copyTo m obj (.obj u n as atys) ≠ .panic w

/-- `message M { Inner nested = 1; }  message Inner { repeated string xs = 1; }` -/
def witAnyFields : List Field :=
  [{ info := { name := "Nested", nameSnake := "nested", kind := .object, path := "M.Nested",
               tf := { type := "github.com/hashicorp/terraform-plugin-framework/types.ObjectType",
                       valueType := "github.com/hashicorp/terraform-plugin-framework/types.Object",
                       elemValueType := "github.com/hashicorp/terraform-plugin-framework/types.Object", isMessage := true } },
     msg := some { name := "Inner" },
     sub := [{ info := { name := "Xs", nameSnake := "xs", kind := .primitiveList, isRepeated := true, protoType := "string",
                         path := "M.Nested.Xs",
                         tf := { type := "github.com/hashicorp/terraform-plugin-framework/types.ListType",
                                 valueType := "github.com/hashicorp/terraform-plugin-framework/types.List",
                                 elemValueType := "github.com/hashicorp/terraform-plugin-framework/types.String",
                                 valueCastToType := "string", valueCastFromType := "string", zeroValue := "\"\"" } } }] }]

/-- the schema's attribute types of `M`: well formed -/
def witAnyTys : Option (List (String × TfTy)) :=
  some [("nested", .obj (some [("xs", .list (some (.prim .string)))]))]

/-- the target: `tf.Attrs["nested"]` is a `types.Object` with nil `Attrs` whose own `AttrTypes` are
`{"xs": types.ListType{ElemType: nil}}` -/
def witAnyAttrs : Option (List (String × TfVal)) :=
  some [("nested", .obj false false none (some [("xs", .list none)]))]

/-- the source: `M{Nested: Inner{Xs: []string{"a"}}}` -/
def witAnySrc : GoVal := .struct [("Nested", .struct [("Xs", .slice (some [.sc (.str [97])]))])]

theorem witAny_tysOK : TysOK witAnyFields witAnyTys := by
  simp [witAnyFields, witAnyTys, TysOK, TyOK]

/-- **witness**: the target's attribute types are well formed, the call panics nevertheless – in the block of
`Nested` the emitted code asserts `v, ok := tf.Attrs["nested"].(types.Object)`, takes `tf := &v` and runs the blocks of
`Inner` against `v.AttrTypes`; the block of `Xs` finds `a := tf.AttrTypes["xs"]`, `o := a.(types.ListType)`,
`t := o.ElemType` (nil) and, for the first element, `t.ValueFromTerraform(ctx, …)` on the nil interface. -/
theorem copyTo_any_witness_run :
    (match copyTo { info := { name := "M" }, fields := witAnyFields } witAnySrc (.obj false false witAnyAttrs witAnyTys) with
     | .panic w => w == "nil-deref"
     | _ => false) = true := by
  decide

theorem copyTo_any_witness_panics :
    copyTo { info := { name := "M" }, fields := witAnyFields } witAnySrc (.obj false false witAnyAttrs witAnyTys) =
      .panic "nil-deref" := by
  have h := copyTo_any_witness_run
  generalize copyTo _ _ _ = r at h
  cases r with
  | panic w => simp only [beq_iff_eq] at h; rw [h]
  | ok _ => cases h
  | stuck _ => cases h

/-- the same call on the target without values succeeds (the hypothesis violated is the one on the VALUE) -/
theorem copyTo_any_witness_fresh_ok :
    (match copyTo { info := { name := "M" }, fields := witAnyFields } witAnySrc (.obj false false none witAnyTys) with
     | .ok r => r.diags.isEmpty
     | _ => false) = true := by
  decide

theorem witAny_not_attrsOK : ¬ AttrsOK witAnyFields witAnyTys (witAnyAttrs.getD []) := by
  intro h
  unfold AttrsOK witAnyFields at h
  have h1 := h.1 (.obj (some [("xs", .list (some (.prim .string)))])) (by simp [witAnyTys])
  unfold CurOK at h1
  have h2 := (h1 _ false false none (some [("xs", .list none)]) rfl (by simp [witAnyAttrs])).1
  unfold TysOK at h2
  have h3 := h2.1 (.list none) (by simp)
  unfold TyOK at h3
  exact h3 none (Or.inl rfl) rfl

/-- the checkers decide the witness -/
example : tysOKb witAnyFields witAnyTys = true ∧ attrsOKb witAnyFields witAnyTys (witAnyAttrs.getD []) = false := by decide

/-- second witness, the other panic site: `message M { Inner nested = 1; }  message Inner { repeated Leaf ys = 1; }
message Leaf { string a = 1; }` -/
def witAnyFields2 : List Field :=
  [{ info := { name := "Nested", nameSnake := "nested", kind := .object, path := "M.Nested" },
     msg := some { name := "Inner" },
     sub := [{ info := { name := "Ys", nameSnake := "ys", kind := .objectList, isRepeated := true, isNullable := true,
                         path := "M.Nested.Ys" },
               msg := some { name := "Leaf" },
               sub := [{ info := { name := "A", nameSnake := "a", kind := .primitive, protoType := "string", path := "M.Nested.Ys.A",
                                   tf := { elemValueType := "github.com/hashicorp/terraform-plugin-framework/types.String",
                                           valueCastToType := "string", valueCastFromType := "string", zeroValue := "\"\"" } } }] }] }]

def witAnyTys2 : Option (List (String × TfTy)) :=
  some [("nested", .obj (some [("ys", .list (some (.obj (some [("a", .prim .string)]))))]))]

/-- `tf.Attrs["nested"]` is a null `types.Object` whose `AttrTypes` are `{"ys": types.ListType{ElemType: types.StringType}}` -/
def witAnyAttrs2 : Option (List (String × TfVal)) :=
  some [("nested", .obj false true none (some [("ys", .list (some (.prim .string)))]))]

/-- **witness 2**: target types well formed (`TysOK`), source `M{Nested: Inner{Ys: []*Leaf{}}}` (empty, non-nil): the
block of `Ys`, run against the VALUE's `AttrTypes`, executes the single-value assertion
`o := o.ElemType.(types.ObjectType)` on `types.StringType` – before the loop, so even for an empty slice. -/
theorem copyTo_any_witness2_run :
    (decide (TysOK witAnyFields2 witAnyTys2) &&
     match copyTo { info := { name := "M" }, fields := witAnyFields2 } (.struct [("Nested", .struct [("Ys", .slice (some []))])])
        (.obj false false witAnyAttrs2 witAnyTys2) with
     | .panic w => w == "assertion"
     | _ => false) = true := by
  decide

/-- non-vacuity of `AttrsOK`: a target full of junk – duplicate keys, a `types.Object` without `AttrTypes` that is unknown
and null, holding a list of another element type with nil / foreign elements – is harmless; the call returns and reports
the attribute type missing in the re-used VALUE -/
def junkAttrs : Option (List (String × TfVal)) :=
  some [("other", .foreign "x"),
        ("nested", .obj true true (some [("xs", .list true false (some [.nilv, .foreign "y"]) (some (.other "z"))), ("xs", .nilv)]) none),
        ("nested", .nilv)]

theorem junk_attrsOK : AttrsOK witAnyFields witAnyTys (junkAttrs.getD []) := by decide

theorem junk_runs :
    (match copyTo { info := { name := "M" }, fields := witAnyFields } witAnySrc (.obj true true junkAttrs witAnyTys) with
     | .ok r => r.diags == [.writeMissing "M.Nested.Xs"]
     | _ => false) = true := by
  decide

/-- **the task's statement without a hypothesis on the existing values is false** -/
theorem copyTo_noPanic_any_full_false : ¬ copyTo_noPanic_any_full := by
  intro h
  exact h { info := { name := "M" }, fields := witAnyFields } witAnySrc false false witAnyAttrs witAnyTys witAny_tysOK
    "nil-deref" copyTo_any_witness_panics

-- ------------------------------------------------------------------------------------------------------
-- the diagnostic half: missing attribute types are reported, the other attributes are still written

theorem listOrMapBody_ok_sets (rec : ToRec) (info : FieldInfo) (msg : Option MsgInfo) (se : Bool) (obj0 : GoVal)
    (cur : Option TfVal) (ety : Option TfTy) (src : GoVal) (st st' : ToSt)
    (h : listOrMapBody rec info msg se obj0 cur ety src st = .ok st') :
    ∃ v, st'.attrs = setKey info.nameSnake v st.attrs := by
  unfold listOrMapBody at h
  simp only [] at h
  split at h
  · split at h
    · injection h with h; subst h; exact ⟨_, rfl⟩
    · split at h
      · cases h
      · cases h
      · split at h
        · cases h
        · split at h
          · injection h with h; subst h; exact ⟨_, rfl⟩
          · cases h
          · cases h
  · split at h
    · injection h with h; subst h; exact ⟨_, rfl⟩
    · split at h
      · cases h
      · cases h
      · split at h
        · cases h
        · split at h
          · injection h with h; subst h; exact ⟨_, rfl⟩
          · cases h
          · cases h

/-- a field block whose attribute type is present and that returns either stored a value under its attribute name or
reported that the attribute type is not of the expected Go type (and stored nothing) -/
theorem copyToFieldWith_present (rec : ToRec) (info : FieldInfo) (msg : Option MsgInfo) (se : Bool) (obj0 : GoVal)
    (atys : Option (List (String × TfTy))) (st st' : ToSt) (ty : TfTy)
    (hl : (atys.getD []).lookup info.nameSnake = some ty)
    (h : copyToFieldWith rec info msg se obj0 atys st = .ok st') :
    (∃ v, st'.attrs = setKey info.nameSnake v st.attrs) ∨ st' = st.diag (.writeConv info.path info.tf.type) := by
  unfold copyToFieldWith at h
  simp only [hl] at h
  cases hk : info.kind
  case primitive =>
    simp only [hk] at h
    split at h
    · injection h with h; subst h; exact Or.inl ⟨_, rfl⟩
    · cases h
    · cases h
  case object =>
    simp only [hk] at h
    split at h
    · split at h
      · injection h with h; subst h; exact Or.inl ⟨_, rfl⟩
      · cases h
      · cases h
    · injection h with h; exact Or.inr h.symm
  case custom =>
    simp only [hk] at h
    split at h
    · split at h
      · injection h with h; subst h; exact Or.inl ⟨_, rfl⟩
      · cases h
    · cases h
    · cases h
  all_goals
    simp only [hk] at h
    split at h
    · injection h with h; exact Or.inr h.symm
    · split at h
      · cases h
      · cases h
      · exact Or.inl (listOrMapBody_ok_sets _ _ _ _ _ _ _ _ _ _ h)

theorem lookup_setKey_isSome {α} (k key : String) (v : α) (l : List (String × α)) (x : α)
    (h : l.lookup key = some x) : ∃ x', (setKey k v l).lookup key = some x' := by
  by_cases e : key = k
  · subst e; exact ⟨v, lookup_setKey_same _ _ _⟩
  · exact ⟨x, by rw [lookup_setKey_other _ _ _ e]; exact h⟩

/-- an attribute that is present stays present -/
theorem copyToFields_lookup_mono : ∀ (fs : List Field) (obj : GoVal) (atys : Option (List (String × TfTy))) (st st' : ToSt),
    copyToFields fs obj atys st = .ok st' → ∀ key x, st.attrs.lookup key = some x → ∃ x', st'.attrs.lookup key = some x'
  | [], _, _, st, st', h, key, x, hx => by
    simp only [copyToFields] at h; injection h with h; subst h; exact ⟨x, hx⟩
  | f :: rest, obj, atys, st, st', h, key, x, hx => by
    simp only [copyToFields] at h
    cases hm : copyToField f obj atys st with
    | ok m =>
      rw [hm] at h
      have h1 : ∃ x1, m.attrs.lookup key = some x1 := by
        rcases copyToField_shape f obj atys st m hm with e | ⟨v, e⟩
        · rw [e]; exact ⟨x, hx⟩
        · rw [e]; exact lookup_setKey_isSome _ _ _ _ x hx
      obtain ⟨x1, hx1⟩ := h1
      exact copyToFields_lookup_mono rest obj atys m st' h key x1 hx1
    | panic w => rw [hm] at h; cases h
    | stuck w => rw [hm] at h; cases h

/-- **the diagnostic half of C06 for CopyTo, every target**: when the field blocks of a message run to completion on
any attribute map, every field whose attribute type is missing from the target has its `writeMissing` diagnostic, and
every other field has been written (its attribute holds a value) or has its `writeConv` diagnostic (attribute type of
the wrong Go type) – the blocks after a missing type still run. -/
theorem copyToFields_diag_half : ∀ (fs : List Field) (obj : GoVal) (atys : Option (List (String × TfTy))) (st st' : ToSt),
    copyToFields fs obj atys st = .ok st' → ∀ f ∈ fs,
      ((atys.getD []).lookup f.info.nameSnake = none → Diag.writeMissing f.info.path ∈ st'.diags) ∧
      (∀ ty, (atys.getD []).lookup f.info.nameSnake = some ty →
        (∃ v, st'.attrs.lookup f.info.nameSnake = some v) ∨ Diag.writeConv f.info.path f.info.tf.type ∈ st'.diags)
  | [], _, _, _, _, _, f, hf => by simp at hf
  | g :: rest, obj, atys, st, st', h, f, hf => by
    simp only [copyToFields] at h
    cases hm : copyToField g obj atys st with
    | panic w => rw [hm] at h; cases h
    | stuck w => rw [hm] at h; cases h
    | ok m =>
      rw [hm] at h
      simp only [List.mem_cons] at hf
      rcases hf with rfl | hf
      · obtain ⟨ds, hs, hd, _, _⟩ := copyToFields_ok_shift rest obj atys m st' h
        constructor
        · intro hl
          obtain ⟨info, mv, msg, sub⟩ := f
          simp only [copyToField] at hm
          simp only at hl
          unfold copyToFieldWith at hm
          simp only [hl] at hm
          injection hm with hm
          subst hm
          rw [hd]
          simp [ToSt.diag]
        · intro ty hl
          obtain ⟨info, mv, msg, sub⟩ := f
          simp only [copyToField] at hm
          simp only at hl ⊢
          rcases copyToFieldWith_present _ info msg _ obj atys st m ty hl hm with ⟨v, e⟩ | e
          · left
            exact copyToFields_lookup_mono rest obj atys m st' h info.nameSnake v (by rw [e]; exact lookup_setKey_same _ _ _)
          · right
            rw [hd, e]
            simp [ToSt.diag]
      · exact copyToFields_diag_half rest obj atys m st' h f hf

/-- … for the converter: any target object -/
theorem copyTo_diag_half (m : Msg) (obj : GoVal) (u n : Bool) (as : Option (List (String × TfVal)))
    (atys : Option (List (String × TfTy))) (r : ToResult) (h : copyTo m obj (.obj u n as atys) = .ok r) :
    ∃ attrs', r.tf = .obj false false (some attrs') atys ∧ ∀ f ∈ m.fields,
      ((atys.getD []).lookup f.info.nameSnake = none → Diag.writeMissing f.info.path ∈ r.diags) ∧
      (∀ ty, (atys.getD []).lookup f.info.nameSnake = some ty →
        (∃ v, attrs'.lookup f.info.nameSnake = some v) ∨ Diag.writeConv f.info.path f.info.tf.type ∈ r.diags) := by
  unfold copyTo at h
  simp only [] at h
  cases hr : copyToFields m.fields obj atys { attrs := as.getD [] } with
  | panic w => rw [hr] at h; cases h
  | stuck w => rw [hr] at h; cases h
  | ok st =>
    rw [hr] at h
    injection h with h
    subst h
    exact ⟨st.attrs, rfl, copyToFields_diag_half m.fields obj atys _ st hr⟩

-- ------------------------------------------------------------------------------------------------------
-- the invariant is closed under calls: the result of a call is a harmless target again

/-- the recursive call maps harmless attribute maps to harmless attribute maps -/
def RecPres (rec : ToRec) (R : Option (List (String × TfTy)) → List (String × TfVal) → Prop) : Prop :=
  ∀ o tys attrs diags hooks st', R tys attrs → rec o tys { attrs := attrs, diags := diags, hooks := hooks } = .ok st' →
    R tys st'.attrs

theorem objBody_pres_some (rec : ToRec) (R : Option (List (String × TfTy)) → List (String × TfVal) → Prop)
    (hrec : RecPres rec R) (info : FieldInfo) (msg : Option MsgInfo) (se : Bool) (u n : Bool) (as : List (String × TfVal))
    (tys oty : Option (List (String × TfTy))) (x : Outcome GoVal) (diags : List Diag) (hooks : List HookCall)
    (v : TfVal) (ds : List Diag) (hs : List HookCall) (hR : R tys as)
    (h : objBody rec info msg se (some (.obj u n (some as) tys)) oty x diags hooks = .ok (v, ds, hs)) :
    ∃ n' as', v = .obj false n' (some as') tys ∧ R tys as' := by
  unfold objBody at h
  simp only [] at h
  split at h
  · split at h
    · injection h with h; injection h with h _; subst h; exact ⟨_, _, rfl, hR⟩
    · generalize hr : rec _ _ _ = r at h
      cases r with
      | ok st => injection h with h; injection h with h _; subst h; exact ⟨_, _, rfl, hrec _ _ _ _ _ _ hR hr⟩
      | panic w' => cases h
      | stuck w' => cases h
  · cases x with
    | panic w' => cases h
    | stuck w' => cases h
    | ok xv =>
      simp only [] at h
      split at h
      · split at h
        · injection h with h; injection h with h _; subst h; exact ⟨_, _, rfl, hR⟩
        · split at h
          · injection h with h; injection h with h _; subst h; exact ⟨_, _, rfl, hR⟩
          · generalize hr : rec _ _ _ = r at h
            cases r with
            | ok st => injection h with h; injection h with h _; subst h; exact ⟨_, _, rfl, hrec _ _ _ _ _ _ hR hr⟩
            | panic w' => cases h
            | stuck w' => cases h
        · cases h
      · split at h
        · split at h
          · injection h with h; injection h with h _; subst h; exact ⟨_, _, rfl, hR⟩
          · generalize hr : rec _ _ _ = r at h
            cases r with
            | ok st => injection h with h; injection h with h _; subst h; exact ⟨_, _, rfl, hrec _ _ _ _ _ _ hR hr⟩
            | panic w' => cases h
            | stuck w' => cases h
        · cases h

/-- the object template stores a `types.Object` whose own types and attributes are harmless -/
theorem objBody_pres (rec : ToRec) (R : Option (List (String × TfTy)) → List (String × TfVal) → Prop)
    (hrec : RecPres rec R) (info : FieldInfo) (msg : Option MsgInfo) (se : Bool) (cur : Option TfVal)
    (oty : Option (List (String × TfTy))) (x : Outcome GoVal) (diags : List Diag) (hooks : List HookCall)
    (v : TfVal) (ds : List Diag) (hs : List HookCall) (hfresh : R oty [])
    (hcur : ∀ u n as tys, cur = some (.obj u n as tys) → R tys (as.getD []))
    (h : objBody rec info msg se cur oty x diags hooks = .ok (v, ds, hs)) :
    ∃ n' as' tys', v = .obj false n' (some as') tys' ∧ R tys' as' := by
  rcases objBody_norm rec info msg se cur oty x diags hooks with ⟨u, n, as, tys, hc, he⟩ | ⟨_, he⟩
  · rw [he] at h
    obtain ⟨n', as', hv, hR⟩ := objBody_pres_some rec R hrec info msg se false n _ tys oty x diags hooks v ds hs (hcur u n as tys hc) h
    exact ⟨n', as', tys, hv, hR⟩
  · rw [he] at h
    obtain ⟨n', as', hv, hR⟩ := objBody_pres_some rec R hrec info msg se false false [] oty oty x diags hooks v ds hs hfresh h
    exact ⟨n', as', oty, hv, hR⟩

/-- the block of a message field whose attribute type is an object type leaves a harmless `types.Object` under its name -/
theorem toFieldWith_pres (rec : ToRec) (R : Option (List (String × TfTy)) → List (String × TfVal) → Prop)
    (hrec : RecPres rec R) (info : FieldInfo) (msg : Option MsgInfo) (se : Bool) (obj0 : GoVal)
    (atys : Option (List (String × TfTy))) (st st' : ToSt) (oty : Option (List (String × TfTy)))
    (hk : info.kind = .object) (hl : (atys.getD []).lookup info.nameSnake = some (.obj oty)) (hfresh : R oty [])
    (hcur : ∀ u n as tys, st.attrs.lookup info.nameSnake = some (.obj u n as tys) → R tys (as.getD []))
    (h : copyToFieldWith rec info msg se obj0 atys st = .ok st') :
    ∃ n' as' tys', st'.attrs.lookup info.nameSnake = some (.obj false n' (some as') tys') ∧ R tys' as' := by
  unfold copyToFieldWith at h
  simp only [hl, hk] at h
  generalize hp : objBody _ _ _ _ _ _ _ _ _ = pr at h
  cases pr with
  | panic w' => cases h
  | stuck w' => cases h
  | ok r =>
    obtain ⟨v, ds, hs⟩ := r
    obtain ⟨n', as', tys', hv, hR⟩ := objBody_pres rec R hrec info msg se _ oty _ _ _ v ds hs hfresh hcur hp
    simp only [] at h
    injection h with h
    subst h
    exact ⟨n', as', tys', by simp only [hv]; exact lookup_setKey_same _ _ _, hR⟩

mutual

theorem toFields_pres : ∀ (fs : List Field) (obj : GoVal) (atys : Option (List (String × TfTy))) (st st' : ToSt),
    TysOK fs atys → AttrsOK fs atys st.attrs → copyToFields fs obj atys st = .ok st' → AttrsOK fs atys st'.attrs
  | [], _, _, _, _, _, _, _ => by unfold AttrsOK; trivial
  | f :: rest, obj, atys, st, st', hok, hv, h => by
    unfold TysOK at hok
    obtain ⟨hf, hnotin, hrest⟩ := hok
    unfold AttrsOK at hv
    obtain ⟨hvf, hvrest⟩ := hv
    simp only [copyToFields] at h
    cases hm : copyToField f obj atys st with
    | panic w => rw [hm] at h; cases h
    | stuck w => rw [hm] at h; cases h
    | ok m =>
      rw [hm] at h
      have hne : ∀ g ∈ rest, g.info.nameSnake ≠ f.info.nameSnake := by
        intro g hg e
        exact hnotin (by rw [← e]; exact List.mem_map_of_mem hg)
      have hm1 : AttrsOK rest atys m.attrs :=
        attrsOK_congr rest atys st.attrs m.attrs (fun g hg => copyToField_frame f obj atys st m hm _ (hne g hg)) hvrest
      unfold AttrsOK
      refine ⟨?_, toFields_pres rest obj atys m st' hrest hm1 h⟩
      intro ty hl
      have hkeep : st'.attrs.lookup f.info.nameSnake = m.attrs.lookup f.info.nameSnake :=
        copyToFields_frame rest obj atys m st' h _ (fun g hg => (hne g hg).symm)
      rw [hkeep]
      exact toField_pres f obj atys st m ty hl (hf ty hl) (hvf ty hl) hm

theorem toField_pres : ∀ (f : Field) (obj : GoVal) (atys : Option (List (String × TfTy))) (st st' : ToSt) (ty : TfTy),
    (atys.getD []).lookup f.info.nameSnake = some ty → TyOK f ty → CurOK f ty (st.attrs.lookup f.info.nameSnake) →
    copyToField f obj atys st = .ok st' → CurOK f ty (st'.attrs.lookup f.info.nameSnake)
  | ⟨info, mv, msg, sub⟩, obj, atys, st, st', ty, hl, hty, hcur, h => by
    simp only [copyToField] at h
    simp only at hl hcur ⊢
    unfold CurOK at hcur ⊢
    unfold TyOK at hty
    cases hk : info.kind <;> simp only [hk] at hcur hty ⊢
    intro oty u n as tys hty' hc
    subst hty'
    obtain ⟨n', as', tys', hlk, hR⟩ :=
      toFieldWith_pres (fun o a s => copyToFields sub o a s) (fun tys attrs => TysOK sub tys ∧ AttrsOK sub tys attrs)
        (fun o tys attrs ds hs s' hR hrun => ⟨hR.1, toFields_pres sub o tys _ s' hR.1 hR.2 hrun⟩)
        info msg sub.isEmpty obj atys st st' oty hk hl ⟨hty oty rfl, attrsOK_nil sub oty⟩
        (fun u n as tys hc => hcur oty u n as tys rfl hc) h
    rw [hlk] at hc
    injection hc with hc
    injection hc with _ _ h1 h2
    subst h1 h2
    exact hR

end

/-- **the result of a call is a harmless target again**: calls can be iterated on the object they return (C08 / C09) and
never panic -/
theorem copyTo_result_attrsOK (m : Msg) (obj : GoVal) (u n : Bool) (as : Option (List (String × TfVal)))
    (atys : Option (List (String × TfTy))) (h : TysOK m.fields atys) (hv : AttrsOK m.fields atys (as.getD []))
    (r : ToResult) (hr : copyTo m obj (.obj u n as atys) = .ok r) :
    ∃ attrs', r.tf = .obj false false (some attrs') atys ∧ AttrsOK m.fields atys attrs' := by
  unfold copyTo at hr
  simp only [] at hr
  cases hrun : copyToFields m.fields obj atys { attrs := as.getD [] } with
  | panic w => rw [hrun] at hr; cases hr
  | stuck w => rw [hrun] at hr; cases hr
  | ok st =>
    rw [hrun] at hr
    injection hr with hr
    subst hr
    exact ⟨st.attrs, rfl, toFields_pres m.fields obj atys _ st h hv hrun⟩

/-- two calls in a row (any two struct values): the second never panics -/
theorem copyTo_twice_noPanic (m : Msg) (obj obj' : GoVal) (u n : Bool) (as : Option (List (String × TfVal)))
    (atys : Option (List (String × TfTy))) (h : TysOK m.fields atys) (hv : AttrsOK m.fields atys (as.getD []))
    (r : ToResult) (hr : copyTo m obj (.obj u n as atys) = .ok r) (w : String) : copyTo m obj' r.tf ≠ .panic w := by
  obtain ⟨attrs', htf, hok⟩ := copyTo_result_attrsOK m obj u n as atys h hv r hr
  rw [htf]
  exact copyTo_noPanic_any m obj' false false (some attrs') atys h hok w

end PGT

#print axioms PGT.copyTo_noPanic_any
#print axioms PGT.copyTo_noPanic_anyTarget
#print axioms PGT.copyTo_noPanic_of_any
#print axioms PGT.copyTo_noPanic_matching
#print axioms PGT.copyTo_noPanic_shaped
#print axioms PGT.copyTo_noPanic_checked
#print axioms PGT.copyTo_noPanic_any_full_false
#print axioms PGT.copyTo_any_witness_panics
#print axioms PGT.copyTo_any_witness2_run
#print axioms PGT.copyTo_diag_half
#print axioms PGT.copyTo_result_attrsOK
#print axioms PGT.copyTo_twice_noPanic
#print axioms PGT.attrsOKb_iff
#print axioms PGT.tysOKb_iff
