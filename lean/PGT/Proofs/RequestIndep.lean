import PGT.Model.Build
import PGT.Model.Schema
import PGT.Proofs.BuildErrors
import PGT.Props.C12

/-
P21 / C12 - the IR of a selected type does not depend on unrelated messages and dependency files of the request.

WHAT THE BUILD READS FROM THE REQUEST
  * `buildMessage` / `buildFieldCore` : only `req.findMessage f.typeName`, and only for a non-map field whose Terraform
    type is a message type (then the field's proto tag is MESSAGE: `tf_isMessage_refTag`). No enum lookups, no file names,
    no packages / go package names, no positions.                       `coreStep_req_congr`, `build_reads_only_findMessage`
  * `buildRoot` additionally            : `defaultFuel req = 3 * (number of messages of all files) + 4`
  * `buildRoots` additionally           : the list of all messages (dependencies first, then the generated file)
  `findMessage` compares BARE names (`MsgD.name`), first match, generated file first, then the dependencies in order.

  1. `msgNames` / `occNames`, `build_req_congr`    requests that resolve every reachable type name alike build the same IR /
                                                   the same error, for every fuel
  2. `ReqLe`, `Weak`, `Le`, `build_le`             a request that resolves more, with at least as much fuel: same result unless
     `build_le_ok`, `build_le_error`,              the old result is the fuel bound or an unknown-message error that the new
     `fuel_stable`, `buildRoot_le`                 request resolves
  3. `extend`, `noClash`, `findMessage_extend…`,   extension by extra file messages and dependency files; `buildRoot` of an old
     `reqLe_extend`, `defaultFuel_extend`,         message is unchanged (IR, error, or "not selected") except for the two
     `extend_buildRoot`, `extend_buildRoot_ok`,    repairable errors
     `extend_buildRoot_error`, `extend_buildMessage_eq`, `extend_buildRoot_unreferenced`
  4. `buildRoots_extend_unselected`,               extras not selected: `buildRoots` is literally the same pair; extras selected:
     `buildRoots_extend_old_roots`                 the roots with old names are the old roots, same order, also under `sort`
     (`filter_sortMsgs`)
  5. `Example`                                     a concrete request / extension (hypotheses by `decide`), and two concrete
                                                   requests where the repairable errors are in fact repaired
  6. `extend_buildRoot_full`, `buildRoots_extend_unselected_full` and their refutations: the unconditional statements are false
     because `defaultFuel` grows with the request (witness: a cyclic request whose cycle is cut by an exclusion). On acyclic
     requests the fuel bound is never visible: `PGT/Proofs/FuelEnough.lean`.
-/

namespace PGT.Proofs.RequestIndep
open PGT PGT.Proofs.BuildErrors

/-- the descriptor-level test that decides whether `buildFieldCore` may look the field's type name up: the field's proto
tag (as a non-map field) is `MESSAGE` (proto types `message`, `timestamp`, `duration`, or a type string that upper-cases
to "MESSAGE") -/
def refTag (f : FieldD) : Bool := f.protoTag false == "MESSAGE"

theorem rows_isMessage : ∀ r ∈ Generated.typeRows, r.isMessage = true → r.kind = "message" := by decide

theorem bases_not_message : ∀ b ∈ Generated.bases, b.isMessage = false := by decide

theorem tf_isMessage_refTag (cfg : CfgView) (f : FieldD) (isRep : Bool) (goType path : String) (tf : TfType)
    (h : getTerraformType cfg f false isRep goType path = .ok tf) (hm : tf.isMessage = true) : refTag f = true := by
  unfold getTerraformType at h
  cases hrow : Generated.typeRows.find? (rowMatches cfg f false) with
  | none => simp [hrow] at h
  | some r =>
    have hmem := List.mem_of_find?_eq_some hrow
    have hp := List.find?_some hrow
    simp only [hrow] at h
    by_cases hk1 : (r.kind == "time") = true
    · simp only [hk1, if_true] at h
      cases htt : cfg.timeType with
      | none => simp [htt] at h
      | some s =>
        simp only [htt] at h
        injection h with h
        subst h
        revert hm
        repeat' split
        all_goals simp [tfTypeOfConfig]
    · by_cases hk2 : (r.kind == "duration") = true
      · simp only [hk1, hk2, if_true] at h
        cases htt : cfg.durationType with
        | none => simp [htt] at h
        | some s =>
          simp only [htt] at h
          injection h with h
          subst h
          revert hm
          repeat' split
          all_goals simp [tfTypeOfConfig]
      · by_cases hk3 : (r.kind == "default") = true
        · simp [hk1, hk2, hk3] at h
        · simp only [hk1, hk2, hk3] at h
          cases hb : Generated.bases.find? (·.name == r.base) with
          | none => simp [hb] at h
          | some b =>
            have hbm := bases_not_message b (List.mem_of_find?_eq_some hb)
            simp only [hb] at h
            have hrm : r.isMessage = true := by
              cases hrm : r.isMessage with
              | true => rfl
              | false =>
                exfalso
                simp only [hrm] at h
                injection h with h
                subst h
                revert hm
                repeat' split
                all_goals first | contradiction | simp [tfTypeOfBase, hbm]
            have hkind := rows_isMessage r hmem hrm
            simp only [rowMatches, hkind] at hp
            simpa [refTag] using hp

theorem refTag_mapValueField (f : FieldD) : refTag f.mapValueField = refTag f := rfl

/-! ## 1. congruence in the request -/

mutual
/-- the message type names `buildMessage n · req d · ·` can ask the request for (a configuration-independent
over-approximation: the type name of every field occurrence whose proto tag is MESSAGE, transitively through what `req`
resolves them to) -/
def msgNames : Nat → Request → MsgD → List String
  | 0, _, _ => []
  | n + 1, req, d => d.fields.flatMap fun f => occNames n req f (f.card == .map)
/-- the names `buildFieldCore n · req · f · · isMap · ·` can ask for: a map field delegates to its value field (one unit of
fuel less); a non-map field with MESSAGE tag asks for its own type name and then for those below the message it resolves to -/
def occNames : Nat → Request → FieldD → Bool → List String
  | 0, _, _, _ => []
  | n + 1, req, f, isMap =>
    if isMap then occNames n req f.mapValueField false
    else if refTag f then
      f.typeName :: (match req.findMessage f.typeName with
                     | none => []
                     | some d => msgNames n req d)
    else []
end

theorem mem_msgNames {n : Nat} {req : Request} {d : MsgD} {f : FieldD} {x : String}
    (hf : f ∈ d.fields) (hx : x ∈ occNames n req f (f.card == .map)) : x ∈ msgNames (n + 1) req d := by
  rw [msgNames]
  exact List.mem_flatMap.mpr ⟨f, hf, hx⟩

theorem mem_occNames_value {n : Nat} {req : Request} {f : FieldD} {x : String}
    (hx : x ∈ occNames n req f.mapValueField false) : x ∈ occNames (n + 1) req f true := by
  rw [occNames]
  simpa using hx

theorem mem_occNames_self {n : Nat} {req : Request} {f : FieldD} (ht : refTag f = true) :
    f.typeName ∈ occNames (n + 1) req f false := by
  rw [occNames]
  simp [ht]

theorem mem_occNames_nested {n : Nat} {req : Request} {f : FieldD} {d : MsgD} {x : String} (ht : refTag f = true)
    (hfind : req.findMessage f.typeName = some d) (hx : x ∈ msgNames n req d) :
    x ∈ occNames (n + 1) req f false := by
  rw [occNames]
  simp [ht, hfind, hx]

/-- **One block.** `coreStep` reads the request only through `findMessage f.typeName`, and only when the field is not a
map field and its Terraform type is a message type. -/
theorem coreStep_req_congr (cfg : CfgView) (req req' : Request) (ctx : MsgCtx) (f : FieldD) (keys : Keys)
    (goType : String) (isMap isRep hasComment : Bool)
    (bm bm' : MsgD → Except BuildError Msg) (bv bv' : Except BuildError (List Field))
    (hfind : isMap = false → ∀ tf, getTerraformType cfg f isMap isRep goType keys.path = .ok tf → tf.isMessage = true →
        req'.findMessage f.typeName = req.findMessage f.typeName)
    (hbm : isMap = false → ∀ tf, getTerraformType cfg f isMap isRep goType keys.path = .ok tf → tf.isMessage = true →
        ∀ d, req.findMessage f.typeName = some d → bm' d = bm d)
    (hbv : isMap = true → bv' = bv) :
    coreStep cfg req' ctx f keys goType isMap isRep hasComment bm' bv' =
    coreStep cfg req ctx f keys goType isMap isRep hasComment bm bv := by
  unfold coreStep
  cases hex : cfg.excluded keys with
  | true => simp only [if_true]
  | false =>
    cases htf : getTerraformType cfg f isMap isRep goType keys.path with
    | error e => simp only []
    | ok tf =>
      cases isMap with
      | true =>
        have := hbv rfl
        subst this
        simp only [Bool.not_true, Bool.and_false, Bool.false_eq_true, if_false]
      | false =>
        cases hm : tf.isMessage with
        | false => simp only [hm, Bool.false_and, Bool.false_eq_true, if_false]
        | true =>
          have h1 := hfind rfl tf htf hm
          rw [h1]
          cases hf : req.findMessage f.typeName with
          | none => simp only [Bool.false_eq_true, if_false]
          | some d =>
            have h2 := hbm rfl tf htf hm d hf
            simp only [h2, Bool.false_eq_true, if_false]

/-- **Congruence in the request.** Two requests that resolve every reachable message type name in the same way build the
same IR - same fields, same errors - for every fuel. -/
theorem build_req_congr (cfg : CfgView) (req req' : Request) : ∀ n : Nat,
    (∀ desc isRoot path, (∀ x ∈ msgNames n req desc, req'.findMessage x = req.findMessage x) →
        buildMessage n cfg req' desc isRoot path = buildMessage n cfg req desc isRoot path) ∧
    (∀ ctx f keys goType isMap isRep hasComment, (∀ x ∈ occNames n req f isMap, req'.findMessage x = req.findMessage x) →
        buildFieldCore n cfg req' ctx f keys goType isMap isRep hasComment =
        buildFieldCore n cfg req ctx f keys goType isMap isRep hasComment) := by
  intro n
  induction n with
  | zero =>
    constructor
    · intro desc isRoot path _; rw [buildMessage_zero, buildMessage_zero]
    · intro ctx f keys goType isMap isRep hc _; rw [buildFieldCore_zero, buildFieldCore_zero]
  | succ n ih =>
    obtain ⟨ihM, ihF⟩ := ih
    constructor
    · intro desc isRoot path hk
      rw [buildMessage_succ, buildMessage_succ]
      congr 1
      congr 1
      apply List.map_congr_left
      intro f hf
      simp only [fieldCall]
      exact ihF _ f _ _ _ _ _ (fun x hx => hk x (mem_msgNames hf hx))
    · intro ctx f keys goType isMap isRep hc hk
      rw [buildFieldCore_succ, buildFieldCore_succ]
      refine coreStep_req_congr cfg req req' ctx f keys goType isMap isRep hc _ _ _ _ ?_ ?_ ?_
      · intro hm tf htf hmsg
        subst hm
        exact hk _ (mem_occNames_self (tf_isMessage_refTag cfg f isRep goType keys.path tf htf hmsg))
      · intro hm tf htf hmsg d hfind
        subst hm
        have ht := tf_isMessage_refTag cfg f isRep goType keys.path tf htf hmsg
        exact ihM d false keys.path (fun x hx => hk x (mem_occNames_nested ht hfind hx))
      · intro hm
        subst hm
        exact ihF ctx f.mapValueField keys _ false false false (fun x hx => hk x (mem_occNames_value hx))

/-- `buildMessage` reads the request through `findMessage` only (not the file names, packages, enums, nor the position of a
message in the request) -/
theorem build_reads_only_findMessage (cfg : CfgView) (req req' : Request)
    (h : ∀ x, req'.findMessage x = req.findMessage x) (fuel : Nat) (desc : MsgD) (isRoot : Bool) (path : String) :
    buildMessage fuel cfg req' desc isRoot path = buildMessage fuel cfg req desc isRoot path :=
  (build_req_congr cfg req req' fuel).1 desc isRoot path (fun x _ => h x)

/-! ## 2. a request that resolves more names, and more fuel -/

/-- `req'` resolves every name `req` resolves, to the same message -/
def ReqLe (req req' : Request) : Prop := ∀ x d, req.findMessage x = some d → req'.findMessage x = some d

/-- the two errors that a larger request can repair: the fuel bound, and a reference that `req` does not resolve
but `req'` does -/
def Weak (req req' : Request) (e : BuildError) : Prop :=
  e = .recursionLimit ∨ ∃ x, e = .unknownMessage x ∧ req.findMessage x = none ∧ req'.findMessage x ≠ none

/-- `y` is `x`, unless `x` is a repairable error -/
def Le {α} (req req' : Request) (x y : Except BuildError α) : Prop :=
  x = y ∨ ∃ e, Weak req req' e ∧ x = .error e

theorem coreStep_le (cfg : CfgView) (req req' : Request) (hreq : ReqLe req req') (ctx : MsgCtx) (f : FieldD) (keys : Keys)
    (goType : String) (isMap isRep hasComment : Bool)
    (bm bm' : MsgD → Except BuildError Msg) (bv bv' : Except BuildError (List Field))
    (hbm : ∀ d, Le req req' (bm d) (bm' d)) (hbv : Le req req' bv bv') :
    Le req req' (coreStep cfg req ctx f keys goType isMap isRep hasComment bm bv)
      (coreStep cfg req' ctx f keys goType isMap isRep hasComment bm' bv') := by
  unfold coreStep
  cases hex : cfg.excluded keys with
  | true => exact Or.inl (by simp only [if_true])
  | false =>
    cases htf : getTerraformType cfg f isMap isRep goType keys.path with
    | error e => exact Or.inl (by simp only [])
    | ok tf =>
      cases isMap with
      | true =>
        by_cases hk : scalarGoType f.mapKey = "string"
        · rcases hbv with heq | ⟨e, hw, he⟩
          · subst heq
            exact Or.inl (by simp only [Bool.not_true, Bool.and_false, Bool.false_eq_true, if_false])
          · subst he
            exact Or.inr ⟨e, hw, by simp [hk]⟩
        · exact Or.inl (by simp [hk])
      | false =>
        cases hm : tf.isMessage with
        | false => exact Or.inl (by simp only [hm, Bool.false_and, Bool.false_eq_true, if_false])
        | true =>
          cases hf : req.findMessage f.typeName with
          | none =>
            cases hf' : req'.findMessage f.typeName with
            | none => exact Or.inl (by simp only [Bool.false_eq_true, if_false])
            | some d' =>
              exact Or.inr ⟨.unknownMessage f.typeName, Or.inr ⟨_, rfl, hf, by simp [hf']⟩, by simp [hm]⟩
          | some d =>
            rw [hreq _ _ hf]
            rcases hbm d with heq | ⟨e, hw, he⟩
            · exact Or.inl (by simp only [heq, Bool.false_eq_true, if_false])
            · exact Or.inr ⟨e, hw, by simp [he, hm]⟩

theorem msgStep_le (cfg : CfgView) (req req' : Request) (desc : MsgD) (isRoot : Bool) (path : String)
    (c c' : Except BuildError (List Field)) (h : Le req req' c c') :
    Le req req' (msgStep cfg desc isRoot path c) (msgStep cfg desc isRoot path c') := by
  rcases h with heq | ⟨e, hw, he⟩
  · exact Or.inl (by rw [heq])
  · subst he
    unfold msgStep
    cases hemp : desc.fields.isEmpty with
    | true => exact Or.inl (by simp only [if_true])
    | false => exact Or.inr ⟨e, hw, by simp⟩

theorem collect_le {α β} (req req' : Request) (g g' : β → Except BuildError (List α)) (l : List β)
    (hg : ∀ x ∈ l, Le req req' (g x) (g' x)) :
    Le req req' (collectFields (l.map g)) (collectFields (l.map g')) := by
  induction l with
  | nil => exact Or.inl rfl
  | cons a rest ih =>
    simp only [List.map]
    rcases hg a (by simp) with heq | ⟨e, hw, he⟩
    · rw [← heq]
      cases ha : g a with
      | error e => exact Or.inl (by simp only [collectFields])
      | ok fs =>
        rcases ih (fun y hy => hg y (by simp [hy])) with hr | ⟨e, hw, he⟩
        · exact Or.inl (by simp only [collectFields, hr])
        · exact Or.inr ⟨e, hw, by simp only [collectFields, he]⟩
    · exact Or.inr ⟨e, hw, by simp only [he, collectFields]⟩

/-- **Extension and fuel.** If `req'` resolves every name `req` resolves (to the same message), then the result of a
build under `req'` with at least as much fuel is the result under `req` - the same IR or the same error - unless the
result under `req` is the fuel bound or an unknown-message error for a name that `req'` newly resolves. -/
theorem build_le (cfg : CfgView) (req req' : Request) (hreq : ReqLe req req') (k : Nat) : ∀ n : Nat,
    (∀ desc isRoot path,
        Le req req' (buildMessage n cfg req desc isRoot path) (buildMessage (n + k) cfg req' desc isRoot path)) ∧
    (∀ ctx f keys goType isMap isRep hasComment,
        Le req req' (buildFieldCore n cfg req ctx f keys goType isMap isRep hasComment)
          (buildFieldCore (n + k) cfg req' ctx f keys goType isMap isRep hasComment)) := by
  intro n
  induction n with
  | zero =>
    constructor
    · intro desc isRoot path
      exact Or.inr ⟨.recursionLimit, Or.inl rfl, buildMessage_zero ..⟩
    · intro ctx f keys goType isMap isRep hc
      exact Or.inr ⟨.recursionLimit, Or.inl rfl, buildFieldCore_zero ..⟩
  | succ n ih =>
    obtain ⟨ihM, ihF⟩ := ih
    have hnk : n + 1 + k = (n + k) + 1 := by omega
    constructor
    · intro desc isRoot path
      rw [hnk, buildMessage_succ, buildMessage_succ]
      apply msgStep_le
      apply collect_le
      intro f _
      exact ihF _ f _ _ _ _ _
    · intro ctx f keys goType isMap isRep hc
      rw [hnk, buildFieldCore_succ, buildFieldCore_succ]
      exact coreStep_le cfg req req' hreq ctx f keys goType isMap isRep hc _ _ _ _
        (fun d => ihM d false keys.path) (ihF ctx f.mapValueField keys _ false false false)

theorem Le.ok {α} {req req' : Request} {x y : Except BuildError α} (h : Le req req' x y) {a : α} (hx : x = .ok a) :
    y = .ok a := by
  rcases h with heq | ⟨e, _, he⟩
  · rw [← heq, hx]
  · rw [hx] at he; cases he

theorem Le.error {α} {req req' : Request} {x y : Except BuildError α} (h : Le req req' x y) {e : BuildError}
    (hx : x = .error e) (hw : ¬ Weak req req' e) : y = .error e := by
  rcases h with heq | ⟨e', hw', he⟩
  · rw [← heq, hx]
  · rw [hx] at he; injection he with he; subst he; exact absurd hw' hw

/-- a successful build is unchanged by a larger request and more fuel -/
theorem build_le_ok (cfg : CfgView) (req req' : Request) (hreq : ReqLe req req') (n k : Nat) (desc : MsgD) (isRoot : Bool)
    (path : String) (m : Msg) (h : buildMessage n cfg req desc isRoot path = .ok m) :
    buildMessage (n + k) cfg req' desc isRoot path = .ok m :=
  ((build_le cfg req req' hreq k n).1 desc isRoot path).ok h

/-- an error other than the two repairable ones is unchanged by a larger request and more fuel -/
theorem build_le_error (cfg : CfgView) (req req' : Request) (hreq : ReqLe req req') (n k : Nat) (desc : MsgD) (isRoot : Bool)
    (path : String) (e : BuildError) (h : buildMessage n cfg req desc isRoot path = .error e) (hw : ¬ Weak req req' e) :
    buildMessage (n + k) cfg req' desc isRoot path = .error e :=
  ((build_le cfg req req' hreq k n).1 desc isRoot path).error h hw

/-- **Fuel stability** (same request): the result at fuel `n` is the result at every larger fuel, errors included, unless
it is the fuel bound itself -/
theorem fuel_stable (cfg : CfgView) (req : Request) (n k : Nat) (desc : MsgD) (isRoot : Bool) (path : String) :
    buildMessage n cfg req desc isRoot path = buildMessage (n + k) cfg req desc isRoot path ∨
    buildMessage n cfg req desc isRoot path = .error .recursionLimit := by
  rcases (build_le cfg req req (fun _ _ h => h) k n).1 desc isRoot path with heq | ⟨e, hw, he⟩
  · exact Or.inl heq
  · rcases hw with hr | ⟨x, _, h1, h2⟩
    · subst hr; exact Or.inr he
    · exact absurd h1 h2

/-- `buildRoot` under a larger request (which also means a larger default fuel) -/
theorem buildRoot_le (cfg : Config) (req req' : Request) (hreq : ReqLe req req')
    (hfuel : defaultFuel req ≤ defaultFuel req') (desc : MsgD) :
    Le req req' (buildRoot cfg req desc) (buildRoot cfg req' desc) := by
  obtain ⟨k, hk⟩ := Nat.exists_eq_add_of_le hfuel
  unfold buildRoot
  cases hsel : cfg.types.contains desc.name with
  | false => exact Or.inl (by simp only [Bool.not_false, if_true])
  | true =>
    simp only [Bool.not_true, Bool.false_eq_true, if_false]
    rw [hk]
    rcases (build_le (viewOf cfg) req req' hreq k (defaultFuel req)).1 desc true "" with heq | ⟨e, hw, he⟩
    · exact Or.inl (by rw [heq])
    · exact Or.inr ⟨e, hw, by rw [he]⟩

/-! ## 3. extending a request by unrelated messages and dependency files -/

/-- all messages of the request, in the order `buildRoots` visits them (dependencies first, then the generated file) -/
def allMsgs (req : Request) : List MsgD := req.allFiles.flatMap (·.messages)

/-- `req` with the extra messages `xs` appended to the generated file and the extra dependency files `ds` appended to the
dependencies -/
def extend (req : Request) (xs : List MsgD) (ds : List FileD) : Request :=
  { deps := req.deps ++ ds, file := { req.file with messages := req.file.messages ++ xs } }

/-- the messages an extension adds -/
def newMsgs (xs : List MsgD) (ds : List FileD) : List MsgD := xs ++ ds.flatMap (·.messages)

def newNames (xs : List MsgD) (ds : List FileD) : List String := (newMsgs xs ds).map (·.name)

/-- the (decidable) no-clash condition: no added message has the bare name of a message of `req`. `findMessage` compares
bare names (`MsgD.name`) and takes the first match in the order: generated file, then the dependencies in request order. -/
def noClash (req : Request) (xs : List MsgD) (ds : List FileD) : Bool :=
  (newMsgs xs ds).all fun m => (allMsgs req).all fun o => o.name != m.name

/-- the search order of `findMessage` in an extended request: old messages of the file, the extra messages of the file,
the old dependencies, the extra dependencies -/
theorem findMessage_extend (req : Request) (xs : List MsgD) (ds : List FileD) (x : String) :
    (extend req xs ds).findMessage x =
      ((req.file.messages.find? (·.name == x)).or
        ((xs.find? (·.name == x)).or
          (((req.deps.flatMap (·.messages)).find? (·.name == x)).or
            ((ds.flatMap (·.messages)).find? (·.name == x))))) := by
  simp only [Request.findMessage, extend, List.flatMap_append, List.find?_append, Option.or_assoc]

theorem findMessage_eq (req : Request) (x : String) :
    req.findMessage x =
      (req.file.messages.find? (·.name == x)).or ((req.deps.flatMap (·.messages)).find? (·.name == x)) := by
  simp only [Request.findMessage, List.find?_append]

theorem find_none_of_not_mem (l : List MsgD) (x : String) (h : x ∉ l.map (·.name)) : l.find? (·.name == x) = none := by
  rw [List.find?_eq_none]
  intro m hm hx
  exact h (List.mem_map.mpr ⟨m, hm, by simpa using hx⟩)

/-- a name that no added message carries is resolved exactly as before -/
theorem findMessage_extend_of_not_new (req : Request) (xs : List MsgD) (ds : List FileD) (x : String)
    (h : x ∉ newNames xs ds) : (extend req xs ds).findMessage x = req.findMessage x := by
  have h1 : xs.find? (·.name == x) = none :=
    find_none_of_not_mem xs x (fun hx => h (by simp only [newNames, newMsgs, List.map_append, List.mem_append]; exact Or.inl hx))
  have h2 : (ds.flatMap (·.messages)).find? (·.name == x) = none :=
    find_none_of_not_mem _ x (fun hx => h (by simp only [newNames, newMsgs, List.map_append, List.mem_append]; exact Or.inr hx))
  rw [findMessage_extend, findMessage_eq, h1, h2]
  simp

/-- a name `req` does not resolve is looked up among the added messages (file messages first) -/
theorem findMessage_extend_of_unresolved (req : Request) (xs : List MsgD) (ds : List FileD) (x : String)
    (h : req.findMessage x = none) : (extend req xs ds).findMessage x = (newMsgs xs ds).find? (·.name == x) := by
  rw [findMessage_eq] at h
  have h1 : req.file.messages.find? (·.name == x) = none := by
    cases hh : req.file.messages.find? (·.name == x) with
    | none => rfl
    | some d => rw [hh] at h; simp at h
  have h2 : (req.deps.flatMap (·.messages)).find? (·.name == x) = none := by
    rw [h1] at h; simpa using h
  rw [findMessage_extend, h1, h2]
  simp [newMsgs, List.find?_append]

theorem mem_allMsgs (req : Request) (m : MsgD) :
    m ∈ allMsgs req ↔ m ∈ req.file.messages ∨ m ∈ req.deps.flatMap (·.messages) := by
  simp only [allMsgs, Request.allFiles, List.flatMap_append, List.mem_append, List.flatMap_cons, List.flatMap_nil,
    List.append_nil]
  exact Or.comm

/-- every name `req` resolves is the name of one of its messages -/
theorem resolved_is_old (req : Request) (x : String) (d : MsgD) (h : req.findMessage x = some d) :
    d ∈ allMsgs req ∧ d.name = x := by
  unfold Request.findMessage at h
  have h1 := List.mem_of_find?_eq_some h
  have h2 := List.find?_some h
  refine ⟨(mem_allMsgs req d).mpr (by simpa using h1), by simpa using h2⟩

theorem noClash_spec {req : Request} {xs : List MsgD} {ds : List FileD} (h : noClash req xs ds = true)
    {o : MsgD} (ho : o ∈ allMsgs req) : o.name ∉ newNames xs ds := by
  intro hn
  obtain ⟨m, hm, hmn⟩ := List.mem_map.mp hn
  have := List.all_eq_true.mp (List.all_eq_true.mp h m hm) o ho
  simp [hmn] at this

/-- under no-clash a resolved name is not a new name -/
theorem resolved_not_new {req : Request} {xs : List MsgD} {ds : List FileD} (h : noClash req xs ds = true)
    {x : String} {d : MsgD} (hx : req.findMessage x = some d) : x ∉ newNames xs ds := by
  obtain ⟨hd, hn⟩ := resolved_is_old req x d hx
  exact hn ▸ noClash_spec h hd

/-- **No-clash extension resolves every old name as before.** -/
theorem reqLe_extend {req : Request} {xs : List MsgD} {ds : List FileD} (h : noClash req xs ds = true) :
    ReqLe req (extend req xs ds) := by
  intro x d hx
  rw [findMessage_extend_of_not_new req xs ds x (resolved_not_new h hx), hx]

theorem allMsgs_extend (req : Request) (xs : List MsgD) (ds : List FileD) :
    allMsgs (extend req xs ds) =
      req.deps.flatMap (·.messages) ++ ds.flatMap (·.messages) ++ req.file.messages ++ xs := by
  simp [allMsgs, Request.allFiles, extend, List.flatMap_append]

theorem allMsgs_eq (req : Request) : allMsgs req = req.deps.flatMap (·.messages) ++ req.file.messages := by
  simp [allMsgs, Request.allFiles, List.flatMap_append]

/-- the default fuel grows by three units per added message -/
theorem defaultFuel_extend (req : Request) (xs : List MsgD) (ds : List FileD) :
    defaultFuel (extend req xs ds) = defaultFuel req + 3 * (newMsgs xs ds).length := by
  have h1 : defaultFuel (extend req xs ds) = 3 * (allMsgs (extend req xs ds)).length + 4 := rfl
  have h2 : defaultFuel req = 3 * (allMsgs req).length + 4 := rfl
  rw [h1, h2, allMsgs_extend, allMsgs_eq]
  simp only [newMsgs, List.length_append]
  omega

/-- the errors an extension can repair: the fuel bound, and an unknown-message error for one of the added names -/
theorem weak_extend {req : Request} {xs : List MsgD} {ds : List FileD} {e : BuildError}
    (h : Weak req (extend req xs ds) e) : e = .recursionLimit ∨ ∃ x ∈ newNames xs ds, e = .unknownMessage x := by
  rcases h with hr | ⟨x, he, h1, h2⟩
  · exact Or.inl hr
  · refine Or.inr ⟨x, ?_, he⟩
    by_cases hx : x ∈ newNames xs ds
    · exact hx
    · rw [findMessage_extend_of_not_new req xs ds x hx] at h2
      exact absurd h1 h2

theorem defaultFuel_le_extend (req : Request) (xs : List MsgD) (ds : List FileD) :
    defaultFuel req ≤ defaultFuel (extend req xs ds) := by
  rw [defaultFuel_extend]; omega

/-- **Extension, all cases.** Under no-clash the result of `buildRoot` for a message of the old request is unchanged by
the extension - same IR, same error, or "not selected" - unless the old result is the fuel bound (the extended request has
more default fuel) or an unknown-message error for one of the added names (a dangling reference the extension resolves). -/
theorem extend_buildRoot (cfg : Config) (req : Request) (xs : List MsgD) (ds : List FileD)
    (hc : noClash req xs ds = true) (desc : MsgD) :
    buildRoot cfg (extend req xs ds) desc = buildRoot cfg req desc ∨
    buildRoot cfg req desc = .error .recursionLimit ∨
    ∃ x ∈ newNames xs ds, buildRoot cfg req desc = .error (.unknownMessage x) := by
  rcases buildRoot_le cfg req (extend req xs ds) (reqLe_extend hc) (defaultFuel_le_extend req xs ds) desc with
    heq | ⟨e, hw, he⟩
  · exact Or.inl heq.symm
  · rcases weak_extend hw with hr | ⟨x, hx, hr⟩
    · subst hr; exact Or.inr (Or.inl he)
    · subst hr; exact Or.inr (Or.inr ⟨x, hx, he⟩)

/-- successful case: the IR of a selected type is the same in the extended request -/
theorem extend_buildRoot_ok (cfg : Config) (req : Request) (xs : List MsgD) (ds : List FileD)
    (hc : noClash req xs ds = true) (desc : MsgD) (r : Option Msg) (h : buildRoot cfg req desc = .ok r) :
    buildRoot cfg (extend req xs ds) desc = .ok r := by
  rcases extend_buildRoot cfg req xs ds hc desc with heq | hr | ⟨x, _, hr⟩
  · rw [heq, h]
  · rw [h] at hr; cases hr
  · rw [h] at hr; cases hr

/-- error case: every error other than the fuel bound and a dangling reference to an added name is reported unchanged -/
theorem extend_buildRoot_error (cfg : Config) (req : Request) (xs : List MsgD) (ds : List FileD)
    (hc : noClash req xs ds = true) (desc : MsgD) (e : BuildError) (h : buildRoot cfg req desc = .error e)
    (h1 : e ≠ .recursionLimit) (h2 : ∀ x ∈ newNames xs ds, e ≠ .unknownMessage x) :
    buildRoot cfg (extend req xs ds) desc = .error e := by
  rcases extend_buildRoot cfg req xs ds hc desc with heq | hr | ⟨x, hx, hr⟩
  · rw [heq, h]
  · rw [h] at hr; injection hr with hr; exact absurd hr h1
  · rw [h] at hr; injection hr with hr; exact absurd hr (h2 x hx)

/-- **Extension by unreferenced names (fixed fuel).** If none of the reachable type names is the name of an added message,
`buildMessage` gives the same result - errors included - under the extended request (no-clash is not needed here) -/
theorem extend_buildMessage_eq (cfg : CfgView) (req : Request) (xs : List MsgD) (ds : List FileD) (fuel : Nat)
    (desc : MsgD) (isRoot : Bool) (path : String) (h : ∀ x ∈ msgNames fuel req desc, x ∉ newNames xs ds) :
    buildMessage fuel cfg (extend req xs ds) desc isRoot path = buildMessage fuel cfg req desc isRoot path :=
  (build_req_congr cfg req (extend req xs ds) fuel).1 desc isRoot path
    (fun x hx => findMessage_extend_of_not_new req xs ds x (h x hx))

/-- the same for `buildRoot`: only the fuel bound can change -/
theorem extend_buildRoot_unreferenced (cfg : Config) (req : Request) (xs : List MsgD) (ds : List FileD) (desc : MsgD)
    (h : ∀ x ∈ msgNames (defaultFuel req) req desc, x ∉ newNames xs ds) :
    buildRoot cfg (extend req xs ds) desc = buildRoot cfg req desc ∨
    buildRoot cfg req desc = .error .recursionLimit := by
  unfold buildRoot
  cases hsel : cfg.types.contains desc.name with
  | false => exact Or.inl (by simp only [Bool.not_false, if_true])
  | true =>
    simp only [Bool.not_true, Bool.false_eq_true, if_false]
    have h1 := extend_buildMessage_eq (viewOf cfg) req xs ds (defaultFuel req) desc true "" h
    rw [defaultFuel_extend]
    rcases fuel_stable (viewOf cfg) (extend req xs ds) (defaultFuel req) (3 * (newMsgs xs ds).length) desc true "" with
      h2 | h2
    · rw [← h2, h1]; exact Or.inl rfl
    · rw [h1] at h2; rw [h2]; exact Or.inr rfl

/-! ## 4. the list of roots -/

/-- the built root of a `buildRoot` result -/
def okPart : Except BuildError (Option Msg) → Option Msg
  | .ok (some m) => some m
  | _ => none

/-- the reported name of a failed `buildRoot` result -/
def failPart (n : String) : Except BuildError (Option Msg) → Option String
  | .error _ => some n
  | _ => none

/-- the roots that build, in request order (before the optional sort) -/
def okRoots (cfg : Config) (req : Request) (l : List MsgD) : List Msg := l.filterMap fun d => okPart (buildRoot cfg req d)

def failedRoots (cfg : Config) (req : Request) (l : List MsgD) : List String :=
  l.filterMap fun d => failPart d.name (buildRoot cfg req d)

def sortMsgs (l : List Msg) : List Msg := l.foldr insertMsgByName []

theorem buildRoots_eq (cfg : Config) (req : Request) :
    buildRoots cfg req =
      (if cfg.sort then sortMsgs (okRoots cfg req (allMsgs req)) else okRoots cfg req (allMsgs req),
       failedRoots cfg req (allMsgs req)) := by
  unfold buildRoots okRoots failedRoots sortMsgs allMsgs
  simp only [List.filterMap_map]
  congr 1

/-! ### insertion sort by name commutes with filtering -/

theorem str_trichotomy (a b : String) : a < b ∨ a = b ∨ b < a := by
  by_cases h1 : a < b
  · exact Or.inl h1
  · by_cases h2 : b < a
    · exact Or.inr (Or.inr h2)
    · exact Or.inr (Or.inl (String.le_antisymm (String.not_lt.mp h2) (String.not_lt.mp h1)))

theorem lt_of_lt_of_not_lt {a b c : String} (h1 : a < b) (h2 : ¬ c < b) : a < c := by
  rcases str_trichotomy b c with h | h | h
  · exact String.lt_trans h1 h
  · exact h ▸ h1
  · exact absurd h h2

/-- sorted by name (weakly increasing) -/
def SortedByName (l : List Msg) : Prop := l.Pairwise fun a b => ¬ b.info.name < a.info.name

theorem mem_insertMsgByName (m x : Msg) : ∀ l : List Msg, x ∈ insertMsgByName m l ↔ x = m ∨ x ∈ l
  | [] => by simp [insertMsgByName]
  | g :: gs => by
    simp only [insertMsgByName]
    split
    · simp
    · simp only [List.mem_cons, mem_insertMsgByName m x gs]
      constructor
      · rintro (h | h | h)
        · exact Or.inr (Or.inl h)
        · exact Or.inl h
        · exact Or.inr (Or.inr h)
      · rintro (h | h | h)
        · exact Or.inr (Or.inl h)
        · exact Or.inl h
        · exact Or.inr (Or.inr h)

theorem sorted_insert (m : Msg) : ∀ l : List Msg, SortedByName l → SortedByName (insertMsgByName m l)
  | [], _ => by simp [insertMsgByName, SortedByName]
  | g :: gs, h => by
    have hg : ∀ x ∈ gs, ¬ x.info.name < g.info.name := (List.pairwise_cons.mp h).1
    have hs : SortedByName gs := (List.pairwise_cons.mp h).2
    simp only [insertMsgByName]
    split
    · rename_i hlt
      refine List.pairwise_cons.mpr ⟨?_, h⟩
      intro x hx
      rcases List.mem_cons.mp hx with rfl | hx
      · exact String.lt_asymm hlt
      · intro hxm
        exact hg x hx (String.lt_trans hxm hlt)
    · rename_i hnlt
      refine List.pairwise_cons.mpr ⟨?_, sorted_insert m gs hs⟩
      intro x hx
      rcases (mem_insertMsgByName m x gs).mp hx with rfl | hx
      · exact hnlt
      · exact hg x hx

theorem sorted_sortMsgs : ∀ l : List Msg, SortedByName (sortMsgs l)
  | [] => List.Pairwise.nil
  | m :: l => sorted_insert m _ (sorted_sortMsgs l)

theorem insert_of_lt_all (m : Msg) (l : List Msg) (h : ∀ x ∈ l, m.info.name < x.info.name) :
    insertMsgByName m l = m :: l := by
  cases l with
  | nil => rfl
  | cons g gs => simp [insertMsgByName, h g (by simp)]

theorem filter_insert_neg (p : Msg → Bool) (m : Msg) (hp : p m = false) :
    ∀ l : List Msg, (insertMsgByName m l).filter p = l.filter p
  | [] => by simp [insertMsgByName, hp]
  | g :: gs => by
    simp only [insertMsgByName]
    split
    · simp [List.filter_cons, hp]
    · simp only [List.filter_cons, filter_insert_neg p m hp gs]

theorem filter_insert_pos (p : Msg → Bool) (m : Msg) (hp : p m = true) :
    ∀ l : List Msg, SortedByName l → (insertMsgByName m l).filter p = insertMsgByName m (l.filter p)
  | [], _ => by simp [insertMsgByName, hp]
  | g :: gs, h => by
    have hg : ∀ x ∈ gs, ¬ x.info.name < g.info.name := (List.pairwise_cons.mp h).1
    have hs : SortedByName gs := (List.pairwise_cons.mp h).2
    simp only [insertMsgByName]
    split
    · rename_i hlt
      rw [List.filter_cons_of_pos (by simpa using hp)]
      rw [insert_of_lt_all m ((g :: gs).filter p)]
      intro x hx
      have hx' : x ∈ g :: gs := (List.mem_filter.mp hx).1
      rcases List.mem_cons.mp hx' with rfl | hx'
      · exact hlt
      · exact lt_of_lt_of_not_lt hlt (hg x hx')
    · rename_i hnlt
      have ih := filter_insert_pos p m hp gs hs
      cases hpg : p g with
      | true =>
        rw [List.filter_cons_of_pos (by simpa using hpg), List.filter_cons_of_pos (by simpa using hpg), ih]
        simp only [insertMsgByName, hnlt, if_false]
      | false =>
        rw [List.filter_cons_of_neg (by simp [hpg]), List.filter_cons_of_neg (by simp [hpg]), ih]

/-- filtering the sorted list = sorting the filtered list -/
theorem filter_sortMsgs (p : Msg → Bool) : ∀ l : List Msg, (sortMsgs l).filter p = sortMsgs (l.filter p)
  | [] => rfl
  | m :: l => by
    have ih := filter_sortMsgs p l
    show (insertMsgByName m (sortMsgs l)).filter p = sortMsgs ((m :: l).filter p)
    cases hp : p m with
    | true =>
      rw [filter_insert_pos p m hp _ (sorted_sortMsgs l), ih, List.filter_cons_of_pos (by simpa using hp)]
      rfl
    | false =>
      rw [filter_insert_neg p m hp, ih, List.filter_cons_of_neg (by simp [hp])]

/-! ### roots of an extended request -/

theorem okRoots_append (cfg : Config) (req : Request) (l l' : List MsgD) :
    okRoots cfg req (l ++ l') = okRoots cfg req l ++ okRoots cfg req l' := by
  simp [okRoots, List.filterMap_append]

theorem failedRoots_append (cfg : Config) (req : Request) (l l' : List MsgD) :
    failedRoots cfg req (l ++ l') = failedRoots cfg req l ++ failedRoots cfg req l' := by
  simp [failedRoots, List.filterMap_append]

theorem filterMap_congr' {α β} {f g : α → Option β} : ∀ {l : List α}, (∀ x ∈ l, f x = g x) →
    l.filterMap f = l.filterMap g
  | [], _ => rfl
  | a :: l, h => by
    have ih := filterMap_congr' (l := l) (fun x hx => h x (by simp [hx]))
    simp only [List.filterMap_cons, h a (by simp), ih]

theorem okRoots_congr {cfg cfg' : Config} {req req' : Request} {l : List MsgD}
    (h : ∀ d ∈ l, buildRoot cfg' req' d = buildRoot cfg req d) : okRoots cfg' req' l = okRoots cfg req l := by
  unfold okRoots
  exact filterMap_congr' (fun d hd => by rw [h d hd])

theorem failedRoots_congr {cfg cfg' : Config} {req req' : Request} {l : List MsgD}
    (h : ∀ d ∈ l, buildRoot cfg' req' d = buildRoot cfg req d) : failedRoots cfg' req' l = failedRoots cfg req l := by
  unfold failedRoots
  exact filterMap_congr' (fun d hd => by rw [h d hd])

theorem okRoots_unselected {cfg : Config} {req : Request} {l : List MsgD}
    (h : ∀ d ∈ l, cfg.types.contains d.name = false) : okRoots cfg req l = [] := by
  unfold okRoots
  rw [List.filterMap_eq_nil_iff]
  intro d hd
  rw [PGT.Props.C12.C12_not_selected cfg req d (h d hd)]
  rfl

theorem failedRoots_unselected {cfg : Config} {req : Request} {l : List MsgD}
    (h : ∀ d ∈ l, cfg.types.contains d.name = false) : failedRoots cfg req l = [] := by
  unfold failedRoots
  rw [List.filterMap_eq_nil_iff]
  intro d hd
  rw [PGT.Props.C12.C12_not_selected cfg req d (h d hd)]
  rfl

theorem mem_okRoots {cfg : Config} {req : Request} {l : List MsgD} {m : Msg} :
    m ∈ okRoots cfg req l ↔ ∃ d ∈ l, buildRoot cfg req d = .ok (some m) := by
  unfold okRoots
  rw [List.mem_filterMap]
  constructor
  · rintro ⟨d, hd, h⟩
    refine ⟨d, hd, ?_⟩
    cases hb : buildRoot cfg req d with
    | error e => rw [hb] at h; cases h
    | ok o =>
      cases o with
      | none => rw [hb] at h; cases h
      | some m' => rw [hb] at h; injection h with h; rw [h]
  · rintro ⟨d, hd, h⟩
    exact ⟨d, hd, by rw [h]; rfl⟩

theorem msgStep_name {cfg : CfgView} {desc : MsgD} {isRoot : Bool} {path : String}
    {c : Except BuildError (List Field)} {m : Msg} (h : msgStep cfg desc isRoot path c = .ok m) :
    m.info.name = desc.name := by
  unfold msgStep at h
  cases hemp : desc.fields.isEmpty with
  | true =>
    simp only [hemp, if_true] at h
    injection h with h
    rw [← h]
  | false =>
    cases c with
    | error e => simp [hemp] at h
    | ok fs =>
      simp only [hemp, Bool.false_eq_true, if_false] at h
      injection h with h
      rw [← h]

/-- a built root carries the name of its message -/
theorem buildRoot_name {cfg : Config} {req : Request} {d : MsgD} {m : Msg} (h : buildRoot cfg req d = .ok (some m)) :
    m.info.name = d.name := by
  unfold buildRoot at h
  split at h
  · cases h
  · cases hb : buildMessage (defaultFuel req) (viewOf cfg) req d true "" with
    | error e => rw [hb] at h; cases h
    | ok m' =>
      rw [hb] at h
      injection h with h; injection h with h
      subst h
      obtain ⟨n, hn⟩ : ∃ n, defaultFuel req = n + 1 := ⟨_, rfl⟩
      rw [hn, buildMessage_succ] at hb
      exact msgStep_name hb

/-- **Roots, extras not selected.** If the added messages are not listed in `types` and every message of the old request
has the same `buildRoot` result under the extension, then the plugin builds exactly the same roots (same IRs, same order)
and reports the same failures. -/
theorem buildRoots_extend_of_unselected (cfg : Config) (req : Request) (xs : List MsgD) (ds : List FileD)
    (hsel : ∀ m ∈ newMsgs xs ds, cfg.types.contains m.name = false)
    (hst : ∀ d ∈ allMsgs req, buildRoot cfg (extend req xs ds) d = buildRoot cfg req d) :
    buildRoots cfg (extend req xs ds) = buildRoots cfg req := by
  have hD : ∀ d ∈ req.deps.flatMap (·.messages), buildRoot cfg (extend req xs ds) d = buildRoot cfg req d :=
    fun d hd => hst d ((mem_allMsgs req d).mpr (Or.inr hd))
  have hF : ∀ d ∈ req.file.messages, buildRoot cfg (extend req xs ds) d = buildRoot cfg req d :=
    fun d hd => hst d ((mem_allMsgs req d).mpr (Or.inl hd))
  have hX : ∀ d ∈ xs, cfg.types.contains d.name = false :=
    fun d hd => hsel d (by simp only [newMsgs, List.mem_append]; exact Or.inl hd)
  have hS : ∀ d ∈ ds.flatMap (·.messages), cfg.types.contains d.name = false :=
    fun d hd => hsel d (by simp only [newMsgs, List.mem_append]; exact Or.inr hd)
  have hok : okRoots cfg (extend req xs ds) (allMsgs (extend req xs ds)) = okRoots cfg req (allMsgs req) := by
    rw [allMsgs_extend, allMsgs_eq]
    simp only [okRoots_append, okRoots_unselected hX, okRoots_unselected hS, okRoots_congr hD, okRoots_congr hF,
      List.append_nil]
  have hfail : failedRoots cfg (extend req xs ds) (allMsgs (extend req xs ds)) = failedRoots cfg req (allMsgs req) := by
    rw [allMsgs_extend, allMsgs_eq]
    simp only [failedRoots_append, failedRoots_unselected hX, failedRoots_unselected hS, failedRoots_congr hD,
      failedRoots_congr hF, List.append_nil]
  rw [buildRoots_eq, buildRoots_eq, hok, hfail]

/-- decidable side condition: no message of `req` fails with one of the two errors an extension can repair (the fuel bound,
an unknown-message error for an added name) -/
def rootsStable (cfg : Config) (req : Request) (xs : List MsgD) (ds : List FileD) : Bool :=
  (allMsgs req).all fun d =>
    match buildRoot cfg req d with
    | .error e => e != .recursionLimit && (newNames xs ds).all (fun x => e != .unknownMessage x)
    | .ok _ => true

theorem rootsStable_spec {cfg : Config} {req : Request} {xs : List MsgD} {ds : List FileD}
    (hc : noClash req xs ds = true) (hs : rootsStable cfg req xs ds = true) :
    ∀ d ∈ allMsgs req, buildRoot cfg (extend req xs ds) d = buildRoot cfg req d := by
  intro d hd
  have hsd := List.all_eq_true.mp hs d hd
  rcases extend_buildRoot cfg req xs ds hc d with heq | hr | ⟨x, hx, hr⟩
  · exact heq
  · rw [hr] at hsd; simp at hsd
  · rw [hr] at hsd
    simp only [Bool.and_eq_true, List.all_eq_true] at hsd
    have := hsd.2 x hx
    simp at this

/-- when every selected message of `req` builds, the side condition holds -/
theorem rootsStable_of_no_failures {cfg : Config} {req : Request} (xs : List MsgD) (ds : List FileD)
    (h : (buildRoots cfg req).2 = []) : rootsStable cfg req xs ds = true := by
  rw [buildRoots_eq] at h
  simp only [failedRoots, List.filterMap_eq_nil_iff] at h
  unfold rootsStable
  rw [List.all_eq_true]
  intro d hd
  have := h d hd
  cases hb : buildRoot cfg req d with
  | error e => rw [hb] at this; cases this
  | ok o => rfl

/-- **C12, request part (extras not selected).** Extending the request by messages and dependency files that do not clash
with existing names and are not listed in `types` changes nothing: same roots, same IRs, same order, same failures -
provided no old root fails with the fuel bound or with a dangling reference to an added name. -/
theorem buildRoots_extend_unselected (cfg : Config) (req : Request) (xs : List MsgD) (ds : List FileD)
    (hc : noClash req xs ds = true) (hsel : ∀ m ∈ newMsgs xs ds, cfg.types.contains m.name = false)
    (hs : rootsStable cfg req xs ds = true) :
    buildRoots cfg (extend req xs ds) = buildRoots cfg req :=
  buildRoots_extend_of_unselected cfg req xs ds hsel (rootsStable_spec hc hs)

/-- in particular when every selected message of the old request builds -/
theorem buildRoots_extend_unselected_of_no_failures (cfg : Config) (req : Request) (xs : List MsgD) (ds : List FileD)
    (hc : noClash req xs ds = true) (hsel : ∀ m ∈ newMsgs xs ds, cfg.types.contains m.name = false)
    (hs : (buildRoots cfg req).2 = []) :
    buildRoots cfg (extend req xs ds) = buildRoots cfg req :=
  buildRoots_extend_unselected cfg req xs ds hc hsel (rootsStable_of_no_failures xs ds hs)

/-- one old root, new `types` list: the IR of a type is the same whether or not the added messages are also selected
(`C12_independent` for the `types` list, `rootsStable` for the request) -/
theorem extend_buildRoot_types (cfg : Config) (ts' : List String) (req : Request) (xs : List MsgD) (ds : List FileD)
    (d : MsgD) (hts : ts'.contains d.name = cfg.types.contains d.name)
    (hst : buildRoot cfg (extend req xs ds) d = buildRoot cfg req d) :
    buildRoot { cfg with types := ts' } (extend req xs ds) d = buildRoot cfg req d := by
  cases hsel : cfg.types.contains d.name with
  | true =>
    rw [PGT.Props.C12.C12_independent cfg ts' (extend req xs ds) d hsel (hts.trans hsel), hst]
  | false =>
    rw [PGT.Props.C12.C12_not_selected cfg req d hsel,
      PGT.Props.C12.C12_not_selected { cfg with types := ts' } (extend req xs ds) d (hts.trans hsel)]

/-- does the root come from a message name of the old request? -/
def isOld (req : Request) (m : Msg) : Bool := (allMsgs req).any fun o => o.name == m.info.name

theorem filter_okRoots_old {cfg : Config} {req0 req : Request} {l : List MsgD} (h : ∀ d ∈ l, d ∈ allMsgs req0) :
    (okRoots cfg req l).filter (isOld req0) = okRoots cfg req l := by
  rw [List.filter_eq_self]
  intro m hm
  obtain ⟨d, hd, hb⟩ := mem_okRoots.mp hm
  unfold isOld
  rw [List.any_eq_true]
  exact ⟨d, h d hd, by simp [buildRoot_name hb]⟩

theorem filter_okRoots_new {cfg : Config} {req0 req : Request} {l : List MsgD}
    (h : ∀ d ∈ l, ∀ o ∈ allMsgs req0, o.name ≠ d.name) :
    (okRoots cfg req l).filter (isOld req0) = [] := by
  rw [List.filter_eq_nil_iff]
  intro m hm
  obtain ⟨d, hd, hb⟩ := mem_okRoots.mp hm
  unfold isOld
  rw [List.any_eq_true]
  rintro ⟨o, ho, hn⟩
  exact h d hd o ho (by simpa [buildRoot_name hb] using hn)

/-- **C12, request part (extras selected).** If the added messages are selected too (new `types` list `ts'` that agrees with
the old one on the old message names), the roots that come from messages of the old request are exactly the old roots:
same IRs, same order (also under `sort`). -/
theorem buildRoots_extend_old_roots (cfg : Config) (ts' : List String) (req : Request) (xs : List MsgD) (ds : List FileD)
    (hc : noClash req xs ds = true)
    (hts : ∀ d ∈ allMsgs req, ts'.contains d.name = cfg.types.contains d.name)
    (hs : rootsStable cfg req xs ds = true) :
    (buildRoots { cfg with types := ts' } (extend req xs ds)).1.filter (isOld req) = (buildRoots cfg req).1 := by
  have hst := rootsStable_spec hc hs
  have hold : ∀ d ∈ allMsgs req,
      buildRoot { cfg with types := ts' } (extend req xs ds) d = buildRoot cfg req d :=
    fun d hd => extend_buildRoot_types cfg ts' req xs ds d (hts d hd) (hst d hd)
  have hD : ∀ d ∈ req.deps.flatMap (·.messages), d ∈ allMsgs req := fun d hd => (mem_allMsgs req d).mpr (Or.inr hd)
  have hF : ∀ d ∈ req.file.messages, d ∈ allMsgs req := fun d hd => (mem_allMsgs req d).mpr (Or.inl hd)
  have hnew : ∀ d ∈ newMsgs xs ds, ∀ o ∈ allMsgs req, o.name ≠ d.name := by
    intro d hd o ho hn
    exact noClash_spec hc ho (List.mem_map.mpr ⟨d, hd, hn.symm⟩)
  have hX : ∀ d ∈ xs, ∀ o ∈ allMsgs req, o.name ≠ d.name :=
    fun d hd => hnew d (by simp only [newMsgs, List.mem_append]; exact Or.inl hd)
  have hS : ∀ d ∈ ds.flatMap (·.messages), ∀ o ∈ allMsgs req, o.name ≠ d.name :=
    fun d hd => hnew d (by simp only [newMsgs, List.mem_append]; exact Or.inr hd)
  have hok : (okRoots { cfg with types := ts' } (extend req xs ds) (allMsgs (extend req xs ds))).filter (isOld req) =
      okRoots cfg req (allMsgs req) := by
    rw [allMsgs_extend, allMsgs_eq]
    simp only [okRoots_append, List.filter_append, filter_okRoots_old hD, filter_okRoots_old hF, filter_okRoots_new hX,
      filter_okRoots_new hS, List.append_nil]
    rw [okRoots_congr (fun d hd => hold d (hD d hd)), okRoots_congr (fun d hd => hold d (hF d hd))]
  rw [buildRoots_eq, buildRoots_eq]
  show (if cfg.sort = true then _ else _ : List Msg).filter (isOld req) = _
  by_cases hsort : cfg.sort = true
  · rw [if_pos hsort, if_pos hsort, filter_sortMsgs, hok]
  · rw [if_neg hsort, if_neg hsort]; exact hok

/-! ## 5. a concrete request and extension -/

namespace Example

def msgInner : MsgD := { name := "Inner", fields := [{ name := "s", type := "string" }] }
def msgA : MsgD :=
  { name := "A", fields := [{ name := "id", type := "string" }, { name := "inner", type := "message", typeName := "Inner" }] }
def depFile : FileD := { name := "dep.proto", package := "dep", messages := [msgInner] }
/-- the original request: generated file with `A`, one dependency with `Inner` -/
def req0 : Request := { deps := [depFile], file := { name := "x.proto", package := "x", messages := [msgA] } }

/-- an extra message of the generated file (it refers to `A`; nothing refers to it) -/
def msgExtra : MsgD := { name := "Extra", fields := [{ name := "a", type := "message", typeName := "A" }] }
/-- an extra dependency file -/
def depOther : FileD :=
  { name := "other.proto", package := "other", messages := [{ name := "Other", fields := [{ name := "n", type := "int64" }] }] }

def cfg0 : Config := { types := ["A"] }

example : noClash req0 [msgExtra] [depOther] = true := by decide
example : newNames [msgExtra] [depOther] = ["Extra", "Other"] := by decide
example : ∀ m ∈ newMsgs [msgExtra] [depOther], cfg0.types.contains m.name = false := by decide
example : msgNames (defaultFuel req0) req0 msgA = ["Inner"] := by decide
example : ∀ x ∈ msgNames (defaultFuel req0) req0 msgA, x ∉ newNames [msgExtra] [depOther] := by decide
example : rootsStable cfg0 req0 [msgExtra] [depOther] = true := by decide

/-- the extension changes nothing when `Extra` and `Other` are not selected -/
theorem roots_unchanged : buildRoots cfg0 (extend req0 [msgExtra] [depOther]) = buildRoots cfg0 req0 :=
  buildRoots_extend_unselected cfg0 req0 [msgExtra] [depOther] (by decide) (by decide) (by decide)

/-- and when they are selected too, the root of `A` is still the old one -/
theorem old_roots_unchanged :
    (buildRoots { cfg0 with types := ["A", "Extra", "Other"] } (extend req0 [msgExtra] [depOther])).1.filter (isOld req0) =
      (buildRoots cfg0 req0).1 :=
  buildRoots_extend_old_roots cfg0 ["A", "Extra", "Other"] req0 [msgExtra] [depOther] (by decide) (by decide) (by decide)

/-- the IR of `A` itself (or its build error), for every configuration view -/
theorem A_unchanged (cfg : CfgView) :
    buildMessage (defaultFuel req0) cfg (extend req0 [msgExtra] [depOther]) msgA true "" =
      buildMessage (defaultFuel req0) cfg req0 msgA true "" :=
  extend_buildMessage_eq cfg req0 [msgExtra] [depOther] (defaultFuel req0) msgA true "" (by decide)

/-! The fuel-bound caveat is real - for CYCLIC requests (for acyclic ones see `FuelEnough.lean`): `M` refers to itself, and the
configuration excludes the field four levels down, so the build terminates once it has 8 units of fuel. The default fuel of
the request is 7; one unrelated extra message raises it to 10. -/

def msgM : MsgD :=
  { name := "M", fields := [{ name := "s", type := "string" }, { name := "f", type := "message", typeName := "M" }] }
def reqCyc : Request := { file := { name := "c.proto", package := "c", messages := [msgM] } }
def cfgCyc : Config := { types := ["M"], excludeFields := ["M.f.f.f.f"] }
def isOkSome : Except BuildError (Option Msg) → Bool
  | .ok (some _) => true
  | _ => false
def isFuelBound : Except BuildError (Option Msg) → Bool
  | .error .recursionLimit => true
  | _ => false
def isUnknown (x : String) : Except BuildError (Option Msg) → Bool
  | .error (.unknownMessage y) => x == y
  | _ => false

example : msgM ∈ allMsgs reqCyc := by decide
example : noClash reqCyc [msgExtra] [] = true := by decide
example : ∀ x ∈ msgNames (defaultFuel reqCyc) reqCyc msgM, x ∉ newNames [msgExtra] [] := by decide

/-- under the old request the root `M` hits the fuel bound ... -/
theorem cyc_fails : isFuelBound (buildRoot cfgCyc reqCyc msgM) = true := by decide
/-- ... and with one unrelated extra message in the file it builds -/
theorem cyc_builds_after_extension : isOkSome (buildRoot cfgCyc (extend reqCyc [msgExtra] []) msgM) = true := by
  decide

theorem cyc_fails_eq : buildRoot cfgCyc reqCyc msgM = .error .recursionLimit := by
  have h := cyc_fails
  cases hb : buildRoot cfgCyc reqCyc msgM with
  | ok o => rw [hb] at h; cases h
  | error e =>
    rw [hb] at h
    cases e <;> first | rfl | cases h

/-- a dangling reference that the extension resolves: `D.e` refers to `Extra` -/
def msgD : MsgD := { name := "D", fields := [{ name := "e", type := "message", typeName := "Extra" }] }
def reqD : Request := { file := { name := "d.proto", package := "d", messages := [msgD, msgA, msgInner] } }
def cfgD : Config := { types := ["D"] }

example : noClash reqD [msgExtra] [] = true := by decide
theorem dangling_fails : isUnknown "Extra" (buildRoot cfgD reqD msgD) = true := by decide
theorem dangling_builds_after_extension : isOkSome (buildRoot cfgD (extend reqD [msgExtra] []) msgD) = true := by decide

end Example

/-! ## 6. the unconditional statements, and why they do not hold -/

/-- the unconditional form of part 2: under no-clash, and with no reachable name among the added ones, `buildRoot` is
unchanged. It is FALSE (see `not_extend_buildRoot_full`): the extended request has more default fuel, so a root that ran
into the fuel bound may build - this needs a CYCLIC request (plus an exclusion that cuts the cycle), see `Example.cyc_fails_eq`;
for acyclic requests the fuel-bound alternative disappears (`FuelEnough.extend_buildRoot_acyclic`). What holds in general is
`extend_buildRoot` / `extend_buildRoot_unreferenced`. -/
def extend_buildRoot_full : Prop :=
  ∀ (cfg : Config) (req : Request) (xs : List MsgD) (ds : List FileD) (desc : MsgD),
    noClash req xs ds = true → (∀ x ∈ msgNames (defaultFuel req) req desc, x ∉ newNames xs ds) →
    buildRoot cfg (extend req xs ds) desc = buildRoot cfg req desc

theorem not_extend_buildRoot_full : ¬ extend_buildRoot_full := by
  intro h
  have heq := h Example.cfgCyc Example.reqCyc [Example.msgExtra] [] Example.msgM (by decide) (by decide)
  have h1 := Example.cyc_fails
  have h2 := Example.cyc_builds_after_extension
  rw [heq] at h2
  cases hb : buildRoot Example.cfgCyc Example.reqCyc Example.msgM with
  | error e => rw [hb] at h2; cases h2
  | ok o => rw [hb] at h1; cases h1

/-- the unconditional form of part 3 (no `rootsStable` hypothesis). FALSE for the same reason. -/
def buildRoots_extend_unselected_full : Prop :=
  ∀ (cfg : Config) (req : Request) (xs : List MsgD) (ds : List FileD),
    noClash req xs ds = true → (∀ m ∈ newMsgs xs ds, cfg.types.contains m.name = false) →
    buildRoots cfg (extend req xs ds) = buildRoots cfg req

theorem not_buildRoots_extend_unselected_full : ¬ buildRoots_extend_unselected_full := by
  intro h
  have heq := h Example.cfgCyc Example.reqCyc [Example.msgExtra] [] (by decide) (by decide)
  have h1 : (buildRoots Example.cfgCyc Example.reqCyc).2.length = 1 := by decide
  have h2 : (buildRoots Example.cfgCyc (extend Example.reqCyc [Example.msgExtra] [])).2.length = 0 := by decide
  rw [heq, h1] at h2
  cases h2

end PGT.Proofs.RequestIndep

section Axioms
open PGT.Proofs.RequestIndep
#print axioms tf_isMessage_refTag
#print axioms build_req_congr
#print axioms build_reads_only_findMessage
#print axioms build_le
#print axioms fuel_stable
#print axioms buildRoot_le
#print axioms reqLe_extend
#print axioms findMessage_extend_of_unresolved
#print axioms extend_buildRoot
#print axioms extend_buildRoot_ok
#print axioms extend_buildRoot_error
#print axioms extend_buildMessage_eq
#print axioms extend_buildRoot_unreferenced
#print axioms buildRoots_extend_unselected
#print axioms buildRoots_extend_unselected_of_no_failures
#print axioms buildRoots_extend_old_roots
#print axioms Example.roots_unchanged
#print axioms Example.old_roots_unchanged
#print axioms Example.cyc_fails_eq
#print axioms not_extend_buildRoot_full
#print axioms not_buildRoots_extend_unselected_full
end Axioms
